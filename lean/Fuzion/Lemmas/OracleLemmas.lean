/-
  Fuzion.Lemmas.OracleLemmas — helper lemmas for Props/OracleSound.lean (soundness of the
  driver's transition oracles on the model's own steps):

  * duplicate-free token ledgers (`LedgersNodup`) and their preservation by every operation,
  * the bridge from `NoDebit` to the `List.all` form `Cmp.walletsKept`,
  * where a finalized record of the post-state comes from (`FinOrigin`),
  * the acting wallet of the oracle (`Orc.actorOf`) against FrameLemmas' `actor`,
  * message codes (`outMsgCode`), `poolCodes`, and sorting facts for `sortCodes`.
  Core library only.
-/
import Fuzion.Driver.Oracles
import Fuzion.Lemmas.FrameLemmas
import Fuzion.Lemmas.BuyLemmas
import Fuzion.Props.C04
import Fuzion.Props.C19
import Fuzion.Lemmas.AcctLemmas
import Fuzion.Lemmas.InvLemmas
import Fuzion.Lemmas.TradeLemmas
namespace Fuzion

/-! ### duplicate-free ledgers -/

/-- the three token ledgers are maps: no key occurs twice (the harness dumps maps; `lset` keeps
    this, see `stepF_ledgersNodup`) -/
structure LedgersNodup (w : World) : Prop where
  bank : (akeys w.bank).Nodup
  cw20 : (akeys w.cw20).Nodup
  nft : (akeys w.nft).Nodup

theorem nodup_lset {κ : Type} [DecidableEq κ] {l : List (κ × Nat)} (k : κ) (v : Nat)
    (h : (akeys l).Nodup) : (akeys (lset l k v)).Nodup := nodup_akeys_ainsert k v h

theorem bankSub_nodup {a : Nat} {cs : List Coin} :
    ∀ {bank b : Ledger}, bankSub bank a cs = some b → (akeys bank).Nodup → (akeys b).Nodup := by
  induction cs with
  | nil =>
    intro bank b h hn
    simp only [bankSub, Option.some.injEq] at h; subst h; exact hn
  | cons c cs ih =>
    intro bank b h hn
    simp only [bankSub] at h
    split at h
    · cases h
    · exact ih h (nodup_lset _ _ hn)

theorem bankAdd_nodup (a : Nat) (cs : List Coin) :
    ∀ (bank : Ledger), (akeys bank).Nodup → (akeys (bankAdd bank a cs)).Nodup := by
  induction cs with
  | nil => intro bank hn; exact hn
  | cons c cs ih =>
    intro bank hn
    simp only [bankAdd]
    exact ih _ (nodup_lset _ _ hn)

theorem bankSend_nodup {bank b : Ledger} {src dst : Nat} {coins : List Coin}
    (h : bankSend bank src dst coins = some b) (hn : (akeys bank).Nodup) : (akeys b).Nodup := by
  unfold bankSend at h
  dsimp only at h
  split at h
  · cases h
  · split at h
    · cases h
    · next b0 hb0 =>
      simp only [Option.some.injEq] at h; subst h
      exact bankAdd_nodup _ _ _ (bankSub_nodup hb0 hn)

theorem ledgerMove_nodup {l l' : Ledger} {g src dst amt : Nat}
    (h : ledgerMove l g src dst amt = some l') (hn : (akeys l).Nodup) : (akeys l').Nodup := by
  unfold ledgerMove at h
  split at h
  · cases h
  · simp only [Option.some.injEq] at h; subst h
    exact nodup_lset _ _ (nodup_lset _ _ hn)

theorem dispatch1_ledgersNodup {w w' : World} {x : OutMsg} (h : dispatch1 w x = some w')
    (hl : LedgersNodup w) : LedgersNodup w' := by
  cases x with
  | bankSend to coins =>
    simp only [dispatch1] at h
    split at h
    · cases h
    · next b hb =>
      simp only [Option.some.injEq] at h; subst h
      exact ⟨bankSend_nodup hb hl.bank, hl.cw20, hl.nft⟩
  | cw20Transfer token to amt =>
    simp only [dispatch1] at h
    repeat' split at h
    all_goals first
      | (cases h; done)
      | (simp only [Option.some.injEq] at h; subst h; exact hl)
      | skip
    next l hlm =>
      simp only [Option.some.injEq] at h; subst h
      exact ⟨hl.bank, ledgerMove_nodup hlm hl.cw20, hl.nft⟩
  | nftTransfer coll tid to =>
    simp only [dispatch1] at h
    repeat' split at h
    all_goals first
      | (cases h; done)
      | (simp only [Option.some.injEq] at h; subst h; exact hl)
      | skip
    next hown =>
      simp only [Option.some.injEq] at h; subst h
      exact ⟨hl.bank, hl.cw20, nodup_lset _ _ hl.nft⟩
  | fundPool dep coin =>
    simp only [dispatch1] at h
    repeat' split at h
    all_goals first
      | (cases h; done)
      | skip
    next b hb =>
      simp only [Option.some.injEq] at h; subst h
      exact ⟨bankSend_nodup hb hl.bank, hl.cw20, hl.nft⟩

theorem dispatchAll_ledgersNodup {fail : Nat → Bool} {ms : List OutMsg} :
    ∀ {w w' : World} {i : Nat}, dispatchAll fail w ms i = some w' → LedgersNodup w →
      LedgersNodup w' := by
  induction ms with
  | nil =>
    intro w w' i h hl
    simp only [dispatchAll, Option.some.injEq] at h
    subst h; exact hl
  | cons x ms ih =>
    intro w w' i h hl
    simp only [dispatchAll] at h
    split at h
    · cases h
    · split at h
      · cases h
      · rename_i w1 h1
        exact ih h (dispatch1_ledgersNodup h1 hl)

theorem deposit_ledgersNodup {w w1 : World} {op : Op} (h : op.deposit w = .ok w1)
    (hl : LedgersNodup w) : LedgersNodup w1 := by
  cases op with
  | exec s fu m =>
    simp only [Op.deposit] at h
    split at h
    · simp only [Except.ok.injEq] at h; subst h; exact hl
    · split at h
      · cases h
      · next b hb =>
        simp only [Except.ok.injEq] at h; subst h
        exact ⟨bankSend_nodup hb hl.bank, hl.cw20, hl.nft⟩
  | send20 t s a i =>
    simp only [Op.deposit] at h
    split at h
    · cases h
    · split at h
      · cases h
      · split at h
        · cases h
        · next l hlm =>
          simp only [Except.ok.injEq] at h; subst h
          exact ⟨hl.bank, ledgerMove_nodup hlm hl.cw20, hl.nft⟩
  | send721 co s t i =>
    simp only [Op.deposit] at h
    split at h
    · cases h
    · split at h
      · cases h
      · simp only [Except.ok.injEq] at h; subst h
        exact ⟨hl.bank, hl.cw20, nodup_lset _ _ hl.nft⟩
  | royalty s m => simp only [Op.deposit, Except.ok.injEq] at h; subst h; exact hl
  | setAdmin s c n => simp only [Op.deposit, Except.ok.injEq] at h; subst h; exact hl
  | advance a b => simp only [Op.deposit, Except.ok.injEq] at h; subst h; exact hl

/-- every operation keeps the three ledgers duplicate-free -/
theorem stepF_ledgersNodup {fail : Nat → Bool} {w : World} {op : Op} (hl : LedgersNodup w) :
    LedgersNodup (stepF fail w op).1 := by
  cases ho : op.asExec with
  | some t =>
    obtain ⟨c, f, msg⟩ := t
    rcases stepF_market_full (fail := fail) (w := w) ho with
      ⟨e, h⟩ | ⟨w1, m', msgs, w2, hd, _, hdd, h⟩
    · rw [h]; exact hl
    · rw [h]
      have h1 := deposit_ledgersNodup hd hl
      exact dispatchAll_ledgersNodup hdd ⟨h1.bank, h1.cw20, h1.nft⟩
  | none =>
    cases op with
    | exec s fu m => simp [Op.asExec] at ho
    | send20 t s a i => simp [Op.asExec] at ho
    | send721 co s t i => simp [Op.asExec] at ho
    | royalty s m =>
      rcases stepF_royalty fail w s m with ⟨e, _, h⟩ | ⟨r, _, h⟩ <;> rw [h] <;>
        exact ⟨hl.bank, hl.cw20, hl.nft⟩
    | setAdmin s c n =>
      simp only [stepF]
      repeat' split
      all_goals exact ⟨hl.bank, hl.cw20, hl.nft⟩
    | advance a b => exact ⟨hl.bank, hl.cw20, hl.nft⟩

theorem run_ledgersNodup {w : World} (hl : LedgersNodup w) (ops : List Op) :
    LedgersNodup (run w ops) := by
  induction ops generalizing w with
  | nil => exact hl
  | cons op ops ih => exact ih (stepF_ledgersNodup hl)

/-! ### frames of `stepF` under an arbitrary fault -/

/-- nothing but a registry message writes the registry, whatever the injected fault -/
theorem stepF_reg (fail : Nat → Bool) {w : World} {op : Op} (hop : ∀ s m, op ≠ .royalty s m) :
    (stepF fail w op).1.reg = w.reg := by
  cases ho : op.asExec with
  | some t =>
    obtain ⟨c, f, msg⟩ := t
    rcases stepF_market (fail := fail) (w := w) ho with ⟨e, h⟩ | ⟨m', msgs, w2, _, _, hc, h⟩
    · rw [h]
    · rw [h]; exact hc.reg
  | none =>
    cases op with
    | exec s fu m => simp [Op.asExec] at ho
    | send20 t s a i => simp [Op.asExec] at ho
    | send721 co s t i => simp [Op.asExec] at ho
    | royalty s m => exact absurd rfl (hop s m)
    | setAdmin s c n =>
      simp only [stepF]
      repeat' split
      all_goals rfl
    | advance a b => rfl

/-- an op that does not reach the marketplace emits no message -/
theorem stepF_msgs_of_asExec_none (fail : Nat → Bool) {w : World} {op : Op}
    (ho : op.asExec = none) : (stepF fail w op).2.msgs = [] := by
  cases op with
  | exec s fu m => simp [Op.asExec] at ho
  | send20 t s a i => simp [Op.asExec] at ho
  | send721 co s t i => simp [Op.asExec] at ho
  | royalty s m =>
    rcases stepF_royalty fail w s m with ⟨e, _, h⟩ | ⟨r, _, h⟩ <;> rw [h] <;> rfl
  | setAdmin s c n =>
    simp only [stepF]
    repeat' split
    all_goals rfl
  | advance a b => rfl

/-- a non-deposit message with coins attached leaves the world as it was (it is refused, and the
    coins roll back), whatever the injected fault -/
theorem stepF_nondeposit_funds (fail : Nat → Bool) {w : World} {s : Nat} {f : List Coin}
    {m : ExecMsg} (hk : m.takesCoins = false) (hf : f ≠ []) :
    (stepF fail w (.exec s f m)).1 = w := by
  rcases stepF_market (fail := fail) (w := w) (op := .exec s f m) rfl with
    ⟨e, h⟩ | ⟨m', msgs, w2, hx, _, _, _⟩
  · rw [h]
  · rw [C19_refused hk hf] at hx; cases hx

/-! ### `walletsKept` from `NoDebit` -/

/-- the `List.all` form the driver evaluates follows from `NoDebit` for every selected account,
    when the pre-state ledgers are maps -/
theorem walletsKept_of_noDebit {w w' : World} {who : Nat → Bool} (hl : LedgersNodup w)
    (h : ∀ y, who y = true → NoDebit y w w') : Cmp.walletsKept w w' who = true := by
  unfold Cmp.walletsKept
  simp only [Bool.and_eq_true, List.all_eq_true, Bool.or_eq_true, Bool.not_eq_true',
    decide_eq_true_eq, beq_iff_eq]
  refine ⟨⟨?_, ?_⟩, ?_⟩
  · intro p hp
    cases hw : who p.1.1 with
    | false => exact .inl rfl
    | true =>
      right
      have h1 := (h _ hw).bank p.1.2
      have h2 : alookup p.1 w.bank = some p.2 := mem_nodup_alookup hl.bank hp
      have h3 : lget w.bank p.1 = p.2 := by simp [lget, h2]
      rw [← h3]; exact h1
  · intro p hp
    cases hw : who p.1.2 with
    | false => exact .inl rfl
    | true =>
      right
      have h1 := (h _ hw).cw20 p.1.1
      have h2 : alookup p.1 w.cw20 = some p.2 := mem_nodup_alookup hl.cw20 hp
      have h3 : lget w.cw20 p.1 = p.2 := by simp [lget, h2]
      rw [← h3]; exact h1
  · intro p hp
    cases hw : who p.2 with
    | false => exact .inl rfl
    | true =>
      right
      exact (h _ hw).nft p.1 (mem_nodup_alookup hl.nft hp)

/-! ### where a finalized record comes from (C08) -/

/-- every finalized record of `ls'` is a record of `ls`, or the finalization at time `now` of the
    record `ls` holds under the same key (same goods, ask and whitelist) -/
def FinOrigin (now : Nat) (ls ls' : List ((Nat × Nat) × Listing)) : Prop :=
  ∀ k l', (k, l') ∈ ls' → l'.status = .finalized → (k, l') ∈ ls ∨
    ∃ l0, alookup k ls = some l0 ∧ l'.finalizedAt = some now ∧ l'.forSale = l0.forSale ∧
      l'.ask = l0.ask ∧ l'.whitelist = l0.whitelist

theorem finOrigin_refl (now : Nat) (ls : List ((Nat × Nat) × Listing)) : FinOrigin now ls ls :=
  fun _ _ h _ => .inl h

theorem finOrigin_of_eq {now : Nat} {ls ls' : List ((Nat × Nat) × Listing)} (h : ls' = ls) :
    FinOrigin now ls ls' := h ▸ finOrigin_refl now ls

theorem finOrigin_aerase (now : Nat) (ls : List ((Nat × Nat) × Listing)) (key : Nat × Nat) :
    FinOrigin now ls (aerase key ls) :=
  fun _ _ h _ => .inl (mem_aerase.1 h).1

theorem finOrigin_ainsert_notfin {now : Nat} {ls : List ((Nat × Nat) × Listing)} {key : Nat × Nat}
    {l : Listing} (h : l.status ≠ .finalized) : FinOrigin now ls (ainsert key l ls) := by
  intro k l' hm hs
  rcases mem_ainsert.1 hm with e | ⟨hm, _⟩
  · cases e; exact absurd hs h
  · exact .inl hm

theorem finOrigin_ainsert_aerase_notfin {now : Nat} {ls : List ((Nat × Nat) × Listing)}
    {key key2 : Nat × Nat} {l : Listing} (h : l.status ≠ .finalized) :
    FinOrigin now ls (ainsert key l (aerase key2 ls)) := by
  intro k l' hm hs
  rcases mem_ainsert.1 hm with e | ⟨hm, _⟩
  · cases e; exact absurd hs h
  · exact .inl (mem_aerase.1 hm).1

theorem finOrigin_ainsert_fin {now : Nat} {ls : List ((Nat × Nat) × Listing)} {key : Nat × Nat}
    {l0 l : Listing} (h0 : alookup key ls = some l0) (h1 : l.finalizedAt = some now)
    (h2 : l.forSale = l0.forSale) (h3 : l.ask = l0.ask) (h4 : l.whitelist = l0.whitelist) :
    FinOrigin now ls (ainsert key l ls) := by
  intro k l' hm hs
  rcases mem_ainsert.1 hm with e | ⟨hm, _⟩
  · cases e; exact .inr ⟨l0, h0, h1, h2, h3, h4⟩
  · exact .inl hm

syntax "finorigin_edit " ident : tactic
macro_rules
  | `(tactic| finorigin_edit $h:ident) => `(tactic| (
      try dsimp only at $h:ident
      repeat' split at $h:ident
      all_goals first
        | (cases $h:ident; done)
        | (simp only [Except.ok.injEq, Prod.mk.injEq] at $h:ident
           obtain ⟨hm, _⟩ := $h:ident
           subst hm
           refine finOrigin_ainsert_notfin ?_
           simp_all)))

theorem changeAsk_finOrigin {now : Nat} {m m' : Market} {u id : Nat} {r : RawGBal} {out : List OutMsg}
    (h : changeAsk m u id r = .ok (m', out)) : FinOrigin now m.listings m'.listings := by
  unfold changeAsk at h; finorigin_edit h

theorem addToListing_finOrigin {now : Nat} {m m' : Market} {funds : Funds} {u id : Nat}
    {out : List OutMsg} (h : addToListing m funds u id = .ok (m', out)) :
    FinOrigin now m.listings m'.listings := by
  unfold addToListing at h; finorigin_edit h

theorem addToListingNft_finOrigin {now : Nat} {m m' : Market} {nft : Nft} {u id : Nat}
    {out : List OutMsg} (h : addToListingNft m u nft id = .ok (m', out)) :
    FinOrigin now m.listings m'.listings := by
  unfold addToListingNft at h; finorigin_edit h

theorem finalize_finOrigin {m m' : Market} {env : Env} {u id secs : Nat} {out : List OutMsg}
    (h : finalize m env u id secs = .ok (m', out)) : FinOrigin env.nowNs m.listings m'.listings := by
  unfold finalize at h
  split at h
  · cases h
  rename_i l hl
  repeat' split at h
  all_goals first | (cases h; done) | skip
  all_goals
    simp only [Except.ok.injEq, Prod.mk.injEq] at h
    obtain ⟨rfl, _⟩ := h
    exact finOrigin_ainsert_fin hl rfl rfl rfl rfl

/-- after an accepted message every finalized record is an old record or the finalization, at
    the current block time, of the record under the same key -/
theorem execute_finOrigin {m m' : Market} {env : Env} {s : Nat} {f : List Coin} {msg : ExecMsg}
    {out : List OutMsg} (h : execute m env s f msg = .ok (m', out)) :
    FinOrigin env.nowNs m.listings m'.listings := by
  unfold execute at h
  split at h
  · cases h
  cases msg with
  | feeCycle =>
    dsimp only at h
    unfold cycleFee at h
    dsimp only at h
    split at h
    · cases h
    · simp only [Except.ok.injEq, Prod.mk.injEq] at h
      obtain ⟨rfl, _⟩ := h
      exact finOrigin_refl _ _
  | createListing id c =>
    obtain ⟨l', _, _, _, _, hst, hl, _⟩ := createListing_lcreate h
    rw [hl]; exact finOrigin_ainsert_notfin (by rw [hst]; decide)
  | addToListing id => exact addToListing_finOrigin h
  | changeAsk id ask => exact changeAsk_finOrigin h
  | finalize id secs => exact finalize_finOrigin h
  | deleteListing id =>
    obtain ⟨l0, _, _, _, _, rfl, _⟩ := deleteListing_spec h
    exact finOrigin_aerase _ _ _
  | createBucket id =>
    obtain ⟨b', _, _, _, _, _, hl, _⟩ := createBucket_bcreate h
    exact finOrigin_of_eq hl
  | addToBucket id =>
    obtain ⟨b0, b', _, _, _, _, _, _, hl, _⟩ := addToBucket_bedit h
    exact finOrigin_of_eq hl
  | removeBucket id =>
    obtain ⟨b0, _, _, rfl, _⟩ := withdrawBucket_spec h
    exact finOrigin_refl _ _
  | buy lid bid =>
    obtain ⟨k, l, b, l', b', _, _, _, _, _, _, _, _, _, _, _, _, _, hst', _, _, _, rfl⟩ := buy_spec h
    exact finOrigin_ainsert_aerase_notfin (by rw [hst']; decide)
  | withdrawPurchased lid =>
    obtain ⟨k, l, _, _, _, rfl, _⟩ := withdrawPurchased_spec h
    exact finOrigin_aerase _ _ _
  | receive a amt i =>
    dsimp only at h
    unfold receive at h
    repeat' split at h
    all_goals first
      | (cases h; done)
      | skip
    · obtain ⟨l', _, _, _, _, hst, hl, _⟩ := createListing_lcreate h
      rw [hl]; exact finOrigin_ainsert_notfin (by rw [hst]; decide)
    · exact addToListing_finOrigin h
    · obtain ⟨b', _, _, _, _, _, hl, _⟩ := createBucket_bcreate h
      exact finOrigin_of_eq hl
    · obtain ⟨b0, b', _, _, _, _, _, _, hl, _⟩ := addToBucket_bedit h
      exact finOrigin_of_eq hl
  | receiveNft a t i =>
    dsimp only at h
    unfold receiveNft at h
    repeat' split at h
    all_goals first
      | (cases h; done)
      | skip
    · obtain ⟨l', _, _, _, _, hst, hl, _⟩ := createListingNft_lcreate h
      rw [hl]; exact finOrigin_ainsert_notfin (by rw [hst]; decide)
    · exact addToListingNft_finOrigin h
    · obtain ⟨b', _, _, _, _, _, hl, _⟩ := createBucketNft_bcreate h
      exact finOrigin_of_eq hl
    · obtain ⟨b0, b', _, _, _, _, _, _, hl, _⟩ := addToBucketNft_bedit h
      exact finOrigin_of_eq hl

/-! ### the C08 monitor on an accepted message -/

theorem wf_finalized_expiry {j u : Nat} {k : Nat × Nat} {l : Listing}
    (h : wfListing j u k l = true) (hs : l.status = .finalized) : ∃ e, l.expiresAt = some e := by
  unfold wfListing at h
  rw [hs] at h
  simp only [Bool.and_eq_true] at h
  have ht := h.2.1.1
  unfold wfTimes at ht
  cases hf : l.finalizedAt <;> cases he : l.expiresAt <;> simp_all

/-- the monitor accepts a post-state with the same marketplace record -/
theorem monotone08_same {a b : World} (hI : IdsInv a.mkt) (hm : b.mkt = a.mkt) :
    Cmp.monotone08 a b = true := by
  unfold Cmp.monotone08
  rw [List.all_eq_true]
  rintro ⟨k, l⟩ hp
  have hfind : findById l.id a.mkt.listings = some (k, l) := hI.findById_iff.2 ⟨hp, rfl⟩
  dsimp only
  rw [hm, hfind]
  dsimp only
  cases hs : l.status <;> simp [Cmp.statusRank]

/-- the monitor accepts the post-state of any accepted message -/
theorem monotone08_execute {a b : World} {c : Nat} {f : List Coin} {msg : ExecMsg}
    {out : List OutMsg} (hI : IdsInv a.mkt) (hW : WFInv a.junoD a.usdcD a.mkt)
    (hx : execute a.mkt a.env c f msg = .ok (b.mkt, out)) : Cmp.monotone08 a b = true := by
  unfold Cmp.monotone08
  rw [List.all_eq_true]
  rintro ⟨k, l⟩ hp
  have hfind : findById l.id a.mkt.listings = some (k, l) := hI.findById_iff.2 ⟨hp, rfl⟩
  have hused : l.id ∈ b.mkt.listingUsed := mchange_used (execute_mchange hx) _ (hI.lused _ hp)
  have hnow : a.env.nowNs = a.nowNs := rfl
  dsimp only
  cases mchange_fate hI hfind (execute_mchange hx) with
  | kept h =>
    rw [h]
    dsimp only
    cases hs : l.status <;> simp [Cmp.statusRank]
  | edited l' hst hcl hact h hid hcr hst' hcl' =>
    rw [h]
    dsimp only
    rw [hst]
    rcases hst' with h1 | h1
    · rw [h1]; simp [Cmp.statusRank]
    · rw [h1]
      rcases execute_finOrigin hx k l' (findById_some h).2 h1 with hm | ⟨l0, hl0, e1, e2, e3, e4⟩
      · have e1 := mem_nodup_alookup hI.lkeys hm
        have e2 := mem_nodup_alookup hI.lkeys hp
        rw [e1] at e2
        cases e2
        rw [hst] at h1; cases h1
      · have e0 := mem_nodup_alookup hI.lkeys hp
        rw [e0] at hl0
        cases hl0
        rw [hnow] at e1
        simp [Cmp.statusRank, e1, e2, e3, e4]
  | deleted hmsg hown hcl hexp h =>
    rw [h]
    dsimp only
    cases hs : l.status with
    | preparing => simp [hused]
    | closed => simp [hused]
    | finalized =>
      obtain ⟨e, he⟩ := wf_finalized_expiry (hW.lwf _ hp) hs
      dsimp only at he
      have := hexp e he
      rw [hnow] at this
      simp [he, this, hused]
  | bought bid l' hmsg hst hcl hexp h hid hask hwl hex hfin hst' hcr' hcl' =>
    rw [h]
    dsimp only
    rw [hst, hst']
    simp [Cmp.statusRank, hask, hwl, hex, hfin]
  | withdrawn hmsg hcl hst hown h =>
    rw [h]
    dsimp only
    rw [hst]
    simp [hused]

/-! ### the acting wallet of `o04r` -/

theorem ite_true_of_neg {c : Prop} [Decidable c] {b : Bool} (h : ¬ c → b = true) :
    (if c then true else b) = true := by
  split
  · rfl
  · exact h ‹_›

/-- the CW20 hook reaches its handler only when the caller answers `TokenInfo` -/
theorem execute_receive_token {m : Market} {env : Env} {c : Nat} {f : List Coin} {a : RawAddr}
    {amt : Nat} {i : Option Inner} {r : Market × List OutMsg}
    (h : execute m env c f (.receive a amt i) = .ok r) : env.isToken20 c = true := by
  unfold execute at h
  split at h
  · cases h
  dsimp only at h
  unfold receive at h
  split at h
  · cases h
  split at h
  · cases h
  · rename_i h2; simpa using h2

/-- the CW721 hook reaches its handler only when the caller is a contract -/
theorem execute_receiveNft_contract {m : Market} {env : Env} {c : Nat} {f : List Coin} {a : RawAddr}
    {t : Nat} {i : Option Inner} {r : Market × List OutMsg}
    (h : execute m env c f (.receiveNft a t i) = .ok r) : env.isContract c = true := by
  unfold execute at h
  split at h
  · cases h
  dsimp only at h
  unfold receiveNft at h
  split at h
  · cases h
  split at h
  · cases h
  · rename_i h2; simpa using h2

/-- On an accepted marketplace call that is not a hook forged by a contract, the wallet the
    oracle `o04r` holds responsible (`Orc.actorOf`) is the wallet the model acts for (`actor`):
    a hook called directly by a non-contract is refused, so the two can only differ on ops the
    oracle leaves to C18. -/
theorem actorOf_eq_actor {w : World} {op : Op} {c : Nat} {f : List Coin} {msg : ExecMsg}
    {r : Market × List OutMsg} (ho : op.asExec = some (c, f, msg))
    (hx : execute w.mkt w.env c f msg = .ok r)
    (hnf : ∀ caller tag, Orc.isForgedHook w op = some (caller, tag) → (w.kindOf caller).isSome = false) :
    Orc.actorOf w op = some (actor msg c) := by
  cases op with
  | exec s fu m =>
    simp only [Op.asExec, Option.some.injEq, Prod.mk.injEq] at ho
    obtain ⟨rfl, rfl, rfl⟩ := ho
    cases m with
    | receive a amt i =>
      cases a with
      | invalid => rfl
      | valid u =>
        exfalso
        have h1 := hnf s _ rfl
        have h2 := execute_receive_token hx
        simp only [World.env] at h2
        cases hk : w.kindOf s with
        | none => rw [hk] at h2; cases h2
        | some ci => rw [hk] at h1; cases h1
    | receiveNft a t i =>
      cases a with
      | invalid => rfl
      | valid u =>
        exfalso
        have h1 := hnf s _ rfl
        have h2 := execute_receiveNft_contract hx
        simp only [World.env] at h2
        rw [h1] at h2; cases h2
    | _ => rfl
  | send20 t s a i =>
    simp only [Op.asExec, Option.some.injEq, Prod.mk.injEq] at ho
    obtain ⟨rfl, rfl, rfl⟩ := ho
    rfl
  | send721 co s t i =>
    simp only [Op.asExec, Option.some.injEq, Prod.mk.injEq] at ho
    obtain ⟨rfl, rfl, rfl⟩ := ho
    rfl
  | royalty s m => simp [Op.asExec] at ho
  | setAdmin s c n => simp [Op.asExec] at ho
  | advance a b => simp [Op.asExec] at ho

/-- ops that do not reach the marketplace have no acting wallet -/
theorem actorOf_none_iff {w : World} {op : Op} : Orc.actorOf w op = none ↔ op.asExec = none := by
  cases op with
  | exec s fu m =>
    cases m with
    | receive a amt i => cases a <;> simp [Orc.actorOf, Op.asExec] <;> split <;> simp
    | receiveNft a t i => cases a <;> simp [Orc.actorOf, Op.asExec] <;> split <;> simp
    | _ => simp [Orc.actorOf, Op.asExec]
  | _ => simp [Orc.actorOf, Op.asExec]

/-- a listing filed under somebody other than the acting wallet is untouched by an accepted
    message, unless it is the finalized, unexpired listing a purchase takes -/
theorem o04r_listing_entry {m m' : Market} {env : Env} {s : Nat} {f : List Coin} {msg : ExecMsg}
    {out : List OutMsg} {j u : Nat} (hI : IdsInv m) (hW : WFInv j u m)
    (hx : execute m env s f msg = .ok (m', out)) {p : (Nat × Nat) × Listing} (hp : p ∈ m.listings)
    (hne : p.1.1 ≠ actor msg s) :
    alookup p.1 m'.listings = some p.2 ∨
    ((∃ bid, msg = .buy p.2.id bid) ∧ p.2.status = .finalized ∧
      ∃ e, p.2.expiresAt = some e ∧ env.nowNs ≤ e) := by
  obtain ⟨k, l⟩ := p
  have hlook : alookup k m.listings = some l := mem_nodup_alookup hI.lkeys hp
  rcases C04_frame_listings hI hx k hne with h | ⟨lid, bid, l2, l', rfl, hk, hl2, hst, hcl, _⟩
  · left; rw [h]; exact hlook
  · right
    rw [hlook] at hl2
    cases hl2
    have hf := hI.lfiled _ hp
    dsimp only at hf
    have hid : l.id = lid := by
      rw [hf] at hk
      simp only [Prod.mk.injEq] at hk
      exact hk.2
    obtain ⟨e, he⟩ := wf_finalized_expiry (hW.lwf _ hp) hst
    refine ⟨⟨bid, by rw [hid]⟩, hst, e, he, ?_⟩
    unfold execute at hx
    split at hx
    · cases hx
    dsimp only at hx
    obtain ⟨k2, l3, b, l4, b4, hfind, _, _, _, _, _, _, hexp, _⟩ := buy_spec hx
    have hfind2 : findById lid m.listings = some (k, l) := hI.findById_iff.2 ⟨hp, hid⟩
    rw [hfind2] at hfind
    cases hfind
    exact hexp e he

/-- a bucket filed under somebody other than the acting wallet is untouched by an accepted
    message -/
theorem o04r_bucket_entry {m m' : Market} {env : Env} {s : Nat} {f : List Coin} {msg : ExecMsg}
    {out : List OutMsg} (hI : IdsInv m)
    (hx : execute m env s f msg = .ok (m', out)) {p : (Nat × Nat) × Bucket} (hp : p ∈ m.buckets)
    (hne : p.1.1 ≠ actor msg s) : alookup p.1 m'.buckets = some p.2 := by
  obtain ⟨k, b⟩ := p
  have hlook : alookup k m.buckets = some b := mem_nodup_alookup hI.bkeys hp
  rcases C04_frame_buckets hI hx k hne with h | ⟨lid, bid, kl, l, b', _, _, _, hnone, _⟩
  · rw [h]; exact hlook
  · rw [hlook] at hnone; cases hnone

/-! ### C10: the pool messages of a response -/

/-- the pending fee of the record that leaves the tables (or, for a purchase, of the paying
    bucket, which is re-filed with a fresh fee) with an accepted message -/
def leavingFee (m : Market) (s : Nat) : ExecMsg → Option Coin
  | .withdrawPurchased lid => (findById lid m.listings).bind (·.2.fee)
  | .removeBucket bid => (alookup (s, bid) m.buckets).bind (·.fee)
  | .buy _ bid => (alookup (s, bid) m.buckets).bind (·.fee)
  | _ => none

theorem poolOf_royMsg {env : Env} {x : OutMsg} (h : IsRoyMsg env x) : x.poolOf = none := by
  obtain ⟨c, r, k, a, _, rfl | rfl⟩ := h <;> rfl

theorem filterMap_poolOf_nil {ms : List OutMsg} (h : ∀ x ∈ ms, x.poolOf = none) :
    ms.filterMap OutMsg.poolOf = [] := by
  induction ms with
  | nil => rfl
  | cons a t ih =>
    rw [List.filterMap_cons, h a (List.mem_cons_self ..)]
    exact ih (fun x hx => h x (List.mem_cons_of_mem _ hx))

/-- "Every fee … reaches the community pool exactly once", message level: the pool messages of
    an accepted response are exactly the pending fee of the record that leaves (depositor: the
    marketplace); every other message kind emits none. -/
theorem execute_poolOf {m m' : Market} {env : Env} {s : Nat} {f : List Coin} {msg : ExecMsg}
    {out : List OutMsg} (h : execute m env s f msg = .ok (m', out)) :
    out.filterMap OutMsg.poolOf =
      (match leavingFee m s msg with | some c => [(env.self, c)] | none => []) := by
  have hnil : out = [] → leavingFee m s msg = none →
      out.filterMap OutMsg.poolOf =
        (match leavingFee m s msg with | some c => [(env.self, c)] | none => []) := by
    intro e1 e2; rw [e1, e2]; rfl
  unfold execute at h
  split at h
  · cases h
  cases msg with
  | feeCycle => exact hnil (cycleFee_out h) rfl
  | createListing id c => exact hnil (createListing_out h) rfl
  | addToListing id => exact hnil (addToListing_out h) rfl
  | changeAsk id ask => exact hnil (changeAsk_out h) rfl
  | finalize id secs => exact hnil (finalize_out h) rfl
  | createBucket id => exact hnil (createBucket_out h) rfl
  | addToBucket id => exact hnil (addToBucket_out h) rfl
  | receive a amt i => exact hnil (receive_out h) rfl
  | receiveNft a t i => exact hnil (receiveNft_out h) rfl
  | deleteListing id =>
    obtain ⟨l0, _, _, _, _, _, rfl⟩ := deleteListing_spec h
    rw [(sendTokens_parts _ _).2.2.2]
    rfl
  | removeBucket id =>
    obtain ⟨b0, hb0, _, _, rfl⟩ := withdrawBucket_spec h
    rw [(withdrawMsgs_parts _ _ _ _).2.2.2]
    simp only [leavingFee, hb0, Option.bind_some]
    cases b0.fee <;> rfl
  | withdrawPurchased lid =>
    obtain ⟨k, l, hl, _, _, _, rfl⟩ := withdrawPurchased_spec h
    rw [(withdrawMsgs_parts _ _ _ _).2.2.2]
    simp only [leavingFee, hl, Option.bind_some]
    cases l.fee <;> rfl
  | buy lid bid =>
    dsimp only at h
    obtain ⟨k, l, b, lfee, lbal, bfee, bbal, ra, fb, msgs1, s1, fl, msgs2, s2, hb, hl, _, _, _, _,
      _, _, _, _, _, r1, r2, hr⟩ := buy_inv h
    simp only [buyResult, Prod.mk.injEq] at hr
    obtain ⟨_, rfl⟩ := hr
    simp only [List.filterMap_append,
      filterMap_poolOf_nil (fun x hx => poolOf_royMsg (sideRoyalties_shape r1 x hx)),
      filterMap_poolOf_nil (fun x hx => poolOf_royMsg (sideRoyalties_shape r2 x hx)),
      List.append_nil, leavingFee, hb, Option.bind_some]
    cases b.fee <;> rfl

/-- the first bucket with id `bid` (what the oracle looks up) is the record filed under
    `(s, bid)` (what the handler looks up): at most one live bucket per id -/
theorem IdsInv.find_bucket {m : Market} (hI : IdsInv m) {s bid : Nat} {b : Bucket}
    (h : alookup (s, bid) m.buckets = some b) :
    m.buckets.find? (fun (p : (Nat × Nat) × Bucket) => decide (p.1.2 = bid)) = some ((s, bid), b) := by
  have hm := alookup_some_mem h
  cases hf : m.buckets.find? (fun (p : (Nat × Nat) × Bucket) => decide (p.1.2 = bid)) with
  | none =>
    rw [List.find?_eq_none] at hf
    have := hf _ hm
    simp at this
  | some q =>
    have hq1 : q.1.2 = bid := by simpa using List.find?_some hf
    have hq2 := List.mem_of_find?_eq_some hf
    have hk : q.1 = (s, bid) := hI.bidInj q hq2 _ hm hq1
    obtain ⟨qk, qv⟩ := q
    dsimp only at hk
    subst hk
    have := mem_nodup_alookup hI.bkeys hq2
    rw [h] at this
    cases this
    rfl

/-- conversely, no bucket under `(s, bid)` when no bucket has id `bid` -/
theorem find_bucket_none {m : Market} {s bid : Nat}
    (h : m.buckets.find? (fun (p : (Nat × Nat) × Bucket) => decide (p.1.2 = bid)) = none) :
    alookup (s, bid) m.buckets = none := by
  cases ha : alookup (s, bid) m.buckets with
  | none => rfl
  | some b =>
    rw [List.find?_eq_none] at h
    have := h _ (alookup_some_mem ha)
    simp at this

/-! ### message codes -/

/-- how the harness reports a message of the model: a community-pool deposit is decoded into a
    `P` entry (`ImplMsg.pool`), everything else is carried as it is -/
def toImpl : OutMsg → Codec.ImplMsg
  | .fundPool d c => .pool true d [c]
  | .bankSend to cs => .msg (.bankSend to cs)
  | .cw20Transfer t to a => .msg (.cw20Transfer t to a)
  | .nftTransfer c t to => .msg (.nftTransfer c t to)

/-- both readings of a model message have the same code -/
theorem implMsgCode_toImpl (m : OutMsg) :
    Codec.implMsgCode (toImpl m) = Codec.implMsgCode (.msg m) := by
  cases m <;> simp [toImpl, Codec.implMsgCode, Codec.outMsgCode]

/-- every pool deposit of an accepted response names the marketplace as depositor -/
theorem execute_pool_depositor {m m' : Market} {env : Env} {s : Nat} {f : List Coin} {msg : ExecMsg}
    {out : List OutMsg} (h : execute m env s f msg = .ok (m', out)) {d : Nat} {c : Coin}
    (hm : OutMsg.fundPool d c ∈ out) : d = env.self := by
  have h1 : (d, c) ∈ out.filterMap OutMsg.poolOf := List.mem_filterMap.2 ⟨_, hm, rfl⟩
  rw [execute_poolOf h] at h1
  cases hlf : leavingFee m s msg with
  | none => rw [hlf] at h1; cases h1
  | some fee =>
    rw [hlf] at h1
    simp only [List.mem_singleton, Prod.mk.injEq] at h1
    exact h1.1

/-- the code of a pool message starts with 4; no other model message has a code starting with
    4 or 9 -/
theorem poolCodes_map_outMsgCode (out : List OutMsg) :
    Cmp.poolCodes (out.map Codec.outMsgCode) =
      (out.filterMap OutMsg.poolOf).map (fun p => [4, p.1, p.2.key, p.2.amount]) := by
  induction out with
  | nil => rfl
  | cons x t ih =>
    unfold Cmp.poolCodes at ih ⊢
    cases x <;>
      simp [Codec.outMsgCode, OutMsg.poolOf, List.filterMap_cons, ih]

theorem poolCodes_sortCodes_perm (l : List (List Nat)) :
    (Cmp.poolCodes (Codec.sortCodes l)).Perm (Cmp.poolCodes l) :=
  (List.mergeSort_perm l Codec.lexLe).filter _

/-- with at most one pool message, sorting the codes first does not matter -/
theorem poolCodes_sortCodes_of_le_one {l : List (List Nat)} {e : List (List Nat)}
    (h : Cmp.poolCodes l = e) (hlen : e.length ≤ 1) : Cmp.poolCodes (Codec.sortCodes l) = e := by
  have hp := poolCodes_sortCodes_perm l
  rw [h] at hp
  match e, hlen with
  | [], _ => exact hp.eq_nil
  | [x], _ => exact List.perm_singleton.1 hp

/-! ### the purchase oracle, one side -/

theorem four_nil {a b c d : Bool} (ha : a = true) (hb : b = true) (hc : c = true) (hd : d = true) :
    ((if a = true then ([] : List String) else ["f"]) ++ (if b = true then [] else ["w"]) ++
      (if c = true then [] else ["h"]) ++ (if d = true then [] else ["d"])) = [] := by
  subst ha hb hc hd; rfl

/-- One side of a purchase as the model computes it (`C06_buy_effect`: fee `feeOf`, per-key
    remainder `afterFeeAmt − royaltyOn`, CW20 remainder `amount − royaltyOn`, NFTs untouched, and
    royalties of at most one half) passes every part of `sideFails`. -/
theorem sideFails_nil {fd : Nat} {pre post : GBal} {fee : Option Coin} {es : List RoyaltyInfo}
    (wf : wfBal pre = true) (hfee : fee = feeOf fd pre)
    (hn : ∀ k, coinAmt post.native k = afterFeeAmt fd pre k - royaltyOn es (afterFeeAmt fd pre k))
    (hc : ∀ k, coinAmt post.cw20 k = coinAmt pre.cw20 k - royaltyOn es (coinAmt pre.cw20 k))
    (hnft : post.nfts = pre.nfts) (hhalf : ∀ a, 2 * royaltyOn es a ≤ a) :
    Cmp.sideFails fd pre post fee = [] := by
  obtain ⟨nz1, nz2, _, nd1, nd2, _⟩ := (wfBal_iff pre).1 wf
  have hfa : ∀ k, feeAmt fee k = if k = fd then coinAmt pre.native fd * 5 / 1000 else 0 := by
    intro k; rw [hfee]; exact feeAmt_feeOf fd pre k
  -- the per-coin facts
  have nat1 : ∀ c ∈ pre.native,
      feeAmt fee c.key = (if c.key = fd then c.amount * 5 / 1000 else 0) ∧
      coinAmt post.native c.key + feeAmt fee c.key ≤ c.amount ∧
      1 ≤ coinAmt post.native c.key ∧
      2 * (c.amount - feeAmt fee c.key - coinAmt post.native c.key) ≤ c.amount - feeAmt fee c.key := by
    intro c hcm
    have h1 := coinAmt_of_mem nd1 hcm
    have h2 := nz1 c hcm
    rw [hfa, hn]
    unfold afterFeeAmt
    by_cases hk : c.key = fd
    · simp only [if_pos hk]
      rw [← hk, h1]
      have := hhalf (c.amount - c.amount * 5 / 1000)
      omega
    · simp only [if_neg hk, Nat.sub_zero, Nat.add_zero]
      rw [h1]
      have := hhalf c.amount
      refine ⟨trivial, ?_⟩
      omega
  have cw1 : ∀ c ∈ pre.cw20, 1 ≤ coinAmt post.cw20 c.key ∧ coinAmt post.cw20 c.key ≤ c.amount ∧
      2 * (c.amount - coinAmt post.cw20 c.key) ≤ c.amount := by
    intro c hcm
    have h1 := coinAmt_of_mem nd2 hcm
    have h2 := nz2 c hcm
    rw [hc, h1]
    have := hhalf c.amount
    omega
  have hfd : coinAmt post.native fd + coinAmt pre.native fd * 5 / 1000 ≤ coinAmt pre.native fd := by
    rw [hn]
    unfold afterFeeAmt
    simp only [if_true]
    omega
  unfold Cmp.sideFails
  dsimp only
  subst hfee
  by_cases hz : coinAmt pre.native fd * 5 / 1000 = 0
  · have hf : feeOf fd pre = none := by simp [feeOf, hz]
    rw [hf] at nat1 ⊢
    apply four_nil
    · simp only [Bool.and_true, List.all_eq_true, decide_eq_true_eq]
      exact fun c hcm => (nat1 c hcm).1
    · simp only [Bool.and_true, List.all_eq_true, decide_eq_true_eq]
      exact fun c hcm => (nat1 c hcm).2.1
    · simp only [Bool.and_eq_true, List.all_eq_true, decide_eq_true_eq, hnft, beq_self_eq_true,
        and_true]
      exact ⟨fun c hcm => ⟨(nat1 c hcm).2.2.1, (nat1 c hcm).2.2.2⟩,
        fun c hcm => ⟨⟨(cw1 c hcm).1, (cw1 c hcm).2.1⟩, (cw1 c hcm).2.2⟩⟩
    · simp [hz]
  · have hf : feeOf fd pre = some ⟨fd, coinAmt pre.native fd * 5 / 1000⟩ := by simp [feeOf, hz]
    rw [hf] at nat1 ⊢
    apply four_nil
    · simp only [Bool.and_eq_true, List.all_eq_true, decide_eq_true_eq]
      refine ⟨fun c hcm => (nat1 c hcm).1, ⟨trivial, hz⟩, ?_⟩
      intro h0; apply hz; rw [h0]
    · simp only [Bool.and_eq_true, List.all_eq_true, decide_eq_true_eq]
      exact ⟨fun c hcm => (nat1 c hcm).2.1, hfd⟩
    · simp only [Bool.and_eq_true, List.all_eq_true, decide_eq_true_eq, hnft, beq_self_eq_true,
        and_true]
      exact ⟨fun c hcm => ⟨(nat1 c hcm).2.2.1, (nat1 c hcm).2.2.2⟩,
        fun c hcm => ⟨⟨(cw1 c hcm).1, (cw1 c hcm).2.1⟩, (cw1 c hcm).2.2⟩⟩
    · simp

end Fuzion
