/-
  Fuzion.Lemmas.ArithReachLemmas — helper lemmas for the transaction-level forms of C17 ("fee and
  royalty arithmetic is exact and total") and C11 ("royalties never take more than half"):
  `sideRoyalties` in terms of `royalties`, what the error branches of `buy` mean, the decomposition
  of an accepted `buy` into the fee step (`calcFeeCoin`) and the royalty step (`royalties`) of each
  side, and the error of a purchase transaction.
  Nothing here is a property theorem; those live in `Fuzion/Props/C17Reach.lean` / `C11Reach.lean`.
  Core library only.
-/
import Fuzion.Lemmas.TradeLemmas
import Fuzion.Lemmas.ClosedLemmas
namespace Fuzion

/-! ### `sideRoyalties` through `royalties` -/

theorem royCoins_nil (mk : Nat → Nat → Nat → OutMsg) :
    ∀ cs : List Coin, royCoins mk [] cs = some (cs, [])
  | [] => rfl
  | c :: cs => by
    simp only [royCoins, royLoop, royCoins_nil mk cs, List.map_nil, List.nil_append]

/-- without entries the royalty split is the identity and emits nothing -/
theorem royalties_nil (g : GBal) : royalties g [] = .ok g [] 0 := by
  simp [royalties, royCoins_nil]

/-- an accepted royalty pass of one side of a purchase is an accepted call of
    `GenericBalance::royalties` on the registry's answers for the side's collections, with the
    same result (when the collection set is empty the registry is not queried; `royalties` on the
    empty answer is the identity) -/
theorem sideRoyalties_ok_royalties {env : Env} {ra : Nat} {cols : List Nat} {bal g : GBal}
    {ms : List OutMsg} {s : Nat} (h : sideRoyalties env ra cols bal = .ok g ms s) :
    royalties bal (cols.map env.regLookup) = .ok g ms s := by
  unfold sideRoyalties at h
  split at h
  · rename_i he
    have : cols = [] := by simpa using he
    subst this
    rw [← h]; exact royalties_nil bal
  · split at h
    · cases h
    · exact h

/-- `GenericBalance::royalties` aborts only when the `u64` rate sum overflows -/
theorem royalties_panic {g : GBal} {rs : List (Option RoyaltyInfo)} (h : royalties g rs = .panic) :
    bpsSum rs > U64MAX := by
  by_cases h64 : bpsSum rs ≤ U64MAX
  · exact absurd h (C17_roy_no_panic g h64)
  · omega

/-- `GenericBalance::royalties` errs only when the rate sum exceeds 50 % (the `checked_sub`
    failure branch is dead) -/
theorem royalties_err {g : GBal} {rs : List (Option RoyaltyInfo)} (h : royalties g rs = .err) :
    bpsSum rs > 5000 := by
  by_cases h5 : bpsSum rs ≤ 5000
  · obtain ⟨g', ms, e⟩ := C17_roy_total_any g h5
    rw [e] at h; cases h
  · omega

theorem sideRoyalties_panic {env : Env} {ra : Nat} {cols : List Nat} {bal : GBal}
    (h : sideRoyalties env ra cols bal = .panic) : bpsOf env cols > U64MAX := by
  unfold sideRoyalties at h
  split at h
  · cases h
  · split at h
    · cases h
    · exact royalties_panic h

theorem sideRoyalties_err {env : Env} {ra : Nat} {cols : List Nat} {bal : GBal}
    (h : sideRoyalties env ra cols bal = .err) : ra ≠ env.regAddr ∨ bpsOf env cols > 5000 := by
  unfold sideRoyalties at h
  split at h
  · cases h
  · split at h
    · rename_i hne; exact .inl hne
    · exact .inr (royalties_err h)

/-! ### the error branches of `buy` -/

/-- What a refusal of `buy` by one of the three "arithmetic" errors means:
    * `overflow` (a `checked_sub` of `calc_fee_coin` failed) never happens;
    * `panic` (abort of the `u64` rate sum) only when the registered rates of the collections of one
      side sum to more than `u64::MAX`;
    * `royaltyOverHalf` only when the stored registry address is not the registry's, or the
      registered rates of one side sum to more than 5000 bps. -/
theorem buy_error_inv {m : Market} {env : Env} {buyer lid bid : Nat} {e : Err}
    (h : buy m env buyer lid bid = .error e) :
    e ≠ .overflow ∧
    (e = .panic → ∃ k l b, findById lid m.listings = some (k, l) ∧
      alookup (buyer, bid) m.buckets = some b ∧
      (bpsOf env (collections l.forSale) > U64MAX ∨ bpsOf env (collections b.funds) > U64MAX)) ∧
    (e = .royaltyOverHalf → ∃ k l b ra, findById lid m.listings = some (k, l) ∧
      alookup (buyer, bid) m.buckets = some b ∧ m.registry = some ra ∧
      (ra ≠ env.regAddr ∨ bpsOf env (collections l.forSale) > 5000 ∨
        bpsOf env (collections b.funds) > 5000)) := by
  unfold buy at h
  split at h
  · cases h; refine ⟨?_, ?_, ?_⟩ <;> intro x <;> cases x
  rename_i b hb
  split at h
  · cases h; refine ⟨?_, ?_, ?_⟩ <;> intro x <;> cases x
  rename_i k l hl
  obtain ⟨lfee, lbal, e1⟩ := C17_fee_total (feeDenomOf env m.feeKind) l.forSale
  obtain ⟨bfee, bbal, e2⟩ := C17_fee_total (feeDenomOf env m.feeKind) b.funds
  rw [e1, e2] at h
  repeat' split at h
  all_goals first
    | (cases h; done)
    | (cases h; (refine ⟨?_, ?_, ?_⟩ <;> intro x <;> cases x); done)
    | (cases h
       refine ⟨fun x => (by cases x), fun _ => ⟨_, _, _, hl, hb, ?_⟩, fun x => (by cases x)⟩
       first
         | exact .inl (sideRoyalties_panic (by assumption))
         | exact .inr (sideRoyalties_panic (by assumption)))
    | (cases h
       refine ⟨fun x => (by cases x), fun x => (by cases x),
         fun _ => ⟨_, _, _, _, hl, hb, by assumption, ?_⟩⟩
       first
         | exact (sideRoyalties_err (cols := collections l.forSale) (by assumption)).elim .inl
             (fun x => .inr (.inl x))
         | exact (sideRoyalties_err (cols := collections b.funds) (by assumption)).elim .inl
             (fun x => .inr (.inr x)))

/-! ### an accepted `buy` = fee step, then royalty step, per side -/

/-- An accepted purchase decomposed into the model's own arithmetic functions: the fee recorded on
    each re-filed record and the balance `lbal` / `bbal` left after it are the result of
    `calcFeeCoin` on the old goods / funds; the goods / funds stored are the result of `royalties`
    on `lbal` / `bbal` with the registry's answers for the collections of the opposite side; the
    messages are the pending fee of the paying bucket followed by the messages of the two royalty
    calls. -/
theorem buy_split {m : Market} {env : Env} {buyer lid bid : Nat} {r : Market × List OutMsg}
    (hI : IdsInv m) (h : buy m env buyer lid bid = .ok r) :
    ∃ l b l' b' lbal bbal msgsB msgsL sB sL,
      alookup (l.creator, lid) m.listings = some l ∧ alookup (buyer, bid) m.buckets = some b ∧
      alookup (buyer, lid) r.1.listings = some l' ∧ alookup (l.creator, bid) r.1.buckets = some b' ∧
      calcFeeCoin (feeDenomOf env m.feeKind) l.forSale = some (l'.fee, lbal) ∧
      calcFeeCoin (feeDenomOf env m.feeKind) b.funds = some (b'.fee, bbal) ∧
      royalties bbal ((collections l.forSale).map env.regLookup) = .ok b'.funds msgsB sB ∧
      royalties lbal ((collections b.funds).map env.regLookup) = .ok l'.forSale msgsL sL ∧
      r.2 = pendingFeeMsgs env.self b.fee ++ msgsB ++ msgsL := by
  obtain ⟨k, l, b, lfee, lbal, bfee, bbal, ra, fb, msgs1, s1, fl, msgs2, s2, hb, hl, _, _, _, _,
    _, _, e1, e2, _, r1, r2, hr⟩ := buy_inv h
  obtain ⟨_, _, hal⟩ := hI.find_key hl
  subst hr
  exact ⟨l, b, _, _, lbal, bbal, msgs1, msgs2, s1, s2, hal, hb, alookup_ainsert_self _ _ _,
    alookup_ainsert_self _ _ _, e1, e2, sideRoyalties_ok_royalties r1,
    sideRoyalties_ok_royalties r2, rfl⟩

/-! ### the purchase transaction -/

/-- the error a refused purchase transaction reports is the handler's, or `dispatch` -/
theorem step_buy_err {w : World} {buyer lid bid : Nat} {e : Err}
    (h : (step w (.exec buyer [] (.buy lid bid))).2.err = some e) :
    e = .dispatch ∨ buy w.mkt w.env buyer lid bid = .error e := by
  unfold step stepF at h
  simp only [List.isEmpty_nil, if_true, runMarket, execute_buy_nil] at h
  cases hb : buy w.mkt w.env buyer lid bid with
  | error e' =>
    rw [hb] at h
    simp only [Outcome.fail, Option.some.injEq] at h
    exact .inr (h ▸ rfl)
  | ok r =>
    rw [hb] at h
    obtain ⟨m', msgs⟩ := r
    dsimp only at h
    split at h
    · simp only [Outcome.fail, Option.some.injEq] at h
      exact .inl h.symm
    · cases h

/-- An accepted purchase TRANSACTION decomposed into the model's arithmetic functions (see
    `buy_split`): `l`, `b` are the traded records of the pre-state, `l'`, `b'` the re-filed ones of
    the post-state, `lbal` / `bbal` the balances between the fee step and the royalty step. -/
theorem step_buy_split {w : World} {j u : Nat} (hI : IdsInv w.mkt) (hW : WFInv j u w.mkt)
    {buyer lid bid : Nat} (hok : (step w (.exec buyer [] (.buy lid bid))).2.ok = true) :
    ∃ l b l' b' lbal bbal msgsB msgsL sB sL,
      alookup (l.creator, lid) w.mkt.listings = some l ∧ alookup (buyer, bid) w.mkt.buckets = some b ∧
      alookup (buyer, lid) (step w (.exec buyer [] (.buy lid bid))).1.mkt.listings = some l' ∧
      alookup (l.creator, bid) (step w (.exec buyer [] (.buy lid bid))).1.mkt.buckets = some b' ∧
      calcFeeCoin (feeDenomOf w.env w.mkt.feeKind) l.forSale = some (l'.fee, lbal) ∧
      calcFeeCoin (feeDenomOf w.env w.mkt.feeKind) b.funds = some (b'.fee, bbal) ∧
      royalties bbal ((collections l.forSale).map w.env.regLookup) = .ok b'.funds msgsB sB ∧
      royalties lbal ((collections b.funds).map w.env.regLookup) = .ok l'.forSale msgsL sL ∧
      (step w (.exec buyer [] (.buy lid bid))).2.msgs = pendingFeeMsgs w.self b.fee ++ msgsB ++ msgsL ∧
      wfBal l.forSale = true ∧ wfBal b.funds = true := by
  obtain ⟨m', out, hx, hmsgs, hm, _⟩ := stepF_buy_credit (fail := noFault) hok
  obtain ⟨l, b, l', b', lbal, bbal, msgsB, msgsL, sB, sL, h1, h2, h3, h4, h5, h6, h7, h8, h9⟩ :=
    buy_split hI hx
  refine ⟨l, b, l', b', lbal, bbal, msgsB, msgsL, sB, sL, h1, h2, ?_, ?_, h5, h6, h7, h8, ?_,
    hW.trade_forSale (alookup_some_mem h1), hW.trade_funds (alookup_some_mem h2)⟩
  · show alookup _ (stepF noFault w _).1.mkt.listings = _
    rw [hm]; exact h3
  · show alookup _ (stepF noFault w _).1.mkt.buckets = _
    rw [hm]; exact h4
  · show (stepF noFault w _).2.msgs = _
    rw [hmsgs]; exact h9

/-- the entries charged to a side are the registry's answers for the collections of its NFTs -/
theorem mem_sideEntries {env : Env} {g : GBal} {e : RoyaltyInfo} :
    e ∈ sideEntries env g ↔ ∃ n ∈ g.nfts, env.regLookup n.coll = some e := by
  unfold sideEntries
  rw [List.filterMap_map, List.mem_filterMap]
  constructor
  · rintro ⟨c, hc, he⟩
    obtain ⟨n, hn, rfl⟩ := ((collections_spec g).2 c).1 hc
    exact ⟨n, hn, he⟩
  · rintro ⟨n, hn, he⟩
    exact ⟨n.coll, ((collections_spec g).2 n.coll).2 ⟨n, hn, rfl⟩, he⟩

end Fuzion
