/-
  Fuzion.Lemmas.FrameLemmas — helper lemmas for the frame / ownership properties C04, C08, C15, C19:

  * the transaction discipline of `stepF` (failure returns the original world; the deposit phase
    `Op.deposit` followed by `runMarket`),
  * who can be debited by the bank / CW20 / CW721 moves of a transaction (`NoDebit`),
  * fault injection in `dispatchAll`,
  * `findById` under `aerase` / `ainsert`,
  * a handler-by-handler description of what an accepted message does to the listing table
    (`LChange`) and to the bucket table (`BChange`).
  Core library only.
-/
import Fuzion.Inv.MInv
import Fuzion.Lemmas.RegistryLemmas
namespace Fuzion

/-! ### failure returns the original world -/

/-- Every failing transaction — whatever the operation and the injected fault — returns the
    world it started from. -/
theorem stepF_failed_noop (fail : Nat → Bool) (w : World) (op : Op)
    (h : (stepF fail w op).2.ok = false) : (stepF fail w op).1 = w := by
  cases ho : op.asExec with
  | some t =>
    obtain ⟨c, f, msg⟩ := t
    rcases stepF_market (fail := fail) (w := w) ho with ⟨e, hs⟩ | ⟨m', msgs, w2, _, _, _, hs⟩
    · rw [hs]
    · rw [hs] at h; cases h
  | none =>
    cases op with
    | exec s fu m => simp [Op.asExec] at ho
    | send20 t s a i => simp [Op.asExec] at ho
    | send721 co s t i => simp [Op.asExec] at ho
    | royalty s m =>
      rcases stepF_royalty fail w s m with ⟨e, _, hs⟩ | ⟨r, _, hs⟩
      · rw [hs]
      · rw [hs] at h; cases h
    | setAdmin s c n =>
      simp only [stepF] at h ⊢
      split
      · rfl
      · split
        · rfl
        · rename_i ci hk hadm
          simp [hk, hadm] at h
    | advance a b => simp [stepF] at h

/-- a failed transaction reports `ok = false` and a successful one `ok = true` with the emitted
    messages: the two shapes of `stepF_market` as a statement about `.2.ok` -/
theorem stepF_ok_cases {fail : Nat → Bool} {w : World} {op : Op} {c : Nat} {f : List Coin}
    {msg : ExecMsg} (ho : op.asExec = some (c, f, msg)) :
    ((stepF fail w op).2.ok = false ∧ (stepF fail w op).1 = w) ∨
    ((stepF fail w op).2.ok = true ∧ ∃ msgs, execute w.mkt w.env c f msg =
        .ok ((stepF fail w op).1.mkt, msgs) ∧ CoreEq w (stepF fail w op).1 ∧
        (stepF fail w op).2.msgs = msgs) := by
  rcases stepF_market (fail := fail) (w := w) ho with ⟨e, hs⟩ | ⟨m', msgs, w2, hx, hm, hc, hs⟩
  · rw [hs]; exact .inl ⟨rfl, rfl⟩
  · rw [hs]; subst hm; exact .inr ⟨rfl, msgs, hx, hc, rfl⟩

/-! ### the deposit phase of a transaction -/

/-- The world in which the handler runs: the attached coins / the CW20 amount / the NFT have
    already moved to the marketplace.  `.error` = the move itself is refused. -/
def Op.deposit (w : World) : Op → Except Err World
  | .exec sender funds _ =>
    if funds.isEmpty then .ok w
    else
      match bankSend w.bank sender w.self funds with
      | none => .error .insufficient
      | some b => .ok { w with bank := b }
  | .send20 token sender amount _ =>
    if !w.isHonest20 token then .error .badToken
    else if amount = 0 then .error .badFunds
    else
      match ledgerMove w.cw20 token sender w.self amount with
      | none => .error .insufficient
      | some l => .ok { w with cw20 := l }
  | .send721 coll sender tid _ =>
    if !w.isHonest721 coll then .error .badToken
    else if alookup (coll, tid) w.nft ≠ some sender then .error .notOwner
    else .ok { w with nft := lset w.nft (coll, tid) w.self }
  | _ => .ok w

/-- `stepF` on a marketplace operation = deposit, then `runMarket` with rollback to `w` -/
theorem stepF_eq_deposit {fail : Nat → Bool} {w : World} {op : Op} {c : Nat} {f : List Coin}
    {msg : ExecMsg} (ho : op.asExec = some (c, f, msg)) :
    stepF fail w op =
      match op.deposit w with
      | .error e => (w, .fail e)
      | .ok w1 => runMarket fail w w1 c f msg := by
  cases op with
  | exec s fu m =>
    simp only [Op.asExec, Option.some.injEq, Prod.mk.injEq] at ho
    obtain ⟨rfl, rfl, rfl⟩ := ho
    simp only [stepF, Op.deposit]
    split
    · rfl
    · cases bankSend w.bank s w.self fu <;> rfl
  | send20 t s a i =>
    simp only [Op.asExec, Option.some.injEq, Prod.mk.injEq] at ho
    obtain ⟨rfl, rfl, rfl⟩ := ho
    simp only [stepF, Op.deposit]
    split
    · rfl
    · split
      · rfl
      · cases ledgerMove w.cw20 t s w.self a <;> rfl
  | send721 co s t i =>
    simp only [Op.asExec, Option.some.injEq, Prod.mk.injEq] at ho
    obtain ⟨rfl, rfl, rfl⟩ := ho
    simp only [stepF, Op.deposit]
    split
    · rfl
    · split <;> rfl
  | royalty s m => simp [Op.asExec] at ho
  | setAdmin s c n => simp [Op.asExec] at ho
  | advance a b => simp [Op.asExec] at ho

/-- the deposit writes token ledgers only -/
theorem deposit_core {w w1 : World} {op : Op} (h : op.deposit w = .ok w1) :
    CoreEq w w1 ∧ w1.mkt = w.mkt := by
  cases op with
  | exec s fu m =>
    simp only [Op.deposit] at h
    repeat' split at h
    all_goals first
      | (cases h; done)
      | (simp only [Except.ok.injEq] at h; subst h
         exact ⟨⟨rfl, rfl, rfl, rfl, rfl, rfl, rfl, rfl, rfl⟩, rfl⟩)
  | send20 t s a i =>
    simp only [Op.deposit] at h
    repeat' split at h
    all_goals first
      | (cases h; done)
      | (simp only [Except.ok.injEq] at h; subst h
         exact ⟨⟨rfl, rfl, rfl, rfl, rfl, rfl, rfl, rfl, rfl⟩, rfl⟩)
  | send721 co s t i =>
    simp only [Op.deposit] at h
    repeat' split at h
    all_goals first
      | (cases h; done)
      | (simp only [Except.ok.injEq] at h; subst h
         exact ⟨⟨rfl, rfl, rfl, rfl, rfl, rfl, rfl, rfl, rfl⟩, rfl⟩)
  | royalty s m =>
    simp only [Op.deposit, Except.ok.injEq] at h; subst h; exact ⟨CoreEq.refl _, rfl⟩
  | setAdmin s c n =>
    simp only [Op.deposit, Except.ok.injEq] at h; subst h; exact ⟨CoreEq.refl _, rfl⟩
  | advance a b =>
    simp only [Op.deposit, Except.ok.injEq] at h; subst h; exact ⟨CoreEq.refl _, rfl⟩

/-- Complete description of a marketplace transaction: it fails and returns `w`, or the deposit
    succeeded (`w1`), the handler accepted on the pre-state record and environment, and every
    emitted message was dispatched in order starting from `{ w1 with mkt := m' }`. -/
theorem stepF_market_full {fail : Nat → Bool} {w : World} {op : Op} {c : Nat} {f : List Coin}
    {msg : ExecMsg} (ho : op.asExec = some (c, f, msg)) :
    (∃ e, stepF fail w op = (w, .fail e)) ∨
    (∃ w1 m' msgs w2, op.deposit w = .ok w1 ∧ execute w.mkt w.env c f msg = .ok (m', msgs) ∧
      dispatchAll fail { w1 with mkt := m' } msgs 0 = some w2 ∧
      stepF fail w op = (w2, ⟨true, none, msgs⟩)) := by
  rw [stepF_eq_deposit ho]
  cases hd : op.deposit w with
  | error e => exact .inl ⟨e, rfl⟩
  | ok w1 =>
    obtain ⟨hc, hm⟩ := deposit_core hd
    rcases runMarket_cases fail w w1 c f msg with h | ⟨m', msgs, w2, hx, hdd, hr⟩
    · exact .inl h
    · refine .inr ⟨w1, m', msgs, w2, rfl, ?_, hdd, hr⟩
      rw [← hm, ← hc.env]; exact hx

/-! ### who can be debited -/

/-- account `y` loses nothing between `w` and `w'`: no bank balance and no CW20 balance of `y`
    decreases and every NFT `y` owns it still owns -/
structure NoDebit (y : Nat) (w w' : World) : Prop where
  bank : ∀ d, lget w.bank (y, d) ≤ lget w'.bank (y, d)
  cw20 : ∀ t, lget w.cw20 (t, y) ≤ lget w'.cw20 (t, y)
  nft : ∀ k, alookup k w.nft = some y → alookup k w'.nft = some y

theorem NoDebit.refl (y : Nat) (w : World) : NoDebit y w w :=
  ⟨fun _ => Nat.le_refl _, fun _ => Nat.le_refl _, fun _ h => h⟩

theorem NoDebit.trans {y : Nat} {a b c : World} (h1 : NoDebit y a b) (h2 : NoDebit y b c) :
    NoDebit y a c :=
  ⟨fun d => Nat.le_trans (h1.bank d) (h2.bank d), fun t => Nat.le_trans (h1.cw20 t) (h2.cw20 t),
   fun k h => h2.nft k (h1.nft k h)⟩

/-- `NoDebit` only looks at the three token ledgers -/
theorem NoDebit.of_ledgers {y : Nat} {w w' : World} (hb : w'.bank = w.bank) (hc : w'.cw20 = w.cw20)
    (hn : w'.nft = w.nft) : NoDebit y w w' := by
  refine ⟨fun d => ?_, fun t => ?_, fun k h => ?_⟩
  · rw [hb]; exact Nat.le_refl _
  · rw [hc]; exact Nat.le_refl _
  · rw [hn]; exact h

theorem bankSub_other {a : Nat} {cs : List Coin} :
    ∀ {bank b : Ledger}, bankSub bank a cs = some b → ∀ y d, y ≠ a → lget b (y, d) = lget bank (y, d) := by
  induction cs with
  | nil =>
    intro bank b h y d _
    simp only [bankSub, Option.some.injEq] at h; subst h; rfl
  | cons c cs ih =>
    intro bank b h y d hy
    simp only [bankSub] at h
    split at h
    · cases h
    · rw [ih h y d hy, lget_lset_ne]
      intro e; cases e; exact hy rfl

theorem bankAdd_ge (a : Nat) (cs : List Coin) :
    ∀ (bank : Ledger) (k : Nat × Nat), lget bank k ≤ lget (bankAdd bank a cs) k := by
  induction cs with
  | nil => intro bank k; exact Nat.le_refl _
  | cons c cs ih =>
    intro bank k
    simp only [bankAdd]
    refine Nat.le_trans ?_ (ih _ k)
    rw [lget_lset]
    split
    · next e => subst e; exact Nat.le_add_right _ _
    · exact Nat.le_refl _

/-- a bank transfer debits its source only -/
theorem bankSend_other {bank b : Ledger} {src dst : Nat} {coins : List Coin}
    (h : bankSend bank src dst coins = some b) (y d : Nat) (hy : y ≠ src) :
    lget bank (y, d) ≤ lget b (y, d) := by
  unfold bankSend at h
  dsimp only at h
  split at h
  · cases h
  · split at h
    · cases h
    · next b0 hb0 =>
      simp only [Option.some.injEq] at h; subst h
      rw [← bankSub_other hb0 y d hy]
      exact bankAdd_ge _ _ _ _

/-- a CW20 transfer debits its source entry only -/
theorem ledgerMove_other {l l' : Ledger} {g src dst amt : Nat}
    (h : ledgerMove l g src dst amt = some l') (k : Nat × Nat) (hk : k ≠ (g, src)) :
    lget l k ≤ lget l' k := by
  unfold ledgerMove at h
  split at h
  · cases h
  · simp only [Option.some.injEq] at h; subst h
    rw [lget_lset]
    split
    · next e => subst e; rw [lget_lset_ne _ hk]; exact Nat.le_add_right _ _
    · rw [lget_lset_ne _ hk]; exact Nat.le_refl _

/-- one dispatched message is paid by the marketplace: nobody else's balances or NFTs decrease -/
theorem dispatch1_debits_self {w w' : World} {msg : OutMsg} (h : dispatch1 w msg = some w')
    (a : Nat) (ha : a ≠ w.self) :
    (∀ d, lget w'.bank (a, d) ≥ lget w.bank (a, d)) ∧
    (∀ t, lget w'.cw20 (t, a) ≥ lget w.cw20 (t, a)) ∧
    (∀ k, alookup k w.nft = some a → alookup k w'.nft = some a) := by
  cases msg with
  | bankSend to coins =>
    simp only [dispatch1] at h
    split at h
    · cases h
    · next b hb =>
      simp only [Option.some.injEq] at h; subst h
      exact ⟨fun d => bankSend_other hb a d ha, fun _ => Nat.le_refl _, fun _ hk => hk⟩
  | cw20Transfer token to amt =>
    simp only [dispatch1] at h
    repeat' split at h
    all_goals first
      | (cases h; done)
      | (simp only [Option.some.injEq] at h; subst h
         exact ⟨fun _ => Nat.le_refl _, fun _ => Nat.le_refl _, fun _ hk => hk⟩)
      | skip
    next l hl =>
      simp only [Option.some.injEq] at h; subst h
      refine ⟨fun _ => Nat.le_refl _, fun t => ?_, fun _ hk => hk⟩
      refine ledgerMove_other hl (t, a) ?_
      intro e; cases e; exact ha rfl
  | nftTransfer coll tid to =>
    simp only [dispatch1] at h
    repeat' split at h
    all_goals first
      | (cases h; done)
      | (simp only [Option.some.injEq] at h; subst h
         exact ⟨fun _ => Nat.le_refl _, fun _ => Nat.le_refl _, fun _ hk => hk⟩)
      | skip
    next hown =>
      simp only [Option.some.injEq] at h; subst h
      refine ⟨fun _ => Nat.le_refl _, fun _ => Nat.le_refl _, fun k hk => ?_⟩
      dsimp only
      have hne : k ≠ (coll, tid) := by
        intro e; subst e
        rw [hown] at hk
        simp only [Option.some.injEq] at hk
        exact ha hk.symm
      unfold lset
      rw [alookup_ainsert_ne hne]; exact hk
  | fundPool dep coin =>
    simp only [dispatch1] at h
    repeat' split at h
    all_goals first
      | (cases h; done)
      | skip
    next b hb =>
      simp only [Option.some.injEq] at h; subst h
      exact ⟨fun d => bankSend_other hb a d ha, fun _ => Nat.le_refl _, fun _ hk => hk⟩

theorem dispatch1_noDebit {w w' : World} {msg : OutMsg} (h : dispatch1 w msg = some w')
    {a : Nat} (ha : a ≠ w.self) : NoDebit a w w' := by
  obtain ⟨h1, h2, h3⟩ := dispatch1_debits_self h a ha
  exact ⟨h1, h2, h3⟩

/-- the whole message list is paid by the marketplace -/
theorem dispatchAll_noDebit {fail : Nat → Bool} {msgs : List OutMsg} :
    ∀ {w w' : World} {i : Nat}, dispatchAll fail w msgs i = some w' →
      ∀ {a : Nat}, a ≠ w.self → NoDebit a w w' := by
  induction msgs with
  | nil =>
    intro w w' i h a _
    simp only [dispatchAll, Option.some.injEq] at h; subst h; exact NoDebit.refl _ _
  | cons m ms ih =>
    intro w w' i h a ha
    simp only [dispatchAll] at h
    split at h
    · cases h
    · split at h
      · cases h
      · next w1 h1 =>
        have hs : w1.self = w.self := (dispatch1_frame h1).1.self
        exact (dispatch1_noDebit h1 ha).trans (ih h (by rw [hs]; exact ha))

/-- the account whose assets the deposit phase of an operation moves -/
def Op.payer : Op → Option Nat
  | .exec s _ _ => some s
  | .send20 _ s _ _ => some s
  | .send721 _ s _ _ => some s
  | _ => none

/-- the deposit debits the payer only -/
theorem deposit_noDebit {w w1 : World} {op : Op} (h : op.deposit w = .ok w1) {y : Nat}
    (hy : op.payer ≠ some y) : NoDebit y w w1 := by
  cases op with
  | exec s fu m =>
    have hs : y ≠ s := by intro e; subst e; exact hy rfl
    simp only [Op.deposit] at h
    split at h
    · simp only [Except.ok.injEq] at h; subst h; exact NoDebit.refl _ _
    · split at h
      · cases h
      · next b hb =>
        simp only [Except.ok.injEq] at h; subst h
        exact ⟨fun d => bankSend_other hb y d hs, fun _ => Nat.le_refl _, fun _ hk => hk⟩
  | send20 t s a i =>
    have hs : y ≠ s := by intro e; subst e; exact hy rfl
    simp only [Op.deposit] at h
    split at h
    · cases h
    · split at h
      · cases h
      · split at h
        · cases h
        · next l hl =>
          simp only [Except.ok.injEq] at h; subst h
          refine ⟨fun _ => Nat.le_refl _, fun t' => ?_, fun _ hk => hk⟩
          refine ledgerMove_other hl (t', y) ?_
          intro e; cases e; exact hs rfl
  | send721 co s t i =>
    have hs : y ≠ s := by intro e; subst e; exact hy rfl
    simp only [Op.deposit] at h
    split at h
    · cases h
    · split at h
      · cases h
      · next hown =>
        simp only [Except.ok.injEq] at h; subst h
        refine ⟨fun _ => Nat.le_refl _, fun _ => Nat.le_refl _, fun k hk => ?_⟩
        dsimp only
        have hne : k ≠ (co, t) := by
          intro e; subst e
          simp only [ne_eq, Decidable.not_not] at hown
          rw [hown] at hk
          simp only [Option.some.injEq] at hk
          exact hs hk.symm
        unfold lset
        rw [alookup_ainsert_ne hne]; exact hk
  | royalty s m =>
    simp only [Op.deposit, Except.ok.injEq] at h; subst h; exact NoDebit.refl _ _
  | setAdmin s c n =>
    simp only [Op.deposit, Except.ok.injEq] at h; subst h; exact NoDebit.refl _ _
  | advance a b =>
    simp only [Op.deposit, Except.ok.injEq] at h; subst h; exact NoDebit.refl _ _

/-- One transaction, successful or not, with or without injected faults: the only accounts that
    can lose a coin, a CW20 unit or an NFT are the operation's payer and the marketplace. -/
theorem stepF_noDebit (fail : Nat → Bool) (w : World) (op : Op) {y : Nat}
    (hy : op.payer ≠ some y) (hs : y ≠ w.self) : NoDebit y w (stepF fail w op).1 := by
  cases ho : op.asExec with
  | some t =>
    obtain ⟨c, f, msg⟩ := t
    rcases stepF_market_full (fail := fail) (w := w) ho with
      ⟨e, h⟩ | ⟨w1, m', msgs, w2, hd, _, hdd, h⟩
    · rw [h]; exact NoDebit.refl _ _
    · rw [h]
      have h1 := deposit_noDebit hd hy
      have hs1 : w1.self = w.self := (deposit_core hd).1.self
      have h2 : NoDebit y { w1 with mkt := m' } w2 :=
        dispatchAll_noDebit hdd (by show y ≠ w1.self; rw [hs1]; exact hs)
      exact h1.trans ⟨h2.bank, h2.cw20, h2.nft⟩
  | none =>
    cases op with
    | exec s fu m => simp [Op.asExec] at ho
    | send20 t s a i => simp [Op.asExec] at ho
    | send721 co s t i => simp [Op.asExec] at ho
    | royalty s m =>
      rcases stepF_royalty fail w s m with ⟨e, _, h⟩ | ⟨r, _, h⟩ <;> rw [h] <;>
        exact NoDebit.of_ledgers rfl rfl rfl
    | setAdmin s c n =>
      simp only [stepF]
      repeat' split
      all_goals exact NoDebit.of_ledgers rfl rfl rfl
    | advance a b => exact NoDebit.of_ledgers rfl rfl rfl

/-! ### fault injection in `dispatchAll` -/

/-- a fault at any position of the list makes the whole dispatch fail -/
theorem dispatchAll_fault {fail : Nat → Bool} {msgs : List OutMsg} :
    ∀ (w : World) (i k : Nat), k < msgs.length → fail (i + k) = true →
      dispatchAll fail w msgs i = none := by
  induction msgs with
  | nil => intro w i k hk; simp at hk
  | cons m ms ih =>
    intro w i k hk hf
    simp only [dispatchAll]
    cases k with
    | zero => simp only [Nat.add_zero] at hf; simp [hf]
    | succ k =>
      split
      · rfl
      · split
        · rfl
        · refine ih _ (i + 1) k (by simpa using hk) ?_
          rw [← hf]; congr 1; omega

/-- a fault predicate that is silent on the positions of this list is invisible -/
theorem dispatchAll_noFault {fail : Nat → Bool} {msgs : List OutMsg} :
    ∀ (w : World) (i j : Nat), (∀ k, k < msgs.length → fail (i + k) = false) →
      dispatchAll fail w msgs i = dispatchAll noFault w msgs j := by
  induction msgs with
  | nil => intro w i j _; rfl
  | cons m ms ih =>
    intro w i j hf
    simp only [dispatchAll]
    have h0 : fail i = false := by simpa using hf 0 (by simp)
    simp only [h0, noFault]
    cases dispatch1 w m with
    | none => rfl
    | some w1 =>
      refine ih w1 (i + 1) (j + 1) ?_
      intro k hk
      have := hf (k + 1) (by simpa using hk)
      rw [← this]; congr 1; omega

/-- dispatch of a concatenation -/
theorem dispatchAll_append {fail : Nat → Bool} (pre post : List OutMsg) :
    ∀ (w : World) (i : Nat), dispatchAll fail w (pre ++ post) i =
      match dispatchAll fail w pre i with
      | none => none
      | some w1 => dispatchAll fail w1 post (i + pre.length) := by
  induction pre with
  | nil => intro w i; simp [dispatchAll]
  | cons m ms ih =>
    intro w i
    simp only [List.cons_append, dispatchAll, List.length_cons]
    split
    · rfl
    · cases dispatch1 w m with
      | none => rfl
      | some w1 =>
        dsimp only
        rw [ih w1 (i + 1)]
        have : i + 1 + ms.length = i + (ms.length + 1) := by omega
        rw [this]

/-! ### `findById` under `aerase` / `ainsert` -/

theorem find?_congr_mem {α : Type} {p q : α → Bool} :
    ∀ {l : List α}, (∀ a ∈ l, p a = q a) → l.find? p = l.find? q := by
  intro l
  induction l with
  | nil => intro _; rfl
  | cons x xs ih =>
    intro h
    simp only [List.find?_cons, h x (List.mem_cons_self ..)]
    rw [ih (fun a ha => h a (List.mem_cons_of_mem _ ha))]

theorem findById_eq_none {id : Nat} {ls : List ((Nat × Nat) × Listing)} :
    findById id ls = none ↔ ∀ p ∈ ls, p.2.id ≠ id := by
  unfold findById
  rw [List.find?_eq_none]
  simp

theorem findById_aerase_none {id : Nat} {ls : List ((Nat × Nat) × Listing)} (key : Nat × Nat)
    (h : findById id ls = none) : findById id (aerase key ls) = none := by
  rw [findById_eq_none] at h ⊢
  intro p hp
  exact h p (mem_aerase.1 hp).1

theorem findById_ainsert_self {id : Nat} {ls : List ((Nat × Nat) × Listing)} (key : Nat × Nat)
    {v : Listing} (h : v.id = id) : findById id (ainsert key v ls) = some (key, v) := by
  unfold ainsert; exact findById_cons_self h

theorem findById_ainsert_ne {id : Nat} {ls : List ((Nat × Nat) × Listing)} (key : Nat × Nat)
    {v : Listing} (h : v.id ≠ id) : findById id (ainsert key v ls) = findById id (aerase key ls) := by
  unfold ainsert findById
  simp [h]

/-- ids are unique in `ls` (the `lidInj` clause of `IdsInv`) -/
def LIdInj (ls : List ((Nat × Nat) × Listing)) : Prop :=
  ∀ p ∈ ls, ∀ q ∈ ls, p.2.id = q.2.id → p.1 = q.1

theorem findById_aerase_ne {id : Nat} {ls : List ((Nat × Nat) × Listing)} (hinj : LIdInj ls)
    {k key : Nat × Nat} {l : Listing} (h : findById id ls = some (k, l)) (hne : key ≠ k) :
    findById id (aerase key ls) = some (k, l) := by
  rw [← h]
  unfold findById aerase
  rw [List.find?_filter]
  apply find?_congr_mem
  intro a ha
  obtain ⟨hid, hmem⟩ := findById_some h
  by_cases hai : a.2.id = id
  · have : a.1 = k := hinj a ha (k, l) hmem (by rw [hai]; exact hid.symm)
    have hk : a.1 ≠ key := by rw [this]; exact Ne.symm hne
    simp [hai, hk]
  · simp [hai]

theorem findById_aerase_self {id : Nat} {ls : List ((Nat × Nat) × Listing)} (hinj : LIdInj ls)
    {k : Nat × Nat} {l : Listing} (h : findById id ls = some (k, l)) :
    findById id (aerase k ls) = none := by
  rw [findById_eq_none]
  intro p hp hpid
  obtain ⟨hmem, hne⟩ := mem_aerase.1 hp
  obtain ⟨hid, hkl⟩ := findById_some h
  exact hne (hinj p hmem (k, l) hkl (by rw [hpid]; exact hid.symm))

/-- a listing found by id is stored under `(creator, id)` and is what a key lookup returns -/
theorem IdsInv.findById_key {m : Market} (hI : IdsInv m) {id : Nat} {k : Nat × Nat} {l : Listing}
    (h : findById id m.listings = some (k, l)) :
    k = (l.creator, id) ∧ l.id = id ∧ alookup k m.listings = some l := by
  obtain ⟨hid, hmem⟩ := findById_some h
  have hk := hI.lfiled _ hmem
  dsimp only at hid hk
  exact ⟨by rw [hk, hid], hid, mem_nodup_alookup hI.lkeys hmem⟩

/-- conversely a key lookup gives the record `findById` finds -/
theorem IdsInv.findById_of_alookup {m : Market} (hI : IdsInv m) {u id : Nat} {l : Listing}
    (h : alookup (u, id) m.listings = some l) :
    findById id m.listings = some ((u, id), l) ∧ u = l.creator ∧ l.id = id := by
  have hmem := alookup_some_mem h
  have hk := hI.lfiled _ hmem
  simp only [Prod.mk.injEq] at hk
  obtain ⟨hu, hid⟩ := hk
  refine ⟨?_, hu, hid.symm⟩
  cases hf : findById id m.listings with
  | none =>
    rw [findById_eq_none] at hf
    exact absurd hid.symm (hf _ hmem)
  | some p =>
    obtain ⟨k2, l2⟩ := p
    obtain ⟨hid2, hmem2⟩ := findById_some hf
    have hkk : k2 = (u, id) := hI.lidInj _ hmem2 _ hmem (by dsimp only at hid2 ⊢; rw [hid2, hid])
    subst hkk
    have := mem_nodup_alookup hI.lkeys hmem2
    rw [h] at this
    cases this
    rfl

/-- nobody but the creator has a record under this id -/
theorem IdsInv.alookup_other_none {m : Market} (hI : IdsInv m) {id s : Nat} {k : Nat × Nat}
    {l : Listing} (h : findById id m.listings = some (k, l)) (hs : s ≠ l.creator) :
    alookup (s, id) m.listings = none := by
  cases ha : alookup (s, id) m.listings with
  | none => rfl
  | some l2 =>
    obtain ⟨hf, hu, _⟩ := hI.findById_of_alookup ha
    rw [h] at hf
    cases hf
    exact absurd hu hs

/-- nobody but the owner has a bucket under this id -/
theorem IdsInv.balookup_other_none {m : Market} (hI : IdsInv m) {id s : Nat} {k : Nat × Nat}
    {b : Bucket} (h : (k, b) ∈ m.buckets) (hk : k.2 = id) (hs : s ≠ k.1) :
    alookup (s, id) m.buckets = none := by
  cases ha : alookup (s, id) m.buckets with
  | none => rfl
  | some b2 =>
    have hmem := alookup_some_mem ha
    have := hI.bidInj _ hmem _ h (by dsimp only; exact hk.symm)
    dsimp only at this
    subst this
    exact absurd rfl hs

/-! ### what an accepted message does to the two record tables -/

/-- the wallet on whose behalf a message acts: the sender of a direct message, the wallet a
    token contract names in its receive hook -/
def actor : ExecMsg → Nat → Nat
  | .receive (.valid a) _ _, _ => a
  | .receiveNft (.valid a) _ _, _ => a
  | _, s => s

/-- `m'` = `m` with the preparing listing `(u, id)` of `u` replaced by a record of the same id
    and creator -/
def LEdit (m : Market) (u id : Nat) (m' : Market) : Prop :=
  ∃ l0 l', alookup (u, id) m.listings = some l0 ∧ u = l0.creator ∧ l0.status = .preparing ∧
    l0.claimant = none ∧ l'.id = l0.id ∧ l'.creator = l0.creator ∧
    (l'.status = .preparing ∨ l'.status = .finalized) ∧ l'.claimant = none ∧
    m'.listings = ainsert (u, id) l' m.listings ∧ m'.listingUsed = m.listingUsed ∧
    m'.buckets = m.buckets ∧ m'.bucketUsed = m.bucketUsed

/-- `m'` = `m` with a new preparing listing under the unused id `id`, filed under `(u, id)` -/
def LCreate (m : Market) (u id : Nat) (m' : Market) : Prop :=
  ∃ l', findById id m.listings = none ∧ id ∉ m.listingUsed ∧ l'.id = id ∧ l'.creator = u ∧
    l'.status = .preparing ∧
    m'.listings = ainsert (u, id) l' m.listings ∧ m'.listingUsed = id :: m.listingUsed ∧
    m'.buckets = m.buckets ∧ m'.bucketUsed = m.bucketUsed

/-- `m'` = `m` with a new bucket under the unused id `id`, filed under `(u, id)` -/
def BCreate (m : Market) (u id : Nat) (m' : Market) : Prop :=
  ∃ b', alookup (u, id) m.buckets = none ∧ id ∉ m.bucketUsed ∧ b'.owner = u ∧
    m'.buckets = ainsert (u, id) b' m.buckets ∧ m'.bucketUsed = id :: m.bucketUsed ∧
    m'.listings = m.listings ∧ m'.listingUsed = m.listingUsed

/-- `m'` = `m` with the bucket `(u, id)` of `u` topped up -/
def BEdit (m : Market) (u id : Nat) (m' : Market) : Prop :=
  ∃ b0 b', alookup (u, id) m.buckets = some b0 ∧ u = b0.owner ∧ b'.owner = b0.owner ∧
    b'.fee = b0.fee ∧
    m'.buckets = ainsert (u, id) b' m.buckets ∧ m'.bucketUsed = m.bucketUsed ∧
    m'.listings = m.listings ∧ m'.listingUsed = m.listingUsed

syntax "ledit_tac " ident : tactic
macro_rules
  | `(tactic| ledit_tac $h:ident) => `(tactic| (
      try dsimp only at $h:ident
      repeat' split at $h:ident
      all_goals first
        | (cases $h:ident; done)
        | (simp only [Except.ok.injEq, Prod.mk.injEq] at $h:ident
           obtain ⟨hm, _⟩ := $h:ident
           subst hm
           refine ⟨_, _, ‹alookup _ _ = some _›, ?_, ?_, ?_, ?_, ?_, ?_, ?_, rfl, ?_, ?_, ?_⟩
           all_goals first | rfl | simp_all)))

theorem changeAsk_ledit {m m' : Market} {u id : Nat} {r : RawGBal} {out : List OutMsg}
    (h : changeAsk m u id r = .ok (m', out)) : LEdit m u id m' := by
  unfold changeAsk at h; ledit_tac h

theorem addToListing_ledit {m m' : Market} {funds : Funds} {u id : Nat} {out : List OutMsg}
    (h : addToListing m funds u id = .ok (m', out)) : LEdit m u id m' := by
  unfold addToListing at h; ledit_tac h

theorem addToListingNft_ledit {m m' : Market} {nft : Nft} {u id : Nat} {out : List OutMsg}
    (h : addToListingNft m u nft id = .ok (m', out)) : LEdit m u id m' := by
  unfold addToListingNft at h; ledit_tac h

theorem finalize_ledit {m m' : Market} {env : Env} {u id secs : Nat} {out : List OutMsg}
    (h : finalize m env u id secs = .ok (m', out)) : LEdit m u id m' := by
  unfold finalize at h; ledit_tac h

theorem createListing_lcreate {m m' : Market} {u : Nat} {funds : Funds} {c : CreateMsg} {id : Nat}
    {out : List OutMsg} (h : createListing m u funds c id = .ok (m', out)) : LCreate m u id m' := by
  unfold createListing at h
  repeat' split at h
  all_goals first
    | (cases h; done)
    | (simp only [Except.ok.injEq, Prod.mk.injEq] at h
       obtain ⟨hm, _⟩ := h
       subst hm
       refine ⟨_, ?_, ‹¬ id ∈ _›, ?_, ?_, ?_, rfl, rfl, rfl, rfl⟩
       · have hf : ¬ (findById id m.listings).isSome = true := ‹_›
         cases hx : findById id m.listings with
         | none => rfl
         | some p => rw [hx] at hf; simp at hf
       all_goals rfl)

theorem createListingNft_lcreate {m m' : Market} {u : Nat} {nft : Nft} {c : CreateMsg} {id : Nat}
    {out : List OutMsg} (h : createListingNft m u nft c id = .ok (m', out)) : LCreate m u id m' := by
  unfold createListingNft at h
  repeat' split at h
  all_goals first
    | (cases h; done)
    | (simp only [Except.ok.injEq, Prod.mk.injEq] at h
       obtain ⟨hm, _⟩ := h
       subst hm
       refine ⟨_, ?_, ‹¬ id ∈ _›, ?_, ?_, ?_, rfl, rfl, rfl, rfl⟩
       · have hf : ¬ (findById id m.listings).isSome = true := ‹_›
         cases hx : findById id m.listings with
         | none => rfl
         | some p => rw [hx] at hf; simp at hf
       all_goals rfl)

theorem createBucket_bcreate {m m' : Market} {funds : Funds} {u id : Nat} {out : List OutMsg}
    (h : createBucket m funds u id = .ok (m', out)) : BCreate m u id m' := by
  unfold createBucket at h
  repeat' split at h
  all_goals first
    | (cases h; done)
    | (simp only [Except.ok.injEq, Prod.mk.injEq] at h
       obtain ⟨hm, _⟩ := h
       subst hm
       refine ⟨_, ?_, ‹¬ id ∈ _›, ?_, rfl, rfl, rfl, rfl⟩
       · have hf : ¬ (alookup (u, id) m.buckets).isSome = true := ‹_›
         cases hx : alookup (u, id) m.buckets with
         | none => rfl
         | some p => rw [hx] at hf; simp at hf
       all_goals rfl)

theorem createBucketNft_bcreate {m m' : Market} {nft : Nft} {u id : Nat} {out : List OutMsg}
    (h : createBucketNft m u nft id = .ok (m', out)) : BCreate m u id m' := by
  unfold createBucketNft at h
  repeat' split at h
  all_goals first
    | (cases h; done)
    | (simp only [Except.ok.injEq, Prod.mk.injEq] at h
       obtain ⟨hm, _⟩ := h
       subst hm
       refine ⟨_, ?_, ‹¬ id ∈ _›, ?_, rfl, rfl, rfl, rfl⟩
       · have hf : ¬ (alookup (u, id) m.buckets).isSome = true := ‹_›
         cases hx : alookup (u, id) m.buckets with
         | none => rfl
         | some p => rw [hx] at hf; simp at hf
       all_goals rfl)

syntax "bedit_tac " ident : tactic
macro_rules
  | `(tactic| bedit_tac $h:ident) => `(tactic| (
      try dsimp only at $h:ident
      repeat' split at $h:ident
      all_goals first
        | (cases $h:ident; done)
        | (simp only [Except.ok.injEq, Prod.mk.injEq] at $h:ident
           obtain ⟨hm, _⟩ := $h:ident
           subst hm
           refine ⟨_, _, ‹alookup _ _ = some _›, ?_, ?_, ?_, rfl, ?_, ?_, ?_⟩
           all_goals first | rfl | simp_all)))

theorem addToBucket_bedit {m m' : Market} {funds : Funds} {u id : Nat} {out : List OutMsg}
    (h : addToBucket m funds u id = .ok (m', out)) : BEdit m u id m' := by
  unfold addToBucket at h; bedit_tac h

theorem addToBucketNft_bedit {m m' : Market} {nft : Nft} {u id : Nat} {out : List OutMsg}
    (h : addToBucketNft m u nft id = .ok (m', out)) : BEdit m u id m' := by
  unfold addToBucketNft at h; bedit_tac h

/-- what an accepted `deleteListing` does -/
theorem deleteListing_spec {m m' : Market} {env : Env} {s id : Nat} {out : List OutMsg}
    (h : deleteListing m env s id = .ok (m', out)) :
    ∃ l0, alookup (s, id) m.listings = some l0 ∧ s = l0.creator ∧ l0.claimant = none ∧
      (∀ e, l0.expiresAt = some e → e ≤ env.nowNs) ∧
      m' = { m with listings := aerase (s, id) m.listings } ∧ out = sendTokens l0.creator l0.forSale := by
  unfold deleteListing at h
  split at h
  · cases h
  rename_i l0 hl0
  split at h
  · cases h
  rename_i h1
  split at h
  · cases h
  rename_i h2
  repeat' split at h
  all_goals first | (cases h; done) | skip
  all_goals
    simp only [Except.ok.injEq, Prod.mk.injEq] at h
    obtain ⟨rfl, rfl⟩ := h
    refine ⟨l0, hl0, by simpa using h1, by simpa using h2, ?_, rfl, rfl⟩
    intro e he
    simp_all

/-- what an accepted `removeBucket` does -/
theorem withdrawBucket_spec {m m' : Market} {env : Env} {s id : Nat} {out : List OutMsg}
    (h : withdrawBucket m env s id = .ok (m', out)) :
    ∃ b0, alookup (s, id) m.buckets = some b0 ∧ b0.owner = s ∧
      m' = { m with buckets := aerase (s, id) m.buckets } ∧
      out = withdrawMsgs env.self b0.owner b0.funds b0.fee := by
  unfold withdrawBucket at h
  split at h
  · cases h
  rename_i b0 hb0
  split at h
  · cases h
  rename_i h1
  simp only [Except.ok.injEq, Prod.mk.injEq] at h
  obtain ⟨rfl, rfl⟩ := h
  exact ⟨b0, hb0, by simpa using h1, rfl, rfl⟩

/-- what an accepted `withdrawPurchased` does -/
theorem withdrawPurchased_spec {m m' : Market} {env : Env} {s lid : Nat} {out : List OutMsg}
    (h : withdrawPurchased m env s lid = .ok (m', out)) :
    ∃ k l, findById lid m.listings = some (k, l) ∧ l.claimant = some s ∧ l.status = .closed ∧
      m' = { m with listings := aerase (s, lid) m.listings } ∧
      out = withdrawMsgs env.self s l.forSale l.fee := by
  unfold withdrawPurchased at h
  split at h
  · cases h
  rename_i k l hl
  split at h
  · cases h
  rename_i c hc
  split at h
  · cases h
  split at h
  · cases h
  rename_i h1 h2
  have hsc : s = c := by simpa using h1
  subst hsc
  simp only [Except.ok.injEq, Prod.mk.injEq] at h
  obtain ⟨rfl, rfl⟩ := h
  exact ⟨k, l, hl, hc, by simpa using h2, rfl, rfl⟩

/-- what an accepted `buy` does to the two tables -/
theorem buy_spec {m m' : Market} {env : Env} {s lid bid : Nat} {out : List OutMsg}
    (h : buy m env s lid bid = .ok (m', out)) :
    ∃ k l b l' b', findById lid m.listings = some (k, l) ∧ alookup (s, bid) m.buckets = some b ∧
      s = b.owner ∧ genbalCmp b.funds l.ask = true ∧ l.status = .finalized ∧ l.claimant = none ∧
      (∀ x, l.whitelist = some x → x = s) ∧ (∀ e, l.expiresAt = some e → env.nowNs ≤ e) ∧
      l'.id = l.id ∧ l'.ask = l.ask ∧ l'.whitelist = l.whitelist ∧ l'.expiresAt = l.expiresAt ∧
      l'.finalizedAt = l.finalizedAt ∧ l'.status = .closed ∧ l'.creator = s ∧
      l'.claimant = some s ∧ b'.owner = l.creator ∧
      m' = { m with listings := ainsert (s, lid) l' (aerase (l.creator, lid) m.listings),
                    buckets := ainsert (l.creator, bid) b' (aerase (s, bid) m.buckets) } := by
  unfold buy at h
  split at h
  · cases h
  rename_i b hb
  split at h
  · cases h
  rename_i k l hl
  split at h
  · cases h
  rename_i h1
  split at h
  · cases h
  rename_i h2
  split at h
  · cases h
  rename_i h3
  repeat' split at h
  all_goals first | (cases h; done) | skip
  all_goals
    simp only [Except.ok.injEq, Prod.mk.injEq] at h
    obtain ⟨rfl, _⟩ := h
    refine ⟨k, l, b, _, _, hl, hb, by simpa using h1, by simpa using h2, by simpa using h3,
      ?_, ?_, ?_, ?_, ?_, ?_, ?_, ?_, ?_, ?_, ?_, ?_, rfl⟩
    · simp_all
    · intro x hx; simp_all
    · intro e he; simp_all
    all_goals rfl

/-- Everything an accepted message can do to the listing table, the bucket table and the two
    id logs, handler by handler.  `s` = `info.sender`. -/
inductive MChange (m : Market) (env : Env) (s : Nat) (msg : ExecMsg) (m' : Market) : Prop
  /-- the fee cycle writes neither table -/
  | cycle (hmsg : msg = .feeCycle) (hl : m'.listings = m.listings) (hu : m'.listingUsed = m.listingUsed)
      (hb : m'.buckets = m.buckets) (hbu : m'.bucketUsed = m.bucketUsed)
  /-- change ask / add to listing / finalize: the actor's own preparing listing is replaced -/
  | ledit (id : Nat) (h : LEdit m (actor msg s) id m')
  /-- create listing -/
  | lcreate (id : Nat) (h : LCreate m (actor msg s) id m')
  /-- create bucket -/
  | bcreate (id : Nat) (h : BCreate m (actor msg s) id m')
  /-- add to bucket -/
  | bedit (id : Nat) (h : BEdit m (actor msg s) id m')
  /-- delete listing: the sender's own, unclaimed, unfinalized-or-expired listing is removed -/
  | ldelete (id : Nat) (l0 : Listing) (hmsg : msg = .deleteListing id)
      (hlook : alookup (s, id) m.listings = some l0) (hown : s = l0.creator)
      (hcl : l0.claimant = none) (hexp : ∀ e, l0.expiresAt = some e → e ≤ env.nowNs)
      (hm : m' = { m with listings := aerase (s, id) m.listings })
  /-- remove bucket: the sender's own bucket is removed -/
  | bremove (id : Nat) (b0 : Bucket) (hmsg : msg = .removeBucket id)
      (hlook : alookup (s, id) m.buckets = some b0) (hown : b0.owner = s)
      (hm : m' = { m with buckets := aerase (s, id) m.buckets })
  /-- buy: the finalized listing `lid` is re-filed under the buyer `s`, closed; the buyer's
      bucket `bid` is re-filed under the seller -/
  | buy (lid bid : Nat) (k : Nat × Nat) (l : Listing) (b : Bucket) (l' : Listing) (b' : Bucket)
      (hmsg : msg = .buy lid bid)
      (hfind : findById lid m.listings = some (k, l)) (hbk : alookup (s, bid) m.buckets = some b)
      (hown : s = b.owner) (hst : l.status = .finalized) (hcl : l.claimant = none)
      (hexp : ∀ e, l.expiresAt = some e → env.nowNs ≤ e)
      (hid : l'.id = l.id) (hask : l'.ask = l.ask) (hwl : l'.whitelist = l.whitelist)
      (hex : l'.expiresAt = l.expiresAt) (hfin : l'.finalizedAt = l.finalizedAt)
      (hst' : l'.status = .closed) (hcr' : l'.creator = s) (hcl' : l'.claimant = some s)
      (hbo : b'.owner = l.creator)
      (hm : m' = { m with listings := ainsert (s, lid) l' (aerase (l.creator, lid) m.listings),
                          buckets := ainsert (l.creator, bid) b' (aerase (s, bid) m.buckets) })
  /-- withdraw purchased: the closed listing claimed by the sender is removed -/
  | withdraw (lid : Nat) (k : Nat × Nat) (l : Listing) (hmsg : msg = .withdrawPurchased lid)
      (hfind : findById lid m.listings = some (k, l)) (hcl : l.claimant = some s)
      (hst : l.status = .closed)
      (hm : m' = { m with listings := aerase (s, lid) m.listings })

theorem rawValid_some {a : RawAddr} {u : Nat} (h : rawValid a = some u) : a = .valid u := by
  cases a with
  | valid x => simp only [rawValid, Option.some.injEq] at h; rw [h]
  | invalid => cases h

/-- the handler-by-handler description holds for every accepted message -/
theorem execute_mchange {m m' : Market} {env : Env} {s : Nat} {f : List Coin} {msg : ExecMsg}
    {out : List OutMsg} (h : execute m env s f msg = .ok (m', out)) : MChange m env s msg m' := by
  unfold execute at h
  split at h
  · cases h
  cases msg with
  | feeCycle =>
    dsimp only at h
    unfold cycleFee at h
    dsimp only at h
    split at h
    · cases h
    · simp only [Except.ok.injEq, Prod.mk.injEq] at h
      obtain ⟨rfl, _⟩ := h
      exact .cycle rfl rfl rfl rfl rfl
  | createListing id c => exact .lcreate id (createListing_lcreate h)
  | addToListing id => exact .ledit id (addToListing_ledit h)
  | changeAsk id ask => exact .ledit id (changeAsk_ledit h)
  | finalize id secs => exact .ledit id (finalize_ledit h)
  | deleteListing id =>
    obtain ⟨l0, h1, h2, h3, h4, h5, _⟩ := deleteListing_spec h
    exact .ldelete id l0 rfl h1 h2 h3 h4 h5
  | createBucket id => exact .bcreate id (createBucket_bcreate h)
  | addToBucket id => exact .bedit id (addToBucket_bedit h)
  | removeBucket id =>
    obtain ⟨b0, h1, h2, h3, _⟩ := withdrawBucket_spec h
    exact .bremove id b0 rfl h1 h2 h3
  | buy lid bid =>
    obtain ⟨k, l, b, l', b', h1, h2, h3, _, h5, h6, _, h8, h9, h10, h11, h12, h13, h14, h15, h16,
      h17, h18⟩ := buy_spec h
    exact .buy lid bid k l b l' b' rfl h1 h2 h3 h5 h6 h8 h9 h10 h11 h12 h13 h14 h15 h16 h17 h18
  | withdrawPurchased lid =>
    obtain ⟨k, l, h1, h2, h3, h4, _⟩ := withdrawPurchased_spec h
    exact .withdraw lid k l rfl h1 h2 h3 h4
  | receive a amt i =>
    dsimp only at h
    unfold receive at h
    repeat' split at h
    all_goals first
      | (cases h; done)
      | skip
    all_goals
      have := rawValid_some ‹rawValid _ = some _›
      subst this
    · exact .lcreate _ (createListing_lcreate h)
    · exact .ledit _ (addToListing_ledit h)
    · exact .bcreate _ (createBucket_bcreate h)
    · exact .bedit _ (addToBucket_bedit h)
  | receiveNft a t i =>
    dsimp only at h
    unfold receiveNft at h
    repeat' split at h
    all_goals first
      | (cases h; done)
      | skip
    all_goals
      have := rawValid_some ‹rawValid _ = some _›
      subst this
    · exact .lcreate _ (createListingNft_lcreate h)
    · exact .ledit _ (addToListingNft_ledit h)
    · exact .bcreate _ (createBucketNft_bcreate h)
    · exact .bedit _ (addToBucketNft_bedit h)

/-! ### the fate of one listing id under an accepted message -/

theorem LIdInj.aerase {ls : List ((Nat × Nat) × Listing)} (h : LIdInj ls) (key : Nat × Nat) :
    LIdInj (aerase key ls) :=
  fun p hp q hq e => h p (mem_aerase.1 hp).1 q (mem_aerase.1 hq).1 e

/-- What an accepted message does to the listing stored under id `lid` (found as `(k, l)` in
    the pre-state): nothing; an edit by its owner while it is preparing; deletion by its owner
    (unclaimed, not finalized or already expired); a purchase (finalized, unclaimed, not yet
    expired) that re-files it under the buyer, closed; withdrawal by the claimant. -/
inductive LFate (m : Market) (env : Env) (s : Nat) (msg : ExecMsg) (m' : Market) (lid : Nat)
    (k : Nat × Nat) (l : Listing) : Prop
  | kept (h : findById lid m'.listings = some (k, l))
  | edited (l' : Listing) (hst : l.status = .preparing) (hcl : l.claimant = none)
      (hact : actor msg s = l.creator)
      (h : findById lid m'.listings = some (k, l')) (hid : l'.id = l.id)
      (hcr : l'.creator = l.creator) (hst' : l'.status = .preparing ∨ l'.status = .finalized)
      (hcl' : l'.claimant = none)
  | deleted (hmsg : msg = .deleteListing lid) (hown : s = l.creator) (hcl : l.claimant = none)
      (hexp : ∀ e, l.expiresAt = some e → e ≤ env.nowNs) (h : findById lid m'.listings = none)
  | bought (bid : Nat) (l' : Listing) (hmsg : msg = .buy lid bid) (hst : l.status = .finalized)
      (hcl : l.claimant = none) (hexp : ∀ e, l.expiresAt = some e → env.nowNs ≤ e)
      (h : findById lid m'.listings = some ((s, lid), l'))
      (hid : l'.id = l.id) (hask : l'.ask = l.ask) (hwl : l'.whitelist = l.whitelist)
      (hex : l'.expiresAt = l.expiresAt) (hfin : l'.finalizedAt = l.finalizedAt)
      (hst' : l'.status = .closed) (hcr' : l'.creator = s) (hcl' : l'.claimant = some s)
  | withdrawn (hmsg : msg = .withdrawPurchased lid) (hcl : l.claimant = some s)
      (hst : l.status = .closed) (hown : s = l.creator) (h : findById lid m'.listings = none)

theorem mchange_fate {m m' : Market} {env : Env} {s : Nat} {msg : ExecMsg} {lid : Nat}
    {k : Nat × Nat} {l : Listing} (hI : IdsInv m) (hfind : findById lid m.listings = some (k, l))
    (hc : MChange m env s msg m') : LFate m env s msg m' lid k l := by
  obtain ⟨hk, hlid, hlook⟩ := hI.findById_key hfind
  have hinj : LIdInj m.listings := hI.lidInj
  cases hc with
  | cycle _ hl _ _ _ => exact .kept (by rw [hl]; exact hfind)
  | bcreate id h =>
    obtain ⟨b', _, _, _, _, _, hl, _⟩ := h
    exact .kept (by rw [hl]; exact hfind)
  | bedit id h =>
    obtain ⟨b0, b', _, _, _, _, _, _, hl, _⟩ := h
    exact .kept (by rw [hl]; exact hfind)
  | bremove id b0 _ _ _ hm => subst hm; exact .kept hfind
  | ledit id h =>
    obtain ⟨l0, l', hlook0, hown, hst0, hcl0, hid, hcr, hst', hcl', hl, _⟩ := h
    obtain ⟨hf0, _, hid0⟩ := hI.findById_of_alookup hlook0
    by_cases hkk : (actor msg s, id) = k
    · rw [hkk, hlook] at hlook0
      cases hlook0
      refine .edited l' hst0 hcl0 hown ?_ hid hcr hst' hcl'
      rw [hl, hkk]
      exact findById_ainsert_self k (by rw [hid, hlid])
    · have hne : l'.id ≠ lid := by
        rw [hid, hid0]
        intro e; subst e
        rw [hfind] at hf0
        cases hf0
        exact hkk rfl
      refine .kept ?_
      rw [hl, findById_ainsert_ne _ hne]
      exact findById_aerase_ne hinj hfind hkk
  | lcreate id h =>
    obtain ⟨l', hfresh, _, hid', _, _, hl, _⟩ := h
    have hne : id ≠ lid := by
      intro e; subst e; rw [hfind] at hfresh; cases hfresh
    refine .kept ?_
    rw [hl, findById_ainsert_ne _ (by rw [hid']; exact hne)]
    refine findById_aerase_ne hinj hfind ?_
    rw [hk]; intro e; exact hne (congrArg Prod.snd e)
  | ldelete id l0 hmsg hlook0 hown hcl hexp hm =>
    subst hm
    by_cases hkk : (s, id) = k
    · rw [hkk, hlook] at hlook0
      cases hlook0
      rw [hk] at hkk
      cases hkk
      refine .deleted hmsg rfl hcl hexp ?_
      dsimp only
      rw [← hk]
      exact findById_aerase_self hinj hfind
    · exact .kept (findById_aerase_ne hinj hfind hkk)
  | buy lid' bid k2 l2 b l' b' hmsg hfind2 _ _ hst hcl hexp hid hask hwl hex hfin hst' hcr' hcl' _ hm =>
    subst hm
    by_cases hll : lid' = lid
    · subst hll
      rw [hfind] at hfind2
      cases hfind2
      refine .bought bid l' hmsg hst hcl hexp ?_ hid hask hwl hex hfin hst' hcr' hcl'
      exact findById_ainsert_self _ (by rw [hid, hlid])
    · obtain ⟨_, hlid2, _⟩ := hI.findById_key hfind2
      refine .kept ?_
      dsimp only
      rw [findById_ainsert_ne _ (by rw [hid, hlid2]; exact hll)]
      refine findById_aerase_ne (hinj.aerase _) (findById_aerase_ne hinj hfind ?_) ?_
      · rw [hk]; intro e; exact hll (congrArg Prod.snd e)
      · rw [hk]; intro e; exact hll (congrArg Prod.snd e)
  | withdraw lid' k2 l2 hmsg hfind2 hcl hst hm =>
    subst hm
    by_cases hkk : (s, lid') = k
    · rw [hk] at hkk
      cases hkk
      rw [hfind] at hfind2
      cases hfind2
      refine .withdrawn hmsg hcl hst rfl ?_
      dsimp only
      rw [← hk]
      exact findById_aerase_self hinj hfind
    · exact .kept (findById_aerase_ne hinj hfind hkk)

/-- the id log only grows -/
theorem mchange_used {m m' : Market} {env : Env} {s : Nat} {msg : ExecMsg}
    (hc : MChange m env s msg m') : ∀ i, i ∈ m.listingUsed → i ∈ m'.listingUsed := by
  intro i hi
  cases hc with
  | cycle _ _ hu _ _ => rw [hu]; exact hi
  | bcreate id h => obtain ⟨b', _, _, _, _, _, _, hu⟩ := h; rw [hu]; exact hi
  | bedit id h => obtain ⟨b0, b', _, _, _, _, _, _, _, hu⟩ := h; rw [hu]; exact hi
  | bremove id b0 _ _ _ hm => subst hm; exact hi
  | ledit id h => obtain ⟨l0, l', _, _, _, _, _, _, _, _, _, hu, _⟩ := h; rw [hu]; exact hi
  | lcreate id h =>
    obtain ⟨l', _, _, _, _, _, _, hu, _⟩ := h; rw [hu]; exact List.mem_cons_of_mem _ hi
  | ldelete id l0 _ _ _ _ _ hm => subst hm; exact hi
  | buy lid' bid k2 l2 b l' b' _ _ _ _ _ _ _ _ _ _ _ _ _ _ _ _ hm => subst hm; exact hi
  | withdraw lid' k2 l2 _ _ _ _ hm => subst hm; exact hi

/-- a used id without a live listing never gets one again -/
theorem mchange_gone {m m' : Market} {env : Env} {s : Nat} {msg : ExecMsg} {lid : Nat}
    (hnone : findById lid m.listings = none) (hused : lid ∈ m.listingUsed)
    (hc : MChange m env s msg m') : findById lid m'.listings = none := by
  have hall := findById_eq_none.1 hnone
  cases hc with
  | cycle _ hl _ _ _ => rw [hl]; exact hnone
  | bcreate id h => obtain ⟨b', _, _, _, _, _, hl, _⟩ := h; rw [hl]; exact hnone
  | bedit id h => obtain ⟨b0, b', _, _, _, _, _, _, hl, _⟩ := h; rw [hl]; exact hnone
  | bremove id b0 _ _ _ hm => subst hm; exact hnone
  | ledit id h =>
    obtain ⟨l0, l', hlook0, _, _, _, hid, _, _, _, hl, _⟩ := h
    have hne : l'.id ≠ lid := by rw [hid]; exact hall _ (alookup_some_mem hlook0)
    rw [hl, findById_ainsert_ne _ hne]
    exact findById_aerase_none _ hnone
  | lcreate id h =>
    obtain ⟨l', _, hnu, hid', _, _, hl, _⟩ := h
    have hne : l'.id ≠ lid := by rw [hid']; intro e; subst e; exact hnu hused
    rw [hl, findById_ainsert_ne _ hne]
    exact findById_aerase_none _ hnone
  | ldelete id l0 _ _ _ _ _ hm => subst hm; exact findById_aerase_none _ hnone
  | buy lid' bid k2 l2 b l' b' _ hfind2 _ _ _ _ _ hid _ _ _ _ _ _ _ _ hm =>
    subst hm
    have hne : l'.id ≠ lid := by rw [hid]; exact hall _ (findById_some hfind2).2
    dsimp only
    rw [findById_ainsert_ne _ hne]
    exact findById_aerase_none _ (findById_aerase_none _ hnone)
  | withdraw lid' k2 l2 _ _ _ _ hm => subst hm; exact findById_aerase_none _ hnone

/-! ### lifting handler-level facts to `stepF` / `run` -/

/-- the marketplace record after one transaction: unchanged, or the result of an accepted
    handler run on the pre-state record and environment -/
theorem stepF_mkt_casesF (fail : Nat → Bool) (w : World) (op : Op) :
    (stepF fail w op).1.mkt = w.mkt ∨
    ∃ c f msg out, op.asExec = some (c, f, msg) ∧ (stepF fail w op).2.ok = true ∧
      (stepF fail w op).1.nowNs = w.nowNs ∧
      execute w.mkt w.env c f msg = .ok ((stepF fail w op).1.mkt, out) := by
  cases ho : op.asExec with
  | none => exact .inl (stepF_mkt_of_asExec_none ho)
  | some t =>
    obtain ⟨c, f, msg⟩ := t
    rcases stepF_market (fail := fail) (w := w) ho with ⟨e, h⟩ | ⟨m', msgs, w2, hx, hm, hc, h⟩
    · rw [h]; exact .inl rfl
    · rw [h]; subst hm; exact .inr ⟨c, f, msg, msgs, rfl, rfl, hc.nowNs, hx⟩

/-- a message that is not a receive hook reaches the marketplace only as a direct `exec` -/
theorem asExec_direct {op : Op} {c : Nat} {f : List Coin} {msg : ExecMsg}
    (h : op.asExec = some (c, f, msg)) (h1 : ∀ a b i, msg ≠ .receive a b i)
    (h2 : ∀ a b i, msg ≠ .receiveNft a b i) : op = .exec c f msg := by
  cases op with
  | exec s fu m =>
    simp only [Op.asExec, Option.some.injEq, Prod.mk.injEq] at h
    obtain ⟨rfl, rfl, rfl⟩ := h; rfl
  | send20 t s a i =>
    simp only [Op.asExec, Option.some.injEq, Prod.mk.injEq] at h
    exact absurd h.2.2.symm (h1 _ _ _)
  | send721 co s t i =>
    simp only [Op.asExec, Option.some.injEq, Prod.mk.injEq] at h
    exact absurd h.2.2.symm (h2 _ _ _)
  | royalty s m => simp [Op.asExec] at h
  | setAdmin s c n => simp [Op.asExec] at h
  | advance a b => simp [Op.asExec] at h

theorem run_append (w : World) (a b : List Op) : run w (a ++ b) = run (run w a) b := by
  induction a generalizing w with
  | nil => rfl
  | cons op ops ih => simp only [List.cons_append, run]; exact ih _

/-- `IdsInv` along a step, given its preservation by `execute` -/
theorem step_idsInv
    (hpres : ∀ m env s f msg m' out, IdsInv m → execute m env s f msg = .ok (m', out) → IdsInv m')
    {w : World} (op : Op) (hI : IdsInv w.mkt) : IdsInv (step w op).1.mkt := by
  unfold step
  rcases stepF_mkt_casesF noFault w op with h | ⟨c, f, msg, out, _, _, _, hx⟩
  · rw [h]; exact hI
  · exact hpres _ _ _ _ _ _ _ hI hx

theorem run_idsInv
    (hpres : ∀ m env s f msg m' out, IdsInv m → execute m env s f msg = .ok (m', out) → IdsInv m')
    {w : World} (ops : List Op) (hI : IdsInv w.mkt) : IdsInv (run w ops).mkt := by
  induction ops generalizing w with
  | nil => exact hI
  | cons op ops ih => exact ih (step_idsInv hpres op hI)

end Fuzion
