/-
  Fuzion.Lemmas.AList — association-list lemmas used by the invariant proofs
  (membership, lookup, sums and flatMaps over `aerase` / `ainsert`).
-/
import Fuzion.Model.Basic
namespace Fuzion

variable {κ ν : Type} [DecidableEq κ]

theorem al_mem_aerase {k : κ} {l : List (κ × ν)} {p : κ × ν} :
    p ∈ aerase k l ↔ p ∈ l ∧ p.1 ≠ k := by
  simp [aerase, List.mem_filter]

theorem al_mem_ainsert {k : κ} {v : ν} {l : List (κ × ν)} {p : κ × ν} :
    p ∈ ainsert k v l ↔ p = (k, v) ∨ (p ∈ l ∧ p.1 ≠ k) := by
  simp [ainsert, al_mem_aerase]

theorem al_lookup_mem {k : κ} {v : ν} {l : List (κ × ν)} (h : alookup k l = some v) : (k, v) ∈ l := by
  induction l with
  | nil => simp [alookup] at h
  | cons x xs ih =>
    obtain ⟨k', v'⟩ := x
    simp only [alookup] at h
    split at h
    · simp_all
    · exact List.mem_cons_of_mem _ (ih h)

theorem al_lookup_none {k : κ} {l : List (κ × ν)} : alookup k l = none ↔ ∀ p ∈ l, p.1 ≠ k := by
  induction l with
  | nil => simp [alookup]
  | cons x xs ih =>
    obtain ⟨k', v'⟩ := x
    simp only [alookup]
    split
    · simp_all
    · simp_all

theorem al_mem_lookup {k : κ} {v : ν} {l : List (κ × ν)} (hn : (akeys l).Nodup) (h : (k, v) ∈ l) :
    alookup k l = some v := by
  induction l with
  | nil => simp at h
  | cons x xs ih =>
    obtain ⟨k', v'⟩ := x
    simp only [akeys, List.map_cons, List.nodup_cons] at hn
    simp only [alookup]
    rcases List.mem_cons.mp h with h | h
    · simp_all
    · split
      · rename_i hk
        subst hk
        exact absurd (List.mem_map.mpr ⟨(k', v), h, rfl⟩) hn.1
      · exact ih hn.2 h

theorem al_lookup_ainsert_self {k : κ} {v : ν} {l : List (κ × ν)} : alookup k (ainsert k v l) = some v := by
  simp [ainsert, alookup]

theorem al_lookup_aerase_ne {k k' : κ} {l : List (κ × ν)} (h : k' ≠ k) :
    alookup k' (aerase k l) = alookup k' l := by
  induction l with
  | nil => simp [aerase, alookup]
  | cons x xs ih =>
    obtain ⟨a, b⟩ := x
    unfold aerase at ih ⊢
    rw [List.filter_cons]
    by_cases hak : a = k
    · subst hak
      have h1 : ¬ (a = k') := fun e => h e.symm
      simp only [ne_eq, not_true_eq_false, decide_false, Bool.false_eq_true, ↓reduceIte, alookup, h1]
      exact ih
    · simp only [ne_eq, hak, not_false_eq_true, decide_true, ↓reduceIte, alookup]
      split
      · rfl
      · exact ih

theorem al_lookup_aerase_self {k : κ} {l : List (κ × ν)} : alookup k (aerase k l) = none := by
  rw [al_lookup_none]
  intro p hp
  exact (al_mem_aerase.mp hp).2

theorem al_lookup_ainsert_ne {k k' : κ} {v : ν} {l : List (κ × ν)} (h : k' ≠ k) :
    alookup k' (ainsert k v l) = alookup k' l := by
  have : ¬ (k = k') := fun e => h e.symm
  simp [ainsert, alookup, this, al_lookup_aerase_ne h]

theorem al_akeys_aerase_sublist {k : κ} {l : List (κ × ν)} : (akeys (aerase k l)).Sublist (akeys l) := by
  unfold akeys aerase
  exact List.Sublist.map _ List.filter_sublist

theorem al_nodup_aerase {k : κ} {l : List (κ × ν)} (h : (akeys l).Nodup) : (akeys (aerase k l)).Nodup :=
  h.sublist al_akeys_aerase_sublist

theorem al_nodup_ainsert {k : κ} {v : ν} {l : List (κ × ν)} (h : (akeys l).Nodup) :
    (akeys (ainsert k v l)).Nodup := by
  simp only [ainsert, akeys, List.map_cons, List.nodup_cons]
  refine ⟨?_, al_nodup_aerase h⟩
  intro hm
  obtain ⟨p, hp, hk⟩ := List.mem_map.mp hm
  exact (al_mem_aerase.mp hp).2 hk

/-! ### sums -/

def asum (f : ν → Nat) (l : List (κ × ν)) : Nat := (l.map (fun p => f p.2)).sum

omit [DecidableEq κ] in
theorem asum_cons (f : ν → Nat) (p : κ × ν) (l : List (κ × ν)) : asum f (p :: l) = f p.2 + asum f l := by
  simp [asum]

theorem asum_aerase (f : ν → Nat) {k : κ} {v : ν} {l : List (κ × ν)} (hn : (akeys l).Nodup)
    (h : alookup k l = some v) : asum f (aerase k l) + f v = asum f l := by
  induction l with
  | nil => simp [alookup] at h
  | cons x xs ih =>
    obtain ⟨a, b⟩ := x
    simp only [akeys, List.map_cons, List.nodup_cons] at hn
    simp only [alookup] at h
    by_cases hak : a = k
    · subst hak
      simp only [↓reduceIte, Option.some.injEq] at h
      subst h
      have hx : aerase a ((a, b) :: xs) = xs := by
        simp only [aerase, List.filter_cons, ne_eq, not_true_eq_false, decide_false]
        simp only [Bool.false_eq_true, ↓reduceIte]
        apply List.filter_eq_self.mpr
        intro p hp
        have : p.1 ≠ a := fun e => hn.1 (List.mem_map.mpr ⟨p, hp, e⟩)
        simp [this]
      rw [hx, asum_cons]
      simp only
      omega
    · simp only [hak, ↓reduceIte] at h
      have hx : aerase k ((a, b) :: xs) = (a, b) :: aerase k xs := by
        simp [aerase, List.filter_cons, hak]
      rw [hx, asum_cons, asum_cons]
      have := ih hn.2 h
      simp only at this ⊢
      omega

theorem asum_ainsert (f : ν → Nat) (k : κ) (v : ν) (l : List (κ × ν)) :
    asum f (ainsert k v l) = f v + asum f (aerase k l) := by
  simp [ainsert, asum_cons]

/-- erasing an absent key changes nothing -/
theorem al_aerase_absent {k : κ} {l : List (κ × ν)} (h : alookup k l = none) : aerase k l = l := by
  apply List.filter_eq_self.mpr
  intro p hp
  have := al_lookup_none.mp h p hp
  simp [this]

/-! ### flatMap / Perm -/

theorem perm_flatMap_aerase {β : Type} (f : κ × ν → List β) {k : κ} {v : ν} {l : List (κ × ν)}
    (hn : (akeys l).Nodup) (h : alookup k l = some v) :
    (l.flatMap f).Perm (f (k, v) ++ (aerase k l).flatMap f) := by
  induction l with
  | nil => simp [alookup] at h
  | cons x xs ih =>
    obtain ⟨a, b⟩ := x
    simp only [akeys, List.map_cons, List.nodup_cons] at hn
    simp only [alookup] at h
    by_cases hak : a = k
    · subst hak
      simp only [↓reduceIte, Option.some.injEq] at h
      subst h
      have hx : aerase a ((a, b) :: xs) = xs := by
        simp only [aerase, List.filter_cons, ne_eq, not_true_eq_false, decide_false]
        simp only [Bool.false_eq_true, ↓reduceIte]
        apply List.filter_eq_self.mpr
        intro p hp
        have : p.1 ≠ a := fun e => hn.1 (List.mem_map.mpr ⟨p, hp, e⟩)
        simp [this]
      rw [hx]
      simp
    · simp only [hak, ↓reduceIte] at h
      have hx : aerase k ((a, b) :: xs) = (a, b) :: aerase k xs := by
        simp [aerase, List.filter_cons, hak]
      rw [hx]
      simp only [List.flatMap_cons]
      have := ih hn.2 h
      refine (List.Perm.append_left _ this).trans ?_
      rw [← List.append_assoc, ← List.append_assoc]
      exact List.Perm.append_right _ List.perm_append_comm

end Fuzion
