/-
  Fuzion.Lemmas.Arith — definitions and helper lemmas for the fee / royalty arithmetic
  (properties C17 and C11).  Nothing here is a property theorem; those live in
  `Fuzion/Props/C17.lean` and `Fuzion/Props/C11.lean`.
-/
import Fuzion.Inv.Defs
namespace Fuzion

/-! ### definitions used by the property statements -/

/-- every fungible amount of the balance fits a `Uint128` -/
def GBal.bounded (g : GBal) : Prop :=
  (∀ c ∈ g.native, c.amount ≤ U128MAX) ∧ (∀ c ∈ g.cw20, c.amount ≤ U128MAX)

instance (g : GBal) : Decidable g.bounded := by unfold GBal.bounded; exact inferInstance

/-- every present registry answer carries a rate the registry accepts (10 … 300 bps) -/
def legalEntries (rs : List (Option RoyaltyInfo)) : Prop :=
  ∀ r ∈ rs.filterMap id, MIN_BPS ≤ r.bps ∧ r.bps ≤ MAX_BPS

instance (rs : List (Option RoyaltyInfo)) : Decidable (legalEntries rs) := by
  unfold legalEntries; exact inferInstance

/-- the sum of the rates of the present entries -/
def bpsSum (rs : List (Option RoyaltyInfo)) : Nat := ((rs.filterMap id).map (·.bps)).sum

/-- amount of native denomination `k` paid out by a message list -/
def outNative (ms : List OutMsg) (k : Nat) : Nat :=
  (ms.map fun m => match m with | .bankSend _ cs => coinAmt cs k | _ => 0).sum

/-- amount of CW20 token `k` paid out by a message list -/
def outCw20 (ms : List OutMsg) (k : Nat) : Nat :=
  (ms.map fun m => match m with | .cw20Transfer t _ a => if t = k then a else 0 | _ => 0).sum

/-- every amount carried by the message fits a `Uint128` -/
def OutMsg.amtBounded : OutMsg → Prop
  | .bankSend _ cs => ∀ c ∈ cs, c.amount ≤ U128MAX
  | .cw20Transfer _ _ a => a ≤ U128MAX
  | .nftTransfer _ _ _ => True
  | .fundPool _ c => c.amount ≤ U128MAX

/-- total of the exact shares of one amount over a list of entries -/
def shareSum (orig : Nat) (es : List RoyaltyInfo) : Nat := (es.map fun e => orig * e.bps / 10000).sum

/-! ### plain arithmetic -/

theorem fee_le (a : Nat) : a * 5 / 1000 ≤ a := by omega

theorem fee_pos {a : Nat} (h : 1 ≤ a) : 1 ≤ a - a * 5 / 1000 := by omega

/-- `Σ ⌊a·bᵢ/10⁴⌋ ≤ ⌊a·Σbᵢ/10⁴⌋` -/
theorem sum_mul_div_le (a : Nat) (bs : List Nat) :
    (bs.map fun b => a * b / 10000).sum ≤ a * bs.sum / 10000 := by
  induction bs with
  | nil => simp
  | cons b bs ih =>
    simp only [List.map_cons, List.sum_cons, Nat.mul_add]
    have := @Nat.div_add_div_le_add_div (a * b) (a * bs.sum) 10000
    omega

/-- `2·⌊a·s/10⁴⌋ ≤ a` whenever `s ≤ 5000` -/
theorem two_mul_div_le {a s : Nat} (h : s ≤ 5000) : 2 * (a * s / 10000) ≤ a := by
  have h1 : a * s ≤ a * 5000 := Nat.mul_le_mul_left a h
  generalize a * s = x at h1
  omega

theorem mul_div_le_of_le {a b : Nat} (h : b ≤ 10000) : a * b / 10000 ≤ a := by
  have h1 : a * b ≤ a * 10000 := Nat.mul_le_mul_left a h
  generalize a * b = x at h1
  omega

theorem le_sum_of_mem {l : List Nat} {x : Nat} (h : x ∈ l) : x ≤ l.sum := by
  induction l with
  | nil => cases h
  | cons a l ih =>
    simp only [List.sum_cons]
    rcases List.mem_cons.1 h with h | h
    · omega
    · have := ih h; omega

/-! ### `coinAmt` -/

theorem coinAmt_nil (k : Nat) : coinAmt [] k = 0 := rfl

theorem coinAmt_cons (c : Coin) (l : List Coin) (k : Nat) :
    coinAmt (c :: l) k = (if c.key = k then c.amount else 0) + coinAmt l k := by
  unfold coinAmt
  by_cases h : c.key = k <;> simp [h]

theorem coinAmt_append (l₁ l₂ : List Coin) (k : Nat) :
    coinAmt (l₁ ++ l₂) k = coinAmt l₁ k + coinAmt l₂ k := by
  induction l₁ with
  | nil => simp [coinAmt_nil]
  | cons c l ih => simp only [List.cons_append, coinAmt_cons, ih]; omega

theorem coinAmt_single (d a k : Nat) : coinAmt [⟨d, a⟩] k = if d = k then a else 0 := by
  simp [coinAmt_cons, coinAmt_nil]

theorem coinAmt_eq_zero_of_not_mem {l : List Coin} {k : Nat} (h : k ∉ keys l) : coinAmt l k = 0 := by
  induction l with
  | nil => rfl
  | cons c l ih =>
    simp only [keys, List.map_cons, List.mem_cons, not_or] at h
    have h2 : k ∉ keys l := h.2
    have h1 : ¬ c.key = k := fun e => h.1 e.symm
    simp [coinAmt_cons, h1, ih h2]

theorem coinAmt_filter_ne (l : List Coin) (fd k : Nat) :
    coinAmt (l.filter fun n => decide (n.key ≠ fd)) k = if k = fd then 0 else coinAmt l k := by
  induction l with
  | nil => simp [coinAmt_nil]
  | cons c l ih =>
    by_cases hc : c.key = fd
    · rw [List.filter_cons_of_neg (by simp [hc]), ih, coinAmt_cons]
      by_cases hk : k = fd
      · simp [hk]
      · have : ¬ c.key = k := by omega
        simp [hk, this]
    · rw [List.filter_cons_of_pos (by simp [hc]), coinAmt_cons, ih, coinAmt_cons]
      by_cases hk : k = fd
      · simp [hk]
        intro h; omega
      · simp [hk]

/-- the first (and, without duplicates, only) entry of denomination `fd` carries the whole amount -/
theorem coinAmt_of_find {l : List Coin} {fd : Nat} {c : Coin} (nd : (keys l).Nodup)
    (h : l.find? (fun c => decide (c.key = fd)) = some c) : c.key = fd ∧ coinAmt l fd = c.amount := by
  induction l with
  | nil => simp at h
  | cons a l ih =>
    simp only [keys, List.map_cons, List.nodup_cons] at nd
    by_cases ha : a.key = fd
    · rw [List.find?_cons_of_pos (by simp [ha])] at h
      cases h
      have : fd ∉ keys l := by rw [← ha]; exact nd.1
      simp [coinAmt_cons, ha, coinAmt_eq_zero_of_not_mem this]
    · rw [List.find?_cons_of_neg (by simp [ha])] at h
      have := ih nd.2 h
      simp [coinAmt_cons, ha, this]

theorem coinAmt_of_find_none {l : List Coin} {fd : Nat}
    (h : l.find? (fun c => decide (c.key = fd)) = none) : coinAmt l fd = 0 := by
  apply coinAmt_eq_zero_of_not_mem
  intro hm
  simp only [keys, List.mem_map] at hm
  obtain ⟨c, hc, e⟩ := hm
  have := List.find?_eq_none.1 h c hc
  simp [e] at this

/-! ### the fee split: shape of the new native list -/

theorem keys_filter_ne (l : List Coin) (fd : Nat) :
    keys (l.filter fun n => decide (n.key ≠ fd)) = (keys l).filter (fun k => decide (k ≠ fd)) := by
  induction l with
  | nil => rfl
  | cons c l ih =>
    by_cases hc : c.key = fd
    · rw [List.filter_cons_of_neg (by simp [hc])]
      simp only [keys, List.map_cons] at ih ⊢
      rw [List.filter_cons_of_neg (by simp [hc])]; exact ih
    · rw [List.filter_cons_of_pos (by simp [hc])]
      simp only [keys, List.map_cons] at ih ⊢
      rw [List.filter_cons_of_pos (by simp [hc]), ih]

theorem filter_ne_of_not_mem {l : List Coin} {fd : Nat} (h : fd ∉ keys l) :
    l.filter (fun n => decide (n.key ≠ fd)) = l := by
  rw [List.filter_eq_self]
  intro c hc
  have : c.key ≠ fd := by
    intro e; apply h; simp only [keys, List.mem_map]; exact ⟨c, hc, e⟩
  simp [this]

/-- removing the `fd` entry and appending a new one permutes the keys -/
theorem keys_fee_perm {l : List Coin} {fd x : Nat} {c : Coin} (nd : (keys l).Nodup)
    (h : l.find? (fun c => decide (c.key = fd)) = some c) :
    (keys (l.filter (fun n => decide (n.key ≠ fd)) ++ [⟨fd, x⟩])).Perm (keys l) := by
  induction l with
  | nil => simp at h
  | cons a l ih =>
    have nd' := nd
    simp only [keys, List.map_cons, List.nodup_cons] at nd'
    by_cases ha : a.key = fd
    · have hn : fd ∉ keys l := by rw [← ha]; exact nd'.1
      rw [List.filter_cons_of_neg (by simp [ha]), filter_ne_of_not_mem hn]
      simp only [keys, List.map_append, List.map_cons, List.map_nil, ha]
      exact List.perm_append_singleton _ _
    · rw [List.find?_cons_of_neg (by simp [ha])] at h
      rw [List.filter_cons_of_pos (by simp [ha])]
      have := ih nd'.2 h
      simp only [keys, List.map_append, List.map_cons, List.map_nil, List.cons_append] at this ⊢
      exact List.Perm.cons _ this

theorem allNonzero_iff {l : List Coin} : allNonzero l = true ↔ ∀ c ∈ l, c.amount ≠ 0 := by
  simp [allNonzero]

/-! ### `royAmt` -/

theorem royAmt_le_share (o b : Nat) : royAmt o b ≤ o * b / 10000 := by
  unfold royAmt; split <;> omega

theorem royAmt_le_max (o b : Nat) : royAmt o b ≤ U128MAX := by
  unfold royAmt; split <;> omega

theorem royAmt_eq {o b : Nat} (ho : o ≤ U128MAX) (hb : b ≤ 10000) : royAmt o b = o * b / 10000 := by
  have := @mul_div_le_of_le o b hb
  unfold royAmt; rw [if_pos (by omega)]

/-- total of the (checked) royalty amounts of one asset -/
def roySum (orig : Nat) (rs : List RoyaltyInfo) : Nat := (rs.map fun r => royAmt orig r.bps).sum

/-- the payouts `royLoop` records for one asset -/
def royPays (orig : Nat) (rs : List RoyaltyInfo) : List (Nat × Nat) :=
  rs.filterMap fun r => if royAmt orig r.bps = 0 then none else some (r.payout, royAmt orig r.bps)

@[simp] theorem roySum_nil (o : Nat) : roySum o [] = 0 := rfl
@[simp] theorem roySum_cons (o : Nat) (r : RoyaltyInfo) (rs : List RoyaltyInfo) :
    roySum o (r :: rs) = royAmt o r.bps + roySum o rs := rfl
@[simp] theorem royPays_nil (o : Nat) : royPays o [] = [] := rfl

theorem royPays_cons (o : Nat) (r : RoyaltyInfo) (rs : List RoyaltyInfo) :
    royPays o (r :: rs) =
      if royAmt o r.bps = 0 then royPays o rs else (r.payout, royAmt o r.bps) :: royPays o rs := by
  unfold royPays
  by_cases h : royAmt o r.bps = 0 <;> simp [h]

theorem royPays_sum (o : Nat) (rs : List RoyaltyInfo) :
    ((royPays o rs).map (·.2)).sum = roySum o rs := by
  induction rs with
  | nil => rfl
  | cons r rs ih =>
    rw [royPays_cons]
    by_cases h : royAmt o r.bps = 0
    · simp [h, ih]
    · simp [h, ih]

/-- `Σ royAmt ≤ ⌊orig·Σbps/10⁴⌋` -/
theorem roySum_le (o : Nat) (rs : List RoyaltyInfo) :
    roySum o rs ≤ o * (rs.map (·.bps)).sum / 10000 := by
  induction rs with
  | nil => simp
  | cons r rs ih =>
    simp only [roySum_cons, List.map_cons, List.sum_cons, Nat.mul_add]
    have h1 := royAmt_le_share o r.bps
    have h2 := @Nat.div_add_div_le_add_div (o * r.bps) (o * (rs.map (·.bps)).sum) 10000
    omega

/-- with a rate sum of at most 50 % the payouts of one asset take at most half of it -/
theorem two_roySum_le {o : Nat} {rs : List RoyaltyInfo} (h : (rs.map (·.bps)).sum ≤ 5000) :
    2 * roySum o rs ≤ o := by
  have h1 := roySum_le o rs
  have h2 := @two_mul_div_le o _ h
  omega

theorem roySum_eq_shareSum {o : Nat} {rs : List RoyaltyInfo} (ho : o ≤ U128MAX)
    (hb : ∀ r ∈ rs, r.bps ≤ 10000) : roySum o rs = shareSum o rs := by
  unfold roySum shareSum
  apply congrArg
  apply List.map_congr_left
  intro r hr
  exact royAmt_eq ho (hb r hr)

theorem bps_le_of_sum_le {rs : List RoyaltyInfo} {s : Nat} (h : (rs.map (·.bps)).sum ≤ s) :
    ∀ r ∈ rs, r.bps ≤ s := by
  intro r hr
  have : r.bps ∈ rs.map (·.bps) := List.mem_map.2 ⟨r, hr, rfl⟩
  have := le_sum_of_mem this
  omega

/-! ### `royLoop` -/

theorem royLoop_spec {orig : Nat} {rs : List RoyaltyInfo} {cur n : Nat} {ps : List (Nat × Nat)}
    (h : royLoop orig rs cur = some (n, ps)) : n + roySum orig rs = cur ∧ ps = royPays orig rs := by
  induction rs generalizing cur n ps with
  | nil =>
    simp only [royLoop, Option.some.injEq, Prod.mk.injEq] at h
    simp [h.1, h.2]
  | cons r rs ih =>
    rw [royPays_cons]
    simp only [royLoop] at h
    split at h
    · rename_i hz
      have := ih h
      simp [hz, this]
    · rename_i hz
      split at h
      · cases h
      · rename_i hlt
        split at h
        · cases h
        · rename_i n' ps' hrec
          simp only [Option.some.injEq, Prod.mk.injEq] at h
          have := ih hrec
          rw [if_neg hz, ← h.2, ← h.1, this.2]
          refine ⟨?_, rfl⟩
          simp only [roySum_cons]
          omega

theorem royLoop_total {orig : Nat} {rs : List RoyaltyInfo} {cur : Nat}
    (h : roySum orig rs ≤ cur) : ∃ n ps, royLoop orig rs cur = some (n, ps) := by
  induction rs generalizing cur with
  | nil => exact ⟨cur, [], rfl⟩
  | cons r rs ih =>
    simp only [roySum_cons] at h
    simp only [royLoop]
    split
    · exact ih (by omega)
    · rw [if_neg (by omega)]
      obtain ⟨n, ps, e⟩ := @ih (cur - royAmt orig r.bps) (by omega)
      rw [e]
      exact ⟨_, _, rfl⟩

/-! ### `royCoins` -/

/-- the messages `royCoins` emits for one asset -/
def royMsgs (mk : Nat → Nat → Nat → OutMsg) (rs : List RoyaltyInfo) (c : Coin) : List OutMsg :=
  (royPays c.amount rs).map fun p => mk c.key p.1 p.2

theorem royCoins_spec {mk : Nat → Nat → Nat → OutMsg} {rs : List RoyaltyInfo} {cs cs' : List Coin}
    {ms : List OutMsg} (h : royCoins mk rs cs = some (cs', ms)) :
    cs' = cs.map (fun c => ⟨c.key, c.amount - roySum c.amount rs⟩) ∧
    ms = cs.flatMap (royMsgs mk rs) ∧
    ∀ c ∈ cs, roySum c.amount rs ≤ c.amount := by
  induction cs generalizing cs' ms with
  | nil =>
    simp only [royCoins, Option.some.injEq, Prod.mk.injEq] at h
    simp [← h.1, ← h.2]
  | cons c cs ih =>
    simp only [royCoins] at h
    split at h
    · rename_i n ps cs1 ms1 h1 h2
      simp only [Option.some.injEq, Prod.mk.injEq] at h
      have s1 := royLoop_spec h1
      have s2 := ih h2
      refine ⟨?_, ?_, ?_⟩
      · rw [← h.1, List.map_cons, ← s2.1]
        have : n = c.amount - roySum c.amount rs := by omega
        rw [this]
      · rw [← h.2, List.flatMap_cons, ← s2.2.1, royMsgs, ← s1.2]
      · intro x hx
        rcases List.mem_cons.1 hx with e | hx
        · subst e; omega
        · exact s2.2.2 x hx
    · cases h

theorem royCoins_total {mk : Nat → Nat → Nat → OutMsg} {rs : List RoyaltyInfo} {cs : List Coin}
    (h : ∀ c ∈ cs, roySum c.amount rs ≤ c.amount) : ∃ cs' ms, royCoins mk rs cs = some (cs', ms) := by
  induction cs with
  | nil => exact ⟨[], [], rfl⟩
  | cons c cs ih =>
    obtain ⟨n, ps, e1⟩ := royLoop_total (h c (List.mem_cons_self))
    obtain ⟨cs', ms, e2⟩ := ih (fun x hx => h x (List.mem_cons_of_mem _ hx))
    simp only [royCoins, e1, e2]
    exact ⟨_, _, rfl⟩

/-! ### value paid out by a message list, generically -/

/-- `(ms.map f).sum` — `outNative · k` and `outCw20 · k` are instances -/
def outBy (f : OutMsg → Nat) (ms : List OutMsg) : Nat := (ms.map f).sum

def fNative (k : Nat) : OutMsg → Nat := fun m => match m with | .bankSend _ cs => coinAmt cs k | _ => 0
def fCw20 (k : Nat) : OutMsg → Nat :=
  fun m => match m with | .cw20Transfer t _ a => if t = k then a else 0 | _ => 0

theorem outNative_eq (ms : List OutMsg) (k : Nat) : outNative ms k = outBy (fNative k) ms := rfl
theorem outCw20_eq (ms : List OutMsg) (k : Nat) : outCw20 ms k = outBy (fCw20 k) ms := rfl

theorem outBy_append (f : OutMsg → Nat) (a b : List OutMsg) :
    outBy f (a ++ b) = outBy f a + outBy f b := by
  simp [outBy]

theorem fNative_mkBank (k d to amt : Nat) : fNative k (mkBank d to amt) = if d = k then amt else 0 := by
  simp [fNative, mkBank, coinAmt_single]
theorem fNative_mkCw20 (k d to amt : Nat) : fNative k (mkCw20 d to amt) = 0 := rfl
theorem fCw20_mkCw20 (k d to amt : Nat) : fCw20 k (mkCw20 d to amt) = if d = k then amt else 0 := rfl
theorem fCw20_mkBank (k d to amt : Nat) : fCw20 k (mkBank d to amt) = 0 := rfl

/-- messages of one asset pay out exactly `roySum` of that asset's key -/
theorem outBy_royMsgs {f : OutMsg → Nat} {mk : Nat → Nat → Nat → OutMsg} {k : Nat}
    (hf : ∀ d to amt, f (mk d to amt) = if d = k then amt else 0) (rs : List RoyaltyInfo) (c : Coin) :
    outBy f (royMsgs mk rs c) = if c.key = k then roySum c.amount rs else 0 := by
  unfold outBy royMsgs
  rw [← royPays_sum]
  generalize royPays c.amount rs = ps
  induction ps with
  | nil => simp
  | cons p ps ih =>
    simp only [List.map_cons, List.sum_cons, ih, hf]
    by_cases h : c.key = k <;> simp [h]

theorem outBy_royMsgs_zero {f : OutMsg → Nat} {mk : Nat → Nat → Nat → OutMsg}
    (hf : ∀ d to amt, f (mk d to amt) = 0) (rs : List RoyaltyInfo) (cs : List Coin) :
    outBy f (cs.flatMap (royMsgs mk rs)) = 0 := by
  induction cs with
  | nil => rfl
  | cons c cs ih =>
    rw [List.flatMap_cons, outBy_append, ih]
    unfold outBy royMsgs
    generalize royPays c.amount rs = ps
    induction ps with
    | nil => rfl
    | cons p ps ih2 =>
      simp only [List.map_cons, List.sum_cons, hf] at ih2 ⊢
      omega

/-- per-key conservation of one `royCoins` pass (closed form) -/
theorem royCoins_conserve {f : OutMsg → Nat} {mk : Nat → Nat → Nat → OutMsg} {k : Nat}
    (hf : ∀ d to amt, f (mk d to amt) = if d = k then amt else 0) (rs : List RoyaltyInfo)
    {cs : List Coin} (hle : ∀ c ∈ cs, roySum c.amount rs ≤ c.amount) :
    coinAmt (cs.map (fun c => ⟨c.key, c.amount - roySum c.amount rs⟩)) k +
      outBy f (cs.flatMap (royMsgs mk rs)) = coinAmt cs k := by
  induction cs with
  | nil => rfl
  | cons c cs ih =>
    have h1 := hle c List.mem_cons_self
    have h2 := ih (fun x hx => hle x (List.mem_cons_of_mem _ hx))
    rw [List.map_cons, List.flatMap_cons, outBy_append, coinAmt_cons, coinAmt_cons,
      outBy_royMsgs hf]
    by_cases h : c.key = k
    · simp only [h, if_true]; omega
    · simp only [h, if_false]; omega

theorem keys_map_amount (cs : List Coin) (g : Coin → Nat) :
    keys (cs.map fun c => ⟨c.key, g c⟩) = keys cs := by
  simp [keys, List.map_map, Function.comp_def]

/-- after a pass with rate sum ≤ 50 %, twice the remaining total of a key covers the original -/
theorem coinAmt_half {rs : List RoyaltyInfo} (hs : (rs.map (·.bps)).sum ≤ 5000) (cs : List Coin)
    (k : Nat) :
    coinAmt cs k ≤
      2 * coinAmt (cs.map (fun c => (⟨c.key, c.amount - roySum c.amount rs⟩ : Coin))) k := by
  induction cs with
  | nil => simp [coinAmt_nil]
  | cons c cs ih =>
    rw [List.map_cons, coinAmt_cons, coinAmt_cons]
    have := @two_roySum_le c.amount rs hs
    by_cases h : c.key = k
    · simp only [h, if_true]; omega
    · simp only [h, if_false]; omega

/-! ### closed form of the message list in terms of the exact shares -/

/-- the payouts of one asset, written with the exact share `⌊amount·bps/10⁴⌋` -/
def shareMsgs (mk : Nat → Nat → Nat → OutMsg) (es : List RoyaltyInfo) (c : Coin) : List OutMsg :=
  es.filterMap fun e =>
    if c.amount * e.bps / 10000 = 0 then none else some (mk c.key e.payout (c.amount * e.bps / 10000))

theorem royMsgs_eq_shareMsgs {mk : Nat → Nat → Nat → OutMsg} {rs : List RoyaltyInfo} {c : Coin}
    (ho : c.amount ≤ U128MAX) (hb : ∀ r ∈ rs, r.bps ≤ 10000) :
    royMsgs mk rs c = shareMsgs mk rs c := by
  unfold royMsgs shareMsgs
  induction rs with
  | nil => rfl
  | cons r rs ih =>
    have e := royAmt_eq ho (hb r List.mem_cons_self)
    have ih' := ih (fun x hx => hb x (List.mem_cons_of_mem _ hx))
    rw [royPays_cons, e, List.filterMap_cons]
    by_cases hz : c.amount * r.bps / 10000 = 0
    · simp only [hz, if_true]; exact ih'
    · simp only [hz, if_false, List.map_cons]; rw [ih']

theorem flatMap_congr_mem {α β : Type} {l : List α} {f g : α → List β} (h : ∀ a ∈ l, f a = g a) :
    l.flatMap f = l.flatMap g := by
  induction l with
  | nil => rfl
  | cons a l ih =>
    rw [List.flatMap_cons, List.flatMap_cons, h a List.mem_cons_self,
      ih (fun x hx => h x (List.mem_cons_of_mem _ hx))]

/-! ### decomposition of `royalties` -/

theorem royalties_ok {g g' : GBal} {resp : List (Option RoyaltyInfo)} {ms : List OutMsg} {s : Nat}
    (h : royalties g resp = .ok g' ms s) :
    s = bpsSum resp ∧ s ≤ 5000 ∧
    ∃ n m1 c m2, royCoins mkBank (resp.filterMap id) g.native = some (n, m1) ∧
      royCoins mkCw20 (resp.filterMap id) g.cw20 = some (c, m2) ∧
      g' = { g with native := n, cw20 := c } ∧ ms = m1 ++ m2 := by
  unfold royalties at h
  simp only at h
  split at h
  · cases h
  · split at h
    · cases h
    · rename_i h5
      split at h
      · rename_i n m1 c m2 e1 e2
        injection h with hg hm hs
        exact ⟨hs.symm, by omega, n, m1, c, m2, e1, e2, hg.symm, hm.symm⟩
      · cases h

theorem royalties_total (g : GBal) {resp : List (Option RoyaltyInfo)} (h : bpsSum resp ≤ 5000) :
    ∃ g' ms, royalties g resp = .ok g' ms (bpsSum resp) := by
  have hs : ((resp.filterMap id).map (·.bps)).sum ≤ 5000 := h
  have hle : ∀ o : Nat, roySum o (resp.filterMap id) ≤ o := fun o => by
    have := @two_roySum_le o _ hs; omega
  obtain ⟨n, m1, e1⟩ := @royCoins_total mkBank (resp.filterMap id) g.native (fun c _ => hle _)
  obtain ⟨c, m2, e2⟩ := @royCoins_total mkCw20 (resp.filterMap id) g.cw20 (fun c _ => hle _)
  refine ⟨{ g with native := n, cw20 := c }, m1 ++ m2, ?_⟩
  unfold royalties
  simp only [e1, e2]
  unfold bpsSum at *
  rw [if_neg (by unfold U64MAX; omega), if_neg (by omega)]

/-- 25 registry-legal entries sum to at most 7500 bps (so the `u64` sum cannot overflow) -/
theorem bpsSum_le_of_legal {rs : List (Option RoyaltyInfo)} (hl : legalEntries rs)
    (hn : rs.length ≤ 25) : bpsSum rs ≤ 7500 := by
  have key : ∀ (es : List RoyaltyInfo), (∀ r ∈ es, r.bps ≤ 300) → (es.map (·.bps)).sum ≤ 300 * es.length := by
    intro es
    induction es with
    | nil => simp
    | cons e es ih =>
      intro h
      have h1 := h e List.mem_cons_self
      have h2 := ih (fun x hx => h x (List.mem_cons_of_mem _ hx))
      simp only [List.map_cons, List.sum_cons, List.length_cons]
      omega
  have hlen : (rs.filterMap id).length ≤ rs.length := List.length_filterMap_le _ _
  have := key (rs.filterMap id) (fun r hr => by
    have := (hl r hr).2; unfold MAX_BPS at this; exact this)
  unfold bpsSum
  omega

/-- what is left of one asset after the royalty pass -/
def royRem (rs : List RoyaltyInfo) (c : Coin) : Coin := ⟨c.key, c.amount - roySum c.amount rs⟩

/-- closed form of a successful `royalties` call -/
theorem royalties_closed {g g' : GBal} {resp : List (Option RoyaltyInfo)} {ms : List OutMsg} {s : Nat}
    (h : royalties g resp = .ok g' ms s) :
    s = bpsSum resp ∧ bpsSum resp ≤ 5000 ∧
    g' = ⟨g.native.map (royRem (resp.filterMap id)), g.cw20.map (royRem (resp.filterMap id)), g.nfts⟩ ∧
    ms = g.native.flatMap (royMsgs mkBank (resp.filterMap id)) ++
         g.cw20.flatMap (royMsgs mkCw20 (resp.filterMap id)) ∧
    (∀ c ∈ g.native, roySum c.amount (resp.filterMap id) ≤ c.amount) ∧
    (∀ c ∈ g.cw20, roySum c.amount (resp.filterMap id) ≤ c.amount) := by
  obtain ⟨hs, h5, n, m1, c, m2, e1, e2, hg, hm⟩ := royalties_ok h
  obtain ⟨a1, a2, a3⟩ := royCoins_spec e1
  obtain ⟨b1, b2, b3⟩ := royCoins_spec e2
  refine ⟨hs, by omega, ?_, ?_, a3, b3⟩
  · rw [hg, a1, b1]; rfl
  · rw [hm, a2, b2]

theorem royPays_mem {o : Nat} {rs : List RoyaltyInfo} {p : Nat × Nat} (h : p ∈ royPays o rs) :
    ∃ r ∈ rs, p = (r.payout, royAmt o r.bps) ∧ royAmt o r.bps ≠ 0 := by
  unfold royPays at h
  rw [List.mem_filterMap] at h
  obtain ⟨r, hr, e⟩ := h
  by_cases hz : royAmt o r.bps = 0
  · simp [hz] at e
  · simp only [hz, if_false, Option.some.injEq] at e
    exact ⟨r, hr, e.symm, hz⟩

/-! ### the three outcomes of `calc_fee_coin` -/

theorem calcFeeCoin_cases {fd : Nat} {g g' : GBal} {fee : Option Coin}
    (h : calcFeeCoin fd g = some (fee, g')) :
    (g.native.find? (fun c => decide (c.key = fd)) = none ∧ fee = none ∧ g' = g) ∨
    (∃ c, g.native.find? (fun c => decide (c.key = fd)) = some c ∧ c.amount * 5 / 1000 = 0 ∧
      fee = none ∧ g' = g) ∨
    (∃ c, g.native.find? (fun c => decide (c.key = fd)) = some c ∧ c.amount * 5 / 1000 ≠ 0 ∧
      fee = some ⟨fd, c.amount * 5 / 1000⟩ ∧
      g' = { g with native := g.native.filter (fun n => decide (n.key ≠ fd)) ++
                                [⟨fd, c.amount - c.amount * 5 / 1000⟩] }) := by
  unfold calcFeeCoin at h
  split at h
  · rename_i e
    simp only [Option.some.injEq, Prod.mk.injEq] at h
    exact Or.inl ⟨e, h.1.symm, h.2.symm⟩
  · rename_i c e
    simp only at h
    split at h
    · rename_i hz
      simp only [Option.some.injEq, Prod.mk.injEq] at h
      exact Or.inr (Or.inl ⟨c, e, hz, h.1.symm, h.2.symm⟩)
    · rename_i hz
      split at h
      · cases h
      · simp only [Option.some.injEq, Prod.mk.injEq] at h
        exact Or.inr (Or.inr ⟨c, e, hz, h.1.symm, h.2.symm⟩)

/-- one asset after a pass with rate sum ≤ 50 %: same key, not increased, at most half taken,
    never reduced to zero -/
theorem royRem_half {rs : List RoyaltyInfo} (hs : (rs.map (·.bps)).sum ≤ 5000) (c : Coin) :
    (royRem rs c).key = c.key ∧ (royRem rs c).amount ≤ c.amount ∧
    2 * (c.amount - (royRem rs c).amount) ≤ c.amount ∧
    (1 ≤ c.amount → 1 ≤ (royRem rs c).amount) := by
  have := @two_roySum_le c.amount rs hs
  refine ⟨rfl, ?_, ?_, ?_⟩ <;> dsimp only [royRem] <;> omega

theorem keys_map_royRem (rs : List RoyaltyInfo) (cs : List Coin) :
    keys (cs.map (royRem rs)) = keys cs := keys_map_amount _ _

/-! ### sample data for the non-vacuity examples of the property files -/

/-- a well-formed balance: two native denominations, one CW20 token, one NFT -/
def exBal : GBal := ⟨[⟨1, 1000⟩, ⟨2, 7⟩], [⟨9, 50000⟩], [⟨3, 4⟩]⟩
/-- `exBal` after the fee split in denomination 1 (the fee is `⟨1, 5⟩`) -/
def exBalFee : GBal := ⟨[⟨2, 7⟩, ⟨1, 995⟩], [⟨9, 50000⟩], [⟨3, 4⟩]⟩
/-- registry answers: 3 %, no royalty, 0.1 % -/
def exRoy : List (Option RoyaltyInfo) := [some ⟨0, 300, 7⟩, none, some ⟨0, 10, 8⟩]
/-- `exBal` after the royalty split with `exRoy` -/
def exBalRoy : GBal := ⟨[⟨1, 969⟩, ⟨2, 7⟩], [⟨9, 48450⟩], [⟨3, 4⟩]⟩
def exMsgs : List OutMsg :=
  [.bankSend 7 [⟨1, 30⟩], .bankSend 8 [⟨1, 1⟩], .cw20Transfer 9 7 1500, .cw20Transfer 9 8 50]
/-- both assets at `Uint128::MAX` -/
def exBalMax : GBal := ⟨[⟨1, U128MAX⟩], [⟨9, U128MAX⟩], []⟩
/-- rates summing to exactly 50 % -/
def exRoyHalf : List (Option RoyaltyInfo) := [some ⟨0, 300, 7⟩, some ⟨0, 4700, 8⟩]
def exBalMaxRoy : GBal :=
  ⟨[⟨1, 170141183460469231731687303715884105729⟩],
   [⟨9, 170141183460469231731687303715884105729⟩], []⟩
def exMsgsMax : List OutMsg :=
  [.bankSend 7 [⟨1, 10208471007628153903901238222953046343⟩],
   .bankSend 8 [⟨1, 159932712452841077827786065492931059383⟩],
   .cw20Transfer 9 7 10208471007628153903901238222953046343,
   .cw20Transfer 9 8 159932712452841077827786065492931059383]
/-- 17 collections at the 3 % cap: 5100 bps, over the 50 % gate -/
def exRoyOver : List (Option RoyaltyInfo) := List.replicate 17 (some ⟨0, 300, 7⟩)

end Fuzion
