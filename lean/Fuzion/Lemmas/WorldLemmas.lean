/-
  Fuzion.Lemmas.WorldLemmas — helper lemmas for lifting the handler-level acceptance
  characterisations (C02 purchase, C08 finalize / delete, C12 deposits) to whole transactions
  (`step`), without a "dispatch succeeds" hypothesis.

  Layout
  * §1  when the bank accepts: `bankSub` / `bankSend` succeed **iff** the payer holds, per
        denomination, the total the coin list names (no duplicate-freeness needed), and for a
        duplicate-free list this is per-coin sufficiency (`bankSend_isSome_iff`, `canPay_iff`);
  * §2  the budget argument: a message list is dispatched in full if every message is
        `deliverable` (non-zero, honest token, right depositor; no NFT transfer) and, per native
        denomination and per honest token, the **total** the list pays out is covered by the
        marketplace's balance (`dispatchAll_ok_of_budget`).  A payment addressed to the marketplace
        itself only helps, so no side condition on the destinations is needed;
  * §3  the messages of a purchase are deliverable and within budget (`buy_deliverable`,
        `buy_budget`);
  * §4  `step` as an equivalence, for the three ways a message reaches the marketplace
        (`step_exec_ok_iff`, `step_send20_ok_iff`, `step_send721_ok_iff`) and their
        specialisations to deposits;
  * §5  run-level frame: the stored registry address and the world's `regAddr` never change;
  * §6  small facts about stored preparing listings / owned buckets.
  Core library only.
-/
import Fuzion.Lemmas.ExitLemmas
import Fuzion.Lemmas.BuyLemmas
import Fuzion.Props.C12
namespace Fuzion

/-! ## §1 when the bank accepts -/

/-- `bankSub` succeeds iff the account holds, per denomination, the total the list names -/
theorem bankSub_isSome_iff {a : Nat} {cs : List Coin} : ∀ {bank : Ledger},
    (bankSub bank a cs).isSome = true ↔ ∀ d, coinAmt cs d ≤ lget bank (a, d) := by
  induction cs with
  | nil => intro bank; simp [bankSub, coinAmt_nil]
  | cons c cs ih =>
    intro bank
    simp only [bankSub]
    by_cases hlt : lget bank (a, c.key) < c.amount
    · rw [if_pos hlt]
      simp only [Option.isSome_none, Bool.false_eq_true, false_iff]
      intro h
      have := h c.key
      rw [coinAmt_cons, if_pos rfl] at this
      omega
    · rw [if_neg hlt, ih]
      constructor
      · intro h d
        have := h d
        rw [lget_lset] at this
        rw [coinAmt_cons]
        by_cases hd : c.key = d
        · subst hd
          rw [if_pos rfl] at this
          rw [if_pos rfl]
          omega
        · have hne : ¬ ((a, d) = (a, c.key)) := by
            intro e; injection e with _ e2; exact hd e2.symm
          rw [if_neg hne] at this
          rw [if_neg hd]
          omega
      · intro h d
        have := h d
        rw [coinAmt_cons] at this
        rw [lget_lset]
        by_cases hd : c.key = d
        · subst hd
          rw [if_pos rfl] at this
          rw [if_pos rfl]
          omega
        · have hne : ¬ ((a, d) = (a, c.key)) := by
            intro e; injection e with _ e2; exact hd e2.symm
          rw [if_neg hd] at this
          rw [if_neg hne]
          omega

/-- `BankKeeper::send` succeeds iff some coin is non-zero (zero coins are filtered, an empty
    transfer is an error) and the sender holds, per denomination, the listed total -/
theorem bankSend_isSome_iff {bank : Ledger} {src dst : Nat} {cs : List Coin} :
    (bankSend bank src dst cs).isSome = true ↔
      (∃ c ∈ cs, c.amount ≠ 0) ∧ ∀ d, coinAmt cs d ≤ lget bank (src, d) := by
  unfold bankSend
  dsimp only
  have hsub := bankSub_isSome_iff (a := src) (cs := cs.filter fun c => decide (c.amount ≠ 0)) (bank := bank)
  simp only [coinAmt_filter_nonzero] at hsub
  by_cases he : (cs.filter fun c => decide (c.amount ≠ 0)).isEmpty = true
  · rw [if_pos he]
    simp only [Option.isSome_none, Bool.false_eq_true, false_iff]
    rintro ⟨⟨c, hc, hz⟩, _⟩
    have hm : c ∈ cs.filter fun c => decide (c.amount ≠ 0) := List.mem_filter.2 ⟨hc, by simpa using hz⟩
    rw [List.isEmpty_iff.1 he] at hm
    cases hm
  · rw [if_neg he]
    have hex : ∃ c ∈ cs, c.amount ≠ 0 := by
      cases hf : cs.filter fun c => decide (c.amount ≠ 0) with
      | nil => rw [hf] at he; simp at he
      | cons c t =>
        have hm : c ∈ cs.filter fun c => decide (c.amount ≠ 0) := by rw [hf]; exact List.mem_cons_self
        obtain ⟨h1, h2⟩ := List.mem_filter.1 hm
        exact ⟨c, h1, by simpa using h2⟩
    cases hb : bankSub bank src (cs.filter fun c => decide (c.amount ≠ 0)) with
    | none =>
      rw [hb] at hsub
      simp only [Option.isSome_none, Bool.false_eq_true, false_iff] at hsub ⊢
      exact fun h => hsub h.2
    | some b =>
      rw [hb] at hsub
      simp only [Option.isSome_some, true_iff] at hsub ⊢
      exact ⟨hex, hsub⟩

/-- for a duplicate-free coin list, "holds the total per denomination" is "holds each coin" -/
theorem coinAmt_le_iff_of_nodup {bank : Ledger} {a : Nat} {cs : List Coin} (nd : (keys cs).Nodup) :
    (∀ d, coinAmt cs d ≤ lget bank (a, d)) ↔ ∀ c ∈ cs, c.amount ≤ lget bank (a, c.key) := by
  constructor
  · intro h c hc
    rw [← coinAmt_of_mem nd hc]
    exact h c.key
  · intro h d
    by_cases hd : d ∈ keys cs
    · obtain ⟨c, hc, rfl⟩ := List.mem_map.1 hd
      rw [coinAmt_of_mem nd hc]
      exact h c hc
    · rw [coinAmt_eq_zero_of_not_mem hd]
      exact Nat.zero_le _

/-- **"The depositor can pay"**: for a deposit that passes `normalized_check` (non-empty, no zero
    amount, no repeated denomination) the bank moves the coins iff the payer holds each of them -/
theorem canPay_iff {bank : Ledger} {src dst : Nat} {cs : List Coin}
    (hn : normalizedCheck (.native cs) = true) :
    (bankSend bank src dst cs).isSome = true ↔ ∀ c ∈ cs, c.amount ≤ lget bank (src, c.key) := by
  obtain ⟨hne, hz, nd⟩ := normalizedCheck_native hn
  rw [bankSend_isSome_iff, coinAmt_le_iff_of_nodup nd]
  constructor
  · exact fun h => h.2
  · intro h
    refine ⟨?_, h⟩
    cases cs with
    | nil => exact absurd rfl hne
    | cons c t => exact ⟨c, List.mem_cons_self, hz c List.mem_cons_self⟩

/-- cw20-base `transfer` succeeds iff the holder has the amount -/
theorem ledgerMove_isSome_iff {l : Ledger} {g src dst amt : Nat} :
    (ledgerMove l g src dst amt).isSome = true ↔ amt ≤ lget l (g, src) := by
  unfold ledgerMove
  by_cases h : lget l (g, src) < amt
  · rw [if_pos h]; simp; omega
  · rw [if_neg h]; simp; omega

/-! ## §2 the budget argument -/

/-- what the chain checks of a message besides solvency: a bank send carries a non-zero coin; a
    CW20 transfer is a non-zero amount of an honest token; a pool deposit is a non-zero coin
    deposited by the marketplace itself.  NFT transfers are excluded (royalty lists have none;
    payouts with NFTs are covered by `withdraw_dispatch_ok`). -/
def OutMsg.deliverable (w : World) : OutMsg → Prop
  | .bankSend _ cs => ∃ c ∈ cs, c.amount ≠ 0
  | .cw20Transfer t _ amt => w.isHonest20 t = true ∧ amt ≠ 0
  | .nftTransfer _ _ _ => False
  | .fundPool dep c => dep = w.self ∧ c.amount ≠ 0

theorem OutMsg.deliverable_coreEq {w w' : World} (h : CoreEq w w') {x : OutMsg}
    (hx : x.deliverable w) : x.deliverable w' := by
  cases x with
  | bankSend to cs => exact hx
  | cw20Transfer t to amt => exact ⟨by rw [h.isHonest20]; exact hx.1, hx.2⟩
  | nftTransfer c t to => exact hx
  | fundPool dep c => exact ⟨by rw [h.self]; exact hx.1, hx.2⟩

/-- one deliverable message whose payout is covered is accepted -/
theorem dispatch1_ok_of_budget {w : World} {x : OutMsg} (hx : x.deliverable w)
    (hb : ∀ d, pNat d x ≤ lget w.bank (w.self, d))
    (hc : ∀ t, w.isHonest20 t = true → fCw20 t x ≤ lget w.cw20 (t, w.self)) :
    ∃ w', dispatch1 w x = some w' := by
  cases x with
  | bankSend to cs =>
    have : (bankSend w.bank w.self to cs).isSome = true := bankSend_isSome_iff.2 ⟨hx, hb⟩
    cases hs : bankSend w.bank w.self to cs with
    | none => rw [hs] at this; cases this
    | some b => exact ⟨{ w with bank := b }, by simp only [dispatch1, hs]⟩
  | cw20Transfer t to amt =>
    obtain ⟨hh, hz⟩ := hx
    obtain ⟨ci, hk, hk1⟩ := isHonest20_kind hh
    have hle : amt ≤ lget w.cw20 (t, w.self) := by
      have := hc t hh
      simpa [fCw20] using this
    have : (ledgerMove w.cw20 t w.self to amt).isSome = true := ledgerMove_isSome_iff.2 hle
    cases hs : ledgerMove w.cw20 t w.self to amt with
    | none => rw [hs] at this; cases this
    | some l =>
      exact ⟨{ w with cw20 := l }, by simp only [dispatch1, hk, hk1, if_true, hz, if_false, hs]⟩
  | nftTransfer c t to => exact hx.elim
  | fundPool dep c =>
    obtain ⟨rfl, hz⟩ := hx
    have : (bankSend w.bank w.self w.pool [c]).isSome = true := by
      refine bankSend_isSome_iff.2 ⟨⟨c, List.mem_cons_self, hz⟩, fun d => ?_⟩
      have := hb d
      simpa [pNat, coinAmt_cons, coinAmt_nil] using this
    cases hs : bankSend w.bank w.self w.pool [c] with
    | none => rw [hs] at this; cases this
    | some b =>
      exact ⟨{ w with bank := b }, by simp only [dispatch1, ne_eq, not_true_eq_false, if_false, hs]⟩

/-- **Budget lemma.**  A message list is dispatched in full, in order, if every message is
    `deliverable` and — per native denomination and per honest CW20 token — the total the whole
    list pays out (`paidNative` / `paidCw20`) does not exceed what the marketplace holds.
    (Sequential sufficiency: each accepted message lowers the marketplace's balance by at most
    what it pays — exactly that, unless it is addressed to the marketplace itself.) -/
theorem dispatchAll_ok_of_budget {ms : List OutMsg} : ∀ {w : World} (i : Nat),
    (∀ x ∈ ms, x.deliverable w) →
    (∀ d, paidNative ms d ≤ lget w.bank (w.self, d)) →
    (∀ t, w.isHonest20 t = true → paidCw20 ms t ≤ lget w.cw20 (t, w.self)) →
    ∃ w', dispatchAll noFault w ms i = some w' := by
  induction ms with
  | nil => intro w i _ _ _; exact ⟨w, rfl⟩
  | cons x ms ih =>
    intro w i hdel hb hc
    have hbx : ∀ d, paidNative (x :: ms) d = pNat d x + paidNative ms d := fun d => by
      rw [paidNative_eq, outBy_cons, ← paidNative_eq]
    have hcx : ∀ t, paidCw20 (x :: ms) t = fCw20 t x + paidCw20 ms t := fun t => by
      rw [paidCw20_eq, outBy_cons, ← paidCw20_eq]
    obtain ⟨w1, h1⟩ := dispatch1_ok_of_budget (hdel x List.mem_cons_self)
      (fun d => by have := hb d; rw [hbx] at this; omega)
      (fun t ht => by have := hc t ht; rw [hcx] at this; omega)
    have f1 := (dispatch1_frame h1).1
    obtain ⟨w2, h2⟩ := ih (w := w1) (i + 1)
      (fun y hy => OutMsg.deliverable_coreEq f1 (hdel y (List.mem_cons_of_mem _ hy)))
      (fun d => by
        have e := dispatch1_bank h1 w.self d
        rw [if_pos rfl] at e
        have := hb d
        rw [hbx] at this
        rw [f1.self]
        omega)
      (fun t ht => by
        rw [f1.isHonest20] at ht
        have e := dispatch1_cw20 h1 ht w.self
        rw [if_pos rfl] at e
        have := hc t ht
        rw [hcx] at this
        rw [f1.self]
        omega)
    refine ⟨w2, ?_⟩
    simp only [dispatchAll, noFault, Bool.false_eq_true, if_false, h1]
    exact h2

/-! ## §3 the messages of a purchase -/

/-- every royalty message is a non-zero bank send or a non-zero transfer of a token of the balance
    the royalties are taken from; in particular there is no NFT transfer -/
theorem royalties_deliverable {w : World} {g g' : GBal} {resp : List (Option RoyaltyInfo)}
    {ms : List OutMsg} {s : Nat} (h : royalties g resp = .ok g' ms s)
    (hh : ∀ c ∈ g.cw20, w.isHonest20 c.key = true) : ∀ x ∈ ms, x.deliverable w := by
  obtain ⟨_, _, _, hm, _, _⟩ := royalties_closed h
  subst hm
  intro x hx
  rcases List.mem_append.1 hx with hx | hx
  · obtain ⟨c, _, hx⟩ := List.mem_flatMap.1 hx
    unfold royMsgs at hx
    obtain ⟨p, hp, rfl⟩ := List.mem_map.1 hx
    obtain ⟨r, _, rfl, hz⟩ := royPays_mem hp
    exact ⟨_, List.mem_cons_self, hz⟩
  · obtain ⟨c, hc, hx⟩ := List.mem_flatMap.1 hx
    unfold royMsgs at hx
    obtain ⟨p, hp, rfl⟩ := List.mem_map.1 hx
    obtain ⟨r, _, rfl, hz⟩ := royPays_mem hp
    exact ⟨hh c hc, hz⟩

theorem sideRoyalties_deliverable {w : World} {env : Env} {ra : Nat} {cols : List Nat} {bal g : GBal}
    {ms : List OutMsg} {s : Nat} (h : sideRoyalties env ra cols bal = .ok g ms s)
    (hh : ∀ c ∈ bal.cw20, w.isHonest20 c.key = true) : ∀ x ∈ ms, x.deliverable w := by
  unfold sideRoyalties at h
  split at h
  · cases h; simp
  · split at h
    · cases h
    · exact royalties_deliverable h hh

/-- the fee split does not touch the CW20 part of a balance -/
theorem calcFeeCoin_cw20 {fd : Nat} {g g' : GBal} {fee : Option Coin}
    (h : calcFeeCoin fd g = some (fee, g')) : g'.cw20 = g.cw20 := by
  rcases calcFeeCoin_cases h with ⟨_, _, rfl⟩ | ⟨_, _, _, _, rfl⟩ | ⟨_, _, _, _, rfl⟩ <;> rfl

/-- **The messages of an accepted purchase are deliverable**, provided the records are well-formed
    (the pending fee of the paying bucket is a non-zero coin) and the CW20 entries of the two
    traded records name honest tokens. -/
theorem buy_deliverable {w : World} {m m' : Market} {j u buyer lid bid : Nat} {out : List OutMsg}
    (hW : WFInv j u m)
    (hL : ∀ p ∈ m.listings, ∀ c ∈ p.2.forSale.cw20, w.isHonest20 c.key = true)
    (hB : ∀ p ∈ m.buckets, ∀ c ∈ p.2.funds.cw20, w.isHonest20 c.key = true)
    (h : buy m w.env buyer lid bid = .ok (m', out)) : ∀ x ∈ out, x.deliverable w := by
  obtain ⟨k, l, b, lfee, lbal, bfee, bbal, ra, fb, msgs1, s1, fl, msgs2, s2, hb, hl, _, _, e1, e2, _,
    hr1, hr2, _, rfl⟩ := buy_ok_inv h
  have hbm := alookup_some_mem hb
  have hlm := (findById_some hl).2
  intro x hx
  rcases List.mem_append.1 hx with hx | hx
  · rcases List.mem_append.1 hx with hx | hx
    · obtain ⟨c, hc, rfl⟩ := mem_feeMsg.1 hx
      exact ⟨rfl, (wfBucket_fee (hW.bwf _ hbm) hc).1⟩
    · refine sideRoyalties_deliverable hr1 ?_ x hx
      rw [calcFeeCoin_cw20 e2]
      exact hB _ hbm
  · refine sideRoyalties_deliverable hr2 ?_ x hx
    rw [calcFeeCoin_cw20 e1]
    exact hL _ hlm

/-- **The messages of an accepted purchase are within budget**: per denomination / token their
    total is at most what the records promised before (`buy_acct`: promised-before = promised-after
    + paid). -/
theorem buy_budget {m m' : Market} {env : Env} {j u buyer lid bid : Nat} {out : List OutMsg}
    (hI : IdsInv m) (hW : WFInv j u m) (h : buy m env buyer lid bid = .ok (m', out)) :
    (∀ d, paidNative out d ≤ owedNative m d) ∧ (∀ t, paidCw20 out t ≤ owedCw20 m t) := by
  have a := buy_acct hI hW h
  exact ⟨fun d => by have := a.native d; omega, fun t => by have := a.cw20 t; omega⟩

/-! ## §4 `step` as an equivalence -/

theorem env_with_bank (w : World) (b : Ledger) : ({ w with bank := b } : World).env = w.env := rfl
theorem env_with_cw20 (w : World) (l : Ledger) : ({ w with cw20 := l } : World).env = w.env := rfl
theorem env_with_nft (w : World) (l : Ledger) : ({ w with nft := l } : World).env = w.env := rfl

/-- `runMarket` succeeds iff the handler accepts and every message is dispatched -/
theorem runMarket_ok_iff (w0 w1 : World) (caller : Nat) (funds : List Coin) (msg : ExecMsg) :
    (runMarket noFault w0 w1 caller funds msg).2.ok = true ↔
      ∃ m' out, execute w1.mkt w1.env caller funds msg = .ok (m', out) ∧
        (dispatchAll noFault { w1 with mkt := m' } out 0).isSome = true := by
  unfold runMarket
  cases hx : execute w1.mkt w1.env caller funds msg with
  | error e => simp [Outcome.fail]
  | ok r =>
    obtain ⟨m', out⟩ := r
    cases hd : dispatchAll noFault { w1 with mkt := m' } out 0 with
    | none => simp [Outcome.fail, hd]
    | some w2 =>
      dsimp only
      exact ⟨fun _ => ⟨m', out, rfl, by rw [hd]; rfl⟩, fun _ => by rw [hd]⟩

/-- a direct message: the bank moves the attached coins (if any), the handler accepts on the
    pre-state records, and every emitted message is dispatched -/
theorem step_exec_ok_iff (w : World) (x : Nat) (funds : List Coin) (msg : ExecMsg) :
    (step w (.exec x funds msg)).2.ok = true ↔
      ∃ b, (if funds.isEmpty then some w.bank else bankSend w.bank x w.self funds) = some b ∧
        ∃ m' out, execute w.mkt w.env x funds msg = .ok (m', out) ∧
          (dispatchAll noFault { w with bank := b, mkt := m' } out 0).isSome = true := by
  unfold step
  simp only [stepF]
  by_cases he : funds.isEmpty = true
  · rw [if_pos he, if_pos he, runMarket_ok_iff]
    constructor
    · rintro ⟨m', out, hx, hd⟩; exact ⟨w.bank, rfl, m', out, hx, hd⟩
    · rintro ⟨b, hb, m', out, hx, hd⟩
      cases hb
      exact ⟨m', out, hx, hd⟩
  · rw [if_neg he, if_neg he]
    cases hs : bankSend w.bank x w.self funds with
    | none =>
      simp only [Outcome.fail, Bool.false_eq_true, false_iff]
      rintro ⟨b, hb, _⟩; cases hb
    | some b =>
      dsimp only
      rw [runMarket_ok_iff]
      constructor
      · rintro ⟨m', out, hx, hd⟩; exact ⟨b, rfl, m', out, hx, hd⟩
      · rintro ⟨b', hb, m', out, hx, hd⟩
        cases hb
        exact ⟨m', out, hx, hd⟩

/-- a message that emits nothing when accepted (all deposits, finalize, change-ask, fee cycle):
    the transaction succeeds iff the handler accepts and the attached coins can be paid -/
theorem step_exec_nomsg_iff {w : World} {x : Nat} {funds : List Coin} {msg : ExecMsg}
    (hout : ∀ m' out, execute w.mkt w.env x funds msg = .ok (m', out) → out = []) :
    (step w (.exec x funds msg)).2.ok = true ↔
      (∃ r, execute w.mkt w.env x funds msg = .ok r) ∧
      (funds = [] ∨ (bankSend w.bank x w.self funds).isSome = true) := by
  rw [step_exec_ok_iff]
  constructor
  · rintro ⟨b, hb, m', out, hx, _⟩
    refine ⟨⟨_, hx⟩, ?_⟩
    by_cases he : funds.isEmpty = true
    · exact .inl (List.isEmpty_iff.1 he)
    · rw [if_neg he] at hb
      exact .inr (by rw [hb]; rfl)
  · rintro ⟨⟨⟨m', out⟩, hx⟩, hp⟩
    have ho := hout m' out hx
    subst ho
    by_cases he : funds.isEmpty = true
    · exact ⟨w.bank, by rw [if_pos he], m', [], hx, rfl⟩
    · rcases hp with hp | hp
      · subst hp; simp at he
      · cases hs : bankSend w.bank x w.self funds with
        | none => rw [hs] at hp; cases hp
        | some b => exact ⟨b, by rw [if_neg he], m', [], hx, rfl⟩

/-- a CW20 `Send`: the token is honest, the amount non-zero and held by the sender, the hook call
    is accepted on the pre-state records, and every emitted message is dispatched -/
theorem step_send20_ok_iff (w : World) (t x amount : Nat) (inner : Option Inner) :
    (step w (.send20 t x amount inner)).2.ok = true ↔
      w.isHonest20 t = true ∧ amount ≠ 0 ∧
      ∃ l, ledgerMove w.cw20 t x w.self amount = some l ∧
        ∃ m' out, execute w.mkt w.env t [] (.receive (.valid x) amount inner) = .ok (m', out) ∧
          (dispatchAll noFault { w with cw20 := l, mkt := m' } out 0).isSome = true := by
  unfold step
  simp only [stepF]
  by_cases hh : w.isHonest20 t = true
  · rw [if_neg (by simp [hh])]
    by_cases hz : amount = 0
    · rw [if_pos hz]
      simp [Outcome.fail, hz]
    · rw [if_neg hz]
      cases hs : ledgerMove w.cw20 t x w.self amount with
      | none => simp [Outcome.fail]
      | some l =>
        dsimp only
        rw [runMarket_ok_iff]
        constructor
        · rintro ⟨m', out, hx, hd⟩; exact ⟨hh, hz, l, rfl, m', out, hx, hd⟩
        · rintro ⟨_, _, l', hl, m', out, hx, hd⟩
          cases hl
          exact ⟨m', out, hx, hd⟩
  · rw [if_pos (by simpa using hh)]
    simp [Outcome.fail, hh]

/-- a CW721 `SendNft`: the collection is honest, the sender owns the NFT, the hook call is
    accepted on the pre-state records, and every emitted message is dispatched -/
theorem step_send721_ok_iff (w : World) (c x tid : Nat) (inner : Option Inner) :
    (step w (.send721 c x tid inner)).2.ok = true ↔
      w.isHonest721 c = true ∧ alookup (c, tid) w.nft = some x ∧
      ∃ m' out, execute w.mkt w.env c [] (.receiveNft (.valid x) tid inner) = .ok (m', out) ∧
        (dispatchAll noFault { w with nft := lset w.nft (c, tid) w.self, mkt := m' } out 0).isSome = true := by
  unfold step
  simp only [stepF]
  by_cases hh : w.isHonest721 c = true
  · rw [if_neg (by simp [hh])]
    by_cases ho : alookup (c, tid) w.nft = some x
    · rw [if_neg (by simp [ho])]
      rw [runMarket_ok_iff]
      constructor
      · rintro ⟨m', out, hx, hd⟩; exact ⟨hh, ho, m', out, hx, hd⟩
      · rintro ⟨_, _, m', out, hx, hd⟩
        exact ⟨m', out, hx, hd⟩
    · rw [if_pos (by simpa using ho)]
      simp [Outcome.fail, ho]
  · rw [if_pos (by simpa using hh)]
    simp [Outcome.fail, hh]

/-! ### the three deposit paths -/

theorem depositFunds_out_nil {m m' : Market} {F : Funds} {x : Nat} {i : Inner} {out : List OutMsg}
    (h : depositFunds m F x i = .ok (m', out)) : out = [] := (depositFunds_spec h).1

theorem depositNft_out_nil {m m' : Market} {n : Nft} {x : Nat} {i : Inner} {out : List OutMsg}
    (h : depositNft m n x i = .ok (m', out)) : out = [] := (depositNft_spec h).1

/-- **A direct deposit** (`CreateListing` / `AddToListing` / `CreateBucket` / `AddToBucket` with
    native coins attached) succeeds iff the handler accepts the deposit and the depositor holds
    every attached coin. -/
theorem step_deposit_native_iff (w : World) (x : Nat) (funds : List Coin) (i : Inner) :
    (step w (.exec x funds i.toExec)).2.ok = true ↔
      (∃ r, depositFunds w.mkt (.native funds) x i = .ok r) ∧
      ∀ c ∈ funds, c.amount ≤ lget w.bank (x, c.key) := by
  rw [step_exec_nomsg_iff (by
    intro m' out h
    rw [execute_toExec] at h
    exact depositFunds_out_nil h), execute_toExec]
  constructor
  · rintro ⟨⟨⟨m', out⟩, hx⟩, hp⟩
    have hn := (depositFunds_spec hx).2.1
    refine ⟨⟨_, hx⟩, ?_⟩
    rcases hp with rfl | hp
    · simp [normalizedCheck] at hn
    · exact (canPay_iff hn).1 hp
  · rintro ⟨⟨⟨m', out⟩, hx⟩, hp⟩
    have hn := (depositFunds_spec hx).2.1
    exact ⟨⟨_, hx⟩, .inr ((canPay_iff hn).2 hp)⟩

/-- what the CW20 hook does with a well-formed `Send` -/
theorem execute_receive_eq (m : Market) (env : Env) (t x amount : Nat) (i : Inner)
    (ht : env.isToken20 t = true) :
    execute m env t [] (.receive (.valid x) amount (some i)) = depositFunds m (.cw20 ⟨t, amount⟩) x i := by
  cases i <;> simp [execute, ExecMsg.takesCoins, receive, ht, rawValid, depositFunds]

theorem execute_receive_none (m : Market) (env : Env) (t x amount : Nat) :
    ∀ r, execute m env t [] (.receive (.valid x) amount none) ≠ .ok r := by
  intro r h
  obtain ⟨i, hi, _⟩ := execute_receive_ok h
  cases hi

theorem execute_receive_noToken {m : Market} {env : Env} {t x amount : Nat} {inner : Option Inner}
    (ht : env.isToken20 t = false) : ∀ r, execute m env t [] (.receive (.valid x) amount inner) ≠ .ok r := by
  intro r h
  have h' : receive m env t [] (.valid x) amount inner = .ok r := by
    simpa [execute, ExecMsg.takesCoins] using h
  unfold receive at h'
  obtain ⟨_, h'⟩ := ite_err_ok h'
  obtain ⟨h2, _⟩ := ite_err_ok h'
  rw [ht] at h2
  exact h2 rfl

/-- **A CW20 deposit** (`Send` to the marketplace with a deposit payload) succeeds iff the token is
    an honest CW20 contract that answers `TokenInfo`, the amount is non-zero and held by the
    sender, and the handler accepts the deposit. -/
theorem step_deposit_cw20_iff (w : World) (t x amount : Nat) (i : Inner) :
    (step w (.send20 t x amount (some i))).2.ok = true ↔
      w.isHonest20 t = true ∧ w.env.isToken20 t = true ∧ amount ≠ 0 ∧ amount ≤ lget w.cw20 (t, x) ∧
      ∃ r, depositFunds w.mkt (.cw20 ⟨t, amount⟩) x i = .ok r := by
  rw [step_send20_ok_iff]
  constructor
  · rintro ⟨hh, hz, l, hl, m', out, hx, _⟩
    cases ht : w.env.isToken20 t with
    | false => exact absurd hx (execute_receive_noToken ht _)
    | true =>
      rw [execute_receive_eq _ _ _ _ _ _ ht] at hx
      exact ⟨hh, rfl, hz, ledgerMove_isSome_iff.1 (by rw [hl]; rfl), _, hx⟩
  · rintro ⟨hh, ht, hz, hle, ⟨m', out⟩, hx⟩
    have := (ledgerMove_isSome_iff (l := w.cw20) (g := t) (dst := w.self)).2 hle
    cases hs : ledgerMove w.cw20 t x w.self amount with
    | none => rw [hs] at this; cases this
    | some l =>
      have ho := depositFunds_out_nil hx
      subst ho
      exact ⟨hh, hz, l, rfl, m', [], by rw [execute_receive_eq _ _ _ _ _ _ ht]; exact hx, rfl⟩

/-- a `Send` whose payload does not parse is refused -/
theorem step_send20_none (w : World) (t x amount : Nat) :
    (step w (.send20 t x amount none)).2.ok = false := by
  cases h : (step w (.send20 t x amount none)).2.ok with
  | false => rfl
  | true =>
    obtain ⟨_, _, _, _, m', out, hx, _⟩ := (step_send20_ok_iff w t x amount none).1 h
    exact absurd hx (execute_receive_none _ _ _ _ _ _)

/-- what the CW721 hook does with a well-formed `SendNft` -/
theorem execute_receiveNft_eq (m : Market) (env : Env) (c x tid : Nat) (i : Inner)
    (hc : env.isContract c = true) :
    execute m env c [] (.receiveNft (.valid x) tid (some i)) = depositNft m ⟨c, tid⟩ x i := by
  cases i <;> simp [execute, ExecMsg.takesCoins, receiveNft, hc, rawValid, depositNft]

theorem isContract_of_honest721 {w : World} {c : Nat} (h : w.isHonest721 c = true) :
    w.env.isContract c = true := by
  obtain ⟨ci, hk, _⟩ := isHonest721_kind h
  simp [World.env, hk]

/-- **An NFT deposit** (`SendNft` to the marketplace with a deposit payload) succeeds iff the
    collection is an honest CW721 contract, the sender owns the NFT, and the handler accepts the
    deposit. -/
theorem step_deposit_nft_iff (w : World) (c x tid : Nat) (i : Inner) :
    (step w (.send721 c x tid (some i))).2.ok = true ↔
      w.isHonest721 c = true ∧ alookup (c, tid) w.nft = some x ∧
      ∃ r, depositNft w.mkt ⟨c, tid⟩ x i = .ok r := by
  rw [step_send721_ok_iff]
  constructor
  · rintro ⟨hh, ho, m', out, hx, _⟩
    rw [execute_receiveNft_eq _ _ _ _ _ _ (isContract_of_honest721 hh)] at hx
    exact ⟨hh, ho, _, hx⟩
  · rintro ⟨hh, ho, ⟨m', out⟩, hx⟩
    have hnil := depositNft_out_nil hx
    subst hnil
    exact ⟨hh, ho, m', [], by rw [execute_receiveNft_eq _ _ _ _ _ _ (isContract_of_honest721 hh)]; exact hx, rfl⟩

/-! ## §5 the registry address is never rewritten -/

/-- no handler writes the stored registry address -/
theorem execute_registry {m m' : Market} {env : Env} {s : Nat} {f : List Coin} {msg : ExecMsg}
    {out : List OutMsg} (h : execute m env s f msg = .ok (m', out)) : m'.registry = m.registry := by
  by_cases hm : msg = .feeCycle
  · subst hm
    obtain ⟨_, h⟩ := execute_feeCycle_ok h
    unfold cycleFee at h
    dsimp only at h
    obtain ⟨_, h⟩ := ite_err_ok h
    simp only [Except.ok.injEq, Prod.mk.injEq] at h
    obtain ⟨rfl, _⟩ := h
    rfl
  · exact (execute_feeCfg hm h).2.2

theorem stepF_registry (fail : Nat → Bool) (w : World) (op : Op) :
    (stepF fail w op).1.mkt.registry = w.mkt.registry := by
  rcases stepF_mkt_cases fail w op with h | ⟨c, f, msg, m', msgs, _, hx, hm, _⟩
  · rw [h]
  · rw [hm]; exact execute_registry hx

theorem stepF_regAddr (fail : Nat → Bool) (w : World) (op : Op) :
    (stepF fail w op).1.regAddr = w.regAddr := by
  cases ho : op.asExec with
  | some t =>
    obtain ⟨c, f, msg⟩ := t
    rcases stepF_market (fail := fail) (w := w) ho with ⟨e, h⟩ | ⟨m', msgs, w2, _, _, hc, h⟩
    · rw [h]
    · rw [h]; exact hc.regAddr
  | none =>
    cases op with
    | exec s fu m => simp [Op.asExec] at ho
    | send20 t s a i => simp [Op.asExec] at ho
    | send721 co s t i => simp [Op.asExec] at ho
    | royalty s m =>
      rcases stepF_royalty fail w s m with ⟨e, _, h⟩ | ⟨r, _, h⟩ <;> rw [h]
    | setAdmin s c n =>
      simp only [stepF]
      repeat' split
      all_goals rfl
    | advance a b => rfl

/-- along any history the stored registry address and the chain's registry address stay put -/
theorem run_registry (ops : List Op) : ∀ (w : World),
    (run w ops).mkt.registry = w.mkt.registry ∧ (run w ops).regAddr = w.regAddr := by
  induction ops with
  | nil => intro w; exact ⟨rfl, rfl⟩
  | cons op ops ih =>
    intro w
    obtain ⟨h1, h2⟩ := ih (step w op).1
    exact ⟨h1.trans (stepF_registry noFault w op), h2.trans (stepF_regAddr noFault w op)⟩

/-! ## §6 small facts used by the C08 / C12 world-level files -/

theorem execute_nil_finalize (m : Market) (env : Env) (s id secs : Nat) :
    execute m env s [] (.finalize id secs) = finalize m env s id secs := by
  simp [execute, ExecMsg.takesCoins]

/-- what the invariants say about a stored preparing listing: it is filed under
    `(creator, id)`, was never finalized and has no claimant -/
theorem preparing_parts {m : Market} {j u : Nat} (hI : IdsInv m) (hW : WFInv j u m) {k : Nat × Nat}
    {l : Listing} (hm : (k, l) ∈ m.listings) (hs : l.status = .preparing) :
    alookup (l.creator, l.id) m.listings = some l ∧ k = (l.creator, l.id) ∧ l.finalizedAt = none ∧
    l.claimant = none := by
  have hk : k = (l.creator, l.id) := hI.lfiled _ hm
  have hwf : wfListing j u k l = true := hW.lwf _ hm
  have hc := ((wfListing_parts hwf).2.2.1 hs).2.1
  have hf : l.finalizedAt = none := by
    unfold wfListing at hwf
    rw [hs] at hwf
    simp only [Bool.and_eq_true, Option.isNone_iff_eq_none] at hwf
    exact hwf.2.1.1.1
  refine ⟨?_, hk, hf, hc⟩
  have := mem_nodup_alookup hI.lkeys hm
  rwa [hk] at this

/-- what the invariants say about a preparing listing found under `(x, id)`: `x` created it, it
    is unclaimed and its goods are a well-formed balance -/
theorem preparing_lookup_parts {m : Market} {j u : Nat} (hI : IdsInv m) (hW : WFInv j u m)
    {x id : Nat} {l : Listing} (hl : alookup (x, id) m.listings = some l) (hs : l.status = .preparing) :
    x = l.creator ∧ l.claimant = none ∧ wfBal l.forSale = true := by
  have hm := alookup_some_mem hl
  have hk : (x, id) = (l.creator, l.id) := hI.lfiled _ hm
  have hwf : wfListing j u (x, id) l = true := hW.lwf _ hm
  injection hk with h1 _
  exact ⟨h1, ((wfListing_parts hwf).2.2.1 hs).2.1, (wfListing_parts hwf).2.1⟩

/-- what the invariants say about a bucket found under `(x, id)`: `x` owns it and its contents are
    a well-formed balance -/
theorem bucket_lookup_parts {m : Market} {j u : Nat} (hI : IdsInv m) (hW : WFInv j u m)
    {x id : Nat} {b : Bucket} (hb : alookup (x, id) m.buckets = some b) :
    x = b.owner ∧ wfBal b.funds = true := by
  have hm := alookup_some_mem hb
  have hk : x = b.owner := hI.bfiled _ hm
  have hwf : wfBucket j u (x, id) b = true := hW.bwf _ hm
  exact ⟨hk, (wfBucket_parts hwf).2⟩

/-- handler-level acceptance of a fungible top-up of an owned well-formed bucket, with the 128-bit
    overflow abort made explicit (no `Funds.fits` hypothesis): accepted iff the deposit passes
    `normalized_check`, `add_tokens` does not abort, and the result has at most 25 assets -/
theorem addToBucket_ok_iff {m : Market} {funds : Funds} {s id : Nat} {b : Bucket}
    (hb : alookup (s, id) m.buckets = some b) (ho : s = b.owner) (wf : wfBal b.funds = true) :
    (∃ r, addToBucket m funds s id = .ok r) ↔
      normalizedCheck funds = true ∧
      ∃ nf, addTokens b.funds funds = some nf ∧ nf.count ≤ MAX_ASSETS := by
  cases hadd : addTokens b.funds funds with
  | some nf =>
    rw [C12_topup_bucket_iff hb ho wf hadd]
    constructor
    · rintro ⟨h1, h2⟩; exact ⟨h1, nf, rfl, h2⟩
    · rintro ⟨h1, nf', e, h2⟩; cases e; exact ⟨h1, h2⟩
  | none =>
    constructor
    · rintro ⟨r, h⟩
      unfold addToBucket at h
      obtain ⟨_, h⟩ := ite_err_ok h
      rw [hb] at h
      dsimp only at h
      obtain ⟨_, h⟩ := ite_err_ok h
      rw [hadd] at h
      cases h
    · rintro ⟨_, nf, h, _⟩; cases h

/-- the same for an owned listing in preparation -/
theorem addToListing_ok_iff {m : Market} {funds : Funds} {s id : Nat} {l : Listing}
    (hl : alookup (s, id) m.listings = some l) (ho : s = l.creator) (hst : l.status = .preparing)
    (hcl : l.claimant = none) (wf : wfBal l.forSale = true) :
    (∃ r, addToListing m funds s id = .ok r) ↔
      normalizedCheck funds = true ∧
      ∃ nf, addTokens l.forSale funds = some nf ∧ nf.count ≤ MAX_ASSETS := by
  cases hadd : addTokens l.forSale funds with
  | some nf =>
    rw [C12_topup_listing_iff hl ho hst hcl wf hadd]
    constructor
    · rintro ⟨h1, h2⟩; exact ⟨h1, nf, rfl, h2⟩
    · rintro ⟨h1, nf', e, h2⟩; cases e; exact ⟨h1, h2⟩
  | none =>
    constructor
    · rintro ⟨r, h⟩
      unfold addToListing at h
      obtain ⟨_, h⟩ := ite_err_ok h
      rw [hl] at h
      dsimp only at h
      obtain ⟨_, h⟩ := ite_err_ok h
      obtain ⟨_, h⟩ := ite_err_ok h
      obtain ⟨_, h⟩ := ite_err_ok h
      rw [hadd] at h
      cases h
    · rintro ⟨_, nf, h, _⟩; cases h

end Fuzion
