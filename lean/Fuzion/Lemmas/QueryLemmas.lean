/-
  Fuzion.Lemmas.QueryLemmas — auxiliary facts for property C16 (queries): paging, the
  per-owner record lists, the listing filter.  Core library only.
-/
import Fuzion.Model.Query
import Fuzion.Inv.Defs
namespace Fuzion

/-! ### paging -/

section paging
variable {α : Type}

theorem pageOf_succ (l : List α) (k : Nat) : pageOf l (k + 1) = (l.drop (20 * k)).take 20 := by
  unfold pageOf
  congr 2
  omega

theorem pages_flatMap (l : List α) (k : Nat) :
    ((List.range k).flatMap fun i => pageOf l (i + 1)) = l.take (20 * k) := by
  induction k with
  | zero => simp
  | succ k ih =>
    rw [List.range_succ, List.flatMap_append, ih, List.flatMap_singleton, pageOf_succ,
      Nat.mul_succ, List.take_add]

theorem pageOf_beyond (l : List α) (p : Nat) (h : (p - 1) * 20 ≥ l.length) : pageOf l p = [] := by
  unfold pageOf
  rw [List.drop_eq_nil_of_le h]
  rfl

theorem mem_of_mem_pageOf {l : List α} {p : Nat} {x : α} (h : x ∈ pageOf l p) : x ∈ l :=
  List.mem_of_mem_drop (List.mem_of_mem_take h)

theorem length_pageOf_le (l : List α) (p : Nat) : (pageOf l p).length ≤ 20 := by
  unfold pageOf
  simp [List.length_take]
  omega

/-- every element sits on some page, and that page starts inside the list -/
theorem mem_pageOf_of_mem {l : List α} {x : α} (h : x ∈ l) :
    ∃ p, 1 ≤ p ∧ (p - 1) * 20 < l.length ∧ x ∈ pageOf l p := by
  obtain ⟨i, hi, rfl⟩ := List.mem_iff_getElem.1 h
  refine ⟨i / 20 + 1, by omega, by simp; omega, ?_⟩
  rw [List.mem_iff_getElem?]
  refine ⟨i % 20, ?_⟩
  unfold pageOf
  rw [List.getElem?_take]
  have h1 : i % 20 < 20 := by omega
  simp only [h1, if_true]
  rw [List.getElem?_drop]
  have h2 : (i / 20 + 1 - 1) * 20 + i % 20 = i := by omega
  rw [h2]
  exact List.getElem?_eq_getElem hi

end paging

/-! ### per-owner record lists (generic in the record type) -/

section owner
variable {ν : Type}

/-- the shape shared by `ownerBuckets` and `ownerListings` -/
def ownerRecs (l : List ((Nat × Nat) × ν)) (o : Nat) : List (Nat × ν) :=
  ((l.filter (fun p => decide (p.1.1 = o))).map (fun p => (p.1.2, p.2))).mergeSort
    (fun a b => decide (a.1 ≤ b.1))

theorem ownerRecs_perm (l : List ((Nat × Nat) × ν)) (o : Nat) :
    (ownerRecs l o).Perm ((l.filter (fun p => decide (p.1.1 = o))).map (fun p => (p.1.2, p.2))) :=
  List.mergeSort_perm _ _

theorem ownerRecs_sorted (l : List ((Nat × Nat) × ν)) (o : Nat) :
    (ownerRecs l o).Pairwise (fun a b => a.1 ≤ b.1) := by
  have h := List.pairwise_mergeSort (le := fun (a b : Nat × ν) => decide (a.1 ≤ b.1))
    (by intro a b c h1 h2; simp only [decide_eq_true_eq] at *; omega)
    (by intro a b; simp only [Bool.or_eq_true, decide_eq_true_eq]; omega)
    ((l.filter (fun p => decide (p.1.1 = o))).map (fun p => (p.1.2, p.2)))
  exact h.imp (by intro a b hab; simpa using hab)

theorem ownerRecs_mem (l : List ((Nat × Nat) × ν)) (o : Nat) (x : Nat × ν) :
    x ∈ ownerRecs l o ↔ ((o, x.1), x.2) ∈ l := by
  unfold ownerRecs
  rw [List.mem_mergeSort, List.mem_map]
  constructor
  · rintro ⟨⟨⟨o', i⟩, v⟩, hm, rfl⟩
    rw [List.mem_filter] at hm
    obtain ⟨hm, ho⟩ := hm
    simp only [decide_eq_true_eq] at ho
    subst ho
    exact hm
  · intro h
    exact ⟨((o, x.1), x.2), List.mem_filter.2 ⟨h, by simp⟩, rfl⟩

/-- distinct storage keys ⇒ the ids of one owner's records are distinct -/
theorem ownerRecs_ids_nodup (l : List ((Nat × Nat) × ν)) (o : Nat) (h : (akeys l).Nodup) :
    ((ownerRecs l o).map (·.1)).Nodup := by
  have hp : ((ownerRecs l o).map (·.1)).Perm
      (((l.filter (fun p => decide (p.1.1 = o))).map (fun p => (p.1.2, p.2))).map (·.1)) :=
    (ownerRecs_perm l o).map _
  rw [hp.nodup_iff]
  unfold akeys at h
  rw [List.nodup_iff_pairwise_ne, List.pairwise_map] at h
  rw [List.nodup_iff_pairwise_ne, List.pairwise_map, List.pairwise_map, List.pairwise_filter]
  refine h.imp ?_
  intro a b hab ha hb heq
  simp only [decide_eq_true_eq] at ha hb
  apply hab
  apply Prod.ext
  · rw [ha, hb]
  · exact heq

theorem nodup_of_map_nodup {α β : Type} (f : α → β) {l : List α} (h : (l.map f).Nodup) : l.Nodup := by
  rw [List.nodup_iff_pairwise_ne, List.pairwise_map] at h
  rw [List.nodup_iff_pairwise_ne]
  exact h.imp (by intro a b hab heq; exact hab (by rw [heq]))

theorem ownerRecs_nodup (l : List ((Nat × Nat) × ν)) (o : Nat) (h : (akeys l).Nodup) :
    (ownerRecs l o).Nodup :=
  nodup_of_map_nodup _ (ownerRecs_ids_nodup l o h)

/-- with distinct keys the order by id is strict -/
theorem ownerRecs_strict (l : List ((Nat × Nat) × ν)) (o : Nat) (h : (akeys l).Nodup) :
    (ownerRecs l o).Pairwise (fun a b => a.1 < b.1) := by
  have h1 := ownerRecs_sorted l o
  have h2 := ownerRecs_ids_nodup l o h
  rw [List.nodup_iff_pairwise_ne, List.pairwise_map] at h2
  have h3 := h1.and h2
  exact h3.imp (by intro a b hab; omega)

end owner

theorem ownerBuckets_eq (m : Market) (o : Nat) : ownerBuckets m o = ownerRecs m.buckets o := rfl
theorem ownerListings_eq (m : Market) (o : Nat) : ownerListings m o = ownerRecs m.listings o := rfl

/-! ### the listing filter -/

/-- a well-formed listing that passes the query filter is purchasable -/
theorem wf_listable_purchasable {j u : Nat} {k : Nat × Nat} {l : Listing} {nowNs : Nat}
    (hwf : wfListing j u k l = true) (hl : listable nowNs l = true) : purchasable nowNs l = true := by
  unfold wfListing at hwf
  unfold listable at hl
  unfold purchasable
  cases hs : l.status <;> cases he : l.expiresAt <;> simp_all

/-- a purchasable listing passes the query filter (no well-formedness needed) -/
theorem purchasable_listable {l : Listing} {nowNs : Nat}
    (hp : purchasable nowNs l = true) : listable nowNs l = true := by
  unfold purchasable at hp
  unfold listable
  cases hs : l.status <;> cases he : l.expiresAt <;> simp_all

theorem wfListing_finalized {j u : Nat} {k : Nat × Nat} {l : Listing}
    (hwf : wfListing j u k l = true) (hs : l.status = .finalized) :
    wfTimes l.finalizedAt l.expiresAt = true ∧ l.claimant = none ∧ l.fee = none := by
  unfold wfListing at hwf
  rw [hs] at hwf
  simp only [Bool.and_eq_true, Option.isNone_iff_eq_none] at hwf
  exact ⟨hwf.2.1.1, hwf.2.1.2, hwf.2.2⟩

theorem purchasable_iff {l : Listing} {nowNs : Nat} :
    purchasable nowNs l = true ↔
      l.status = .finalized ∧ l.claimant = none ∧ ∃ e, l.expiresAt = some e ∧ nowNs ≤ e := by
  unfold purchasable
  cases he : l.expiresAt <;> simp [Option.isNone_iff_eq_none, and_assoc]

theorem listable_iff {l : Listing} {nowNs : Nat} :
    listable nowNs l = true ↔ l.status ≠ .closed ∧ ∃ e, l.expiresAt = some e ∧ nowNs ≤ e := by
  unfold listable
  cases he : l.expiresAt <;> simp [and_comm]

/-- a well-formed purchasable listing was finalized at most two weeks (in whole seconds) ago -/
theorem wf_purchasable_window {j u : Nat} {k : Nat × Nat} {l : Listing} {nowNs : Nat}
    (hwf : wfListing j u k l = true) (hp : purchasable nowNs l = true) :
    finSecs l ≥ nowNs / NS - TWO_WEEKS := by
  obtain ⟨hs, _, e, he, hne⟩ := purchasable_iff.1 hp
  have ht := (wfListing_finalized hwf hs).1
  unfold finSecs
  rw [he] at ht
  cases hf : l.finalizedAt with
  | none => rw [hf] at ht; simp [wfTimes] at ht
  | some f =>
    rw [hf] at ht
    simp only [wfTimes, Bool.and_eq_true, decide_eq_true_eq] at ht
    obtain ⟨⟨⟨h1, h2⟩, _⟩, h4⟩ := ht
    simp only [NS, TWO_WEEKS] at *
    omega

/-! ### membership in the market window / whitelist list -/

theorem mem_marketWindow {m : Market} {nowNs : Nat} {l : Listing} :
    l ∈ marketWindow m nowNs ↔
      ∃ k, (k, l) ∈ m.listings ∧ finSecs l ≥ nowNs / NS - TWO_WEEKS := by
  unfold marketWindow
  rw [List.mem_map]
  constructor
  · rintro ⟨⟨k, l'⟩, hm, rfl⟩
    rw [List.mem_mergeSort, List.mem_filter] at hm
    exact ⟨k, hm.1, by simpa using hm.2⟩
  · rintro ⟨k, hm, hw⟩
    exact ⟨(k, l), by rw [List.mem_mergeSort, List.mem_filter]; exact ⟨hm, by simpa using hw⟩, rfl⟩

/-- the `Listing` values of one owner are pairwise distinct when storage keys are distinct and
    every key is `(creator, id)` of its record (a consequence of `wfListing`) -/
theorem ownerListings_vals_nodup (m : Market) (o : Nat) (hk : (akeys m.listings).Nodup)
    (hkey : ∀ p ∈ m.listings, p.1 = (p.2.creator, p.2.id)) :
    ((ownerListings m o).map (·.2)).Nodup := by
  have h := ownerRecs_ids_nodup m.listings o hk
  rw [ownerListings_eq]
  rw [List.nodup_iff_pairwise_ne, List.pairwise_map] at h ⊢
  refine h.imp_of_mem ?_
  intro a b ha hb hab heq
  have ha' := hkey _ ((ownerRecs_mem _ _ _).1 ha)
  have hb' := hkey _ ((ownerRecs_mem _ _ _).1 hb)
  simp only [Prod.mk.injEq] at ha' hb'
  apply hab
  rw [ha'.2, hb'.2, heq]

theorem wfListing_key {j u : Nat} {k : Nat × Nat} {l : Listing}
    (hwf : wfListing j u k l = true) : k = (l.creator, l.id) := by
  unfold wfListing at hwf
  simp only [Bool.and_eq_true, decide_eq_true_eq] at hwf
  exact hwf.1.1.1

/-- evaluation of `mergeSort` on a two-element list -/
theorem mergeSort_pair {α : Type} (le : α → α → Bool) (a b : α) :
    [a, b].mergeSort le = if le a b then [a, b] else [b, a] := by
  rw [List.mergeSort]
  simp [List.MergeSort.Internal.splitInTwo, List.merge]

/-! ### concrete data for the non-vacuity examples of `Fuzion.Props.C16` -/
namespace C16Ex

def bal (k a : Nat) : GBal := ⟨[⟨k, a⟩], [], []⟩

/-- finalized at second 2 000 000, ten-minute lifetime, reserved for buyer 2 -/
def l1 : Listing :=
  { creator := 1, id := 7, finalizedAt := some (2000000 * NS), expiresAt := some (2000600 * NS),
    status := .finalized, claimant := none, whitelist := some 2,
    forSale := bal 10 5, ask := bal 10 6, fee := none }

/-- same creator, sold -/
def l2 : Listing :=
  { creator := 1, id := 3, finalizedAt := some (2000000 * NS), expiresAt := some (2000600 * NS),
    status := .closed, claimant := some 1, whitelist := none,
    forSale := bal 10 6, ask := bal 10 6, fee := some ⟨10, 1⟩ }

/-- another creator, still being prepared -/
def l3 : Listing :=
  { creator := 4, id := 9, finalizedAt := none, expiresAt := none,
    status := .preparing, claimant := none, whitelist := none,
    forSale := bal 11 5, ask := bal 10 6, fee := none }

def b1 : Bucket := ⟨1, bal 10 6, none⟩
def b2 : Bucket := ⟨2, bal 10 6, none⟩

def mkt : Market :=
  { listings := [((1, 7), l1), ((1, 3), l2), ((4, 9), l3)],
    buckets := [((1, 5), b1), ((1, 2), b1), ((2, 4), b2)],
    listingUsed := [0, 3, 7, 9], bucketUsed := [0, 2, 4, 5],
    feeKind := .juno, feeSince := 1990000, registry := none }

/-- block time: second 2 000 100 -/
def now : Nat := 2000100 * NS

def env : Env :=
  { self := 100, nowNs := now, junoD := 10, usdcD := 11, regAddr := 101,
    isToken20 := fun _ => false, isContract := fun _ => false, regLookup := fun _ => none }

/-! evaluation of the queries on the example (kernel `decide` cannot unfold the well-founded
    `List.mergeSort`, so the two-element sorts are evaluated by `mergeSort_pair`) -/

theorem ownerBuckets_mkt : ownerBuckets mkt 1 = [(2, b1), (5, b1)] := by
  unfold ownerBuckets
  have h : (mkt.buckets.filter (fun p => decide (p.1.1 = 1))).map (fun p => (p.1.2, p.2)) =
      [(5, b1), (2, b1)] := by decide
  rw [h, mergeSort_pair]
  decide

theorem ownerListings_mkt : ownerListings mkt 1 = [(3, l2), (7, l1)] := by
  unfold ownerListings
  have h : (mkt.listings.filter (fun p => decide (p.1.1 = 1))).map (fun p => (p.1.2, p.2)) =
      [(7, l1), (3, l2)] := by decide
  rw [h, mergeSort_pair]
  decide

theorem marketWindow_mkt : marketWindow mkt now = [l2, l1] := by
  unfold marketWindow
  have h : mkt.listings.filter (fun p => decide (finSecs p.2 ≥ now / NS - TWO_WEEKS)) =
      [((1, 7), l1), ((1, 3), l2)] := by decide
  rw [h, mergeSort_pair]
  decide

theorem qMarket_mkt : qMarket mkt now 1 = some [l1] := by
  unfold qMarket
  rw [marketWindow_mkt]
  decide

theorem qWhitelisted_mkt : qWhitelisted mkt now (.valid 2) = some [l1] := by
  unfold qWhitelisted
  have h : (mkt.listings.filter (fun p => decide (p.2.whitelist = some 2))).map (·.2) = [l1] := by
    decide
  simp only [rawValid]
  rw [h, List.mergeSort_singleton]
  decide

end C16Ex

end Fuzion
