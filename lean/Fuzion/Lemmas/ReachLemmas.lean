/-
  Fuzion.Lemmas.ReachLemmas — helpers shared by the `CxxReach` property files (C03, C08, C10, C12),
  which restate already proved property theorems for every state reached from a freshly
  instantiated marketplace: `w0.mkt = instantiate t r`, state `run w0 ops`.  The two storage
  invariants come from `C09_reach` / `C12_reach` through `closed_ids`, `closed_wf0`, `closed_wf`
  (Lemmas/ClosedLemmas.lean, imported — not copied).

  Contents
  * §1 the well-formedness invariant for any handler environment that shows the world's two fee
    denominations; what reachability says about the listing found under an id and about the
    life-cycle fields of a stored listing / the owner of a stored bucket;
  * §2 the id log only grows along `step` / `run`;
  * §3 the messages a transaction reports are the messages of the handler it ran;
  * §4 fee plumbing for C10: registry payouts keep avoiding the pool; what a purchase deposits.
-/
import Fuzion.Lemmas.ClosedLemmas
import Fuzion.Lemmas.WorldLemmas
import Fuzion.Lemmas.FrameLemmas
namespace Fuzion

/-! ## §1 what reachability says about stored records -/

section
variable {w0 : World} {t : Nat} {r : Option Nat}

/-- `WFInv` of a reached state, for the denominations of any handler environment that shows the
    two fee denominations of the (initial) world -/
theorem reach_wf_env (h0 : w0.mkt = instantiate t r) (ops : List Op) {env : Env}
    (hj : env.junoD = w0.junoD) (hu : env.usdcD = w0.usdcD) :
    WFInv env.junoD env.usdcD (run w0 ops).mkt := by
  rw [hj, hu]; exact closed_wf0 h0 ops

/-- the environment of the reached world itself qualifies -/
theorem reach_wf_own_env (h0 : w0.mkt = instantiate t r) (ops : List Op) :
    WFInv (run w0 ops).env.junoD (run w0 ops).env.usdcD (run w0 ops).mkt :=
  closed_wf h0 ops

/-- the listing found under an id in a reached state: it is stored, carries that id, is filed
    under `(creator, id)`, is what the key lookup returns, and is well-formed -/
theorem reach_find (h0 : w0.mkt = instantiate t r) (ops : List Op) {id : Nat} {k : Nat × Nat}
    {l : Listing} (hf : findById id (run w0 ops).mkt.listings = some (k, l)) :
    (k, l) ∈ (run w0 ops).mkt.listings ∧ l.id = id ∧ k = (l.creator, id) ∧
    alookup (l.creator, id) (run w0 ops).mkt.listings = some l ∧
    wfListing w0.junoD w0.usdcD k l = true := by
  obtain ⟨hk, hid, hal⟩ := (closed_ids h0 ops).find_key hf
  exact ⟨(findById_some hf).2, hid, hk, hal, closed_wfListing h0 ops (findById_some hf).2⟩

/-- consistent time stamps: both are set and the finalization is not after the expiration -/
theorem reach_wfTimes {fin exp : Option Nat} (h : wfTimes fin exp = true) :
    ∃ f e, fin = some f ∧ exp = some e ∧ f ≤ e := by
  cases fin with
  | none => simp [wfTimes] at h
  | some f =>
    cases exp with
    | none => simp [wfTimes] at h
    | some e =>
      simp only [wfTimes, Bool.and_eq_true, decide_eq_true_eq] at h
      exact ⟨f, e, rfl, rfl, h.1.1.1⟩

/-- the life-cycle fields of a well-formed listing are mutually consistent -/
theorem reach_wfListing_status {j u : Nat} {k : Nat × Nat} {l : Listing}
    (h : wfListing j u k l = true) :
    k = (l.creator, l.id) ∧
    (l.status = .preparing →
      l.finalizedAt = none ∧ l.expiresAt = none ∧ l.claimant = none ∧ l.fee = none) ∧
    (l.status = .finalized →
      (∃ f e, l.finalizedAt = some f ∧ l.expiresAt = some e ∧ f ≤ e) ∧ l.claimant = none ∧
      l.fee = none) ∧
    (l.status = .closed →
      (∃ f e, l.finalizedAt = some f ∧ l.expiresAt = some e ∧ f ≤ e) ∧
      l.claimant = some l.creator) := by
  have hp := wfListing_parts h
  refine ⟨hp.1, ?_, ?_, ?_⟩
  · intro hs
    unfold wfListing at h
    rw [hs] at h
    simp only [Bool.and_eq_true, Option.isNone_iff_eq_none] at h
    exact ⟨h.2.1.1.1, h.2.1.1.2, h.2.1.2, h.2.2⟩
  · intro hs
    unfold wfListing at h
    rw [hs] at h
    simp only [Bool.and_eq_true, Option.isNone_iff_eq_none] at h
    exact ⟨reach_wfTimes h.2.1.1, h.2.1.2, h.2.2⟩
  · intro hs
    unfold wfListing at h
    rw [hs] at h
    simp only [Bool.and_eq_true, decide_eq_true_eq] at h
    exact ⟨reach_wfTimes h.2.1.1, h.2.1.2⟩

/-- … in particular for every listing stored in a reached state -/
theorem reach_listing_status (h0 : w0.mkt = instantiate t r) (ops : List Op) {k : Nat × Nat}
    {l : Listing} (hm : (k, l) ∈ (run w0 ops).mkt.listings) :
    k = (l.creator, l.id) ∧
    (l.status = .preparing →
      l.finalizedAt = none ∧ l.expiresAt = none ∧ l.claimant = none ∧ l.fee = none) ∧
    (l.status = .finalized →
      (∃ f e, l.finalizedAt = some f ∧ l.expiresAt = some e ∧ f ≤ e) ∧ l.claimant = none ∧
      l.fee = none) ∧
    (l.status = .closed →
      (∃ f e, l.finalizedAt = some f ∧ l.expiresAt = some e ∧ f ≤ e) ∧
      l.claimant = some l.creator) :=
  reach_wfListing_status (closed_wfListing h0 ops hm)

/-- a listing stored in a reached state has a claimant exactly when it is closed -/
theorem reach_claimant_iff (h0 : w0.mkt = instantiate t r) (ops : List Op) {k : Nat × Nat}
    {l : Listing} (hm : (k, l) ∈ (run w0 ops).mkt.listings) :
    (l.claimant = none ↔ l.status ≠ .closed) ∧ (l.status = .closed → l.claimant = some l.creator) := by
  obtain ⟨_, h1, h2, h3⟩ := reach_listing_status h0 ops hm
  refine ⟨⟨fun hc hs => ?_, fun hs => ?_⟩, fun hs => (h3 hs).2⟩
  · rw [(h3 hs).2] at hc; cases hc
  · cases hst : l.status with
    | preparing => exact (h1 hst).2.2.1
    | finalized => exact (h2 hst).2.1
    | closed => exact absurd hst hs

/-- the bucket found under a key of a reached state is owned by the first component of the key,
    and is well-formed -/
theorem reach_bucket (h0 : w0.mkt = instantiate t r) (ops : List Op) {x id : Nat} {b : Bucket}
    (hb : alookup (x, id) (run w0 ops).mkt.buckets = some b) :
    b.owner = x ∧ wfBal b.funds = true ∧ wfFee w0.junoD w0.usdcD b.fee = true := by
  have hm := alookup_some_mem hb
  have hwf : wfBucket w0.junoD w0.usdcD (x, id) b = true := (closed_wf0 h0 ops).bwf _ hm
  have := hwf
  simp only [wfBucket, Bool.and_eq_true, decide_eq_true_eq] at this
  exact ⟨this.1.1.symm, this.1.2, this.2⟩

/-- at most one bucket per id in a reached state: once the bucket filed under `(x, id)` is
    erased, no key carries `id` any more -/
theorem reach_bucket_erased (h0 : w0.mkt = instantiate t r) (ops : List Op) {x id : Nat}
    {b : Bucket} (hb : alookup (x, id) (run w0 ops).mkt.buckets = some b) (who : Nat) :
    alookup (who, id) (aerase (x, id) (run w0 ops).mkt.buckets) = none := by
  by_cases hw : who = x
  · subst hw; exact alookup_aerase_self _ _
  · have n : (who, id) ≠ (x, id) := fun e => hw (Prod.mk.inj e).1
    rw [alookup_aerase_ne n]
    cases hx : alookup (who, id) (run w0 ops).mkt.buckets with
    | none => rfl
    | some y => exact absurd ((closed_ids h0 ops).bucket_owner hx hb) hw

end

/-! ## §2 the id log only grows -/

theorem reach_used_step (w : World) (op : Op) {i : Nat} (h : i ∈ w.mkt.listingUsed) :
    i ∈ (step w op).1.mkt.listingUsed := by
  unfold step
  rcases stepF_mkt_casesF noFault w op with hm | ⟨c, f, msg, out, _, _, _, hx⟩
  · rw [hm]; exact h
  · exact mchange_used (execute_mchange hx) i h

theorem reach_used_run (w : World) (ops : List Op) {i : Nat} (h : i ∈ w.mkt.listingUsed) :
    i ∈ (run w ops).mkt.listingUsed := by
  induction ops generalizing w with
  | nil => exact h
  | cons op ops ih => exact ih _ (reach_used_step w op h)

/-- the id of a listing that is live at some point of a history from instantiation is in the log
    at every later point -/
theorem reach_found_used {w0 : World} {t : Nat} {r : Option Nat} (h0 : w0.mkt = instantiate t r)
    (ops₁ ops₂ : List Op) {lid : Nat} {k : Nat × Nat} {l : Listing}
    (hf : findById lid (run w0 ops₁).mkt.listings = some (k, l)) :
    lid ∈ (run w0 (ops₁ ++ ops₂)).mkt.listingUsed := by
  rw [run_append]
  refine reach_used_run _ ops₂ ?_
  obtain ⟨hid, hmem⟩ := findById_some hf
  have := (closed_ids h0 ops₁).lused _ hmem
  rwa [hid] at this

/-! ## §3 the messages of a transaction -/

/-- the message list a transaction reports: empty (failed, or not a marketplace call), or exactly
    what the handler emitted on the pre-state record and environment -/
theorem reach_step_msgs (w : World) (op : Op) :
    (step w op).2.msgs = [] ∨
    ∃ c f msg m', op.asExec = some (c, f, msg) ∧
      execute w.mkt w.env c f msg = .ok (m', (step w op).2.msgs) ∧ (step w op).1.mkt = m' ∧
      (step w op).2.ok = true := by
  unfold step
  cases ho : op.asExec with
  | some tr =>
    obtain ⟨c, f, msg⟩ := tr
    rcases stepF_market (fail := noFault) (w := w) ho with ⟨e, h⟩ | ⟨m', msgs, w2, hx, hm, _, h⟩
    · rw [h]; exact .inl rfl
    · rw [h]; exact .inr ⟨c, f, msg, m', rfl, hx, hm, rfl⟩
  | none =>
    left
    cases op with
    | exec s fu m => simp [Op.asExec] at ho
    | send20 t s a i => simp [Op.asExec] at ho
    | send721 co s t i => simp [Op.asExec] at ho
    | royalty s m =>
      rcases stepF_royalty noFault w s m with ⟨e, _, h⟩ | ⟨r, _, h⟩ <;> rw [h] <;> rfl
    | setAdmin s c n =>
      simp only [stepF]
      repeat' split
      all_goals rfl
    | advance a b => rfl

/-! ## §4 fee plumbing (C10) -/

/-- no registry entry pays out to `a`, along every history whose operations do not register `a`
    (and are not signed by it) -/
theorem reach_payouts_run {w : World} {a : Nat} (hp : PayoutsNe w.reg a) (ops : List Op)
    (hops : ∀ op ∈ ops, op.avoids a) : PayoutsNe (run w ops).reg a := by
  induction ops generalizing w with
  | nil => exact hp
  | cons op ops ih =>
    exact ih (stepF_payouts hp (hops op (List.mem_cons_self ..)))
      (fun o ho => hops o (List.mem_cons_of_mem _ ho))

/-- what the messages of an accepted purchase deposit into the community pool: exactly the fee
    that was pending on the paying bucket (the royalty payouts are bank sends / CW20 transfers) -/
theorem reach_buy_poolPaid {m m' : Market} {env : Env} {buyer lid bid : Nat} {out : List OutMsg}
    {b : Bucket} (h : buy m env buyer lid bid = .ok (m', out))
    (hb : alookup (buyer, bid) m.buckets = some b) (d : Nat) : poolPaid out d = feeAmt b.fee d := by
  obtain ⟨k, l, b', lfee, lbal, bfee, bbal, ra, fb, msgs1, s1, fl, msgs2, s2, hb', _, _, _, _, _, _,
    hr1, hr2, _, rfl⟩ := buy_ok_inv h
  rw [hb] at hb'
  cases hb'
  rw [poolPaid_append, poolPaid_append, poolPaid_feeMsg, poolPaid_sideRoy hr1,
    poolPaid_sideRoy hr2]
  omega

end Fuzion
