/-
  Fuzion.Lemmas.RegistryLemmas — helper lemmas for the registry (C14) and fee-cycle (C13)
  properties: the registry's guards, which world fields message dispatch / `runMarket` / `stepF`
  can write, which `Market` fields each marketplace handler writes, and `calcFeeCoin`'s key.
  Core library only.
-/
import Fuzion.Model.Chain
import Fuzion.Lemmas.AListBasic
namespace Fuzion

/-! ### the registry's guards -/

theorem bpsOk_iff (b : Nat) : bpsOk b = true ↔ MIN_BPS ≤ b ∧ b ≤ MAX_BPS := by
  simp [bpsOk]

theorem isAdmin_iff (env : RegEnv) (sender c : Nat) :
    isAdmin env sender c = true ↔ env.adminOf c = some (some sender) := by
  unfold isAdmin
  cases env.adminOf c with
  | none => simp
  | some o =>
    cases o with
    | none => simp
    | some a => simp

theorem isAdmin_isNone {env : RegEnv} {sender c : Nat} (h : isAdmin env sender c = true) :
    (env.adminOf c).isNone = false := by
  rw [isAdmin_iff] at h; simp [h]

/-- exact reading of `last_updated.saturating_add(COOLDOWN_BLOCKS) > height` being false -/
theorem coolingDown_false_iff (e : RoyaltyInfo) (h : Nat) :
    coolingDown e h = false ↔ min (e.lastUpdated + COOLDOWN) U64MAX ≤ h := by
  simp [coolingDown]

/-- below `u64::MAX` the saturation is invisible -/
theorem min_sat_le_iff_of_lt {a h : Nat} (hh : h < U64MAX) : min a U64MAX ≤ h ↔ a ≤ h := by
  omega

theorem min_sat_le_iff_of_le {a h : Nat} (ha : a ≤ U64MAX) : min a U64MAX ≤ h ↔ a ≤ h := by
  omega

theorem sat_lt_iff_of_le {a n : Nat} (ha : a ≤ U64MAX) : ¬ n ≤ min a U64MAX ↔ n > a := by
  omega

theorem sat_lt_iff_of_now {a n : Nat} (hn : n ≤ U64MAX) : ¬ n ≤ min a U64MAX ↔ n > a := by
  omega

/-- the collection a registry message is about (`nft_contract`) -/
def RoyMsg.nft : RoyMsg → RawAddr
  | .register n _ _ => n
  | .update n _ _ => n
  | .remove n => n

/-- the payout address an accepted `Update` stores: the new one if one is given, else the
    stored one (`None => Ok(entry.payout_addr)`) -/
def updPayout (payout : Option RawAddr) (old : Nat) : Nat :=
  match payout with
  | some (.valid p) => p
  | _ => old

@[simp] theorem updPayout_none (old : Nat) : updPayout none old = old := rfl
@[simp] theorem updPayout_valid (p old : Nat) : updPayout (some (.valid p)) old = p := rfl

/-- "admin at that moment" read off the world's contract table -/
theorem regEnv_adminOf_iff (w : World) (c a : Nat) :
    w.regEnv.adminOf c = some (some a) ↔ ∃ ci, alookup c w.contracts = some ci ∧ ci.admin = some a := by
  simp only [World.regEnv, World.kindOf]
  cases alookup c w.contracts with
  | none => simp
  | some ci => simp

/-! ### which world fields dispatch can write -/

/-- `w'` agrees with `w` on everything except the three token ledgers and the marketplace record -/
structure CoreEq (w w' : World) : Prop where
  self : w'.self = w.self
  pool : w'.pool = w.pool
  regAddr : w'.regAddr = w.regAddr
  junoD : w'.junoD = w.junoD
  usdcD : w'.usdcD = w.usdcD
  nowNs : w'.nowNs = w.nowNs
  height : w'.height = w.height
  reg : w'.reg = w.reg
  contracts : w'.contracts = w.contracts

theorem CoreEq.refl (w : World) : CoreEq w w := ⟨rfl, rfl, rfl, rfl, rfl, rfl, rfl, rfl, rfl⟩

theorem CoreEq.trans {a b c : World} (h1 : CoreEq a b) (h2 : CoreEq b c) : CoreEq a c :=
  ⟨h2.self.trans h1.self, h2.pool.trans h1.pool, h2.regAddr.trans h1.regAddr,
   h2.junoD.trans h1.junoD, h2.usdcD.trans h1.usdcD, h2.nowNs.trans h1.nowNs,
   h2.height.trans h1.height, h2.reg.trans h1.reg, h2.contracts.trans h1.contracts⟩

theorem CoreEq.kindOf {w w' : World} (h : CoreEq w w') (a : Nat) : w'.kindOf a = w.kindOf a := by
  simp [World.kindOf, h.contracts]

/-- the handler environment only reads core fields -/
theorem CoreEq.env {w w' : World} (h : CoreEq w w') : w'.env = w.env := by
  simp [World.env, World.kindOf, h.self, h.nowNs, h.junoD, h.usdcD, h.regAddr, h.contracts, h.reg]

theorem CoreEq.regEnv {w w' : World} (h : CoreEq w w') : w'.regEnv = w.regEnv := by
  simp [World.regEnv, World.kindOf, h.height, h.contracts]

/-- one dispatched message writes at most one token ledger -/
theorem dispatch1_frame {w w' : World} {m : OutMsg} (h : dispatch1 w m = some w') :
    CoreEq w w' ∧ w'.mkt = w.mkt := by
  cases m with
  | bankSend to coins =>
    simp only [dispatch1] at h
    split at h
    · contradiction
    · injection h with h; subst h; exact ⟨⟨rfl, rfl, rfl, rfl, rfl, rfl, rfl, rfl, rfl⟩, rfl⟩
  | cw20Transfer token to amt =>
    simp only [dispatch1] at h
    repeat' split at h
    all_goals first
      | contradiction
      | (injection h with h; subst h; exact ⟨⟨rfl, rfl, rfl, rfl, rfl, rfl, rfl, rfl, rfl⟩, rfl⟩)
  | nftTransfer coll tid to =>
    simp only [dispatch1] at h
    repeat' split at h
    all_goals first
      | contradiction
      | (injection h with h; subst h; exact ⟨⟨rfl, rfl, rfl, rfl, rfl, rfl, rfl, rfl, rfl⟩, rfl⟩)
  | fundPool dep coin =>
    simp only [dispatch1] at h
    repeat' split at h
    all_goals first
      | contradiction
      | (injection h with h; subst h; exact ⟨⟨rfl, rfl, rfl, rfl, rfl, rfl, rfl, rfl, rfl⟩, rfl⟩)

/-- `dispatchAll` never touches the registry, the marketplace record, the clock or the contract
    table -/
theorem dispatchAll_frame {fail : Nat → Bool} {msgs : List OutMsg} :
    ∀ {w w' : World} {i : Nat}, dispatchAll fail w msgs i = some w' →
      CoreEq w w' ∧ w'.mkt = w.mkt := by
  induction msgs with
  | nil =>
    intro w w' i h
    simp only [dispatchAll] at h
    injection h with h; subst h; exact ⟨CoreEq.refl _, rfl⟩
  | cons m ms ih =>
    intro w w' i h
    simp only [dispatchAll] at h
    split at h
    · contradiction
    · split at h
      · contradiction
      · next w1 h1 =>
        have f1 := dispatch1_frame h1
        have f2 := ih h
        exact ⟨f1.1.trans f2.1, f2.2.trans f1.2⟩

theorem dispatchAll_reg {fail : Nat → Bool} {msgs : List OutMsg} {w w' : World} {i : Nat}
    (h : dispatchAll fail w msgs i = some w') : w'.reg = w.reg := (dispatchAll_frame h).1.reg

/-! ### `runMarket` and `stepF` -/

/-- `runMarket` either fails and returns `w0`, or the handler accepted and every message was
    dispatched -/
theorem runMarket_cases (fail : Nat → Bool) (w0 w1 : World) (caller : Nat) (funds : List Coin)
    (msg : ExecMsg) :
    (∃ e, runMarket fail w0 w1 caller funds msg = (w0, .fail e)) ∨
    (∃ m' msgs w2, execute w1.mkt w1.env caller funds msg = .ok (m', msgs) ∧
      dispatchAll fail { w1 with mkt := m' } msgs 0 = some w2 ∧
      runMarket fail w0 w1 caller funds msg = (w2, ⟨true, none, msgs⟩)) := by
  unfold runMarket
  cases hx : execute w1.mkt w1.env caller funds msg with
  | error e => exact .inl ⟨e, rfl⟩
  | ok r =>
    obtain ⟨m', msgs⟩ := r
    cases hd : dispatchAll fail { w1 with mkt := m' } msgs 0 with
    | none => exact .inl ⟨.dispatch, by simp [hd]⟩
    | some w2 => exact .inr ⟨m', msgs, w2, rfl, hd, by simp [hd]⟩

/-- the marketplace call an operation amounts to: `(info.sender, info.funds, message)` -/
def Op.asExec : Op → Option (Nat × List Coin × ExecMsg)
  | .exec s f m => some (s, f, m)
  | .send20 t s a i => some (t, [], .receive (.valid s) a i)
  | .send721 c s t i => some (c, [], .receiveNft (.valid s) t i)
  | _ => none

/-- a `runMarket` call whose deposit world `w1` differs from `w` only in the token ledgers -/
theorem runMarket_core {fail : Nat → Bool} {w w1 : World} (hc : CoreEq w w1) (hm : w1.mkt = w.mkt)
    (caller : Nat) (funds : List Coin) (msg : ExecMsg) :
    (∃ e, runMarket fail w w1 caller funds msg = (w, .fail e)) ∨
    (∃ m' msgs w2, execute w.mkt w.env caller funds msg = .ok (m', msgs) ∧ w2.mkt = m' ∧
      CoreEq w w2 ∧ runMarket fail w w1 caller funds msg = (w2, ⟨true, none, msgs⟩)) := by
  rcases runMarket_cases fail w w1 caller funds msg with h | ⟨m', msgs, w2, hx, hd, hr⟩
  · exact .inl h
  · refine .inr ⟨m', msgs, w2, ?_, ?_, ?_, hr⟩
    · rw [← hm, ← hc.env]; exact hx
    · exact (dispatchAll_frame hd).2
    · have f := (dispatchAll_frame hd).1
      exact hc.trans ⟨f.self, f.pool, f.regAddr, f.junoD, f.usdcD, f.nowNs, f.height, f.reg,
        f.contracts⟩

/-- Every operation that reaches the marketplace either fails and leaves the world as it was, or
    runs the handler on the *pre-state* marketplace record and environment, stores its result
    and otherwise changes token ledgers only. -/
theorem stepF_market {fail : Nat → Bool} {w : World} {op : Op} {c : Nat} {f : List Coin}
    {msg : ExecMsg} (ho : op.asExec = some (c, f, msg)) :
    (∃ e, stepF fail w op = (w, .fail e)) ∨
    (∃ m' msgs w2, execute w.mkt w.env c f msg = .ok (m', msgs) ∧ w2.mkt = m' ∧
      CoreEq w w2 ∧ stepF fail w op = (w2, ⟨true, none, msgs⟩)) := by
  cases op with
  | exec s fu m =>
    simp only [Op.asExec, Option.some.injEq, Prod.mk.injEq] at ho
    obtain ⟨rfl, rfl, rfl⟩ := ho
    simp only [stepF]
    split
    · exact runMarket_core (CoreEq.refl w) rfl _ _ _
    · split
      · exact .inl ⟨_, rfl⟩
      · refine runMarket_core ?_ ?_ _ _ _
        · exact ⟨rfl, rfl, rfl, rfl, rfl, rfl, rfl, rfl, rfl⟩
        · rfl
  | send20 t s a i =>
    simp only [Op.asExec, Option.some.injEq, Prod.mk.injEq] at ho
    obtain ⟨rfl, rfl, rfl⟩ := ho
    simp only [stepF]
    split
    · exact .inl ⟨_, rfl⟩
    · split
      · exact .inl ⟨_, rfl⟩
      · split
        · exact .inl ⟨_, rfl⟩
        · refine runMarket_core ?_ ?_ _ _ _
          · exact ⟨rfl, rfl, rfl, rfl, rfl, rfl, rfl, rfl, rfl⟩
          · rfl
  | send721 co s t i =>
    simp only [Op.asExec, Option.some.injEq, Prod.mk.injEq] at ho
    obtain ⟨rfl, rfl, rfl⟩ := ho
    simp only [stepF]
    split
    · exact .inl ⟨_, rfl⟩
    · split
      · exact .inl ⟨_, rfl⟩
      · refine runMarket_core ?_ ?_ _ _ _
        · exact ⟨rfl, rfl, rfl, rfl, rfl, rfl, rfl, rfl, rfl⟩
        · rfl
  | royalty s m => simp [Op.asExec] at ho
  | setAdmin s c n => simp [Op.asExec] at ho
  | advance a b => simp [Op.asExec] at ho

/-- the registry transaction: the handler runs on the pre-state registry and the pre-state
    contract table; only `reg` is written -/
theorem stepF_royalty (fail : Nat → Bool) (w : World) (sender : Nat) (msg : RoyMsg) :
    (∃ e, regExecute w.reg w.regEnv sender msg = .error e ∧
        stepF fail w (.royalty sender msg) = (w, .fail e)) ∨
    (∃ r, regExecute w.reg w.regEnv sender msg = .ok r ∧
        stepF fail w (.royalty sender msg) = ({ w with reg := r }, ⟨true, none, []⟩)) := by
  simp only [stepF]
  cases h : regExecute w.reg w.regEnv sender msg with
  | error e => exact .inl ⟨e, rfl, rfl⟩
  | ok r => exact .inr ⟨r, rfl, rfl⟩

theorem stepF_royalty_ok {fail : Nat → Bool} {w : World} {sender : Nat} {msg : RoyMsg} {r : Registry}
    (h : regExecute w.reg w.regEnv sender msg = .ok r) :
    stepF fail w (.royalty sender msg) = ({ w with reg := r }, ⟨true, none, []⟩) := by
  simp only [stepF, h]

/-- the marketplace record after any operation that is not a marketplace call -/
theorem stepF_mkt_of_asExec_none {fail : Nat → Bool} {w : World} {op : Op}
    (ho : op.asExec = none) : (stepF fail w op).1.mkt = w.mkt := by
  cases op with
  | exec s fu m => simp [Op.asExec] at ho
  | send20 t s a i => simp [Op.asExec] at ho
  | send721 co s t i => simp [Op.asExec] at ho
  | royalty s m =>
    rcases stepF_royalty fail w s m with ⟨e, _, h⟩ | ⟨r, _, h⟩ <;> rw [h]
  | setAdmin s c n =>
    simp only [stepF]
    repeat' split
    all_goals rfl
  | advance a b => rfl

/-- the clock: only `.advance` moves it, forward -/
theorem stepF_nowNs (fail : Nat → Bool) (w : World) (op : Op) :
    (stepF fail w op).1.nowNs = w.nowNs ∨ ∃ dNs dH, op = .advance dNs dH ∧
      (stepF fail w op).1.nowNs = w.nowNs + dNs := by
  cases ho : op.asExec with
  | some t =>
    obtain ⟨c, f, msg⟩ := t
    rcases stepF_market (fail := fail) (w := w) ho with ⟨e, h⟩ | ⟨m', msgs, w2, _, _, hc, h⟩
    · rw [h]; exact .inl rfl
    · rw [h]; exact .inl hc.nowNs
  | none =>
    cases op with
    | exec s fu m => simp [Op.asExec] at ho
    | send20 t s a i => simp [Op.asExec] at ho
    | send721 co s t i => simp [Op.asExec] at ho
    | royalty s m =>
      rcases stepF_royalty fail w s m with ⟨e, _, h⟩ | ⟨r, _, h⟩ <;> rw [h] <;> exact .inl rfl
    | setAdmin s c n =>
      left
      simp only [stepF]
      repeat' split
      all_goals rfl
    | advance a b => exact .inr ⟨a, b, rfl, rfl⟩

/-! ### which `Market` fields the handlers write

Every handler other than `cycleFee` returns `{ m with listings := …, buckets := …, …Used := … }`:
the fee denomination, its time stamp and the registry address are never written. -/

/-- `m'` keeps the fee configuration of `m` -/
def FeeCfgEq (m m' : Market) : Prop :=
  m'.feeKind = m.feeKind ∧ m'.feeSince = m.feeSince ∧ m'.registry = m.registry

/-- closes `h : handler … = .ok (m', out) ⊢ FeeCfgEq m m'` once the handler is unfolded in `h` -/
syntax "fee_cfg_frame " ident : tactic
macro_rules
  | `(tactic| fee_cfg_frame $h:ident) => `(tactic| (
      try dsimp only at $h:ident
      repeat' split at $h:ident
      all_goals first
        | contradiction
        | (simp only [Except.ok.injEq, Prod.mk.injEq] at $h:ident
           obtain ⟨hm, _⟩ := $h:ident
           subst hm
           exact ⟨rfl, rfl, rfl⟩)))

theorem createBucket_feeCfg {m m' : Market} {funds : Funds} {creator id : Nat} {out : List OutMsg}
    (h : createBucket m funds creator id = .ok (m', out)) : FeeCfgEq m m' := by
  unfold createBucket at h; fee_cfg_frame h

theorem createBucketNft_feeCfg {m m' : Market} {user : Nat} {nft : Nft} {id : Nat}
    {out : List OutMsg} (h : createBucketNft m user nft id = .ok (m', out)) : FeeCfgEq m m' := by
  unfold createBucketNft at h; fee_cfg_frame h

theorem addToBucket_feeCfg {m m' : Market} {funds : Funds} {sender id : Nat} {out : List OutMsg}
    (h : addToBucket m funds sender id = .ok (m', out)) : FeeCfgEq m m' := by
  unfold addToBucket at h; fee_cfg_frame h

theorem addToBucketNft_feeCfg {m m' : Market} {user : Nat} {nft : Nft} {id : Nat}
    {out : List OutMsg} (h : addToBucketNft m user nft id = .ok (m', out)) : FeeCfgEq m m' := by
  unfold addToBucketNft at h; fee_cfg_frame h

theorem withdrawBucket_feeCfg {m m' : Market} {env : Env} {user id : Nat} {out : List OutMsg}
    (h : withdrawBucket m env user id = .ok (m', out)) : FeeCfgEq m m' := by
  unfold withdrawBucket at h; fee_cfg_frame h

theorem createListing_feeCfg {m m' : Market} {user : Nat} {funds : Funds} {c : CreateMsg} {id : Nat}
    {out : List OutMsg} (h : createListing m user funds c id = .ok (m', out)) : FeeCfgEq m m' := by
  unfold createListing at h; fee_cfg_frame h

theorem createListingNft_feeCfg {m m' : Market} {user : Nat} {nft : Nft} {c : CreateMsg} {id : Nat}
    {out : List OutMsg} (h : createListingNft m user nft c id = .ok (m', out)) :
    FeeCfgEq m m' := by
  unfold createListingNft at h; fee_cfg_frame h

theorem changeAsk_feeCfg {m m' : Market} {user id : Nat} {ask : RawGBal} {out : List OutMsg}
    (h : changeAsk m user id ask = .ok (m', out)) : FeeCfgEq m m' := by
  unfold changeAsk at h; fee_cfg_frame h

theorem addToListing_feeCfg {m m' : Market} {funds : Funds} {user id : Nat} {out : List OutMsg}
    (h : addToListing m funds user id = .ok (m', out)) : FeeCfgEq m m' := by
  unfold addToListing at h; fee_cfg_frame h

theorem addToListingNft_feeCfg {m m' : Market} {user : Nat} {nft : Nft} {id : Nat}
    {out : List OutMsg} (h : addToListingNft m user nft id = .ok (m', out)) : FeeCfgEq m m' := by
  unfold addToListingNft at h; fee_cfg_frame h

theorem finalize_feeCfg {m m' : Market} {env : Env} {sender id seconds : Nat} {out : List OutMsg}
    (h : finalize m env sender id seconds = .ok (m', out)) : FeeCfgEq m m' := by
  unfold finalize at h; fee_cfg_frame h

theorem deleteListing_feeCfg {m m' : Market} {env : Env} {sender id : Nat} {out : List OutMsg}
    (h : deleteListing m env sender id = .ok (m', out)) : FeeCfgEq m m' := by
  unfold deleteListing at h; fee_cfg_frame h

theorem buy_feeCfg {m m' : Market} {env : Env} {buyer lid bid : Nat} {out : List OutMsg}
    (h : buy m env buyer lid bid = .ok (m', out)) : FeeCfgEq m m' := by
  unfold buy at h; fee_cfg_frame h

theorem withdrawPurchased_feeCfg {m m' : Market} {env : Env} {who lid : Nat} {out : List OutMsg}
    (h : withdrawPurchased m env who lid = .ok (m', out)) : FeeCfgEq m m' := by
  unfold withdrawPurchased at h; fee_cfg_frame h

theorem receive_feeCfg {m m' : Market} {env : Env} {caller : Nat} {funds : List Coin}
    {sender : RawAddr} {amount : Nat} {inner : Option Inner} {out : List OutMsg}
    (h : receive m env caller funds sender amount inner = .ok (m', out)) : FeeCfgEq m m' := by
  unfold receive at h
  repeat' split at h
  all_goals first
    | contradiction
    | exact createListing_feeCfg h
    | exact addToListing_feeCfg h
    | exact createBucket_feeCfg h
    | exact addToBucket_feeCfg h

theorem receiveNft_feeCfg {m m' : Market} {env : Env} {caller : Nat} {funds : List Coin}
    {sender : RawAddr} {tid : Nat} {inner : Option Inner} {out : List OutMsg}
    (h : receiveNft m env caller funds sender tid inner = .ok (m', out)) : FeeCfgEq m m' := by
  unfold receiveNft at h
  repeat' split at h
  all_goals first
    | contradiction
    | exact createListingNft_feeCfg h
    | exact addToListingNft_feeCfg h
    | exact createBucketNft_feeCfg h
    | exact addToBucketNft_feeCfg h

/-- `execute` leaves the fee configuration alone for every message except `feeCycle` -/
theorem execute_feeCfg {m m' : Market} {env : Env} {sender : Nat} {funds : List Coin}
    {msg : ExecMsg} {out : List OutMsg} (hne : msg ≠ .feeCycle)
    (h : execute m env sender funds msg = .ok (m', out)) : FeeCfgEq m m' := by
  unfold execute at h
  split at h
  · contradiction
  · cases msg with
    | feeCycle => exact absurd rfl hne
    | createListing id c => exact createListing_feeCfg h
    | addToListing id => exact addToListing_feeCfg h
    | changeAsk id ask => exact changeAsk_feeCfg h
    | finalize id s => exact finalize_feeCfg h
    | deleteListing id => exact deleteListing_feeCfg h
    | createBucket id => exact createBucket_feeCfg h
    | addToBucket id => exact addToBucket_feeCfg h
    | removeBucket id => exact withdrawBucket_feeCfg h
    | buy lid bid => exact buy_feeCfg h
    | withdrawPurchased lid => exact withdrawPurchased_feeCfg h
    | receive s a i => exact receive_feeCfg h
    | receiveNft s t i => exact receiveNft_feeCfg h

/-! ### the fee cycle -/

/-- the other one of the two configured fee denominations -/
def FeeKind.other : FeeKind → FeeKind
  | .juno => .usdc
  | .usdc => .juno

@[simp] theorem FeeKind.other_ne (k : FeeKind) : k.other ≠ k := by cases k <;> simp [FeeKind.other]
@[simp] theorem FeeKind.other_other (k : FeeKind) : k.other.other = k := by cases k <;> rfl
theorem FeeKind.eq_other_of_ne {k k' : FeeKind} (h : k' ≠ k) : k' = k.other := by
  cases k <;> cases k' <;> first | rfl | exact absurd rfl h

/-- the saturating `u64` sum is invisible as soon as either side of the comparison is a `u64` -/
theorem sat_gt_iff {a n : Nat} (hU : a ≤ U64MAX ∨ n ≤ U64MAX) : n > min a U64MAX ↔ n > a := by
  omega

theorem div_gt_iff_ns (x a : Nat) : x / NS > a ↔ x ≥ (a + 1) * NS := by
  have hNS : 0 < NS := by decide
  show a + 1 ≤ x / NS ↔ (a + 1) * NS ≤ x
  exact Nat.le_div_iff_mul_le hNS

/-- `execute` on `feeCycle` is `cycleFee` (when it is accepted at all) -/
theorem execute_feeCycle_ok {m : Market} {env : Env} {s : Nat} {f : List Coin} {r : Market × List OutMsg}
    (h : execute m env s f .feeCycle = .ok r) : f = [] ∧ cycleFee m env = .ok r := by
  unfold execute at h
  split at h
  · contradiction
  · next hc =>
    refine ⟨?_, h⟩
    cases f with
    | nil => rfl
    | cons a t => simp [ExecMsg.takesCoins] at hc

theorem asExec_feeCycle {op : Op} {c : Nat} {f : List Coin} (h : op.asExec = some (c, f, .feeCycle)) :
    op = .exec c f .feeCycle := by
  cases op <;> simp [Op.asExec] at h
  obtain ⟨rfl, rfl, rfl⟩ := h
  rfl

/-! ### `calcFeeCoin` and `findById` -/

/-- the fee coin computed by `calc_fee_coin` is denominated in the denomination it was asked for -/
theorem calcFeeCoin_key {fd : Nat} {g g' : GBal} {f : Coin}
    (h : calcFeeCoin fd g = some (some f, g')) : f.key = fd := by
  unfold calcFeeCoin at h
  dsimp only at h
  repeat' split at h
  all_goals first
    | contradiction
    | (simp only [Option.some.injEq, Prod.mk.injEq] at h
       obtain ⟨hf, _⟩ := h
       first
         | (subst hf; rfl)
         | cases hf)

theorem calcFeeCoin_key' {fd : Nat} {g g' : GBal} {fee : Option Coin}
    (h : calcFeeCoin fd g = some (fee, g')) : ∀ f, fee = some f → f.key = fd := by
  intro f hf; subst hf; exact calcFeeCoin_key h

theorem findById_some {id : Nat} {l : List ((Nat × Nat) × Listing)} {p : (Nat × Nat) × Listing}
    (h : findById id l = some p) : p.2.id = id ∧ p ∈ l := by
  unfold findById at h
  exact ⟨by simpa using List.find?_some h, List.mem_of_find?_eq_some h⟩

theorem findById_cons_self {id : Nat} {k : Nat × Nat} {v : Listing}
    {l : List ((Nat × Nat) × Listing)} (h : v.id = id) : findById id ((k, v) :: l) = some (k, v) := by
  simp [findById, List.find?, h]

/-- what an accepted `buy` records about fees: the listing found under `lid` and the paying
    bucket are re-stored under the new owners' keys, and the `fee` fields of the two new records
    are exactly what `calc_fee_coin` computes from the goods in the denomination `m.feeKind` -/
theorem buy_fee_inv {m m' : Market} {env : Env} {buyer lid bid : Nat} {out : List OutMsg}
    (h : buy m env buyer lid bid = .ok (m', out)) :
    ∃ k l b l' b' lbal bbal,
      findById lid m.listings = some (k, l) ∧ alookup (buyer, bid) m.buckets = some b ∧
      calcFeeCoin (feeDenomOf env m.feeKind) l.forSale = some (l'.fee, lbal) ∧
      calcFeeCoin (feeDenomOf env m.feeKind) b.funds = some (b'.fee, bbal) ∧
      findById lid m'.listings = some ((buyer, lid), l') ∧
      alookup (l.creator, bid) m'.buckets = some b' := by
  unfold buy at h
  split at h
  · cases h
  rename_i b hb
  split at h
  · cases h
  rename_i k l hl
  repeat' split at h
  all_goals first | (cases h; done) | skip
  all_goals
    simp only [Except.ok.injEq, Prod.mk.injEq] at h
    obtain ⟨rfl, _⟩ := h
    dsimp only
    refine ⟨k, l, b, ?_, ?_, ?_, ?_, hl, hb, ?_, ?_, ?_, ?_⟩
    rotate_left 6
    · refine findById_cons_self ?_
      exact (findById_some hl).1
    · exact alookup_ainsert_self (l.creator, bid) _ _
    rotate_right 1
    · assumption
    rotate_right 1
    · assumption

end Fuzion
