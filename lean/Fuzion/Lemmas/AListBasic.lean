/-
  Fuzion.Lemmas.AListBasic — generic facts about the association-list primitives of
  `Fuzion.Model.Basic` (`alookup`, `aerase`, `ainsert`, `akeys`, `lget`, `lset`).
  Core library only.
-/
import Fuzion.Model.Basic
namespace Fuzion

section
variable {κ ν : Type} [DecidableEq κ]

/-! ### unfolding lemmas -/

@[simp] theorem alookup_nil (k : κ) : alookup k ([] : List (κ × ν)) = none := rfl

theorem alookup_cons (k k' : κ) (v : ν) (l : List (κ × ν)) :
    alookup k ((k', v) :: l) = if k' = k then some v else alookup k l := rfl

@[simp] theorem alookup_cons_self (k : κ) (v : ν) (l : List (κ × ν)) :
    alookup k ((k, v) :: l) = some v := by simp [alookup]

theorem alookup_cons_ne {k k' : κ} (h : k' ≠ k) (v : ν) (l : List (κ × ν)) :
    alookup k ((k', v) :: l) = alookup k l := by simp [alookup, h]

@[simp] theorem aerase_nil (k : κ) : aerase k ([] : List (κ × ν)) = [] := rfl

omit [DecidableEq κ] in
@[simp] theorem akeys_nil : akeys ([] : List (κ × ν)) = [] := rfl

omit [DecidableEq κ] in
@[simp] theorem akeys_cons (p : κ × ν) (l : List (κ × ν)) : akeys (p :: l) = p.1 :: akeys l := rfl

omit [DecidableEq κ] in
theorem mem_akeys {k : κ} {l : List (κ × ν)} : k ∈ akeys l ↔ ∃ v, (k, v) ∈ l := by
  unfold akeys
  constructor
  · intro h
    obtain ⟨⟨k', v⟩, hm, rfl⟩ := List.mem_map.1 h
    exact ⟨v, hm⟩
  · rintro ⟨v, hm⟩
    exact List.mem_map.2 ⟨(k, v), hm, rfl⟩

/-! ### membership -/

theorem mem_aerase {p : κ × ν} {k : κ} {l : List (κ × ν)} :
    p ∈ aerase k l ↔ p ∈ l ∧ p.1 ≠ k := by
  simp [aerase, List.mem_filter]

theorem mem_ainsert {p : κ × ν} {k : κ} {v : ν} {l : List (κ × ν)} :
    p ∈ ainsert k v l ↔ p = (k, v) ∨ (p ∈ l ∧ p.1 ≠ k) := by
  simp [ainsert, mem_aerase]

/-! ### lookup -/

theorem alookup_eq_none_iff {k : κ} {l : List (κ × ν)} : alookup k l = none ↔ k ∉ akeys l := by
  induction l with
  | nil => simp
  | cons p t ih =>
    obtain ⟨k', v⟩ := p
    by_cases h : k' = k
    · subst h; simp
    · rw [alookup_cons_ne h, ih]
      simp [Ne.symm h]

theorem alookup_some_mem {k : κ} {v : ν} {l : List (κ × ν)} (h : alookup k l = some v) :
    (k, v) ∈ l := by
  induction l with
  | nil => simp at h
  | cons p t ih =>
    obtain ⟨k', v'⟩ := p
    by_cases hk : k' = k
    · subst hk
      simp at h
      simp [h]
    · rw [alookup_cons_ne hk] at h
      exact List.mem_cons_of_mem _ (ih h)

theorem alookup_isSome_iff {k : κ} {l : List (κ × ν)} : (alookup k l).isSome ↔ k ∈ akeys l := by
  rw [← Decidable.not_iff_not, ← alookup_eq_none_iff]
  cases alookup k l <;> simp

theorem mem_nodup_alookup {k : κ} {v : ν} {l : List (κ × ν)} (hnd : (akeys l).Nodup)
    (hm : (k, v) ∈ l) : alookup k l = some v := by
  induction l with
  | nil => simp at hm
  | cons p t ih =>
    obtain ⟨k', v'⟩ := p
    simp only [akeys_cons, List.nodup_cons] at hnd
    rcases List.mem_cons.1 hm with heq | hmt
    · cases heq; simp
    · have hne : k' ≠ k := by
        intro e
        subst e
        exact hnd.1 (mem_akeys.2 ⟨v, hmt⟩)
      rw [alookup_cons_ne hne]
      exact ih hnd.2 hmt

theorem alookup_aerase_self (k : κ) (l : List (κ × ν)) : alookup k (aerase k l) = none := by
  rw [alookup_eq_none_iff, mem_akeys]
  rintro ⟨v, hm⟩
  exact (mem_aerase.1 hm).2 rfl

theorem alookup_aerase_ne {k k' : κ} (h : k' ≠ k) (l : List (κ × ν)) :
    alookup k' (aerase k l) = alookup k' l := by
  induction l with
  | nil => rfl
  | cons p t ih =>
    obtain ⟨k₀, v₀⟩ := p
    by_cases h0 : k₀ = k
    · subst h0
      have : aerase k₀ ((k₀, v₀) :: t) = aerase k₀ t := by simp [aerase]
      rw [this, ih, alookup_cons_ne (Ne.symm h)]
    · have : aerase k ((k₀, v₀) :: t) = (k₀, v₀) :: aerase k t := by simp [aerase, h0]
      rw [this, alookup_cons, alookup_cons, ih]

theorem alookup_ainsert_self (k : κ) (v : ν) (l : List (κ × ν)) :
    alookup k (ainsert k v l) = some v := by
  simp [ainsert]

theorem alookup_ainsert_ne {k k' : κ} (h : k' ≠ k) (v : ν) (l : List (κ × ν)) :
    alookup k' (ainsert k v l) = alookup k' l := by
  unfold ainsert
  rw [alookup_cons_ne (Ne.symm h), alookup_aerase_ne h]

theorem alookup_ainsert (k k' : κ) (v : ν) (l : List (κ × ν)) :
    alookup k' (ainsert k v l) = if k' = k then some v else alookup k' l := by
  by_cases h : k' = k
  · subst h; simp [alookup_ainsert_self]
  · simp [h, alookup_ainsert_ne h]

theorem alookup_aerase (k k' : κ) (l : List (κ × ν)) :
    alookup k' (aerase k l) = if k' = k then none else alookup k' l := by
  by_cases h : k' = k
  · subst h; simp [alookup_aerase_self]
  · simp [h, alookup_aerase_ne h]

/-! ### keys -/

theorem akeys_aerase (k : κ) (l : List (κ × ν)) :
    akeys (aerase k l) = (akeys l).filter (fun x => decide (x ≠ k)) := by
  induction l with
  | nil => rfl
  | cons p t ih =>
    obtain ⟨k₀, v₀⟩ := p
    by_cases h0 : k₀ = k
    · subst h0
      have : aerase k₀ ((k₀, v₀) :: t) = aerase k₀ t := by simp [aerase]
      rw [this, ih]; simp
    · have : aerase k ((k₀, v₀) :: t) = (k₀, v₀) :: aerase k t := by simp [aerase, h0]
      rw [this]; simp [ih, h0]

theorem not_mem_akeys_aerase (k : κ) (l : List (κ × ν)) : k ∉ akeys (aerase k l) := by
  rw [← alookup_eq_none_iff]; exact alookup_aerase_self k l

theorem mem_akeys_aerase {k k' : κ} {l : List (κ × ν)} :
    k' ∈ akeys (aerase k l) ↔ k' ∈ akeys l ∧ k' ≠ k := by
  simp [akeys_aerase, List.mem_filter]

theorem nodup_akeys_aerase {l : List (κ × ν)} (k : κ) (h : (akeys l).Nodup) :
    (akeys (aerase k l)).Nodup := by
  rw [akeys_aerase]
  exact h.sublist List.filter_sublist

theorem akeys_ainsert (k : κ) (v : ν) (l : List (κ × ν)) :
    akeys (ainsert k v l) = k :: akeys (aerase k l) := rfl

theorem mem_akeys_ainsert {k k' : κ} {v : ν} {l : List (κ × ν)} :
    k' ∈ akeys (ainsert k v l) ↔ k' = k ∨ k' ∈ akeys l := by
  rw [akeys_ainsert, List.mem_cons, mem_akeys_aerase]
  by_cases h : k' = k <;> simp [h]

theorem nodup_akeys_ainsert {l : List (κ × ν)} (k : κ) (v : ν) (h : (akeys l).Nodup) :
    (akeys (ainsert k v l)).Nodup := by
  rw [akeys_ainsert, List.nodup_cons]
  exact ⟨not_mem_akeys_aerase k l, nodup_akeys_aerase k h⟩

/-! ### total ledgers -/

theorem lget_lset_self (l : List (κ × Nat)) (k : κ) (v : Nat) : lget (lset l k v) k = v := by
  simp [lget, lset, alookup_ainsert_self]

theorem lget_lset_ne (l : List (κ × Nat)) {k k' : κ} (h : k' ≠ k) (v : Nat) :
    lget (lset l k v) k' = lget l k' := by
  simp [lget, lset, alookup_ainsert_ne h]

theorem lget_lset (l : List (κ × Nat)) (k k' : κ) (v : Nat) :
    lget (lset l k v) k' = if k' = k then v else lget l k' := by
  by_cases h : k' = k
  · subst h; simp [lget_lset_self]
  · simp [h, lget_lset_ne l h]

end

end Fuzion
