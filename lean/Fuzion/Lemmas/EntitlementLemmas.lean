/-
  Fuzion.Lemmas.EntitlementLemmas — helper lemmas for Props/Entitlement.lean.

  The entitlement of account `a` in a valuation `V` (Lemmas/AcctLemmas.lean §5: a valuation assigns
  a number to a balance, a fee, a message, a deposit; the three asset classes are `natV d`, `cwV t`,
  `nftV n`) is the `V`-value of all goods filed under `a`:  `entV V m a`.  `pendV V m` is the
  `V`-value of all recorded, not yet paid fees.  The `*_ws` lemmas of AcctLemmas (what an accepted
  handler does to the sum of ARBITRARY per-record weights) are instantiated with the owner-indexed
  weights `V.wlOf a`, `V.wbOf a`.  Core library only.
-/
import Fuzion.Lemmas.AcctLemmas
import Fuzion.Lemmas.TradeLemmas
namespace Fuzion

/-- weight of a listing for account `a`: its goods if `a` is the party filed as its owner -/
def Val.wlOf (V : Val) (a : Nat) (l : Listing) : Nat := if a = l.creator then V.bal l.forSale else 0
/-- weight of a bucket for account `a` -/
def Val.wbOf (V : Val) (a : Nat) (b : Bucket) : Nat := if a = b.owner then V.bal b.funds else 0

/-- what the records hold for `a`, in valuation `V` -/
def entV (V : Val) (m : Market) (a : Nat) : Nat := wsum (V.wlOf a) (V.wbOf a) m
/-- recorded fees not yet paid to the pool, in valuation `V` -/
def pendV (V : Val) (m : Market) : Nat := wsum (fun l => V.fee l.fee) (fun b => V.fee b.fee) m

/-- `u`'s entitlement grows by `x`, nobody else's changes, pending fees unchanged -/
def EntDep (V : Val) (m m' : Market) (u x : Nat) : Prop :=
  (∀ a, entV V m' a = entV V m a + if a = u then x else 0) ∧ pendV V m' = pendV V m

/-- nothing changes -/
def EntSame (V : Val) (m m' : Market) : Prop :=
  (∀ a, entV V m' a = entV V m a) ∧ pendV V m' = pendV V m

/-- `u`'s entitlement shrinks by the goods `g`, the pending fees by `fee` -/
def EntWd (V : Val) (m m' : Market) (u : Nat) (g : GBal) (fee : Option Coin) : Prop :=
  (∀ a, entV V m' a + (if a = u then V.bal g else 0) = entV V m a) ∧
  pendV V m' + V.fee fee = pendV V m

variable {m m' : Market} {env : Env} {out : List OutMsg} {V : Val}

/-! ### deposits -/

theorem createBucket_ent (hV : V.Ok) {funds : Funds} {creator id : Nat}
    (h : createBucket m funds creator id = .ok (m', out)) :
    out = [] ∧ EntDep V m m' creator (V.inF funds) := by
  obtain ⟨rfl, hw⟩ := createBucket_ws h
  refine ⟨rfl, fun a => ?_, ?_⟩
  · simp only [entV, hw, Val.wbOf, hV.fromBal]
  · simp only [pendV, hw, hV.fee_none, Nat.add_zero]

theorem createBucketNft_ent (hV : V.Ok) {user : Nat} {nft : Nft} {id : Nat}
    (h : createBucketNft m user nft id = .ok (m', out)) :
    out = [] ∧ EntDep V m m' user (V.inN nft) := by
  obtain ⟨rfl, hw⟩ := createBucketNft_ws h
  refine ⟨rfl, fun a => ?_, ?_⟩
  · simp only [entV, hw, Val.wbOf, hV.fromNft]
  · simp only [pendV, hw, hV.fee_none, Nat.add_zero]

theorem createListing_ent (hV : V.Ok) (hI : IdsInv m) {user : Nat} {funds : Funds} {c : CreateMsg}
    {id : Nat} (h : createListing m user funds c id = .ok (m', out)) :
    out = [] ∧ EntDep V m m' user (V.inF funds) := by
  obtain ⟨wh, ask, rfl, hw⟩ := createListing_ws hI h
  refine ⟨rfl, fun a => ?_, ?_⟩
  · simp only [entV, hw, Val.wlOf, newListing, hV.fromBal]
  · simp only [pendV, hw, newListing, hV.fee_none, Nat.add_zero]

theorem createListingNft_ent (hV : V.Ok) (hI : IdsInv m) {user : Nat} {nft : Nft} {c : CreateMsg}
    {id : Nat} (h : createListingNft m user nft c id = .ok (m', out)) :
    out = [] ∧ EntDep V m m' user (V.inN nft) := by
  obtain ⟨wh, ask, rfl, hw⟩ := createListingNft_ws hI h
  refine ⟨rfl, fun a => ?_, ?_⟩
  · simp only [entV, hw, Val.wlOf, newListing, hV.fromNft]
  · simp only [pendV, hw, newListing, hV.fee_none, Nat.add_zero]

theorem addToBucket_ent (hV : V.Ok) (hI : IdsInv m) {funds : Funds} {sender id : Nat}
    (h : addToBucket m funds sender id = .ok (m', out)) :
    out = [] ∧ EntDep V m m' sender (V.inF funds) := by
  obtain ⟨b, nf, hb, hnf, rfl, hw⟩ := addToBucket_ws hI h
  have ho : sender = b.owner := hI.bfiled _ (alookup_some_mem hb)
  refine ⟨rfl, fun a => ?_, ?_⟩
  · have := hw (V.wlOf a) (V.wbOf a)
    simp only [Val.wbOf, hV.add hnf, ← ho] at this
    unfold entV
    split <;> simp_all <;> omega
  · have := hw (fun l => V.fee l.fee) (fun b => V.fee b.fee)
    try dsimp only at this
    unfold pendV; omega

theorem addToBucketNft_ent (hV : V.Ok) (hI : IdsInv m) {user : Nat} {nft : Nft} {id : Nat}
    (h : addToBucketNft m user nft id = .ok (m', out)) :
    out = [] ∧ EntDep V m m' user (V.inN nft) := by
  obtain ⟨b, hb, rfl, hw⟩ := addToBucketNft_ws hI h
  have ho : user = b.owner := hI.bfiled _ (alookup_some_mem hb)
  refine ⟨rfl, fun a => ?_, ?_⟩
  · have := hw (V.wlOf a) (V.wbOf a)
    simp only [Val.wbOf, hV.addNft, ← ho] at this
    unfold entV
    split <;> simp_all <;> omega
  · have := hw (fun l => V.fee l.fee) (fun b => V.fee b.fee)
    try dsimp only at this
    unfold pendV; omega

theorem lfiled_creator (hI : IdsInv m) {u id : Nat} {l : Listing}
    (h : alookup (u, id) m.listings = some l) : u = l.creator := by
  have := hI.lfiled _ (alookup_some_mem h)
  simp only [Prod.mk.injEq] at this
  exact this.1

theorem addToListing_ent (hV : V.Ok) (hI : IdsInv m) {funds : Funds} {user id : Nat}
    (h : addToListing m funds user id = .ok (m', out)) :
    out = [] ∧ EntDep V m m' user (V.inF funds) := by
  obtain ⟨l, nf, hl, hnf, rfl, hw⟩ := addToListing_ws hI h
  have ho : user = l.creator := lfiled_creator hI hl
  refine ⟨rfl, fun a => ?_, ?_⟩
  · have := hw (V.wlOf a) (V.wbOf a)
    simp only [Val.wlOf, hV.add hnf, ← ho] at this
    unfold entV
    split <;> simp_all <;> omega
  · have := hw (fun l => V.fee l.fee) (fun b => V.fee b.fee)
    try dsimp only at this
    unfold pendV; omega

theorem addToListingNft_ent (hV : V.Ok) (hI : IdsInv m) {user : Nat} {nft : Nft} {id : Nat}
    (h : addToListingNft m user nft id = .ok (m', out)) :
    out = [] ∧ EntDep V m m' user (V.inN nft) := by
  obtain ⟨l, hl, rfl, hw⟩ := addToListingNft_ws hI h
  have ho : user = l.creator := lfiled_creator hI hl
  refine ⟨rfl, fun a => ?_, ?_⟩
  · have := hw (V.wlOf a) (V.wbOf a)
    simp only [Val.wlOf, hV.addNft, ← ho] at this
    unfold entV
    split <;> simp_all <;> omega
  · have := hw (fun l => V.fee l.fee) (fun b => V.fee b.fee)
    try dsimp only at this
    unfold pendV; omega

theorem receive_ent (hV : V.Ok) (hI : IdsInv m) {caller : Nat} {funds : List Coin}
    {sender : RawAddr} {amount : Nat} {inner : Option Inner}
    (h : receive m env caller funds sender amount inner = .ok (m', out)) :
    out = [] ∧ EntDep V m m' (actor (.receive sender amount inner) caller)
      (V.inF (.cw20 ⟨caller, amount⟩)) := by
  unfold receive at h
  obtain ⟨_, h⟩ := ite_err_ok h
  obtain ⟨_, h⟩ := ite_err_ok h
  split at h
  · cases h
  split at h
  · cases h
  rename_i user hu
  have hs : sender = .valid user := by
    cases sender with
    | valid a => simp only [rawValid, Option.some.injEq] at hu; rw [hu]
    | invalid => cases hu
  rw [hs]
  dsimp only at h
  show out = [] ∧ EntDep V m m' user _
  split at h
  · exact createListing_ent hV hI h
  · exact addToListing_ent hV hI h
  · exact createBucket_ent hV h
  · exact addToBucket_ent hV hI h

theorem receiveNft_ent (hV : V.Ok) (hI : IdsInv m) {caller : Nat} {funds : List Coin}
    {sender : RawAddr} {tid : Nat} {inner : Option Inner}
    (h : receiveNft m env caller funds sender tid inner = .ok (m', out)) :
    out = [] ∧ EntDep V m m' (actor (.receiveNft sender tid inner) caller) (V.inN ⟨caller, tid⟩) := by
  unfold receiveNft at h
  obtain ⟨_, h⟩ := ite_err_ok h
  obtain ⟨_, h⟩ := ite_err_ok h
  split at h
  · cases h
  split at h
  · cases h
  rename_i user hu
  have hs : sender = .valid user := by
    cases sender with
    | valid a => simp only [rawValid, Option.some.injEq] at hu; rw [hu]
    | invalid => cases hu
  rw [hs]
  dsimp only at h
  show out = [] ∧ EntDep V m m' user _
  split at h
  · exact createListingNft_ent hV hI h
  · exact addToListingNft_ent hV hI h
  · exact createBucketNft_ent hV h
  · exact addToBucketNft_ent hV hI h

/-- every accepted deposit message: the actor's entitlement grows by what the message brings in -/
theorem execute_dep_ent (hV : V.Ok) (hI : IdsInv m) {sender : Nat} {funds : List Coin} {msg : ExecMsg}
    (hk : msg.takesCoins = true) (h : execute m env sender funds msg = .ok (m', out)) :
    out = [] ∧ EntDep V m m' (actor msg sender) (V.inMsg sender funds msg) := by
  unfold execute at h
  obtain ⟨_, h⟩ := ite_err_ok h
  cases msg with
  | createListing id c => exact createListing_ent hV hI h
  | addToListing id => exact addToListing_ent hV hI h
  | createBucket id => exact createBucket_ent hV h
  | addToBucket id => exact addToBucket_ent hV hI h
  | receive s a i => exact receive_ent hV hI h
  | receiveNft s t i => exact receiveNft_ent hV hI h
  | _ => cases hk

/-! ### neutral messages -/

theorem changeAsk_ent (hI : IdsInv m) {user id : Nat} {newAsk : RawGBal}
    (h : changeAsk m user id newAsk = .ok (m', out)) : out = [] ∧ EntSame V m m' := by
  obtain ⟨l, ask, _, rfl, hw⟩ := changeAsk_ws hI h
  refine ⟨rfl, fun a => ?_, ?_⟩
  · have := hw (V.wlOf a) (V.wbOf a)
    simp only [Val.wlOf] at this
    unfold entV; omega
  · have := hw (fun l => V.fee l.fee) (fun b => V.fee b.fee)
    try dsimp only at this
    unfold pendV; omega

theorem finalize_ent (hI : IdsInv m) {sender id seconds : Nat}
    (h : finalize m env sender id seconds = .ok (m', out)) : out = [] ∧ EntSame V m m' := by
  obtain ⟨l, fa, ea, _, rfl, hw⟩ := finalize_ws hI h
  refine ⟨rfl, fun a => ?_, ?_⟩
  · have := hw (V.wlOf a) (V.wbOf a)
    simp only [Val.wlOf] at this
    unfold entV; omega
  · have := hw (fun l => V.fee l.fee) (fun b => V.fee b.fee)
    try dsimp only at this
    unfold pendV; omega

theorem cycleFee_ent (h : cycleFee m env = .ok (m', out)) : out = [] ∧ EntSame V m m' := by
  obtain ⟨rfl, hw⟩ := cycleFee_ws h
  exact ⟨rfl, fun a => hw _ _, hw _ _⟩

/-! ### withdrawals -/

theorem withdrawBucket_ent (hI : IdsInv m) {user id : Nat}
    (h : withdrawBucket m env user id = .ok (m', out)) :
    ∃ b, alookup (user, id) m.buckets = some b ∧ b.owner = user ∧
      out = withdrawMsgs env.self user b.funds b.fee ∧ ∀ V : Val, EntWd V m m' user b.funds b.fee := by
  obtain ⟨b, hb, ho, rfl, hw⟩ := withdrawBucket_ws hI h
  refine ⟨b, hb, ho, by rw [ho], fun V => ⟨fun a => ?_, ?_⟩⟩
  · have := hw (V.wlOf a) (V.wbOf a)
    simp only [Val.wbOf, ho] at this
    unfold entV; omega
  · have := hw (fun l => V.fee l.fee) (fun b => V.fee b.fee)
    try dsimp only at this
    unfold pendV; omega

theorem deleteListing_ent {j u : Nat} (hI : IdsInv m) (hW : WFInv j u m) {sender id : Nat}
    (h : deleteListing m env sender id = .ok (m', out)) :
    ∃ l, alookup (sender, id) m.listings = some l ∧ l.creator = sender ∧ l.claimant = none ∧
      l.fee = none ∧ out = withdrawMsgs env.self sender l.forSale l.fee ∧
      ∀ V : Val, V.fee none = 0 → EntWd V m m' sender l.forSale l.fee := by
  obtain ⟨l, hl, ho, hc, rfl, hw⟩ := deleteListing_ws hI h
  have hfee := wfListing_noClaimant_fee (hW.listing hl) (by rw [hc]; rfl)
  refine ⟨l, hl, ho.symm, hc, hfee, ?_, fun V hV => ⟨fun a => ?_, ?_⟩⟩
  · rw [hfee, withdrawMsgs_eq, ← ho]; simp [feeMsg]
  · have := hw (V.wlOf a) (V.wbOf a)
    simp only [Val.wlOf, ← ho] at this
    unfold entV; omega
  · have := hw (fun l => V.fee l.fee) (fun b => V.fee b.fee)
    rw [hfee] at this ⊢
    unfold pendV; omega

theorem withdrawPurchased_ent {j u : Nat} (hI : IdsInv m) (hW : WFInv j u m) {who lid : Nat}
    (h : withdrawPurchased m env who lid = .ok (m', out)) :
    ∃ l, alookup (who, lid) m.listings = some l ∧ l.creator = who ∧ l.claimant = some who ∧
      l.status = .closed ∧ out = withdrawMsgs env.self who l.forSale l.fee ∧
      ∀ V : Val, EntWd V m m' who l.forSale l.fee := by
  obtain ⟨k, l, hl, hc, hst, rfl, hw⟩ := withdrawPurchased_ws hI hW h
  obtain ⟨_, hlk, _⟩ := hI.findById_lookup hl
  have hcl := wfListing_closed_claimant (hW.listing hlk) hst
  have hcr : who = l.creator := by rw [hc] at hcl; exact Option.some.inj hcl
  refine ⟨l, by rw [hcr]; exact hlk, hcr.symm, hc, hst, rfl, fun V => ⟨fun a => ?_, ?_⟩⟩
  · have := hw (V.wlOf a) (V.wbOf a)
    simp only [Val.wlOf, ← hcr] at this
    unfold entV; omega
  · have := hw (fun l => V.fee l.fee) (fun b => V.fee b.fee)
    try dsimp only at this
    unfold pendV; omega

/-! ### the purchase -/

/-- royalties never touch NFTs -/
theorem sideRoyalties_nfts {ra : Nat} {cols : List Nat} {g g' : GBal} {ms : List OutMsg} {s : Nat}
    (h : sideRoyalties env ra cols g = .ok g' ms s) : g'.nfts = g.nfts := by
  unfold sideRoyalties at h
  split at h
  · injection h with h1 h2 h3
    rw [← h1]
  · split at h
    · cases h
    · exact (royalties_outBy_zero (f := fun _ => 0) (fun _ _ _ => rfl) (fun _ _ _ => rfl) h).1

/-- everything an accepted purchase does to entitlements, in every valuation: the traded records
    `l`, `b`, the re-filed ones (goods `fl` with fee `lfee` under the buyer, payment `fb` with fee
    `bfee` under the seller), the royalty messages charged to the payment (`msgs1`) and to the goods
    (`msgs2`) -/
theorem buy_ent {j u : Nat} (hI : IdsInv m) (hW : WFInv j u m) {buyer lid bid : Nat}
    (h : buy m env buyer lid bid = .ok (m', out)) :
    ∃ l b fl fb lfee bfee msgs1 msgs2,
      alookup (l.creator, lid) m.listings = some l ∧ alookup (buyer, bid) m.buckets = some b ∧
      b.owner = buyer ∧ l.status = .finalized ∧ l.fee = none ∧
      fl.nfts = l.forSale.nfts ∧ fb.nfts = b.funds.nfts ∧
      alookup (buyer, lid) m'.listings =
        some { l with creator := buyer, claimant := some buyer, status := .closed, fee := lfee,
                      forSale := fl } ∧
      alookup (l.creator, bid) m'.buckets = some ⟨l.creator, fb, bfee⟩ ∧
      out = feeMsg env.self b.fee ++ msgs1 ++ msgs2 ∧
      ∀ V : Val, V.Ok →
        V.bal fl + V.fee lfee + paid V msgs2 = V.bal l.forSale ∧
        V.bal fb + V.fee bfee + paid V msgs1 = V.bal b.funds ∧
        (∀ a, entV V m' a + (if a = l.creator then V.bal l.forSale else 0) +
              (if a = buyer then V.bal b.funds else 0) =
            entV V m a + (if a = buyer then V.bal fl else 0) +
              (if a = l.creator then V.bal fb else 0)) ∧
        pendV V m' + V.fee b.fee = pendV V m + V.fee lfee + V.fee bfee := by
  obtain ⟨k, l, b, lfee, lbal, bfee, bbal, ra, fb, msgs1, s1, fl, msgs2, s2, hb, hl, hbo, hs, e1, e2, _,
    hr1, hr2, hm', hout⟩ := buy_ok_inv h
  obtain ⟨_, hlk, huniq⟩ := hI.findById_lookup hl
  have hfee := wfListing_finalized_fee (hW.listing hlk) hs
  have a1 := fun wl : Listing → Nat => asum_move wl (k' := (buyer, lid))
    { l with creator := buyer, claimant := some buyer, status := .closed, fee := lfee, forSale := fl }
    hI.lkeys hlk (huniq buyer)
  have a2 := fun wb : Bucket → Nat => asum_move wb (k' := (l.creator, bid)) ⟨l.creator, fb, bfee⟩
    hI.bkeys hb (hI.bucket_unique hb l.creator)
  have n1 := (C17_fee_conserve (wfListing_nodup (hW.listing hlk)) e1).2.2
  have n2 := (C17_fee_conserve (wfBucket_nodup (hW.bucket hb)) e2).2.2
  refine ⟨l, b, fl, fb, lfee, bfee, msgs1, msgs2, hlk, hb, hbo.symm, hs, hfee,
    (sideRoyalties_nfts hr2).trans n1, (sideRoyalties_nfts hr1).trans n2, ?_, ?_, hout, ?_⟩
  · rw [hm']; exact alookup_ainsert_self _ _ _
  · rw [hm']; exact alookup_ainsert_self _ _ _
  · intro V hV
    have c1 := hV.feeSplit (wfListing_nodup (hW.listing hlk)) e1
    have c2 := hV.feeSplit (wfBucket_nodup (hW.bucket hb)) e2
    have r1 := hV.sideRoy hr1
    have r2 := hV.sideRoy hr2
    refine ⟨by omega, by omega, fun a => ?_, ?_⟩
    · have h1 := a1 (V.wlOf a)
      have h2 := a2 (V.wbOf a)
      subst hm'
      simp only [Val.wlOf, Val.wbOf, ← hbo] at h1 h2
      simp only [entV, wsum]
      omega
    · have h1 := a1 (fun l => V.fee l.fee)
      have h2 := a2 (fun b => V.fee b.fee)
      subst hm'
      simp only [hfee, hV.fee_none] at h1 h2
      simp only [pendV, wsum]
      omega

/-! ### Σ over accounts -/

theorem sum_map_add_nat {α : Type} (L : List α) (f g : α → Nat) :
    (L.map (fun a => f a + g a)).sum = (L.map f).sum + (L.map g).sum := by
  induction L with
  | nil => rfl
  | cons x L ih => simp only [List.map_cons, List.sum_cons, ih]; omega

theorem sum_map_ite_absent (L : List Nat) {c : Nat} (hc : c ∉ L) (x : Nat) :
    (L.map (fun a => if a = c then x else 0)).sum = 0 := by
  induction L with
  | nil => rfl
  | cons y L ih =>
    simp only [List.mem_cons, not_or] at hc
    simp only [List.map_cons, List.sum_cons, ih hc.2, if_neg (Ne.symm hc.1)]

/-- a nodup list of accounts containing `c`: exactly one summand is `x` -/
theorem sum_map_ite_mem {L : List Nat} (hn : L.Nodup) {c : Nat} (hc : c ∈ L) (x : Nat) :
    (L.map (fun a => if a = c then x else 0)).sum = x := by
  induction L with
  | nil => cases hc
  | cons y L ih =>
    simp only [List.nodup_cons] at hn
    simp only [List.map_cons, List.sum_cons]
    by_cases hy : y = c
    · subst hy
      rw [if_pos rfl, sum_map_ite_absent L hn.1]; rfl
    · rw [if_neg hy, ih hn.2 (by simpa [Ne.symm hy] using hc)]; omega

/-- summing the owner-indexed weights over a nodup list of accounts that contains every owner
    gives the plain sum -/
theorem sum_asum_owner {ν : Type} (own val : ν → Nat) {L : List Nat} (hn : L.Nodup)
    (l : List ((Nat × Nat) × ν)) (hall : ∀ p ∈ l, own p.2 ∈ L) :
    (L.map (fun a => asum (fun v => if a = own v then val v else 0) l)).sum = asum val l := by
  induction l with
  | nil =>
    show (L.map (fun _ => 0)).sum = 0
    induction L with
    | nil => rfl
    | cons y L ih => simp only [List.nodup_cons] at hn; simp [ih hn.2]
  | cons p l ih =>
    simp only [asum_cons]
    rw [sum_map_add_nat, ih (fun q hq => hall q (List.mem_cons_of_mem _ hq)),
      sum_map_ite_mem hn (hall p List.mem_cons_self)]

/-- everything the records promise = Σ over accounts of their entitlements + pending fees -/
theorem owed_eq_ent (V : Val) (m : Market) {L : List Nat} (hn : L.Nodup)
    (hl : ∀ p ∈ m.listings, p.2.creator ∈ L) (hb : ∀ p ∈ m.buckets, p.2.owner ∈ L) :
    owed V m = (L.map (entV V m)).sum + pendV V m := by
  have e1 := sum_asum_owner (fun l : Listing => l.creator) (fun l => V.bal l.forSale) hn m.listings hl
  have e2 := sum_asum_owner (fun b : Bucket => b.owner) (fun b => V.bal b.funds) hn m.buckets hb
  have e3 : (L.map (entV V m)).sum =
      (L.map (fun a => asum (fun v : Listing => if a = v.creator then V.bal v.forSale else 0) m.listings)).sum +
      (L.map (fun a => asum (fun v : Bucket => if a = v.owner then V.bal v.funds else 0) m.buckets)).sum :=
    sum_map_add_nat L _ _
  rw [e3, e1, e2]
  have h1 : asum V.wl m.listings =
      asum (fun l => V.bal l.forSale) m.listings + asum (fun l => V.fee l.fee) m.listings :=
    asum_add _ _ _
  have h2 : asum V.wb m.buckets =
      asum (fun b => V.bal b.funds) m.buckets + asum (fun b => V.fee b.fee) m.buckets :=
    asum_add _ _ _
  simp only [owed, pendV, wsum]
  omega

end Fuzion
