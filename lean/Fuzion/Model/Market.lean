/-
  Fuzion.Model.Market — the marketplace contract: one function per handler of execute.rs /
  contract.rs, written as `if … then .error guard else …` chains (no `do`), so that each proof
  can `split` on exactly the tests the Rust performs.  Only ok/err is compared with the
  implementation, so the order of a handler's tests is free.
-/
import Fuzion.Model.Balance
namespace Fuzion

/-- What a handler can see of its environment. -/
structure Env where
  self : Nat
  nowNs : Nat
  junoD : Nat
  usdcD : Nat
  regAddr : Nat                           -- where the real registry lives
  isToken20 : Nat → Bool                  -- answers `Cw20QueryMsg::TokenInfo`
  isContract : Nat → Bool                 -- `query_wasm_contract_info` succeeds
  regLookup : Nat → Option RoyaltyInfo    -- the registry's `RoyaltyInfoMulti`, per collection

abbrev HRes := Except Err (Market × List OutMsg)

structure CreateMsg where
  ask : RawGBal
  whitelist : Option RawAddr
deriving DecidableEq, Repr, Inhabited

/-- `ReceiveMsg` / `ReceiveNftMsg` (same four shapes) -/
inductive Inner
  | createListing (id : Nat) (c : CreateMsg)
  | addToListing (id : Nat)
  | createBucket (id : Nat)
  | addToBucket (id : Nat)
deriving DecidableEq, Repr, Inhabited

/-- `ExecuteMsg`. In `receive`/`receiveNft`, `inner = none` is a payload that does not parse. -/
inductive ExecMsg
  | feeCycle
  | createListing (id : Nat) (c : CreateMsg)
  | addToListing (id : Nat)
  | changeAsk (id : Nat) (ask : RawGBal)
  | finalize (id : Nat) (seconds : Nat)
  | deleteListing (id : Nat)
  | createBucket (id : Nat)
  | addToBucket (id : Nat)
  | removeBucket (id : Nat)
  | buy (lid bid : Nat)
  | withdrawPurchased (lid : Nat)
  | receive (sender : RawAddr) (amount : Nat) (inner : Option Inner)
  | receiveNft (sender : RawAddr) (tid : Nat) (inner : Option Inner)
deriving DecidableEq, Repr, Inhabited

def feeDenomOf (env : Env) : FeeKind → Nat
  | .juno => env.junoD
  | .usdc => env.usdcD

/-- `listingz().idx.id.item(id)`: the record whose `id` field is `id`. -/
def findById (id : Nat) (l : List ((Nat × Nat) × Listing)) : Option ((Nat × Nat) × Listing) :=
  l.find? (fun p => decide (p.2.id = id))

/-- whitelist handling shared by the two listing creations: `Err` if the string does not
    validate or names the creator. -/
def checkWhitelist (user : Nat) : Option RawAddr → Option (Option Nat)
  | none => some none
  | some .invalid => none
  | some (.valid a) => if a = user then none else some (some a)

/-! ### buckets -/

/-- `execute_create_bucket` -/
def createBucket (m : Market) (funds : Funds) (creator id : Nat) : HRes :=
  if id ≥ MAX_SAFE_INT then .error .badId
  else if id ∈ m.bucketUsed then .error .idUsed
  else if (alookup (creator, id) m.buckets).isSome then .error .idUsed
  else if !normalizedCheck funds then .error .badFunds
  else .ok ({ m with buckets := ainsert (creator, id) ⟨creator, fromBalance funds, none⟩ m.buckets,
                     bucketUsed := id :: m.bucketUsed }, [])

/-- `execute_create_bucket_cw721` -/
def createBucketNft (m : Market) (user : Nat) (nft : Nft) (id : Nat) : HRes :=
  if id ≥ MAX_SAFE_INT then .error .badId
  else if id ∈ m.bucketUsed then .error .idUsed
  else if (alookup (user, id) m.buckets).isSome then .error .idUsed
  else .ok ({ m with buckets := ainsert (user, id) ⟨user, fromNft nft, none⟩ m.buckets,
                     bucketUsed := id :: m.bucketUsed }, [])

/-- `execute_add_to_bucket` -/
def addToBucket (m : Market) (funds : Funds) (sender id : Nat) : HRes :=
  if !normalizedCheck funds then .error .badFunds else
  match alookup (sender, id) m.buckets with
  | none => .error .notFound
  | some b =>
    if sender ≠ b.owner then .error .notOwner else
    match addTokens b.funds funds with
    | none => .error .panic
    | some nf =>
      if genbalCmp b.funds nf then .error .nothingAdded
      else if !checkValid nf then .error .invalid
      else .ok ({ m with buckets := ainsert (sender, id) { b with funds := nf } m.buckets }, [])

/-- `execute_add_to_bucket_cw721` -/
def addToBucketNft (m : Market) (user : Nat) (nft : Nft) (id : Nat) : HRes :=
  match alookup (user, id) m.buckets with
  | none => .error .notFound
  | some b =>
    if user ≠ b.owner then .error .notOwner else
    let nf := addNft b.funds nft
    if genbalCmp b.funds nf then .error .nothingAdded
    else if !checkValid nf then .error .invalid
    else .ok ({ m with buckets := ainsert (user, id) { b with funds := nf } m.buckets }, [])

/-- `execute_withdraw_bucket` -/
def withdrawBucket (m : Market) (env : Env) (user id : Nat) : HRes :=
  match alookup (user, id) m.buckets with
  | none => .error .notFound
  | some b =>
    if b.owner ≠ user then .error .notOwner
    else .ok ({ m with buckets := aerase (user, id) m.buckets },
              withdrawMsgs env.self b.owner b.funds b.fee)

/-! ### listings -/

def newListing (user id : Nat) (wl : Option Nat) (forSale ask : GBal) : Listing :=
  { creator := user, id := id, finalizedAt := none, expiresAt := none, status := .preparing,
    claimant := none, whitelist := wl, forSale := forSale, ask := ask, fee := none }

/-- `execute_create_listing` -/
def createListing (m : Market) (user : Nat) (funds : Funds) (c : CreateMsg) (id : Nat) : HRes :=
  if id ≥ MAX_SAFE_INT then .error .badId
  else if !normalizedCheck funds then .error .badFunds
  else if id ∈ m.listingUsed then .error .idUsed
  else if (findById id m.listings).isSome then .error .idUsed
  else
    match checkWhitelist user c.whitelist with
    | none => .error .badWhitelist
    | some wl =>
      match validateAsk c.ask with
      | none => .error .badAsk
      | some ask =>
        .ok ({ m with listings := ainsert (user, id) (newListing user id wl (fromBalance funds) ask) m.listings,
                      listingUsed := id :: m.listingUsed }, [])

/-- `execute_create_listing_cw721` -/
def createListingNft (m : Market) (user : Nat) (nft : Nft) (c : CreateMsg) (id : Nat) : HRes :=
  if id ≥ MAX_SAFE_INT then .error .badId
  else if id ∈ m.listingUsed then .error .idUsed
  else if (findById id m.listings).isSome then .error .idUsed
  else
    match checkWhitelist user c.whitelist with
    | none => .error .badWhitelist
    | some wl =>
      match validateAsk c.ask with
      | none => .error .badAsk
      | some ask =>
        .ok ({ m with listings := ainsert (user, id) (newListing user id wl (fromNft nft) ask) m.listings,
                      listingUsed := id :: m.listingUsed }, [])

/-- `execute_change_ask` -/
def changeAsk (m : Market) (user id : Nat) (newAsk : RawGBal) : HRes :=
  match alookup (user, id) m.listings with
  | none => .error .notFound
  | some l =>
    if user ≠ l.creator then .error .notOwner
    else if l.finalizedAt.isSome then .error .notPreparing
    else if l.status ≠ .preparing then .error .notPreparing
    else if l.claimant.isSome then .error .hasClaimant
    else
      match validateAsk newAsk with
      | none => .error .badAsk
      | some ask => .ok ({ m with listings := ainsert (user, id) { l with ask := ask } m.listings }, [])

/-- `execute_add_to_listing` (only the 25 cap is tested afterwards) -/
def addToListing (m : Market) (funds : Funds) (user id : Nat) : HRes :=
  if !normalizedCheck funds then .error .badFunds else
  match alookup (user, id) m.listings with
  | none => .error .notFound
  | some l =>
    if user ≠ l.creator then .error .notOwner
    else if l.status ≠ .preparing then .error .notPreparing
    else if l.claimant.isSome then .error .hasClaimant
    else
      match addTokens l.forSale funds with
      | none => .error .panic
      | some nf =>
        if genbalCmp l.forSale nf then .error .nothingAdded
        else if nf.count > MAX_ASSETS then .error .tooMany
        else .ok ({ m with listings := ainsert (user, id) { l with forSale := nf } m.listings }, [])

/-- `execute_add_to_listing_cw721` -/
def addToListingNft (m : Market) (user : Nat) (nft : Nft) (id : Nat) : HRes :=
  match alookup (user, id) m.listings with
  | none => .error .notFound
  | some l =>
    if user ≠ l.creator then .error .notOwner
    else if l.status ≠ .preparing then .error .notPreparing
    else if l.claimant.isSome then .error .hasClaimant
    else
      let nf := addNft l.forSale nft
      if genbalCmp l.forSale nf then .error .nothingAdded
      else if !checkValid nf then .error .invalid
      else .ok ({ m with listings := ainsert (user, id) { l with forSale := nf } m.listings }, [])

/-- `execute_finalize` -/
def finalize (m : Market) (env : Env) (sender id seconds : Nat) : HRes :=
  match alookup (sender, id) m.listings with
  | none => .error .notFound
  | some l =>
    if sender ≠ l.creator then .error .notOwner
    else if l.finalizedAt.isSome then .error .notPreparing
    else if l.status ≠ .preparing then .error .notPreparing
    else if l.claimant.isSome then .error .hasClaimant
    else if seconds < MIN_LIFE ∨ seconds > TWO_WEEKS then .error .badLifetime
    else
      let l' : Listing := { l with finalizedAt := some env.nowNs,
                                   expiresAt := some (env.nowNs + seconds * NS),
                                   status := .finalized }
      .ok ({ m with listings := ainsert (sender, id) l' m.listings }, [])

/-- `execute_delete_listing` -/
def deleteListing (m : Market) (env : Env) (sender id : Nat) : HRes :=
  match alookup (sender, id) m.listings with
  | none => .error .notFound
  | some l =>
    if sender ≠ l.creator then .error .notOwner
    else if l.claimant.isSome then .error .hasClaimant
    else if (match l.expiresAt with | some e => decide (env.nowNs < e) | none => false) then .error .notExpired
    else .ok ({ m with listings := aerase (sender, id) m.listings }, sendTokens l.creator l.forSale)

/-! ### purchasing -/

/-- distinct collections of a side (`BTreeSet` of the contract addresses) -/
def collections (g : GBal) : List Nat := (g.nfts.map (·.coll)).eraseDups

/-- royalties of one side: the registry is only queried for a non-empty collection set -/
def sideRoyalties (env : Env) (ra : Nat) (cols : List Nat) (bal : GBal) : RoyRes :=
  if cols.isEmpty then .ok bal [] 0
  else if ra ≠ env.regAddr then .err
  else royalties bal (cols.map env.regLookup)

/-- `execute_buy_listing` (with the repair of D1: a pending fee on the paying bucket is paid out
    by this response). -/
def buy (m : Market) (env : Env) (buyer lid bid : Nat) : HRes :=
  match alookup (buyer, bid) m.buckets with
  | none => .error .noBucket
  | some b =>
  match findById lid m.listings with
  | none => .error .notFound
  | some (_, l) =>
  if buyer ≠ b.owner then .error .notOwner
  else if !genbalCmp b.funds l.ask then .error .askMismatch
  else if l.status ≠ .finalized then .error .notPurchasable
  else if !(match l.whitelist with | none => true | some w => decide (w = buyer)) then .error .notWhitelisted
  else if l.claimant.isSome then .error .notPurchasable
  else if (match l.expiresAt with | some e => decide (env.nowNs > e) | none => false) then .error .expired
  else
  match calcFeeCoin (feeDenomOf env m.feeKind) l.forSale, calcFeeCoin (feeDenomOf env m.feeKind) b.funds with
  | some (lfee, lbal), some (bfee, bbal) =>
    match m.registry with
    | none => .error .noRegistry
    | some ra =>
      match sideRoyalties env ra (collections l.forSale) bbal with
      | .panic => .error .panic
      | .err => .error .royaltyOverHalf
      | .ok fb msgs1 _ =>
        match sideRoyalties env ra (collections b.funds) lbal with
        | .panic => .error .panic
        | .err => .error .royaltyOverHalf
        | .ok fl msgs2 _ =>
          let l' : Listing := { l with creator := buyer, claimant := some buyer, status := .closed,
                                       fee := lfee, forSale := fl }
          let b' : Bucket := ⟨l.creator, fb, bfee⟩
          .ok ({ m with listings := ainsert (buyer, lid) l' (aerase (l.creator, lid) m.listings),
                        buckets := ainsert (l.creator, bid) b' (aerase (buyer, bid) m.buckets) },
               (match b.fee with | some f => [OutMsg.fundPool env.self f] | none => []) ++ msgs1 ++ msgs2)
  | _, _ => .error .overflow

/-- `execute_withdraw_purchased` -/
def withdrawPurchased (m : Market) (env : Env) (who lid : Nat) : HRes :=
  match findById lid m.listings with
  | none => .error .notFound
  | some (_, l) =>
    match l.claimant with
    | none => .error .notClaimant
    | some c =>
      if who ≠ c then .error .notClaimant
      else if l.status ≠ .closed then .error .notClosed
      else .ok ({ m with listings := aerase (c, lid) m.listings },
                withdrawMsgs env.self c l.forSale l.fee)

/-! ### fee cycle, receive hooks, dispatcher -/

/-- `execute_cycle_fee` -/
def cycleFee (m : Market) (env : Env) : HRes :=
  let nowS := env.nowNs / NS
  if nowS ≤ min (m.feeSince + WEEK) U64MAX then .error .notReady
  else .ok ({ m with feeKind := (match m.feeKind with | .juno => .usdc | .usdc => .juno),
                     feeSince := nowS }, [])

def rawValid : RawAddr → Option Nat
  | .valid a => some a
  | .invalid => none

/-- `execute_receive` (CW20 hook): `caller` = `info.sender`. -/
def receive (m : Market) (env : Env) (caller : Nat) (funds : List Coin)
    (sender : RawAddr) (amount : Nat) (inner : Option Inner) : HRes :=
  if !funds.isEmpty then .error .fundsAttached
  else if !env.isToken20 caller then .error .badToken
  else
    match inner with
    | none => .error .badInner
    | some im =>
      match rawValid sender with
      | none => .error .badSender
      | some user =>
        let bal := Funds.cw20 ⟨caller, amount⟩
        match im with
        | .createListing id c => createListing m user bal c id
        | .addToListing id => addToListing m bal user id
        | .createBucket id => createBucket m bal user id
        | .addToBucket id => addToBucket m bal user id

/-- `execute_receive_nft` (CW721 hook) -/
def receiveNft (m : Market) (env : Env) (caller : Nat) (funds : List Coin)
    (sender : RawAddr) (tid : Nat) (inner : Option Inner) : HRes :=
  if !funds.isEmpty then .error .fundsAttached
  else if !env.isContract caller then .error .notContract
  else
    match inner with
    | none => .error .badInner
    | some im =>
      match rawValid sender with
      | none => .error .badSender
      | some user =>
        let nft : Nft := ⟨caller, tid⟩
        match im with
        | .createListing id c => createListingNft m user nft c id
        | .addToListing id => addToListingNft m user nft id
        | .createBucket id => createBucketNft m user nft id
        | .addToBucket id => addToBucketNft m user nft id

/-- message kinds that may carry coins (repair of D6) -/
def ExecMsg.takesCoins : ExecMsg → Bool
  | .receive .. | .receiveNft .. | .createListing .. | .addToListing .. | .createBucket ..
  | .addToBucket .. => true
  | _ => false

/-- `contract::execute` -/
def execute (m : Market) (env : Env) (sender : Nat) (funds : List Coin) (msg : ExecMsg) : HRes :=
  if !msg.takesCoins && !funds.isEmpty then .error .fundsAttached
  else
    match msg with
    | .feeCycle => cycleFee m env
    | .receive s a i => receive m env sender funds s a i
    | .receiveNft s t i => receiveNft m env sender funds s t i
    | .createListing id c => createListing m sender (.native funds) c id
    | .addToListing id => addToListing m (.native funds) sender id
    | .changeAsk id ask => changeAsk m sender id ask
    | .finalize id s => finalize m env sender id s
    | .deleteListing id => deleteListing m env sender id
    | .createBucket id => createBucket m (.native funds) sender id
    | .addToBucket id => addToBucket m (.native funds) sender id
    | .removeBucket id => withdrawBucket m env sender id
    | .buy lid bid => buy m env sender lid bid
    | .withdrawPurchased lid => withdrawPurchased m env sender lid

/-- `contract::instantiate` followed by the `reply` that stores the registry address. -/
def instantiate (nowNs : Nat) (registry : Option Nat) : Market :=
  { listings := [], buckets := [], listingUsed := [0], bucketUsed := [0],
    feeKind := .juno, feeSince := nowNs / NS, registry := registry }

/-- `contract::reply`: only id 1 is accepted. -/
def reply (m : Market) (id : Nat) (addr : RawAddr) : Except Err Market :=
  if id ≠ 1 then .error .badReply
  else match rawValid addr with
    | none => .error .badAddr
    | some a => .ok { m with registry := some a }

end Fuzion
