/-
  Fuzion.Model.Submsg — the sub-message / reply discipline of CosmWasm (wasmd `DispatchSubmessages`,
  mirrored by cw-multi-test `execute_submsg`), as a small generic model.

  MODELLED, NOT VERIFIED (it is the runtime's behaviour).  It exists to make the C15 argument
  explicit: the marketplace's handlers emit only `ReplyOn::Never` messages (checked on every
  recorded response by the driver, oracle `oSub`) and its `reply` accepts only id 1 — under this
  discipline a failing message of such a response can never be swallowed.

  A response is a list of sub-messages. Dispatching one sub-message runs it on a *cached* copy of
  the state: on success the copy is committed (and `reply` is called if asked for), on failure the
  copy is dropped and either the error propagates (`never`, `success`) or `reply` is called with the
  error (`error`, `always`), whose own result then decides.
-/
namespace Fuzion.Submsg

inductive ReplyOn
  | never
  | success
  | error
  | always
deriving DecidableEq, Repr, Inhabited

structure SubM (μ : Type) where
  msg : μ
  id : Nat
  replyOn : ReplyOn

/-- `run s m` executes a message (`none` = it fails); `replyOk s id ok` is the contract's `reply`
    entry point called with the sub-message's id and whether it succeeded (`none` = `reply` errs). -/
structure Sem (σ μ : Type) where
  run : σ → μ → Option σ
  reply : σ → Nat → Bool → Option σ

/-- one sub-message -/
def dispatchSub {σ μ : Type} (sem : Sem σ μ) (s : σ) (x : SubM μ) : Option σ :=
  match sem.run s x.msg with
  | some s' =>
    (match x.replyOn with
     | .success | .always => sem.reply s' x.id true
     | _ => some s')
  | none =>
    (match x.replyOn with
     | .error | .always => sem.reply s x.id false      -- the failure is handed to `reply` …
     | _ => none)                                       -- … or aborts the whole transaction

/-- all sub-messages of a response, in order; any propagated failure aborts everything -/
def dispatch {σ μ : Type} (sem : Sem σ μ) : σ → List (SubM μ) → Option σ
  | s, [] => some s
  | s, x :: xs =>
    match dispatchSub sem s x with
    | none => none
    | some s' => dispatch sem s' xs

end Fuzion.Submsg
