/-
  Fuzion.Model.Proto — the byte-level contract of `GetComPoolMsg::get_cp_msg` (state.rs):
  a hand-rolled protobuf `MsgFundCommunityPool { repeated Coin amount = 1; string depositor = 2 }`
  with `Coin { string denom = 1; string amount = 2 }`, encoded by `anybuf` (empty fields are
  omitted; every field is length-delimited). Bytes are naturals below 256.
-/
import Fuzion.Model.Basic
namespace Fuzion.Proto

/-- protobuf base-128 varint, least significant group first (`varint_encode`) -/
def varint (n : Nat) : List Nat :=
  if h : n < 128 then [n] else (n % 128 + 128) :: varint (n / 128)
decreasing_by omega

/-- anybuf `append_bytes(field, data)`: nothing for empty data, else tag (wire type 2), length, data -/
def field (num : Nat) (data : List Nat) : List Nat :=
  if data.isEmpty then [] else varint (num * 8 + 2) ++ varint data.length ++ data

/-- decimal digits of an amount as ASCII bytes (`Uint128::to_string`) -/
def digitsAux : Nat → Nat → List Nat → List Nat
  | 0, _, acc => acc
  | fuel + 1, n, acc =>
    if n < 10 then (48 + n) :: acc else digitsAux fuel (n / 10) ((48 + n % 10) :: acc)

def digits (n : Nat) : List Nat := digitsAux (n + 1) n []

def encodeCoin (denom amount : List Nat) : List Nat := field 1 denom ++ field 2 amount

/-- `get_cp_msg`: the `value` of the Stargate message -/
def encodeFund (denom amount depositor : List Nat) : List Nat :=
  field 1 (encodeCoin denom amount) ++ field 2 depositor

/-- read a varint; returns value and rest. Fuel = remaining length. -/
def readVarint : List Nat → Option (Nat × List Nat)
  | [] => none
  | b :: bs =>
    if b < 128 then some (b, bs)
    else
      match readVarint bs with
      | none => none
      | some (v, rest) => some ((b - 128) + 128 * v, rest)

/-- read one length-delimited field: (field number, payload, rest) -/
def readField (bs : List Nat) : Option (Nat × List Nat × List Nat) :=
  match readVarint bs with
  | none => none
  | some (tag, r1) =>
    if tag % 8 ≠ 2 then none
    else
      match readVarint r1 with
      | none => none
      | some (len, r2) =>
        if r2.length < len then none else some (tag / 8, r2.take len, r2.drop len)

/-- decode a Coin with both fields present, in order -/
def decodeCoin (bs : List Nat) : Option (List Nat × List Nat) :=
  match readField bs with
  | some (1, denom, r) =>
    match readField r with
    | some (2, amount, []) => some (denom, amount)
    | _ => none
  | _ => none

/-- decode a MsgFundCommunityPool with exactly one coin and a depositor -/
def decodeFund (bs : List Nat) : Option (List Nat × List Nat × List Nat) :=
  match readField bs with
  | some (1, coin, r) =>
    match decodeCoin coin, readField r with
    | some (denom, amount), some (2, dep, []) => some (denom, amount, dep)
    | _, _ => none
  | _ => none

/-- value of ASCII decimal digits -/
def ofDigits (ds : List Nat) : Nat := ds.foldl (fun acc d => acc * 10 + (d - 48)) 0

end Fuzion.Proto
