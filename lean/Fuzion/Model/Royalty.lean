/-
  Fuzion.Model.Royalty — the royalty registry contract (contracts/royalty/src/contract.rs).
-/
import Fuzion.Model.Basic
namespace Fuzion

abbrev Registry := List (Nat × RoyaltyInfo)

/-- `adminOf c`: `none` = `query_wasm_contract_info` fails (not a contract);
    `some none` = contract without admin; `some (some a)` = admin `a`. -/
structure RegEnv where
  height : Nat
  adminOf : Nat → Option (Option Nat)

inductive RoyMsg
  | register (nft payout : RawAddr) (bps : Nat)
  | update (nft : RawAddr) (payout : Option RawAddr) (bps : Option Nat)
  | remove (nft : RawAddr)
deriving DecidableEq, Repr, Inhabited

def bpsOk (b : Nat) : Bool := decide (MIN_BPS ≤ b) && decide (b ≤ MAX_BPS)

/-- "sender is the NFT contract's admin right now" -/
def isAdmin (env : RegEnv) (sender c : Nat) : Bool :=
  match env.adminOf c with
  | some (some a) => decide (a = sender)
  | _ => false

/-- `register_royalties` -/
def regRegister (reg : Registry) (env : RegEnv) (sender : Nat) (nft payout : RawAddr) (bps : Nat) :
    Except Err Registry :=
  if !bpsOk bps then .error .badBps else
  match payout, nft with
  | .valid p, .valid c =>
    if (env.adminOf c).isNone then .error .noSuchContract
    else if !isAdmin env sender c then .error .notAdmin
    else if (alookup c reg).isSome then .error .registered
    else .ok (ainsert c ⟨env.height, bps, p⟩ reg)
  | _, _ => .error .badAddr

/-- `saturating_add(COOLDOWN_BLOCKS) > height` -/
def coolingDown (e : RoyaltyInfo) (height : Nat) : Bool :=
  decide (min (e.lastUpdated + COOLDOWN) U64MAX > height)

/-- `update_royalties` -/
def regUpdate (reg : Registry) (env : RegEnv) (sender : Nat) (nft : RawAddr)
    (payout : Option RawAddr) (bps : Option Nat) : Except Err Registry :=
  match nft with
  | .invalid => .error .badAddr
  | .valid c =>
    if (env.adminOf c).isNone then .error .noSuchContract
    else if !isAdmin env sender c then .error .notAdmin
    else
      match alookup c reg with
      | none => .error .notRegistered
      | some e =>
        if coolingDown e env.height then .error .cooldown
        else if !(match bps with | some b => bpsOk b | none => true) then .error .badBps
        else
          match payout with
          | some .invalid => .error .badAddr
          | some (.valid p) => .ok (ainsert c ⟨env.height, bps.getD e.bps, p⟩ reg)
          | none => .ok (ainsert c ⟨env.height, bps.getD e.bps, e.payout⟩ reg)

/-- `remove_registration` -/
def regRemove (reg : Registry) (env : RegEnv) (sender : Nat) (nft : RawAddr) : Except Err Registry :=
  match nft with
  | .invalid => .error .badAddr
  | .valid c =>
    if (env.adminOf c).isNone then .error .noSuchContract
    else if !isAdmin env sender c then .error .notAdmin
    else
      match alookup c reg with
      | none => .error .notRegistered
      | some e =>
        if coolingDown e env.height then .error .cooldown
        else .ok (aerase c reg)

def regExecute (reg : Registry) (env : RegEnv) (sender : Nat) : RoyMsg → Except Err Registry
  | .register n p b => regRegister reg env sender n p b
  | .update n p b => regUpdate reg env sender n p b
  | .remove n => regRemove reg env sender n

/-- `get_single` -/
def regSingle (reg : Registry) (c : Nat) : Option RoyaltyInfo := alookup c reg

/-- `get_multi`: the empty batch is an error -/
def regMulti (reg : Registry) (cs : List Nat) : Option (List (Option RoyaltyInfo)) :=
  if cs.isEmpty then none else some (cs.map (regSingle reg))

end Fuzion
