/-
  Fuzion.Model.Chain — the part of the chain the two contracts interact with, and `step`.

  MODELLED, NOT VERIFIED: bank, honest CW20 / CW721 token contracts, wasm admin table, message
  dispatch and the all-or-nothing transaction discipline are written after cw-multi-test 0.16.5,
  cw20-base 1.0.1 and cw721-base 0.16.0 (`Send`/`Transfer`/`SendNft`/`TransferNft` by the holder;
  no allowances / approvals).  The correspondence check validates them against those crates.
-/
import Fuzion.Model.Market
import Fuzion.Model.Royalty
namespace Fuzion

structure ContractInfo where
  admin : Option Nat
  kind : Nat          -- 0 other, 1 honest cw20, 2 honest cw721, 3 hostile
  tokenInfo : Bool    -- answers Cw20QueryMsg::TokenInfo
  fails : Bool        -- hostile: rejects Transfer / TransferNft
deriving DecidableEq, Repr, Inhabited

abbrev Ledger := List ((Nat × Nat) × Nat)

structure World where
  self : Nat
  pool : Nat
  regAddr : Nat
  junoD : Nat
  usdcD : Nat
  nowNs : Nat
  height : Nat
  mkt : Market
  reg : Registry
  bank : Ledger            -- (account, denom) ↦ amount
  cw20 : Ledger            -- (token, holder) ↦ amount
  nft : Ledger             -- (collection, token id) ↦ owner
  contracts : List (Nat × ContractInfo)
deriving Repr, Inhabited

inductive Op
  | exec (sender : Nat) (funds : List Coin) (msg : ExecMsg)
  | send20 (token sender amount : Nat) (inner : Option Inner)
  | send721 (coll sender tid : Nat) (inner : Option Inner)
  | royalty (sender : Nat) (msg : RoyMsg)
  | setAdmin (sender contract : Nat) (new : Option Nat)
  | advance (dNs dH : Nat)
deriving DecidableEq, Repr, Inhabited

def World.kindOf (w : World) (a : Nat) : Option ContractInfo := alookup a w.contracts

def World.isHonest20 (w : World) (a : Nat) : Bool :=
  match w.kindOf a with | some ci => decide (ci.kind = 1) | none => false
def World.isHonest721 (w : World) (a : Nat) : Bool :=
  match w.kindOf a with | some ci => decide (ci.kind = 2) | none => false
def World.isHostile (w : World) (a : Nat) : Bool :=
  match w.kindOf a with | some ci => decide (ci.kind = 3) | none => false

def World.env (w : World) : Env :=
  { self := w.self, nowNs := w.nowNs, junoD := w.junoD, usdcD := w.usdcD, regAddr := w.regAddr,
    isToken20 := fun a => match w.kindOf a with | some ci => ci.tokenInfo | none => false,
    isContract := fun a => (w.kindOf a).isSome,
    regLookup := fun c => regSingle w.reg c }

def World.regEnv (w : World) : RegEnv :=
  { height := w.height,
    adminOf := fun c => match w.kindOf c with | some ci => some ci.admin | none => none }

/-! ### bank (cw-multi-test `BankKeeper::send` = burn then mint, zero coins filtered first) -/

def bankSub (bank : Ledger) (a : Nat) : List Coin → Option Ledger
  | [] => some bank
  | c :: cs =>
    if lget bank (a, c.key) < c.amount then none
    else bankSub (lset bank (a, c.key) (lget bank (a, c.key) - c.amount)) a cs

def bankAdd (bank : Ledger) (a : Nat) : List Coin → Ledger
  | [] => bank
  | c :: cs => bankAdd (lset bank (a, c.key) (lget bank (a, c.key) + c.amount)) a cs

def bankSend (bank : Ledger) (src dst : Nat) (coins : List Coin) : Option Ledger :=
  let cs := coins.filter (fun c => decide (c.amount ≠ 0))
  if cs.isEmpty then none
  else
    match bankSub bank src cs with
    | none => none
    | some b => some (bankAdd b dst cs)

/-- move `amt` of a ledger entry group `g` from `src` to `dst` (cw20-base `transfer`) -/
def ledgerMove (l : Ledger) (g src dst amt : Nat) : Option Ledger :=
  if lget l (g, src) < amt then none
  else
    let l1 := lset l (g, src) (lget l (g, src) - amt)
    some (lset l1 (g, dst) (lget l1 (g, dst) + amt))

/-! ### dispatch of the marketplace's outgoing messages -/

def dispatch1 (w : World) : OutMsg → Option World
  | .bankSend to coins =>
    match bankSend w.bank w.self to coins with
    | none => none
    | some b => some { w with bank := b }
  | .cw20Transfer token to amt =>
    match w.kindOf token with
    | none => none
    | some ci =>
      if ci.kind = 1 then
        (if amt = 0 then none else
          match ledgerMove w.cw20 token w.self to amt with
          | none => none
          | some l => some { w with cw20 := l })
      else if ci.kind = 3 then (if ci.fails then none else some w)
      else none
  | .nftTransfer coll tid to =>
    match w.kindOf coll with
    | none => none
    | some ci =>
      if ci.kind = 2 then
        (if alookup (coll, tid) w.nft = some w.self then some { w with nft := lset w.nft (coll, tid) to }
         else none)
      else if ci.kind = 3 then (if ci.fails then none else some w)
      else none
  | .fundPool dep coin =>
    if dep ≠ w.self then none
    else
      match bankSend w.bank w.self w.pool [coin] with
      | none => none
      | some b => some { w with bank := b }

/-- dispatch in order; `fail i` forces the `i`-th message to fail (fault injection, C15) -/
def dispatchAll (fail : Nat → Bool) (w : World) : List OutMsg → Nat → Option World
  | [], _ => some w
  | m :: ms, i =>
    if fail i then none
    else
      match dispatch1 w m with
      | none => none
      | some w' => dispatchAll fail w' ms (i + 1)

structure Outcome where
  ok : Bool
  err : Option Err
  msgs : List OutMsg
deriving Repr, Inhabited

def Outcome.fail (e : Err) : Outcome := ⟨false, some e, []⟩

/-- run the marketplace handler in world `w1` (deposit already moved) and dispatch its messages -/
def runMarket (fail : Nat → Bool) (w0 w1 : World) (caller : Nat) (funds : List Coin) (msg : ExecMsg) :
    World × Outcome :=
  match execute w1.mkt w1.env caller funds msg with
  | .error e => (w0, .fail e)
  | .ok (m', msgs) =>
    match dispatchAll fail { w1 with mkt := m' } msgs 0 with
    | none => (w0, .fail .dispatch)
    | some w2 => (w2, ⟨true, none, msgs⟩)

/-- One transaction. Any failure returns the *original* world (`w`). -/
def stepF (fail : Nat → Bool) (w : World) : Op → World × Outcome
  | .exec sender funds msg =>
    if funds.isEmpty then runMarket fail w w sender funds msg
    else
      match bankSend w.bank sender w.self funds with
      | none => (w, .fail .insufficient)
      | some b => runMarket fail w { w with bank := b } sender funds msg
  | .send20 token sender amount inner =>
    if !w.isHonest20 token then (w, .fail .badToken)
    else if amount = 0 then (w, .fail .badFunds)
    else
      match ledgerMove w.cw20 token sender w.self amount with
      | none => (w, .fail .insufficient)
      | some l => runMarket fail w { w with cw20 := l } token [] (.receive (.valid sender) amount inner)
  | .send721 coll sender tid inner =>
    if !w.isHonest721 coll then (w, .fail .badToken)
    else if alookup (coll, tid) w.nft ≠ some sender then (w, .fail .notOwner)
    else runMarket fail w { w with nft := lset w.nft (coll, tid) w.self } coll []
           (.receiveNft (.valid sender) tid inner)
  | .royalty sender msg =>
    match regExecute w.reg w.regEnv sender msg with
    | .error e => (w, .fail e)
    | .ok r => ({ w with reg := r }, ⟨true, none, []⟩)
  | .setAdmin sender c new =>
    match w.kindOf c with
    | none => (w, .fail .noSuchContract)
    | some ci =>
      if ci.admin ≠ some sender then (w, .fail .notAdmin)
      else ({ w with contracts := ainsert c { ci with admin := new } w.contracts }, ⟨true, none, []⟩)
  | .advance dNs dH => ({ w with nowNs := w.nowNs + dNs, height := w.height + dH }, ⟨true, none, []⟩)

def noFault : Nat → Bool := fun _ => false

def step (w : World) (op : Op) : World × Outcome := stepF noFault w op

def run (w : World) : List Op → World
  | [] => w
  | op :: ops => run (step w op).1 ops

end Fuzion
