/-
  Fuzion.Model.Query — the marketplace's queries (query.rs, after the repairs of D2, D3, D4).
  `none` = the query fails (address does not validate; `u64` underflow aborts).
-/
import Fuzion.Model.Market
namespace Fuzion

/-- `.skip((p - 1) * 20).take(20)` with the saturating subtraction of the repaired code -/
def pageOf {α : Type} (l : List α) (p : Nat) : List α := (l.drop ((p - 1) * 20)).take 20

/-- records of one owner in storage order (ascending id) -/
def ownerBuckets (m : Market) (o : Nat) : List (Nat × Bucket) :=
  ((m.buckets.filter (fun p => decide (p.1.1 = o))).map (fun p => (p.1.2, p.2))).mergeSort
    (fun a b => decide (a.1 ≤ b.1))

def ownerListings (m : Market) (o : Nat) : List (Nat × Listing) :=
  ((m.listings.filter (fun p => decide (p.1.1 = o))).map (fun p => (p.1.2, p.2))).mergeSort
    (fun a b => decide (a.1 ≤ b.1))

/-- `get_buckets` -/
def qBuckets (m : Market) (owner : RawAddr) (page : Nat) : Option (List (Nat × Bucket)) :=
  match rawValid owner with
  | none => none
  | some o => some (pageOf (ownerBuckets m o) page)

/-- `get_listings_by_owner` -/
def qListingsByOwner (m : Market) (owner : RawAddr) (page : Nat) : Option (List Listing) :=
  match rawValid owner with
  | none => none
  | some o => some ((pageOf (ownerListings m o) page).map (·.2))

/-- the filter shared by the whitelist and market queries: has an expiration that is not in the
    past (full nanosecond comparison, repair of D3) and is not closed -/
def listable (nowNs : Nat) (l : Listing) : Bool :=
  (match l.expiresAt with | some e => decide (e ≥ nowNs) | none => false) && decide (l.status ≠ .closed)

/-- `get_whitelisted`: index prefix = buyer, ascending id -/
def qWhitelisted (m : Market) (nowNs : Nat) (owner : RawAddr) : Option (List Listing) :=
  match rawValid owner with
  | none => none
  | some o =>
    some ((((m.listings.filter (fun p => decide (p.2.whitelist = some o))).map (·.2)).mergeSort
      (fun a b => decide (a.id ≤ b.id))).filter (listable nowNs))

def finSecs (l : Listing) : Nat := match l.finalizedAt with | some t => t / NS | none => 0

/-- order of the `finalized_date` multi-index: (second, owner key, id) -/
def marketLe (a b : (Nat × Nat) × Listing) : Bool :=
  decide (finSecs a.2 < finSecs b.2) ||
  (decide (finSecs a.2 = finSecs b.2) &&
    (decide (a.1.1 < b.1.1) || (decide (a.1.1 = b.1.1) && decide (a.1.2 ≤ b.1.2))))

/-- the index window `[now_s - 1209600, ∞)` in index order -/
def marketWindow (m : Market) (nowNs : Nat) : List Listing :=
  ((m.listings.filter (fun p => decide (finSecs p.2 ≥ nowNs / NS - TWO_WEEKS))).mergeSort marketLe).map (·.2)

/-- `get_listings_for_market`: window, then skip/take, then the filter -/
def qMarket (m : Market) (nowNs : Nat) (page : Nat) : Option (List Listing) :=
  if nowNs / NS < TWO_WEEKS then none   -- `current_time - 1_209_600` underflows
  else some ((pageOf (marketWindow m nowNs) page).filter (listable nowNs))

structure FeeResp where
  kind : FeeKind
  denom : Nat
  nextChange : Nat
deriving DecidableEq, Repr, Inhabited

/-- `get_fee_denom` (repair of D4: first second at which `FeeCycle` is accepted) -/
def qFeeDenom (m : Market) (env : Env) : FeeResp :=
  ⟨m.feeKind, feeDenomOf env m.feeKind, min (min (m.feeSince + WEEK) U64MAX + 1) U64MAX⟩

/-- `get_royalty_contract` -/
def qRoyaltyAddr (m : Market) : Option Nat := m.registry

end Fuzion
