/-
  Fuzion.Model.Balance — `GenericBalance` and the pure helpers of state.rs / utils.rs / msg.rs.
  Every function mirrors one Rust function; the Rust name is in the doc comment.
-/
import Fuzion.Model.Basic
namespace Fuzion

def keys (l : List Coin) : List Nat := l.map (·.key)

def allNonzero (l : List Coin) : Bool := l.all (fun c => decide (c.amount ≠ 0))

/-- `BalanceUtil::normalized_check` (state.rs): native — non-empty, no zero, no duplicate denom;
    cw20 — non-zero. -/
def normalizedCheck : Funds → Bool
  | .native cs => !cs.isEmpty && allNonzero cs && decide (keys cs).Nodup
  | .cw20 c => decide (c.amount ≠ 0)

/-- `GenericBalance::from_balance` -/
def fromBalance : Funds → GBal
  | .native cs => ⟨cs, [], []⟩
  | .cw20 c => ⟨[], [c], []⟩

/-- `GenericBalance::from_nft` -/
def fromNft (n : Nft) : GBal := ⟨[], [], [n]⟩

/-- One iteration of `add_tokens`: add to the first entry with the same key (the `+=` aborts on
    128-bit overflow: `none`), else push at the end. -/
def addCoin : List Coin → Coin → Option (List Coin)
  | [], c => some [c]
  | x :: xs, c =>
    if x.key = c.key then
      (if x.amount + c.amount ≤ U128MAX then some (⟨x.key, x.amount + c.amount⟩ :: xs) else none)
    else
      match addCoin xs c with
      | none => none
      | some r => some (x :: r)

def addCoins (l : List Coin) : List Coin → Option (List Coin)
  | [] => some l
  | c :: cs =>
    match addCoin l c with
    | none => none
    | some l' => addCoins l' cs

/-- `GenericBalance::add_tokens`; `none` = the Rust aborts (u128 overflow in `+=`). -/
def addTokens (g : GBal) : Funds → Option GBal
  | .native cs =>
    match addCoins g.native cs with
    | none => none
    | some n => some { g with native := n }
  | .cw20 c =>
    match addCoin g.cw20 c with
    | none => none
    | some n => some { g with cw20 := n }

/-- `GenericBalance::add_nft` -/
def addNft (g : GBal) (n : Nft) : GBal := { g with nfts := g.nfts ++ [n] }

/-- `GenericBalance::check_valid`: no zero amount, 1..25 assets, no duplicate denom / token / NFT. -/
def checkValid (g : GBal) : Bool :=
  allNonzero g.native && allNonzero g.cw20 &&
  decide (1 ≤ g.count) && decide (g.count ≤ MAX_ASSETS) &&
  decide (keys g.native).Nodup && decide (keys g.cw20).Nodup && decide g.nfts.Nodup

def validateCw20 : List (RawAddr × Nat) → Option (List Coin)
  | [] => some []
  | (.invalid, _) :: _ => none
  | (.valid a, amt) :: xs =>
    if amt = 0 then none else
    match validateCw20 xs with
    | none => none
    | some r => some (⟨a, amt⟩ :: r)

def validateNfts : List (RawAddr × Nat) → Option (List Nft)
  | [] => some []
  | (.invalid, _) :: _ => none
  | (.valid a, t) :: xs =>
    match validateNfts xs with
    | none => none
    | some r => some (⟨a, t⟩ :: r)

/-- `GenericBalanceUnvalidated::validate` (msg.rs). Its tests are: native zero, per-cw20 address
    + zero, per-NFT address, 1..25 items, three duplicate tests — i.e. address validation followed
    by exactly the conditions of `check_valid` on the validated balance. -/
def validateAsk (r : RawGBal) : Option GBal :=
  match validateCw20 r.cw20, validateNfts r.nfts with
  | some c, some n =>
    let g : GBal := ⟨r.native, c, n⟩
    if checkValid g then some g else none
  | _, _ => none

/-- one clause of `genbal_cmp`: nothing in `a` that `b` lacks, and equal length -/
def subsetLen {α : Type} [DecidableEq α] (a b : List α) : Bool :=
  a.all (fun x => decide (x ∈ b)) && decide (a.length = b.length)

/-- `genbal_cmp` (state.rs); `true` = `Ok(())` -/
def genbalCmp (a b : GBal) : Bool :=
  subsetLen a.native b.native && subsetLen a.cw20 b.cw20 && subsetLen a.nfts b.nfts

/-- `calc_fee_coin` (utils.rs), `fd` = the current fee denomination.
    `none` = `StdError` from `checked_sub` (proved unreachable). -/
def calcFeeCoin (fd : Nat) (g : GBal) : Option (Option Coin × GBal) :=
  match g.native.find? (fun c => decide (c.key = fd)) with
  | none => some (none, g)
  | some c =>
    let f := c.amount * 5 / 1000
    if f = 0 then some (none, g)
    else if c.amount < f then none
    else some (some ⟨fd, f⟩,
      { g with native := g.native.filter (fun n => decide (n.key ≠ fd)) ++ [⟨fd, c.amount - f⟩] })

/-- `checked_multiply_ratio(bps, 10000).unwrap_or(0)` -/
def royAmt (orig bps : Nat) : Nat :=
  if orig * bps / 10000 ≤ U128MAX then orig * bps / 10000 else 0

/-- inner loop of `royalties` for one asset: `cur` is the running balance, every payout is
    computed from `orig`; returns the new balance and the (payout address, amount) list.
    `none` = `checked_sub` failed. -/
def royLoop (orig : Nat) : List RoyaltyInfo → Nat → Option (Nat × List (Nat × Nat))
  | [], cur => some (cur, [])
  | r :: rs, cur =>
    if royAmt orig r.bps = 0 then royLoop orig rs cur
    else if cur < royAmt orig r.bps then none
    else
      match royLoop orig rs (cur - royAmt orig r.bps) with
      | none => none
      | some (n, ps) => some (n, (r.payout, royAmt orig r.bps) :: ps)

def royCoins (mk : Nat → Nat → Nat → OutMsg) (rs : List RoyaltyInfo) :
    List Coin → Option (List Coin × List OutMsg)
  | [] => some ([], [])
  | c :: cs =>
    match royLoop c.amount rs c.amount, royCoins mk rs cs with
    | some (n, ps), some (cs', ms) =>
      some (⟨c.key, n⟩ :: cs', ps.map (fun p => mk c.key p.1 p.2) ++ ms)
    | _, _ => none

def mkBank (d to amt : Nat) : OutMsg := .bankSend to [⟨d, amt⟩]
def mkCw20 (t to amt : Nat) : OutMsg := .cw20Transfer t to amt

inductive RoyRes
  | panic
  | err
  | ok (g : GBal) (msgs : List OutMsg) (sum : Nat)
deriving Repr, Inhabited

/-- `GenericBalance::royalties` (state.rs). The bps sum is a `u64` addition (aborts on overflow). -/
def royalties (g : GBal) (resp : List (Option RoyaltyInfo)) : RoyRes :=
  let rs := resp.filterMap id
  let s := (rs.map (·.bps)).sum
  if s > U64MAX then .panic
  else if s > 5000 then .err
  else
    match royCoins mkBank rs g.native, royCoins mkCw20 rs g.cw20 with
    | some (n, m1), some (c, m2) => .ok { g with native := n, cw20 := c } (m1 ++ m2) s
    | _, _ => .err

/-- `send_tokens_cosmos` (utils.rs) -/
def sendTokens (to : Nat) (g : GBal) : List OutMsg :=
  (if g.native.isEmpty then [] else [OutMsg.bankSend to g.native]) ++
  g.cw20.map (fun c => OutMsg.cw20Transfer c.key to c.amount) ++
  g.nfts.map (fun n => OutMsg.nftTransfer n.coll n.tid to)

/-- `Listing::withdraw_msgs` / `Bucket::withdraw_msgs`: goods to the owner, then the fee message. -/
def withdrawMsgs (self to : Nat) (g : GBal) (fee : Option Coin) : List OutMsg :=
  sendTokens to g ++ (match fee with | none => [] | some f => [OutMsg.fundPool self f])

end Fuzion
