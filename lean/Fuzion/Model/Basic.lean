/-
  Fuzion.Model.Basic — types shared by the whole model.

  Names (addresses, denominations, CW721 token ids) are natural numbers assigned by the
  harness (PROTOCOL.md §1).  Amounts are unbounded naturals; every place where the Rust
  performs a checked / panicking 128-bit or 64-bit operation is an explicit model function
  that can fail (`Option`), so "no overflow" is a theorem, not an artefact of `Nat`.

  No imports: these files are linked into the `fzmodel` executable.
-/
namespace Fuzion

/-- `Uint128::MAX` as a literal (so that `omega` sees it). -/
def U128MAX : Nat := 340282366920938463463374607431768211455
/-- `u64::MAX` -/
def U64MAX : Nat := 18446744073709551615

theorem U128MAX_eq : U128MAX = 2 ^ 128 - 1 := by decide
theorem U64MAX_eq : U64MAX = 2 ^ 64 - 1 := by decide

/-- `MAX_NUM_ASSETS` (lib.rs) -/
def MAX_ASSETS : Nat := 25
/-- `MAX_SAFE_INT` (utils.rs) -/
def MAX_SAFE_INT : Nat := 9007199254740990
/-- `WEEK_IN_SECS` (contract.rs) -/
def WEEK : Nat := 604800
/-- two weeks, the widest lifetime and the market query window -/
def TWO_WEEKS : Nat := 1209600
def MIN_LIFE : Nat := 600
def NS : Nat := 1000000000
/-- royalty registry constants (royalty/src/contract.rs) -/
def COOLDOWN : Nat := 100
def MAX_BPS : Nat := 300
def MIN_BPS : Nat := 10

/-- A native coin (`key` = denomination) or a CW20 amount (`key` = token contract address).
    The Rust has two structurally identical types (`Coin`, `Cw20CoinVerified`). -/
structure Coin where
  key : Nat
  amount : Nat
deriving DecidableEq, Repr, Inhabited

structure Nft where
  coll : Nat
  tid : Nat
deriving DecidableEq, Repr, Inhabited

/-- `GenericBalance` -/
structure GBal where
  native : List Coin
  cw20 : List Coin
  nfts : List Nft
deriving DecidableEq, Repr, Inhabited

def GBal.empty : GBal := ⟨[], [], []⟩
def GBal.count (g : GBal) : Nat := g.native.length + g.cw20.length + g.nfts.length

/-- A `String` the contract passes through `addr_validate`. -/
inductive RawAddr
  | valid (a : Nat)
  | invalid
deriving DecidableEq, Repr, Inhabited

/-- `GenericBalanceUnvalidated` -/
structure RawGBal where
  native : List Coin
  cw20 : List (RawAddr × Nat)
  nfts : List (RawAddr × Nat)
deriving DecidableEq, Repr, Inhabited

/-- `cw20::Balance` as the deposit handlers receive it -/
inductive Funds
  | native (cs : List Coin)
  | cw20 (c : Coin)
deriving DecidableEq, Repr, Inhabited

inductive Status
  | preparing
  | finalized
  | closed
deriving DecidableEq, Repr, Inhabited

inductive FeeKind
  | juno
  | usdc
deriving DecidableEq, Repr, Inhabited

structure Listing where
  creator : Nat
  id : Nat
  finalizedAt : Option Nat      -- nanoseconds
  expiresAt : Option Nat        -- nanoseconds
  status : Status
  claimant : Option Nat
  whitelist : Option Nat
  forSale : GBal
  ask : GBal
  fee : Option Coin
deriving DecidableEq, Repr, Inhabited

structure Bucket where
  owner : Nat
  funds : GBal
  fee : Option Coin
deriving DecidableEq, Repr, Inhabited

/-- `royalties::RoyaltyInfo` -/
structure RoyaltyInfo where
  lastUpdated : Nat
  bps : Nat
  payout : Nat
deriving DecidableEq, Repr, Inhabited

/-- The marketplace's storage.  `listings`/`buckets` are association lists keyed by the storage
    key `(owner, id)`; their order carries no meaning (queries sort). The secondary indexes of
    `listingz()` are functions of the primary records (checked on every dump by the harness). -/
structure Market where
  listings : List ((Nat × Nat) × Listing)
  buckets : List ((Nat × Nat) × Bucket)
  listingUsed : List Nat
  bucketUsed : List Nat
  feeKind : FeeKind
  feeSince : Nat                -- seconds
  registry : Option Nat
deriving Repr, Inhabited

/-- Messages a handler can emit (all are plain `add_message`: id 0, reply never). -/
inductive OutMsg
  | bankSend (to : Nat) (coins : List Coin)
  | cw20Transfer (token to amount : Nat)
  | nftTransfer (coll tid to : Nat)
  | fundPool (depositor : Nat) (coin : Coin)
deriving DecidableEq, Repr, Inhabited

/-- Named refusal guards. Only ok/err is compared with the implementation; the guard name is
    reported so a disagreement says which test decided on the model side. -/
inductive Err
  | badId | idUsed | badFunds | badWhitelist | badAsk | notFound | notOwner | notPreparing
  | hasClaimant | tooMany | invalid | nothingAdded | badLifetime | notExpired | noBucket
  | askMismatch | notPurchasable | notWhitelisted | expired | noRegistry | royaltyOverHalf
  | overflow | notClaimant | notClosed | notReady | fundsAttached | badToken | badInner
  | badSender | notContract | badReply | dispatch | queryFail | insufficient | badBps
  | notAdmin | registered | notRegistered | cooldown | badAddr | noSuchContract | panic
deriving DecidableEq, Repr, Inhabited

/-! ### association lists -/

def alookup {κ ν : Type} [DecidableEq κ] (k : κ) : List (κ × ν) → Option ν
  | [] => none
  | (k', v) :: xs => if k' = k then some v else alookup k xs

def aerase {κ ν : Type} [DecidableEq κ] (k : κ) (l : List (κ × ν)) : List (κ × ν) :=
  l.filter (fun p => p.1 ≠ k)

def ainsert {κ ν : Type} [DecidableEq κ] (k : κ) (v : ν) (l : List (κ × ν)) : List (κ × ν) :=
  (k, v) :: aerase k l

def akeys {κ ν : Type} (l : List (κ × ν)) : List κ := l.map (·.1)

/-- total ledgers: missing key = 0 -/
def lget {κ : Type} [DecidableEq κ] (l : List (κ × Nat)) (k : κ) : Nat := (alookup k l).getD 0
def lset {κ : Type} [DecidableEq κ] (l : List (κ × Nat)) (k : κ) (v : Nat) : List (κ × Nat) :=
  ainsert k v l

end Fuzion
