/-
  Fuzion.Props.C09 — "Listing and bucket ids are never reused".

  Property text (C09): An id that has ever been accepted for a listing (respectively a bucket) is
  rejected for every later creation by any account and through any deposit path, even after the
  original was deleted, sold or withdrawn; id 0 and ids of 9007199254740990 or more are never
  accepted.  Hence at most one listing and one bucket exist per id at any time and an id denotes
  one object for its whole history.

  The storage invariant is `IdsInv` (Fuzion/Inv/MInv.lean); its executable form, evaluated by the
  driver on every implementation state, is `checkIds`.  Helper lemmas: Fuzion/Lemmas/InvLemmas.lean
  (every accepted message changes the record tables in one of the shapes of `Shape`).  Hostile
  calls need no separate treatment: a forged hook call is an ordinary `Op.exec … (.receive …)`.
  Core library only.
-/
import Fuzion.Lemmas.InvLemmas
namespace Fuzion

/-! ## sample data for the non-vacuity examples -/

namespace C09Ex
/-- ask: 2000 of denomination 2, open to everybody -/
def ask : CreateMsg := ⟨⟨[⟨2, 2000⟩], [], []⟩, none⟩
def env : Env :=
  { self := 100, nowNs := 0, junoD := 1, usdcD := 2, regAddr := 102,
    isToken20 := fun a => a == 50, isContract := fun a => a == 60, regLookup := fun _ => none }
/-- account 7 holds 5000 of denomination 1, 900 of the honest CW20 token 50 and NFT (60, 1) -/
def w : World :=
  { self := 100, pool := 101, regAddr := 102, junoD := 1, usdcD := 2, nowNs := 0, height := 1,
    mkt := instantiate 0 (some 102), reg := [], bank := [((7, 1), 5000), ((8, 1), 5000)],
    cw20 := [((50, 7), 900)], nft := [((60, 1), 7)],
    contracts := [(50, ⟨none, 1, true, false⟩), (60, ⟨none, 2, false, false⟩)] }
def opCreate : Op := .exec 7 [⟨1, 1000⟩] (.createListing 5 ask)
def opDelete : Op := .exec 7 [] (.deleteListing 5)
/-- another account tries the same id through the plain message, the CW20 hook, the CW721 hook -/
def opAgain : Op := .exec 8 [⟨1, 10⟩] (.createListing 5 ask)
def op20 : Op := .send20 50 7 100 (some (.createListing 5 ask))
def op721 : Op := .send721 60 7 1 (some (.createListing 5 ask))
def opForged : Op := .exec 50 [] (.receive (.valid 9) 1 (some (.createListing 5 ask)))
def opBCreate : Op := .exec 7 [⟨1, 1000⟩] (.createBucket 6)
def opBRemove : Op := .exec 7 [] (.removeBucket 6)
def opB20 : Op := .send20 50 7 100 (some (.createBucket 6))
end C09Ex

/-! ## 1. the invariant -/

/-- "at most one listing and one bucket exist per id at any time" — inductive step: every
    accepted message preserves `IdsInv` (unique storage keys, every record filed under its owner
    and id, one live record per id, live ids logged, id 0 logged). -/
theorem C09_inv_execute {m m' : Market} {env : Env} {s : Nat} {f : List Coin} {msg : ExecMsg}
    {out : List OutMsg} (hi : IdsInv m) (h : execute m env s f msg = .ok (m', out)) : IdsInv m' :=
  (execute_shape h).ids hi

example : IdsInv (instantiate 0 none) ∧
    ∃ r, execute (instantiate 0 none) C09Ex.env 2 [⟨2, 2000⟩] (.createBucket 8) = .ok r :=
  ⟨IdsInv.init 0 none, _, rfl⟩

/-- every operation of the world — marketplace messages of any account (forged hook calls
    included), CW20 / CW721 sends, registry messages, admin changes, time — preserves `IdsInv`. -/
theorem C09_inv_step {w : World} (op : Op) (hi : IdsInv w.mkt) : IdsInv (step w op).1.mkt := by
  unfold step
  rcases stepF_mkt_cases noFault w op with h | ⟨c, f, msg, m', msgs, _, hx, hm, _⟩
  · rw [h]; exact hi
  · rw [hm]; exact C09_inv_execute hi hx

theorem C09_inv_run {w : World} (hi : IdsInv w.mkt) (ops : List Op) : IdsInv (run w ops).mkt := by
  induction ops generalizing w with
  | nil => exact hi
  | cons op ops ih => exact ih (C09_inv_step op hi)

/-- `IdsInv` holds in every state reachable from instantiation. -/
theorem C09_reach {w : World} {t : Nat} {r : Option Nat} (h0 : w.mkt = instantiate t r)
    (ops : List Op) : IdsInv (run w ops).mkt :=
  C09_inv_run (h0 ▸ IdsInv.init t r) ops

example : IdsInv C09Ex.w.mkt := IdsInv.init 0 (some 102)
example : C09Ex.w.mkt = instantiate 0 (some 102) := rfl
example : (step C09Ex.w C09Ex.opCreate).2.ok = true := by decide

/-! ## 2. the id logs only grow -/

/-- "even after the original was deleted, sold or withdrawn": no accepted message ever removes an
    id from the log of accepted listing ids or from the log of accepted bucket ids. -/
theorem C09_used_monotone {m m' : Market} {env : Env} {s : Nat} {f : List Coin} {msg : ExecMsg}
    {out : List OutMsg} (h : execute m env s f msg = .ok (m', out)) :
    (∀ i ∈ m.listingUsed, i ∈ m'.listingUsed) ∧ (∀ i ∈ m.bucketUsed, i ∈ m'.bucketUsed) :=
  (execute_shape h).used_mono

example : ∃ r, execute (instantiate 0 none) C09Ex.env 2 [⟨2, 2000⟩] (.createBucket 8) = .ok r :=
  ⟨_, rfl⟩

/-- the same for every operation of the world, hostile ones included -/
theorem C09_used_step (w : World) (op : Op) :
    (∀ i ∈ w.mkt.listingUsed, i ∈ (step w op).1.mkt.listingUsed) ∧
    (∀ i ∈ w.mkt.bucketUsed, i ∈ (step w op).1.mkt.bucketUsed) := by
  unfold step
  rcases stepF_mkt_cases noFault w op with h | ⟨c, f, msg, m', msgs, _, hx, hm, _⟩
  · rw [h]; exact ⟨fun _ h => h, fun _ h => h⟩
  · rw [hm]; exact C09_used_monotone hx

/-- … and along every history -/
theorem C09_used_run (w : World) (ops : List Op) :
    (∀ i ∈ w.mkt.listingUsed, i ∈ (run w ops).mkt.listingUsed) ∧
    (∀ i ∈ w.mkt.bucketUsed, i ∈ (run w ops).mkt.bucketUsed) := by
  induction ops generalizing w with
  | nil => exact ⟨fun _ h => h, fun _ h => h⟩
  | cons op ops ih =>
    have h1 := C09_used_step w op
    have h2 := ih (step w op).1
    exact ⟨fun i hi => h2.1 i (h1.1 i hi), fun i hi => h2.2 i (h1.2 i hi)⟩

/-! ## 3. a creation is accepted only for a fresh legal id -/

/-- the three creation paths of a listing are exactly what `ExecMsg.createsListing` recognises -/
theorem C09_createsListing_iff (msg : ExecMsg) (id : Nat) :
    msg.createsListing = some id ↔
      (∃ c, msg = .createListing id c) ∨
      (∃ sd a c, msg = .receive sd a (some (.createListing id c))) ∨
      (∃ sd t c, msg = .receiveNft sd t (some (.createListing id c))) := by
  constructor
  · intro h
    cases msg with
    | createListing id' c =>
      simp only [ExecMsg.createsListing, Option.some.injEq] at h; subst h
      exact .inl ⟨c, rfl⟩
    | receive sd a i =>
      cases i with
      | none => simp [ExecMsg.createsListing] at h
      | some im =>
        cases im with
        | createListing id' c =>
          simp only [ExecMsg.createsListing, Option.some.injEq] at h; subst h
          exact .inr (.inl ⟨sd, a, c, rfl⟩)
        | addToListing _ => simp [ExecMsg.createsListing] at h
        | createBucket _ => simp [ExecMsg.createsListing] at h
        | addToBucket _ => simp [ExecMsg.createsListing] at h
    | receiveNft sd t i =>
      cases i with
      | none => simp [ExecMsg.createsListing] at h
      | some im =>
        cases im with
        | createListing id' c =>
          simp only [ExecMsg.createsListing, Option.some.injEq] at h; subst h
          exact .inr (.inr ⟨sd, t, c, rfl⟩)
        | addToListing _ => simp [ExecMsg.createsListing] at h
        | createBucket _ => simp [ExecMsg.createsListing] at h
        | addToBucket _ => simp [ExecMsg.createsListing] at h
    | _ => simp [ExecMsg.createsListing] at h
  · rintro (⟨c, rfl⟩ | ⟨sd, a, c, rfl⟩ | ⟨sd, t, c, rfl⟩) <;> rfl

/-- likewise for buckets -/
theorem C09_createsBucket_iff (msg : ExecMsg) (id : Nat) :
    msg.createsBucket = some id ↔
      msg = .createBucket id ∨
      (∃ sd a, msg = .receive sd a (some (.createBucket id))) ∨
      (∃ sd t, msg = .receiveNft sd t (some (.createBucket id))) := by
  constructor
  · intro h
    cases msg with
    | createBucket id' =>
      simp only [ExecMsg.createsBucket, Option.some.injEq] at h; subst h
      exact .inl rfl
    | receive sd a i =>
      cases i with
      | none => simp [ExecMsg.createsBucket] at h
      | some im =>
        cases im with
        | createBucket id' =>
          simp only [ExecMsg.createsBucket, Option.some.injEq] at h; subst h
          exact .inr (.inl ⟨sd, a, rfl⟩)
        | addToListing _ => simp [ExecMsg.createsBucket] at h
        | createListing _ _ => simp [ExecMsg.createsBucket] at h
        | addToBucket _ => simp [ExecMsg.createsBucket] at h
    | receiveNft sd t i =>
      cases i with
      | none => simp [ExecMsg.createsBucket] at h
      | some im =>
        cases im with
        | createBucket id' =>
          simp only [ExecMsg.createsBucket, Option.some.injEq] at h; subst h
          exact .inr (.inr ⟨sd, t, rfl⟩)
        | addToListing _ => simp [ExecMsg.createsBucket] at h
        | createListing _ _ => simp [ExecMsg.createsBucket] at h
        | addToBucket _ => simp [ExecMsg.createsBucket] at h
    | _ => simp [ExecMsg.createsBucket] at h
  · rintro (rfl | ⟨sd, a, rfl⟩ | ⟨sd, t, rfl⟩) <;> rfl

/-- at the level of operations the creation paths are: the plain message, a direct (possibly
    forged) call of either hook, a CW20 `Send` and a CW721 `SendNft`, by any account -/
theorem C09_creation_ops (id : Nat) (c : CreateMsg) (s t a tid : Nat) (f : List Coin) (sd : RawAddr) :
    (Op.exec s f (.createListing id c)).createsListing = some id ∧
    (Op.exec s f (.receive sd a (some (.createListing id c)))).createsListing = some id ∧
    (Op.exec s f (.receiveNft sd tid (some (.createListing id c)))).createsListing = some id ∧
    (Op.send20 t s a (some (.createListing id c))).createsListing = some id ∧
    (Op.send721 t s tid (some (.createListing id c))).createsListing = some id ∧
    (Op.exec s f (.createBucket id)).createsBucket = some id ∧
    (Op.exec s f (.receive sd a (some (.createBucket id)))).createsBucket = some id ∧
    (Op.exec s f (.receiveNft sd tid (some (.createBucket id)))).createsBucket = some id ∧
    (Op.send20 t s a (some (.createBucket id))).createsBucket = some id ∧
    (Op.send721 t s tid (some (.createBucket id))).createsBucket = some id :=
  ⟨rfl, rfl, rfl, rfl, rfl, rfl, rfl, rfl, rfl, rfl⟩

/-- "An id that has ever been accepted for a listing … is rejected for every later creation by
    any account and through any deposit path …; id 0 and ids of 9007199254740990 or more are
    never accepted": whatever the sender, the attached funds and the path (plain message, CW20
    hook, CW721 hook), a listing creation that is accepted had an id strictly between 0 and
    `MAX_SAFE_INT` that was not in the log, and the id is in the log afterwards (it is the only
    change of the log). -/
theorem C09_fresh_listing {m m' : Market} {env : Env} {s : Nat} {f : List Coin} {msg : ExecMsg}
    {out : List OutMsg} {id : Nat} (hc : msg.createsListing = some id) (h0 : 0 ∈ m.listingUsed)
    (h : execute m env s f msg = .ok (m', out)) :
    0 < id ∧ id < MAX_SAFE_INT ∧ id ∉ m.listingUsed ∧ id ∈ m'.listingUsed ∧
    m'.listingUsed = id :: m.listingUsed := by
  obtain ⟨h1, h2, h3⟩ := execute_createsListing hc h
  refine ⟨?_, h1, h2, by rw [h3]; exact List.mem_cons_self, h3⟩
  cases id with
  | zero => exact absurd h0 h2
  | succ n => omega

/-- `C09_fresh_listing`, spelled out for the plain message -/
theorem C09_fresh_listing_direct {m m' : Market} {env : Env} {s : Nat} {f : List Coin} {id : Nat}
    {c : CreateMsg} {out : List OutMsg} (h0 : 0 ∈ m.listingUsed)
    (h : execute m env s f (.createListing id c) = .ok (m', out)) :
    0 < id ∧ id < MAX_SAFE_INT ∧ id ∉ m.listingUsed ∧ id ∈ m'.listingUsed :=
  let ⟨a, b, c, d, _⟩ := C09_fresh_listing (msg := .createListing id c) rfl h0 h; ⟨a, b, c, d⟩

/-- … for the CW20 hook (`Receive`) -/
theorem C09_fresh_listing_cw20 {m m' : Market} {env : Env} {s : Nat} {f : List Coin} {id : Nat}
    {c : CreateMsg} {sender : RawAddr} {amt : Nat} {out : List OutMsg} (h0 : 0 ∈ m.listingUsed)
    (h : execute m env s f (.receive sender amt (some (.createListing id c))) = .ok (m', out)) :
    0 < id ∧ id < MAX_SAFE_INT ∧ id ∉ m.listingUsed ∧ id ∈ m'.listingUsed :=
  let ⟨a, b, c, d, _⟩ :=
    C09_fresh_listing (msg := .receive sender amt (some (.createListing id c))) rfl h0 h
  ⟨a, b, c, d⟩

/-- … for the CW721 hook (`ReceiveNft`) -/
theorem C09_fresh_listing_cw721 {m m' : Market} {env : Env} {s : Nat} {f : List Coin} {id : Nat}
    {c : CreateMsg} {sender : RawAddr} {tid : Nat} {out : List OutMsg} (h0 : 0 ∈ m.listingUsed)
    (h : execute m env s f (.receiveNft sender tid (some (.createListing id c))) = .ok (m', out)) :
    0 < id ∧ id < MAX_SAFE_INT ∧ id ∉ m.listingUsed ∧ id ∈ m'.listingUsed :=
  let ⟨a, b, c, d, _⟩ :=
    C09_fresh_listing (msg := .receiveNft sender tid (some (.createListing id c))) rfl h0 h
  ⟨a, b, c, d⟩

example : 0 ∈ (instantiate 0 none).listingUsed ∧
    (∃ r, execute (instantiate 0 none) C09Ex.env 7 [⟨1, 1000⟩] (.createListing 5 C09Ex.ask) = .ok r) ∧
    (∃ r, execute (instantiate 0 none) C09Ex.env 50 []
      (.receive (.valid 7) 100 (some (.createListing 5 C09Ex.ask))) = .ok r) ∧
    (∃ r, execute (instantiate 0 none) C09Ex.env 60 []
      (.receiveNft (.valid 7) 1 (some (.createListing 5 C09Ex.ask))) = .ok r) :=
  ⟨by decide, ⟨_, rfl⟩, ⟨_, rfl⟩, ⟨_, rfl⟩⟩

/-- the same for buckets (respectively a bucket) -/
theorem C09_fresh_bucket {m m' : Market} {env : Env} {s : Nat} {f : List Coin} {msg : ExecMsg}
    {out : List OutMsg} {id : Nat} (hc : msg.createsBucket = some id) (h0 : 0 ∈ m.bucketUsed)
    (h : execute m env s f msg = .ok (m', out)) :
    0 < id ∧ id < MAX_SAFE_INT ∧ id ∉ m.bucketUsed ∧ id ∈ m'.bucketUsed ∧
    m'.bucketUsed = id :: m.bucketUsed := by
  obtain ⟨h1, h2, h3⟩ := execute_createsBucket hc h
  refine ⟨?_, h1, h2, by rw [h3]; exact List.mem_cons_self, h3⟩
  cases id with
  | zero => exact absurd h0 h2
  | succ n => omega

theorem C09_fresh_bucket_direct {m m' : Market} {env : Env} {s : Nat} {f : List Coin} {id : Nat}
    {out : List OutMsg} (h0 : 0 ∈ m.bucketUsed)
    (h : execute m env s f (.createBucket id) = .ok (m', out)) :
    0 < id ∧ id < MAX_SAFE_INT ∧ id ∉ m.bucketUsed ∧ id ∈ m'.bucketUsed :=
  let ⟨a, b, c, d, _⟩ := C09_fresh_bucket (msg := .createBucket id) rfl h0 h; ⟨a, b, c, d⟩

theorem C09_fresh_bucket_cw20 {m m' : Market} {env : Env} {s : Nat} {f : List Coin} {id : Nat}
    {sender : RawAddr} {amt : Nat} {out : List OutMsg} (h0 : 0 ∈ m.bucketUsed)
    (h : execute m env s f (.receive sender amt (some (.createBucket id))) = .ok (m', out)) :
    0 < id ∧ id < MAX_SAFE_INT ∧ id ∉ m.bucketUsed ∧ id ∈ m'.bucketUsed :=
  let ⟨a, b, c, d, _⟩ :=
    C09_fresh_bucket (msg := .receive sender amt (some (.createBucket id))) rfl h0 h
  ⟨a, b, c, d⟩

theorem C09_fresh_bucket_cw721 {m m' : Market} {env : Env} {s : Nat} {f : List Coin} {id : Nat}
    {sender : RawAddr} {tid : Nat} {out : List OutMsg} (h0 : 0 ∈ m.bucketUsed)
    (h : execute m env s f (.receiveNft sender tid (some (.createBucket id))) = .ok (m', out)) :
    0 < id ∧ id < MAX_SAFE_INT ∧ id ∉ m.bucketUsed ∧ id ∈ m'.bucketUsed :=
  let ⟨a, b, c, d, _⟩ :=
    C09_fresh_bucket (msg := .receiveNft sender tid (some (.createBucket id))) rfl h0 h
  ⟨a, b, c, d⟩

example : 0 ∈ (instantiate 0 none).bucketUsed ∧
    (∃ r, execute (instantiate 0 none) C09Ex.env 7 [⟨1, 1000⟩] (.createBucket 6) = .ok r) ∧
    (∃ r, execute (instantiate 0 none) C09Ex.env 50 []
      (.receive (.valid 7) 100 (some (.createBucket 6))) = .ok r) ∧
    (∃ r, execute (instantiate 0 none) C09Ex.env 60 []
      (.receiveNft (.valid 7) 1 (some (.createBucket 6))) = .ok r) :=
  ⟨by decide, ⟨_, rfl⟩, ⟨_, rfl⟩, ⟨_, rfl⟩⟩

/-- "id 0 and ids of 9007199254740990 or more are never accepted", as a refusal: in any state
    that satisfies the invariant no creation message for such an id is accepted. -/
theorem C09_illegal_id {m : Market} {env : Env} {s : Nat} {f : List Coin} {msg : ExecMsg} {id : Nat}
    (hi : IdsInv m) (hid : id = 0 ∨ id ≥ MAX_SAFE_INT)
    (hc : msg.createsListing = some id ∨ msg.createsBucket = some id) :
    ∃ e, execute m env s f msg = .error e := by
  cases hx : execute m env s f msg with
  | error e => exact ⟨e, rfl⟩
  | ok r =>
    exfalso
    obtain ⟨m', out⟩ := r
    rcases hc with hc | hc
    · have := C09_fresh_listing hc hi.zeroL hx; omega
    · have := C09_fresh_bucket hc hi.zeroB hx; omega

example : IdsInv (instantiate 0 none) ∧ ((9007199254740990 : Nat) = 0 ∨ 9007199254740990 ≥ MAX_SAFE_INT) ∧
    (ExecMsg.createBucket 9007199254740990).createsBucket = some 9007199254740990 :=
  ⟨IdsInv.init 0 none, .inr (by decide), rfl⟩
-- the bound is sharp: 9007199254740989 is accepted
example : ∃ r, execute (instantiate 0 none) C09Ex.env 7 [⟨1, 1000⟩] (.createBucket 9007199254740989) = .ok r :=
  ⟨_, rfl⟩

/-- one transaction: a creation for an id that is in the log fails and changes nothing -/
theorem C09_rejected_listing {w : World} {op : Op} {id : Nat} (hc : op.createsListing = some id)
    (hu : id ∈ w.mkt.listingUsed) : (step w op).2.ok = false ∧ (step w op).1 = w := by
  unfold step
  unfold Op.createsListing at hc
  cases ho : op.asExec with
  | none => rw [ho] at hc; cases hc
  | some t =>
    obtain ⟨c, f, msg⟩ := t
    rw [ho] at hc
    rcases stepF_market (fail := noFault) (w := w) ho with ⟨e, h⟩ | ⟨m', msgs, w2, hx, _, _, _⟩
    · rw [h]; exact ⟨rfl, rfl⟩
    · exact absurd hu (execute_createsListing hc hx).2.1

theorem C09_rejected_bucket {w : World} {op : Op} {id : Nat} (hc : op.createsBucket = some id)
    (hu : id ∈ w.mkt.bucketUsed) : (step w op).2.ok = false ∧ (step w op).1 = w := by
  unfold step
  unfold Op.createsBucket at hc
  cases ho : op.asExec with
  | none => rw [ho] at hc; cases hc
  | some t =>
    obtain ⟨c, f, msg⟩ := t
    rw [ho] at hc
    rcases stepF_market (fail := noFault) (w := w) ho with ⟨e, h⟩ | ⟨m', msgs, w2, hx, _, _, _⟩
    · rw [h]; exact ⟨rfl, rfl⟩
    · exact absurd hu (execute_createsBucket hc hx).2.1

/-- "… is rejected for every later creation by any account and through any deposit path, even
    after the original was deleted, sold or withdrawn": once `id` is in the log, then after any
    history `ops` whatsoever every operation that asks to create a listing with that id — any
    sender, plain message, forged or genuine CW20 / CW721 hook — fails. -/
theorem C09_rejected_forever {w : World} {id : Nat} (hu : id ∈ w.mkt.listingUsed) (ops : List Op)
    {op : Op} (hc : op.createsListing = some id) : (step (run w ops) op).2.ok = false :=
  (C09_rejected_listing hc ((C09_used_run w ops).1 id hu)).1

theorem C09_rejected_forever_bucket {w : World} {id : Nat} (hu : id ∈ w.mkt.bucketUsed)
    (ops : List Op) {op : Op} (hc : op.createsBucket = some id) :
    (step (run w ops) op).2.ok = false :=
  (C09_rejected_bucket hc ((C09_used_run w ops).2 id hu)).1

/-- a successful creation logs its id … -/
theorem C09_accepted_logged {w : World} {op : Op} {id : Nat} (h : (step w op).2.ok = true) :
    (op.createsListing = some id → id ∈ (step w op).1.mkt.listingUsed) ∧
    (op.createsBucket = some id → id ∈ (step w op).1.mkt.bucketUsed) := by
  unfold step at h ⊢
  unfold Op.createsListing Op.createsBucket
  cases ho : op.asExec with
  | none => exact ⟨fun hc => (by cases hc), fun hc => (by cases hc)⟩
  | some t =>
    obtain ⟨c, f, msg⟩ := t
    rcases stepF_market (fail := noFault) (w := w) ho with ⟨e, hs⟩ | ⟨m', msgs, w2, hx, hm, _, hs⟩
    · rw [hs] at h; cases h
    · rw [hs]
      dsimp only
      rw [hm]
      constructor
      · intro hc; rw [(execute_createsListing hc hx).2.2]; exact List.mem_cons_self
      · intro hc; rw [(execute_createsBucket hc hx).2.2]; exact List.mem_cons_self

/-- … so: "An id that has ever been accepted for a listing (respectively a bucket) is rejected for
    every later creation": if `op₀` created listing `id` in world `w`, then after any history
    every further creation for `id` fails. -/
theorem C09_never_reused {w : World} {op₀ op : Op} {id : Nat} (ops : List Op)
    (h₀ : (step w op₀).2.ok = true) (hc₀ : op₀.createsListing = some id)
    (hc : op.createsListing = some id) : (step (run (step w op₀).1 ops) op).2.ok = false :=
  C09_rejected_forever ((C09_accepted_logged h₀).1 hc₀) ops hc

theorem C09_never_reused_bucket {w : World} {op₀ op : Op} {id : Nat} (ops : List Op)
    (h₀ : (step w op₀).2.ok = true) (hc₀ : op₀.createsBucket = some id)
    (hc : op.createsBucket = some id) : (step (run (step w op₀).1 ops) op).2.ok = false :=
  C09_rejected_forever_bucket ((C09_accepted_logged h₀).2 hc₀) ops hc

-- non-vacuity: listing 5 is created by account 7 and deleted again; afterwards the id is refused
-- for account 8, through the CW20 path, the CW721 path and a forged hook call — each of which
-- is accepted for the fresh id in the initial world
example : (step C09Ex.w C09Ex.opCreate).2.ok = true ∧ C09Ex.opCreate.createsListing = some 5 ∧
    C09Ex.opAgain.createsListing = some 5 ∧ C09Ex.op20.createsListing = some 5 ∧
    C09Ex.op721.createsListing = some 5 ∧ C09Ex.opForged.createsListing = some 5 :=
  ⟨by decide, rfl, rfl, rfl, rfl, rfl⟩
example : 5 ∈ (run C09Ex.w [C09Ex.opCreate, C09Ex.opDelete]).mkt.listingUsed ∧
    (run C09Ex.w [C09Ex.opCreate, C09Ex.opDelete]).mkt.listings = [] := by decide
example : (step (run C09Ex.w [C09Ex.opCreate, C09Ex.opDelete]) C09Ex.opAgain).2.ok = false ∧
    (step (run C09Ex.w [C09Ex.opCreate, C09Ex.opDelete]) C09Ex.op20).2.ok = false ∧
    (step (run C09Ex.w [C09Ex.opCreate, C09Ex.opDelete]) C09Ex.op721).2.ok = false ∧
    (step (run C09Ex.w [C09Ex.opCreate, C09Ex.opDelete]) C09Ex.opForged).2.ok = false := by decide
example : (step C09Ex.w C09Ex.opAgain).2.ok = true ∧ (step C09Ex.w C09Ex.op20).2.ok = true ∧
    (step C09Ex.w C09Ex.op721).2.ok = true ∧ (step C09Ex.w C09Ex.opForged).2.ok = true := by decide
-- buckets: created, removed, refused afterwards
example : (step C09Ex.w C09Ex.opBCreate).2.ok = true ∧ C09Ex.opBCreate.createsBucket = some 6 ∧
    C09Ex.opB20.createsBucket = some 6 ∧
    6 ∈ (run C09Ex.w [C09Ex.opBCreate, C09Ex.opBRemove]).mkt.bucketUsed ∧
    (run C09Ex.w [C09Ex.opBCreate, C09Ex.opBRemove]).mkt.buckets = [] ∧
    (step (run C09Ex.w [C09Ex.opBCreate, C09Ex.opBRemove]) C09Ex.opB20).2.ok = false ∧
    (step C09Ex.w C09Ex.opB20).2.ok = true := by decide

/-! ## 4. one live record per id; an id denotes one object -/

/-- "Hence at most one listing and one bucket exist per id at any time": under the invariant two
    stored listings with the same id are the same entry (same key, same record), and likewise
    two stored buckets. -/
theorem C09_unique_live {m : Market} (hi : IdsInv m) :
    (∀ p ∈ m.listings, ∀ q ∈ m.listings, p.2.id = q.2.id → p = q) ∧
    (∀ p ∈ m.buckets, ∀ q ∈ m.buckets, p.1.2 = q.1.2 → p = q) := by
  constructor
  · intro p hp q hq e
    have hk := hi.lidInj p hp q hq e
    have h1 := mem_nodup_alookup (k := p.1) (v := p.2) hi.lkeys hp
    have h2 := mem_nodup_alookup (k := q.1) (v := q.2) hi.lkeys hq
    rw [hk, h2] at h1
    exact Prod.ext hk (Option.some.inj h1).symm
  · intro p hp q hq e
    have hk := hi.bidInj p hp q hq e
    have h1 := mem_nodup_alookup (k := p.1) (v := p.2) hi.bkeys hp
    have h2 := mem_nodup_alookup (k := q.1) (v := q.2) hi.bkeys hq
    rw [hk, h2] at h1
    exact Prod.ext hk (Option.some.inj h1).symm

/-- the same in every reachable state -/
theorem C09_unique_live_reach {w : World} {t : Nat} {r : Option Nat} (h0 : w.mkt = instantiate t r)
    (ops : List Op) :
    (∀ p ∈ (run w ops).mkt.listings, ∀ q ∈ (run w ops).mkt.listings, p.2.id = q.2.id → p = q) ∧
    (∀ p ∈ (run w ops).mkt.buckets, ∀ q ∈ (run w ops).mkt.buckets, p.1.2 = q.1.2 → p = q) :=
  C09_unique_live (C09_reach h0 ops)

example : IdsInv (run C09Ex.w [C09Ex.opCreate, C09Ex.opBCreate]).mkt := C09_reach rfl _
example : (run C09Ex.w [C09Ex.opCreate, C09Ex.opBCreate]).mkt.listings.length = 1 ∧
    (run C09Ex.w [C09Ex.opCreate, C09Ex.opBCreate]).mkt.buckets.length = 1 := by decide

/-- the driver's oracle is implied by the proved invariant -/
theorem C09_checkIds_of_inv {m : Market} (hi : IdsInv m) : checkIds m = true := by
  unfold checkIds
  simp only [Bool.and_eq_true, decide_eq_true_eq, List.all_eq_true]
  refine ⟨⟨⟨⟨⟨⟨⟨hi.lkeys, hi.bkeys⟩, ?_⟩, ?_⟩, ?_⟩, ?_⟩, hi.zeroL⟩, hi.zeroB⟩
  · exact nodup_map_of_inj (l := m.listings) (f := fun p => p.1) (g := fun p => p.2.id) hi.lkeys hi.lidInj
  · exact nodup_map_of_inj (l := m.buckets) (f := fun p => p.1) (g := fun p => p.1.2) hi.bkeys hi.bidInj
  · intro i hm
    obtain ⟨p, hp, rfl⟩ := List.mem_map.1 hm
    exact hi.lused p hp
  · intro i hm
    obtain ⟨p, hp, rfl⟩ := List.mem_map.1 hm
    exact hi.bused p hp

/-- … and conversely: `checkIds` together with "every record is filed under its owner and id"
    (which is part of `checkWF`) is the invariant -/
theorem C09_inv_of_checkIds {m : Market} (h : checkIds m = true)
    (hl : ∀ p ∈ m.listings, p.1 = (p.2.creator, p.2.id)) (hb : ∀ p ∈ m.buckets, p.1.1 = p.2.owner) :
    IdsInv m := by
  unfold checkIds at h
  simp only [Bool.and_eq_true, decide_eq_true_eq, List.all_eq_true] at h
  obtain ⟨⟨⟨⟨⟨⟨⟨h1, h2⟩, h3⟩, h4⟩, h5⟩, h6⟩, h7⟩, h8⟩ := h
  refine ⟨h1, h2, hl, hb, ?_, ?_, ?_, ?_, h7, h8⟩
  · intro p hp q hq e
    rw [eq_of_nodup_map (l := m.listings) (g := fun p => p.2.id) h3 hp hq e]
  · intro p hp q hq e
    rw [eq_of_nodup_map (l := m.buckets) (g := fun p => p.1.2) h4 hp hq e]
  · intro p hp
    exact h5 _ (List.mem_map.2 ⟨p, hp, rfl⟩)
  · intro p hp
    exact h6 _ (List.mem_map.2 ⟨p, hp, rfl⟩)

example : checkIds (run C09Ex.w [C09Ex.opCreate, C09Ex.opBCreate]).mkt = true ∧
    (∀ p ∈ (run C09Ex.w [C09Ex.opCreate, C09Ex.opBCreate]).mkt.listings, p.1 = (p.2.creator, p.2.id)) ∧
    (∀ p ∈ (run C09Ex.w [C09Ex.opCreate, C09Ex.opBCreate]).mkt.buckets, p.1.1 = p.2.owner) := by
  decide

/-- for well-formed storage the executable check and the invariant coincide -/
theorem C09_checkIds_iff {j u : Nat} {m : Market} (hw : WFInv j u m) :
    checkIds m = true ↔ IdsInv m := by
  refine ⟨fun h => C09_inv_of_checkIds h ?_ ?_, C09_checkIds_of_inv⟩
  · intro p hp
    have := hw.lwf p hp
    simp only [wfListing, Bool.and_eq_true, decide_eq_true_eq] at this
    exact this.1.1.1
  · intro p hp
    have := hw.bwf p hp
    simp only [wfBucket, Bool.and_eq_true, decide_eq_true_eq] at this
    exact this.1.1

/-- every reachable state passes the driver's check -/
theorem C09_checkIds_reach {w : World} {t : Nat} {r : Option Nat} (h0 : w.mkt = instantiate t r)
    (ops : List Op) : checkIds (run w ops).mkt = true :=
  C09_checkIds_of_inv (C09_reach h0 ops)

example : checkIds (run C09Ex.w [C09Ex.opCreate, C09Ex.opBCreate]).mkt = true := by decide
example : WFInv 1 2 (run C09Ex.w [C09Ex.opCreate, C09Ex.opBCreate]).mkt := by
  constructor <;> decide

/-- "an id denotes one object for its whole history" — no resurrection: an accepted message can
    make a listing (bucket) with a logged id appear only if one with that id was there before;
    the messages that keep a record keep its id (`Shape`), so the record under a logged id is
    always the continuation of the one created with it. -/
theorem C09_no_resurrection_execute {m m' : Market} {env : Env} {s : Nat} {f : List Coin}
    {msg : ExecMsg} {out : List OutMsg} (h : execute m env s f msg = .ok (m', out)) {i : Nat} :
    (i ∈ m.listingUsed → (∃ p ∈ m'.listings, p.2.id = i) → ∃ p ∈ m.listings, p.2.id = i) ∧
    (i ∈ m.bucketUsed → (∃ p ∈ m'.buckets, p.1.2 = i) → ∃ p ∈ m.buckets, p.1.2 = i) :=
  ⟨(execute_shape h).live_l, (execute_shape h).live_b⟩

-- non-vacuity: deleting listing 5 is accepted in a state where 5 is logged
example : 5 ∈ (run C09Ex.w [C09Ex.opCreate]).mkt.listingUsed ∧
    (match execute (run C09Ex.w [C09Ex.opCreate]).mkt C09Ex.env 7 [] (.deleteListing 5) with
     | .ok r => r.1.listings.length | .error _ => 99) = 0 := by decide

/-- "even after the original was deleted, sold or withdrawn … an id denotes one object for its
    whole history": once an id is logged and no listing carries it (the original is gone), no
    listing ever carries it again, whatever happens. -/
theorem C09_gone_forever {w : World} {i : Nat} (hu : i ∈ w.mkt.listingUsed)
    (hg : ¬ ∃ p ∈ w.mkt.listings, p.2.id = i) (ops : List Op) :
    ¬ ∃ p ∈ (run w ops).mkt.listings, p.2.id = i := by
  induction ops generalizing w with
  | nil => exact hg
  | cons op ops ih =>
    refine ih ((C09_used_step w op).1 i hu) ?_
    unfold step
    rcases stepF_mkt_cases noFault w op with h | ⟨c, f, msg, m', msgs, _, hx, hm, _⟩
    · rw [h]; exact hg
    · rw [hm]; exact fun hl => hg ((C09_no_resurrection_execute hx).1 hu hl)

theorem C09_gone_forever_bucket {w : World} {i : Nat} (hu : i ∈ w.mkt.bucketUsed)
    (hg : ¬ ∃ p ∈ w.mkt.buckets, p.1.2 = i) (ops : List Op) :
    ¬ ∃ p ∈ (run w ops).mkt.buckets, p.1.2 = i := by
  induction ops generalizing w with
  | nil => exact hg
  | cons op ops ih =>
    refine ih ((C09_used_step w op).2 i hu) ?_
    unfold step
    rcases stepF_mkt_cases noFault w op with h | ⟨c, f, msg, m', msgs, _, hx, hm, _⟩
    · rw [h]; exact hg
    · rw [hm]; exact fun hl => hg ((C09_no_resurrection_execute hx).2 hu hl)

example : 5 ∈ (run C09Ex.w [C09Ex.opCreate, C09Ex.opDelete]).mkt.listingUsed ∧
    ¬ ∃ p ∈ (run C09Ex.w [C09Ex.opCreate, C09Ex.opDelete]).mkt.listings, p.2.id = 5 := by
  have : (run C09Ex.w [C09Ex.opCreate, C09Ex.opDelete]).mkt.listings = [] := by decide
  rw [this]
  exact ⟨by decide, by simp⟩
example : 6 ∈ (run C09Ex.w [C09Ex.opBCreate, C09Ex.opBRemove]).mkt.bucketUsed ∧
    ¬ ∃ p ∈ (run C09Ex.w [C09Ex.opBCreate, C09Ex.opBRemove]).mkt.buckets, p.1.2 = 6 := by
  have : (run C09Ex.w [C09Ex.opBCreate, C09Ex.opBRemove]).mkt.buckets = [] := by decide
  rw [this]
  exact ⟨by decide, by simp⟩

/-! ## axioms -/

#print axioms C09_inv_execute
#print axioms C09_inv_step
#print axioms C09_inv_run
#print axioms C09_reach
#print axioms C09_used_monotone
#print axioms C09_used_step
#print axioms C09_used_run
#print axioms C09_createsListing_iff
#print axioms C09_createsBucket_iff
#print axioms C09_creation_ops
#print axioms C09_fresh_listing
#print axioms C09_fresh_listing_direct
#print axioms C09_fresh_listing_cw20
#print axioms C09_fresh_listing_cw721
#print axioms C09_fresh_bucket
#print axioms C09_fresh_bucket_direct
#print axioms C09_fresh_bucket_cw20
#print axioms C09_fresh_bucket_cw721
#print axioms C09_illegal_id
#print axioms C09_rejected_listing
#print axioms C09_rejected_bucket
#print axioms C09_rejected_forever
#print axioms C09_rejected_forever_bucket
#print axioms C09_accepted_logged
#print axioms C09_never_reused
#print axioms C09_never_reused_bucket
#print axioms C09_unique_live
#print axioms C09_unique_live_reach
#print axioms C09_checkIds_of_inv
#print axioms C09_inv_of_checkIds
#print axioms C09_checkIds_iff
#print axioms C09_checkIds_reach
#print axioms C09_no_resurrection_execute
#print axioms C09_gone_forever
#print axioms C09_gone_forever_bucket

end Fuzion
