/-
  Fuzion.Props.C03 — "A purchase swaps entitlements atomically; a listing sells at most once".

  Property text (C03): A successful purchase simultaneously makes the buyer the only party able
  to claim the listing's goods and the seller the only party able to claim the bucket's goods;
  neither half happens without the other.  Each is claimable exactly once, and under every
  ordering of competing purchases, deletions and withdrawals a listing is sold at most once and
  losing buyers keep their buckets intact.

  The theorems are about `buy`, `withdrawPurchased`, `withdrawBucket`, `deleteListing`
  (execute.rs) and the transaction functions `step` / `run`.  Uniqueness of ids and filing is
  the invariant `IdsInv` (Inv/MInv.lean; preserved by every message: `C09_inv_execute`).
  Helper lemmas are in `Fuzion/Lemmas/BuyLemmas.lean`.  Core library only.
-/
import Fuzion.Lemmas.BuyLemmas
namespace Fuzion

/-! ### 1. the swap -/

/-- "A successful purchase simultaneously makes the buyer [the owner of] the listing's goods and
    the seller [the owner of] the bucket's goods; neither half happens without the other":
    the single state update of an accepted `buy` re-files the listing (closed, claimant = buyer)
    under the buyer's key *and* the bucket under the seller's key, removes both old entries,
    leaves every other key of both tables alone, and overwrites nothing. -/
theorem C03_swap {m m' : Market} {env : Env} {buyer lid bid : Nat} {out : List OutMsg}
    (hI : IdsInv m) (h : buy m env buyer lid bid = .ok (m', out)) :
    ∃ l b l' b',
      -- the old records
      alookup (l.creator, lid) m.listings = some l ∧ alookup (buyer, bid) m.buckets = some b ∧
      -- the new ones
      alookup (buyer, lid) m'.listings = some l' ∧ l'.creator = buyer ∧ l'.claimant = some buyer ∧
      l'.status = .closed ∧ l'.id = lid ∧
      alookup (l.creator, bid) m'.buckets = some b' ∧ b'.owner = l.creator ∧
      -- the old entries are gone
      (buyer ≠ l.creator →
        alookup (l.creator, lid) m'.listings = none ∧ alookup (buyer, bid) m'.buckets = none) ∧
      -- every other key is untouched
      (∀ k, k ≠ (buyer, lid) → k ≠ (l.creator, lid) → alookup k m'.listings = alookup k m.listings) ∧
      (∀ k, k ≠ (buyer, bid) → k ≠ (l.creator, bid) → alookup k m'.buckets = alookup k m.buckets) ∧
      -- nothing was stored under the two new keys before
      (buyer ≠ l.creator →
        alookup (buyer, lid) m.listings = none ∧ alookup (l.creator, bid) m.buckets = none) := by
  obtain ⟨l, b, l', b', _, hal, hb, _, _, _, hL, hB, _, _, h1, h2, h3, h4, h5, h6⟩ := buy_swap hI h
  refine ⟨l, b, l', b', hal, hb, ?_, h1, h2, h3, h4, ?_, h5, ?_, ?_, ?_, h6⟩
  · rw [hL]; exact alookup_ainsert_self _ _ _
  · rw [hB]; exact alookup_ainsert_self _ _ _
  · intro hne
    have n1 : (l.creator, lid) ≠ (buyer, lid) := fun e => hne (Prod.mk.inj e).1.symm
    have n2 : (buyer, bid) ≠ (l.creator, bid) := fun e => hne (Prod.mk.inj e).1
    rw [hL, hB, alookup_ainsert_ne n1, alookup_ainsert_ne n2]
    exact ⟨alookup_aerase_self _ _, alookup_aerase_self _ _⟩
  · intro k k1 k2
    rw [hL, alookup_ainsert_ne k1, alookup_aerase_ne k2]
  · intro k k1 k2
    rw [hB, alookup_ainsert_ne k2, alookup_aerase_ne k1]

/-- non-vacuity of `C03_swap`: the example market satisfies `IdsInv` and buyer 20 buys listing 1
    of seller 10 with bucket 2 -/
example : IdsInv BuyEx.mkt ∧ buy BuyEx.mkt BuyEx.env 20 1 2 = .ok BuyEx.bought :=
  ⟨BuyEx.ids, BuyEx.buy_eq⟩

/-- … and what `C03_swap` says there, computed: the listing is now under (20, 1), closed, claimant
    20; the bucket is under (10, 2), owned by 10; the old keys are empty; the competitor's
    bucket (30, 3) is unchanged -/
example :
    (alookup (20, 1) BuyEx.bought.1.listings).map (fun l => (l.creator, l.claimant, l.status)) =
      some (20, some 20, .closed) ∧
    (alookup (10, 2) BuyEx.bought.1.buckets).map (·.owner) = some 10 ∧
    alookup (10, 1) BuyEx.bought.1.listings = none ∧ alookup (20, 2) BuyEx.bought.1.buckets = none ∧
    alookup (30, 3) BuyEx.bought.1.buckets = alookup (30, 3) BuyEx.mkt.buckets := by decide

/-- "makes the buyer the **only** party able to claim the listing's goods and the seller the
    **only** party able to claim the bucket's goods", directly on the state after the purchase:
    in `m'`, whatever the time and whoever asks, `WithdrawPurchased lid` is accepted exactly for
    the buyer and `RemoveBucket bid` exactly for the seller. -/
theorem C03_swap_claims {m m' : Market} {env : Env} {buyer lid bid : Nat} {out : List OutMsg}
    (hI : IdsInv m) (h : buy m env buyer lid bid = .ok (m', out)) :
    ∃ seller l, alookup (seller, lid) m.listings = some l ∧ l.creator = seller ∧
      ∀ (env' : Env) (who : Nat),
        ((∃ r, withdrawPurchased m' env' who lid = .ok r) ↔ who = buyer) ∧
        ((∃ r, withdrawBucket m' env' who bid = .ok r) ↔ who = seller) := by
  obtain ⟨l, b, l', b', _, hal, hb, _, _, _, hL, hB, _, _, h1, h2, h3, h4, h5, _⟩ := buy_swap hI h
  refine ⟨l.creator, l, hal, rfl, ?_⟩
  intro env' who
  constructor
  · have hf : findById lid m'.listings = some ((buyer, lid), l') := by
      rw [hL]; exact findById_cons_self h4
    exact withdrawPurchased_ok_iff hf h3 h2
  · rw [withdrawBucket_ok_iff, hB]
    constructor
    · rintro ⟨x, hx, _⟩
      by_cases hw : who = l.creator
      · exact hw
      · exfalso
        have n1 : (who, bid) ≠ (l.creator, bid) := fun e => hw (Prod.mk.inj e).1
        rw [alookup_ainsert_ne n1] at hx
        by_cases hw2 : who = buyer
        · subst hw2
          rw [alookup_aerase_self] at hx; cases hx
        · have n2 : (who, bid) ≠ (buyer, bid) := fun e => hw2 (Prod.mk.inj e).1
          rw [alookup_aerase_ne n2] at hx
          exact hw2 (hI.bucket_owner hx hb)
    · rintro rfl
      exact ⟨b', alookup_ainsert_self _ _ _, h5⟩

/-- non-vacuity of `C03_swap_claims`: same hypotheses as `C03_swap`; and computed on the example:
    after the sale the buyer's claim is accepted, the seller's and a stranger's are not; the
    seller can take the bucket, the buyer no longer can -/
example : IdsInv BuyEx.mkt ∧ buy BuyEx.mkt BuyEx.env 20 1 2 = .ok BuyEx.bought ∧
    (∃ r, withdrawPurchased BuyEx.bought.1 BuyEx.env 20 1 = .ok r) ∧
    withdrawPurchased BuyEx.bought.1 BuyEx.env 10 1 = .error .notClaimant ∧
    withdrawPurchased BuyEx.bought.1 BuyEx.env 30 1 = .error .notClaimant ∧
    (∃ r, withdrawBucket BuyEx.bought.1 BuyEx.env 10 2 = .ok r) ∧
    withdrawBucket BuyEx.bought.1 BuyEx.env 20 2 = .error .notFound :=
  ⟨BuyEx.ids, BuyEx.buy_eq, ⟨_, rfl⟩, rfl, rfl, ⟨_, rfl⟩, rfl⟩

/-! ### 2. who can claim, in any state -/

/-- "the buyer the only party able to claim the listing's goods": for a closed listing with
    claimant `c`, `WithdrawPurchased` is accepted for `c` and refused for everybody else.
    (`IdsInv` is not needed for this half.) -/
theorem C03_claim_only_buyer {m : Market} {env : Env} {who lid : Nat} {k : Nat × Nat} {l : Listing}
    {c : Nat} (hl : findById lid m.listings = some (k, l)) (hs : l.status = .closed)
    (hc : l.claimant = some c) : (∃ r, withdrawPurchased m env who lid = .ok r) ↔ who = c :=
  withdrawPurchased_ok_iff hl hs hc

/-- non-vacuity of `C03_claim_only_buyer` (the sold example listing) -/
example : ∃ l, findById 1 BuyEx.bought.1.listings = some ((20, 1), l) ∧ l.status = .closed ∧
    l.claimant = some 20 := ⟨_, rfl, rfl, rfl⟩

/-- … the seller cannot take the goods back: once a listing has a claimant, `DeleteListing` is
    refused for every sender. -/
theorem C03_no_delete_after_sale {m : Market} (hI : IdsInv m) {lid : Nat} {k : Nat × Nat}
    {l : Listing} {c : Nat} (hl : findById lid m.listings = some (k, l)) (hc : l.claimant = some c)
    (env : Env) (who : Nat) : ∃ e, deleteListing m env who lid = .error e :=
  deleteListing_claimed hI hl hc env who

/-- non-vacuity of `C03_no_delete_after_sale` -/
example : IdsInv BuyEx.bought.1 ∧ ∃ l, findById 1 BuyEx.bought.1.listings = some ((20, 1), l) ∧
    l.claimant = some 20 := ⟨by constructor <;> decide, _, rfl, rfl⟩

/-- … and a closed listing cannot be bought again, by any buyer with any bucket, at any time. -/
theorem C03_no_rebuy {m : Market} {lid : Nat} {k : Nat × Nat} {l : Listing}
    (hl : findById lid m.listings = some (k, l)) (hs : l.status = .closed)
    (env : Env) (buyer bid : Nat) : ∃ e, buy m env buyer lid bid = .error e := by
  cases hb : buy m env buyer lid bid with
  | error e => exact ⟨e, rfl⟩
  | ok r =>
    obtain ⟨k', l', b, hl', _, hs', _⟩ := BuyTerms.of_ok hb
    rw [hl] at hl'; cases hl'
    rw [hs] at hs'; cases hs'

/-- non-vacuity of `C03_no_rebuy`: the competitor's matching bucket 3 is refused after the sale -/
example : (∃ l, findById 1 BuyEx.bought.1.listings = some ((20, 1), l) ∧ l.status = .closed) ∧
    buy BuyEx.bought.1 BuyEx.env 30 1 3 = .error .notPurchasable := ⟨⟨_, rfl, rfl⟩, rfl⟩

/-- "the seller the only party able to claim the bucket's goods": a bucket filed under
    `(seller, bid)` can be withdrawn by the seller and by nobody else, and nobody else can pay
    with it (bucket ids are unique, so no other key carries `bid`). -/
theorem C03_claim_only_seller {m : Market} (hI : IdsInv m) {seller bid : Nat} {b : Bucket}
    (hb : alookup (seller, bid) m.buckets = some b) (env : Env) (who : Nat) :
    ((∃ r, withdrawBucket m env who bid = .ok r) ↔ who = seller) ∧
    (∀ lid, (∃ r, buy m env who lid bid = .ok r) → who = seller) := by
  constructor
  · rw [withdrawBucket_ok_iff]
    constructor
    · rintro ⟨x, hx, _⟩
      exact hI.bucket_owner hx hb
    · rintro rfl
      exact ⟨b, hb, (hI.bfiled _ (alookup_some_mem hb)).symm⟩
  · rintro lid ⟨r, h⟩
    obtain ⟨_, _, x, _, hx, _⟩ := BuyTerms.of_ok h
    exact hI.bucket_owner hx hb

/-- non-vacuity of `C03_claim_only_seller`: the re-filed bucket (10, 2) after the sale -/
example : IdsInv BuyEx.bought.1 ∧ (alookup (10, 2) BuyEx.bought.1.buckets).isSome = true :=
  ⟨by constructor <;> decide, by decide⟩

/-! ### 3. "Each is claimable exactly once" -/

/-- the purchased goods are claimable exactly once: an accepted `WithdrawPurchased` removes the
    listing, after which every further claim and every purchase of that id is refused — for
    every sender and at every later time.  (`WFInv`, C12, supplies "a closed record is filed
    under its claimant"; right after a purchase this is `C03_swap`.) -/
theorem C03_claim_once_listing {m m' : Market} {j u : Nat} (hI : IdsInv m) (hW : WFInv j u m)
    {env : Env} {who lid : Nat} {out : List OutMsg}
    (h : withdrawPurchased m env who lid = .ok (m', out)) :
    findById lid m'.listings = none ∧
    (∀ env' who', ∃ e, withdrawPurchased m' env' who' lid = .error e) ∧
    (∀ env' buyer bid, ∃ e, buy m' env' buyer lid bid = .error e) := by
  obtain ⟨k, l, hl, hc, _, hm, _⟩ := withdrawPurchased_inv h
  obtain ⟨hk, _, _⟩ := hI.find_key hl
  have hcr : who = l.creator := hW.claimant_creator (findById_some hl).2 hc
  have hnone : findById lid m'.listings = none := by
    rw [findById_eq_none_iff]
    intro p hp hid
    rw [hm] at hp
    obtain ⟨hp1, hp2⟩ := mem_aerase.1 hp
    have := hI.findById_iff.2 ⟨hp1, hid⟩
    rw [hl] at this
    cases this
    exact hp2 (by rw [hk, hcr])
  refine ⟨hnone, ?_, ?_⟩
  · intro env' who'
    exact ⟨.notFound, by simp [withdrawPurchased, hnone]⟩
  · intro env' buyer bid
    cases hb : buy m' env' buyer lid bid with
    | error e => exact ⟨e, rfl⟩
    | ok r =>
      obtain ⟨_, _, _, hl', _⟩ := BuyTerms.of_ok hb
      rw [hnone] at hl'; cases hl'

/-- non-vacuity of `C03_claim_once_listing`: after the sale the invariants hold and buyer 20's
    claim is accepted -/
example : IdsInv BuyEx.bought.1 ∧ WFInv 100 101 BuyEx.bought.1 ∧
    ∃ r, withdrawPurchased BuyEx.bought.1 BuyEx.env 20 1 = .ok r :=
  ⟨by constructor <;> decide, by constructor <;> decide, _, rfl⟩

/-- the bucket's goods are claimable exactly once: an accepted `RemoveBucket` removes the bucket,
    after which nobody can withdraw it again or pay with it. -/
theorem C03_claim_once_bucket {m m' : Market} (hI : IdsInv m) {env : Env} {who bid : Nat}
    {out : List OutMsg} (h : withdrawBucket m env who bid = .ok (m', out)) :
    (∀ env' who', ∃ e, withdrawBucket m' env' who' bid = .error e) ∧
    (∀ env' who' lid, ∃ e, buy m' env' who' lid bid = .error e) := by
  obtain ⟨b, hb, _, hm, _⟩ := withdrawBucket_inv h
  have hnone : ∀ who', alookup (who', bid) m'.buckets = none := by
    intro who'
    rw [hm]
    show alookup (who', bid) (aerase (who, bid) m.buckets) = none
    by_cases hw : who' = who
    · subst hw; exact alookup_aerase_self _ _
    · have n : (who', bid) ≠ (who, bid) := fun e => hw (Prod.mk.inj e).1
      rw [alookup_aerase_ne n]
      cases hx : alookup (who', bid) m.buckets with
      | none => rfl
      | some x => exact absurd (hI.bucket_owner hx hb) hw
  constructor
  · intro env' who'
    exact ⟨.notFound, by simp [withdrawBucket, hnone who']⟩
  · intro env' who' lid
    exact ⟨.noBucket, by simp [buy, hnone who']⟩

/-- non-vacuity of `C03_claim_once_bucket`: the seller takes the proceeds after the sale -/
example : IdsInv BuyEx.bought.1 ∧ ∃ r, withdrawBucket BuyEx.bought.1 BuyEx.env 10 2 = .ok r :=
  ⟨by constructor <;> decide, _, rfl⟩

/-! ### 4. "a listing is sold at most once" -/

/-- (a) an accepted purchase puts the listing into the absorbing state `SoldOut` (its id is
    logged and every live record carrying it is closed) … -/
theorem C03_sold_after_buy {m m' : Market} {env : Env} {buyer lid bid : Nat} {out : List OutMsg}
    (hI : IdsInv m) (h : buy m env buyer lid bid = .ok (m', out)) : SoldOut m' lid :=
  buy_makes_soldOut hI h

/-- non-vacuity of `C03_sold_after_buy` -/
example : IdsInv BuyEx.mkt ∧ buy BuyEx.mkt BuyEx.env 20 1 2 = .ok BuyEx.bought :=
  ⟨BuyEx.ids, BuyEx.buy_eq⟩

/-- (b) … which **every** accepted message of every sender preserves (a closed record stays
    closed until it is withdrawn; a withdrawn or deleted id stays gone because creation refuses
    logged ids) — no invariant needed … -/
theorem C03_sold_stays {m m' : Market} {env : Env} {s : Nat} {f : List Coin} {msg : ExecMsg}
    {out : List OutMsg} {lid : Nat} (hS : SoldOut m lid)
    (h : execute m env s f msg = .ok (m', out)) : SoldOut m' lid :=
  execute_soldOut hS h

/-- non-vacuity of `C03_sold_stays`: listing 1 is sold out after the sale, and the buyer's claim
    is an accepted message in that state -/
example : SoldOut BuyEx.bought.1 1 ∧
    ∃ r, execute BuyEx.bought.1 BuyEx.env 20 [] (.withdrawPurchased 1) = .ok r :=
  ⟨buy_makes_soldOut BuyEx.ids BuyEx.buy_eq, _, rfl⟩

/-- … along whole histories … -/
theorem C03_sold_stays_run {w : World} {lid : Nat} (hS : SoldOut w.mkt lid) (ops : List Op) :
    SoldOut (run w ops).mkt lid :=
  run_preserves (soldOut_preserved lid) ops hS

/-- non-vacuity of `C03_sold_stays_run` -/
example : SoldOut BuyEx.world'.mkt 1 := by
  have : BuyEx.world'.mkt = BuyEx.bought.1 := rfl
  rw [this]; exact buy_makes_soldOut BuyEx.ids BuyEx.buy_eq

/-- (c) … and in which every purchase of that listing is refused.  `SoldOut` is the
    "closed, or used and gone" state of the property (`soldOrGone`). -/
theorem C03_sold_refuses {m : Market} {lid : Nat} (hS : SoldOut m lid) (env : Env)
    (buyer bid : Nat) : ∃ e, buy m env buyer lid bid = .error e :=
  hS.buy_fails env buyer bid

/-- non-vacuity of `C03_sold_refuses` -/
example : SoldOut BuyEx.bought.1 1 := buy_makes_soldOut BuyEx.ids BuyEx.buy_eq

/-- `SoldOut` is the "closed, or used and gone" state: under `IdsInv` the listing with that id is
    closed, or the id is logged as used and no live listing carries it. -/
theorem C03_soldOut_iff {m : Market} (hI : IdsInv m) (lid : Nat) :
    SoldOut m lid ↔
      (∃ k l, findById lid m.listings = some (k, l) ∧ l.status = .closed) ∨
      (lid ∈ m.listingUsed ∧ findById lid m.listings = none) :=
  SoldOut_iff_soldOrGone hI lid

/-- non-vacuity of `C03_soldOut_iff` -/
example : IdsInv BuyEx.bought.1 := by constructor <;> decide

/-- "under every ordering of competing purchases, deletions and withdrawals a listing is sold at
    most once": along the trace of **any** operation list from a state satisfying `IdsInv`, the
    number of successful purchase transactions for listing `lid` (`buysOf`: any sender, any
    bucket) is at most one.  `hpres` is exactly `C09_inv_execute` ("every accepted message
    preserves `IdsInv`"), proved in Props/C09.lean; instantiate with
    `fun _ _ _ _ _ _ _ hi h => C09_inv_execute hi h` (checked). -/
theorem C03_sold_once {w : World} (hpres : ExecPreserves IdsInv) (hI : IdsInv w.mkt) (lid : Nat)
    (ops : List Op) : buysOf lid w ops ≤ 1 :=
  buysOf_le_one hpres ops hI

/-- non-vacuity of `C03_sold_once`, computed: from the example world (which satisfies `IdsInv`)
    — a purchase with the wrong bucket (refused), buyer 20's purchase (accepted), the competitor's
    purchase with a matching bucket (refused: sold), the buyer's withdrawal, the competitor
    again (refused: gone) — exactly one purchase succeeds. -/
example : IdsInv BuyEx.world.mkt ∧
    buysOf 1 BuyEx.world
      [.exec 30 [] (.buy 1 4), .exec 20 [] (.buy 1 2), .exec 30 [] (.buy 1 3),
       .exec 20 [] (.withdrawPurchased 1), .exec 30 [] (.buy 1 3)] = 1 ∧
    (run BuyEx.world
      [.exec 30 [] (.buy 1 4), .exec 20 [] (.buy 1 2), .exec 30 [] (.buy 1 3),
       .exec 20 [] (.withdrawPurchased 1)]).mkt.listings = [] :=
  ⟨BuyEx.ids, by decide, by decide⟩

/-- The same fact without the counting function: after a successful purchase of `lid`, every
    purchase transaction for `lid` at any later point of any continuation is refused. -/
theorem C03_second_buy_refused {w : World} {s : Nat} {f : List Coin} {lid bid : Nat}
    (hI : IdsInv w.mkt) (hok : (step w (.exec s f (.buy lid bid))).2.ok = true)
    (ops : List Op) (s' : Nat) (f' : List Coin) (bid' : Nat) :
    (step (run (step w (.exec s f (.buy lid bid))).1 ops) (.exec s' f' (.buy lid bid'))).2.ok = false := by
  obtain ⟨m', msgs, hb, _, hm, _⟩ := step_buy_ok hok
  have hS : SoldOut (step w (.exec s f (.buy lid bid))).1.mkt lid := by
    rw [hm]; exact buy_makes_soldOut hI hb
  exact step_buy_refused_of_soldOut (C03_sold_stays_run hS ops) s' f' bid'

/-- non-vacuity of `C03_second_buy_refused` -/
example : IdsInv BuyEx.world.mkt ∧ (step BuyEx.world (.exec 20 [] (.buy 1 2))).2.ok = true :=
  ⟨BuyEx.ids, by decide⟩

/-! ### 5. "losing buyers keep their buckets intact" -/

/-- a refused purchase leaves the whole world unchanged (`C02_refused_noop` for `buy`); in
    particular the losing buyer's bucket is still there with the same contents. -/
theorem C03_loser_intact {w : World} {b2 : Nat} {f : List Coin} {lid bid2 : Nat}
    (h : (step w (.exec b2 f (.buy lid bid2))).2.ok = false) :
    (step w (.exec b2 f (.buy lid bid2))).1 = w ∧
    alookup (b2, bid2) (step w (.exec b2 f (.buy lid bid2))).1.mkt.buckets =
      alookup (b2, bid2) w.mkt.buckets := by
  have := stepF_refused_noop noFault w _ h
  exact ⟨this, by unfold step; rw [this]⟩

/-- non-vacuity of `C03_loser_intact`: the competitor's purchase after the sale is refused -/
example : (step BuyEx.world' (.exec 30 [] (.buy 1 3))).2.ok = false := by decide

/-- the *winner's* purchase does not touch the losers' buckets either: every bucket other than
    the one paid with is stored, unchanged, under the same key afterwards. -/
theorem C03_loser_untouched {w : World} {buyer : Nat} {f : List Coin} {lid bid : Nat}
    (hI : IdsInv w.mkt) (hok : (step w (.exec buyer f (.buy lid bid))).2.ok = true)
    {b2 bid2 : Nat} {x : Bucket} (hx : alookup (b2, bid2) w.mkt.buckets = some x)
    (hne : (b2, bid2) ≠ (buyer, bid)) :
    alookup (b2, bid2) (step w (.exec buyer f (.buy lid bid))).1.mkt.buckets = some x := by
  obtain ⟨m', msgs, hb, _, hm, _⟩ := step_buy_ok hok
  obtain ⟨l, b, l', b', _, hbb, _, _, _, _, _, _, _, _, _, hfr, _⟩ := C03_swap hI hb
  rw [hm, ← hx]
  have hbid : bid2 ≠ bid := by
    intro e
    subst e
    exact hne (by rw [hI.bucket_owner hx hbb])
  exact hfr (b2, bid2) (fun e => hbid (Prod.mk.inj e).2) (fun e => hbid (Prod.mk.inj e).2)

/-- non-vacuity of `C03_loser_untouched`: the competitor's buckets 3 and 4 while buyer 20 buys -/
example : IdsInv BuyEx.world.mkt ∧ (step BuyEx.world (.exec 20 [] (.buy 1 2))).2.ok = true ∧
    (alookup (30, 3) BuyEx.world.mkt.buckets).isSome = true ∧ ((30, 3) : Nat × Nat) ≠ (20, 2) :=
  ⟨BuyEx.ids, by decide, by decide, by decide⟩

#print axioms C03_swap
#print axioms C03_swap_claims
#print axioms C03_claim_only_buyer
#print axioms C03_no_delete_after_sale
#print axioms C03_no_rebuy
#print axioms C03_claim_only_seller
#print axioms C03_claim_once_listing
#print axioms C03_claim_once_bucket
#print axioms C03_sold_after_buy
#print axioms C03_sold_stays
#print axioms C03_sold_stays_run
#print axioms C03_sold_refuses
#print axioms C03_soldOut_iff
#print axioms C03_sold_once
#print axioms C03_second_buy_refused
#print axioms C03_loser_intact
#print axioms C03_loser_untouched

end Fuzion
