/-
  Fuzion.Props.C06 — "A trade costs exactly the 0.5% fee plus registered royalties, nothing more".

  Property text (C06): At purchase each side is reduced by exactly floor(0.5%) of its amount in
  the current fee denomination (when present and non-zero) and then, for every distinct
  royalty-registered collection among the NFTs the seller is selling (charged to the bucket) or
  the buyer is paying with (charged to the listing goods), by floor(bps/10000 x post-fee amount)
  of every fungible asset on that side.  Those royalties are paid to the registered payout
  addresses in the same transaction, once per collection per side however many of its NFTs are
  involved.  No other deduction occurs and traders' own wallets are untouched by the purchase
  itself.

  The cost of a trade is specified DECLARATIVELY, without reference to the model's code, by
  `feeOf`, `afterFeeAmt`, `sideEntries`, `royaltyOn` (and the list-level forms `afterFee`,
  `afterRoyalty`, `royaltyMsgs`) in `Fuzion/Lemmas/TradeLemmas.lean`; the theorems say that
  `buy` (`execute_buy_listing`, execute.rs), `calcFeeCoin` (`calc_fee_coin`, utils.rs) and
  `royalties` (`GenericBalance::royalties`, state.rs) compute exactly that, on states that
  satisfy the invariants `WFInv` / `IdsInv` (C12 / C09) and hold 128-bit amounts.
  `fd` is always the current fee denomination `feeDenomOf env m.feeKind`.
  Core library only.
-/
import Fuzion.Lemmas.TradeLemmas
namespace Fuzion

/-! ### 1. once per collection per side -/

/-- "for every distinct royalty-registered collection … once per collection per side however
    many of its NFTs are involved": the collection list of a side has no duplicates and contains
    exactly the collections of the side's NFTs; the entries charged are the registry's answers
    for that list, so each registered collection contributes one entry, whatever the number of
    its NFTs on the side. -/
theorem C06_collections_distinct (env : Env) (g : GBal) :
    (collections g).Nodup ∧ (∀ c, c ∈ collections g ↔ ∃ n ∈ g.nfts, n.coll = c) ∧
    sideEntries env g = (collections g).filterMap env.regLookup ∧
    (sideEntries env g).length ≤ (collections g).length := by
  obtain ⟨h1, h2⟩ := collections_spec g
  have h3 : sideEntries env g = (collections g).filterMap env.regLookup := by
    unfold sideEntries; rw [List.filterMap_map]; rfl
  exact ⟨h1, h2, h3, h3 ▸ List.length_filterMap_le _ _⟩

/-- three NFTs of collection 50 and one of 51 on a side: two collections, and with only 50
    registered a single entry is charged -/
example :
    collections ⟨[], [], [⟨50, 1⟩, ⟨51, 9⟩, ⟨50, 2⟩, ⟨50, 3⟩]⟩ = [50, 51] ∧
    sideEntries BuyEx.env ⟨[], [], [⟨50, 1⟩, ⟨51, 9⟩, ⟨50, 2⟩, ⟨50, 3⟩]⟩ = [⟨0, 300, 99⟩] := by
  decide

/-! ### 2. what the purchase does to the two sides -/

/-- "each side is reduced by exactly floor(0.5%) of its amount in the current fee denomination
    (when present and non-zero) and then, for every distinct royalty-registered collection among
    the NFTs the seller is selling (charged to the bucket) or the buyer is paying with (charged
    to the listing goods), by floor(bps/10000 x post-fee amount) of every fungible asset on that
    side".  `l`, `b` are the traded records, `l'`, `b'` the re-filed ones.
    (a) the fee recorded on each new record is `feeOf` of the old goods;
    (b) per native denomination / CW20 token the new amount is the post-fee amount minus the
        royalty total on the post-fee amount — the seller's collections charge the bucket, the
        buyer's the listing; CW20 amounts carry no fee;
    (c) the NFTs of both sides are unchanged;
    (d) ask, whitelist, times and id are unchanged; owner, claimant, status are the swap of C03. -/
theorem C06_buy_effect {j u : Nat} {m m' : Market} {env : Env} {buyer lid bid fd : Nat}
    {out : List OutMsg} (hfd : fd = feeDenomOf env m.feeKind)
    (hW : WFInv j u m) (hI : IdsInv m)
    (hbl : ∀ p ∈ m.listings, p.2.forSale.bounded) (hbb : ∀ p ∈ m.buckets, p.2.funds.bounded)
    (h : buy m env buyer lid bid = .ok (m', out)) :
    ∃ l b l' b',
      alookup (l.creator, lid) m.listings = some l ∧ alookup (buyer, bid) m.buckets = some b ∧
      alookup (buyer, lid) m'.listings = some l' ∧ alookup (l.creator, bid) m'.buckets = some b' ∧
      -- (a)
      b'.fee = feeOf fd b.funds ∧ l'.fee = feeOf fd l.forSale ∧
      -- (b) the bucket, charged with the seller's collections
      (∀ k, coinAmt b'.funds.native k = afterFeeAmt fd b.funds k -
        royaltyOn (sideEntries env l.forSale) (afterFeeAmt fd b.funds k)) ∧
      (∀ k, coinAmt b'.funds.cw20 k = coinAmt b.funds.cw20 k -
        royaltyOn (sideEntries env l.forSale) (coinAmt b.funds.cw20 k)) ∧
      -- (b) the listing goods, charged with the buyer's collections
      (∀ k, coinAmt l'.forSale.native k = afterFeeAmt fd l.forSale k -
        royaltyOn (sideEntries env b.funds) (afterFeeAmt fd l.forSale k)) ∧
      (∀ k, coinAmt l'.forSale.cw20 k = coinAmt l.forSale.cw20 k -
        royaltyOn (sideEntries env b.funds) (coinAmt l.forSale.cw20 k)) ∧
      -- (c)
      b'.funds.nfts = b.funds.nfts ∧ l'.forSale.nfts = l.forSale.nfts ∧
      -- (d)
      l'.ask = l.ask ∧ l'.whitelist = l.whitelist ∧ l'.finalizedAt = l.finalizedAt ∧
      l'.expiresAt = l.expiresAt ∧ l'.id = l.id ∧ l'.creator = buyer ∧ l'.claimant = some buyer ∧
      l'.status = .closed ∧ b'.owner = l.creator := by
  subst hfd
  obtain ⟨k, l, b, hl, hb, _, wl, wb, _, _, rfl, _⟩ := buy_closed hW hbl hbb h
  obtain ⟨_, _, hal⟩ := hI.find_key hl
  obtain ⟨nl1, nl2⟩ := wfBal_keys wl
  obtain ⟨nb1, nb2⟩ := wfBal_keys wb
  refine ⟨l, b, _, _, hal, hb, alookup_ainsert_self _ _ _, alookup_ainsert_self _ _ _, rfl, rfl,
    ?_, ?_, ?_, ?_, ?_, ?_, rfl, rfl, rfl, rfl, rfl, rfl, rfl, rfl, rfl⟩
  · intro k
    show coinAmt ((afterFee _ b.funds).native.map (Coin.lessRoyalty _)) k = _
    rw [coinAmt_lessRoyalty (afterFee_keys_nodup nb1), afterFee_amt nb1]
  · intro k
    show coinAmt ((afterFee _ b.funds).cw20.map (Coin.lessRoyalty _)) k = _
    rw [afterFee_cw20, coinAmt_lessRoyalty nb2]
  · intro k
    show coinAmt ((afterFee _ l.forSale).native.map (Coin.lessRoyalty _)) k = _
    rw [coinAmt_lessRoyalty (afterFee_keys_nodup nl1), afterFee_amt nl1]
  · intro k
    show coinAmt ((afterFee _ l.forSale).cw20.map (Coin.lessRoyalty _)) k = _
    rw [afterFee_cw20, coinAmt_lessRoyalty nl2]
  · exact afterFee_nfts _ _
  · exact afterFee_nfts _ _

/-- the hypotheses of the purchase theorems of this file are met by the example market of
    `BuyLemmas.lean` (listing 1 of seller 10: 1000 of the fee denomination 100 and an NFT of
    collection 50, registered at 300 bps with payout address 99; bucket 2 of buyer 20) -/
theorem C06_example_hyps :
    100 = feeDenomOf BuyEx.env BuyEx.mkt.feeKind ∧ WFInv 100 101 BuyEx.mkt ∧ IdsInv BuyEx.mkt ∧
    (∀ p ∈ BuyEx.mkt.listings, p.2.forSale.bounded) ∧ (∀ p ∈ BuyEx.mkt.buckets, p.2.funds.bounded) ∧
    buy BuyEx.mkt BuyEx.env 20 1 2 = .ok BuyEx.bought :=
  ⟨rfl, BuyEx.wf, BuyEx.ids, by decide, by decide, BuyEx.buy_eq⟩

/-- non-vacuity of `C06_buy_effect`: it applies to the example purchase -/
example := C06_buy_effect C06_example_hyps.1 C06_example_hyps.2.1 C06_example_hyps.2.2.1
  C06_example_hyps.2.2.2.1 C06_example_hyps.2.2.2.2.1 C06_example_hyps.2.2.2.2.2

/-- what `C06_buy_effect` says there, computed: the listing keeps 995 of
    denomination 100 (fee 5, the buyer pays with no NFT so no royalty); the bucket keeps
    485 = 500 − ⌊500·300/10⁴⌋ of denomination 101 (no fee: not the fee denomination), and its
    small CW20 amounts are untouched because their 3 % share rounds to zero -/
example :
    (alookup (20, 1) BuyEx.bought.1.listings).map (fun l => (l.fee, l.forSale)) =
      some (some ⟨100, 5⟩, ⟨[⟨100, 995⟩], [], [⟨50, 7⟩]⟩) ∧
    (alookup (10, 2) BuyEx.bought.1.buckets).map (fun b => (b.fee, b.funds)) =
      some (none, ⟨[⟨101, 485⟩], [⟨61, 5⟩, ⟨60, 20⟩], []⟩) := by decide

/-! ### 3. the payouts -/

/-- "Those royalties are paid to the registered payout addresses in the same transaction":
    the messages of an accepted purchase are the pending fee of the paying bucket (if any; the
    repair of D1), then the royalty payouts charged to the bucket — for each native coin `c` of
    the post-fee bucket and each entry `e` of the seller's collections with a non-zero share one
    `bankSend e.payout [⟨c.key, ⌊c.amount·e.bps/10⁴⌋⟩]`, then likewise one `cw20Transfer` per CW20
    amount (`royaltyMsgs`, characterised element by element in `C06_payout_messages`) — then the
    same for the listing goods with the buyer's collections. -/
theorem C06_payouts {j u : Nat} {m m' : Market} {env : Env} {buyer lid bid fd : Nat}
    {out : List OutMsg} (hfd : fd = feeDenomOf env m.feeKind) (hW : WFInv j u m)
    (hbl : ∀ p ∈ m.listings, p.2.forSale.bounded) (hbb : ∀ p ∈ m.buckets, p.2.funds.bounded)
    (h : buy m env buyer lid bid = .ok (m', out)) :
    ∃ k l b, findById lid m.listings = some (k, l) ∧ alookup (buyer, bid) m.buckets = some b ∧
      out = pendingFeeMsgs env.self b.fee ++
        royaltyMsgs (sideEntries env l.forSale) (afterFee fd b.funds) ++
        royaltyMsgs (sideEntries env b.funds) (afterFee fd l.forSale) := by
  subst hfd
  obtain ⟨k, l, b, hl, hb, _, _, _, _, _, _, ho⟩ := buy_closed hW hbl hbb h
  exact ⟨k, l, b, hl, hb, ho⟩

/-- non-vacuity of `C06_payouts`: it applies to the example purchase (`C06_example_hyps`), whose
    message list is the single royalty transfer of 15 of denomination 101 to address 99 -/
example := C06_payouts C06_example_hyps.1 C06_example_hyps.2.1 C06_example_hyps.2.2.2.1
  C06_example_hyps.2.2.2.2.1 C06_example_hyps.2.2.2.2.2
example : BuyEx.bought.2 = [.bankSend 99 [⟨101, 15⟩]] := by decide

/-- the royalty messages element by element: exactly one bank transfer per (native coin, entry)
    pair and one CW20 transfer per (CW20 amount, entry) pair whose share `⌊amount·bps/10⁴⌋` is
    not zero, carrying that share to the entry's payout address; their number is the number of
    such pairs.  The post-fee side `afterFee fd g` they are computed from holds, per
    denomination, `afterFeeAmt fd g`, and the CW20 amounts and NFTs of `g`. -/
theorem C06_payout_messages (es : List RoyaltyInfo) (g : GBal) :
    (∀ x, x ∈ royaltyMsgs es g ↔
      (∃ c ∈ g.native, ∃ e ∈ es, c.amount * e.bps / 10000 ≠ 0 ∧
        x = .bankSend e.payout [⟨c.key, c.amount * e.bps / 10000⟩]) ∨
      (∃ c ∈ g.cw20, ∃ e ∈ es, c.amount * e.bps / 10000 ≠ 0 ∧
        x = .cw20Transfer c.key e.payout (c.amount * e.bps / 10000))) ∧
    (royaltyMsgs es g).length =
      ((g.native ++ g.cw20).map fun c =>
        (es.filter fun e => decide (c.amount * e.bps / 10000 ≠ 0)).length).sum ∧
    (∀ fd, (keys g.native).Nodup →
      (∀ k, coinAmt (afterFee fd g).native k = afterFeeAmt fd g k) ∧
      (afterFee fd g).cw20 = g.cw20 ∧ (afterFee fd g).nfts = g.nfts) :=
  ⟨fun _ => mem_royaltyMsgs, length_royaltyMsgs es g,
   fun fd nd => ⟨afterFee_amt nd, afterFee_cw20 fd g, afterFee_nfts fd g⟩⟩

example : (keys BuyEx.pay.native).Nodup := by decide

/-- "paid to the registered payout addresses … once per collection per side": per payout address
    `p`, the purchase sends `p`, in native denomination `d`, the sum over the entries paying to `p`
    of `⌊bps/10⁴ × post-fee amount of d⌋` of the bucket (entries of the seller's collections) plus
    the same of the listing goods (entries of the buyer's collections); likewise per CW20 token.
    Entries that share a payout address add up; nothing else is sent to anybody by bank or CW20
    transfer. -/
theorem C06_payout_total {j u : Nat} {m m' : Market} {env : Env} {buyer lid bid fd : Nat}
    {out : List OutMsg} (hfd : fd = feeDenomOf env m.feeKind) (hW : WFInv j u m)
    (hbl : ∀ p ∈ m.listings, p.2.forSale.bounded) (hbb : ∀ p ∈ m.buckets, p.2.funds.bounded)
    (h : buy m env buyer lid bid = .ok (m', out)) :
    ∃ k l b, findById lid m.listings = some (k, l) ∧ alookup (buyer, bid) m.buckets = some b ∧
      (∀ p d, sentNative out p d =
        royaltyOn ((sideEntries env l.forSale).filter fun e => decide (e.payout = p))
          (afterFeeAmt fd b.funds d) +
        royaltyOn ((sideEntries env b.funds).filter fun e => decide (e.payout = p))
          (afterFeeAmt fd l.forSale d)) ∧
      (∀ p t, sentCw20 out p t =
        royaltyOn ((sideEntries env l.forSale).filter fun e => decide (e.payout = p))
          (coinAmt b.funds.cw20 t) +
        royaltyOn ((sideEntries env b.funds).filter fun e => decide (e.payout = p))
          (coinAmt l.forSale.cw20 t)) := by
  subst hfd
  obtain ⟨k, l, b, hl, hb, _, wl, wb, _, _, _, rfl⟩ := buy_closed hW hbl hbb h
  obtain ⟨nl1, nl2⟩ := wfBal_keys wl
  obtain ⟨nb1, nb2⟩ := wfBal_keys wb
  have p1 : ∀ p d, sentNative (pendingFeeMsgs env.self b.fee) p d = 0 := by
    intro p d; cases b.fee <;> rfl
  have p2 : ∀ p t, sentCw20 (pendingFeeMsgs env.self b.fee) p t = 0 := by
    intro p t; cases b.fee <;> rfl
  refine ⟨k, l, b, hl, hb, ?_, ?_⟩
  · intro p d
    rw [sentNative_append, sentNative_append, p1,
      sentNative_royaltyMsgs (afterFee_keys_nodup nb1), sentNative_royaltyMsgs (afterFee_keys_nodup nl1),
      afterFee_amt nb1, afterFee_amt nl1, Nat.zero_add]
  · intro p t
    have c1 : (keys (afterFee (feeDenomOf env m.feeKind) b.funds).cw20).Nodup := by
      rw [afterFee_cw20]; exact nb2
    have c2 : (keys (afterFee (feeDenomOf env m.feeKind) l.forSale).cw20).Nodup := by
      rw [afterFee_cw20]; exact nl2
    rw [sentCw20_append, sentCw20_append, p2, sentCw20_royaltyMsgs c1, sentCw20_royaltyMsgs c2,
      afterFee_cw20, afterFee_cw20, Nat.zero_add]

/-- non-vacuity of `C06_payout_total`: it applies to the example purchase -/
example := C06_payout_total C06_example_hyps.1 C06_example_hyps.2.1 C06_example_hyps.2.2.2.1
  C06_example_hyps.2.2.2.2.1 C06_example_hyps.2.2.2.2.2
/-- computed on the example: payout address 99 receives 15 of denomination 101, nobody else
    anything -/
example : sentNative BuyEx.bought.2 99 101 = 15 ∧ sentNative BuyEx.bought.2 99 100 = 0 ∧
    sentNative BuyEx.bought.2 10 101 = 0 ∧ sentCw20 BuyEx.bought.2 99 60 = 0 := by decide

/-! ### 4. nothing else is deducted -/

/-- "No other deduction occurs": per native denomination, what a side held before the purchase
    is what it holds afterwards plus the fee recorded on the new record (it stays in the
    marketplace's wallet until the withdrawal sends it to the community pool, C05) plus what the
    royalty messages charged to that side send out; per CW20 token the same without a fee.  The
    amounts sent out are the royalty totals of (b).  Together with `C06_payouts` (there is no other
    message) nothing else leaves either side. -/
theorem C06_no_other_deduction {j u : Nat} {m m' : Market} {env : Env} {buyer lid bid fd : Nat}
    {out : List OutMsg} (hfd : fd = feeDenomOf env m.feeKind)
    (hW : WFInv j u m) (hI : IdsInv m)
    (hbl : ∀ p ∈ m.listings, p.2.forSale.bounded) (hbb : ∀ p ∈ m.buckets, p.2.funds.bounded)
    (h : buy m env buyer lid bid = .ok (m', out)) :
    ∃ l b l' b' msgsB msgsL,
      alookup (l.creator, lid) m.listings = some l ∧ alookup (buyer, bid) m.buckets = some b ∧
      alookup (buyer, lid) m'.listings = some l' ∧ alookup (l.creator, bid) m'.buckets = some b' ∧
      out = pendingFeeMsgs env.self b.fee ++ msgsB ++ msgsL ∧
      msgsB = royaltyMsgs (sideEntries env l.forSale) (afterFee fd b.funds) ∧
      msgsL = royaltyMsgs (sideEntries env b.funds) (afterFee fd l.forSale) ∧
      -- the bucket
      (∀ k, coinAmt b.funds.native k =
        coinAmt b'.funds.native k + feeAmt b'.fee k + outNative msgsB k) ∧
      (∀ k, coinAmt b.funds.cw20 k = coinAmt b'.funds.cw20 k + outCw20 msgsB k) ∧
      (∀ k, outNative msgsB k = royaltyOn (sideEntries env l.forSale) (afterFeeAmt fd b.funds k)) ∧
      (∀ k, outCw20 msgsB k = royaltyOn (sideEntries env l.forSale) (coinAmt b.funds.cw20 k)) ∧
      -- the listing goods
      (∀ k, coinAmt l.forSale.native k =
        coinAmt l'.forSale.native k + feeAmt l'.fee k + outNative msgsL k) ∧
      (∀ k, coinAmt l.forSale.cw20 k = coinAmt l'.forSale.cw20 k + outCw20 msgsL k) ∧
      (∀ k, outNative msgsL k = royaltyOn (sideEntries env b.funds) (afterFeeAmt fd l.forSale k)) ∧
      (∀ k, outCw20 msgsL k = royaltyOn (sideEntries env b.funds) (coinAmt l.forSale.cw20 k)) ∧
      -- the royalties never exceed half of what is left after the fee
      (∀ a, 2 * royaltyOn (sideEntries env l.forSale) a ≤ a) ∧
      (∀ a, 2 * royaltyOn (sideEntries env b.funds) a ≤ a) := by
  obtain ⟨l, b, l', b', h1, h2, h3, h4, fb, fl, nb, cb, nl, cl, _⟩ :=
    C06_buy_effect hfd hW hI hbl hbb h
  subst hfd
  obtain ⟨k, l0, b0, hl, hb, _, wl, wb, s1, s2, _, ho⟩ := buy_closed hW hbl hbb h
  obtain ⟨_, _, hal⟩ := hI.find_key hl
  have e1 : l0 = l := by
    have hf := (hI.alookup_id h1).2.2
    rw [hl] at hf; cases hf; rfl
  subst e1
  rw [h2] at hb; cases hb
  obtain ⟨nl1, nl2⟩ := wfBal_keys wl
  obtain ⟨nb1, nb2⟩ := wfBal_keys wb
  have r1 := royaltyOn_le_half s1
  have r2 := royaltyOn_le_half s2
  have oB : ∀ k, outNative (royaltyMsgs (sideEntries env l0.forSale)
      (afterFee (feeDenomOf env m.feeKind) b.funds)) k =
      royaltyOn (sideEntries env l0.forSale) (afterFeeAmt (feeDenomOf env m.feeKind) b.funds k) := by
    intro k; rw [outNative_royaltyMsgs (afterFee_keys_nodup nb1), afterFee_amt nb1]
  have oL : ∀ k, outNative (royaltyMsgs (sideEntries env b.funds)
      (afterFee (feeDenomOf env m.feeKind) l0.forSale)) k =
      royaltyOn (sideEntries env b.funds) (afterFeeAmt (feeDenomOf env m.feeKind) l0.forSale k) := by
    intro k; rw [outNative_royaltyMsgs (afterFee_keys_nodup nl1), afterFee_amt nl1]
  have cB : ∀ k, outCw20 (royaltyMsgs (sideEntries env l0.forSale)
      (afterFee (feeDenomOf env m.feeKind) b.funds)) k =
      royaltyOn (sideEntries env l0.forSale) (coinAmt b.funds.cw20 k) := by
    intro k
    rw [outCw20_royaltyMsgs (by rw [afterFee_cw20]; exact nb2), afterFee_cw20]
  have cL : ∀ k, outCw20 (royaltyMsgs (sideEntries env b.funds)
      (afterFee (feeDenomOf env m.feeKind) l0.forSale)) k =
      royaltyOn (sideEntries env b.funds) (coinAmt l0.forSale.cw20 k) := by
    intro k
    rw [outCw20_royaltyMsgs (by rw [afterFee_cw20]; exact nl2), afterFee_cw20]
  refine ⟨l0, b, l', b', _, _, h1, h2, h3, h4, ho, rfl, rfl, ?_, ?_, oB, cB, ?_, ?_, oL, cL, r1, r2⟩
  · intro k
    have := r1 (afterFeeAmt (feeDenomOf env m.feeKind) b.funds k)
    have hfee := fee_le (coinAmt b.funds.native (feeDenomOf env m.feeKind))
    rw [oB, nb, fb, feeAmt_feeOf]
    unfold afterFeeAmt at this ⊢
    by_cases hk : k = feeDenomOf env m.feeKind
    · subst hk; simp only [if_true] at this ⊢; omega
    · simp only [hk, if_false] at this ⊢; omega
  · intro k
    have := r1 (coinAmt b.funds.cw20 k)
    rw [cB, cb]; omega
  · intro k
    have := r2 (afterFeeAmt (feeDenomOf env m.feeKind) l0.forSale k)
    have hfee := fee_le (coinAmt l0.forSale.native (feeDenomOf env m.feeKind))
    rw [oL, nl, fl, feeAmt_feeOf]
    unfold afterFeeAmt at this ⊢
    by_cases hk : k = feeDenomOf env m.feeKind
    · subst hk; simp only [if_true] at this ⊢; omega
    · simp only [hk, if_false] at this ⊢; omega
  · intro k
    have := r2 (coinAmt l0.forSale.cw20 k)
    rw [cL, cl]; omega

/-- non-vacuity of `C06_no_other_deduction`: it applies to the example purchase -/
example := C06_no_other_deduction C06_example_hyps.1 C06_example_hyps.2.1 C06_example_hyps.2.2.1
  C06_example_hyps.2.2.2.1 C06_example_hyps.2.2.2.2.1 C06_example_hyps.2.2.2.2.2

/-- "traders' own wallets are untouched by the purchase itself": in the transaction
    `Buy lid bid` sent by `buyer` (it cannot carry coins), whatever its outcome,
    * no NFT changes hands;
    * no account other than the marketplace loses a coin, a CW20 unit or an NFT;
    * every account that is not the marketplace, not the community pool and not the payout
      address of a registered entry of one of the two sides has exactly the balances it had —
      in particular the buyer and the seller, unless they are such a payout address themselves
      (then they can only gain). -/
theorem C06_traders_untouched (w : World) (buyer lid bid : Nat) {k : Nat × Nat} {l : Listing}
    {b : Bucket} (hl : findById lid w.mkt.listings = some (k, l))
    (hb : alookup (buyer, bid) w.mkt.buckets = some b) :
    (step w (.exec buyer [] (.buy lid bid))).1.nft = w.nft ∧
    (∀ y, y ≠ w.self →
      (∀ d, lget w.bank (y, d) ≤ lget (step w (.exec buyer [] (.buy lid bid))).1.bank (y, d)) ∧
      (∀ t, lget w.cw20 (t, y) ≤ lget (step w (.exec buyer [] (.buy lid bid))).1.cw20 (t, y))) ∧
    (∀ y, y ≠ w.self → y ≠ w.pool →
      (∀ e ∈ sideEntries w.env l.forSale ++ sideEntries w.env b.funds, e.payout ≠ y) →
      (∀ d, lget (step w (.exec buyer [] (.buy lid bid))).1.bank (y, d) = lget w.bank (y, d)) ∧
      (∀ t, lget (step w (.exec buyer [] (.buy lid bid))).1.cw20 (t, y) = lget w.cw20 (t, y))) := by
  obtain ⟨h1, h2⟩ := stepF_buy_untouched noFault w buyer lid bid hl hb
  refine ⟨h1, ?_, ?_⟩
  · intro y hy
    have := stepF_buy_noDebit noFault w buyer lid bid hy
    exact ⟨this.bank, this.cw20⟩
  · intro y hy hp hr
    have := h2 y hy hp hr
    exact ⟨this.bank, this.cw20⟩

/-- non-vacuity of `C06_traders_untouched`: in the example world the purchase is accepted, and
    buyer 20 and seller 10 are neither the marketplace (1), nor the pool (2), nor the payout
    address (99) -/
example :
    findById 1 BuyEx.world.mkt.listings = some ((10, 1), BuyEx.lst) ∧
    alookup (20, 2) BuyEx.world.mkt.buckets = some ⟨20, BuyEx.pay, none⟩ ∧
    (step BuyEx.world (.exec 20 [] (.buy 1 2))).2.ok = true ∧
    (∀ y ∈ [10, 20], y ≠ BuyEx.world.self ∧ y ≠ BuyEx.world.pool ∧
      ∀ e ∈ sideEntries BuyEx.world.env BuyEx.lst.forSale ++ sideEntries BuyEx.world.env BuyEx.pay,
        e.payout ≠ y) := by decide

/-- "Those royalties are paid to the registered payout addresses in the same transaction", at
    world level: when the purchase transaction is accepted, every message of `buy` was dispatched
    in that very transaction (a failing dispatch rolls the whole purchase back, C15), and every
    account `p` other than the marketplace and the community pool has been credited, per native
    denomination and per honest CW20 token, with exactly the shares of the entries paying to `p`
    (formula of `C06_payout_total`) — nothing more, nothing less. -/
theorem C06_paid_in_transaction {j u : Nat} {w : World} {buyer lid bid fd : Nat}
    (hfd : fd = feeDenomOf w.env w.mkt.feeKind) (hW : WFInv j u w.mkt)
    (hbl : ∀ p ∈ w.mkt.listings, p.2.forSale.bounded)
    (hbb : ∀ p ∈ w.mkt.buckets, p.2.funds.bounded)
    (hok : (step w (.exec buyer [] (.buy lid bid))).2.ok = true) :
    ∃ k l b m' out, findById lid w.mkt.listings = some (k, l) ∧
      alookup (buyer, bid) w.mkt.buckets = some b ∧
      buy w.mkt w.env buyer lid bid = .ok (m', out) ∧
      (step w (.exec buyer [] (.buy lid bid))).2.msgs = out ∧
      (step w (.exec buyer [] (.buy lid bid))).1.mkt = m' ∧
      ∀ p, p ≠ w.self → p ≠ w.pool →
        (∀ d, lget (step w (.exec buyer [] (.buy lid bid))).1.bank (p, d) =
          lget w.bank (p, d) +
          (royaltyOn ((sideEntries w.env l.forSale).filter fun e => decide (e.payout = p))
            (afterFeeAmt fd b.funds d) +
           royaltyOn ((sideEntries w.env b.funds).filter fun e => decide (e.payout = p))
            (afterFeeAmt fd l.forSale d))) ∧
        (∀ t, w.isHonest20 t = true →
          lget (step w (.exec buyer [] (.buy lid bid))).1.cw20 (t, p) =
          lget w.cw20 (t, p) +
          (royaltyOn ((sideEntries w.env l.forSale).filter fun e => decide (e.payout = p))
            (coinAmt b.funds.cw20 t) +
           royaltyOn ((sideEntries w.env b.funds).filter fun e => decide (e.payout = p))
            (coinAmt l.forSale.cw20 t))) := by
  obtain ⟨m', out, hx, hmsgs, hm, hcr⟩ := stepF_buy_credit (fail := noFault) hok
  obtain ⟨k, l, b, hl, hb, tN, tC⟩ := C06_payout_total hfd hW hbl hbb hx
  refine ⟨k, l, b, m', out, hl, hb, hx, hmsgs, hm, ?_⟩
  intro p h1 h2
  obtain ⟨c1, c2⟩ := hcr p h1 h2
  refine ⟨fun d => ?_, fun t ht => ?_⟩
  · rw [← tN]; exact c1 d
  · rw [← tC]; exact c2 t ht

/-- non-vacuity of `C06_paid_in_transaction`: the example purchase is accepted in the example
    world; computed: payout address 99 ends up with exactly 15 of denomination 101 -/
example : 100 = feeDenomOf BuyEx.world.env BuyEx.world.mkt.feeKind ∧ WFInv 100 101 BuyEx.world.mkt ∧
    (∀ p ∈ BuyEx.world.mkt.listings, p.2.forSale.bounded) ∧
    (∀ p ∈ BuyEx.world.mkt.buckets, p.2.funds.bounded) ∧
    (step BuyEx.world (.exec 20 [] (.buy 1 2))).2.ok = true ∧
    lget BuyEx.world.bank (99, 101) = 0 ∧
    lget (step BuyEx.world (.exec 20 [] (.buy 1 2))).1.bank (99, 101) = 15 :=
  ⟨rfl, BuyEx.wf, by decide, by decide, by decide, by decide, by decide⟩

/-! ### 5. the model's functions equal the declarative formulas -/

/-- The purchase in closed form: on a well-formed state with 128-bit amounts an accepted `buy`
    stores exactly the declaratively specified records (`tradedListing`, `tradedBucket`: fee
    `feeOf`, goods `afterRoyalty entries (afterFee fd goods)`) and emits exactly the declaratively
    specified messages; both rate sums are at most 50 %. -/
theorem C06_buy_closed_form {j u : Nat} {m m' : Market} {env : Env} {buyer lid bid fd : Nat}
    {out : List OutMsg} (hfd : fd = feeDenomOf env m.feeKind) (hW : WFInv j u m)
    (hbl : ∀ p ∈ m.listings, p.2.forSale.bounded) (hbb : ∀ p ∈ m.buckets, p.2.funds.bounded)
    (h : buy m env buyer lid bid = .ok (m', out)) :
    ∃ k l b, findById lid m.listings = some (k, l) ∧ alookup (buyer, bid) m.buckets = some b ∧
      ((sideEntries env l.forSale).map (·.bps)).sum ≤ 5000 ∧
      ((sideEntries env b.funds).map (·.bps)).sum ≤ 5000 ∧
      m' = { m with
        listings := ainsert (buyer, lid) (tradedListing env fd buyer l b)
          (aerase (l.creator, lid) m.listings),
        buckets := ainsert (l.creator, bid) (tradedBucket env fd l b)
          (aerase (buyer, bid) m.buckets) } ∧
      out = pendingFeeMsgs env.self b.fee ++
        royaltyMsgs (sideEntries env l.forSale) (afterFee fd b.funds) ++
        royaltyMsgs (sideEntries env b.funds) (afterFee fd l.forSale) := by
  subst hfd
  obtain ⟨k, l, b, hl, hb, _, _, _, s1, s2, hm, ho⟩ := buy_closed hW hbl hbb h
  exact ⟨k, l, b, hl, hb, s1, s2, hm, ho⟩

/-- non-vacuity of `C06_buy_closed_form`: it applies to the example purchase -/
example := C06_buy_closed_form C06_example_hyps.1 C06_example_hyps.2.1 C06_example_hyps.2.2.2.1
  C06_example_hyps.2.2.2.2.1 C06_example_hyps.2.2.2.2.2

/-- The model's `calcFeeCoin` and `royalties` / `sideRoyalties` equal the declarative formulas:
    on a balance with duplicate-free denominations the fee split returns `(feeOf, afterFee)`; on
    128-bit amounts and a rate sum of at most 50 % the royalty split returns `afterRoyalty`, the
    messages `royaltyMsgs` and the rate sum, and so does the royalty pass of one side of a
    purchase against the instantiated registry. -/
theorem C06_model_eq_spec :
    (∀ fd g, (keys g.native).Nodup → calcFeeCoin fd g = some (feeOf fd g, afterFee fd g)) ∧
    (∀ g rs, g.bounded → ((rs.filterMap id).map (·.bps)).sum ≤ 5000 →
      royalties g rs = .ok (afterRoyalty (rs.filterMap id) g) (royaltyMsgs (rs.filterMap id) g)
        ((rs.filterMap id).map (·.bps)).sum) ∧
    (∀ env g bal, bal.bounded → ((sideEntries env g).map (·.bps)).sum ≤ 5000 →
      sideRoyalties env env.regAddr (collections g) bal =
        .ok (afterRoyalty (sideEntries env g) bal) (royaltyMsgs (sideEntries env g) bal)
          ((sideEntries env g).map (·.bps)).sum) := by
  refine ⟨fun fd g nd => calcFeeCoin_spec nd, ?_, ?_⟩
  · intro g rs hb hs
    obtain ⟨g', ms, e⟩ := C17_roy_total_any g (rs := rs) hs
    obtain ⟨h1, h2, _, _⟩ := royalties_spec hb e
    rw [e, h1, h2]; rfl
  · intro env g bal hb hs
    obtain ⟨fb, ms, s, e⟩ := (sideRoyalties_ok_iff env (collections g) bal).2 hs
    obtain ⟨h1, h2, _⟩ := sideRoyalties_spec hb e
    have h3 := (sideRoyalties_ok_le e).2
    rw [e, h1, h2, h3]; rfl

/-- non-vacuity of the clauses of `C06_model_eq_spec` (sample data of `Lemmas/Arith.lean`) -/
example : (keys exBal.native).Nodup ∧ exBal.bounded ∧
    ((exRoy.filterMap id).map (·.bps)).sum ≤ 5000 ∧
    ((sideEntries BuyEx.env BuyEx.goods).map (·.bps)).sum ≤ 5000 := by decide

#print axioms C06_collections_distinct
#print axioms C06_buy_effect
#print axioms C06_example_hyps
#print axioms C06_payouts
#print axioms C06_payout_messages
#print axioms C06_payout_total
#print axioms C06_no_other_deduction
#print axioms C06_traders_untouched
#print axioms C06_paid_in_transaction
#print axioms C06_buy_closed_form
#print axioms C06_model_eq_spec

end Fuzion
