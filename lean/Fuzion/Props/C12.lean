/-
  Fuzion.Props.C12 — "Every escrow record is well-formed and therefore payable".

  Property text (C12): Every listing and bucket the marketplace holds contains at least one
  asset, no zero amount, no duplicate denomination, token or NFT, and cannot be topped up beyond
  25 distinct assets; every ask is likewise non-empty, duplicate-free and at most 25 items; and
  status, timestamps, buyer and pending fee are mutually consistent and the record is filed under
  its owner and id.  Deposits or asks that would break this are refused and those that keep it are
  accepted (for a fresh legal id, an owned listing still in preparation, or any owned bucket), so
  a payout can never be rejected by the bank or a token contract for being empty, zero or
  duplicated.

  The storage invariant is `WFInv j u m` (Fuzion/Inv/MInv.lean: every stored listing satisfies
  `wfListing`, every stored bucket `wfBucket`; `j`, `u` are the two fee denominations); its
  executable form, evaluated by the driver on every implementation state, is `checkWF`.
  Helper lemmas: Fuzion/Lemmas/InvLemmas.lean.  Core library only.

  NOTE on "cannot be topped up beyond 25 distinct assets" (reading decision of DESIGN.md §3):
  `wfBal`, the stored-balance predicate, carries no 25 bound.  `buy` never adds assets and the
  top-up handlers test the cap on the result (`C12_topup_*_iff`), so a record can never be *topped
  up* beyond 25; but `execute_create_listing` / `execute_create_bucket` only run
  `normalized_check`, which has no cap, so a record can be *created* with more than 25 native
  denominations in one message (`C12_create_no_cap`).  Under the literal reading of the property
  this is an observation, not a violation.  The ask is capped in every case (`wfAsk = check_valid`).
-/
import Fuzion.Lemmas.InvLemmas
namespace Fuzion

/-! ## sample data for the non-vacuity examples -/

namespace C12Ex
def ask : CreateMsg := ⟨⟨[⟨2, 2000⟩], [(.valid 50, 5)], [(.valid 60, 1)]⟩, none⟩
def env : Env :=
  { self := 100, nowNs := 0, junoD := 1, usdcD := 2, regAddr := 102,
    isToken20 := fun a => a == 50, isContract := fun a => a == 60, regLookup := fun _ => none }
def w : World :=
  { self := 100, pool := 101, regAddr := 102, junoD := 1, usdcD := 2, nowNs := 0, height := 1,
    mkt := instantiate 0 (some 102), reg := [], bank := [((7, 1), 5000), ((8, 2), 5000)],
    cw20 := [((50, 7), 900), ((50, 8), 900)], nft := [((60, 1), 8)],
    contracts := [(50, ⟨none, 1, true, false⟩), (60, ⟨none, 2, false, false⟩)] }
/-- seller 7 lists 1000 of denomination 1 for 2000 of denomination 2 and finalizes for 600 s -/
def opCreate : Op := .exec 7 [⟨1, 1000⟩] (.createListing 5 ⟨⟨[⟨2, 2000⟩], [], []⟩, none⟩)
def opFinal : Op := .exec 7 [] (.finalize 5 600)
/-- buyer 8 fills bucket 6 with the price and buys -/
def opBucket : Op := .exec 8 [⟨2, 2000⟩] (.createBucket 6)
def opBuy : Op := .exec 8 [] (.buy 5 6)
def history : List Op := [opCreate, opFinal, opBucket, opBuy]
/-- a preparing listing of owner 7 under id 5 and a bucket of owner 7 under id 6 -/
def lst : Listing := newListing 7 5 none ⟨[⟨1, 1000⟩], [], []⟩ ⟨[⟨2, 2000⟩], [], []⟩
def bkt : Bucket := ⟨7, ⟨[⟨1, 1000⟩], [⟨50, 5⟩], []⟩, none⟩
def mkt : Market :=
  { listings := [((7, 5), lst)], buckets := [((7, 6), bkt)], listingUsed := [5, 0],
    bucketUsed := [6, 0], feeKind := .juno, feeSince := 0, registry := some 102 }
/-- the refusal guard of a handler result (`none` = accepted) -/
def errOf (r : HRes) : Option Err := match r with | .ok _ => none | .error e => some e
end C12Ex

/-! ## 1. the invariant -/

/-- "Every listing and bucket the marketplace holds contains at least one asset, no zero amount,
    no duplicate denomination, token or NFT …; every ask is likewise non-empty, duplicate-free and
    at most 25 items; and status, timestamps, buyer and pending fee are mutually consistent and
    the record is filed under its owner and id" — inductive step: every accepted message preserves
    `WFInv`.  (`IdsInv` is not needed as a premise.) -/
theorem C12_inv_execute {m m' : Market} {env : Env} {s : Nat} {f : List Coin} {msg : ExecMsg}
    {out : List OutMsg} (hw : WFInv env.junoD env.usdcD m)
    (h : execute m env s f msg = .ok (m', out)) : WFInv env.junoD env.usdcD m' :=
  (execute_shape h).wf hw

example : WFInv C12Ex.env.junoD C12Ex.env.usdcD (instantiate 0 none) ∧
    ∃ r, execute (instantiate 0 none) C12Ex.env 7 [⟨1, 1000⟩] (.createListing 5 C12Ex.ask) = .ok r :=
  ⟨WFInv.init _ _ 0 none, _, rfl⟩

/-- every operation of the world preserves `WFInv` (the two fee denominations of the world are
    never changed by `step`) -/
theorem C12_inv_step {w : World} (op : Op) (hw : WFInv w.junoD w.usdcD w.mkt) :
    WFInv (step w op).1.junoD (step w op).1.usdcD (step w op).1.mkt := by
  unfold step
  rw [(stepF_denoms noFault w op).1, (stepF_denoms noFault w op).2]
  rcases stepF_mkt_cases noFault w op with h | ⟨c, f, msg, m', msgs, _, hx, hm, _⟩
  · rw [h]; exact hw
  · rw [hm]; exact C12_inv_execute (env := w.env) hw hx

theorem C12_inv_run {w : World} (hw : WFInv w.junoD w.usdcD w.mkt) (ops : List Op) :
    WFInv (run w ops).junoD (run w ops).usdcD (run w ops).mkt := by
  induction ops generalizing w with
  | nil => exact hw
  | cons op ops ih => exact ih (C12_inv_step op hw)

/-- `WFInv` holds in every state reachable from instantiation -/
theorem C12_reach {w : World} {t : Nat} {r : Option Nat} (h0 : w.mkt = instantiate t r)
    (ops : List Op) : WFInv w.junoD w.usdcD (run w ops).mkt := by
  have := C12_inv_run (w := w) (h0 ▸ WFInv.init _ _ t r) ops
  rw [(run_denoms w ops).1, (run_denoms w ops).2] at this
  exact this

/-- the driver's oracle is the proved invariant -/
theorem C12_checkWF_iff (w : World) : checkWF w = true ↔ WFInv w.junoD w.usdcD w.mkt := by
  simp only [checkWF, Bool.and_eq_true, List.all_eq_true]
  exact ⟨fun h => ⟨h.1, h.2⟩, fun h => ⟨h.lwf, h.bwf⟩⟩

/-- every reachable state passes the driver's check -/
theorem C12_checkWF_reach {w : World} {t : Nat} {r : Option Nat} (h0 : w.mkt = instantiate t r)
    (ops : List Op) : checkWF (run w ops) = true := by
  rw [C12_checkWF_iff, (run_denoms w ops).1, (run_denoms w ops).2]
  exact C12_reach h0 ops

-- non-vacuity: a full trade; afterwards a closed listing (fee pending) and the seller's bucket
example : C12Ex.w.mkt = instantiate 0 (some 102) := rfl
example : (step C12Ex.w C12Ex.opCreate).2.ok = true := by decide
example : ((run C12Ex.w C12Ex.history).mkt.listings.map (fun p => (p.1, p.2.status, p.2.fee))) =
      [((8, 5), .closed, some ⟨1, 5⟩)] ∧
    (run C12Ex.w C12Ex.history).mkt.buckets.map (·.1) = [(7, 6)] ∧
    checkWF (run C12Ex.w C12Ex.history) = true := by decide

/-! ## 2. asks -/

/-- what `GenericBalanceUnvalidated::validate` demands of an ask, stated over the raw message:
    every CW20 / NFT contract address validates, no native or CW20 amount is zero, between 1 and
    25 items in total, no denomination, token address or (collection, token id) pair twice -/
structure AskOK (r : RawGBal) : Prop where
  cw20Valid : ∀ p ∈ r.cw20, p.1 ≠ .invalid
  nftValid : ∀ p ∈ r.nfts, p.1 ≠ .invalid
  nativeNonzero : ∀ c ∈ r.native, c.amount ≠ 0
  cw20Nonzero : ∀ p ∈ r.cw20, p.2 ≠ 0
  nonEmpty : 1 ≤ r.native.length + r.cw20.length + r.nfts.length
  atMost25 : r.native.length + r.cw20.length + r.nfts.length ≤ 25
  denomsDistinct : (r.native.map (·.key)).Nodup
  tokensDistinct : (r.cw20.map (·.1)).Nodup
  nftsDistinct : r.nfts.Nodup

/-- "every ask is likewise non-empty, duplicate-free and at most 25 items … asks that would break
    this are refused and those that keep it are accepted": an ask validates exactly when it is
    `AskOK`. -/
theorem C12_ask_iff (r : RawGBal) : (∃ g, validateAsk r = some g) ↔ AskOK r := by
  constructor
  · rintro ⟨g, h⟩
    obtain ⟨h1, h2, rfl, hv⟩ := (validateAsk_spec r g).1 h
    obtain ⟨wf, hc⟩ := (checkValid_iff _).1 hv
    obtain ⟨w1, _, w3, w4, w5, w6⟩ := (wfBal_iff _).1 wf
    simp only [GBal.count, List.length_map] at w3 hc
    exact ⟨fun p hp => (h1 p hp).1, h2, w1, fun p hp => (h1 p hp).2, w3, hc, w4,
      (nodup_valCoin fun p hp => (h1 p hp).1).1 w5, (nodup_valNft h2).1 w6⟩
  · intro h
    refine ⟨_, (validateAsk_spec r _).2 ⟨fun p hp => ⟨h.cw20Valid p hp, h.cw20Nonzero p hp⟩,
      h.nftValid, rfl, ?_⟩⟩
    rw [checkValid_iff, wfBal_iff]
    simp only [GBal.count, List.length_map]
    refine ⟨⟨h.nativeNonzero, ?_, h.nonEmpty, h.denomsDistinct,
      (nodup_valCoin h.cw20Valid).2 h.tokensDistinct, (nodup_valNft h.nftValid).2 h.nftsDistinct⟩,
      h.atMost25⟩
    intro c hc
    obtain ⟨p, hp, rfl⟩ := List.mem_map.1 hc
    exact h.cw20Nonzero p hp

/-- a validated ask is well-formed (`check_valid`: at least one and at most 25 items, no zero
    amount, no duplicate) and carries the native coins of the message unchanged, the CW20 and NFT
    entries with their addresses resolved -/
theorem C12_ask_wf {r : RawGBal} {g : GBal} (h : validateAsk r = some g) :
    wfAsk g = true ∧ g.native = r.native ∧ g.cw20 = r.cw20.map valCoin ∧
    g.nfts = r.nfts.map valNft := by
  obtain ⟨_, _, rfl, hv⟩ := (validateAsk_spec r g).1 h
  exact ⟨hv, rfl, rfl, rfl⟩

example : ∃ g, validateAsk C12Ex.ask.ask = some g := ⟨_, rfl⟩
-- refused: empty ask, zero amount, duplicate denomination, invalid token address, 26 items
example : validateAsk ⟨[], [], []⟩ = none ∧ validateAsk ⟨[⟨1, 0⟩], [], []⟩ = none ∧
    validateAsk ⟨[⟨1, 5⟩, ⟨1, 6⟩], [], []⟩ = none ∧ validateAsk ⟨[], [(.invalid, 5)], []⟩ = none ∧
    validateAsk ⟨(List.range 26).map (fun i => ⟨i, 1⟩), [], []⟩ = none ∧
    (validateAsk ⟨(List.range 25).map (fun i => ⟨i, 1⟩), [], []⟩).isSome = true := by decide

/-- `execute_change_ask` on an owned listing that is still in preparation: accepted exactly when
    the new ask validates -/
theorem C12_changeAsk_iff {m : Market} {s id : Nat} {l : Listing} (r : RawGBal)
    (hl : alookup (s, id) m.listings = some l) (ho : s = l.creator) (hst : l.status = .preparing)
    (hfin : l.finalizedAt = none) (hcl : l.claimant = none) :
    (∃ res, changeAsk m s id r = .ok res) ↔ ∃ g, validateAsk r = some g := by
  unfold changeAsk
  rw [hl]
  dsimp only
  rw [if_neg (fun h => h ho), if_neg (by simp [hfin]), if_neg (by simp [hst]), if_neg (by simp [hcl])]
  cases validateAsk r with
  | none => simp
  | some g => exact ⟨fun _ => ⟨g, rfl⟩, fun _ => ⟨_, rfl⟩⟩

/-- … i.e. exactly when it is `AskOK` -/
theorem C12_changeAsk_iff' {m : Market} {s id : Nat} {l : Listing} (r : RawGBal)
    (hl : alookup (s, id) m.listings = some l) (ho : s = l.creator) (hst : l.status = .preparing)
    (hfin : l.finalizedAt = none) (hcl : l.claimant = none) :
    (∃ res, changeAsk m s id r = .ok res) ↔ AskOK r :=
  (C12_changeAsk_iff r hl ho hst hfin hcl).trans (C12_ask_iff r)

example : alookup (7, 5) C12Ex.mkt.listings = some C12Ex.lst ∧ 7 = C12Ex.lst.creator ∧
    C12Ex.lst.status = .preparing ∧ C12Ex.lst.finalizedAt = none ∧ C12Ex.lst.claimant = none := by
  decide
example : (∃ res, changeAsk C12Ex.mkt 7 5 C12Ex.ask.ask = .ok res) ∧
    changeAsk C12Ex.mkt 7 5 ⟨[], [], []⟩ = .error .badAsk := ⟨⟨_, rfl⟩, rfl⟩

/-! ## 3. creations -/

/-- `normalized_check` in words: a native deposit is a non-empty coin list without a zero amount
    and without a repeated denomination; a CW20 deposit is a non-zero amount.  Equivalently: the
    deposit alone is a well-formed balance. -/
theorem C12_normalized_iff (funds : Funds) :
    normalizedCheck funds = true ↔
      match funds with
      | .native cs => cs ≠ [] ∧ (∀ c ∈ cs, c.amount ≠ 0) ∧ (keys cs).Nodup
      | .cw20 c => c.amount ≠ 0 := by
  cases funds with
  | native cs =>
    simp only [normalizedCheck, Bool.and_eq_true, decide_eq_true_eq, allNonzero_iff, and_assoc]
    cases cs <;> simp
  | cw20 c => simp [normalizedCheck]

theorem C12_normalized_wf (funds : Funds) :
    normalizedCheck funds = true ↔ wfBal (fromBalance funds) = true :=
  normalizedCheck_iff_wfBal funds

/-- "Deposits … that would break this are refused and those that keep it are accepted (for a
    fresh legal id …)": `execute_create_bucket` is accepted exactly for an id below
    `MAX_SAFE_INT` that is not in the log (and has no record under the creator's key) with a
    deposit that passes `normalized_check`. -/
theorem C12_create_bucket_iff (m : Market) (funds : Funds) (creator id : Nat) :
    (∃ r, createBucket m funds creator id = .ok r) ↔
      id < MAX_SAFE_INT ∧ id ∉ m.bucketUsed ∧ alookup (creator, id) m.buckets = none ∧
      normalizedCheck funds = true := by
  unfold createBucket
  constructor
  · rintro ⟨r, h⟩
    repeat' split at h
    all_goals first | (cases h; done) | skip
    rename_i h1 h2 h3 h4
    exact ⟨by omega, h2, by simpa using h3, by simpa using h4⟩
  · rintro ⟨h1, h2, h3, h4⟩
    rw [if_neg (by omega), if_neg h2, if_neg (by simp [h3]), if_neg (by simp [h4])]
    exact ⟨_, rfl⟩

/-- under the id invariant the key test is implied by the log test -/
theorem C12_create_bucket_iff' {m : Market} (hi : IdsInv m) (funds : Funds) (creator id : Nat) :
    (∃ r, createBucket m funds creator id = .ok r) ↔
      id < MAX_SAFE_INT ∧ id ∉ m.bucketUsed ∧ normalizedCheck funds = true := by
  rw [C12_create_bucket_iff]
  constructor
  · rintro ⟨a, b, _, d⟩; exact ⟨a, b, d⟩
  · rintro ⟨a, b, d⟩
    refine ⟨a, b, ?_, d⟩
    cases hl : alookup (creator, id) m.buckets with
    | none => rfl
    | some bk => exact absurd (hi.bused _ (alookup_some_mem hl)) b

/-- the CW721 bucket creation: only the id is tested (one NFT is always a well-formed balance) -/
theorem C12_create_bucket_nft_iff (m : Market) (user : Nat) (nft : Nft) (id : Nat) :
    (∃ r, createBucketNft m user nft id = .ok r) ↔
      id < MAX_SAFE_INT ∧ id ∉ m.bucketUsed ∧ alookup (user, id) m.buckets = none := by
  unfold createBucketNft
  constructor
  · rintro ⟨r, h⟩
    repeat' split at h
    all_goals first | (cases h; done) | skip
    rename_i h1 h2 h3
    exact ⟨by omega, h2, by simpa using h3⟩
  · rintro ⟨h1, h2, h3⟩
    rw [if_neg (by omega), if_neg h2, if_neg (by simp [h3])]
    exact ⟨_, rfl⟩

theorem C12_create_bucket_nft_iff' {m : Market} (hi : IdsInv m) (user : Nat) (nft : Nft) (id : Nat) :
    (∃ r, createBucketNft m user nft id = .ok r) ↔ id < MAX_SAFE_INT ∧ id ∉ m.bucketUsed := by
  rw [C12_create_bucket_nft_iff]
  constructor
  · rintro ⟨a, b, _⟩; exact ⟨a, b⟩
  · rintro ⟨a, b⟩
    refine ⟨a, b, ?_⟩
    cases hl : alookup (user, id) m.buckets with
    | none => rfl
    | some bk => exact absurd (hi.bused _ (alookup_some_mem hl)) b

/-- the whitelist argument is accepted iff it is absent or a valid address other than the creator -/
theorem C12_whitelist_iff (user : Nat) (w : Option RawAddr) :
    (∃ wl, checkWhitelist user w = some wl) ↔ w = none ∨ ∃ a, w = some (.valid a) ∧ a ≠ user := by
  cases w with
  | none => simp [checkWhitelist]
  | some a =>
    cases a with
    | invalid => simp [checkWhitelist]
    | valid a =>
      by_cases h : a = user <;> simp [checkWhitelist, h]

/-- `execute_create_listing`: accepted exactly for a fresh legal id, a `normalized_check`-ed
    deposit, an acceptable whitelist and a valid ask -/
theorem C12_create_listing_iff (m : Market) (user : Nat) (funds : Funds) (c : CreateMsg) (id : Nat) :
    (∃ r, createListing m user funds c id = .ok r) ↔
      id < MAX_SAFE_INT ∧ normalizedCheck funds = true ∧ id ∉ m.listingUsed ∧
      findById id m.listings = none ∧ (∃ wl, checkWhitelist user c.whitelist = some wl) ∧
      (∃ g, validateAsk c.ask = some g) := by
  unfold createListing
  constructor
  · rintro ⟨r, h⟩
    split at h
    · cases h
    rename_i h1
    split at h
    · cases h
    rename_i h2
    split at h
    · cases h
    rename_i h3
    split at h
    · cases h
    rename_i h4
    split at h
    · cases h
    rename_i wl hwl
    split at h
    · cases h
    rename_i ask hask
    exact ⟨by omega, by simpa using h2, h3, by simpa using h4, ⟨wl, hwl⟩, ⟨ask, hask⟩⟩
  · rintro ⟨h1, h2, h3, h4, ⟨wl, hwl⟩, ⟨g, hg⟩⟩
    rw [if_neg (by omega), if_neg (by simp [h2]), if_neg h3, if_neg (by simp [h4])]
    simp only [hwl, hg]
    exact ⟨_, rfl⟩

theorem C12_create_listing_iff' {m : Market} (hi : IdsInv m) (user : Nat) (funds : Funds)
    (c : CreateMsg) (id : Nat) :
    (∃ r, createListing m user funds c id = .ok r) ↔
      id < MAX_SAFE_INT ∧ normalizedCheck funds = true ∧ id ∉ m.listingUsed ∧
      (c.whitelist = none ∨ ∃ a, c.whitelist = some (.valid a) ∧ a ≠ user) ∧ AskOK c.ask := by
  rw [C12_create_listing_iff, C12_whitelist_iff, C12_ask_iff]
  constructor
  · rintro ⟨a, b, c, _, e, f⟩; exact ⟨a, b, c, e, f⟩
  · rintro ⟨a, b, c, e, f⟩
    refine ⟨a, b, c, ?_, e, f⟩
    cases hl : findById id m.listings with
    | none => rfl
    | some p =>
      obtain ⟨h1, h2⟩ := findById_some hl
      exact absurd (h1 ▸ hi.lused p h2) c

/-- `execute_create_listing_cw721` -/
theorem C12_create_listing_nft_iff (m : Market) (user : Nat) (nft : Nft) (c : CreateMsg) (id : Nat) :
    (∃ r, createListingNft m user nft c id = .ok r) ↔
      id < MAX_SAFE_INT ∧ id ∉ m.listingUsed ∧
      findById id m.listings = none ∧ (∃ wl, checkWhitelist user c.whitelist = some wl) ∧
      (∃ g, validateAsk c.ask = some g) := by
  unfold createListingNft
  constructor
  · rintro ⟨r, h⟩
    split at h
    · cases h
    rename_i h1
    split at h
    · cases h
    rename_i h3
    split at h
    · cases h
    rename_i h4
    split at h
    · cases h
    rename_i wl hwl
    split at h
    · cases h
    rename_i ask hask
    exact ⟨by omega, h3, by simpa using h4, ⟨wl, hwl⟩, ⟨ask, hask⟩⟩
  · rintro ⟨h1, h3, h4, ⟨wl, hwl⟩, ⟨g, hg⟩⟩
    rw [if_neg (by omega), if_neg h3, if_neg (by simp [h4])]
    simp only [hwl, hg]
    exact ⟨_, rfl⟩

theorem C12_create_listing_nft_iff' {m : Market} (hi : IdsInv m) (user : Nat) (nft : Nft)
    (c : CreateMsg) (id : Nat) :
    (∃ r, createListingNft m user nft c id = .ok r) ↔
      id < MAX_SAFE_INT ∧ id ∉ m.listingUsed ∧
      (c.whitelist = none ∨ ∃ a, c.whitelist = some (.valid a) ∧ a ≠ user) ∧ AskOK c.ask := by
  rw [C12_create_listing_nft_iff, C12_whitelist_iff, C12_ask_iff]
  constructor
  · rintro ⟨a, c, _, e, f⟩; exact ⟨a, c, e, f⟩
  · rintro ⟨a, c, e, f⟩
    refine ⟨a, c, ?_, e, f⟩
    cases hl : findById id m.listings with
    | none => rfl
    | some p =>
      obtain ⟨h1, h2⟩ := findById_some hl
      exact absurd (h1 ▸ hi.lused p h2) c

example : IdsInv C12Ex.mkt := by
  constructor <;> decide
example : (∃ r, createBucket C12Ex.mkt (.native [⟨1, 5⟩]) 9 8 = .ok r) ∧
    createBucket C12Ex.mkt (.native [⟨1, 0⟩]) 9 8 = .error .badFunds ∧
    createBucket C12Ex.mkt (.native []) 9 8 = .error .badFunds ∧
    createBucket C12Ex.mkt (.native [⟨1, 5⟩, ⟨1, 6⟩]) 9 8 = .error .badFunds ∧
    createBucket C12Ex.mkt (.native [⟨1, 5⟩]) 9 6 = .error .idUsed :=
  ⟨⟨_, rfl⟩, rfl, rfl, rfl, rfl⟩
example : (∃ r, createListing C12Ex.mkt 9 (.cw20 ⟨50, 5⟩) C12Ex.ask 8 = .ok r) ∧
    createListing C12Ex.mkt 9 (.cw20 ⟨50, 0⟩) C12Ex.ask 8 = .error .badFunds ∧
    createListing C12Ex.mkt 9 (.cw20 ⟨50, 5⟩) ⟨C12Ex.ask.ask, some (.valid 9)⟩ 8 = .error .badWhitelist ∧
    createListing C12Ex.mkt 9 (.cw20 ⟨50, 5⟩) ⟨⟨[], [], []⟩, none⟩ 8 = .error .badAsk :=
  ⟨⟨_, rfl⟩, rfl, rfl, rfl⟩

/-- MODEL ODDITY (see the header): the creation handlers do not cap the number of native
    denominations of the deposit — a bucket (or a listing) can be created with 26 assets. -/
theorem C12_create_no_cap :
    (match createBucket (instantiate 0 none) (.native ((List.range 26).map fun i => ⟨i + 1, 1⟩)) 7 3 with
     | .ok r => (alookup (7, 3) r.1.buckets).map (·.funds.count)
     | .error _ => none) = some 26 := by decide

/-! ## 4. top-ups -/

/-- no 128-bit overflow: if, per denomination (resp. for the token), what the record holds plus
    what is deposited fits a `Uint128`, `add_tokens` does not abort -/
theorem C12_add_total {g : GBal} {funds : Funds} (h : funds.fits g) :
    ∃ nf, addTokens g funds = some nf := by
  cases hx : addTokens g funds with
  | none => exact absurd hx (addTokens_ne_none h)
  | some nf => exact ⟨nf, rfl⟩

example : (Funds.native [⟨1, U128MAX - 1000⟩]).fits C12Ex.bkt.funds := by
  intro k
  by_cases hk : k = 1
  · subst hk; decide
  · have : coinAmt C12Ex.bkt.funds.native k = 0 := by
      simp [C12Ex.bkt, coinAmt, Ne.symm hk]
    have : coinAmt [⟨1, U128MAX - 1000⟩] k = 0 := by simp [coinAmt, Ne.symm hk]
    omega
example : addTokens C12Ex.bkt.funds (.native [⟨1, U128MAX - 999⟩]) = none := by decide

/-- "cannot be topped up beyond 25 distinct assets … those that keep it are accepted (for … any
    owned bucket)": on an owned well-formed bucket, a deposit whose addition does not overflow is
    accepted exactly when it passes `normalized_check` and the resulting balance `nf` has at most
    25 assets.  In particular the `genbal_cmp` ("nothing added") test never refuses a valid
    deposit, and `check_valid` can only fail on the cap. -/
theorem C12_topup_bucket_iff {m : Market} {funds : Funds} {s id : Nat} {b : Bucket} {nf : GBal}
    (hb : alookup (s, id) m.buckets = some b) (ho : s = b.owner) (wf : wfBal b.funds = true)
    (hadd : addTokens b.funds funds = some nf) :
    (∃ r, addToBucket m funds s id = .ok r) ↔
      normalizedCheck funds = true ∧ nf.count ≤ MAX_ASSETS := by
  unfold addToBucket
  by_cases hn : normalizedCheck funds = true
  · rw [if_neg (by simp [hn]), hb]
    dsimp only
    rw [if_neg (fun h => h ho), hadd]
    dsimp only
    rw [if_neg (by simp [addTokens_changed wf hn hadd])]
    have hwf := addTokens_wf wf hn hadd
    by_cases hv : checkValid nf = true
    · rw [if_neg (by simp [hv])]
      exact ⟨fun _ => ⟨hn, ((checkValid_iff nf).1 hv).2⟩, fun _ => ⟨_, rfl⟩⟩
    · rw [if_pos (by simpa using hv)]
      constructor
      · rintro ⟨r, h⟩; cases h
      · rintro ⟨_, hc⟩; exact absurd ((checkValid_iff nf).2 ⟨hwf, hc⟩) hv
  · rw [if_pos (by simpa using hn)]
    constructor
    · rintro ⟨r, h⟩; cases h
    · rintro ⟨h, _⟩; exact absurd h hn

/-- the `genbal_cmp` test of the top-up handlers can never fire for a `normalized_check`-ed
    deposit onto a well-formed balance -/
theorem C12_nothing_added_unreachable {g nf : GBal} {funds : Funds} (wf : wfBal g = true)
    (hn : normalizedCheck funds = true) (hadd : addTokens g funds = some nf) :
    genbalCmp g nf = false ∧ wfBal nf = true :=
  ⟨addTokens_changed wf hn hadd, addTokens_wf wf hn hadd⟩

/-- "25 distinct assets": the asset count after `add_tokens` is the old count plus the number of
    deposited denominations the balance does not hold yet (resp. plus one for a new token) —
    an existing denomination or token is merged, not duplicated -/
theorem C12_topup_count {g nf : GBal} {funds : Funds} (hn : normalizedCheck funds = true)
    (hadd : addTokens g funds = some nf) : nf.count = g.count + funds.newAssets g :=
  addTokens_count hn hadd

/-- `C12_topup_bucket_iff` with both side conditions discharged: if the amounts fit a `Uint128`
    (`Funds.fits`), a deposit onto an owned well-formed bucket is accepted exactly when it passes
    `normalized_check` and old assets plus new distinct assets are at most 25 -/
theorem C12_topup_bucket_iff' {m : Market} {funds : Funds} {s id : Nat} {b : Bucket}
    (hb : alookup (s, id) m.buckets = some b) (ho : s = b.owner) (wf : wfBal b.funds = true)
    (hfit : funds.fits b.funds) :
    (∃ r, addToBucket m funds s id = .ok r) ↔
      normalizedCheck funds = true ∧ b.funds.count + funds.newAssets b.funds ≤ MAX_ASSETS := by
  obtain ⟨nf, hadd⟩ := C12_add_total hfit
  rw [C12_topup_bucket_iff hb ho wf hadd]
  constructor
  · rintro ⟨hn, hc⟩; exact ⟨hn, by rw [← C12_topup_count hn hadd]; exact hc⟩
  · rintro ⟨hn, hc⟩; exact ⟨hn, by rw [C12_topup_count hn hadd]; exact hc⟩

example : alookup (7, 6) C12Ex.mkt.buckets = some C12Ex.bkt ∧ 7 = C12Ex.bkt.owner ∧
    wfBal C12Ex.bkt.funds = true ∧
    addTokens C12Ex.bkt.funds (.native [⟨1, 5⟩, ⟨3, 1⟩]) =
      some ⟨[⟨1, 1005⟩, ⟨3, 1⟩], [⟨50, 5⟩], []⟩ ∧
    normalizedCheck (.native [⟨1, 5⟩, ⟨3, 1⟩]) = true := by decide
example : ∃ r, addToBucket C12Ex.mkt (.native [⟨1, 5⟩, ⟨3, 1⟩]) 7 6 = .ok r := ⟨_, rfl⟩
-- refused only by the cap: 24 new denominations on top of 2 assets
example : C12Ex.errOf (addToBucket C12Ex.mkt (.native ((List.range 24).map fun i => ⟨i + 10, 1⟩)) 7 6) =
    some .invalid := by decide
example : C12Ex.errOf (addToBucket C12Ex.mkt (.native ((List.range 23).map fun i => ⟨i + 10, 1⟩)) 7 6) =
    none := by decide

/-- "… (for … an owned listing still in preparation …)": `execute_add_to_listing` -/
theorem C12_topup_listing_iff {m : Market} {funds : Funds} {s id : Nat} {l : Listing} {nf : GBal}
    (hl : alookup (s, id) m.listings = some l) (ho : s = l.creator) (hst : l.status = .preparing)
    (hcl : l.claimant = none) (wf : wfBal l.forSale = true)
    (hadd : addTokens l.forSale funds = some nf) :
    (∃ r, addToListing m funds s id = .ok r) ↔
      normalizedCheck funds = true ∧ nf.count ≤ MAX_ASSETS := by
  unfold addToListing
  by_cases hn : normalizedCheck funds = true
  · rw [if_neg (by simp [hn]), hl]
    dsimp only
    rw [if_neg (fun h => h ho), if_neg (by simp [hst]), if_neg (by simp [hcl]), hadd]
    dsimp only
    rw [if_neg (by simp [addTokens_changed wf hn hadd])]
    by_cases hv : nf.count > MAX_ASSETS
    · rw [if_pos hv]
      constructor
      · rintro ⟨r, h⟩; cases h
      · rintro ⟨_, hc⟩; omega
    · rw [if_neg hv]
      exact ⟨fun _ => ⟨hn, by omega⟩, fun _ => ⟨_, rfl⟩⟩
  · rw [if_pos (by simpa using hn)]
    constructor
    · rintro ⟨r, h⟩; cases h
    · rintro ⟨h, _⟩; exact absurd h hn

example : alookup (7, 5) C12Ex.mkt.listings = some C12Ex.lst ∧ 7 = C12Ex.lst.creator ∧
    C12Ex.lst.status = .preparing ∧ C12Ex.lst.claimant = none ∧ wfBal C12Ex.lst.forSale = true ∧
    addTokens C12Ex.lst.forSale (.cw20 ⟨50, 9⟩) = some ⟨[⟨1, 1000⟩], [⟨50, 9⟩], []⟩ ∧
    normalizedCheck (.cw20 ⟨50, 9⟩) = true := by decide
example : ∃ r, addToListing C12Ex.mkt (.cw20 ⟨50, 9⟩) 7 5 = .ok r := ⟨_, rfl⟩

theorem C12_topup_listing_iff' {m : Market} {funds : Funds} {s id : Nat} {l : Listing}
    (hl : alookup (s, id) m.listings = some l) (ho : s = l.creator) (hst : l.status = .preparing)
    (hcl : l.claimant = none) (wf : wfBal l.forSale = true) (hfit : funds.fits l.forSale) :
    (∃ r, addToListing m funds s id = .ok r) ↔
      normalizedCheck funds = true ∧ l.forSale.count + funds.newAssets l.forSale ≤ MAX_ASSETS := by
  obtain ⟨nf, hadd⟩ := C12_add_total hfit
  rw [C12_topup_listing_iff hl ho hst hcl wf hadd]
  constructor
  · rintro ⟨hn, hc⟩; exact ⟨hn, by rw [← C12_topup_count hn hadd]; exact hc⟩
  · rintro ⟨hn, hc⟩; exact ⟨hn, by rw [C12_topup_count hn hadd]; exact hc⟩

example : (Funds.cw20 ⟨50, 9⟩).fits C12Ex.lst.forSale := by
  show coinAmt C12Ex.lst.forSale.cw20 50 + 9 ≤ U128MAX
  decide

/-- the CW721 top-up of an owned bucket: accepted exactly when there is room for one more asset
    and the NFT is not already in the record -/
theorem C12_topup_bucket_nft_iff {m : Market} {nft : Nft} {s id : Nat} {b : Bucket}
    (hb : alookup (s, id) m.buckets = some b) (ho : s = b.owner) (wf : wfBal b.funds = true) :
    (∃ r, addToBucketNft m s nft id = .ok r) ↔
      b.funds.count + 1 ≤ MAX_ASSETS ∧ nft ∉ b.funds.nfts := by
  unfold addToBucketNft
  rw [hb]
  dsimp only
  rw [if_neg (fun h => h ho), if_neg (by simp [addNft_changed])]
  rw [← checkValid_addNft wf nft]
  by_cases hv : checkValid (addNft b.funds nft) = true
  · rw [if_neg (by simp [hv])]
    exact ⟨fun _ => hv, fun _ => ⟨_, rfl⟩⟩
  · rw [if_pos (by simpa using hv)]
    constructor
    · rintro ⟨r, h⟩; cases h
    · intro h; exact absurd h hv

/-- the CW721 top-up of an owned listing in preparation -/
theorem C12_topup_listing_nft_iff {m : Market} {nft : Nft} {s id : Nat} {l : Listing}
    (hl : alookup (s, id) m.listings = some l) (ho : s = l.creator) (hst : l.status = .preparing)
    (hcl : l.claimant = none) (wf : wfBal l.forSale = true) :
    (∃ r, addToListingNft m s nft id = .ok r) ↔
      l.forSale.count + 1 ≤ MAX_ASSETS ∧ nft ∉ l.forSale.nfts := by
  unfold addToListingNft
  rw [hl]
  dsimp only
  rw [if_neg (fun h => h ho), if_neg (by simp [hst]), if_neg (by simp [hcl]),
    if_neg (by simp [addNft_changed])]
  rw [← checkValid_addNft wf nft]
  by_cases hv : checkValid (addNft l.forSale nft) = true
  · rw [if_neg (by simp [hv])]
    exact ⟨fun _ => hv, fun _ => ⟨_, rfl⟩⟩
  · rw [if_pos (by simpa using hv)]
    constructor
    · rintro ⟨r, h⟩; cases h
    · intro h; exact absurd h hv

example : (∃ r, addToBucketNft C12Ex.mkt 7 ⟨60, 1⟩ 6 = .ok r) ∧
    (∃ r, addToListingNft C12Ex.mkt 7 ⟨60, 1⟩ 5 = .ok r) := ⟨⟨_, rfl⟩, ⟨_, rfl⟩⟩

/-! ## 5. payouts -/

/-- what the bank and the token contracts get to see when balance `g` (and the pending fee) is
    paid out to `to` by `msgs`: every message is well-formed (`OutMsg.wellFormed`: a bank send
    carries a non-empty, zero-free, duplicate-free coin list; a CW20 transfer and a community-pool
    funding a non-zero amount), there is at most one bank send (the whole native list), exactly one
    CW20 transfer per CW20 entry (distinct tokens), exactly one NFT transfer per NFT (all distinct)
    and a pool funding exactly for a pending fee -/
structure Payable (me to : Nat) (g : GBal) (fee : Option Coin) (msgs : List OutMsg) : Prop where
  wellFormed : ∀ msg ∈ msgs, msg.wellFormed
  bank : msgs.filterMap OutMsg.bankCoins = if g.native = [] then [] else [(to, g.native)]
  cw20 : msgs.filterMap OutMsg.cw20Of = g.cw20.map (fun c => (c.key, to, c.amount))
  cw20Distinct : (keys g.cw20).Nodup
  nfts : msgs.filterMap OutMsg.nftOf = g.nfts.map (fun n => (n, to))
  nftsDistinct : g.nfts.Nodup
  pool : msgs.filterMap OutMsg.poolOf = match fee with | none => [] | some f => [(me, f)]

theorem C12_payable_withdraw {j u self to : Nat} {g : GBal} {fee : Option Coin}
    (wf : wfBal g = true) (wff : wfFee j u fee = true) :
    Payable self to g fee (withdrawMsgs self to g fee) := by
  obtain ⟨h1, h2, h3, h4⟩ := withdrawMsgs_parts self to g fee
  obtain ⟨_, _, _, _, w5, w6⟩ := (wfBal_iff g).1 wf
  exact ⟨withdrawMsgs_wellFormed wf wff, h1, h2, w5, h3, w6, h4⟩

theorem C12_payable_send {self to : Nat} {g : GBal} (wf : wfBal g = true) :
    Payable self to g none (sendTokens to g) := by
  obtain ⟨h1, h2, h3, h4⟩ := sendTokens_parts to g
  obtain ⟨_, _, _, _, w5, w6⟩ := (wfBal_iff g).1 wf
  exact ⟨sendTokens_wellFormed wf, h1, h2, w5, h3, w6, h4⟩

example : wfBal exBal = true ∧ wfFee 1 2 (some ⟨1, 5⟩) = true := by decide

/-- "so a payout can never be rejected by the bank or a token contract for being empty, zero or
    duplicated": for every stored bucket the withdrawal messages, and for every stored listing
    both the deletion refund (`send_tokens_cosmos` to the creator) and the withdrawal of a
    purchase (to whichever claimant `c`), are `Payable`. -/
theorem C12_payable {j u : Nat} {m : Market} (hw : WFInv j u m) (self : Nat) :
    (∀ p ∈ m.buckets,
      Payable self p.2.owner p.2.funds p.2.fee (withdrawMsgs self p.2.owner p.2.funds p.2.fee)) ∧
    (∀ p ∈ m.listings,
      Payable self p.2.creator p.2.forSale none (sendTokens p.2.creator p.2.forSale) ∧
      ∀ c, Payable self c p.2.forSale p.2.fee (withdrawMsgs self c p.2.forSale p.2.fee)) := by
  constructor
  · intro p hp
    have := hw.bwf p hp
    simp only [wfBucket, Bool.and_eq_true] at this
    exact C12_payable_withdraw this.1.2 this.2
  · intro p hp
    have := hw.lwf p hp
    simp only [wfListing, Bool.and_eq_true] at this
    obtain ⟨⟨⟨_, wfs⟩, _⟩, hst⟩ := this
    refine ⟨C12_payable_send wfs, fun c => C12_payable_withdraw (j := j) (u := u) wfs ?_⟩
    cases hs : p.2.status <;> rw [hs] at hst <;> simp only [Bool.and_eq_true] at hst
    · have : p.2.fee = none := by simpa using hst.2
      rw [this]; rfl
    · have : p.2.fee = none := by simpa using hst.2
      rw [this]; rfl
    · exact hst.2

/-- the three paying-out handlers emit exactly these message lists, built from the stored record -/
theorem C12_payout_msgs {m m' : Market} {env : Env} {s id : Nat} {out : List OutMsg} :
    (withdrawBucket m env s id = .ok (m', out) →
      ∃ b, ((s, id), b) ∈ m.buckets ∧ out = withdrawMsgs env.self b.owner b.funds b.fee) ∧
    (deleteListing m env s id = .ok (m', out) →
      ∃ l, ((s, id), l) ∈ m.listings ∧ out = sendTokens l.creator l.forSale) ∧
    (withdrawPurchased m env s id = .ok (m', out) →
      ∃ p ∈ m.listings, out = withdrawMsgs env.self s p.2.forSale p.2.fee) := by
  refine ⟨?_, ?_, ?_⟩
  · intro h
    unfold withdrawBucket at h
    split at h
    · cases h
    rename_i b hb
    split at h
    · cases h
    simp only [Except.ok.injEq, Prod.mk.injEq] at h
    exact ⟨b, alookup_some_mem hb, h.2.symm⟩
  · intro h
    unfold deleteListing at h
    split at h
    · cases h
    rename_i l hl
    repeat' split at h
    all_goals first
      | (cases h; done)
      | (simp only [Except.ok.injEq, Prod.mk.injEq] at h
         exact ⟨l, alookup_some_mem hl, h.2.symm⟩)
  · intro h
    unfold withdrawPurchased at h
    split at h
    · cases h
    rename_i k l hl
    split at h
    · cases h
    rename_i c hc
    split at h
    · cases h
    rename_i hw
    split at h
    · cases h
    simp only [Except.ok.injEq, Prod.mk.injEq] at h
    have : s = c := Decidable.of_not_not hw
    subst this
    exact ⟨(k, l), (findById_some hl).2, h.2.symm⟩

/-- hence every message emitted by an accepted bucket withdrawal, listing deletion or purchase
    withdrawal is well-formed -/
theorem C12_payouts_wellFormed {j u : Nat} {m m' : Market} {env : Env} {s id : Nat}
    {out : List OutMsg} (hw : WFInv j u m)
    (h : withdrawBucket m env s id = .ok (m', out) ∨ deleteListing m env s id = .ok (m', out) ∨
         withdrawPurchased m env s id = .ok (m', out)) :
    ∀ msg ∈ out, msg.wellFormed := by
  obtain ⟨hb, hl⟩ := C12_payable hw env.self
  rcases h with h | h | h
  · obtain ⟨b, hm, rfl⟩ := C12_payout_msgs.1 h
    exact (hb _ hm).wellFormed
  · obtain ⟨l, hm, rfl⟩ := C12_payout_msgs.2.1 h
    exact (hl _ hm).1.wellFormed
  · obtain ⟨p, hm, rfl⟩ := C12_payout_msgs.2.2 h
    exact ((hl _ hm).2 s).wellFormed

example : WFInv 1 2 C12Ex.mkt := by
  constructor <;> decide
example : (∃ r, withdrawBucket C12Ex.mkt C12Ex.env 7 6 = .ok r) ∧
    (∃ r, deleteListing C12Ex.mkt C12Ex.env 7 5 = .ok r) := ⟨⟨_, rfl⟩, ⟨_, rfl⟩⟩
-- the purchase of the trade history is withdrawn by the buyer: goods (minus 0.5 % fee) and the fee
example : (step (run C12Ex.w C12Ex.history) (.exec 8 [] (.withdrawPurchased 5))).2.msgs =
    [.bankSend 8 [⟨1, 995⟩], .fundPool 100 ⟨1, 5⟩] := by decide

/-- "so a payout can never be rejected by the bank or a token contract for being empty, zero or
    duplicated", for the whole contract: every message emitted by any accepted `execute` call in a
    well-formed state is well-formed — the three paying-out handlers as above, a purchase (the
    pending fee of the paying bucket and the royalty payouts of both sides, each a single non-zero
    coin or CW20 amount); every other handler emits nothing. -/
theorem C12_msgs_wellFormed {j u : Nat} {m m' : Market} {env : Env} {s : Nat} {f : List Coin}
    {msg : ExecMsg} {out : List OutMsg} (hw : WFInv j u m)
    (h : execute m env s f msg = .ok (m', out)) : ∀ x ∈ out, x.wellFormed := by
  unfold execute at h
  split at h
  · cases h
  cases msg with
  | feeCycle => rw [cycleFee_out h]; simp
  | createListing id c => rw [createListing_out h]; simp
  | addToListing id => rw [addToListing_out h]; simp
  | changeAsk id ask => rw [changeAsk_out h]; simp
  | finalize id sec => rw [finalize_out h]; simp
  | createBucket id => rw [createBucket_out h]; simp
  | addToBucket id => rw [addToBucket_out h]; simp
  | receive sd a i => rw [receive_out h]; simp
  | receiveNft sd t i => rw [receiveNft_out h]; simp
  | removeBucket id => exact C12_payouts_wellFormed hw (.inl h)
  | deleteListing id => exact C12_payouts_wellFormed hw (.inr (.inl h))
  | withdrawPurchased lid => exact C12_payouts_wellFormed hw (.inr (.inr h))
  | buy lid bid =>
    obtain ⟨b, m1, m2, hb, rfl, h1, h2⟩ := buy_out h
    have hwb := hw.bwf _ (alookup_some_mem hb)
    simp only [wfBucket, Bool.and_eq_true] at hwb
    intro x hx
    rcases List.mem_append.1 hx with hx | hx
    · rcases List.mem_append.1 hx with hx | hx
      · cases hf : b.fee with
        | none => rw [hf] at hx; simp at hx
        | some fc =>
          rw [hf] at hx hwb
          simp only [List.mem_singleton] at hx
          subst hx
          simp only [wfFee, Bool.and_eq_true, decide_eq_true_eq] at hwb
          exact hwb.2.1
      · exact h1 x hx
    · exact h2 x hx

-- non-vacuity: the purchase of the trade history in a well-formed state
example : checkWF (run C12Ex.w [C12Ex.opCreate, C12Ex.opFinal, C12Ex.opBucket]) = true ∧
    (step (run C12Ex.w [C12Ex.opCreate, C12Ex.opFinal, C12Ex.opBucket]) C12Ex.opBuy).2.ok = true := by
  decide

/-! ## axioms -/

#print axioms C12_inv_execute
#print axioms C12_inv_step
#print axioms C12_inv_run
#print axioms C12_reach
#print axioms C12_checkWF_iff
#print axioms C12_checkWF_reach
#print axioms C12_ask_iff
#print axioms C12_ask_wf
#print axioms C12_changeAsk_iff
#print axioms C12_changeAsk_iff'
#print axioms C12_normalized_iff
#print axioms C12_normalized_wf
#print axioms C12_create_bucket_iff
#print axioms C12_create_bucket_iff'
#print axioms C12_create_bucket_nft_iff
#print axioms C12_create_bucket_nft_iff'
#print axioms C12_whitelist_iff
#print axioms C12_create_listing_iff
#print axioms C12_create_listing_iff'
#print axioms C12_create_listing_nft_iff
#print axioms C12_create_listing_nft_iff'
#print axioms C12_create_no_cap
#print axioms C12_add_total
#print axioms C12_topup_bucket_iff
#print axioms C12_nothing_added_unreachable
#print axioms C12_topup_count
#print axioms C12_topup_bucket_iff'
#print axioms C12_topup_listing_iff'
#print axioms C12_topup_listing_iff
#print axioms C12_topup_bucket_nft_iff
#print axioms C12_topup_listing_nft_iff
#print axioms C12_payable_withdraw
#print axioms C12_payable_send
#print axioms C12_payable
#print axioms C12_payout_msgs
#print axioms C12_payouts_wellFormed
#print axioms C12_msgs_wellFormed

end Fuzion
