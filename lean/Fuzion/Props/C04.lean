/-
  Fuzion.Props.C04 — "Only a record's owner can change it or release its assets".

  Property text:  No message sent by an account, including the contract's deployer, can alter,
  re-price, finalize, delete, top up or release assets from a listing or bucket that the account
  does not currently own; such messages fail and leave all state and balances untouched.  The
  only effect a non-owner can have is a valid purchase, which exchanges the listing for the
  buyer's own bucket on the published terms.  No action ever decreases another account's wallet.

  "including the contract's deployer": the marketplace has no privileged account at all — no
  handler looks at anything but `info.sender` versus the record's owner — so every theorem simply
  quantifies over *all* senders.

  `actor msg s` (Lemmas/FrameLemmas) is the wallet on whose behalf a message acts: the sender
  `s` of a direct message, the wallet a token contract names inside its receive hook.  An honest
  CW20 / CW721 contract names the account that called `Send` / `SendNft` (`Op.send20`,
  `Op.send721`); a forged hook call (`exec` of `.receive` / `.receiveNft` by a contract that
  answers `TokenInfo` / exists) can name anybody, which is why deposits *into* somebody else's
  preparing listing or bucket by such a contract are possible (known finding C18) — they add, and
  never release or re-price.  The theorems below are exact about this: owner-only means
  "`actor msg s` is the owner".

  Hypothesis `IdsInv m`: storage keys unique, records filed under `(owner, id)`, one live listing
  / bucket per id (inductive invariant, Props/C09).
-/
import Fuzion.Lemmas.FrameLemmas
namespace Fuzion

/-! ## 1. owner-only messages of a non-owner are refused -/

/-- "No message sent by an account … can alter, re-price, finalize, delete, top up … a listing
    … that the account does not currently own": the five owner-only listing handlers, called on
    behalf of anybody but the creator of the listing stored under `id`, are refused (the key
    lookup `(s, id)` misses). -/
theorem C04_refused_listing {m : Market} {env : Env} {s id : Nat} {k : Nat × Nat} {l : Listing}
    (hI : IdsInv m) (hf : findById id m.listings = some (k, l)) (hs : s ≠ l.creator) :
    (∀ r, changeAsk m s id r = .error .notFound) ∧
    (∀ secs, finalize m env s id secs = .error .notFound) ∧
    deleteListing m env s id = .error .notFound ∧
    (∀ funds, addToListing m funds s id = .error .badFunds ∨
              addToListing m funds s id = .error .notFound) ∧
    (∀ nft, addToListingNft m s nft id = .error .notFound) := by
  have hn := hI.alookup_other_none hf hs
  refine ⟨fun r => ?_, fun secs => ?_, ?_, fun funds => ?_, fun nft => ?_⟩
  · unfold changeAsk; rw [hn]
  · unfold finalize; rw [hn]
  · unfold deleteListing; rw [hn]
  · unfold addToListing; rw [hn]
    split
    · exact .inl rfl
    · exact .inr rfl
  · unfold addToListingNft; rw [hn]

/-- "… or release assets from a listing": the proceeds of a sold listing are released to its
    claimant only. -/
theorem C04_refused_withdraw {m : Market} {env : Env} {s id : Nat} {k : Nat × Nat} {l : Listing}
    (hf : findById id m.listings = some (k, l)) (hs : l.claimant ≠ some s) :
    withdrawPurchased m env s id = .error .notClaimant := by
  unfold withdrawPurchased
  simp only [hf]
  split
  · rfl
  · next c hc =>
    have : s ≠ c := by intro e; subst e; exact hs hc
    simp [this]

/-- … and on a well-formed record (C12) the claimant of a listing is its current owner, so a
    non-owner's withdrawal is refused. -/
theorem C04_refused_withdraw_wf {m : Market} {env : Env} {s id j u : Nat} {k : Nat × Nat}
    {l : Listing} (hwf : wfListing j u k l = true)
    (hf : findById id m.listings = some (k, l)) (hs : s ≠ l.creator) :
    withdrawPurchased m env s id = .error .notClaimant := by
  refine C04_refused_withdraw hf ?_
  intro hc
  cases hst : l.status <;>
    simp only [wfListing, hst, hc, Bool.and_eq_true, decide_eq_true_eq] at hwf
  · have := hwf.2.1.2; cases this
  · have := hwf.2.1.2; cases this
  · have := hwf.2.1.2
    simp only [Option.some.injEq] at this
    exact hs this

/-- "… top up or release assets from a … bucket that the account does not currently own": the
    bucket handlers, called on behalf of anybody but the owner of bucket `id`, are refused, and
    nobody can pay for a purchase with somebody else's bucket. -/
theorem C04_refused_bucket {m : Market} {env : Env} {s id : Nat} {k : Nat × Nat} {b : Bucket}
    (hI : IdsInv m) (hb : (k, b) ∈ m.buckets) (hk : k.2 = id) (hs : s ≠ k.1) :
    (∀ funds, addToBucket m funds s id = .error .badFunds ∨
              addToBucket m funds s id = .error .notFound) ∧
    (∀ nft, addToBucketNft m s nft id = .error .notFound) ∧
    withdrawBucket m env s id = .error .notFound ∧
    (∀ lid, buy m env s lid id = .error .noBucket) := by
  have hn := hI.balookup_other_none hb hk hs
  refine ⟨fun funds => ?_, fun nft => ?_, ?_, fun lid => ?_⟩
  · unfold addToBucket; rw [hn]
    split
    · exact .inl rfl
    · exact .inr rfl
  · unfold addToBucketNft; rw [hn]
  · unfold withdrawBucket; rw [hn]
  · unfold buy; rw [hn]

/-- the listing an owner-only message is aimed at (direct messages and the two receive hooks) -/
def ExecMsg.listingTarget : ExecMsg → Option Nat
  | .addToListing id => some id
  | .changeAsk id _ => some id
  | .finalize id _ => some id
  | .deleteListing id => some id
  | .receive _ _ (some (.addToListing id)) => some id
  | .receiveNft _ _ (some (.addToListing id)) => some id
  | _ => none

/-- the bucket an owner-only message is aimed at (`buy` pays with bucket `bid`) -/
def ExecMsg.bucketTarget : ExecMsg → Option Nat
  | .addToBucket id => some id
  | .removeBucket id => some id
  | .buy _ bid => some bid
  | .receive _ _ (some (.addToBucket id)) => some id
  | .receiveNft _ _ (some (.addToBucket id)) => some id
  | _ => none

/-- `C04_refused_listing` through the entry point: whatever the sender, the attached coins and
    the message kind — direct, or wrapped in a CW20 / CW721 receive hook that names the wallet
    `actor msg s` — an owner-only message aimed at listing `id` on behalf of a non-owner fails. -/
theorem C04_execute_refused_listing {m : Market} {env : Env} {s id : Nat} {f : List Coin}
    {msg : ExecMsg} {k : Nat × Nat} {l : Listing} (hI : IdsInv m)
    (hf : findById id m.listings = some (k, l)) (ht : msg.listingTarget = some id)
    (hs : actor msg s ≠ l.creator) : ∃ e, execute m env s f msg = .error e := by
  cases hx : execute m env s f msg with
  | error e => exact ⟨e, rfl⟩
  | ok r =>
    exfalso
    obtain ⟨m', out⟩ := r
    unfold execute at hx
    split at hx
    · cases hx
    cases msg with
    | feeCycle => simp [ExecMsg.listingTarget] at ht
    | createListing id' c => simp [ExecMsg.listingTarget] at ht
    | createBucket id' => simp [ExecMsg.listingTarget] at ht
    | addToBucket id' => simp [ExecMsg.listingTarget] at ht
    | removeBucket id' => simp [ExecMsg.listingTarget] at ht
    | buy lid bid => simp [ExecMsg.listingTarget] at ht
    | withdrawPurchased lid => simp [ExecMsg.listingTarget] at ht
    | addToListing id' =>
      simp only [ExecMsg.listingTarget, Option.some.injEq] at ht; subst ht
      have hs' : s ≠ l.creator := hs
      rcases (C04_refused_listing (env := env) hI hf hs').2.2.2.1 (.native f) with h | h <;>
        (dsimp only at hx; rw [h] at hx; cases hx)
    | changeAsk id' ask =>
      simp only [ExecMsg.listingTarget, Option.some.injEq] at ht; subst ht
      have hs' : s ≠ l.creator := hs
      dsimp only at hx
      rw [(C04_refused_listing (env := env) hI hf hs').1 ask] at hx; cases hx
    | finalize id' secs =>
      simp only [ExecMsg.listingTarget, Option.some.injEq] at ht; subst ht
      have hs' : s ≠ l.creator := hs
      dsimp only at hx
      rw [(C04_refused_listing (env := env) hI hf hs').2.1 secs] at hx; cases hx
    | deleteListing id' =>
      simp only [ExecMsg.listingTarget, Option.some.injEq] at ht; subst ht
      have hs' : s ≠ l.creator := hs
      dsimp only at hx
      rw [(C04_refused_listing (env := env) hI hf hs').2.2.1] at hx; cases hx
    | receive a amt i =>
      cases i with
      | none => simp [ExecMsg.listingTarget] at ht
      | some im =>
        cases im with
        | createListing id' c => simp [ExecMsg.listingTarget] at ht
        | createBucket id' => simp [ExecMsg.listingTarget] at ht
        | addToBucket id' => simp [ExecMsg.listingTarget] at ht
        | addToListing id' =>
          simp only [ExecMsg.listingTarget, Option.some.injEq] at ht; subst ht
          dsimp only at hx
          unfold receive at hx
          cases a with
          | invalid =>
            simp only [rawValid] at hx
            repeat' split at hx
            all_goals cases hx
          | valid user =>
            have hs' : user ≠ l.creator := hs
            simp only [rawValid] at hx
            repeat' split at hx
            all_goals first | (cases hx; done) | skip
            rcases (C04_refused_listing (env := env) (s := user) hI hf hs').2.2.2.1
              (.cw20 ⟨s, amt⟩) with h | h <;> (rw [h] at hx; cases hx)
    | receiveNft a t i =>
      cases i with
      | none => simp [ExecMsg.listingTarget] at ht
      | some im =>
        cases im with
        | createListing id' c => simp [ExecMsg.listingTarget] at ht
        | createBucket id' => simp [ExecMsg.listingTarget] at ht
        | addToBucket id' => simp [ExecMsg.listingTarget] at ht
        | addToListing id' =>
          simp only [ExecMsg.listingTarget, Option.some.injEq] at ht; subst ht
          dsimp only at hx
          unfold receiveNft at hx
          cases a with
          | invalid =>
            simp only [rawValid] at hx
            repeat' split at hx
            all_goals cases hx
          | valid user =>
            have hs' : user ≠ l.creator := hs
            simp only [rawValid] at hx
            repeat' split at hx
            all_goals first | (cases hx; done) | skip
            rw [(C04_refused_listing (env := env) (s := user) hI hf hs').2.2.2.2 ⟨s, t⟩] at hx
            cases hx

/-- `C04_refused_bucket` through the entry point (top up, remove, pay with it; direct or through
    a receive hook). -/
theorem C04_execute_refused_bucket {m : Market} {env : Env} {s id : Nat} {f : List Coin}
    {msg : ExecMsg} {k : Nat × Nat} {b : Bucket} (hI : IdsInv m)
    (hb : (k, b) ∈ m.buckets) (hk : k.2 = id) (ht : msg.bucketTarget = some id)
    (hs : actor msg s ≠ k.1) : ∃ e, execute m env s f msg = .error e := by
  cases hx : execute m env s f msg with
  | error e => exact ⟨e, rfl⟩
  | ok r =>
    exfalso
    obtain ⟨m', out⟩ := r
    unfold execute at hx
    split at hx
    · cases hx
    cases msg with
    | feeCycle => simp [ExecMsg.bucketTarget] at ht
    | createListing id' c => simp [ExecMsg.bucketTarget] at ht
    | createBucket id' => simp [ExecMsg.bucketTarget] at ht
    | addToListing id' => simp [ExecMsg.bucketTarget] at ht
    | changeAsk id' ask => simp [ExecMsg.bucketTarget] at ht
    | finalize id' secs => simp [ExecMsg.bucketTarget] at ht
    | deleteListing id' => simp [ExecMsg.bucketTarget] at ht
    | withdrawPurchased lid => simp [ExecMsg.bucketTarget] at ht
    | addToBucket id' =>
      simp only [ExecMsg.bucketTarget, Option.some.injEq] at ht; subst ht
      have hs' : s ≠ k.1 := hs
      rcases (C04_refused_bucket (env := env) hI hb hk hs').1 (.native f) with h | h <;>
        (dsimp only at hx; rw [h] at hx; cases hx)
    | removeBucket id' =>
      simp only [ExecMsg.bucketTarget, Option.some.injEq] at ht; subst ht
      have hs' : s ≠ k.1 := hs
      dsimp only at hx
      rw [(C04_refused_bucket (env := env) hI hb hk hs').2.2.1] at hx; cases hx
    | buy lid bid =>
      simp only [ExecMsg.bucketTarget, Option.some.injEq] at ht; subst ht
      have hs' : s ≠ k.1 := hs
      dsimp only at hx
      rw [(C04_refused_bucket (env := env) hI hb hk hs').2.2.2 lid] at hx; cases hx
    | receive a amt i =>
      cases i with
      | none => simp [ExecMsg.bucketTarget] at ht
      | some im =>
        cases im with
        | createListing id' c => simp [ExecMsg.bucketTarget] at ht
        | createBucket id' => simp [ExecMsg.bucketTarget] at ht
        | addToListing id' => simp [ExecMsg.bucketTarget] at ht
        | addToBucket id' =>
          simp only [ExecMsg.bucketTarget, Option.some.injEq] at ht; subst ht
          dsimp only at hx
          unfold receive at hx
          cases a with
          | invalid =>
            simp only [rawValid] at hx
            repeat' split at hx
            all_goals cases hx
          | valid user =>
            have hs' : user ≠ k.1 := hs
            simp only [rawValid] at hx
            repeat' split at hx
            all_goals first | (cases hx; done) | skip
            rcases (C04_refused_bucket (env := env) (s := user) hI hb hk hs').1
              (.cw20 ⟨s, amt⟩) with h | h <;> (rw [h] at hx; cases hx)
    | receiveNft a t i =>
      cases i with
      | none => simp [ExecMsg.bucketTarget] at ht
      | some im =>
        cases im with
        | createListing id' c => simp [ExecMsg.bucketTarget] at ht
        | createBucket id' => simp [ExecMsg.bucketTarget] at ht
        | addToListing id' => simp [ExecMsg.bucketTarget] at ht
        | addToBucket id' =>
          simp only [ExecMsg.bucketTarget, Option.some.injEq] at ht; subst ht
          dsimp only at hx
          unfold receiveNft at hx
          cases a with
          | invalid =>
            simp only [rawValid] at hx
            repeat' split at hx
            all_goals cases hx
          | valid user =>
            have hs' : user ≠ k.1 := hs
            simp only [rawValid] at hx
            repeat' split at hx
            all_goals first | (cases hx; done) | skip
            rw [(C04_refused_bucket (env := env) (s := user) hI hb hk hs').2.1 ⟨s, t⟩] at hx
            cases hx

/-! ## 2. frame: what an accepted message can do to other accounts' records -/

/-- "The only effect a non-owner can have is a valid purchase …": after any accepted message,
    every listing key that does not belong to the wallet the message acts for holds exactly what
    it held before — except that a purchase removes the bought (finalized) listing from its
    seller's key `(seller, lid)`; it reappears, closed and claimed, under the buyer's key
    `(s, lid)`. -/
theorem C04_frame_listings {m m' : Market} {env : Env} {s : Nat} {f : List Coin} {msg : ExecMsg}
    {out : List OutMsg} (hI : IdsInv m) (hx : execute m env s f msg = .ok (m', out))
    (k : Nat × Nat) (hk : k.1 ≠ actor msg s) :
    alookup k m'.listings = alookup k m.listings ∨
    ∃ lid bid l l', msg = .buy lid bid ∧ k = (l.creator, lid) ∧ alookup k m.listings = some l ∧
      l.status = .finalized ∧ l.claimant = none ∧ alookup k m'.listings = none ∧
      alookup (s, lid) m'.listings = some l' ∧ l'.status = .closed ∧ l'.claimant = some s ∧
      l'.ask = l.ask := by
  cases execute_mchange hx with
  | cycle _ hl _ _ _ => rw [hl]; exact .inl rfl
  | bcreate id h => obtain ⟨b', _, _, _, _, _, hl, _⟩ := h; rw [hl]; exact .inl rfl
  | bedit id h => obtain ⟨b0, b', _, _, _, _, _, _, hl, _⟩ := h; rw [hl]; exact .inl rfl
  | bremove id b0 _ _ _ hm => subst hm; exact .inl rfl
  | ledit id h =>
    obtain ⟨l0, l', _, _, _, _, _, _, _, _, hl, _⟩ := h
    rw [hl]
    exact .inl (alookup_ainsert_ne (by intro e; exact hk (congrArg Prod.fst e)) _ _)
  | lcreate id h =>
    obtain ⟨l', _, _, _, _, _, hl, _⟩ := h
    rw [hl]
    exact .inl (alookup_ainsert_ne (by intro e; exact hk (congrArg Prod.fst e)) _ _)
  | ldelete id l0 hmsg _ _ _ _ hm =>
    subst hm; subst hmsg
    exact .inl (alookup_aerase_ne (by intro e; exact hk (congrArg Prod.fst e)) _)
  | withdraw lid k2 l2 hmsg _ _ _ hm =>
    subst hm; subst hmsg
    exact .inl (alookup_aerase_ne (by intro e; exact hk (congrArg Prod.fst e)) _)
  | buy lid bid k2 l b l' b' hmsg hfind _ _ hst hcl _ _ hask _ _ _ hst' _ hcl' _ hm =>
    subst hm; subst hmsg
    have hks : k ≠ (s, lid) := by intro e; exact hk (congrArg Prod.fst e)
    dsimp only
    rw [alookup_ainsert_ne hks]
    by_cases hkl : k = (l.creator, lid)
    · obtain ⟨hk2, _, hlook⟩ := hI.findById_key hfind
      refine .inr ⟨lid, bid, l, l', rfl, hkl, ?_, hst, hcl, ?_, alookup_ainsert_self _ _ _, hst',
        hcl', hask⟩
      · rw [hkl, ← hk2]; exact hlook
      · rw [hkl]; exact alookup_aerase_self _ _
    · exact .inl (alookup_aerase_ne hkl _)

/-- "… which exchanges the listing for the buyer's own bucket": after any accepted message,
    every bucket key that does not belong to the wallet the message acts for holds exactly what
    it held before — except that a purchase files the buyer's paying bucket `bid` under the
    seller's key `(seller, bid)`, which was free before. -/
theorem C04_frame_buckets {m m' : Market} {env : Env} {s : Nat} {f : List Coin} {msg : ExecMsg}
    {out : List OutMsg} (hI : IdsInv m) (hx : execute m env s f msg = .ok (m', out))
    (k : Nat × Nat) (hk : k.1 ≠ actor msg s) :
    alookup k m'.buckets = alookup k m.buckets ∨
    ∃ lid bid kl l b', msg = .buy lid bid ∧ findById lid m.listings = some (kl, l) ∧
      k = (l.creator, bid) ∧ alookup k m.buckets = none ∧ alookup k m'.buckets = some b' ∧
      b'.owner = l.creator ∧ alookup (s, bid) m'.buckets = none := by
  cases execute_mchange hx with
  | cycle _ _ _ hb _ => rw [hb]; exact .inl rfl
  | ledit id h => obtain ⟨l0, l', _, _, _, _, _, _, _, _, _, _, hb, _⟩ := h; rw [hb]; exact .inl rfl
  | lcreate id h => obtain ⟨l', _, _, _, _, _, _, _, hb, _⟩ := h; rw [hb]; exact .inl rfl
  | ldelete id l0 _ _ _ _ _ hm => subst hm; exact .inl rfl
  | withdraw lid k2 l2 _ _ _ _ hm => subst hm; exact .inl rfl
  | bcreate id h =>
    obtain ⟨b', _, _, _, hb, _⟩ := h
    rw [hb]
    exact .inl (alookup_ainsert_ne (by intro e; exact hk (congrArg Prod.fst e)) _ _)
  | bedit id h =>
    obtain ⟨b0, b', _, _, _, _, hb, _⟩ := h
    rw [hb]
    exact .inl (alookup_ainsert_ne (by intro e; exact hk (congrArg Prod.fst e)) _ _)
  | bremove id b0 hmsg _ _ hm =>
    subst hm; subst hmsg
    exact .inl (alookup_aerase_ne (by intro e; exact hk (congrArg Prod.fst e)) _)
  | buy lid bid k2 l b l' b' hmsg hfind hbk _ _ _ _ _ _ _ _ _ _ _ _ hbo hm =>
    subst hm; subst hmsg
    have hks : k ≠ (s, bid) := by intro e; exact hk (congrArg Prod.fst e)
    dsimp only
    by_cases hkl : k = (l.creator, bid)
    · refine .inr ⟨lid, bid, k2, l, b', rfl, hfind, hkl, ?_, ?_, hbo, ?_⟩
      · cases ha : alookup k m.buckets with
        | none => rfl
        | some b2 =>
          exfalso
          have h1 := alookup_some_mem ha
          have h2 := alookup_some_mem hbk
          exact hks (hI.bidInj _ h1 _ h2 (by show k.2 = bid; rw [hkl]))
      · rw [hkl]; exact alookup_ainsert_self _ _ _
      · have hne : (s, bid) ≠ (l.creator, bid) := by
          intro e; apply hk; rw [hkl]; exact (congrArg Prod.fst e).symm
        rw [alookup_ainsert_ne hne]; exact alookup_aerase_self _ _
    · rw [alookup_ainsert_ne hkl]; exact .inl (alookup_aerase_ne hks _)

/-! ## 3. wallets -/

/-- "No action ever decreases another account's wallet": one transaction of any kind — a
    marketplace message, a CW20 `Send`, a CW721 `SendNft`, a registry message, an admin change,
    the passage of time; successful or not — can take coins, CW20 units or NFTs only from the
    account that sent it (`op.payer`: for `send20` / `send721` the token holder who called
    `Send` / `SendNft`) and from the marketplace contract itself (whose holdings back the
    records: C01).  Every other account `y` keeps at least what it had. -/
theorem C04_wallets (w : World) (op : Op) {y : Nat} (hy : op.payer ≠ some y) (hs : y ≠ w.self) :
    (∀ d, lget (step w op).1.bank (y, d) ≥ lget w.bank (y, d)) ∧
    (∀ t, lget (step w op).1.cw20 (t, y) ≥ lget w.cw20 (t, y)) ∧
    (∀ k, alookup k w.nft = some y → alookup k (step w op).1.nft = some y) := by
  have h := stepF_noDebit noFault w op hy hs
  exact ⟨h.bank, h.cw20, h.nft⟩

/-- the same along any history in which `y` sends nothing -/
theorem C04_wallets_run (w : World) (ops : List Op) {y : Nat}
    (hy : ∀ op ∈ ops, op.payer ≠ some y) (hs : y ≠ w.self) :
    (∀ d, lget (run w ops).bank (y, d) ≥ lget w.bank (y, d)) ∧
    (∀ t, lget (run w ops).cw20 (t, y) ≥ lget w.cw20 (t, y)) ∧
    (∀ k, alookup k w.nft = some y → alookup k (run w ops).nft = some y) := by
  suffices h : NoDebit y w (run w ops) from ⟨h.bank, h.cw20, h.nft⟩
  induction ops generalizing w with
  | nil => exact NoDebit.refl _ _
  | cons op ops ih =>
    have h1 := stepF_noDebit noFault w op (hy op (List.mem_cons_self ..)) hs
    have hself : (stepF noFault w op).1.self = w.self := by
      cases ho : op.asExec with
      | some t =>
        obtain ⟨c, f, msg⟩ := t
        rcases stepF_market (fail := noFault) (w := w) ho with ⟨e, h⟩ | ⟨_, _, _, _, _, hc, h⟩
        · rw [h]
        · rw [h]; exact hc.self
      | none =>
        cases op with
        | exec s fu m => simp [Op.asExec] at ho
        | send20 t s a i => simp [Op.asExec] at ho
        | send721 co s t i => simp [Op.asExec] at ho
        | royalty s m =>
          rcases stepF_royalty noFault w s m with ⟨e, _, h⟩ | ⟨r, _, h⟩ <;> rw [h]
        | setAdmin s c n =>
          simp only [stepF]
          repeat' split
          all_goals rfl
        | advance a b => rfl
    exact h1.trans (ih (step w op).1 (fun o ho => hy o (List.mem_cons_of_mem _ ho))
      (by show y ≠ (stepF noFault w op).1.self; rw [hself]; exact hs))

/-! ## 4. refused = nothing happened -/

/-- "such messages fail and leave all state and balances untouched": a failed transaction
    returns the original world. -/
theorem C04_refused_noop (w : World) (op : Op) (h : (step w op).2.ok = false) :
    (step w op).1 = w :=
  stepF_failed_noop noFault w op h

/-- the owner-only listing messages of a non-owner as transactions: they fail — direct, through
    an honest token's `Send` / `SendNft`, or forged — and the world is untouched. -/
theorem C04_step_refused_listing {w : World} {op : Op} {c id : Nat} {f : List Coin} {msg : ExecMsg}
    {k : Nat × Nat} {l : Listing} (hI : IdsInv w.mkt)
    (hf : findById id w.mkt.listings = some (k, l)) (ho : op.asExec = some (c, f, msg))
    (ht : msg.listingTarget = some id) (hs : actor msg c ≠ l.creator) :
    (step w op).2.ok = false ∧ (step w op).1 = w := by
  obtain ⟨e, he⟩ := C04_execute_refused_listing (env := w.env) (f := f) hI hf ht hs
  have hok : (step w op).2.ok = false := by
    unfold step
    rcases stepF_market (fail := noFault) (w := w) ho with ⟨e', h⟩ | ⟨m', msgs, w2, hx, _, _, _⟩
    · rw [h]; rfl
    · rw [he] at hx; cases hx
  exact ⟨hok, C04_refused_noop w op hok⟩

/-- the owner-only bucket messages of a non-owner as transactions -/
theorem C04_step_refused_bucket {w : World} {op : Op} {c id : Nat} {f : List Coin} {msg : ExecMsg}
    {k : Nat × Nat} {b : Bucket} (hI : IdsInv w.mkt)
    (hb : (k, b) ∈ w.mkt.buckets) (hk : k.2 = id) (ho : op.asExec = some (c, f, msg))
    (ht : msg.bucketTarget = some id) (hs : actor msg c ≠ k.1) :
    (step w op).2.ok = false ∧ (step w op).1 = w := by
  obtain ⟨e, he⟩ := C04_execute_refused_bucket (env := w.env) (f := f) hI hb hk ht hs
  have hok : (step w op).2.ok = false := by
    unfold step
    rcases stepF_market (fail := noFault) (w := w) ho with ⟨e', h⟩ | ⟨m', msgs, w2, hx, _, _, _⟩
    · rw [h]; rfl
    · rw [he] at hx; cases hx
  exact ⟨hok, C04_refused_noop w op hok⟩

/-! ### non-vacuity -/

private def exEnv (nowNs : Nat) : Env :=
  { self := 100, nowNs := nowNs, junoD := 1, usdcD := 2, regAddr := 102,
    isToken20 := fun a => a == 3, isContract := fun a => a == 3 || a == 4, regLookup := fun _ => none }

-- seller 1: preparing listing 6 and finalized listing 7; buyer 2: bucket 8 matching the ask of 7
private def exPrep : Listing :=
  { creator := 1, id := 6, finalizedAt := none, expiresAt := none, status := .preparing,
    claimant := none, whitelist := none, forSale := ⟨[⟨1, 1000⟩], [], []⟩,
    ask := ⟨[⟨2, 2000⟩], [], []⟩, fee := none }

private def exFin : Listing :=
  { exPrep with id := 7, finalizedAt := some 0, expiresAt := some (600 * NS), status := .finalized }

private def exM : Market :=
  { listings := [((1, 6), exPrep), ((1, 7), exFin)],
    buckets := [((2, 8), ⟨2, ⟨[⟨2, 2000⟩], [], []⟩, none⟩)],
    listingUsed := [7, 6, 0], bucketUsed := [8, 0], feeKind := .juno, feeSince := 0,
    registry := some 102 }

private theorem exM_ids : IdsInv exM := by
  constructor <;> simp [exM, akeys, exPrep, exFin]

private def exW : World :=
  { self := 100, pool := 101, regAddr := 102, junoD := 1, usdcD := 2, nowNs := 5, height := 1,
    mkt := exM, reg := [], bank := [((100, 1), 2000), ((100, 2), 2000), ((9, 1), 70)],
    cw20 := [((3, 9), 40)], nft := [((4, 1), 9)],
    contracts := [(3, ⟨none, 1, true, false⟩), (4, ⟨none, 2, false, false⟩)] }

example : findById 6 exM.listings = some ((1, 6), exPrep) ∧ (9 : Nat) ≠ exPrep.creator := by decide
example : ((2, 8), (⟨2, ⟨[⟨2, 2000⟩], [], []⟩, none⟩ : Bucket)) ∈ exM.buckets ∧ (9 : Nat) ≠ 2 := by
  decide
-- account 9 aims owner-only messages at seller 1's listing 6 and buyer 2's bucket 8
example : (ExecMsg.finalize 6 600).listingTarget = some 6 := rfl
example : (ExecMsg.receive (.valid 9) 5 (some (.addToListing 6))).listingTarget = some 6 := rfl
example : actor (.receive (.valid 9) 5 (some (.addToListing 6))) 3 = 9 := rfl
example : (ExecMsg.buy 7 8).bucketTarget = some 8 := rfl
example : (step exW (.exec 9 [] (.finalize 6 600))).2.ok = false := by decide
example : (step exW (.exec 9 [] (.deleteListing 6))).2.ok = false := by decide
example : (step exW (.exec 9 [⟨1, 5⟩] (.addToListing 6))).2.ok = false := by decide
example : (step exW (.send20 3 9 5 (some (.addToListing 6)))).2.ok = false := by decide
example : (step exW (.send721 4 9 1 (some (.addToBucket 8)))).2.ok = false := by decide
example : (step exW (.exec 9 [] (.buy 7 8))).2.ok = false := by decide
example : (step exW (.exec 9 [] (.removeBucket 8))).2.ok = false := by decide
-- the owners' own messages are accepted (the refusals above are not vacuous refusals)
example : (step exW (.exec 1 [] (.finalize 6 600))).2.ok = true := by decide
example : (step exW (.exec 2 [] (.removeBucket 8))).2.ok = true := by decide
-- frame: the purchase by 2 moves listing 7 from key (1, 7) to (2, 7) and bucket 8 to (1, 8)
example : ∃ r, execute exM (exEnv 5) 2 [] (.buy 7 8) = .ok r := ⟨_, rfl⟩
example : (1 : Nat) ≠ actor (.buy 7 8) 2 := by decide
example : ((step exW (.exec 2 [] (.buy 7 8))).1.mkt.listings.map (·.1),
           (step exW (.exec 2 [] (.buy 7 8))).1.mkt.buckets.map (·.1)) =
    ([(2, 7), (1, 6)], [(1, 8)]) := by decide
-- wallets: 9's holdings are untouched by 2's purchase; hypotheses of `C04_wallets`
example : (Op.exec 2 [] (.buy 7 8)).payer ≠ some 9 ∧ (9 : Nat) ≠ exW.self := by decide

-- hypotheses of `C04_refused_withdraw` / `_wf`: listing 7 is unclaimed, 9 is not its owner
example : findById 7 exM.listings = some ((1, 7), exFin) ∧ exFin.claimant ≠ some 9 ∧
    wfListing 1 2 (1, 7) exFin = true ∧ (9 : Nat) ≠ exFin.creator := by decide
example : (step exW (.exec 9 [] (.withdrawPurchased 7))).2.ok = false := by decide
-- hypothesis of `C04_wallets_run`: a history in which 9 sends nothing
example : ∀ op ∈ [Op.exec 2 [] (.buy 7 8), .exec 2 [] (.withdrawPurchased 7), .advance 5 1],
    op.payer ≠ some 9 := by decide
-- a failed transaction (hypothesis of `C04_refused_noop`)
example : (step exW (.exec 9 [] (.changeAsk 6 ⟨[⟨2, 1⟩], [], []⟩))).2.ok = false := by decide

/-! ## axioms -/

#print axioms C04_refused_listing
#print axioms C04_refused_withdraw
#print axioms C04_refused_withdraw_wf
#print axioms C04_refused_bucket
#print axioms C04_execute_refused_listing
#print axioms C04_execute_refused_bucket
#print axioms C04_frame_listings
#print axioms C04_frame_buckets
#print axioms C04_wallets
#print axioms C04_wallets_run
#print axioms C04_refused_noop
#print axioms C04_step_refused_listing
#print axioms C04_step_refused_bucket

end Fuzion
