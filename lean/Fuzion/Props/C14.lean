/-
  Fuzion.Props.C14 — "Royalty entries change only by the collection's admin, within bounds".

  Property text:  A collection's royalty entry can be created, modified or removed only by the
  account that is that NFT contract's admin at that moment; its rate is always between 10 and
  300 bps; and an existing entry cannot be modified or removed until 100 blocks after it was
  created or last modified, while from then on the admin can.  Lookups, single or batched, return
  the current entry (or none) for each requested collection, in request order.

  About saturation.  The Rust tests `last_updated.saturating_add(100) > height` on `u64`s.  The
  `…_ok_iff` theorems below are exact (they carry the `min … U64MAX`); the `…_iff` theorems read
  the test as `lastUpdated + 100 ≤ height` under the side condition `env.height < U64MAX` (the
  chain has not reached block 2⁶⁴ − 1), the primed variants under the alternative side condition
  `e.lastUpdated + COOLDOWN ≤ U64MAX` on the stored entry.  At `height = U64MAX` exactly the
  saturated test lets every entry through; that is the only difference.
-/
import Fuzion.Lemmas.RegistryLemmas
namespace Fuzion

/-! ## handler level -/

/-! ### 1. register -/

/-- "A collection's royalty entry can be created … only by the account that is that NFT
    contract's admin at that moment; its rate is … between 10 and 300 bps": exact acceptance
    condition and effect of `Register` in one statement. -/
theorem C14_register_ok_iff (reg : Registry) (env : RegEnv) (sender : Nat) (nft payout : RawAddr)
    (bps : Nat) (r : Registry) :
    regRegister reg env sender nft payout bps = .ok r ↔
    ∃ c p, nft = .valid c ∧ payout = .valid p ∧ MIN_BPS ≤ bps ∧ bps ≤ MAX_BPS ∧
      env.adminOf c = some (some sender) ∧ alookup c reg = none ∧
      r = ainsert c ⟨env.height, bps, p⟩ reg := by
  constructor
  · intro h
    unfold regRegister at h
    split at h
    · contradiction
    · next hb =>
      split at h
      · next p c =>
        split at h
        · contradiction
        · split at h
          · contradiction
          · next ha =>
            split at h
            · contradiction
            · next hl =>
              injection h with h
              have hb' : bpsOk bps = true := by simpa using hb
              have ha' : isAdmin env sender c = true := by simpa using ha
              have hl' : alookup c reg = none := by simpa using hl
              obtain ⟨h1, h2⟩ := (bpsOk_iff bps).1 hb'
              exact ⟨c, p, rfl, rfl, h1, h2, (isAdmin_iff env sender c).1 ha', hl', h.symm⟩
      · contradiction
  · rintro ⟨c, p, rfl, rfl, h1, h2, h3, h4, rfl⟩
    have ha := (isAdmin_iff env sender c).2 h3
    have hb := (bpsOk_iff bps).2 ⟨h1, h2⟩
    simp [regRegister, ha, hb, h3, h4]

/-- "A collection's royalty entry can be created … only by the account that is that NFT
    contract's admin at that moment; its rate is … between 10 and 300 bps" — `Register` is
    accepted exactly when both addresses validate, the rate is in bounds, the sender is the
    collection's admin in the environment of this very call, and no entry exists yet. -/
theorem C14_register_iff (reg : Registry) (env : RegEnv) (sender : Nat) (nft payout : RawAddr)
    (bps : Nat) :
    (∃ r, regRegister reg env sender nft payout bps = .ok r) ↔
    ∃ c p, nft = .valid c ∧ payout = .valid p ∧ MIN_BPS ≤ bps ∧ bps ≤ MAX_BPS ∧
      env.adminOf c = some (some sender) ∧ alookup c reg = none := by
  constructor
  · rintro ⟨r, h⟩
    obtain ⟨c, p, h1, h2, h3, h4, h5, h6, _⟩ := (C14_register_ok_iff ..).1 h
    exact ⟨c, p, h1, h2, h3, h4, h5, h6⟩
  · rintro ⟨c, p, h1, h2, h3, h4, h5, h6⟩
    exact ⟨_, (C14_register_ok_iff ..).2 ⟨c, p, h1, h2, h3, h4, h5, h6, rfl⟩⟩

/-- "created": an accepted `Register` stores exactly `⟨current height, bps, payout⟩` under the
    collection and nothing else. -/
theorem C14_register_effect {reg : Registry} {env : RegEnv} {sender : Nat} {nft payout : RawAddr}
    {bps : Nat} {r : Registry} (h : regRegister reg env sender nft payout bps = .ok r) :
    ∃ c p, nft = .valid c ∧ payout = .valid p ∧ r = ainsert c ⟨env.height, bps, p⟩ reg := by
  obtain ⟨c, p, h1, h2, _, _, _, _, h7⟩ := (C14_register_ok_iff ..).1 h
  exact ⟨c, p, h1, h2, h7⟩

-- non-vacuity: admin 1 of collection 5 registers 50 bps at height 7
example : regRegister [] ⟨7, fun c => if c = 5 then some (some 1) else none⟩ 1 (.valid 5) (.valid 9) 50
    = .ok [(5, ⟨7, 50, 9⟩)] := by rfl

/-! ### 2. update -/

/-- "modified only by the … admin at that moment; rate … between 10 and 300 bps; … cannot be
    modified … until 100 blocks after it was created or last modified, while from then on the
    admin can": exact acceptance condition (with the `u64` saturation) and effect of `Update`.
    Absent fields keep the stored value. -/
theorem C14_update_ok_iff (reg : Registry) (env : RegEnv) (sender : Nat) (nft : RawAddr)
    (payout : Option RawAddr) (bps : Option Nat) (r : Registry) :
    regUpdate reg env sender nft payout bps = .ok r ↔
    ∃ c e, nft = .valid c ∧ env.adminOf c = some (some sender) ∧ alookup c reg = some e ∧
      min (e.lastUpdated + COOLDOWN) U64MAX ≤ env.height ∧
      (∀ b, bps = some b → MIN_BPS ≤ b ∧ b ≤ MAX_BPS) ∧ payout ≠ some .invalid ∧
      r = ainsert c ⟨env.height, bps.getD e.bps, updPayout payout e.payout⟩ reg := by
  constructor
  · intro h
    -- (`cases bps` first: otherwise `split` descends into the `match bps` inside the `if`)
    cases bps <;>
    · unfold regUpdate at h
      dsimp only at h
      split at h
      · contradiction
      · next c =>
        split at h
        · contradiction
        · split at h
          · contradiction
          · next ha =>
            split at h
            · contradiction
            · next e he =>
              split at h
              · contradiction
              · next hc =>
                split at h
                · contradiction
                · next hb =>
                  have ha' : isAdmin env sender c = true := by simpa using ha
                  have hc' : coolingDown e env.height = false := by simpa using hc
                  split at h
                  · contradiction
                  · injection h with h
                    refine ⟨c, e, rfl, (isAdmin_iff ..).1 ha', he,
                      (coolingDown_false_iff ..).1 hc', ?_, by simp, h.symm⟩
                    intro b hbb
                    cases hbb <;> exact (bpsOk_iff _).1 (by simpa using hb)
                  · injection h with h
                    refine ⟨c, e, rfl, (isAdmin_iff ..).1 ha', he,
                      (coolingDown_false_iff ..).1 hc', ?_, by simp, h.symm⟩
                    intro b hbb
                    cases hbb <;> exact (bpsOk_iff _).1 (by simpa using hb)
  · rintro ⟨c, e, rfl, h1, h2, h3, h4, h5, rfl⟩
    have ha := (isAdmin_iff env sender c).2 h1
    have hc := (coolingDown_false_iff e env.height).2 h3
    cases bps with
    | none =>
      cases payout with
      | none => simp [regUpdate, h1, ha, h2, hc]
      | some a =>
        cases a with
        | invalid => exact absurd rfl h5
        | valid p => simp [regUpdate, h1, ha, h2, hc]
    | some b =>
      have hb := (bpsOk_iff b).2 (h4 b rfl)
      cases payout with
      | none => simp [regUpdate, h1, ha, h2, hc, hb]
      | some a =>
        cases a with
        | invalid => exact absurd rfl h5
        | valid p => simp [regUpdate, h1, ha, h2, hc, hb]

/-- "modified only by the … admin at that moment; … cannot be modified … until 100 blocks after
    it was created or last modified, while from then on the admin can" — `Update` is accepted
    exactly when the sender is the collection's admin in the environment of this call, an entry
    exists, at least 100 blocks have passed since it was written, and the new values (if any)
    are admissible.  Side condition: `env.height < U64MAX` (see the header). -/
theorem C14_update_iff (reg : Registry) (env : RegEnv) (sender : Nat) (nft : RawAddr)
    (payout : Option RawAddr) (bps : Option Nat) (hH : env.height < U64MAX) :
    (∃ r, regUpdate reg env sender nft payout bps = .ok r) ↔
    ∃ c e, nft = .valid c ∧ env.adminOf c = some (some sender) ∧ alookup c reg = some e ∧
      e.lastUpdated + COOLDOWN ≤ env.height ∧
      (∀ b, bps = some b → MIN_BPS ≤ b ∧ b ≤ MAX_BPS) ∧ payout ≠ some .invalid := by
  constructor
  · rintro ⟨r, h⟩
    obtain ⟨c, e, h1, h2, h3, h4, h5, h6, _⟩ := (C14_update_ok_iff ..).1 h
    exact ⟨c, e, h1, h2, h3, (min_sat_le_iff_of_lt hH).1 h4, h5, h6⟩
  · rintro ⟨c, e, h1, h2, h3, h4, h5, h6⟩
    exact ⟨_, (C14_update_ok_iff ..).2 ⟨c, e, h1, h2, h3, (min_sat_le_iff_of_lt hH).2 h4, h5, h6, rfl⟩⟩

/-- `C14_update_iff` under the alternative side condition, on the stored entries instead of the
    block height: no stored `lastUpdated + 100` exceeds `u64::MAX`. -/
theorem C14_update_iff' (reg : Registry) (env : RegEnv) (sender : Nat) (nft : RawAddr)
    (payout : Option RawAddr) (bps : Option Nat)
    (hE : ∀ c e, alookup c reg = some e → e.lastUpdated + COOLDOWN ≤ U64MAX) :
    (∃ r, regUpdate reg env sender nft payout bps = .ok r) ↔
    ∃ c e, nft = .valid c ∧ env.adminOf c = some (some sender) ∧ alookup c reg = some e ∧
      e.lastUpdated + COOLDOWN ≤ env.height ∧
      (∀ b, bps = some b → MIN_BPS ≤ b ∧ b ≤ MAX_BPS) ∧ payout ≠ some .invalid := by
  constructor
  · rintro ⟨r, h⟩
    obtain ⟨c, e, h1, h2, h3, h4, h5, h6, _⟩ := (C14_update_ok_iff ..).1 h
    exact ⟨c, e, h1, h2, h3, (min_sat_le_iff_of_le (hE c e h3)).1 h4, h5, h6⟩
  · rintro ⟨c, e, h1, h2, h3, h4, h5, h6⟩
    exact ⟨_, (C14_update_ok_iff ..).2
      ⟨c, e, h1, h2, h3, (min_sat_le_iff_of_le (hE c e h3)).2 h4, h5, h6, rfl⟩⟩

/-- "modified": an accepted `Update` rewrites the entry to `⟨current height, new-or-old bps,
    new-or-old payout⟩` — absent fields are kept — and nothing else. -/
theorem C14_update_effect {reg : Registry} {env : RegEnv} {sender : Nat} {nft : RawAddr}
    {payout : Option RawAddr} {bps : Option Nat} {r : Registry}
    (h : regUpdate reg env sender nft payout bps = .ok r) :
    ∃ c e, nft = .valid c ∧ alookup c reg = some e ∧
      r = ainsert c ⟨env.height, bps.getD e.bps, updPayout payout e.payout⟩ reg := by
  obtain ⟨c, e, h1, _, h3, _, _, _, h7⟩ := (C14_update_ok_iff ..).1 h
  exact ⟨c, e, h1, h3, h7⟩

-- non-vacuity: entry written at height 7, admin 1 changes only the rate at height 107
example : regUpdate [(5, ⟨7, 50, 9⟩)] ⟨107, fun c => if c = 5 then some (some 1) else none⟩ 1
    (.valid 5) none (some 300) = .ok [(5, ⟨107, 300, 9⟩)] := by rfl
-- … and is refused one block earlier
example : regUpdate [(5, ⟨7, 50, 9⟩)] ⟨106, fun c => if c = 5 then some (some 1) else none⟩ 1
    (.valid 5) none (some 300) = .error .cooldown := by rfl
example : (107 : Nat) < U64MAX := by decide
example : ∀ c e, alookup c [(5, (⟨7, 50, 9⟩ : RoyaltyInfo))] = some e →
    e.lastUpdated + COOLDOWN ≤ U64MAX := by
  intro c e h
  simp only [alookup] at h
  split at h
  · cases h; decide
  · cases h

/-! ### 3. remove -/

/-- "removed only by the … admin at that moment; … cannot be … removed until 100 blocks after it
    was created or last modified, while from then on the admin can": exact acceptance condition
    (with the `u64` saturation) and effect of `Remove`. -/
theorem C14_remove_ok_iff (reg : Registry) (env : RegEnv) (sender : Nat) (nft : RawAddr)
    (r : Registry) :
    regRemove reg env sender nft = .ok r ↔
    ∃ c e, nft = .valid c ∧ env.adminOf c = some (some sender) ∧ alookup c reg = some e ∧
      min (e.lastUpdated + COOLDOWN) U64MAX ≤ env.height ∧ r = aerase c reg := by
  constructor
  · intro h
    unfold regRemove at h
    split at h
    · contradiction
    · next c =>
      split at h
      · contradiction
      · split at h
        · contradiction
        · next ha =>
          split at h
          · contradiction
          · next e he =>
            split at h
            · contradiction
            · next hc =>
              have ha' : isAdmin env sender c = true := by simpa using ha
              have hc' : coolingDown e env.height = false := by simpa using hc
              injection h with h
              exact ⟨c, e, rfl, (isAdmin_iff ..).1 ha', he, (coolingDown_false_iff ..).1 hc', h.symm⟩
  · rintro ⟨c, e, rfl, h1, h2, h3, rfl⟩
    have ha := (isAdmin_iff env sender c).2 h1
    have hc := (coolingDown_false_iff e env.height).2 h3
    simp [regRemove, h1, ha, h2, hc]

/-- "removed only by the … admin at that moment; … cannot be … removed until 100 blocks after it
    was created or last modified, while from then on the admin can".  Side condition:
    `env.height < U64MAX` (see the header). -/
theorem C14_remove_iff (reg : Registry) (env : RegEnv) (sender : Nat) (nft : RawAddr)
    (hH : env.height < U64MAX) :
    (∃ r, regRemove reg env sender nft = .ok r) ↔
    ∃ c e, nft = .valid c ∧ env.adminOf c = some (some sender) ∧ alookup c reg = some e ∧
      e.lastUpdated + COOLDOWN ≤ env.height := by
  constructor
  · rintro ⟨r, h⟩
    obtain ⟨c, e, h1, h2, h3, h4, _⟩ := (C14_remove_ok_iff ..).1 h
    exact ⟨c, e, h1, h2, h3, (min_sat_le_iff_of_lt hH).1 h4⟩
  · rintro ⟨c, e, h1, h2, h3, h4⟩
    exact ⟨_, (C14_remove_ok_iff ..).2 ⟨c, e, h1, h2, h3, (min_sat_le_iff_of_lt hH).2 h4, rfl⟩⟩

/-- `C14_remove_iff` under the alternative side condition on the stored entries. -/
theorem C14_remove_iff' (reg : Registry) (env : RegEnv) (sender : Nat) (nft : RawAddr)
    (hE : ∀ c e, alookup c reg = some e → e.lastUpdated + COOLDOWN ≤ U64MAX) :
    (∃ r, regRemove reg env sender nft = .ok r) ↔
    ∃ c e, nft = .valid c ∧ env.adminOf c = some (some sender) ∧ alookup c reg = some e ∧
      e.lastUpdated + COOLDOWN ≤ env.height := by
  constructor
  · rintro ⟨r, h⟩
    obtain ⟨c, e, h1, h2, h3, h4, _⟩ := (C14_remove_ok_iff ..).1 h
    exact ⟨c, e, h1, h2, h3, (min_sat_le_iff_of_le (hE c e h3)).1 h4⟩
  · rintro ⟨c, e, h1, h2, h3, h4⟩
    exact ⟨_, (C14_remove_ok_iff ..).2
      ⟨c, e, h1, h2, h3, (min_sat_le_iff_of_le (hE c e h3)).2 h4, rfl⟩⟩

/-- "removed": an accepted `Remove` deletes the collection's entry and nothing else. -/
theorem C14_remove_effect {reg : Registry} {env : RegEnv} {sender : Nat} {nft : RawAddr}
    {r : Registry} (h : regRemove reg env sender nft = .ok r) :
    ∃ c, nft = .valid c ∧ r = aerase c reg := by
  obtain ⟨c, e, h1, _, _, _, h5⟩ := (C14_remove_ok_iff ..).1 h
  exact ⟨c, h1, h5⟩

-- non-vacuity
example : regRemove [(5, ⟨7, 50, 9⟩)] ⟨107, fun c => if c = 5 then some (some 1) else none⟩ 1
    (.valid 5) = .ok [] := by rfl
example : regRemove [(5, ⟨7, 50, 9⟩)] ⟨106, fun c => if c = 5 then some (some 1) else none⟩ 1
    (.valid 5) = .error .cooldown := by rfl

/-! ### 4. only the admin's own collection entry changes -/

/-- "A collection's royalty entry can be created, modified or removed only by the account that is
    that NFT contract's admin at that moment": an accepted message names a collection `c` whose
    admin (in the environment of this call) is the sender, and every other collection's entry is
    as before. -/
theorem C14_only_entry {reg : Registry} {env : RegEnv} {sender : Nat} {msg : RoyMsg}
    {r : Registry} (h : regExecute reg env sender msg = .ok r) :
    ∃ c, msg.nft = .valid c ∧ env.adminOf c = some (some sender) ∧
      ∀ c', c' ≠ c → alookup c' r = alookup c' reg := by
  cases msg with
  | register n p b =>
    obtain ⟨c, p', h1, _, _, _, h5, _, rfl⟩ := (C14_register_ok_iff ..).1 h
    exact ⟨c, h1, h5, fun c' hne => alookup_ainsert_ne hne _ _⟩
  | update n p b =>
    obtain ⟨c, e, h1, h2, _, _, _, _, rfl⟩ := (C14_update_ok_iff ..).1 h
    exact ⟨c, h1, h2, fun c' hne => alookup_ainsert_ne hne _ _⟩
  | remove n =>
    obtain ⟨c, e, h1, h2, _, _, rfl⟩ := (C14_remove_ok_iff ..).1 h
    exact ⟨c, h1, h2, fun c' hne => alookup_aerase_ne hne _⟩

example : regExecute [] ⟨7, fun c => if c = 5 then some (some 1) else none⟩ 1
    (.register (.valid 5) (.valid 9) 50) = .ok [(5, ⟨7, 50, 9⟩)] := by rfl

/-- "only by the account that is that NFT contract's admin": a sender who is admin of no
    contract can change nothing — every message of theirs is refused. -/
theorem C14_nonadmin_noop {reg : Registry} {env : RegEnv} {sender : Nat}
    (hno : ∀ c, env.adminOf c ≠ some (some sender)) (msg : RoyMsg) :
    ∃ e, regExecute reg env sender msg = .error e := by
  cases h : regExecute reg env sender msg with
  | error e => exact ⟨e, rfl⟩
  | ok r =>
    obtain ⟨c, _, hc, _⟩ := C14_only_entry h
    exact absurd hc (hno c)

-- non-vacuity: sender 2 is admin of nothing in this environment
example : ∀ c, (fun c => if c = 5 then some (some 1) else none : Nat → Option (Option Nat)) c
    ≠ some (some 2) := by
  intro c; dsimp only; split <;> simp

/-- The property in one statement, per collection.  If an accepted message changes what is
    stored for collection `c`, then the sender is `c`'s admin in the environment of this call;
    an entry that existed before was at least 100 blocks old (`u64`-saturated sum); and an entry
    that exists afterwards is stamped with the current height (so the 100 blocks count from
    this creation / modification).  The rate bound is `C14_bps_inv`. -/
theorem C14_change_guard {reg : Registry} {env : RegEnv} {sender : Nat} {msg : RoyMsg}
    {r : Registry} (h : regExecute reg env sender msg = .ok r) {c : Nat}
    (hch : alookup c r ≠ alookup c reg) :
    env.adminOf c = some (some sender) ∧
    (∀ e, alookup c reg = some e → min (e.lastUpdated + COOLDOWN) U64MAX ≤ env.height) ∧
    (∀ e', alookup c r = some e' → e'.lastUpdated = env.height) := by
  obtain ⟨c0, hn, hadm, hother⟩ := C14_only_entry h
  have hc : c = c0 := Decidable.byContradiction fun hne => hch (hother c hne)
  subst hc
  refine ⟨hadm, ?_, ?_⟩
  · intro e he
    cases msg with
    | register n p b =>
      obtain ⟨c', p', h1, _, _, _, _, h6, _⟩ := (C14_register_ok_iff ..).1 h
      simp only [RoyMsg.nft] at hn
      rw [hn] at h1; cases h1
      rw [h6] at he; cases he
    | update n p b =>
      obtain ⟨c', e', h1, _, h3, h4, _⟩ := (C14_update_ok_iff ..).1 h
      simp only [RoyMsg.nft] at hn
      rw [hn] at h1; cases h1
      rw [h3] at he; cases he; exact h4
    | remove n =>
      obtain ⟨c', e', h1, _, h3, h4, _⟩ := (C14_remove_ok_iff ..).1 h
      simp only [RoyMsg.nft] at hn
      rw [hn] at h1; cases h1
      rw [h3] at he; cases he; exact h4
  · intro e' he'
    cases msg with
    | register n p b =>
      obtain ⟨c', p', h1, _, _, _, _, _, rfl⟩ := (C14_register_ok_iff ..).1 h
      simp only [RoyMsg.nft] at hn
      rw [hn] at h1; cases h1
      rw [alookup_ainsert_self] at he'; cases he'
      rfl
    | update n p b =>
      obtain ⟨c', e, h1, _, _, _, _, _, rfl⟩ := (C14_update_ok_iff ..).1 h
      simp only [RoyMsg.nft] at hn
      rw [hn] at h1; cases h1
      rw [alookup_ainsert_self] at he'; cases he'
      rfl
    | remove n =>
      obtain ⟨c', e, h1, _, _, _, rfl⟩ := (C14_remove_ok_iff ..).1 h
      simp only [RoyMsg.nft] at hn
      rw [hn] at h1; cases h1
      rw [alookup_aerase_self] at he'; cases he'

-- non-vacuity: the accepted update above changes what is stored for collection 5
example : alookup 5 ([(5, ⟨107, 300, 9⟩)] : Registry) ≠ alookup 5 [(5, ⟨7, 50, 9⟩)] := by decide

/-! ### 5. invariants of the registry -/

/-- "its rate is always between 10 and 300 bps": the bound is preserved by every accepted
    message (an `Update` without a rate keeps the stored, already bounded, one). -/
theorem C14_bps_inv {reg : Registry} {env : RegEnv} {sender : Nat} {msg : RoyMsg} {r : Registry}
    (hinv : ∀ p ∈ reg, MIN_BPS ≤ p.2.bps ∧ p.2.bps ≤ MAX_BPS)
    (h : regExecute reg env sender msg = .ok r) :
    ∀ p ∈ r, MIN_BPS ≤ p.2.bps ∧ p.2.bps ≤ MAX_BPS := by
  intro q hq
  cases msg with
  | register n p b =>
    obtain ⟨c, p', _, _, h3, h4, _, _, rfl⟩ := (C14_register_ok_iff ..).1 h
    rcases mem_ainsert.1 hq with rfl | ⟨hm, _⟩
    · exact ⟨h3, h4⟩
    · exact hinv q hm
  | update n p b =>
    obtain ⟨c, e, _, _, h3, _, h5, _, rfl⟩ := (C14_update_ok_iff ..).1 h
    rcases mem_ainsert.1 hq with rfl | ⟨hm, _⟩
    · cases b with
      | none => exact hinv (c, e) (alookup_some_mem h3)
      | some b' => exact h5 b' rfl
    · exact hinv q hm
  | remove n =>
    obtain ⟨c, e, _, _, _, _, rfl⟩ := (C14_remove_ok_iff ..).1 h
    exact hinv q (mem_aerase.1 hq).1

example : ∀ p ∈ ([(5, ⟨7, 50, 9⟩)] : Registry), MIN_BPS ≤ p.2.bps ∧ p.2.bps ≤ MAX_BPS := by decide

/-- one entry per collection: key uniqueness is preserved (so "the entry" of a collection is
    well defined and `alookup` sees every stored pair). -/
theorem C14_nodup_inv {reg : Registry} {env : RegEnv} {sender : Nat} {msg : RoyMsg} {r : Registry}
    (hinv : (akeys reg).Nodup) (h : regExecute reg env sender msg = .ok r) : (akeys r).Nodup := by
  cases msg with
  | register n p b =>
    obtain ⟨c, p', _, _, _, _, _, _, rfl⟩ := (C14_register_ok_iff ..).1 h
    exact nodup_akeys_ainsert _ _ hinv
  | update n p b =>
    obtain ⟨c, e, _, _, _, _, _, _, rfl⟩ := (C14_update_ok_iff ..).1 h
    exact nodup_akeys_ainsert _ _ hinv
  | remove n =>
    obtain ⟨c, e, _, _, _, _, rfl⟩ := (C14_remove_ok_iff ..).1 h
    exact nodup_akeys_aerase _ hinv

example : (akeys ([(5, ⟨7, 50, 9⟩)] : Registry)).Nodup := by decide

/-- "created or last modified": no entry is stamped with a future block. -/
theorem C14_stamp_inv {reg : Registry} {env : RegEnv} {sender : Nat} {msg : RoyMsg} {r : Registry}
    (hinv : ∀ p ∈ reg, p.2.lastUpdated ≤ env.height)
    (h : regExecute reg env sender msg = .ok r) : ∀ p ∈ r, p.2.lastUpdated ≤ env.height := by
  intro q hq
  cases msg with
  | register n p b =>
    obtain ⟨c, p', _, _, _, _, _, _, rfl⟩ := (C14_register_ok_iff ..).1 h
    rcases mem_ainsert.1 hq with rfl | ⟨hm, _⟩
    · exact Nat.le_refl _
    · exact hinv q hm
  | update n p b =>
    obtain ⟨c, e, _, _, _, _, _, _, rfl⟩ := (C14_update_ok_iff ..).1 h
    rcases mem_ainsert.1 hq with rfl | ⟨hm, _⟩
    · exact Nat.le_refl _
    · exact hinv q hm
  | remove n =>
    obtain ⟨c, e, _, _, _, _, rfl⟩ := (C14_remove_ok_iff ..).1 h
    exact hinv q (mem_aerase.1 hq).1

example : ∀ p ∈ ([(5, ⟨7, 50, 9⟩)] : Registry), p.2.lastUpdated ≤ 7 := by decide

/-! ### 6. lookups -/

/-- "Lookups, single … return the current entry (or none)". -/
theorem C14_single (reg : Registry) (c : Nat) : regSingle reg c = alookup c reg := rfl

/-- "Lookups, … batched, return the current entry (or none) for each requested collection, in
    request order" (for a non-empty batch). -/
theorem C14_multi (reg : Registry) {cs : List Nat} (h : cs ≠ []) :
    regMulti reg cs = some (cs.map (regSingle reg)) := by
  cases cs with
  | nil => exact absurd rfl h
  | cons a t => rfl

example : ([5, 6] : List Nat) ≠ [] := by decide

/-- the code rejects the empty batch (`"No contracts found"`) -/
theorem C14_multi_nil (reg : Registry) : regMulti reg [] = none := rfl

/-- "for each requested collection, in request order": position by position. -/
theorem C14_multi_get {reg : Registry} {cs : List Nat} {out : List (Option RoyaltyInfo)}
    (h : regMulti reg cs = some out) :
    out.length = cs.length ∧ ∀ i (hi : i < cs.length), out[i]? = some (alookup cs[i] reg) := by
  unfold regMulti at h
  split at h
  · contradiction
  · injection h with h
    subst h
    refine ⟨by simp, ?_⟩
    intro i hi
    simp [regSingle, hi]

example : regMulti [(5, ⟨7, 50, 9⟩)] [6, 5] = some [none, some ⟨7, 50, 9⟩] := by decide

/-! ## world level -/

/-! ### 7. nothing but a registry message changes the registry -/

/-- "can be created, modified or removed only by …": marketplace messages, token sends, admin
    changes and the passage of time leave the registry exactly as it was. -/
theorem C14_frame {w : World} {op : Op} (hop : ∀ s m, op ≠ .royalty s m) :
    (step w op).1.reg = w.reg := by
  unfold step
  cases ho : op.asExec with
  | some t =>
    obtain ⟨c, f, msg⟩ := t
    rcases stepF_market (fail := noFault) (w := w) ho with ⟨e, h⟩ | ⟨m', msgs, w2, _, _, hc, h⟩
    · rw [h]
    · rw [h]; exact hc.reg
  | none =>
    cases op with
    | exec s fu m => simp [Op.asExec] at ho
    | send20 t s a i => simp [Op.asExec] at ho
    | send721 co s t i => simp [Op.asExec] at ho
    | royalty s m => exact absurd rfl (hop s m)
    | setAdmin s c n =>
      simp only [stepF]
      repeat' split
      all_goals rfl
    | advance a b => rfl

example : ∀ s m, Op.advance 5 5 ≠ .royalty s m := by intro s m h; cases h

/-! ### 8. the rate bound along every history -/

/-- one step of any kind preserves the rate bound -/
theorem C14_step_bps {w : World} (op : Op)
    (hinv : ∀ p ∈ w.reg, MIN_BPS ≤ p.2.bps ∧ p.2.bps ≤ MAX_BPS) :
    ∀ p ∈ (step w op).1.reg, MIN_BPS ≤ p.2.bps ∧ p.2.bps ≤ MAX_BPS := by
  by_cases hr : ∃ s m, op = .royalty s m
  · obtain ⟨s, m, rfl⟩ := hr
    unfold step
    rcases stepF_royalty noFault w s m with ⟨e, _, h⟩ | ⟨r, hx, h⟩
    · rw [h]; exact hinv
    · rw [h]; exact C14_bps_inv hinv hx
  · rw [C14_frame (fun s m h => hr ⟨s, m, h⟩)]; exact hinv

/-- "its rate is always between 10 and 300 bps": along every history, of every mix of
    operations by anybody, starting from a registry within bounds (e.g. the empty one). -/
theorem C14_reach_bps {w : World}
    (hinv : ∀ p ∈ w.reg, MIN_BPS ≤ p.2.bps ∧ p.2.bps ≤ MAX_BPS) (ops : List Op) :
    ∀ p ∈ (run w ops).reg, MIN_BPS ≤ p.2.bps ∧ p.2.bps ≤ MAX_BPS := by
  induction ops generalizing w with
  | nil => exact hinv
  | cons op ops ih => exact ih (C14_step_bps op hinv)

/-- one entry per collection along every history -/
theorem C14_reach_nodup {w : World} (hinv : (akeys w.reg).Nodup) (ops : List Op) :
    (akeys (run w ops).reg).Nodup := by
  induction ops generalizing w with
  | nil => exact hinv
  | cons op ops ih =>
    apply ih
    by_cases hr : ∃ s m, op = .royalty s m
    · obtain ⟨s, m, rfl⟩ := hr
      unfold step
      rcases stepF_royalty noFault w s m with ⟨e, _, h⟩ | ⟨r, hx, h⟩
      · rw [h]; exact hinv
      · rw [h]; exact C14_nodup_inv hinv hx
    · rw [C14_frame (fun s m h => hr ⟨s, m, h⟩)]; exact hinv

/-! ### 9. "admin at that moment" -/

/-- "only by the account that is that NFT contract's admin at that moment": a registry
    transaction that succeeds was sent by the admin — as recorded in the contract table of the
    world *in which the transaction runs* — of the one collection whose entry it may change. -/
theorem C14_step_admin {w : World} {sender : Nat} {msg : RoyMsg}
    (h : (step w (.royalty sender msg)).2.ok = true) :
    ∃ c, msg.nft = .valid c ∧ w.regEnv.adminOf c = some (some sender) ∧
      ∀ c', c' ≠ c → alookup c' (step w (.royalty sender msg)).1.reg = alookup c' w.reg := by
  unfold step at h ⊢
  rcases stepF_royalty noFault w sender msg with ⟨e, _, hs⟩ | ⟨r, hx, hs⟩
  · rw [hs] at h; simp [Outcome.fail] at h
  · rw [hs]
    exact C14_only_entry hx

/-- The whole first and third clauses at world level, for any operation whatsoever: if one step
    changes what is stored for collection `c`, the step was a registry message sent by the
    account the pre-state contract table records as `c`'s admin; an entry that existed was at
    least 100 blocks old; an entry that exists afterwards is stamped with the current height. -/
theorem C14_step_change_guard {w : World} {op : Op} {c : Nat}
    (hch : alookup c (step w op).1.reg ≠ alookup c w.reg) :
    ∃ sender msg, op = .royalty sender msg ∧ (step w op).2.ok = true ∧
      (∃ ci, alookup c w.contracts = some ci ∧ ci.admin = some sender) ∧
      (∀ e, alookup c w.reg = some e → min (e.lastUpdated + COOLDOWN) U64MAX ≤ w.height) ∧
      (∀ e', alookup c (step w op).1.reg = some e' → e'.lastUpdated = w.height) := by
  by_cases hr : ∃ s m, op = .royalty s m
  · obtain ⟨s, m, rfl⟩ := hr
    refine ⟨s, m, rfl, ?_⟩
    unfold step at hch ⊢
    rcases stepF_royalty noFault w s m with ⟨e, _, h⟩ | ⟨r, hx, h⟩
    · rw [h] at hch; exact absurd rfl hch
    · rw [h] at hch ⊢
      obtain ⟨g1, g2, g3⟩ := C14_change_guard hx hch
      exact ⟨rfl, (regEnv_adminOf_iff w c s).1 g1, g2, g3⟩
  · rw [C14_frame (fun s m h => hr ⟨s, m, h⟩)] at hch
    exact absurd rfl hch

/-- a registry transaction succeeds exactly when the handler — run on the pre-state registry,
    block height and contract table — accepts, and then only `reg` is replaced by its result -/
theorem C14_step_ok_iff (w : World) (sender : Nat) (msg : RoyMsg) :
    (step w (.royalty sender msg)).2.ok = true ↔
    ∃ r, regExecute w.reg w.regEnv sender msg = .ok r ∧
      (step w (.royalty sender msg)).1 = { w with reg := r } := by
  unfold step
  rcases stepF_royalty noFault w sender msg with ⟨e, hx, hs⟩ | ⟨r, hx, hs⟩
  · rw [hs]
    constructor
    · intro h; simp [Outcome.fail] at h
    · rintro ⟨r, hr, _⟩; rw [hx] at hr; cases hr
  · rw [hs]
    exact ⟨fun _ => ⟨r, hx, rfl⟩, fun _ => rfl⟩

/-- "while from then on the admin can [modify]": in any world, once 100 blocks have passed since
    the entry was written, the `Update` transaction of the collection's current admin succeeds
    (for admissible new values) and stores the new entry.  No side condition. -/
theorem C14_admin_can_update {w : World} {c sender : Nat} {ci : ContractInfo} {e : RoyaltyInfo}
    {payout : Option RawAddr} {bps : Option Nat}
    (hci : alookup c w.contracts = some ci) (hadm : ci.admin = some sender)
    (he : alookup c w.reg = some e) (hcool : e.lastUpdated + COOLDOWN ≤ w.height)
    (hb : ∀ b, bps = some b → MIN_BPS ≤ b ∧ b ≤ MAX_BPS) (hp : payout ≠ some .invalid) :
    (step w (.royalty sender (.update (.valid c) payout bps))).2.ok = true ∧
    alookup c (step w (.royalty sender (.update (.valid c) payout bps))).1.reg =
      some ⟨w.height, bps.getD e.bps, updPayout payout e.payout⟩ := by
  have hsat : min (e.lastUpdated + COOLDOWN) U64MAX ≤ w.regEnv.height := by
    show min (e.lastUpdated + COOLDOWN) U64MAX ≤ w.height
    omega
  have hx : regExecute w.reg w.regEnv sender (.update (.valid c) payout bps) = .ok _ :=
    (C14_update_ok_iff ..).2
      ⟨c, e, rfl, (regEnv_adminOf_iff w c sender).2 ⟨ci, hci, hadm⟩, he, hsat, hb, hp, rfl⟩
  unfold step
  rw [stepF_royalty_ok hx]
  exact ⟨rfl, alookup_ainsert_self _ _ _⟩

/-- "while from then on the admin can [remove]": in any world, once 100 blocks have passed since
    the entry was written, the `Remove` transaction of the collection's current admin succeeds
    and the entry is gone.  No side condition. -/
theorem C14_admin_can_remove {w : World} {c sender : Nat} {ci : ContractInfo} {e : RoyaltyInfo}
    (hci : alookup c w.contracts = some ci) (hadm : ci.admin = some sender)
    (he : alookup c w.reg = some e) (hcool : e.lastUpdated + COOLDOWN ≤ w.height) :
    (step w (.royalty sender (.remove (.valid c)))).2.ok = true ∧
    alookup c (step w (.royalty sender (.remove (.valid c)))).1.reg = none := by
  have hsat : min (e.lastUpdated + COOLDOWN) U64MAX ≤ w.regEnv.height := by
    show min (e.lastUpdated + COOLDOWN) U64MAX ≤ w.height
    omega
  have hx : regExecute w.reg w.regEnv sender (.remove (.valid c)) = .ok _ :=
    (C14_remove_ok_iff ..).2
      ⟨c, e, rfl, (regEnv_adminOf_iff w c sender).2 ⟨ci, hci, hadm⟩, he, hsat, rfl⟩
  unfold step
  rw [stepF_royalty_ok hx]
  exact ⟨rfl, alookup_aerase_self _ _⟩

/-- "can be created … by the … admin": with no entry stored, the `Register` transaction of the
    collection's current admin succeeds for any valid payout address and any rate within bounds,
    and stores `⟨current height, bps, payout⟩`. -/
theorem C14_admin_can_register {w : World} {c sender p bps : Nat} {ci : ContractInfo}
    (hci : alookup c w.contracts = some ci) (hadm : ci.admin = some sender)
    (hnone : alookup c w.reg = none) (h1 : MIN_BPS ≤ bps) (h2 : bps ≤ MAX_BPS) :
    (step w (.royalty sender (.register (.valid c) (.valid p) bps))).2.ok = true ∧
    alookup c (step w (.royalty sender (.register (.valid c) (.valid p) bps))).1.reg =
      some ⟨w.height, bps, p⟩ := by
  have hx : regExecute w.reg w.regEnv sender (.register (.valid c) (.valid p) bps) = .ok _ :=
    (C14_register_ok_iff ..).2
      ⟨c, p, rfl, rfl, h1, h2, (regEnv_adminOf_iff w c sender).2 ⟨ci, hci, hadm⟩, hnone, rfl⟩
  unfold step
  rw [stepF_royalty_ok hx]
  exact ⟨rfl, alookup_ainsert_self _ _ _⟩

/-! #### a concrete hand-over: after `setAdmin` the old admin is refused, the new one accepted -/

/-- collection 5 (an honest CW721) is administered by account 1; nothing registered yet -/
private def exW : World :=
  { self := 100, pool := 101, regAddr := 102, junoD := 1, usdcD := 2, nowNs := 0, height := 1000,
    mkt := instantiate 0 (some 102), reg := [], bank := [], cw20 := [], nft := [],
    contracts := [(5, ⟨some 1, 2, false, false⟩)] }

/-- account 1 hands collection 5 over to account 2 -/
private def exW' : World := (step exW (.setAdmin 1 5 (some 2))).1

private def exReg : RoyMsg := .register (.valid 5) (.valid 9) 50

-- before the hand-over: admin 1 is accepted (non-vacuity of `C14_step_admin`), 2 is refused
example : (step exW (.royalty 1 exReg)).2.ok = true := by decide
example : (step exW (.royalty 2 exReg)).2.ok = false := by decide
-- the hand-over itself succeeds
example : (step exW (.setAdmin 1 5 (some 2))).2.ok = true := by decide
-- after it the OLD admin fails and the NEW one succeeds: "admin at that moment"
example : (step exW' (.royalty 1 exReg)).2.ok = false := by decide
example : (step exW' (.royalty 1 exReg)).2.err = some .notAdmin := by decide
example : (step exW' (.royalty 2 exReg)).2.ok = true := by decide
example : (step exW' (.royalty 2 exReg)).1.reg = [(5, ⟨1000, 50, 9⟩)] := by decide
-- non-vacuity of `C14_step_change_guard`
example : alookup 5 (step exW (.royalty 1 exReg)).1.reg ≠ alookup 5 exW.reg := by decide
-- cooldown at world level: 99 blocks later the new admin cannot yet modify, 100 blocks later can
example : (step (run exW' [.royalty 2 exReg, .advance 0 99])
    (.royalty 2 (.update (.valid 5) none (some 300)))).2.err = some .cooldown := by decide
example : (run exW' [.royalty 2 exReg, .advance 0 100,
    .royalty 2 (.update (.valid 5) none (some 300))]).reg = [(5, ⟨1100, 300, 9⟩)] := by decide
-- non-vacuity of the `C14_admin_can_…` theorems (world 100 blocks after 2's registration)
example : alookup 5 (run exW' [.royalty 2 exReg, .advance 0 100]).contracts
    = some ⟨some 2, 2, false, false⟩ := by decide
example : alookup 5 (run exW' [.royalty 2 exReg, .advance 0 100]).reg = some ⟨1000, 50, 9⟩ := by
  decide
example : (1000 : Nat) + COOLDOWN ≤ (run exW' [.royalty 2 exReg, .advance 0 100]).height := by decide
example : alookup 5 exW.contracts = some ⟨some 1, 2, false, false⟩ ∧ alookup 5 exW.reg = none := by
  decide
-- non-vacuity of the reachability theorems
example : ∀ p ∈ exW.reg, MIN_BPS ≤ p.2.bps ∧ p.2.bps ≤ MAX_BPS := by decide
example : (akeys exW.reg).Nodup := by decide

/-! ## axioms -/

#print axioms C14_register_ok_iff
#print axioms C14_register_iff
#print axioms C14_register_effect
#print axioms C14_update_ok_iff
#print axioms C14_update_iff
#print axioms C14_update_iff'
#print axioms C14_update_effect
#print axioms C14_remove_ok_iff
#print axioms C14_remove_iff
#print axioms C14_remove_iff'
#print axioms C14_remove_effect
#print axioms C14_only_entry
#print axioms C14_nonadmin_noop
#print axioms C14_change_guard
#print axioms C14_bps_inv
#print axioms C14_nodup_inv
#print axioms C14_stamp_inv
#print axioms C14_single
#print axioms C14_multi
#print axioms C14_multi_nil
#print axioms C14_multi_get
#print axioms C14_frame
#print axioms C14_step_bps
#print axioms C14_reach_bps
#print axioms C14_reach_nodup
#print axioms C14_step_admin
#print axioms C14_step_change_guard
#print axioms C14_step_ok_iff
#print axioms C14_admin_can_update
#print axioms C14_admin_can_remove
#print axioms C14_admin_can_register

end Fuzion
