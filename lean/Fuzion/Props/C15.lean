/-
  Fuzion.Props.C15 — "Purchases, deposits and payouts are all-or-nothing when a transfer fails".

  PARTIAL BY DESIGN.  The rollback of a failed transaction is performed by the chain runtime
  (cw-multi-test / wasmd), not by the contract.  What the contract contributes is the *shape* of
  its responses: every outgoing message is a plain `add_message` (id 0, `ReplyOn::Never`), so a
  failing transfer can never be caught and swallowed, and `reply` accepts nothing but the
  instantiation reply (id 1).  The theorems here are therefore about

  * the model's transaction semantics (`stepF`): any failure — a refusing guard, a missing
    balance, a failing / hostile token contract, or a fault injected at an arbitrary position of
    the emitted message list — yields the original world; once the fault is gone the very same
    operation has its normal effect;
  * the model's handlers: `dispatchAll` has no error-recovery path, and `reply` rejects every id
    other than 1.

  The implementation-side counterpart — every `SubMsg` of every recorded response has id 0 and
  `ReplyOn::Never` — is checked on every response by the driver (oracle `oSub`); the runtime's
  rollback itself is validated by the fault-injection runs of the harness (hostile token
  contracts whose `Transfer` / `TransferNft` fail), which compare the full state dump with the
  model's `stepF fail`.
-/
import Fuzion.Lemmas.FrameLemmas
namespace Fuzion

/-! ## 1. a failure aborts the whole transaction -/

/-- "all-or-nothing": whatever the operation (purchase, deposit, payout, …) and whatever fails,
    a transaction that does not succeed leaves the world — marketplace records, all three token
    ledgers, the registry — exactly as it was. -/
theorem C15_abort (fail : Nat → Bool) (w : World) (op : Op)
    (h : (stepF fail w op).2.ok = false) : (stepF fail w op).1 = w :=
  stepF_failed_noop fail w op h

/-- A fault at position `k` of the emitted message list makes the dispatch of the whole list
    fail, wherever the dispatch starts counting (`i`). -/
theorem C15_fault_fails_from {fail : Nat → Bool} {msgs : List OutMsg} (w : World) (i k : Nat)
    (hk : k < msgs.length) (hf : fail (i + k) = true) : dispatchAll fail w msgs i = none :=
  dispatchAll_fault w i k hk hf

/-- "when a transfer fails": if the `k`-th transfer is made to fail, dispatch fails. -/
theorem C15_fault_fails {fail : Nat → Bool} {msgs : List OutMsg} (w : World) (k : Nat)
    (hk : k < msgs.length) (hf : fail k = true) : dispatchAll fail w msgs 0 = none :=
  dispatchAll_fault w 0 k hk (by simpa using hf)

/-- "Purchases, deposits and payouts are all-or-nothing when a transfer fails": if the handler
    accepts the message and emits `msgs`, and the `k`-th of these transfers is made to fail, the
    transaction as a whole fails and returns the original world — the deposit that had already
    been moved to the marketplace and the record changes of the handler are gone with it. -/
theorem C15_fault_aborts {fail : Nat → Bool} {w : World} {op : Op} {c : Nat} {f : List Coin}
    {msg : ExecMsg} {m' : Market} {msgs : List OutMsg} {k : Nat}
    (ho : op.asExec = some (c, f, msg)) (hx : execute w.mkt w.env c f msg = .ok (m', msgs))
    (hk : k < msgs.length) (hf : fail k = true) :
    (stepF fail w op).1 = w ∧ (stepF fail w op).2.ok = false := by
  rcases stepF_market_full (fail := fail) (w := w) ho with
    ⟨e, h⟩ | ⟨w1, m2, msgs2, w2, _, hx2, hdd, _⟩
  · rw [h]; exact ⟨rfl, rfl⟩
  · rw [hx] at hx2
    simp only [Except.ok.injEq, Prod.mk.injEq] at hx2
    obtain ⟨rfl, rfl⟩ := hx2
    rw [C15_fault_fails _ k hk hf] at hdd
    cases hdd

/-! ## 2. without the fault the operation has its normal effect -/

/-- `step` is `stepF` without faults: retrying the same operation in the (unchanged) world after
    the fault has gone is an ordinary step. -/
theorem C15_retry (w : World) (op : Op) : stepF noFault w op = step w op := rfl

/-- a fault predicate that is silent on the positions of this message list is invisible -/
theorem C15_fault_beyond {fail : Nat → Bool} {msgs : List OutMsg} (w : World)
    (h : ∀ i, i < msgs.length → fail i = false) :
    dispatchAll fail w msgs 0 = dispatchAll noFault w msgs 0 :=
  dispatchAll_noFault w 0 0 (by simpa using h)

/-- … hence the whole transaction is the normal one: if the fault predicate spares every
    message the handler emits, `stepF fail` and `step` agree (world and outcome). -/
theorem C15_fault_beyond_step {fail : Nat → Bool} {w : World} {op : Op} {c : Nat} {f : List Coin}
    {msg : ExecMsg} {m' : Market} {msgs : List OutMsg}
    (ho : op.asExec = some (c, f, msg)) (hx : execute w.mkt w.env c f msg = .ok (m', msgs))
    (h : ∀ i, i < msgs.length → fail i = false) : stepF fail w op = step w op := by
  unfold step
  rw [stepF_eq_deposit ho, stepF_eq_deposit ho]
  cases hd : op.deposit w with
  | error e => rfl
  | ok w1 =>
    obtain ⟨hc, hm⟩ := deposit_core hd
    have hx1 : execute w1.mkt w1.env c f msg = .ok (m', msgs) := by rw [hm, hc.env]; exact hx
    simp only [runMarket, hx1]
    rw [C15_fault_beyond _ h]

/-- a failing handler is not affected by fault injection at all (there is nothing to dispatch) -/
theorem C15_refused_same {fail : Nat → Bool} {w : World} {op : Op} {c : Nat} {f : List Coin}
    {msg : ExecMsg} {e : Err} (ho : op.asExec = some (c, f, msg))
    (hx : execute w.mkt w.env c f msg = .error e) : stepF fail w op = step w op := by
  unfold step
  rw [stepF_eq_deposit ho, stepF_eq_deposit ho]
  cases hd : op.deposit w with
  | error e => rfl
  | ok w1 =>
    obtain ⟨hc, hm⟩ := deposit_core hd
    have hx1 : execute w1.mkt w1.env c f msg = .error e := by rw [hm, hc.env]; exact hx
    simp only [runMarket, hx1]

/-! ## 3. no failure can be swallowed -/

/-- If any single message of the list cannot be dispatched — wherever it stands — the dispatch
    of the whole list fails: the model has no reply-on-error path. -/
theorem C15_any_failure {fail : Nat → Bool} (pre post : List OutMsg) (m : OutMsg) (w w1 : World)
    (i : Nat) (hpre : dispatchAll fail w pre i = some w1) (hm : dispatch1 w1 m = none) :
    dispatchAll fail w (pre ++ m :: post) i = none := by
  rw [dispatchAll_append, hpre]
  simp only [dispatchAll, hm]
  split <;> rfl

/-- Conversely a successful dispatch means every single message was dispatched successfully, in
    order, each in the world its predecessors left behind. -/
theorem C15_all_dispatched {fail : Nat → Bool} {msgs : List OutMsg} {w w' : World}
    (h : dispatchAll fail w msgs 0 = some w') (k : Nat) (hk : k < msgs.length) :
    fail k = false ∧ ∃ wk wk', dispatchAll fail w (msgs.take k) 0 = some wk ∧
      dispatch1 wk msgs[k] = some wk' := by
  have hsplit : msgs = msgs.take k ++ msgs[k] :: msgs.drop (k + 1) := by
    rw [List.getElem_cons_drop, List.take_append_drop]
  rw [hsplit, dispatchAll_append] at h
  cases hp : dispatchAll fail w (msgs.take k) 0 with
  | none => rw [hp] at h; cases h
  | some wk =>
    rw [hp] at h
    simp only [dispatchAll] at h
    have hlen : (msgs.take k).length = k := by rw [List.length_take]; omega
    rw [hlen, Nat.zero_add] at h
    split at h
    · cases h
    · next hfk =>
      cases hd : dispatch1 wk msgs[k] with
      | none => rw [hd] at h; cases h
      | some wk' => exact ⟨by simpa using hfk, wk, wk', rfl, hd⟩

/-- The contract's `reply` entry point accepts nothing but the instantiation reply: a reply with
    any other id (in particular one that would report a failed transfer) is an error.  Together
    with "every emitted message has id 0 / `ReplyOn::Never`" (driver oracle `oSub`) this is the
    contract's side of all-or-nothing. -/
theorem C15_reply_only_1 (m : Market) (id : Nat) (addr : RawAddr) (h : id ≠ 1) :
    reply m id addr = .error .badReply := by
  simp [reply, h]

/-- and id 1 is accepted exactly for a valid address (it only stores the registry address) -/
theorem C15_reply_1 (m : Market) (a : Nat) :
    reply m 1 (.valid a) = .ok { m with registry := some a } := by
  simp [reply, rawValid]

/-! ### non-vacuity -/

-- seller 1 has listing 7 (1000 of denom 1 and 5 units of CW20 token 3, preparing, not finalized)
private def exL : Listing :=
  { creator := 1, id := 7, finalizedAt := none, expiresAt := none, status := .preparing,
    claimant := none, whitelist := none, forSale := ⟨[⟨1, 1000⟩], [⟨3, 5⟩], []⟩,
    ask := ⟨[⟨2, 2000⟩], [], []⟩, fee := none }

-- `kind3` = what contract 3 is: 1 = an honest CW20 token, 3 (+ `fails`) = a hostile one whose
-- `Transfer` fails
private def exW (kind3 : Nat) : World :=
  { self := 100, pool := 101, regAddr := 102, junoD := 1, usdcD := 2, nowNs := 5, height := 1,
    mkt := { listings := [((1, 7), exL)], buckets := [], listingUsed := [7, 0], bucketUsed := [0],
             feeKind := .juno, feeSince := 0, registry := some 102 },
    reg := [], bank := [((100, 1), 1000), ((1, 1), 50)], cw20 := [((3, 100), 5)], nft := [],
    contracts := [(3, ⟨none, kind3, true, true⟩)] }

-- the delete pays out with two messages; both can be made to fail, and a hostile token fails
-- by itself
example : (step (exW 1) (.exec 1 [] (.deleteListing 7))).2.ok = true := by decide
example : (step (exW 1) (.exec 1 [] (.deleteListing 7))).2.msgs.length = 2 := by decide
example : (stepF (fun i => i == 0) (exW 1) (.exec 1 [] (.deleteListing 7))).2.ok = false := by decide
example : (stepF (fun i => i == 1) (exW 1) (.exec 1 [] (.deleteListing 7))).2.ok = false := by decide
example : (stepF (fun i => i == 2) (exW 1) (.exec 1 [] (.deleteListing 7))).2.ok = true := by decide
example : (step (exW 3) (.exec 1 [] (.deleteListing 7))).2.ok = false := by decide
example : (step (exW 3) (.exec 1 [] (.deleteListing 7))).2.err = some .dispatch := by decide
example : (Op.exec 1 [] (.deleteListing 7)).asExec = some (1, [], .deleteListing 7) := rfl
example : ∃ r, execute (exW 1).mkt (exW 1).env 1 [] (.deleteListing 7) = .ok r := ⟨_, rfl⟩
-- hypotheses of `C15_any_failure`: the bank payout goes through, the hostile token's transfer
-- does not
example : ∃ w1, dispatchAll noFault (exW 3) [.bankSend 1 [⟨1, 1000⟩]] 0 = some w1 := ⟨_, rfl⟩
example : (dispatch1 (exW 3) (.cw20Transfer 3 1 5)).isNone = true := by decide
example : (2 : Nat) ≠ 1 := by decide
-- hypothesis of `C15_fault_beyond` / `C15_fault_beyond_step`: a fault at position 2 spares both
-- messages of the delete
example : ∀ i, i < 2 → (fun i => i == 2) i = false := by decide
-- hypothesis of `C15_refused_same`: a stranger's delete is refused by the handler
example : execute (exW 1).mkt (exW 1).env 9 [] (.deleteListing 7) = .error .notFound := rfl
-- hypothesis of `C15_all_dispatched`: both payouts of the delete are dispatched
example : ∃ w', dispatchAll noFault (exW 1) [.bankSend 1 [⟨1, 1000⟩], .cw20Transfer 3 1 5] 0 = some w' :=
  ⟨_, rfl⟩

/-! ## axioms -/

#print axioms C15_abort
#print axioms C15_fault_fails_from
#print axioms C15_fault_fails
#print axioms C15_fault_aborts
#print axioms C15_retry
#print axioms C15_fault_beyond
#print axioms C15_fault_beyond_step
#print axioms C15_refused_same
#print axioms C15_any_failure
#print axioms C15_all_dispatched
#print axioms C15_reply_only_1
#print axioms C15_reply_1

end Fuzion
