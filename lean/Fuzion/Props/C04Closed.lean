/-
  Fuzion.Props.C04Closed — C04 ("Only a record's owner can change it or release its assets") for
  every state reached from a freshly instantiated marketplace.

  Props/C04.lean proves the authorization theorems for any market record satisfying the id
  invariant `IdsInv` (resp. for a well-formed listing, `wfListing`).  Here these hypotheses are
  discharged from reachability: `w0.mkt = instantiate t r` and the state is `run w0 ops` for an
  arbitrary operation list `ops` — marketplace messages of any account, forged hook calls, CW20 /
  CW721 sends, registry messages, admin changes, the passage of time (`C09_reach`, `C12_reach`).
  What remains are hypotheses about the *input* of the probed operation: which record it is aimed
  at, and that the account it acts for is not the record's owner.

  Nothing about the initial world other than its marketplace record is assumed (balances, token
  contracts, registry, clock are arbitrary).  `C04_wallets`, `C04_wallets_run`, `C04_refused_noop`
  and `C04_refused_withdraw` have no invariant hypothesis and are not restated.
-/
import Fuzion.Props.C04
import Fuzion.Lemmas.ClosedLemmas
namespace Fuzion

/-! ### sample reachable state for the non-vacuity examples

From the sample deployment `AcctEx.w0` (Lemmas/AcctLemmas.lean), the first five operations of the
sample history: seller 1 creates listing 3 (1000 of denom 1), adds 400 of token 50 and NFT (60, 7),
finalizes it for 600 s; buyer 2 creates bucket 8 with 2000 of denom 2. -/

namespace C04CEx
def ops : List Op := AcctEx.ops.take 5
def w : World := run AcctEx.w0 ops
end C04CEx

example : AcctEx.w0.mkt = instantiate 0 (some 102) := rfl
example : C04CEx.w.mkt.listings.map (fun p => (p.1, p.2.creator, p.2.status)) =
    [((1, 3), 1, .finalized)] ∧ C04CEx.w.mkt.buckets.map (fun p => (p.1, p.2.owner)) = [((2, 8), 2)] := by
  decide

/-! ## 1. owner-only messages of a non-owner are refused -/

/-- "No message sent by an account … can alter, re-price, finalize, delete, top up … a listing
    … that the account does not currently own", in every reachable state: the five owner-only
    listing handlers, called on behalf of anybody but the creator of the listing stored under
    `id`, are refused.  (`IdsInv` discharged by `C09_reach`.) -/
theorem C04_refused_listing_reach {w0 : World} {t : Nat} {r : Option Nat}
    (h0 : w0.mkt = instantiate t r) (ops : List Op) {env : Env} {s id : Nat} {k : Nat × Nat}
    {l : Listing} (hf : findById id (run w0 ops).mkt.listings = some (k, l)) (hs : s ≠ l.creator) :
    (∀ a, changeAsk (run w0 ops).mkt s id a = .error .notFound) ∧
    (∀ secs, finalize (run w0 ops).mkt env s id secs = .error .notFound) ∧
    deleteListing (run w0 ops).mkt env s id = .error .notFound ∧
    (∀ funds, addToListing (run w0 ops).mkt funds s id = .error .badFunds ∨
              addToListing (run w0 ops).mkt funds s id = .error .notFound) ∧
    (∀ nft, addToListingNft (run w0 ops).mkt s nft id = .error .notFound) :=
  C04_refused_listing (closed_ids h0 ops) hf hs

/-- non-vacuity: listing 3 of the sample state belongs to 1; account 9 is somebody else -/
example : (findById 3 C04CEx.w.mkt.listings).map (fun p => (p.1, p.2.creator)) = some ((1, 3), 1) ∧
    (9 : Nat) ≠ 1 := by decide

/-- "… or release assets from a listing", in every reachable state: the claimant of a listing is
    its current owner, so a non-owner's withdrawal is refused.  (`wfListing` discharged by
    `C12_reach`.) -/
theorem C04_refused_withdraw_wf_reach {w0 : World} {t : Nat} {r : Option Nat}
    (h0 : w0.mkt = instantiate t r) (ops : List Op) {env : Env} {s id : Nat} {k : Nat × Nat}
    {l : Listing} (hf : findById id (run w0 ops).mkt.listings = some (k, l)) (hs : s ≠ l.creator) :
    withdrawPurchased (run w0 ops).mkt env s id = .error .notClaimant :=
  C04_refused_withdraw_wf (closed_wfListing h0 ops (findById_some hf).2) hf hs

example : (step C04CEx.w (.exec 9 [] (.withdrawPurchased 3))).2.ok = false := by decide

/-- "… top up or release assets from a … bucket that the account does not currently own", in
    every reachable state: the bucket handlers, called on behalf of anybody but the owner of
    bucket `id`, are refused, and nobody can pay for a purchase with somebody else's bucket. -/
theorem C04_refused_bucket_reach {w0 : World} {t : Nat} {r : Option Nat}
    (h0 : w0.mkt = instantiate t r) (ops : List Op) {env : Env} {s id : Nat} {k : Nat × Nat}
    {b : Bucket} (hb : (k, b) ∈ (run w0 ops).mkt.buckets) (hk : k.2 = id) (hs : s ≠ k.1) :
    (∀ funds, addToBucket (run w0 ops).mkt funds s id = .error .badFunds ∨
              addToBucket (run w0 ops).mkt funds s id = .error .notFound) ∧
    (∀ nft, addToBucketNft (run w0 ops).mkt s nft id = .error .notFound) ∧
    withdrawBucket (run w0 ops).mkt env s id = .error .notFound ∧
    (∀ lid, buy (run w0 ops).mkt env s lid id = .error .noBucket) :=
  C04_refused_bucket (closed_ids h0 ops) hb hk hs

/-- non-vacuity: bucket 8 of the sample state is filed under (2, 8) -/
example : ((2, 8), (⟨2, ⟨[⟨2, 2000⟩], [], []⟩, none⟩ : Bucket)) ∈ C04CEx.w.mkt.buckets ∧
    (9 : Nat) ≠ 2 := by decide

/-- `C04_refused_listing_reach` through the entry point: whatever the sender, the attached coins
    and the message kind — direct, or wrapped in a CW20 / CW721 receive hook that names the wallet
    `actor msg s` — an owner-only message aimed at listing `id` on behalf of a non-owner fails in
    every reachable state. -/
theorem C04_execute_refused_listing_reach {w0 : World} {t : Nat} {r : Option Nat}
    (h0 : w0.mkt = instantiate t r) (ops : List Op) {env : Env} {s id : Nat} {f : List Coin}
    {msg : ExecMsg} {k : Nat × Nat} {l : Listing}
    (hf : findById id (run w0 ops).mkt.listings = some (k, l)) (ht : msg.listingTarget = some id)
    (hs : actor msg s ≠ l.creator) : ∃ e, execute (run w0 ops).mkt env s f msg = .error e :=
  C04_execute_refused_listing (closed_ids h0 ops) hf ht hs

example : (ExecMsg.receive (.valid 9) 5 (some (.addToListing 3))).listingTarget = some 3 ∧
    actor (.receive (.valid 9) 5 (some (.addToListing 3))) 50 ≠ 1 := by decide

/-- `C04_refused_bucket_reach` through the entry point (top up, remove, pay with it; direct or
    through a receive hook), in every reachable state. -/
theorem C04_execute_refused_bucket_reach {w0 : World} {t : Nat} {r : Option Nat}
    (h0 : w0.mkt = instantiate t r) (ops : List Op) {env : Env} {s id : Nat} {f : List Coin}
    {msg : ExecMsg} {k : Nat × Nat} {b : Bucket} (hb : (k, b) ∈ (run w0 ops).mkt.buckets)
    (hk : k.2 = id) (ht : msg.bucketTarget = some id) (hs : actor msg s ≠ k.1) :
    ∃ e, execute (run w0 ops).mkt env s f msg = .error e :=
  C04_execute_refused_bucket (closed_ids h0 ops) hb hk ht hs

example : (ExecMsg.buy 3 8).bucketTarget = some 8 ∧ actor (.buy 3 8) 9 ≠ 2 := by decide

/-! ## 2. frame: what an accepted message can do to other accounts' records -/

/-- "The only effect a non-owner can have is a valid purchase …", in every reachable state:
    after any accepted message, every listing key that does not belong to the wallet the message
    acts for holds exactly what it held before — except that a purchase removes the bought
    (finalized) listing from its seller's key `(seller, lid)`; it reappears, closed and claimed,
    under the buyer's key `(s, lid)`. -/
theorem C04_frame_listings_reach {w0 : World} {t : Nat} {r : Option Nat}
    (h0 : w0.mkt = instantiate t r) (ops : List Op) {m' : Market} {env : Env} {s : Nat}
    {f : List Coin} {msg : ExecMsg} {out : List OutMsg}
    (hx : execute (run w0 ops).mkt env s f msg = .ok (m', out))
    (k : Nat × Nat) (hk : k.1 ≠ actor msg s) :
    alookup k m'.listings = alookup k (run w0 ops).mkt.listings ∨
    ∃ lid bid l l', msg = .buy lid bid ∧ k = (l.creator, lid) ∧
      alookup k (run w0 ops).mkt.listings = some l ∧
      l.status = .finalized ∧ l.claimant = none ∧ alookup k m'.listings = none ∧
      alookup (s, lid) m'.listings = some l' ∧ l'.status = .closed ∧ l'.claimant = some s ∧
      l'.ask = l.ask :=
  C04_frame_listings (closed_ids h0 ops) hx k hk

/-- non-vacuity: the purchase by 2 is accepted in the sample state (`errOf … = none`: the handler
    returned `.ok`); key (1, 3) is not the buyer's -/
example : C12Ex.errOf (execute C04CEx.w.mkt C04CEx.w.env 2 [] (.buy 3 8)) = none ∧
    ((1, 3) : Nat × Nat).1 ≠ actor (.buy 3 8) 2 := by decide

/-- "… which exchanges the listing for the buyer's own bucket", in every reachable state: after
    any accepted message, every bucket key that does not belong to the wallet the message acts for
    holds exactly what it held before — except that a purchase files the buyer's paying bucket
    `bid` under the seller's key `(seller, bid)`, which was free before. -/
theorem C04_frame_buckets_reach {w0 : World} {t : Nat} {r : Option Nat}
    (h0 : w0.mkt = instantiate t r) (ops : List Op) {m' : Market} {env : Env} {s : Nat}
    {f : List Coin} {msg : ExecMsg} {out : List OutMsg}
    (hx : execute (run w0 ops).mkt env s f msg = .ok (m', out))
    (k : Nat × Nat) (hk : k.1 ≠ actor msg s) :
    alookup k m'.buckets = alookup k (run w0 ops).mkt.buckets ∨
    ∃ lid bid kl l b', msg = .buy lid bid ∧ findById lid (run w0 ops).mkt.listings = some (kl, l) ∧
      k = (l.creator, bid) ∧ alookup k (run w0 ops).mkt.buckets = none ∧
      alookup k m'.buckets = some b' ∧ b'.owner = l.creator ∧ alookup (s, bid) m'.buckets = none :=
  C04_frame_buckets (closed_ids h0 ops) hx k hk

example : C12Ex.errOf (execute C04CEx.w.mkt C04CEx.w.env 2 [] (.buy 3 8)) = none ∧
    ((1, 8) : Nat × Nat).1 ≠ actor (.buy 3 8) 2 := by decide

/-! ## 3. refused = nothing happened -/

/-- "such messages fail and leave all state and balances untouched", in every reachable state:
    the owner-only listing messages of a non-owner as transactions — direct, through an honest
    token's `Send` / `SendNft`, or forged — fail, and the world is untouched. -/
theorem C04_step_refused_listing_reach {w0 : World} {t : Nat} {r : Option Nat}
    (h0 : w0.mkt = instantiate t r) (ops : List Op) {op : Op} {c id : Nat} {f : List Coin}
    {msg : ExecMsg} {k : Nat × Nat} {l : Listing}
    (hf : findById id (run w0 ops).mkt.listings = some (k, l))
    (ho : op.asExec = some (c, f, msg)) (ht : msg.listingTarget = some id)
    (hs : actor msg c ≠ l.creator) :
    (step (run w0 ops) op).2.ok = false ∧ (step (run w0 ops) op).1 = run w0 ops :=
  C04_step_refused_listing (closed_ids h0 ops) hf ho ht hs

/-- non-vacuity: account 5 (77 of token 50) tries to top up seller 1's listing 3 through the
    honest token's `Send`; the operation meets the hypotheses and is indeed refused -/
example : (Op.send20 50 5 7 (some (.addToListing 3))).asExec =
      some (50, [], .receive (.valid 5) 7 (some (.addToListing 3))) ∧
    (ExecMsg.receive (.valid 5) 7 (some (.addToListing 3))).listingTarget = some 3 ∧
    actor (.receive (.valid 5) 7 (some (.addToListing 3))) 50 ≠ 1 ∧
    (step C04CEx.w (.send20 50 5 7 (some (.addToListing 3)))).2.ok = false := by decide

/-- the owner-only bucket messages of a non-owner as transactions, in every reachable state -/
theorem C04_step_refused_bucket_reach {w0 : World} {t : Nat} {r : Option Nat}
    (h0 : w0.mkt = instantiate t r) (ops : List Op) {op : Op} {c id : Nat} {f : List Coin}
    {msg : ExecMsg} {k : Nat × Nat} {b : Bucket} (hb : (k, b) ∈ (run w0 ops).mkt.buckets)
    (hk : k.2 = id) (ho : op.asExec = some (c, f, msg)) (ht : msg.bucketTarget = some id)
    (hs : actor msg c ≠ k.1) :
    (step (run w0 ops) op).2.ok = false ∧ (step (run w0 ops) op).1 = run w0 ops :=
  C04_step_refused_bucket (closed_ids h0 ops) hb hk ho ht hs

/-- non-vacuity: seller 1 tries to remove buyer 2's bucket 8 -/
example : (Op.exec 1 [] (.removeBucket 8)).asExec = some (1, [], .removeBucket 8) ∧
    (ExecMsg.removeBucket 8).bucketTarget = some 8 ∧ actor (.removeBucket 8) 1 ≠ 2 ∧
    (step C04CEx.w (.exec 1 [] (.removeBucket 8))).2.ok = false := by decide
/-- … while the owner's own message is accepted (the refusals are not vacuous refusals) -/
example : (step C04CEx.w (.exec 2 [] (.removeBucket 8))).2.ok = true := by decide

/-- The statement of C04's quantifier in one piece: **for every reachable state, every existing
    listing and every account that is not its owner**, each owner-only message kind aimed at it —
    re-price, finalize, delete, top up with coins, withdraw as purchased; sent directly, through
    an honest token's `Send` / `SendNft`, or by a forged hook call — fails and leaves the whole
    world (all state and all balances) untouched. -/
theorem C04_non_owner_listing_reach {w0 : World} {t : Nat} {r : Option Nat}
    (h0 : w0.mkt = instantiate t r) (ops : List Op) {k : Nat × Nat} {l : Listing}
    (hm : (k, l) ∈ (run w0 ops).mkt.listings) {x : Nat} (hx : x ≠ l.creator) :
    (∀ op c f msg, op.asExec = some (c, f, msg) → msg.listingTarget = some l.id →
      actor msg c = x →
      (step (run w0 ops) op).2.ok = false ∧ (step (run w0 ops) op).1 = run w0 ops) ∧
    (step (run w0 ops) (.exec x [] (.withdrawPurchased l.id))).2.ok = false ∧
    (step (run w0 ops) (.exec x [] (.withdrawPurchased l.id))).1 = run w0 ops := by
  have hI := closed_ids h0 ops
  have hf : findById l.id (run w0 ops).mkt.listings = some (k, l) :=
    hI.findById_iff.2 ⟨hm, rfl⟩
  refine ⟨fun op c f msg ho ht ha => ?_, ?_⟩
  · exact C04_step_refused_listing hI hf ho ht (by rw [ha]; exact hx)
  · have he := C04_refused_withdraw_wf_reach h0 ops (env := (run w0 ops).env) hf hx
    have hok : (step (run w0 ops) (.exec x [] (.withdrawPurchased l.id))).2.ok = false := by
      unfold step
      rcases stepF_market (fail := noFault) (w := run w0 ops)
        (op := .exec x [] (.withdrawPurchased l.id)) rfl with ⟨e', h⟩ | ⟨m', msgs, w2, hx', _, _, _⟩
      · rw [h]; rfl
      · simp only [execute, ExecMsg.takesCoins, List.isEmpty_nil, Bool.not_true, Bool.and_false,
          Bool.false_eq_true, if_false] at hx'
        rw [he] at hx'; cases hx'
    exact ⟨hok, C04_refused_noop _ _ hok⟩

/-- non-vacuity: listing 3 is stored in the sample state and 9 is not its creator -/
example : ∃ k l, (k, l) ∈ C04CEx.w.mkt.listings ∧ l.id = 3 ∧ (9 : Nat) ≠ l.creator :=
  ⟨(1, 3), _, List.mem_cons_self .., rfl, by decide⟩

/-- … and likewise **for every reachable state, every existing bucket and every account that is
    not its owner**: top up, remove, pay with it — directly or through a hook — fails and leaves
    the world untouched. -/
theorem C04_non_owner_bucket_reach {w0 : World} {t : Nat} {r : Option Nat}
    (h0 : w0.mkt = instantiate t r) (ops : List Op) {k : Nat × Nat} {b : Bucket}
    (hm : (k, b) ∈ (run w0 ops).mkt.buckets) {x : Nat} (hx : x ≠ b.owner) :
    ∀ op c f msg, op.asExec = some (c, f, msg) → msg.bucketTarget = some k.2 →
      actor msg c = x →
      (step (run w0 ops) op).2.ok = false ∧ (step (run w0 ops) op).1 = run w0 ops := by
  have hI := closed_ids h0 ops
  intro op c f msg ho ht ha
  refine C04_step_refused_bucket hI hm rfl ho ht ?_
  rw [ha, hI.bfiled _ hm]
  exact hx

example : ∃ k b, (k, b) ∈ C04CEx.w.mkt.buckets ∧ k.2 = 8 ∧ (9 : Nat) ≠ b.owner :=
  ⟨(2, 8), _, List.mem_cons_self .., rfl, by decide⟩

/-! ## axioms -/

#print axioms C04_refused_listing_reach
#print axioms C04_refused_withdraw_wf_reach
#print axioms C04_refused_bucket_reach
#print axioms C04_execute_refused_listing_reach
#print axioms C04_execute_refused_bucket_reach
#print axioms C04_frame_listings_reach
#print axioms C04_frame_buckets_reach
#print axioms C04_step_refused_listing_reach
#print axioms C04_step_refused_bucket_reach
#print axioms C04_non_owner_listing_reach
#print axioms C04_non_owner_bucket_reach

end Fuzion
