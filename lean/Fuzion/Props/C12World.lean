/-
  Fuzion.Props.C12World — the deposit half of C12 ("Records are always well-formed") for whole
  transactions on the chain (`step`): through the entry point, the bank and the token contracts.

  Property text (C12, the part formalised here):  "… Deposits and asks that would break this are
  refused and those that keep it are accepted (for a fresh legal id, an owned listing still in
  preparation, or any owned bucket)."

  Props/C12.lean characterises acceptance at handler level (`C12_create_*_iff'`, `C12_topup_*_iff'`,
  `C12_topup_*_nft_iff`).  A deposit *transaction* additionally moves the assets: native coins are
  taken from the sender by the bank before the handler runs; a CW20 amount / an NFT is moved by the
  (honest) token contract, which then calls the receive hook.  Deposit handlers emit no message, so
  nothing else can fail.  The theorems below are therefore of the form

      transaction accepted  ↔  handler-level condition  ∧  the depositor owns the assets

  where "owns" is, per attached coin `c`, `c.amount ≤` the sender's bank balance of `c.key`
  (`C12_can_pay_iff`: exactly when `BankKeeper::send` succeeds, for a `normalized_check`-ed list),
  resp. `amount ≤` the sender's token balance, resp. "the sender is the NFT's owner".  Together
  with `C12_inv_step` this is: a well-formed deposit to a fresh legal id / an owned preparing
  listing / an owned bucket is accepted exactly when the depositor owns the assets (and, for
  top-ups, the 25 cap / duplicate-NFT condition holds).

  Hypotheses.  `IdsInv w.mkt` (C09) for the creations (the storage-key test is then implied by the
  id-log test); `IdsInv` and `WFInv` (C12) for the top-ups (the record found under `(sender, id)`
  is owned by the sender and well-formed).  The fungible top-ups come in two forms: unprimed with
  the 128-bit overflow abort of `add_tokens` explicit in the condition (no arithmetic hypothesis: an
  abort is a refusal too), primed with `Funds.fits` (stored + deposited amount is a `Uint128`) as
  hypothesis and the 25 cap spelled out as "old assets + new distinct assets ≤ 25".  Nothing is
  assumed about the sender — not even that it differs from the marketplace.

  Token contracts: the CW20 theorems are about honest CW20 contracts (`isHonest20`, kind 1 of the
  chain model) that answer `TokenInfo` (`env.isToken20`, which the hook queries); these are
  independent fields of the model's contract table, so both appear in the statements.
  Core library only.
-/
import Fuzion.Lemmas.WorldLemmas
import Fuzion.Props.C12
import Fuzion.Props.C07
namespace Fuzion

/-! ### sample worlds for the non-vacuity examples -/

namespace C12WEx

def ask : CreateMsg := ⟨⟨[⟨1, 7⟩], [], []⟩, none⟩

/-- from the sample deployment of C01 (`AcctEx.w0`: account 2 holds 5000 of denom 2 and NFT
    (60, 11), account 1 holds 400 of the honest token 50 and NFT (60, 7), account 5 holds 77 of
    token 50): account 2 opens listing 3 with 2000 of denom 2 and bucket 8 with 1000 of denom 2 -/
def ops : List Op :=
  [ .exec 2 [⟨2, 2000⟩] (.createListing 3 ask), .exec 2 [⟨2, 1000⟩] (.createBucket 8) ]

def w : World := run AcctEx.w0 ops

theorem w0_reach : Reach AcctEx.w0 :=
  ⟨C07Ex.w0_inv, ⟨fun _ hp => (by cases hp), fun _ hp => (by cases hp)⟩⟩

theorem w_reach : Reach w := C07_reach_run _ w0_reach (by decide)
theorem w_ids : IdsInv w.mkt := w_reach.inv.ids
theorem w_wf : WFInv w.junoD w.usdcD w.mkt := w_reach.inv.wf

/-- every amount in the sample world is tiny: any deposit of at most 10000 per denomination fits -/
theorem fits_small {g : GBal} {cs : List Coin} (hg : ∀ k, coinAmt g.native k ≤ 10000)
    (hc : ∀ k, coinAmt cs k ≤ 10000) : (Funds.native cs).fits g := by
  intro k
  have := hg k
  have := hc k
  unfold U128MAX
  omega

end C12WEx

/-! ### 1. "the depositor can pay" -/

/-- For a deposit that passes `normalized_check` (non-empty, no zero amount, no repeated
    denomination), the bank's `send` from `x` to the marketplace succeeds **iff** `x` holds, for
    every attached coin, at least that amount of that denomination. -/
theorem C12_can_pay_iff {w : World} {x : Nat} {funds : List Coin}
    (hn : normalizedCheck (.native funds) = true) :
    bankSend w.bank x w.self funds ≠ none ↔ ∀ c ∈ funds, c.amount ≤ lget w.bank (x, c.key) := by
  rw [← canPay_iff (bank := w.bank) (src := x) (dst := w.self) hn]
  cases bankSend w.bank x w.self funds <;> simp

/-- non-vacuity of `C12_can_pay_iff`; account 2 holds 2000 of denom 2 in the sample world, not 2001 -/
example : normalizedCheck (.native [⟨2, 2000⟩]) = true ∧
    bankSend C12WEx.w.bank 2 C12WEx.w.self [⟨2, 2000⟩] ≠ none ∧
    bankSend C12WEx.w.bank 2 C12WEx.w.self [⟨2, 2001⟩] = none := by decide

/-- without the duplicate-freeness the exact condition is the per-denomination *total* (and some
    coin must be non-zero): this is what `BankKeeper::send` tests for an arbitrary coin list -/
theorem C12_bank_send_iff {w : World} {x : Nat} {funds : List Coin} :
    bankSend w.bank x w.self funds ≠ none ↔
      (∃ c ∈ funds, c.amount ≠ 0) ∧ ∀ d, coinAmt funds d ≤ lget w.bank (x, d) := by
  rw [← bankSend_isSome_iff (bank := w.bank) (src := x) (dst := w.self)]
  cases bankSend w.bank x w.self funds <;> simp

/-! ### 2. creations with native coins -/

/-- **`CreateBucket` with coins attached** is accepted exactly for a legal id that was never used,
    a deposit that passes `normalized_check`, and a sender who holds every attached coin. -/
theorem C12_create_bucket_step_iff {w : World} (hI : IdsInv w.mkt) (x : Nat) (funds : List Coin)
    (id : Nat) :
    (step w (.exec x funds (.createBucket id))).2.ok = true ↔
      id < MAX_SAFE_INT ∧ id ∉ w.mkt.bucketUsed ∧ normalizedCheck (.native funds) = true ∧
      ∀ c ∈ funds, c.amount ≤ lget w.bank (x, c.key) := by
  have h := step_deposit_native_iff w x funds (.createBucket id)
  simp only [Inner.toExec, depositFunds] at h
  rw [h, C12_create_bucket_iff' hI]
  simp only [and_assoc]

/-- non-vacuity of `C12_create_bucket_step_iff`: account 2 (2000 of denom 2 left) creates bucket 9
    with 2000; with 2001 (cannot pay), with a zero coin, or under the used id 8 it is refused -/
example : IdsInv C12WEx.w.mkt ∧
    (step C12WEx.w (.exec 2 [⟨2, 2000⟩] (.createBucket 9))).2.ok = true ∧
    (step C12WEx.w (.exec 2 [⟨2, 2001⟩] (.createBucket 9))).2.ok = false ∧
    (step C12WEx.w (.exec 2 [⟨2, 0⟩] (.createBucket 9))).2.ok = false ∧
    (step C12WEx.w (.exec 2 [⟨2, 2000⟩] (.createBucket 8))).2.ok = false :=
  ⟨C12WEx.w_ids, by decide, by decide, by decide, by decide⟩

/-- **`CreateListing` with coins attached** is accepted exactly for a legal id that was never
    used, a deposit that passes `normalized_check`, an absent whitelist or a valid address other
    than the creator, a valid ask (`AskOK`: addresses validate, no zero, 1–25 items, no
    duplicate), and a sender who holds every attached coin. -/
theorem C12_create_listing_step_iff {w : World} (hI : IdsInv w.mkt) (x : Nat) (funds : List Coin)
    (id : Nat) (c : CreateMsg) :
    (step w (.exec x funds (.createListing id c))).2.ok = true ↔
      id < MAX_SAFE_INT ∧ normalizedCheck (.native funds) = true ∧ id ∉ w.mkt.listingUsed ∧
      (c.whitelist = none ∨ ∃ a, c.whitelist = some (.valid a) ∧ a ≠ x) ∧ AskOK c.ask ∧
      ∀ c ∈ funds, c.amount ≤ lget w.bank (x, c.key) := by
  have h := step_deposit_native_iff w x funds (.createListing id c)
  simp only [Inner.toExec, depositFunds] at h
  rw [h, C12_create_listing_iff' hI]
  simp only [and_assoc]

/-- non-vacuity of `C12_create_listing_step_iff` -/
example : IdsInv C12WEx.w.mkt ∧
    (step C12WEx.w (.exec 2 [⟨2, 2000⟩] (.createListing 4 C12WEx.ask))).2.ok = true ∧
    (step C12WEx.w (.exec 2 [⟨2, 2001⟩] (.createListing 4 C12WEx.ask))).2.ok = false ∧
    (step C12WEx.w (.exec 2 [⟨2, 2000⟩] (.createListing 3 C12WEx.ask))).2.ok = false ∧
    (step C12WEx.w (.exec 2 [⟨2, 2000⟩] (.createListing 4 ⟨C12WEx.ask.ask, some (.valid 2)⟩))).2.ok = false :=
  ⟨C12WEx.w_ids, by decide, by decide, by decide, by decide⟩

/-! ### 3. top-ups with native coins -/

/-- **`AddToBucket` with coins attached**, for a bucket stored under `(x, id)` (hence owned by `x`
    and well-formed): accepted exactly when the deposit passes `normalized_check`, `add_tokens`
    does not overflow a `Uint128` and leaves at most 25 assets, and `x` holds every attached
    coin.  (No arithmetic side condition: an overflow abort is a refusal.) -/
theorem C12_add_to_bucket_step_iff {w : World} (hI : IdsInv w.mkt) (hW : WFInv w.junoD w.usdcD w.mkt)
    {x id : Nat} {b : Bucket} (funds : List Coin) (hb : alookup (x, id) w.mkt.buckets = some b) :
    (step w (.exec x funds (.addToBucket id))).2.ok = true ↔
      normalizedCheck (.native funds) = true ∧
      (∃ nf, addTokens b.funds (.native funds) = some nf ∧ nf.count ≤ MAX_ASSETS) ∧
      ∀ c ∈ funds, c.amount ≤ lget w.bank (x, c.key) := by
  obtain ⟨ho, wf⟩ := bucket_lookup_parts hI hW hb
  have h := step_deposit_native_iff w x funds (.addToBucket id)
  simp only [Inner.toExec, depositFunds] at h
  rw [h, addToBucket_ok_iff hb ho wf]
  simp only [and_assoc]

/-- The same with the count spelled out, when the amounts fit a `Uint128` (`Funds.fits`): the
    bucket's assets plus the *new* denominations of the deposit are at most 25. -/
theorem C12_add_to_bucket_step_iff' {w : World} (hI : IdsInv w.mkt) (hW : WFInv w.junoD w.usdcD w.mkt)
    {x id : Nat} {b : Bucket} {funds : List Coin} (hb : alookup (x, id) w.mkt.buckets = some b)
    (hfit : (Funds.native funds).fits b.funds) :
    (step w (.exec x funds (.addToBucket id))).2.ok = true ↔
      normalizedCheck (.native funds) = true ∧
      b.funds.count + (Funds.native funds).newAssets b.funds ≤ MAX_ASSETS ∧
      ∀ c ∈ funds, c.amount ≤ lget w.bank (x, c.key) := by
  obtain ⟨ho, wf⟩ := bucket_lookup_parts hI hW hb
  have h := step_deposit_native_iff w x funds (.addToBucket id)
  simp only [Inner.toExec, depositFunds] at h
  rw [h, C12_topup_bucket_iff' hb ho wf hfit]
  simp only [and_assoc]

/-- non-vacuity of `C12_add_to_bucket_step_iff` / `_iff'`: bucket 8 of account 2 exists in the sample world;
    500 more of denom 2 are accepted, 2001 are not (cannot pay) -/
example : IdsInv C12WEx.w.mkt ∧ WFInv C12WEx.w.junoD C12WEx.w.usdcD C12WEx.w.mkt ∧
    (alookup (2, 8) C12WEx.w.mkt.buckets).map (·.funds) = some ⟨[⟨2, 1000⟩], [], []⟩ ∧
    (Funds.native [⟨2, 500⟩]).fits ⟨[⟨2, 1000⟩], [], []⟩ ∧
    (step C12WEx.w (.exec 2 [⟨2, 500⟩] (.addToBucket 8))).2.ok = true ∧
    (step C12WEx.w (.exec 2 [⟨2, 2001⟩] (.addToBucket 8))).2.ok = false := by
  refine ⟨C12WEx.w_ids, C12WEx.w_wf, by decide, C12WEx.fits_small ?_ ?_, by decide, by decide⟩
  · intro k
    by_cases hk : 2 = k <;> simp [coinAmt_cons, coinAmt_nil, hk]
  · intro k
    by_cases hk : 2 = k <;> simp [coinAmt_cons, coinAmt_nil, hk]

/-- **`AddToListing` with coins attached**, for a listing stored under `(x, id)` that is still in
    preparation (hence created by `x`, unclaimed, well-formed): accepted exactly when the deposit
    passes `normalized_check`, `add_tokens` does not overflow and leaves at most 25 assets, and
    `x` holds every attached coin. -/
theorem C12_add_to_listing_step_iff {w : World} (hI : IdsInv w.mkt) (hW : WFInv w.junoD w.usdcD w.mkt)
    {x id : Nat} {l : Listing} (funds : List Coin) (hl : alookup (x, id) w.mkt.listings = some l)
    (hs : l.status = .preparing) :
    (step w (.exec x funds (.addToListing id))).2.ok = true ↔
      normalizedCheck (.native funds) = true ∧
      (∃ nf, addTokens l.forSale (.native funds) = some nf ∧ nf.count ≤ MAX_ASSETS) ∧
      ∀ c ∈ funds, c.amount ≤ lget w.bank (x, c.key) := by
  obtain ⟨ho, hc, wf⟩ := preparing_lookup_parts hI hW hl hs
  have h := step_deposit_native_iff w x funds (.addToListing id)
  simp only [Inner.toExec, depositFunds] at h
  rw [h, addToListing_ok_iff hl ho hs hc wf]
  simp only [and_assoc]

/-- The same with the count spelled out, when the amounts fit a `Uint128`: the goods plus the *new*
    denominations are at most 25 assets. -/
theorem C12_add_to_listing_step_iff' {w : World} (hI : IdsInv w.mkt) (hW : WFInv w.junoD w.usdcD w.mkt)
    {x id : Nat} {l : Listing} {funds : List Coin} (hl : alookup (x, id) w.mkt.listings = some l)
    (hs : l.status = .preparing) (hfit : (Funds.native funds).fits l.forSale) :
    (step w (.exec x funds (.addToListing id))).2.ok = true ↔
      normalizedCheck (.native funds) = true ∧
      l.forSale.count + (Funds.native funds).newAssets l.forSale ≤ MAX_ASSETS ∧
      ∀ c ∈ funds, c.amount ≤ lget w.bank (x, c.key) := by
  obtain ⟨ho, hc, wf⟩ := preparing_lookup_parts hI hW hl hs
  have h := step_deposit_native_iff w x funds (.addToListing id)
  simp only [Inner.toExec, depositFunds] at h
  rw [h, C12_topup_listing_iff' hl ho hs hc wf hfit]
  simp only [and_assoc]

/-- non-vacuity of `C12_add_to_listing_step_iff` / `_iff'`: listing 3 of account 2 is in preparation -/
example : IdsInv C12WEx.w.mkt ∧ WFInv C12WEx.w.junoD C12WEx.w.usdcD C12WEx.w.mkt ∧
    (alookup (2, 3) C12WEx.w.mkt.listings).map (fun l => (l.status, l.forSale)) =
      some (.preparing, ⟨[⟨2, 2000⟩], [], []⟩) ∧
    (Funds.native [⟨2, 500⟩]).fits ⟨[⟨2, 2000⟩], [], []⟩ ∧
    (step C12WEx.w (.exec 2 [⟨2, 500⟩] (.addToListing 3))).2.ok = true ∧
    (step C12WEx.w (.exec 2 [⟨2, 2001⟩] (.addToListing 3))).2.ok = false := by
  refine ⟨C12WEx.w_ids, C12WEx.w_wf, by decide, C12WEx.fits_small ?_ ?_, by decide, by decide⟩
  · intro k
    by_cases hk : 2 = k <;> simp [coinAmt_cons, coinAmt_nil, hk]
  · intro k
    by_cases hk : 2 = k <;> simp [coinAmt_cons, coinAmt_nil, hk]

/-! ### 4. deposits of a CW20 amount (`Send` to the marketplace) -/

/-- **CW20 `Send` creating a bucket**: accepted exactly when the token is an honest CW20 contract
    that answers `TokenInfo`, the amount is non-zero and held by the sender, and the id is legal
    and was never used. -/
theorem C12_send20_create_bucket_step_iff {w : World} (hI : IdsInv w.mkt) (t x amount id : Nat) :
    (step w (.send20 t x amount (some (.createBucket id)))).2.ok = true ↔
      w.isHonest20 t = true ∧ w.env.isToken20 t = true ∧ amount ≠ 0 ∧
      amount ≤ lget w.cw20 (t, x) ∧ id < MAX_SAFE_INT ∧ id ∉ w.mkt.bucketUsed := by
  have h := step_deposit_cw20_iff w t x amount (.createBucket id)
  simp only [depositFunds] at h
  rw [h, C12_create_bucket_iff' hI]
  simp only [normalizedCheck, decide_eq_true_eq]
  constructor
  · rintro ⟨a, b, c, d, e, f, _⟩; exact ⟨a, b, c, d, e, f⟩
  · rintro ⟨a, b, c, d, e, f⟩; exact ⟨a, b, c, d, e, f, c⟩

/-- non-vacuity of `C12_send20_create_bucket_step_iff`: account 5 holds 77 of the honest token 50;
    78, a zero amount, the used id 8 and the hostile "token" 70 are refused -/
example : IdsInv C12WEx.w.mkt ∧
    (step C12WEx.w (.send20 50 5 77 (some (.createBucket 9)))).2.ok = true ∧
    (step C12WEx.w (.send20 50 5 78 (some (.createBucket 9)))).2.ok = false ∧
    (step C12WEx.w (.send20 50 5 0 (some (.createBucket 9)))).2.ok = false ∧
    (step C12WEx.w (.send20 50 5 77 (some (.createBucket 8)))).2.ok = false ∧
    (step C12WEx.w (.send20 70 5 77 (some (.createBucket 9)))).2.ok = false :=
  ⟨C12WEx.w_ids, by decide, by decide, by decide, by decide, by decide⟩

/-- **CW20 `Send` creating a listing**: as above, plus the whitelist and ask conditions. -/
theorem C12_send20_create_listing_step_iff {w : World} (hI : IdsInv w.mkt) (t x amount id : Nat)
    (c : CreateMsg) :
    (step w (.send20 t x amount (some (.createListing id c)))).2.ok = true ↔
      w.isHonest20 t = true ∧ w.env.isToken20 t = true ∧ amount ≠ 0 ∧
      amount ≤ lget w.cw20 (t, x) ∧ id < MAX_SAFE_INT ∧ id ∉ w.mkt.listingUsed ∧
      (c.whitelist = none ∨ ∃ a, c.whitelist = some (.valid a) ∧ a ≠ x) ∧ AskOK c.ask := by
  have h := step_deposit_cw20_iff w t x amount (.createListing id c)
  simp only [depositFunds] at h
  rw [h, C12_create_listing_iff' hI]
  simp only [normalizedCheck, decide_eq_true_eq]
  constructor
  · rintro ⟨a, b, c, d, e, _, f, g, i⟩; exact ⟨a, b, c, d, e, f, g, i⟩
  · rintro ⟨a, b, c, d, e, f, g, i⟩; exact ⟨a, b, c, d, e, c, f, g, i⟩

/-- non-vacuity of `C12_send20_create_listing_step_iff` -/
example : IdsInv C12WEx.w.mkt ∧
    (step C12WEx.w (.send20 50 5 77 (some (.createListing 4 C12WEx.ask)))).2.ok = true ∧
    (step C12WEx.w (.send20 50 5 78 (some (.createListing 4 C12WEx.ask)))).2.ok = false ∧
    (step C12WEx.w (.send20 50 5 77 (some (.createListing 4 ⟨⟨[], [], []⟩, none⟩)))).2.ok = false :=
  ⟨C12WEx.w_ids, by decide, by decide, by decide⟩

/-- **CW20 `Send` topping up an owned bucket** (stored under `(x, id)`): accepted exactly when the
    token is an honest CW20 contract that answers `TokenInfo`, the amount is non-zero and held by
    the sender, and `add_tokens` does not overflow and leaves at most 25 assets. -/
theorem C12_send20_add_to_bucket_step_iff {w : World} (hI : IdsInv w.mkt)
    (hW : WFInv w.junoD w.usdcD w.mkt) {x id : Nat} {b : Bucket} (t amount : Nat)
    (hb : alookup (x, id) w.mkt.buckets = some b) :
    (step w (.send20 t x amount (some (.addToBucket id)))).2.ok = true ↔
      w.isHonest20 t = true ∧ w.env.isToken20 t = true ∧ amount ≠ 0 ∧
      amount ≤ lget w.cw20 (t, x) ∧
      ∃ nf, addTokens b.funds (.cw20 ⟨t, amount⟩) = some nf ∧ nf.count ≤ MAX_ASSETS := by
  obtain ⟨ho, wf⟩ := bucket_lookup_parts hI hW hb
  have h := step_deposit_cw20_iff w t x amount (.addToBucket id)
  simp only [depositFunds] at h
  rw [h, addToBucket_ok_iff hb ho wf]
  simp only [normalizedCheck, decide_eq_true_eq]
  constructor
  · rintro ⟨a, b, c, d, _, f⟩; exact ⟨a, b, c, d, f⟩
  · rintro ⟨a, b, c, d, f⟩; exact ⟨a, b, c, d, c, f⟩

/-- The same with the count spelled out, when stored + sent amount of the token fits a `Uint128`:
    the bucket's assets plus one — if the token is new to it — are at most 25. -/
theorem C12_send20_add_to_bucket_step_iff' {w : World} (hI : IdsInv w.mkt)
    (hW : WFInv w.junoD w.usdcD w.mkt) {t x amount id : Nat} {b : Bucket}
    (hb : alookup (x, id) w.mkt.buckets = some b) (hfit : (Funds.cw20 ⟨t, amount⟩).fits b.funds) :
    (step w (.send20 t x amount (some (.addToBucket id)))).2.ok = true ↔
      w.isHonest20 t = true ∧ w.env.isToken20 t = true ∧ amount ≠ 0 ∧
      amount ≤ lget w.cw20 (t, x) ∧
      b.funds.count + (Funds.cw20 ⟨t, amount⟩).newAssets b.funds ≤ MAX_ASSETS := by
  obtain ⟨ho, wf⟩ := bucket_lookup_parts hI hW hb
  have h := step_deposit_cw20_iff w t x amount (.addToBucket id)
  simp only [depositFunds] at h
  rw [h, C12_topup_bucket_iff' hb ho wf hfit]
  simp only [normalizedCheck, decide_eq_true_eq]
  constructor
  · rintro ⟨a, b, c, d, _, f⟩; exact ⟨a, b, c, d, f⟩
  · rintro ⟨a, b, c, d, f⟩; exact ⟨a, b, c, d, c, f⟩

/-- non-vacuity of `C12_send20_add_to_bucket_step_iff` / `_iff'`: account 2 owns bucket 8 but holds no
    token 50 in the sample world, so its `Send` of 10 is refused; in the same world with 10 tokens
    credited to account 2 it is accepted -/
example : IdsInv C12WEx.w.mkt ∧ WFInv C12WEx.w.junoD C12WEx.w.usdcD C12WEx.w.mkt ∧
    (alookup (2, 8) C12WEx.w.mkt.buckets).map (·.funds) = some ⟨[⟨2, 1000⟩], [], []⟩ ∧
    (Funds.cw20 ⟨50, 10⟩).fits ⟨[⟨2, 1000⟩], [], []⟩ ∧
    (step C12WEx.w (.send20 50 2 10 (some (.addToBucket 8)))).2.ok = false ∧
    (step { C12WEx.w with cw20 := ((50, 2), 10) :: C12WEx.w.cw20 }
      (.send20 50 2 10 (some (.addToBucket 8)))).2.ok = true :=
  ⟨C12WEx.w_ids, C12WEx.w_wf, by decide,
   (by show coinAmt ([] : List Coin) 50 + 10 ≤ U128MAX; decide), by decide, by decide⟩

/-- **CW20 `Send` topping up an owned listing in preparation**. -/
theorem C12_send20_add_to_listing_step_iff {w : World} (hI : IdsInv w.mkt)
    (hW : WFInv w.junoD w.usdcD w.mkt) {x id : Nat} {l : Listing} (t amount : Nat)
    (hl : alookup (x, id) w.mkt.listings = some l) (hs : l.status = .preparing) :
    (step w (.send20 t x amount (some (.addToListing id)))).2.ok = true ↔
      w.isHonest20 t = true ∧ w.env.isToken20 t = true ∧ amount ≠ 0 ∧
      amount ≤ lget w.cw20 (t, x) ∧
      ∃ nf, addTokens l.forSale (.cw20 ⟨t, amount⟩) = some nf ∧ nf.count ≤ MAX_ASSETS := by
  obtain ⟨ho, hc, wf⟩ := preparing_lookup_parts hI hW hl hs
  have h := step_deposit_cw20_iff w t x amount (.addToListing id)
  simp only [depositFunds] at h
  rw [h, addToListing_ok_iff hl ho hs hc wf]
  simp only [normalizedCheck, decide_eq_true_eq]
  constructor
  · rintro ⟨a, b, c, d, _, f⟩; exact ⟨a, b, c, d, f⟩
  · rintro ⟨a, b, c, d, f⟩; exact ⟨a, b, c, d, c, f⟩

/-- The same with the count spelled out, when stored + sent amount fits a `Uint128`. -/
theorem C12_send20_add_to_listing_step_iff' {w : World} (hI : IdsInv w.mkt)
    (hW : WFInv w.junoD w.usdcD w.mkt) {t x amount id : Nat} {l : Listing}
    (hl : alookup (x, id) w.mkt.listings = some l) (hs : l.status = .preparing)
    (hfit : (Funds.cw20 ⟨t, amount⟩).fits l.forSale) :
    (step w (.send20 t x amount (some (.addToListing id)))).2.ok = true ↔
      w.isHonest20 t = true ∧ w.env.isToken20 t = true ∧ amount ≠ 0 ∧
      amount ≤ lget w.cw20 (t, x) ∧
      l.forSale.count + (Funds.cw20 ⟨t, amount⟩).newAssets l.forSale ≤ MAX_ASSETS := by
  obtain ⟨ho, hc, wf⟩ := preparing_lookup_parts hI hW hl hs
  have h := step_deposit_cw20_iff w t x amount (.addToListing id)
  simp only [depositFunds] at h
  rw [h, C12_topup_listing_iff' hl ho hs hc wf hfit]
  simp only [normalizedCheck, decide_eq_true_eq]
  constructor
  · rintro ⟨a, b, c, d, _, f⟩; exact ⟨a, b, c, d, f⟩
  · rintro ⟨a, b, c, d, f⟩; exact ⟨a, b, c, d, c, f⟩

/-- non-vacuity of `C12_send20_add_to_listing_step_iff` / `_iff'` (same device as for the bucket) -/
example : IdsInv C12WEx.w.mkt ∧ WFInv C12WEx.w.junoD C12WEx.w.usdcD C12WEx.w.mkt ∧
    (alookup (2, 3) C12WEx.w.mkt.listings).map (fun l => (l.status, l.forSale)) =
      some (.preparing, ⟨[⟨2, 2000⟩], [], []⟩) ∧
    (Funds.cw20 ⟨50, 10⟩).fits ⟨[⟨2, 2000⟩], [], []⟩ ∧
    (step C12WEx.w (.send20 50 2 10 (some (.addToListing 3)))).2.ok = false ∧
    (step { C12WEx.w with cw20 := ((50, 2), 10) :: C12WEx.w.cw20 }
      (.send20 50 2 10 (some (.addToListing 3)))).2.ok = true :=
  ⟨C12WEx.w_ids, C12WEx.w_wf, by decide,
   (by show coinAmt ([] : List Coin) 50 + 10 ≤ U128MAX; decide), by decide, by decide⟩

/-- a `Send` whose payload does not parse as a deposit message is refused -/
theorem C12_send20_bad_payload (w : World) (t x amount : Nat) :
    (step w (.send20 t x amount none)).2.ok = false := step_send20_none w t x amount

/-! ### 5. deposits of an NFT (`SendNft` to the marketplace) -/

/-- **`SendNft` creating a bucket**: accepted exactly when the collection is an honest CW721
    contract, the sender owns the NFT, and the id is legal and was never used. -/
theorem C12_send721_create_bucket_step_iff {w : World} (hI : IdsInv w.mkt) (c x tid id : Nat) :
    (step w (.send721 c x tid (some (.createBucket id)))).2.ok = true ↔
      w.isHonest721 c = true ∧ alookup (c, tid) w.nft = some x ∧
      id < MAX_SAFE_INT ∧ id ∉ w.mkt.bucketUsed := by
  have h := step_deposit_nft_iff w c x tid (.createBucket id)
  simp only [depositNft] at h
  rw [h, C12_create_bucket_nft_iff' hI]

/-- non-vacuity of `C12_send721_create_bucket_step_iff`: account 2 owns NFT (60, 11), not (60, 7) -/
example : IdsInv C12WEx.w.mkt ∧
    (step C12WEx.w (.send721 60 2 11 (some (.createBucket 9)))).2.ok = true ∧
    (step C12WEx.w (.send721 60 2 7 (some (.createBucket 9)))).2.ok = false ∧
    (step C12WEx.w (.send721 60 2 11 (some (.createBucket 8)))).2.ok = false :=
  ⟨C12WEx.w_ids, by decide, by decide, by decide⟩

/-- **`SendNft` creating a listing**. -/
theorem C12_send721_create_listing_step_iff {w : World} (hI : IdsInv w.mkt) (c x tid id : Nat)
    (cm : CreateMsg) :
    (step w (.send721 c x tid (some (.createListing id cm)))).2.ok = true ↔
      w.isHonest721 c = true ∧ alookup (c, tid) w.nft = some x ∧
      id < MAX_SAFE_INT ∧ id ∉ w.mkt.listingUsed ∧
      (cm.whitelist = none ∨ ∃ a, cm.whitelist = some (.valid a) ∧ a ≠ x) ∧ AskOK cm.ask := by
  have h := step_deposit_nft_iff w c x tid (.createListing id cm)
  simp only [depositNft] at h
  rw [h, C12_create_listing_nft_iff' hI]

/-- non-vacuity of `C12_send721_create_listing_step_iff` -/
example : IdsInv C12WEx.w.mkt ∧
    (step C12WEx.w (.send721 60 2 11 (some (.createListing 4 C12WEx.ask)))).2.ok = true ∧
    (step C12WEx.w (.send721 60 1 11 (some (.createListing 4 C12WEx.ask)))).2.ok = false :=
  ⟨C12WEx.w_ids, by decide, by decide⟩

/-- **`SendNft` topping up an owned bucket**: accepted exactly when the collection is honest, the
    sender owns the NFT, there is room for one more asset and the NFT is not already recorded in
    the bucket. -/
theorem C12_send721_add_to_bucket_step_iff {w : World} (hI : IdsInv w.mkt)
    (hW : WFInv w.junoD w.usdcD w.mkt) {c x tid id : Nat} {b : Bucket}
    (hb : alookup (x, id) w.mkt.buckets = some b) :
    (step w (.send721 c x tid (some (.addToBucket id)))).2.ok = true ↔
      w.isHonest721 c = true ∧ alookup (c, tid) w.nft = some x ∧
      b.funds.count + 1 ≤ MAX_ASSETS ∧ (⟨c, tid⟩ : Nft) ∉ b.funds.nfts := by
  obtain ⟨ho, wf⟩ := bucket_lookup_parts hI hW hb
  have h := step_deposit_nft_iff w c x tid (.addToBucket id)
  simp only [depositNft] at h
  rw [h, C12_topup_bucket_nft_iff hb ho wf]

/-- non-vacuity of `C12_send721_add_to_bucket_step_iff` -/
example : IdsInv C12WEx.w.mkt ∧ WFInv C12WEx.w.junoD C12WEx.w.usdcD C12WEx.w.mkt ∧
    (alookup (2, 8) C12WEx.w.mkt.buckets).isSome = true ∧
    (step C12WEx.w (.send721 60 2 11 (some (.addToBucket 8)))).2.ok = true ∧
    (step C12WEx.w (.send721 60 2 7 (some (.addToBucket 8)))).2.ok = false :=
  ⟨C12WEx.w_ids, C12WEx.w_wf, by decide, by decide, by decide⟩

/-- **`SendNft` topping up an owned listing in preparation**. -/
theorem C12_send721_add_to_listing_step_iff {w : World} (hI : IdsInv w.mkt)
    (hW : WFInv w.junoD w.usdcD w.mkt) {c x tid id : Nat} {l : Listing}
    (hl : alookup (x, id) w.mkt.listings = some l) (hs : l.status = .preparing) :
    (step w (.send721 c x tid (some (.addToListing id)))).2.ok = true ↔
      w.isHonest721 c = true ∧ alookup (c, tid) w.nft = some x ∧
      l.forSale.count + 1 ≤ MAX_ASSETS ∧ (⟨c, tid⟩ : Nft) ∉ l.forSale.nfts := by
  obtain ⟨ho, hc, wf⟩ := preparing_lookup_parts hI hW hl hs
  have h := step_deposit_nft_iff w c x tid (.addToListing id)
  simp only [depositNft] at h
  rw [h, C12_topup_listing_nft_iff hl ho hs hc wf]

/-- non-vacuity of `C12_send721_add_to_listing_step_iff` -/
example : IdsInv C12WEx.w.mkt ∧ WFInv C12WEx.w.junoD C12WEx.w.usdcD C12WEx.w.mkt ∧
    (alookup (2, 3) C12WEx.w.mkt.listings).map (·.status) = some .preparing ∧
    (step C12WEx.w (.send721 60 2 11 (some (.addToListing 3)))).2.ok = true ∧
    (step C12WEx.w (.send721 60 2 7 (some (.addToListing 3)))).2.ok = false :=
  ⟨C12WEx.w_ids, C12WEx.w_wf, by decide, by decide, by decide⟩

/-! ### 6. what an accepted deposit transaction leaves behind -/

/-- "those that keep it are accepted" — and they do keep it: whatever transaction is accepted
    (deposits included), the records are well-formed afterwards (`C12_inv_step`), so the
    equivalences above describe exactly the deposits by which well-formed records grow. -/
theorem C12_deposit_keeps_wf {w : World} (op : Op) (hW : WFInv w.junoD w.usdcD w.mkt) :
    WFInv (step w op).1.junoD (step w op).1.usdcD (step w op).1.mkt :=
  C12_inv_step op hW

example : WFInv C12WEx.w.junoD C12WEx.w.usdcD C12WEx.w.mkt := C12WEx.w_wf

#print axioms C12_can_pay_iff
#print axioms C12_bank_send_iff
#print axioms C12_create_bucket_step_iff
#print axioms C12_create_listing_step_iff
#print axioms C12_add_to_bucket_step_iff
#print axioms C12_add_to_bucket_step_iff'
#print axioms C12_add_to_listing_step_iff
#print axioms C12_add_to_listing_step_iff'
#print axioms C12_send20_create_bucket_step_iff
#print axioms C12_send20_create_listing_step_iff
#print axioms C12_send20_add_to_bucket_step_iff
#print axioms C12_send20_add_to_bucket_step_iff'
#print axioms C12_send20_add_to_listing_step_iff
#print axioms C12_send20_add_to_listing_step_iff'
#print axioms C12_send20_bad_payload
#print axioms C12_send721_create_bucket_step_iff
#print axioms C12_send721_create_listing_step_iff
#print axioms C12_send721_add_to_bucket_step_iff
#print axioms C12_send721_add_to_listing_step_iff
#print axioms C12_deposit_keeps_wf
#print axioms C12WEx.w_reach
#print axioms C12WEx.fits_small

end Fuzion
