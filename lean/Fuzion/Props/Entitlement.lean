/-
  Fuzion.Props.Entitlement — an ABSTRACT SPECIFICATION of the marketplace, related to the model by an
  abstraction function and one refinement theorem per class of operation.

  The abstract state.  Forget ids, asks, timestamps, statuses: what matters to an account `a` is what
  the marketplace holds FOR it — the goods of every record `a` can cash out.  A record's cashing-out
  party is the field it is filed under: `Listing.creator` (the seller while unsold; `buy` overwrites it
  with the buyer and re-files the listing under the buyer's key, see `Ent_party`) and `Bucket.owner`
  (the depositor; after a sale the seller, who receives the payment as a bucket).

      entNative m a d   coins of denomination `d` held for `a`
      entCw20   m a t   amount of CW20 token `t` held for `a`
      entNfts   m a     NFTs held for `a`
      pendingFees m d   fees recorded at a sale and not yet paid to the community pool (C10)

  The abstract transitions (all relations between the abstract states of `m` and `m'`):

      EntEq   m m'            nothing changes
      EntGain m m' x X        `x` gains the assets `X`; nobody else, and no fee, changes
      EntLoss m m' x g fee    `x` loses the goods `g`, the pending fees lose `fee`; nobody else changes
      EntTrade …              a sale (see `Ent_buy`)

  Refinement (about the model's real `execute` on states satisfying the invariants `IdsInv` / `WFInv`,
  and about `step` on every state reached from an instantiated marketplace, where the invariants are
  discharged by `closed_ids` / `closed_wf`):

      Ent_neutral   finalize, changeAsk, feeCycle, registry / admin / clock operations, and every
                    failed transaction                                            ⟶ EntEq
      Ent_deposit   create / add to listing or bucket, by coins, CW20 hook, NFT hook ⟶ EntGain
      Ent_withdraw  removeBucket, deleteListing, withdrawPurchased               ⟶ EntLoss,
                    and the emitted messages are exactly "goods to `x`, fee to the pool"
      Ent_buy       buy                                                          ⟶ the sale
      Ent_backed    C01 through the abstraction: the marketplace's holdings are
                    Σ over accounts of their entitlements + pending fees.
      Ent_refinement_reach   every transaction from a reachable state is one of the four abstract
                    steps (`EntStep`).

  (This contract has no whitelist add / remove message: the whitelist is fixed by `createListing`.)
  Core library only.
-/
import Fuzion.Lemmas.EntitlementLemmas
import Fuzion.Props.Summary
import Fuzion.Props.C06Closed
namespace Fuzion

/-! ## 1. the abstraction function -/

/-- coins of denomination `d` the marketplace holds for account `a`: in the listings filed under `a`
    (its unsold listings and the listings it bought) and in the buckets owned by `a` -/
def entNative (m : Market) (a d : Nat) : Nat :=
  listingsSum (fun l => if a = l.creator then coinAmt l.forSale.native d else 0) m +
  bucketsSum (fun b => if a = b.owner then coinAmt b.funds.native d else 0) m

/-- amount of CW20 token `t` the marketplace holds for account `a` -/
def entCw20 (m : Market) (a t : Nat) : Nat :=
  listingsSum (fun l => if a = l.creator then coinAmt l.forSale.cw20 t else 0) m +
  bucketsSum (fun b => if a = b.owner then coinAmt b.funds.cw20 t else 0) m

/-- the NFTs the marketplace holds for account `a` -/
def entNfts (m : Market) (a : Nat) : List Nft :=
  m.listings.flatMap (fun p => if a = p.2.creator then p.2.forSale.nfts else []) ++
  m.buckets.flatMap (fun p => if a = p.2.owner then p.2.funds.nfts else [])

/-- fees recorded and not yet paid to the community pool, in denomination `d` (`pendingFee` of C10) -/
abbrev pendingFees (m : Market) (d : Nat) : Nat := pendingFee m d

/-- the accounts that have a record -/
def owners (m : Market) : List Nat :=
  (m.listings.map (·.2.creator) ++ m.buckets.map (·.2.owner)).eraseDups

/-- the party a listing is filed under IS its withdrawing party: on well-formed states a listing is
    stored under the key `(creator, id)`, and a claimant (buyer), if any, is the `creator` field —
    `buy` overwrites it.  So "creator for unsold, buyer for sold listings" = `Listing.creator`. -/
theorem Ent_party {j u : Nat} {m : Market} (hW : WFInv j u m) {k : Nat × Nat} {l : Listing}
    (h : (k, l) ∈ m.listings) :
    k = (l.creator, l.id) ∧ (∀ c, l.claimant = some c → c = l.creator) ∧
    (l.status = .closed → l.claimant = some l.creator) := by
  have hw := hW.lwf _ h
  simp only [wfListing, Bool.and_eq_true, decide_eq_true_eq] at hw
  obtain ⟨⟨⟨hk, _⟩, _⟩, hs⟩ := hw
  refine ⟨hk, fun c hc => ?_, fun hst => ?_⟩
  · rw [hc] at hs
    cases hst : l.status <;> rw [hst] at hs <;> simp at hs
    exact hs.1.2
  · rw [hst] at hs
    simp only [Bool.and_eq_true, decide_eq_true_eq] at hs
    exact hs.1.2

/-! ### the abstraction in terms of valuations (bridge to Lemmas/EntitlementLemmas.lean) -/

theorem entNative_eq (m : Market) (a d : Nat) : entNative m a d = entV (natV d) m a := rfl
theorem entCw20_eq (m : Market) (a t : Nat) : entCw20 m a t = entV (cwV t) m a := rfl
theorem pendingFees_eq (m : Market) (d : Nat) : pendingFees m d = pendV (natV d) m := rfl

theorem count_ite_nil (c : Prop) [Decidable c] (l : List Nft) (n : Nft) :
    (if c then l else []).count n = if c then l.count n else 0 := by
  split <;> simp

theorem count_entNfts (m : Market) (a : Nat) (n : Nft) :
    (entNfts m a).count n = entV (nftV n) m a := by
  unfold entNfts entV wsum
  rw [List.count_append]
  have e1 := count_flatMap_asum n (fun l : Listing => if a = l.creator then l.forSale.nfts else [])
    m.listings
  have e2 := count_flatMap_asum n (fun b : Bucket => if a = b.owner then b.funds.nfts else [])
    m.buckets
  rw [e1, e2]
  have f1 : (fun v : Listing => (if a = v.creator then v.forSale.nfts else []).count n) =
      (nftV n).wlOf a := funext fun v => count_ite_nil _ _ _
  have f2 : (fun v : Bucket => (if a = v.owner then v.funds.nfts else []).count n) =
      (nftV n).wbOf a := funext fun v => count_ite_nil _ _ _
  rw [f1, f2]

theorem pendV_cwV (m : Market) (t : Nat) : pendV (cwV t) m = 0 := by
  show asum (fun _ => 0) m.listings + asum (fun _ => 0) m.buckets = 0
  rw [asum_zero, asum_zero]

theorem pendV_nftV (m : Market) (n : Nft) : pendV (nftV n) m = 0 := by
  show asum (fun _ => 0) m.listings + asum (fun _ => 0) m.buckets = 0
  rw [asum_zero, asum_zero]

/-! ## 2. the abstract transitions -/

/-- nothing changes: every account's entitlement and the pending fees are the same -/
structure EntEq (m m' : Market) : Prop where
  native : ∀ a d, entNative m' a d = entNative m a d
  cw20 : ∀ a t, entCw20 m' a t = entCw20 m a t
  nfts : ∀ a, (entNfts m' a).Perm (entNfts m a)
  fees : ∀ d, pendingFees m' d = pendingFees m d

/-- account `x` gains exactly the assets `X`; nobody else's entitlement changes; pending fees
    unchanged -/
structure EntGain (m m' : Market) (x : Nat) (X : GBal) : Prop where
  native : ∀ a d, entNative m' a d = entNative m a d + if a = x then coinAmt X.native d else 0
  cw20 : ∀ a t, entCw20 m' a t = entCw20 m a t + if a = x then coinAmt X.cw20 t else 0
  nfts : ∀ a, (entNfts m' a).Perm (entNfts m a ++ if a = x then X.nfts else [])
  fees : ∀ d, pendingFees m' d = pendingFees m d

/-- account `x` loses exactly the goods `g`, the pending fees lose exactly `fee`; nobody else's
    entitlement changes -/
structure EntLoss (m m' : Market) (x : Nat) (g : GBal) (fee : Option Coin) : Prop where
  native : ∀ a d, entNative m' a d + (if a = x then coinAmt g.native d else 0) = entNative m a d
  cw20 : ∀ a t, entCw20 m' a t + (if a = x then coinAmt g.cw20 t else 0) = entCw20 m a t
  nfts : ∀ a, (entNfts m' a ++ if a = x then g.nfts else []).Perm (entNfts m a)
  fees : ∀ d, pendingFees m' d + feeAmt fee d = pendingFees m d

theorem EntEq.refl (m : Market) : EntEq m m :=
  ⟨fun _ _ => rfl, fun _ _ => rfl, fun _ => List.Perm.refl _, fun _ => rfl⟩

theorem EntEq.of_val {m m' : Market} (h : ∀ V : Val, EntSame V m m') : EntEq m m' where
  native := fun a d => (h (natV d)).1 a
  cw20 := fun a t => (h (cwV t)).1 a
  nfts := fun a => List.perm_iff_count.2 fun n => by
    rw [count_entNfts, count_entNfts]; exact (h (nftV n)).1 a
  fees := fun d => (h (natV d)).2

theorem EntGain.of_val {m m' : Market} {x : Nat} {X : GBal}
    (h : ∀ V : Val, V.Ok → EntDep V m m' x (V.bal X)) : EntGain m m' x X where
  native := fun a d => (h (natV d) (natV_ok d)).1 a
  cw20 := fun a t => (h (cwV t) (cwV_ok t)).1 a
  nfts := fun a => List.perm_iff_count.2 fun n => by
    rw [List.count_append, count_entNfts, count_entNfts, count_ite_nil]
    exact (h (nftV n) (nftV_ok n)).1 a
  fees := fun d => (h (natV d) (natV_ok d)).2

theorem EntLoss.of_val {m m' : Market} {x : Nat} {g : GBal} {fee : Option Coin}
    (h : ∀ V : Val, V.Ok → EntWd V m m' x g fee) : EntLoss m m' x g fee where
  native := fun a d => (h (natV d) (natV_ok d)).1 a
  cw20 := fun a t => (h (cwV t) (cwV_ok t)).1 a
  nfts := fun a => List.perm_iff_count.2 fun n => by
    rw [List.count_append, count_entNfts, count_entNfts, count_ite_nil]
    exact (h (nftV n) (nftV_ok n)).1 a
  fees := fun d => (h (natV d) (natV_ok d)).2

section handler
variable {m m' : Market} {env : Env} {out : List OutMsg} {j u : Nat}
  {s : Nat} {f : List Coin} {msg : ExecMsg}

/-! ## 3. `Ent_neutral` -/

/-- the messages that move no asset: finalize, re-price, switch the fee denomination -/
def ExecMsg.isNeutral : ExecMsg → Bool
  | .finalize .. | .changeAsk .. | .feeCycle => true
  | _ => false

/-- an operation that is no marketplace call (registry message, admin change, clock) or carries a
    neutral message -/
def Op.isNeutral (op : Op) : Bool :=
  match op.asExec with
  | none => true
  | some (_, _, msg) => msg.isNeutral

/-- **neutral messages** (handler level): an accepted `finalize`, `changeAsk` or `feeCycle` emits no
    message and leaves every account's entitlement and the pending fees unchanged -/
theorem Ent_neutral (hI : IdsInv m) (hn : msg.isNeutral = true)
    (h : execute m env s f msg = .ok (m', out)) : out = [] ∧ EntEq m m' := by
  unfold execute at h
  obtain ⟨_, h⟩ := ite_err_ok h
  cases msg with
  | feeCycle => exact ⟨(cycleFee_ent (V := natV 0) h).1, .of_val fun V => (cycleFee_ent h).2⟩
  | changeAsk id ask => exact ⟨(changeAsk_ent (V := natV 0) hI h).1, .of_val fun V => (changeAsk_ent hI h).2⟩
  | finalize id secs => exact ⟨(finalize_ent (V := natV 0) hI h).1, .of_val fun V => (finalize_ent hI h).2⟩
  | _ => cases hn

/-- non-vacuity: the owner (account 7) of the preparing listing 5 of the sample market of Props/C12.lean
    re-prices it -/
example : IdsInv C12Ex.mkt ∧ ExecMsg.isNeutral (.changeAsk 5 ⟨[⟨2, 1⟩], [], []⟩) = true ∧
    ∃ r, execute C12Ex.mkt C12Ex.env 7 [] (.changeAsk 5 ⟨[⟨2, 1⟩], [], []⟩) = .ok r := by
  refine ⟨by constructor <;> decide, rfl, _, rfl⟩

/-- **neutral transactions** (chain level): a transaction that is no marketplace call, or carries a
    neutral message, or FAILS (any operation whatsoever), leaves every entitlement and the pending
    fees unchanged -/
theorem Ent_neutral_step {w : World} (hI : IdsInv w.mkt) (op : Op)
    (hn : op.isNeutral = true ∨ (step w op).2.ok = false) : EntEq w.mkt (step w op).1.mkt := by
  unfold step at hn ⊢
  cases ho : op.asExec with
  | none => rw [stepF_mkt_of_asExec_none ho]; exact .refl _
  | some tr =>
    obtain ⟨c, fu, mg⟩ := tr
    rcases stepF_ok_cases (fail := noFault) (w := w) ho with ⟨_, he⟩ | ⟨hok, msgs, hx, _, _⟩
    · rw [he]; exact .refl _
    · rcases hn with hn | hn
      · simp only [Op.isNeutral, ho] at hn
        exact (Ent_neutral hI hn hx).2
      · rw [hok] at hn; cases hn

/-- **neutral transactions from deployment**: the invariant is discharged by `closed_ids` -/
theorem Ent_neutral_reach {w0 : World} {t : Nat} {r : Option Nat} (h0 : w0.mkt = instantiate t r)
    (ops : List Op) (op : Op)
    (hn : op.isNeutral = true ∨ (step (run w0 ops) op).2.ok = false) :
    EntEq (run w0 ops).mkt (step (run w0 ops) op).1.mkt :=
  Ent_neutral_step (closed_ids h0 ops) op hn

/-- non-vacuity: after the first three operations of the sample history the finalization is a neutral
    operation and is accepted; a registry update is neutral; a second finalization fails -/
example : AcctEx.w0.mkt = instantiate 0 (some 102) ∧
    Op.isNeutral (.exec 1 [] (.finalize 3 600)) = true ∧
    (step (run AcctEx.w0 (AcctEx.ops.take 3)) (.exec 1 [] (.finalize 3 600))).2.ok = true ∧
    Op.isNeutral (.royalty 4 (.update (.valid 60) (some (.valid 6)) none)) = true ∧
    (step (run AcctEx.w0 (AcctEx.ops.take 4)) (.exec 1 [] (.finalize 3 600))).2.ok = false :=
  ⟨rfl, by decide⟩

/-! ## 4. `Ent_deposit` -/

/-- the assets a marketplace call brings in: the attached coins of a direct deposit message, the
    calling token contract's own token for a `Receive` hook, the calling collection's NFT for a
    `ReceiveNft` hook -/
def msgAssets (caller : Nat) (funds : List Coin) : ExecMsg → GBal
  | .receive _ amount _ => ⟨[], [⟨caller, amount⟩], []⟩
  | .receiveNft _ tid _ => ⟨[], [], [⟨caller, tid⟩]⟩
  | _ => ⟨funds, [], []⟩

theorem inMsg_msgAssets {V : Val} (hV : V.Ok) (hk : msg.takesCoins = true) :
    V.inMsg s f msg = V.bal (msgAssets s f msg) := by
  cases msg with
  | receive sd a i => exact (hV.fromBal (.cw20 ⟨s, a⟩)).symm
  | receiveNft sd tid i => exact (hV.fromNft ⟨s, tid⟩).symm
  | createListing id c => exact (hV.fromBal (.native f)).symm
  | addToListing id => exact (hV.fromBal (.native f)).symm
  | createBucket id => exact (hV.fromBal (.native f)).symm
  | addToBucket id => exact (hV.fromBal (.native f)).symm
  | _ => cases hk

/-- **deposits** (handler level): an accepted deposit message — create / add to a listing or bucket,
    with attached coins, through a CW20 `Receive` hook or a CW721 `ReceiveNft` hook — emits no message,
    raises the entitlement of the account it acts for (`actor`: the sender of a direct message, the
    wallet the hook names) by exactly the assets it carries, and changes nobody else's entitlement and
    no pending fee -/
theorem Ent_deposit (hI : IdsInv m) (hk : msg.takesCoins = true)
    (h : execute m env s f msg = .ok (m', out)) :
    out = [] ∧ EntGain m m' (actor msg s) (msgAssets s f msg) :=
  ⟨(execute_dep_ent (natV_ok 0) hI hk h).1, .of_val fun V hV => by
    rw [← inMsg_msgAssets hV hk]; exact (execute_dep_ent hV hI hk h).2⟩

/-- non-vacuity: the sample deposits of Props/C01.lean (coins, CW20 hook, NFT hook) -/
example : IdsInv AcctEx.mkt ∧
    (∃ r, execute AcctEx.mkt AcctEx.env0 5 [⟨1, 30⟩, ⟨2, 1⟩] (.createBucket 9) = .ok r) ∧
    (∃ r, execute AcctEx.mkt AcctEx.env0 50 [] (.receive (.valid 5) 77 (some (.createBucket 9))) = .ok r) ∧
    (∃ r, execute AcctEx.mkt AcctEx.env0 60 [] (.receiveNft (.valid 2) 11 (some (.addToBucket 8))) = .ok r) :=
  ⟨AcctEx.ids, ⟨_, rfl⟩, ⟨_, rfl⟩, ⟨_, rfl⟩⟩

/-- a deposit operation: a marketplace call whose message may carry assets -/
def Op.isDeposit (op : Op) : Bool :=
  match op.asExec with
  | none => false
  | some (_, _, msg) => msg.takesCoins

/-- the assets a deposit operation carries: the attached coins, the amount of a CW20 `Send`, the NFT
    of a `SendNft` -/
def Op.carried (op : Op) : GBal :=
  match op.asExec with
  | none => GBal.empty
  | some (c, fu, msg) => msgAssets c fu msg

example (i : Option Inner) : (Op.send20 50 2 400 i).carried = ⟨[], [⟨50, 400⟩], []⟩ ∧
    (Op.send721 60 2 7 i).carried = ⟨[], [], [⟨60, 7⟩]⟩ ∧
    (Op.exec 2 [⟨1, 5⟩] (.createBucket 8)).carried = ⟨[⟨1, 5⟩], [], []⟩ := ⟨rfl, rfl, rfl⟩

theorem actor_unforged {op : Op} {c : Nat} {fu : List Coin} {mg : ExecMsg}
    (ho : op.asExec = some (c, fu, mg)) (hu : op.unforged) : actor mg c = op.sender := by
  cases op with
  | exec sd fd me =>
    simp only [Op.asExec, Option.some.injEq, Prod.mk.injEq] at ho
    obtain ⟨rfl, rfl, rfl⟩ := ho
    cases me <;> first | rfl | exact hu.elim
  | send20 tk sd a i =>
    simp only [Op.asExec, Option.some.injEq, Prod.mk.injEq] at ho
    obtain ⟨rfl, rfl, rfl⟩ := ho; rfl
  | send721 co sd tid i =>
    simp only [Op.asExec, Option.some.injEq, Prod.mk.injEq] at ho
    obtain ⟨rfl, rfl, rfl⟩ := ho; rfl
  | royalty sd me => simp [Op.asExec] at ho
  | setAdmin sd co n => simp [Op.asExec] at ho
  | advance a b => simp [Op.asExec] at ho

/-- **deposits** (chain level): a successful, un-forged deposit transaction signed by `x` — direct
    message with coins, CW20 `Send`, CW721 `SendNft` — raises `x`'s entitlement by exactly the assets
    the operation carries and changes nobody else's entitlement and no pending fee -/
theorem Ent_deposit_step {w : World} (hI : IdsInv w.mkt) {op : Op} (hd : op.isDeposit = true)
    (hu : op.unforged) (hok : (step w op).2.ok = true) :
    (step w op).2.msgs = [] ∧ EntGain w.mkt (step w op).1.mkt op.sender op.carried := by
  unfold step at hok ⊢
  cases ho : op.asExec with
  | none => simp [Op.isDeposit, ho] at hd
  | some tr =>
    obtain ⟨c, fu, mg⟩ := tr
    simp only [Op.isDeposit, ho] at hd
    rcases stepF_ok_cases (fail := noFault) (w := w) ho with ⟨hf, _⟩ | ⟨_, msgs, hx, _, hm⟩
    · rw [hf] at hok; cases hok
    · obtain ⟨h1, h2⟩ := Ent_deposit hI hd hx
      rw [actor_unforged ho hu] at h2
      refine ⟨by rw [hm, h1], ?_⟩
      simpa only [Op.carried, ho] using h2

/-- **deposits from deployment** -/
theorem Ent_deposit_reach {w0 : World} {t : Nat} {r : Option Nat} (h0 : w0.mkt = instantiate t r)
    (ops : List Op) {op : Op} (hd : op.isDeposit = true) (hu : op.unforged)
    (hok : (step (run w0 ops) op).2.ok = true) :
    (step (run w0 ops) op).2.msgs = [] ∧
    EntGain (run w0 ops).mkt (step (run w0 ops) op).1.mkt op.sender op.carried :=
  Ent_deposit_step (closed_ids h0 ops) hd hu hok

/-- non-vacuity: the three deposit paths of the sample history (coins, CW20 `Send`, `SendNft`) are
    un-forged deposit operations and are accepted in the states in which they occur -/
example : AcctEx.w0.mkt = instantiate 0 (some 102) ∧
    (∀ k ∈ [0, 1, 2, 4], (AcctEx.ops[k]!).isDeposit = true ∧ (AcctEx.ops[k]!).unforged ∧
      (step (run AcctEx.w0 (AcctEx.ops.take k)) AcctEx.ops[k]!).2.ok = true) :=
  ⟨rfl, by decide⟩

/-! ## 5. `Ent_withdraw` -/

/-- the three cash-out messages -/
def ExecMsg.isWithdraw : ExecMsg → Bool
  | .removeBucket .. | .deleteListing .. | .withdrawPurchased .. => true
  | _ => false

/-- the record a cash-out message of `x` is about, its goods `g` and its pending fee `fee`: a bucket
    owned by `x`; an unsold listing of `x` (which never carries a fee); a listing `x` bought -/
def WdRecord (m : Market) (x : Nat) : ExecMsg → GBal → Option Coin → Prop
  | .removeBucket id, g, fee =>
    ∃ b, alookup (x, id) m.buckets = some b ∧ b.owner = x ∧ g = b.funds ∧ fee = b.fee
  | .deleteListing id, g, fee =>
    ∃ l, alookup (x, id) m.listings = some l ∧ l.creator = x ∧ l.claimant = none ∧
      g = l.forSale ∧ fee = l.fee ∧ fee = none
  | .withdrawPurchased id, g, fee =>
    ∃ l, alookup (x, id) m.listings = some l ∧ l.creator = x ∧ l.claimant = some x ∧
      l.status = .closed ∧ g = l.forSale ∧ fee = l.fee
  | _, _, _ => False

/-- what the message list "goods `g` to `x`, then `fee` to the pool" pays, per asset class -/
theorem Ent_withdraw_msgs (self x : Nat) (g : GBal) (fee : Option Coin) :
    withdrawMsgs self x g fee =
      sendTokens x g ++ (match fee with | none => [] | some c => [OutMsg.fundPool self c]) ∧
    (∀ d, paidNative (withdrawMsgs self x g fee) d = coinAmt g.native d + feeAmt fee d) ∧
    (∀ d, poolPaid (withdrawMsgs self x g fee) d = feeAmt fee d) ∧
    (∀ t, paidCw20 (withdrawMsgs self x g fee) t = coinAmt g.cw20 t) ∧
    sentNfts (withdrawMsgs self x g fee) = g.nfts :=
  ⟨rfl, paidNative_withdrawMsgs self x g fee, poolPaid_withdrawMsgs self x g fee,
   paidCw20_withdrawMsgs self x g fee, sentNfts_withdrawMsgs self x g fee⟩

/-- **withdrawals** (handler level): an accepted `removeBucket` / `deleteListing` /
    `withdrawPurchased` of `x` is about a record filed under `x` (`WdRecord`), emits exactly the
    messages "the record's goods to `x`, its pending fee to the pool" (`withdrawMsgs`, itemised by
    `Ent_withdraw_msgs`), lowers `x`'s entitlement by exactly those goods and the pending fees by
    exactly that fee, and changes nobody else's entitlement -/
theorem Ent_withdraw (hI : IdsInv m) (hW : WFInv j u m) (hw : msg.isWithdraw = true)
    (h : execute m env s f msg = .ok (m', out)) :
    ∃ g fee, WdRecord m s msg g fee ∧ out = withdrawMsgs env.self s g fee ∧ EntLoss m m' s g fee := by
  unfold execute at h
  obtain ⟨_, h⟩ := ite_err_ok h
  cases msg with
  | removeBucket id =>
    obtain ⟨b, hb, ho, rfl, hv⟩ := withdrawBucket_ent hI h
    exact ⟨b.funds, b.fee, ⟨b, hb, ho, rfl, rfl⟩, rfl, .of_val fun V _ => hv V⟩
  | deleteListing id =>
    obtain ⟨l, hl, ho, hc, hfee, rfl, hv⟩ := deleteListing_ent hI hW h
    exact ⟨l.forSale, l.fee, ⟨l, hl, ho, hc, rfl, rfl, hfee⟩, rfl, .of_val fun V hV => hv V hV.fee_none⟩
  | withdrawPurchased id =>
    obtain ⟨l, hl, ho, hc, hst, rfl, hv⟩ := withdrawPurchased_ent hI hW h
    exact ⟨l.forSale, l.fee, ⟨l, hl, ho, hc, hst, rfl, rfl⟩, rfl, .of_val fun V _ => hv V⟩
  | _ => cases hw

/-- non-vacuity: in the sample market of Props/C01.lean account 2 can remove its bucket 8 -/
example : IdsInv AcctEx.mkt ∧ WFInv 1 2 AcctEx.mkt ∧
    ∃ r, execute AcctEx.mkt AcctEx.env0 2 [] (.removeBucket 8) = .ok r :=
  ⟨AcctEx.ids, AcctEx.wf, _, rfl⟩

/-- **withdrawals** (chain level): a successful cash-out transaction of `x`; the transaction's
    messages are exactly the record's goods to `x` and its pending fee to the pool -/
theorem Ent_withdraw_step {w : World} (hI : IdsInv w.mkt) (hW : WFInv w.junoD w.usdcD w.mkt)
    {x : Nat} {fu : List Coin} {mg : ExecMsg} (hw : mg.isWithdraw = true)
    (hok : (step w (.exec x fu mg)).2.ok = true) :
    ∃ g fee, WdRecord w.mkt x mg g fee ∧
      (step w (.exec x fu mg)).2.msgs = withdrawMsgs w.self x g fee ∧
      EntLoss w.mkt (step w (.exec x fu mg)).1.mkt x g fee := by
  unfold step at hok ⊢
  rcases stepF_ok_cases (fail := noFault) (w := w) (op := .exec x fu mg) rfl with
    ⟨hf, _⟩ | ⟨_, msgs, hx, _, hm⟩
  · rw [hf] at hok; cases hok
  · obtain ⟨g, fee, h1, h2, h3⟩ := Ent_withdraw hI hW hw hx
    exact ⟨g, fee, h1, by rw [hm, h2]; rfl, h3⟩

/-- **withdrawals from deployment**: the invariants are discharged by `closed_ids` / `closed_wf` -/
theorem Ent_withdraw_reach {w0 : World} {t : Nat} {r : Option Nat} (h0 : w0.mkt = instantiate t r)
    (ops : List Op) {x : Nat} {fu : List Coin} {mg : ExecMsg} (hw : mg.isWithdraw = true)
    (hok : (step (run w0 ops) (.exec x fu mg)).2.ok = true) :
    ∃ g fee, WdRecord (run w0 ops).mkt x mg g fee ∧
      (step (run w0 ops) (.exec x fu mg)).2.msgs = withdrawMsgs (run w0 ops).self x g fee ∧
      EntLoss (run w0 ops).mkt (step (run w0 ops) (.exec x fu mg)).1.mkt x g fee :=
  Ent_withdraw_step (closed_ids h0 ops) (closed_wf h0 ops) hw hok

/-- non-vacuity: the two withdrawals of the sample history (the buyer withdraws the purchased goods
    with their pending fee, the seller removes the bucket holding the payment) are accepted -/
example : AcctEx.w0.mkt = instantiate 0 (some 102) ∧
    (step (run AcctEx.w0 (AcctEx.ops.take 8)) (.exec 2 [] (.withdrawPurchased 3))).2.ok = true ∧
    (step (run AcctEx.w0 (AcctEx.ops.take 9)) (.exec 1 [] (.removeBucket 8))).2.ok = true ∧
    (step (run AcctEx.w0 (AcctEx.ops.take 8)) (.exec 2 [] (.withdrawPurchased 3))).2.msgs =
      withdrawMsgs 100 2 ⟨[⟨1, 995⟩], [⟨50, 400⟩], [⟨60, 7⟩]⟩ (some ⟨1, 5⟩) :=
  ⟨rfl, by decide⟩

end handler

/-! ## 6. `Ent_backed`: C01 through the abstraction -/

/-- Σ over the accounts that have a record -/
def totalNative (m : Market) (d : Nat) : Nat := ((owners m).map (fun a => entNative m a d)).sum
def totalCw20 (m : Market) (t : Nat) : Nat := ((owners m).map (fun a => entCw20 m a t)).sum
def allEntNfts (m : Market) : List Nft := (owners m).flatMap (entNfts m)

theorem owners_nodup (m : Market) : (owners m).Nodup := nodup_eraseDups _

theorem mem_owners_listing {m : Market} {p : (Nat × Nat) × Listing} (h : p ∈ m.listings) :
    p.2.creator ∈ owners m := by
  unfold owners
  rw [List.mem_eraseDups, List.mem_append]
  exact .inl (List.mem_map.2 ⟨p, h, rfl⟩)

theorem mem_owners_bucket {m : Market} {p : (Nat × Nat) × Bucket} (h : p ∈ m.buckets) :
    p.2.owner ∈ owners m := by
  unfold owners
  rw [List.mem_eraseDups, List.mem_append]
  exact .inr (List.mem_map.2 ⟨p, h, rfl⟩)

theorem sum_map_congr_nat {L : List Nat} {f g : Nat → Nat} (h : ∀ a, f a = g a) :
    (L.map f).sum = (L.map g).sum := by
  rw [show f = g from funext h]

/-- the obligations of C01 (`owedNative`, `owedCw20`, `recordedNfts`: everything the records promise)
    are the sum over accounts of their entitlements, plus the pending fees — on EVERY state, no
    invariant needed -/
theorem Ent_owed (m : Market) :
    (∀ d, owedNative m d = totalNative m d + pendingFees m d) ∧
    (∀ t, owedCw20 m t = totalCw20 m t) ∧
    (recordedNfts m).Perm (allEntNfts m) := by
  have key := fun V : Val => owed_eq_ent V m (owners_nodup m) (fun _ h => mem_owners_listing h)
    (fun _ h => mem_owners_bucket h)
  refine ⟨fun d => ?_, fun t => ?_, List.perm_iff_count.2 fun n => ?_⟩
  · rw [← owed_natV]; exact key (natV d)
  · have := key (cwV t)
    rw [pendV_cwV, Nat.add_zero, owed_cwV] at this
    exact this
  · have := key (nftV n)
    rw [pendV_nftV, Nat.add_zero, owed_nftV] at this
    rw [this]
    unfold allEntNfts
    rw [List.count_flatMap]
    exact sum_map_congr_nat fun a => (count_entNfts m a n).symm

/-- `Backed w` (C01: holdings = obligations) says exactly: for every denomination the marketplace's
    bank balance is Σ over accounts of their native entitlements + the pending fees; for every honest
    CW20 token its token balance is Σ over accounts of their entitlements; and the honest NFTs it owns
    are exactly the NFTs held for some account, each held once -/
theorem Ent_backed_iff (w : World) :
    Backed w ↔
      (∀ d, lget w.bank (w.self, d) = totalNative w.mkt d + pendingFees w.mkt d) ∧
      (∀ t, w.isHonest20 t = true → lget w.cw20 (t, w.self) = totalCw20 w.mkt t) ∧
      ((allEntNfts w.mkt).filter (fun n => w.isHonest721 n.coll)).Nodup ∧
      (∀ n : Nft, w.isHonest721 n.coll = true →
        ((∃ a ∈ owners w.mkt, n ∈ entNfts w.mkt a) ↔ alookup (n.coll, n.tid) w.nft = some w.self)) := by
  obtain ⟨e1, e2, e3⟩ := Ent_owed w.mkt
  have hmem : ∀ n, (∃ a ∈ owners w.mkt, n ∈ entNfts w.mkt a) ↔ n ∈ recordedNfts w.mkt := by
    intro n
    rw [e3.mem_iff]
    unfold allEntNfts
    rw [List.mem_flatMap]
  have hnd := (e3.filter (fun n => w.isHonest721 n.coll)).nodup_iff
  constructor
  · rintro ⟨h1, h2, h3, h4⟩
    exact ⟨fun d => by rw [h1 d, e1], fun t ht => by rw [h2 t ht, e2], hnd.1 h3,
      fun n hn => (hmem n).trans (h4 n hn)⟩
  · rintro ⟨h1, h2, h3, h4⟩
    exact ⟨fun d => by rw [h1 d, e1], fun t ht => by rw [h2 t ht, e2], hnd.2 h3,
      fun n hn => (hmem n).symm.trans (h4 n hn)⟩

/-- **C01 through the abstraction, for every history from a deployment**: after any list of
    operations not signed by the marketplace in which no honest token forges a hook call, the
    marketplace's holdings are the sum over accounts of their entitlements plus the pending fees -/
theorem Ent_backed {w0 : World} (hd : Deployed w0) (ops : List Op)
    (hops : ∀ op ∈ ops, op.avoids w0.self ∧ op.honest w0) :
    (∀ d, lget (run w0 ops).bank ((run w0 ops).self, d) =
      totalNative (run w0 ops).mkt d + pendingFees (run w0 ops).mkt d) ∧
    (∀ t, (run w0 ops).isHonest20 t = true →
      lget (run w0 ops).cw20 (t, (run w0 ops).self) = totalCw20 (run w0 ops).mkt t) ∧
    ((allEntNfts (run w0 ops).mkt).filter (fun n => (run w0 ops).isHonest721 n.coll)).Nodup ∧
    (∀ n : Nft, (run w0 ops).isHonest721 n.coll = true →
      ((∃ a ∈ owners (run w0 ops).mkt, n ∈ entNfts (run w0 ops).mkt a) ↔
        alookup (n.coll, n.tid) (run w0 ops).nft = some (run w0 ops).self)) :=
  (Ent_backed_iff _).1 (C01_from_deployment hd ops hops)

/-- non-vacuity: the history of Props/Summary.lean from the concrete deployment; before its last
    operation account 1 is entitled to the goods it bought from itself (10 − fee 0 of denom 0) and to
    the payment (10 of denom 2) -/
example : Deployed deployedEx ∧
    (∀ op ∈ SummaryEx.ops, op.avoids deployedEx.self ∧ op.honest deployedEx) ∧
    owners (run deployedEx (SummaryEx.ops.take 6)).mkt = [1] ∧
    entNative (run deployedEx (SummaryEx.ops.take 6)).mkt 1 0 = 10 ∧
    entNative (run deployedEx (SummaryEx.ops.take 6)).mkt 1 2 = 10 :=
  ⟨C02WEx.deployedEx_ok, by decide, by decide, by decide, by decide⟩

/-- … and in the richer sample history of Props/C01.lean, right after the purchase: the buyer (2) is
    entitled to the goods minus the fee (995 of denom 1, 400 of token 50, the NFT), the seller (1) to
    the payment minus the royalty (1950 of denom 2), and 5 of denom 1 are pending for the pool -/
example : owners (run AcctEx.w0 (AcctEx.ops.take 7)).mkt = [2, 1] ∧
    entNative (run AcctEx.w0 (AcctEx.ops.take 7)).mkt 2 1 = 995 ∧
    entCw20 (run AcctEx.w0 (AcctEx.ops.take 7)).mkt 2 50 = 400 ∧
    entNfts (run AcctEx.w0 (AcctEx.ops.take 7)).mkt 2 = [⟨60, 7⟩] ∧
    entNative (run AcctEx.w0 (AcctEx.ops.take 7)).mkt 1 2 = 1950 ∧
    pendingFees (run AcctEx.w0 (AcctEx.ops.take 7)).mkt 1 = 5 ∧
    totalNative (run AcctEx.w0 (AcctEx.ops.take 7)).mkt 1 = 995 := by decide

/-! ## 7. `Ent_buy` -/

/-- the abstract sale: the seller's entitlement loses the goods and gains the (reduced) payment
    `pay'`; the buyer's loses the payment `pay` and gains the (reduced) goods `goods'`; third parties
    are unchanged; of the pending fees the paying bucket's old fee `oldFee` leaves (it is paid out by
    the purchase) and the two new fees `lfee`, `bfee` enter -/
structure EntTrade (m m' : Market) (seller buyer : Nat) (goods pay goods' pay' : GBal)
    (oldFee lfee bfee : Option Coin) : Prop where
  native : ∀ a d, entNative m' a d + (if a = seller then coinAmt goods.native d else 0) +
      (if a = buyer then coinAmt pay.native d else 0) =
    entNative m a d + (if a = buyer then coinAmt goods'.native d else 0) +
      (if a = seller then coinAmt pay'.native d else 0)
  cw20 : ∀ a t, entCw20 m' a t + (if a = seller then coinAmt goods.cw20 t else 0) +
      (if a = buyer then coinAmt pay.cw20 t else 0) =
    entCw20 m a t + (if a = buyer then coinAmt goods'.cw20 t else 0) +
      (if a = seller then coinAmt pay'.cw20 t else 0)
  nfts : ∀ a, (entNfts m' a ++ (if a = seller then goods.nfts else []) ++
      (if a = buyer then pay.nfts else [])).Perm
    (entNfts m a ++ (if a = buyer then goods'.nfts else []) ++ (if a = seller then pay'.nfts else []))
  fees : ∀ d, pendingFees m' d + feeAmt oldFee d = pendingFees m d + feeAmt lfee d + feeAmt bfee d

/-- **the purchase** (handler level): an accepted `buy` of listing `lid` with bucket `bid` takes the
    finalized listing `l` (goods `l.forSale`, seller `l.creator`) and the buyer's bucket `b`, re-files
    the goods under the buyer as `l'` and the payment under the seller as `b'`, and
    * what the buyer gets + the fee recorded on the goods + the royalties `roy2` paid from the goods
      = the goods, per denomination and token; the NFTs are all passed on; likewise for the payment
      with `roy1` — so each party gains "the other side − fee − royalties";
    * entitlements move as `EntTrade`: third parties unchanged, pending fees grow by exactly the two
      new fees (and lose the old fee of the paying bucket, which is the first emitted message);
    * the emitted messages are that old fee, then `roy1`, then `roy2`.
    The closed forms of the fees (`feeOf`) and royalties (`royaltyOn`) are `C06_buy_effect`; see
    `Ent_buy_reach`. -/
theorem Ent_buy {m m' : Market} {env : Env} {out : List OutMsg} {j u buyer lid bid : Nat}
    (hI : IdsInv m) (hW : WFInv j u m) (h : buy m env buyer lid bid = .ok (m', out)) :
    ∃ l b l' b' roy1 roy2,
      alookup (l.creator, lid) m.listings = some l ∧ alookup (buyer, bid) m.buckets = some b ∧
      b.owner = buyer ∧ l.status = .finalized ∧
      alookup (buyer, lid) m'.listings = some l' ∧ alookup (l.creator, bid) m'.buckets = some b' ∧
      l'.creator = buyer ∧ l'.claimant = some buyer ∧ l'.status = .closed ∧ b'.owner = l.creator ∧
      out = feeMsg env.self b.fee ++ roy1 ++ roy2 ∧
      (∀ d, coinAmt l'.forSale.native d + feeAmt l'.fee d + paidNative roy2 d =
        coinAmt l.forSale.native d) ∧
      (∀ t, coinAmt l'.forSale.cw20 t + paidCw20 roy2 t = coinAmt l.forSale.cw20 t) ∧
      l'.forSale.nfts = l.forSale.nfts ∧
      (∀ d, coinAmt b'.funds.native d + feeAmt b'.fee d + paidNative roy1 d =
        coinAmt b.funds.native d) ∧
      (∀ t, coinAmt b'.funds.cw20 t + paidCw20 roy1 t = coinAmt b.funds.cw20 t) ∧
      b'.funds.nfts = b.funds.nfts ∧
      EntTrade m m' l.creator buyer l.forSale b.funds l'.forSale b'.funds b.fee l'.fee b'.fee := by
  obtain ⟨l, b, fl, fb, lfee, bfee, msgs1, msgs2, hl, hb, hbo, hst, _, n1, n2, hl', hb', hout, hv⟩ :=
    buy_ent hI hW h
  refine ⟨l, b, _, _, msgs1, msgs2, hl, hb, hbo, hst, hl', hb', rfl, rfl, rfl, rfl, hout,
    fun d => (hv (natV d) (natV_ok d)).1, fun t => (hv (cwV t) (cwV_ok t)).1, n1,
    fun d => (hv (natV d) (natV_ok d)).2.1, fun t => (hv (cwV t) (cwV_ok t)).2.1, n2, ?_⟩
  exact {
    native := fun a d => (hv (natV d) (natV_ok d)).2.2.1 a
    cw20 := fun a t => (hv (cwV t) (cwV_ok t)).2.2.1 a
    nfts := fun a => List.perm_iff_count.2 fun n => by
      simp only [List.count_append, count_entNfts, count_ite_nil]
      exact (hv (nftV n) (nftV_ok n)).2.2.1 a
    fees := fun d => (hv (natV d) (natV_ok d)).2.2.2 }

/-- non-vacuity: the sample purchase of Props/C01.lean -/
example : IdsInv AcctEx.mkt ∧ WFInv 1 2 AcctEx.mkt ∧ ∃ r, buy AcctEx.mkt AcctEx.env0 2 3 8 = .ok r :=
  ⟨AcctEx.ids, AcctEx.wf, _, rfl⟩

/-- a `buy` transaction runs the `buy` handler -/
theorem ent_step_buy_ok {w : World} {buyer lid bid : Nat} {fu : List Coin}
    (hok : (step w (.exec buyer fu (.buy lid bid))).2.ok = true) :
    ∃ out, buy w.mkt w.env buyer lid bid = .ok ((step w (.exec buyer fu (.buy lid bid))).1.mkt, out) ∧
      (step w (.exec buyer fu (.buy lid bid))).2.msgs = out := by
  unfold step at hok ⊢
  rcases stepF_ok_cases (fail := noFault) (w := w) (op := .exec buyer fu (.buy lid bid)) rfl with
    ⟨hf, _⟩ | ⟨_, msgs, hx, _, hm⟩
  · rw [hf] at hok; cases hok
  · unfold execute at hx
    obtain ⟨_, hx⟩ := ite_err_ok hx
    exact ⟨msgs, hx, hm⟩

/-- **the purchase** (chain level, from deployment): a successful `buy` transaction in any reachable
    state moves entitlements as `EntTrade` between the traded records `l`, `b` and the re-filed ones
    `l'`, `b'`; the transaction's messages are the paying bucket's old fee and the royalties.  The
    invariants are discharged by `closed_ids` / `closed_wf`. -/
theorem Ent_buy_reach {w0 : World} {t : Nat} {r : Option Nat} (h0 : w0.mkt = instantiate t r)
    (ops : List Op) {buyer lid bid : Nat} {fu : List Coin}
    (hok : (step (run w0 ops) (.exec buyer fu (.buy lid bid))).2.ok = true) :
    ∃ l b l' b' roy1 roy2,
      alookup (l.creator, lid) (run w0 ops).mkt.listings = some l ∧
      alookup (buyer, bid) (run w0 ops).mkt.buckets = some b ∧
      alookup (buyer, lid) (step (run w0 ops) (.exec buyer fu (.buy lid bid))).1.mkt.listings = some l' ∧
      alookup (l.creator, bid) (step (run w0 ops) (.exec buyer fu (.buy lid bid))).1.mkt.buckets
        = some b' ∧
      (step (run w0 ops) (.exec buyer fu (.buy lid bid))).2.msgs =
        feeMsg (run w0 ops).self b.fee ++ roy1 ++ roy2 ∧
      (∀ d, coinAmt l'.forSale.native d + feeAmt l'.fee d + paidNative roy2 d =
        coinAmt l.forSale.native d) ∧
      (∀ t, coinAmt l'.forSale.cw20 t + paidCw20 roy2 t = coinAmt l.forSale.cw20 t) ∧
      l'.forSale.nfts = l.forSale.nfts ∧
      (∀ d, coinAmt b'.funds.native d + feeAmt b'.fee d + paidNative roy1 d =
        coinAmt b.funds.native d) ∧
      (∀ t, coinAmt b'.funds.cw20 t + paidCw20 roy1 t = coinAmt b.funds.cw20 t) ∧
      b'.funds.nfts = b.funds.nfts ∧
      EntTrade (run w0 ops).mkt (step (run w0 ops) (.exec buyer fu (.buy lid bid))).1.mkt
        l.creator buyer l.forSale b.funds l'.forSale b'.funds b.fee l'.fee b'.fee := by
  obtain ⟨out, hb, hm⟩ := ent_step_buy_ok hok
  obtain ⟨l, b, l', b', roy1, roy2, h1, h2, _, _, h3, h4, _, _, _, _, h5, h6, h7, h8, h9, h10, h11, h12⟩ :=
    Ent_buy (closed_ids h0 ops) (closed_wf h0 ops) hb
  exact ⟨l, b, l', b', roy1, roy2, h1, h2, h3, h4, by rw [hm, h5]; rfl, h6, h7, h8, h9, h10, h11, h12⟩

/-- non-vacuity: the purchase of the sample history is accepted in the state in which it occurs -/
example : AcctEx.w0.mkt = instantiate 0 (some 102) ∧
    (step (run AcctEx.w0 (AcctEx.ops.take 6)) (.exec 2 [] (.buy 3 8))).2.ok = true := ⟨rfl, by decide⟩

/-- two listings stored under the same id are the same record -/
theorem listing_unique {m : Market} (hI : IdsInv m) {lid : Nat} {l1 l2 : Listing}
    (h1 : alookup (l1.creator, lid) m.listings = some l1)
    (h2 : alookup (l2.creator, lid) m.listings = some l2) : l1 = l2 := by
  have m1 := alookup_some_mem h1
  have m2 := alookup_some_mem h2
  have i1 := hI.lfiled _ m1
  have i2 := hI.lfiled _ m2
  simp only [Prod.mk.injEq, true_and] at i1 i2
  have hk := hI.lidInj _ m1 _ m2 (by show l1.id = l2.id; rw [← i1, ← i2])
  simp only [Prod.mk.injEq, and_true] at hk
  rw [← hk, h1] at h2
  exact Option.some.inj h2

/-- **the purchase in closed form** (from deployment; the operations of the history carry `Uint128`
    amounts, `Op.fits128`): with `fd` the fee denomination in force, `feeOf` the 0.5 % fee,
    `afterFeeAmt` the amount after the fee and `royaltyOn … x` the royalty total on `x` (the
    declarative trade cost of C06, Lemmas/TradeLemmas.lean),
    * the seller's entitlement loses the goods and gains payment − fee − royalties of the seller's
      collections; the buyer's loses the payment and gains goods − fee − royalties of the buyer's
      collections; CW20 amounts carry no fee; third parties are unchanged;
    * the pending fees lose the paying bucket's old fee and gain exactly the two new fees. -/
theorem Ent_buy_closed_reach {w0 : World} {t : Nat} {r : Option Nat} (h0 : w0.mkt = instantiate t r)
    (ops : List Op) (hfit : ∀ op ∈ ops, op.fits128) {buyer lid bid fd : Nat} {fu : List Coin}
    (hfd : fd = feeDenomOf (run w0 ops).env (run w0 ops).mkt.feeKind)
    (hok : (step (run w0 ops) (.exec buyer fu (.buy lid bid))).2.ok = true) :
    ∃ l b,
      alookup (l.creator, lid) (run w0 ops).mkt.listings = some l ∧
      alookup (buyer, bid) (run w0 ops).mkt.buckets = some b ∧
      (∀ a d, entNative (step (run w0 ops) (.exec buyer fu (.buy lid bid))).1.mkt a d +
          (if a = l.creator then coinAmt l.forSale.native d else 0) +
          (if a = buyer then coinAmt b.funds.native d else 0) =
        entNative (run w0 ops).mkt a d +
          (if a = buyer then afterFeeAmt fd l.forSale d -
            royaltyOn (sideEntries (run w0 ops).env b.funds) (afterFeeAmt fd l.forSale d) else 0) +
          (if a = l.creator then afterFeeAmt fd b.funds d -
            royaltyOn (sideEntries (run w0 ops).env l.forSale) (afterFeeAmt fd b.funds d) else 0)) ∧
      (∀ a k, entCw20 (step (run w0 ops) (.exec buyer fu (.buy lid bid))).1.mkt a k +
          (if a = l.creator then coinAmt l.forSale.cw20 k else 0) +
          (if a = buyer then coinAmt b.funds.cw20 k else 0) =
        entCw20 (run w0 ops).mkt a k +
          (if a = buyer then coinAmt l.forSale.cw20 k -
            royaltyOn (sideEntries (run w0 ops).env b.funds) (coinAmt l.forSale.cw20 k) else 0) +
          (if a = l.creator then coinAmt b.funds.cw20 k -
            royaltyOn (sideEntries (run w0 ops).env l.forSale) (coinAmt b.funds.cw20 k) else 0)) ∧
      (∀ a, (entNfts (step (run w0 ops) (.exec buyer fu (.buy lid bid))).1.mkt a ++
          (if a = l.creator then l.forSale.nfts else []) ++ (if a = buyer then b.funds.nfts else [])).Perm
        (entNfts (run w0 ops).mkt a ++ (if a = buyer then l.forSale.nfts else []) ++
          (if a = l.creator then b.funds.nfts else []))) ∧
      (∀ d, pendingFees (step (run w0 ops) (.exec buyer fu (.buy lid bid))).1.mkt d + feeAmt b.fee d =
        pendingFees (run w0 ops).mkt d + feeAmt (feeOf fd l.forSale) d + feeAmt (feeOf fd b.funds) d) := by
  obtain ⟨out, hb, _⟩ := ent_step_buy_ok hok
  have hI := closed_ids h0 ops
  obtain ⟨l, b, l', b', _, _, h1, h2, _, _, h3, h4, _, _, _, _, _, _, _, n1, _, _, n2, hT⟩ :=
    Ent_buy hI (closed_wf h0 ops) hb
  obtain ⟨l2, b2, l2', b2', g1, g2, g3, g4, fb, fl, cb, cbc, cl, clc, _⟩ :=
    C06_buy_effect_reach h0 ops hfit hfd hb
  have el : l2 = l := listing_unique hI g1 h1
  subst el
  have eb : b2 = b := Option.some.inj (g2.symm.trans h2)
  subst eb
  have el' : l2' = l' := Option.some.inj (g3.symm.trans h3)
  subst el'
  have eb' : b2' = b' := Option.some.inj (g4.symm.trans h4)
  subst eb'
  refine ⟨l2, b2, h1, h2, fun a d => ?_, fun a k => ?_, fun a => ?_, fun d => ?_⟩
  · rw [← cl d, ← cb d]; exact hT.native a d
  · rw [← clc k, ← cbc k]; exact hT.cw20 a k
  · have := hT.nfts a
    rw [n1, n2] at this
    exact this
  · rw [← fl, ← fb]; exact hT.fees d

/-- non-vacuity: the history before the sample purchase carries 128-bit amounts -/
example : AcctEx.w0.mkt = instantiate 0 (some 102) ∧ (∀ op ∈ AcctEx.ops.take 6, op.fits128) ∧
    1 = feeDenomOf (run AcctEx.w0 (AcctEx.ops.take 6)).env (run AcctEx.w0 (AcctEx.ops.take 6)).mkt.feeKind ∧
    (step (run AcctEx.w0 (AcctEx.ops.take 6)) (.exec 2 [] (.buy 3 8))).2.ok = true :=
  ⟨rfl, by decide, by decide, by decide⟩

/-! ## 8. the refinement, in one statement -/

/-- one abstract step -/
inductive EntStep (m m' : Market) : Prop
  | stutter (h : EntEq m m')
  | gain (x : Nat) (X : GBal) (h : EntGain m m' x X)
  | loss (x : Nat) (g : GBal) (fee : Option Coin) (h : EntLoss m m' x g fee)
  | trade (seller buyer : Nat) (goods pay goods' pay' : GBal) (oldFee lfee bfee : Option Coin)
      (h : EntTrade m m' seller buyer goods pay goods' pay' oldFee lfee bfee)

/-- every message is of one of the four classes -/
theorem ExecMsg.classes (msg : ExecMsg) :
    msg.isNeutral = true ∨ msg.takesCoins = true ∨ msg.isWithdraw = true ∨ ∃ lid bid, msg = .buy lid bid := by
  cases msg <;> simp [ExecMsg.isNeutral, ExecMsg.takesCoins, ExecMsg.isWithdraw]

/-- **refinement**: every transaction — any operation, accepted or not, forged hook calls included —
    from any state reached from an instantiated marketplace is one abstract step: nothing, a gain of
    one account, a loss of one account, or a sale -/
theorem Ent_refinement_reach {w0 : World} {t : Nat} {r : Option Nat} (h0 : w0.mkt = instantiate t r)
    (ops : List Op) (op : Op) : EntStep (run w0 ops).mkt (step (run w0 ops) op).1.mkt := by
  have hI := closed_ids h0 ops
  have hW := closed_wf h0 ops
  cases ho : op.asExec with
  | none => exact .stutter (Ent_neutral_step hI op (.inl (by simp [Op.isNeutral, ho])))
  | some tr =>
    obtain ⟨c, fu, mg⟩ := tr
    rcases stepF_ok_cases (fail := noFault) (w := run w0 ops) ho with ⟨hf, _⟩ | ⟨_, msgs, hx, _, _⟩
    · exact .stutter (Ent_neutral_step hI op (.inr hf))
    · rcases mg.classes with hc | hc | hc | ⟨lid, bid, rfl⟩
      · exact .stutter (Ent_neutral hI hc hx).2
      · exact .gain _ _ (Ent_deposit hI hc hx).2
      · obtain ⟨g, fee, _, _, h⟩ := Ent_withdraw hI hW hc hx
        exact .loss _ g fee h
      · unfold execute at hx
        obtain ⟨_, hx⟩ := ite_err_ok hx
        obtain ⟨l, b, l', b', _, _, _, _, _, _, _, _, _, _, _, _, _, _, _, _, _, _, _, hT⟩ :=
          Ent_buy hI hW hx
        exact .trade _ _ _ _ _ _ _ _ _ hT

/-- non-vacuity: the sample history has accepted steps of all four kinds (see the examples above);
    its operations are all accepted -/
example : AcctEx.w0.mkt = instantiate 0 (some 102) ∧
    (AcctEx.ops.zipIdx.all fun p => (step (run AcctEx.w0 (AcctEx.ops.take p.2)) p.1).2.ok) = true :=
  ⟨rfl, by decide⟩

#print axioms Ent_party
#print axioms Ent_neutral
#print axioms Ent_neutral_step
#print axioms Ent_neutral_reach
#print axioms Ent_deposit
#print axioms Ent_deposit_step
#print axioms Ent_deposit_reach
#print axioms Ent_withdraw_msgs
#print axioms Ent_withdraw
#print axioms Ent_withdraw_step
#print axioms Ent_withdraw_reach
#print axioms Ent_owed
#print axioms Ent_backed_iff
#print axioms Ent_backed
#print axioms Ent_buy
#print axioms Ent_buy_reach
#print axioms Ent_buy_closed_reach
#print axioms Ent_refinement_reach

end Fuzion
