/-
  C11 — "Royalties never take more than half of any traded amount" (arithmetic half).

  The 50 % gate of `GenericBalance::royalties` (state.rs) and its consequence for every escrowed
  amount.  That every purchase passes through this gate on both sides is proved elsewhere.
  Helper lemmas are in `Fuzion/Lemmas/Arith.lean`.
-/
import Fuzion.Props.C17
namespace Fuzion

/-- "the royalty rates of one side sum to at most 50 %": a rate sum above 5000 bps never yields a
    royalty split (the call errs, or aborts if the `u64` sum overflows). -/
theorem C11_gate_balance {g : GBal} {rs : List (Option RoyaltyInfo)} (h : bpsSum rs > 5000) :
    ∀ g' ms s, royalties g rs ≠ .ok g' ms s := by
  intro g' ms s e
  have := (royalties_closed e).2.1
  omega

example : bpsSum exRoyOver > 5000 := by decide

/-- converse of the gate: a successful split reports a rate sum of at most 5000 bps -/
theorem C11_gate_ok {g g' : GBal} {rs : List (Option RoyaltyInfo)} {ms : List OutMsg} {s : Nat}
    (h : royalties g rs = .ok g' ms s) : s = bpsSum rs ∧ s ≤ 5000 := by
  have := royalties_closed h
  exact ⟨this.1, by omega⟩

example : royalties exBal exRoy = .ok exBalRoy exMsgs 310 := by rfl

/-- "exactly 50 % is allowed": a rate sum of exactly 5000 bps is accepted, for every balance
    (no bound on the amounts is needed). -/
theorem C11_gate_exact_half (g : GBal) {rs : List (Option RoyaltyInfo)} (h : bpsSum rs = 5000) :
    ∃ g' ms, royalties g rs = .ok g' ms 5000 := by
  have := royalties_total g (resp := rs) (by omega)
  rw [h] at this
  exact this

example : bpsSum exRoyHalf = 5000 := by decide
example : royalties exBalMax exRoyHalf = .ok exBalMaxRoy exMsgsMax 5000 := by rfl

/-- "royalties never take more than half of any traded amount", native coins, position by
    position: the i-th coin keeps its denomination, its amount does not grow, what was taken from
    it is at most half of it, and a non-zero amount stays non-zero.  Holds for any balance
    (bounded or not, duplicates or not). -/
theorem C11_half_native {g g' : GBal} {rs : List (Option RoyaltyInfo)} {ms : List OutMsg} {s : Nat}
    (h : royalties g rs = .ok g' ms s) :
    g'.native.length = g.native.length ∧
    ∀ i (h₁ : i < g.native.length) (h₂ : i < g'.native.length),
      g'.native[i].key = g.native[i].key ∧
      g'.native[i].amount ≤ g.native[i].amount ∧
      2 * (g.native[i].amount - g'.native[i].amount) ≤ g.native[i].amount ∧
      (1 ≤ g.native[i].amount → 1 ≤ g'.native[i].amount) := by
  obtain ⟨_, h5, hg, _, _, _⟩ := royalties_closed h
  subst hg
  refine ⟨by simp only [List.length_map], ?_⟩
  intro i h₁ h₂
  simp only [List.getElem_map]
  exact royRem_half h5 _

example : royalties exBal exRoy = .ok exBalRoy exMsgs 310 := by rfl

/-- "royalties never take more than half of any traded amount", CW20 amounts, position by
    position (same statement as `C11_half_native`). -/
theorem C11_half_cw20 {g g' : GBal} {rs : List (Option RoyaltyInfo)} {ms : List OutMsg} {s : Nat}
    (h : royalties g rs = .ok g' ms s) :
    g'.cw20.length = g.cw20.length ∧
    ∀ i (h₁ : i < g.cw20.length) (h₂ : i < g'.cw20.length),
      g'.cw20[i].key = g.cw20[i].key ∧
      g'.cw20[i].amount ≤ g.cw20[i].amount ∧
      2 * (g.cw20[i].amount - g'.cw20[i].amount) ≤ g.cw20[i].amount ∧
      (1 ≤ g.cw20[i].amount → 1 ≤ g'.cw20[i].amount) := by
  obtain ⟨_, h5, hg, _, _, _⟩ := royalties_closed h
  subst hg
  refine ⟨by simp only [List.length_map], ?_⟩
  intro i h₁ h₂
  simp only [List.getElem_map]
  exact royRem_half h5 _

example : royalties exBal exRoy = .ok exBalRoy exMsgs 310 := by rfl

/-- "royalties never take more than half of any traded amount", per asset: everything the payout
    messages send in one native denomination / one CW20 token is at most half of what the balance
    held in it. -/
theorem C11_half_total {g g' : GBal} {rs : List (Option RoyaltyInfo)} {ms : List OutMsg} {s : Nat}
    (h : royalties g rs = .ok g' ms s) :
    (∀ k, 2 * outNative ms k ≤ coinAmt g.native k) ∧ (∀ k, 2 * outCw20 ms k ≤ coinAmt g.cw20 k) := by
  obtain ⟨c1, c2, _⟩ := C17_roy_conserve h
  obtain ⟨_, h5, hg, _, _, _⟩ := royalties_closed h
  subst hg
  constructor
  · intro k
    have e : coinAmt (g.native.map fun c =>
        (⟨c.key, c.amount - roySum c.amount (rs.filterMap id)⟩ : Coin)) k + outNative ms k =
        coinAmt g.native k := c1 k
    have := coinAmt_half h5 g.native k
    omega
  · intro k
    have e : coinAmt (g.cw20.map fun c =>
        (⟨c.key, c.amount - roySum c.amount (rs.filterMap id)⟩ : Coin)) k + outCw20 ms k =
        coinAmt g.cw20 k := c2 k
    have := coinAmt_half h5 g.cw20 k
    omega

example : royalties exBal exRoy = .ok exBalRoy exMsgs 310 := by rfl

/-- "no escrowed amount is ever reduced to zero": a well-formed balance stays well-formed under
    the royalty split (amounts stay non-zero, keys, NFTs and the asset count are unchanged). -/
theorem C11_wf {g g' : GBal} {rs : List (Option RoyaltyInfo)} {ms : List OutMsg} {s : Nat}
    (wf : wfBal g = true) (h : royalties g rs = .ok g' ms s) : wfBal g' = true := by
  obtain ⟨_, h5, hg, _, _, _⟩ := royalties_closed h
  subst hg
  simp only [wfBal, Bool.and_eq_true, decide_eq_true_eq, allNonzero_iff] at wf ⊢
  obtain ⟨⟨⟨⟨⟨w1, w2⟩, w3⟩, w4⟩, w5⟩, w6⟩ := wf
  refine ⟨⟨⟨⟨⟨?_, ?_⟩, ?_⟩, ?_⟩, ?_⟩, w6⟩
  · intro x hx
    obtain ⟨c, hc, e⟩ := List.mem_map.1 hx
    subst e
    have := w1 c hc
    have := (royRem_half h5 c).2.2.2 (by omega)
    omega
  · intro x hx
    obtain ⟨c, hc, e⟩ := List.mem_map.1 hx
    subst e
    have := w2 c hc
    have := (royRem_half h5 c).2.2.2 (by omega)
    omega
  · simp only [GBal.count, List.length_map] at w3 ⊢; exact w3
  · rw [keys_map_royRem]; exact w4
  · rw [keys_map_royRem]; exact w5

example : wfBal exBal = true ∧ royalties exBal exRoy = .ok exBalRoy exMsgs 310 := ⟨by decide, by rfl⟩

/-- "also after the fee": the 0.5 % fee never reduces a non-zero amount to zero. -/
theorem C11_after_fee {a : Nat} (h : 1 ≤ a) : 1 ≤ a - a * 5 / 1000 := fee_pos h

example : (1 : Nat) ≤ 1 ∧ (1 : Nat) ≤ 199 ∧ (1 : Nat) ≤ U128MAX := by decide

/-- "also after the fee", combined: fee split followed by a royalty split of a well-formed balance
    leaves a well-formed balance (no escrowed amount is reduced to zero by either step). -/
theorem C11_wf_fee_then_roy {fd : Nat} {g g₁ g₂ : GBal} {fee : Option Coin}
    {rs : List (Option RoyaltyInfo)} {ms : List OutMsg} {s : Nat}
    (wf : wfBal g = true) (hf : calcFeeCoin fd g = some (fee, g₁))
    (hr : royalties g₁ rs = .ok g₂ ms s) : wfBal g₂ = true :=
  C11_wf (C17_fee_wf wf hf) hr

example : wfBal exBal = true ∧ calcFeeCoin 1 exBal = some (some ⟨1, 5⟩, exBalFee) ∧
    royalties exBalFee exRoy =
      .ok ⟨[⟨2, 7⟩, ⟨1, 966⟩], [⟨9, 48450⟩], [⟨3, 4⟩]⟩
        [.bankSend 7 [⟨1, 29⟩], .cw20Transfer 9 7 1500, .cw20Transfer 9 8 50] 310 :=
  ⟨by decide, by decide, by rfl⟩

#print axioms C11_gate_balance
#print axioms C11_gate_ok
#print axioms C11_gate_exact_half
#print axioms C11_half_native
#print axioms C11_half_cw20
#print axioms C11_half_total
#print axioms C11_wf
#print axioms C11_after_fee
#print axioms C11_wf_fee_then_roy

end Fuzion
