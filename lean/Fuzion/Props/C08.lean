/-
  Fuzion.Props.C08 — "A finalized listing is an immutable, binding offer until it expires".

  Property text:  The owner of a listing still in preparation can finalize it for exactly the
  lifetimes between 600 and 1209600 seconds (bounds included); afterwards the listing's goods,
  ask, whitelist and expiration never change and the seller cannot take it back before the
  expiration time.  A listing's status only moves forward (preparing, finalized, sold, withdrawn;
  or deleted while preparing or once expired): it is never reopened, re-finalized, re-priced or
  extended.

  Hypotheses.  The frame theorems assume `IdsInv m` (storage keys unique, every record filed
  under `(creator, id)`, one live listing per id) — an inductive invariant established by
  `IdsInv.init` and preserved by `execute` (`C09_inv_execute`, proved in Props/C09; the run-level
  theorems take that preservation as the explicit hypothesis `hpres`).  Nothing is assumed about
  senders: every theorem quantifies over the sender and over *all* thirteen message kinds, the
  receive hooks included (a forged hook call is an ordinary `exec` of `.receive` / `.receiveNft`).

  NOTE on the boundary.  `deleteListing` is accepted at `now = expiration` and `buy` is accepted
  at `now = expiration` too (`C08_delete_iff`, `now > e` in `buy`): in that single nanosecond
  both are possible.  "Before the expiration time" is therefore proved as `now < e`.
-/
import Fuzion.Lemmas.FrameLemmas
namespace Fuzion

/-- the order of the life cycle: preparing < finalized < sold -/
def statusRank' : Status → Nat
  | .preparing => 0
  | .finalized => 1
  | .closed => 2

/-! ## 1. finalize -/

/-- Exact specification of `execute_finalize`: it is accepted iff the sender owns a listing under
    this id that is still preparing (never finalized, unclaimed) and the lifetime is within
    `[600, 1209600]` seconds; it then stamps the listing with the block time, sets the expiration
    to block time + lifetime, marks it finalized, touches nothing else and emits no message. -/
theorem C08_finalize_spec {m m' : Market} {env : Env} {s id secs : Nat} {msgs : List OutMsg} :
    finalize m env s id secs = .ok (m', msgs) ↔
      ∃ l, alookup (s, id) m.listings = some l ∧ s = l.creator ∧ l.finalizedAt = none ∧
        l.status = .preparing ∧ l.claimant = none ∧ MIN_LIFE ≤ secs ∧ secs ≤ TWO_WEEKS ∧
        m' = { m with listings :=
                 (ainsert (s, id) { l with finalizedAt := some env.nowNs,
                                           expiresAt := some (env.nowNs + secs * NS),
                                           status := .finalized } m.listings) } ∧
        msgs = [] := by
  constructor
  · intro h
    unfold finalize at h
    split at h
    · cases h
    rename_i l hl
    repeat' split at h
    all_goals first | (cases h; done) | skip
    rename_i h1 h2 h3 h4 h5
    simp only [Except.ok.injEq, Prod.mk.injEq] at h
    obtain ⟨rfl, rfl⟩ := h
    refine ⟨l, hl, by simpa using h1, by simpa using h2, by simpa using h3, by simpa using h4,
      by omega, by omega, rfl, rfl⟩
  · rintro ⟨l, hl, rfl, hf, hs, hc, h1, h2, rfl, rfl⟩
    have : ¬ (secs < MIN_LIFE ∨ secs > TWO_WEEKS) := by omega
    simp [finalize, hl, hf, hs, hc, this]

/-- "The owner of a listing still in preparation can finalize it for exactly the lifetimes
    between 600 and 1209600 seconds (bounds included)". -/
theorem C08_finalize_iff {m : Market} {env : Env} {s id secs : Nat} {l : Listing}
    (hl : alookup (s, id) m.listings = some l) (ho : s = l.creator) (hs : l.status = .preparing)
    (hf : l.finalizedAt = none) (hc : l.claimant = none) :
    (∃ r, finalize m env s id secs = .ok r) ↔ MIN_LIFE ≤ secs ∧ secs ≤ TWO_WEEKS := by
  constructor
  · rintro ⟨⟨m', msgs⟩, h⟩
    obtain ⟨_, _, _, _, _, _, h1, h2, _⟩ := C08_finalize_spec.1 h
    exact ⟨h1, h2⟩
  · rintro ⟨h1, h2⟩
    exact ⟨_, C08_finalize_spec.2 ⟨l, hl, ho, hf, hs, hc, h1, h2, rfl, rfl⟩⟩

/-- the same with the literals spelled out -/
theorem C08_finalize_iff_lit {m : Market} {env : Env} {s id secs : Nat} {l : Listing}
    (hl : alookup (s, id) m.listings = some l) (ho : s = l.creator) (hs : l.status = .preparing)
    (hf : l.finalizedAt = none) (hc : l.claimant = none) :
    (∃ r, finalize m env s id secs = .ok r) ↔ 600 ≤ secs ∧ secs ≤ 1209600 :=
  C08_finalize_iff hl ho hs hf hc

/-- what an accepted finalize records: the listing is found under its id afterwards, finalized,
    with expiration = block time + lifetime, and goods / ask / whitelist as before -/
theorem C08_finalize_effect {m m' : Market} {env : Env} {s id secs : Nat} {msgs : List OutMsg}
    (h : finalize m env s id secs = .ok (m', msgs)) :
    ∃ l l', alookup (s, id) m.listings = some l ∧ alookup (s, id) m'.listings = some l' ∧
      l'.status = .finalized ∧ l'.finalizedAt = some env.nowNs ∧
      l'.expiresAt = some (env.nowNs + secs * NS) ∧ l'.forSale = l.forSale ∧ l'.ask = l.ask ∧
      l'.whitelist = l.whitelist ∧ l'.creator = l.creator ∧ l'.id = l.id ∧ l'.claimant = none := by
  obtain ⟨l, hl, _, _, _, hc, _, _, rfl, _⟩ := C08_finalize_spec.1 h
  exact ⟨l, _, hl, alookup_ainsert_self _ _ _, rfl, rfl, rfl, rfl, rfl, rfl, rfl, rfl, hc⟩

/-! ### examples: seller 1, listing 7 -/

private def exEnv (nowNs : Nat) : Env :=
  { self := 100, nowNs := nowNs, junoD := 1, usdcD := 2, regAddr := 102,
    isToken20 := fun _ => false, isContract := fun _ => false, regLookup := fun _ => none }

private def exPrep : Listing :=
  { creator := 1, id := 7, finalizedAt := none, expiresAt := none, status := .preparing,
    claimant := none, whitelist := none, forSale := ⟨[⟨1, 1000⟩], [], []⟩,
    ask := ⟨[⟨2, 2000⟩], [], []⟩, fee := none }

/-- finalized at t = 0 for 600 s -/
private def exFin : Listing :=
  { exPrep with finalizedAt := some 0, expiresAt := some (600 * NS), status := .finalized }

private def exSold : Listing :=
  { exFin with creator := 2, claimant := some 2, status := .closed }

private def exM (k : Nat × Nat) (l : Listing) : Market :=
  { listings := [(k, l)], buckets := [((2, 8), ⟨2, ⟨[⟨2, 2000⟩], [], []⟩, none⟩)],
    listingUsed := [7, 0], bucketUsed := [8, 0], feeKind := .juno, feeSince := 0,
    registry := some 102 }

private theorem exM_ids (k : Nat × Nat) (l : Listing) (hk : k = (l.creator, l.id))
    (hid : l.id = 7) : IdsInv (exM k l) := by
  subst hk
  constructor <;> simp [exM, akeys, hid]

example : alookup (1, 7) (exM (1, 7) exPrep).listings = some exPrep := by decide
example : (1 : Nat) = exPrep.creator ∧ exPrep.status = .preparing ∧ exPrep.finalizedAt = none ∧
    exPrep.claimant = none := by decide
-- 600 and 1209600 are accepted, 599 and 1209601 are refused
example : ∃ r, finalize (exM (1, 7) exPrep) (exEnv 5) 1 7 600 = .ok r := ⟨_, rfl⟩
example : ∃ r, finalize (exM (1, 7) exPrep) (exEnv 5) 1 7 1209600 = .ok r := ⟨_, rfl⟩
example : finalize (exM (1, 7) exPrep) (exEnv 5) 1 7 599 = .error .badLifetime := rfl
example : finalize (exM (1, 7) exPrep) (exEnv 5) 1 7 1209601 = .error .badLifetime := rfl
example : (finalize (exM (1, 7) exPrep) (exEnv 5) 1 7 600).isOk = true := by decide
example : (finalize (exM (1, 7) exPrep) (exEnv 5) 1 7 1209600).isOk = true := by decide
example : (finalize (exM (1, 7) exPrep) (exEnv 5) 1 7 599).isOk = false := by decide
example : (finalize (exM (1, 7) exPrep) (exEnv 5) 1 7 1209601).isOk = false := by decide
-- not the owner / already finalized: refused whatever the lifetime
example : finalize (exM (1, 7) exPrep) (exEnv 5) 2 7 600 = .error .notFound := rfl
example : finalize (exM (1, 7) exFin) (exEnv 5) 1 7 600 = .error .notPreparing := rfl

/-! ## 2. "never re-finalized, re-priced or extended": the owner's own messages are refused -/

/-- "it is never reopened, re-finalized, re-priced or extended": once a listing has left the
    preparing state, every message by which its owner could edit it — change ask, add coins, add
    an NFT, finalize (again, which would also move the expiration) — is refused. -/
theorem C08_owner_edits_refused {m : Market} {env : Env} {s id : Nat} {l : Listing}
    (hl : alookup (s, id) m.listings = some l) (hs : l.status ≠ .preparing) :
    (∀ ask, ∃ e, changeAsk m s id ask = .error e) ∧
    (∀ secs, ∃ e, finalize m env s id secs = .error e) ∧
    (∀ funds, ∃ e, addToListing m funds s id = .error e) ∧
    (∀ nft, ∃ e, addToListingNft m s nft id = .error e) := by
  refine ⟨fun ask => ?_, fun secs => ?_, fun funds => ?_, fun nft => ?_⟩
  · unfold changeAsk
    simp only [hl]
    repeat' split
    all_goals first | exact ⟨_, rfl⟩ | (exfalso; simp_all; done)
  · unfold finalize
    simp only [hl]
    repeat' split
    all_goals first | exact ⟨_, rfl⟩ | (exfalso; simp_all; done)
  · unfold addToListing
    simp only [hl]
    repeat' split
    all_goals first | exact ⟨_, rfl⟩ | (exfalso; simp_all; done)
  · unfold addToListingNft
    simp only [hl]
    repeat' split
    all_goals first | exact ⟨_, rfl⟩ | (exfalso; simp_all; done)

example : alookup (1, 7) (exM (1, 7) exFin).listings = some exFin ∧ exFin.status ≠ .preparing := by
  decide

/-! ## 3. the offer is binding until it expires -/

/-- Exact acceptance condition of `execute_delete_listing`: the sender owns the listing, nobody
    has claimed it, and it either has no expiration (never finalized) or the expiration has been
    reached (`now ≥ expiration`: at `now = expiration` the delete is accepted). -/
theorem C08_delete_iff {m : Market} {env : Env} {s id : Nat} :
    (∃ r, deleteListing m env s id = .ok r) ↔
      ∃ l, alookup (s, id) m.listings = some l ∧ s = l.creator ∧ l.claimant = none ∧
        (l.expiresAt = none ∨ ∃ e, l.expiresAt = some e ∧ e ≤ env.nowNs) := by
  constructor
  · rintro ⟨⟨m', out⟩, h⟩
    obtain ⟨l, h1, h2, h3, h4, _⟩ := deleteListing_spec h
    refine ⟨l, h1, h2, h3, ?_⟩
    cases he : l.expiresAt with
    | none => exact .inl rfl
    | some e => exact .inr ⟨e, rfl, h4 e he⟩
  · rintro ⟨l, hl, rfl, hc, he⟩
    unfold deleteListing
    simp only [hl, hc]
    rcases he with he | ⟨e, he, hle⟩
    · simp [he]
    · have : ¬ env.nowNs < e := by omega
      simp [he, this]

/-- "the seller cannot take it back before the expiration time": while the block time is before
    the expiration, the delete message of the listing's holder is refused … -/
theorem C08_binding {m : Market} {env : Env} {s id e : Nat} {l : Listing}
    (hl : alookup (s, id) m.listings = some l) (he : l.expiresAt = some e) (hnow : env.nowNs < e) :
    ∃ err, deleteListing m env s id = .error err := by
  cases hd : deleteListing m env s id with
  | error err => exact ⟨err, rfl⟩
  | ok r =>
    obtain ⟨l2, hl2, _, _, hexp⟩ := C08_delete_iff.1 ⟨r, hd⟩
    rw [hl] at hl2
    cases hl2
    rcases hexp with h | ⟨e2, h, hle⟩
    · rw [he] at h; cases h
    · rw [he] at h; cases h; omega

/-- … and so is everybody else's, at any time (nobody but the creator has a record under this
    id). -/
theorem C08_binding_others {m : Market} {env : Env} {s id : Nat} {k : Nat × Nat} {l : Listing}
    (hI : IdsInv m) (hf : findById id m.listings = some (k, l)) (hs : s ≠ l.creator) :
    deleteListing m env s id = .error .notFound := by
  unfold deleteListing
  rw [hI.alookup_other_none hf hs]

-- finalized at 0 for 600 s: refused one nanosecond before the expiration, accepted at it
example : alookup (1, 7) (exM (1, 7) exFin).listings = some exFin ∧
    exFin.expiresAt = some (600 * NS) ∧ (exEnv (600 * NS - 1)).nowNs < 600 * NS := by decide
example : deleteListing (exM (1, 7) exFin) (exEnv (600 * NS - 1)) 1 7 = .error .notExpired := rfl
example : ∃ r, deleteListing (exM (1, 7) exFin) (exEnv (600 * NS)) 1 7 = .ok r := ⟨_, rfl⟩
example : findById 7 (exM (1, 7) exFin).listings = some ((1, 7), exFin) ∧ 3 ≠ exFin.creator := by
  decide
example : IdsInv (exM (1, 7) exFin) := exM_ids _ _ rfl rfl

/-! ## 4. frame: nobody can change a listing that has left the preparing state -/

/-- "afterwards the listing's goods, ask, whitelist and expiration never change … A listing's
    status only moves forward":  for a listing that is no longer preparing, whatever message
    `msg` whichever account `s` sends (forged receive hooks included), if it is accepted then
    afterwards the listing is either gone, or still found under its id with the same ask,
    whitelist, expiration, finalization stamp and id, a status that is not lower — and it is
    either the very same record under the very same key, or `msg` was a purchase of this
    finalized listing, which closes it and re-files it under the buyer `s` (the goods then change
    by exactly the fee and royalties withheld: C02 / C17). -/
theorem C08_frame {m m' : Market} {env : Env} {s : Nat} {f : List Coin} {msg : ExecMsg}
    {out : List OutMsg} {lid : Nat} {k : Nat × Nat} {l : Listing} (hI : IdsInv m)
    (hfind : findById lid m.listings = some (k, l)) (hst : l.status ≠ .preparing)
    (hx : execute m env s f msg = .ok (m', out)) :
    findById lid m'.listings = none ∨
    ∃ k' l', findById lid m'.listings = some (k', l') ∧ l'.ask = l.ask ∧
      l'.whitelist = l.whitelist ∧ l'.expiresAt = l.expiresAt ∧ l'.finalizedAt = l.finalizedAt ∧
      l'.id = l.id ∧ statusRank' l.status ≤ statusRank' l'.status ∧
      ((k' = k ∧ l' = l) ∨
       ((∃ bid, msg = .buy lid bid) ∧ l.status = .finalized ∧ l'.status = .closed ∧
         k' = (s, lid) ∧ l'.creator = s ∧ l'.claimant = some s)) := by
  cases mchange_fate hI hfind (execute_mchange hx) with
  | kept h => exact .inr ⟨k, l, h, rfl, rfl, rfl, rfl, rfl, Nat.le_refl _, .inl ⟨rfl, rfl⟩⟩
  | edited l' hp => exact absurd hp hst
  | deleted _ _ _ _ h => exact .inl h
  | bought bid l' hmsg hs _ _ h hid hask hwl hex hfin hst' hcr' hcl' =>
    refine .inr ⟨_, l', h, hask, hwl, hex, hfin, hid, ?_, .inr ⟨⟨bid, hmsg⟩, hs, hst', rfl, hcr', hcl'⟩⟩
    rw [hs, hst']; decide
  | withdrawn _ _ _ _ h => exact .inl h

/-- the goods of a non-preparing listing change only in a purchase of it -/
theorem C08_goods_frame {m m' : Market} {env : Env} {s : Nat} {f : List Coin} {msg : ExecMsg}
    {out : List OutMsg} {lid : Nat} {k k' : Nat × Nat} {l l' : Listing} (hI : IdsInv m)
    (hfind : findById lid m.listings = some (k, l)) (hst : l.status ≠ .preparing)
    (hx : execute m env s f msg = .ok (m', out))
    (hfind' : findById lid m'.listings = some (k', l')) (hnb : ∀ bid, msg ≠ .buy lid bid) :
    k' = k ∧ l' = l := by
  rcases C08_frame hI hfind hst hx with h | ⟨k2, l2, h, _, _, _, _, _, _, h2⟩
  · rw [h] at hfind'; cases hfind'
  · rw [h] at hfind'; cases hfind'
    rcases h2 with h2 | ⟨⟨bid, hb⟩, _⟩
    · exact h2
    · exact absurd hb (hnb bid)

/-- "A listing's status only moves forward (preparing, finalized, sold …): it is never
    reopened": for *any* live listing, preparing ones included, the status found under its id
    after an accepted message is not lower than before. -/
theorem C08_status_forward {m m' : Market} {env : Env} {s : Nat} {f : List Coin} {msg : ExecMsg}
    {out : List OutMsg} {lid : Nat} {k k' : Nat × Nat} {l l' : Listing} (hI : IdsInv m)
    (hfind : findById lid m.listings = some (k, l))
    (hx : execute m env s f msg = .ok (m', out))
    (hfind' : findById lid m'.listings = some (k', l')) :
    statusRank' l.status ≤ statusRank' l'.status := by
  cases mchange_fate hI hfind (execute_mchange hx) with
  | kept h => rw [h] at hfind'; cases hfind'; exact Nat.le_refl _
  | edited l2 hp _ _ h _ _ _ _ =>
    rw [h] at hfind'; cases hfind'; rw [hp]; exact Nat.zero_le _
  | deleted _ _ _ _ h => rw [h] at hfind'; cases hfind'
  | bought bid l2 _ hs _ _ h _ _ _ _ _ hst' _ _ =>
    rw [h] at hfind'; cases hfind'; rw [hs, hst']; decide
  | withdrawn _ _ _ _ h => rw [h] at hfind'; cases hfind'

/-- "(preparing, finalized, sold, withdrawn; or deleted while preparing or once expired)": the
    complete one-message transition relation of the listing stored under `lid`.  It stays as it
    is; or it is preparing and its owner edits it (possibly finalizing it: `C08_finalize_spec`);
    or its owner deletes it — unclaimed and with no expiration or an expiration that has been
    reached; or it is finalized, unclaimed, not past its expiration and `s` buys it; or it is
    sold and its claimant withdraws it. -/
theorem C08_transitions {m m' : Market} {env : Env} {s : Nat} {f : List Coin} {msg : ExecMsg}
    {out : List OutMsg} {lid : Nat} {k : Nat × Nat} {l : Listing} (hI : IdsInv m)
    (hfind : findById lid m.listings = some (k, l))
    (hx : execute m env s f msg = .ok (m', out)) :
    findById lid m'.listings = some (k, l) ∨
    (l.status = .preparing ∧ actor msg s = l.creator ∧ ∃ l', findById lid m'.listings = some (k, l') ∧
      (l'.status = .preparing ∨ l'.status = .finalized) ∧ l'.creator = l.creator) ∨
    (msg = .deleteListing lid ∧ s = l.creator ∧ l.claimant = none ∧
      (∀ e, l.expiresAt = some e → e ≤ env.nowNs) ∧ findById lid m'.listings = none) ∨
    (l.status = .finalized ∧ l.claimant = none ∧ (∀ e, l.expiresAt = some e → env.nowNs ≤ e) ∧
      ∃ bid l', msg = .buy lid bid ∧ findById lid m'.listings = some ((s, lid), l') ∧
        l'.status = .closed ∧ l'.claimant = some s) ∨
    (l.status = .closed ∧ msg = .withdrawPurchased lid ∧ l.claimant = some s ∧ s = l.creator ∧
      findById lid m'.listings = none) := by
  cases mchange_fate hI hfind (execute_mchange hx) with
  | kept h => exact .inl h
  | edited l' hp _ hact h _ hcr hst' _ => exact .inr (.inl ⟨hp, hact, l', h, hst', hcr⟩)
  | deleted hmsg hown hcl hexp h => exact .inr (.inr (.inl ⟨hmsg, hown, hcl, hexp, h⟩))
  | bought bid l' hmsg hs hcl hexp h _ _ _ _ _ hst' _ hcl' =>
    exact .inr (.inr (.inr (.inl ⟨hs, hcl, hexp, bid, l', hmsg, h, hst', hcl'⟩)))
  | withdrawn hmsg hcl hs hown h => exact .inr (.inr (.inr (.inr ⟨hs, hmsg, hcl, hown, h⟩)))

/-! ## 5. how a listing disappears -/

/-- WF-free form of `C08_when_removed`: a listing that has left the preparing state disappears
    only by its owner's delete — unclaimed, expiration reached — or by its claimant's (= current
    holder's) withdrawal. -/
theorem C08_when_removed' {m m' : Market} {env : Env} {s : Nat} {f : List Coin} {msg : ExecMsg}
    {out : List OutMsg} {lid : Nat} {k : Nat × Nat} {l : Listing} (hI : IdsInv m)
    (hfind : findById lid m.listings = some (k, l)) (hst : l.status ≠ .preparing)
    (hx : execute m env s f msg = .ok (m', out)) (hgone : findById lid m'.listings = none) :
    (l.claimant = none ∧ (∀ e, l.expiresAt = some e → e ≤ env.nowNs) ∧
      msg = .deleteListing lid ∧ s = l.creator) ∨
    (l.status = .closed ∧ msg = .withdrawPurchased lid ∧ l.claimant = some s ∧ s = l.creator) := by
  cases mchange_fate hI hfind (execute_mchange hx) with
  | kept h => rw [h] at hgone; cases hgone
  | edited l' hp => exact absurd hp hst
  | deleted hmsg hown hcl hexp _ => exact .inl ⟨hcl, hexp, hmsg, hown⟩
  | bought bid l' _ _ _ _ h => rw [h] at hgone; cases hgone
  | withdrawn hmsg hcl hs hown _ => exact .inr ⟨hs, hmsg, hcl, hown⟩

/-- "the seller cannot take it back before the expiration time … or deleted … once expired":
    a finalized listing disappears only by its owner's delete once the expiration has been
    reached, a sold one only by its buyer's withdrawal.  (`hwf`: the record is well-formed in the
    sense of C12 — a sold listing has a claimant — which `WFInv` provides for every record.) -/
theorem C08_when_removed {m m' : Market} {env : Env} {s : Nat} {f : List Coin} {msg : ExecMsg}
    {out : List OutMsg} {lid : Nat} {k : Nat × Nat} {l : Listing} {j u : Nat} (hI : IdsInv m)
    (hwf : wfListing j u k l = true)
    (hfind : findById lid m.listings = some (k, l)) (hst : l.status ≠ .preparing)
    (hx : execute m env s f msg = .ok (m', out)) (hgone : findById lid m'.listings = none) :
    (l.status = .finalized ∧ (∀ e, l.expiresAt = some e → e ≤ env.nowNs) ∧
      msg = .deleteListing lid ∧ s = l.creator) ∨
    (l.status = .closed ∧ msg = .withdrawPurchased lid ∧ l.claimant = some s) := by
  rcases C08_when_removed' hI hfind hst hx hgone with ⟨hcl, hexp, hmsg, hown⟩ | ⟨hs, hmsg, hcl, _⟩
  · refine .inl ⟨?_, hexp, hmsg, hown⟩
    cases hs : l.status with
    | preparing => exact absurd hs hst
    | finalized => rfl
    | closed =>
      simp only [wfListing, hs, hcl, Bool.and_eq_true, decide_eq_true_eq] at hwf
      have := hwf.2.1.2
      cases this
  · exact .inr ⟨hs, hmsg, hcl⟩

/-- "Gone is forever / never reopened": an id that has been used and has no live listing never
    gets one again, whatever message is accepted. -/
theorem C08_gone_forever {m m' : Market} {env : Env} {s : Nat} {f : List Coin} {msg : ExecMsg}
    {out : List OutMsg} {lid : Nat} (hnone : findById lid m.listings = none)
    (hused : lid ∈ m.listingUsed) (hx : execute m env s f msg = .ok (m', out)) :
    findById lid m'.listings = none ∧ lid ∈ m'.listingUsed :=
  ⟨mchange_gone hnone hused (execute_mchange hx), mchange_used (execute_mchange hx) lid hused⟩

-- non-vacuity: the finalized listing 7 of seller 1, buyer 2 with bucket 8 (2000 of denom 2)
example : findById 7 (exM (1, 7) exFin).listings = some ((1, 7), exFin) ∧ exFin.status ≠ .preparing := by
  decide
example : wfListing 1 2 (1, 7) exFin = true := by decide
-- a purchase at t = 5, the owner's delete at the expiration, a stranger's bucket deposit
example : ∃ r, execute (exM (1, 7) exFin) (exEnv 5) 2 [] (.buy 7 8) = .ok r := ⟨_, rfl⟩
example : ∃ r, execute (exM (1, 7) exFin) (exEnv (600 * NS)) 1 [] (.deleteListing 7) = .ok r := ⟨_, rfl⟩
example : ∃ r, execute (exM (1, 7) exFin) (exEnv 5) 3 [⟨2, 5⟩] (.createBucket 9) = .ok r := ⟨_, rfl⟩
-- the sold listing is withdrawn by its buyer
example : findById 7 (exM (2, 7) exSold).listings = some ((2, 7), exSold) ∧ exSold.status ≠ .preparing := by
  decide
example : IdsInv (exM (2, 7) exSold) := exM_ids _ _ rfl rfl
example : wfListing 1 2 (2, 7) exSold = true := by decide
example : ∃ r, execute (exM (2, 7) exSold) (exEnv 5) 2 [] (.withdrawPurchased 7) = .ok r := ⟨_, rfl⟩
-- gone: id 7 is used and free once withdrawn; creating it again is refused
private def exGone : Market := { exM (2, 7) exSold with listings := [] }
example : findById 7 exGone.listings = none ∧ 7 ∈ exGone.listingUsed := by decide
example : execute exGone (exEnv 5) 1 [⟨1, 5⟩] (.createListing 7 ⟨⟨[⟨2, 1⟩], [], []⟩, none⟩) =
    .error .idUsed := rfl
example : ∃ r, execute exGone (exEnv 5) 1 [⟨1, 5⟩] (.createListing 9 ⟨⟨[⟨2, 1⟩], [], []⟩, none⟩) =
    .ok r := ⟨_, rfl⟩

/-! ## 6. world level -/

/-- `C08_frame` for one transaction `step w op` of any kind (marketplace messages of any sender,
    CW20 / CW721 sends, registry messages, admin changes, the passage of time). -/
theorem C08_step_frame {w : World} {lid : Nat} {k : Nat × Nat} {l : Listing} (op : Op)
    (hI : IdsInv w.mkt) (hfind : findById lid w.mkt.listings = some (k, l))
    (hst : l.status ≠ .preparing) :
    findById lid (step w op).1.mkt.listings = none ∨
    ∃ k' l', findById lid (step w op).1.mkt.listings = some (k', l') ∧ l'.ask = l.ask ∧
      l'.whitelist = l.whitelist ∧ l'.expiresAt = l.expiresAt ∧ l'.finalizedAt = l.finalizedAt ∧
      l'.id = l.id ∧ statusRank' l.status ≤ statusRank' l'.status ∧
      ((k' = k ∧ l' = l) ∨
       ((∃ c f bid, op = .exec c f (.buy lid bid) ∧ k' = (c, lid) ∧ l'.creator = c ∧
           l'.claimant = some c) ∧ l.status = .finalized ∧ l'.status = .closed)) := by
  unfold step
  rcases stepF_mkt_casesF noFault w op with h | ⟨c, f, msg, out, ho, _, _, hx⟩
  · rw [h]
    exact .inr ⟨k, l, hfind, rfl, rfl, rfl, rfl, rfl, Nat.le_refl _, .inl ⟨rfl, rfl⟩⟩
  · rcases C08_frame hI hfind hst hx with h | ⟨k', l', h1, h2, h3, h4, h5, h6, h7, h8⟩
    · exact .inl h
    · refine .inr ⟨k', l', h1, h2, h3, h4, h5, h6, h7, ?_⟩
      rcases h8 with h8 | ⟨⟨bid, hb⟩, hs, hs', hk', hcr, hcl⟩
      · exact .inl h8
      · subst hb
        have := asExec_direct ho (by intro a b i e; cases e) (by intro a b i e; cases e)
        exact .inr ⟨⟨c, f, bid, this, hk', hcr, hcl⟩, hs, hs'⟩

/-- "the seller cannot take it back before the expiration time", as transactions: while the
    clock is before the expiration of listing `lid`, a delete transaction of *any* account fails
    and leaves the world as it was. -/
theorem C08_step_binding {w : World} {lid e : Nat} {k : Nat × Nat} {l : Listing} (s : Nat)
    (f : List Coin) (hI : IdsInv w.mkt) (hfind : findById lid w.mkt.listings = some (k, l))
    (he : l.expiresAt = some e) (hnow : w.nowNs < e) :
    (step w (.exec s f (.deleteListing lid))).2.ok = false ∧
    (step w (.exec s f (.deleteListing lid))).1 = w := by
  have hfail : ∃ err, execute w.mkt w.env s f (.deleteListing lid) = .error err := by
    unfold execute
    split
    · exact ⟨_, rfl⟩
    · dsimp only
      by_cases hs : s = l.creator
      · obtain ⟨hk, _, hl⟩ := hI.findById_key hfind
        rw [hk, ← hs] at hl
        exact C08_binding (env := w.env) hl he hnow
      · exact ⟨_, C08_binding_others hI hfind hs⟩
  obtain ⟨err, herr⟩ := hfail
  have hok : (step w (.exec s f (.deleteListing lid))).2.ok = false := by
    unfold step
    rcases stepF_market (fail := noFault) (w := w) (op := .exec s f (.deleteListing lid)) rfl with
      ⟨e', h⟩ | ⟨m', msgs, w2, hx, _, _, _⟩
    · rw [h]; rfl
    · rw [herr] at hx; cases hx
  exact ⟨hok, stepF_failed_noop noFault w _ hok⟩

/-- `C08_when_removed` for one transaction: a finalized listing disappears only through a
    successful `deleteListing` transaction of its creator at a block time at or after its
    expiration; a sold one only through a `withdrawPurchased` transaction of its claimant. -/
theorem C08_step_when_removed {w : World} {lid : Nat} {k : Nat × Nat} {l : Listing} {j u : Nat}
    (op : Op) (hI : IdsInv w.mkt) (hwf : wfListing j u k l = true)
    (hfind : findById lid w.mkt.listings = some (k, l)) (hst : l.status ≠ .preparing)
    (hgone : findById lid (step w op).1.mkt.listings = none) :
    (l.status = .finalized ∧ (∀ e, l.expiresAt = some e → e ≤ w.nowNs) ∧
      ∃ f, op = .exec l.creator f (.deleteListing lid)) ∨
    (l.status = .closed ∧ ∃ c f, op = .exec c f (.withdrawPurchased lid) ∧ l.claimant = some c) := by
  unfold step at hgone
  rcases stepF_mkt_casesF noFault w op with h | ⟨c, f, msg, out, ho, _, _, hx⟩
  · rw [h, hfind] at hgone; cases hgone
  · rcases C08_when_removed hI hwf hfind hst hx hgone with
      ⟨hs, hexp, hmsg, hown⟩ | ⟨hs, hmsg, hcl⟩
    · subst hmsg
      have := asExec_direct ho (by intro a b i e; cases e) (by intro a b i e; cases e)
      exact .inl ⟨hs, hexp, f, by rw [this, hown]⟩
    · subst hmsg
      have := asExec_direct ho (by intro a b i e; cases e) (by intro a b i e; cases e)
      exact .inr ⟨hs, c, f, this, hcl⟩

/-- the invariant carried along a history: the id is marked used, and the listing is either gone
    or still there, not preparing, with the terms of `l` -/
def Kept (lid : Nat) (l : Listing) (m : Market) : Prop :=
  lid ∈ m.listingUsed ∧
  (findById lid m.listings = none ∨
   ∃ k' l', findById lid m.listings = some (k', l') ∧ l'.status ≠ .preparing ∧ l'.ask = l.ask ∧
     l'.whitelist = l.whitelist ∧ l'.expiresAt = l.expiresAt ∧ l'.finalizedAt = l.finalizedAt ∧
     statusRank' l.status ≤ statusRank' l'.status)

theorem Kept.execute {m m' : Market} {env : Env} {s : Nat} {f : List Coin} {msg : ExecMsg}
    {out : List OutMsg} {lid : Nat} {l : Listing} (hI : IdsInv m) (hk : Kept lid l m)
    (hx : execute m env s f msg = .ok (m', out)) : Kept lid l m' := by
  obtain ⟨hu, hk⟩ := hk
  refine ⟨mchange_used (execute_mchange hx) lid hu, ?_⟩
  rcases hk with hnone | ⟨k1, l1, hf1, hs1, a1, a2, a3, a4, a5⟩
  · exact .inl (C08_gone_forever hnone hu hx).1
  · rcases C08_frame hI hf1 hs1 hx with h | ⟨k2, l2, hf2, b1, b2, b3, b4, _, b6, b7⟩
    · exact .inl h
    · refine .inr ⟨k2, l2, hf2, ?_, b1.trans a1, b2.trans a2, b3.trans a3, b4.trans a4,
        Nat.le_trans a5 b6⟩
      rcases b7 with ⟨_, rfl⟩ | ⟨_, _, hc, _⟩
      · exact hs1
      · rw [hc]; intro e; cases e

/-- "afterwards the listing's goods, ask, whitelist and expiration never change … never
    reopened, re-finalized, re-priced or extended", along any history: for a listing that is not
    preparing in `w` (finalized, say, with expiration `l.expiresAt`), in every later state the id
    either has no live listing — and then never has one again, see `C08_run_gone` — or still
    carries a non-preparing listing with the same ask, whitelist, expiration and finalization
    stamp and a status that is not lower.  `hpres` is the preservation of `IdsInv` by `execute`
    (`C09_inv_execute`). -/
theorem C08_run_monotone
    (hpres : ∀ m env s f msg m' out, IdsInv m → execute m env s f msg = .ok (m', out) → IdsInv m')
    {w : World} {lid : Nat} {k : Nat × Nat} {l : Listing} (hI : IdsInv w.mkt)
    (hfind : findById lid w.mkt.listings = some (k, l)) (hst : l.status ≠ .preparing)
    (ops : List Op) :
    findById lid (run w ops).mkt.listings = none ∨
    ∃ k' l', findById lid (run w ops).mkt.listings = some (k', l') ∧ l'.status ≠ .preparing ∧
      l'.ask = l.ask ∧ l'.whitelist = l.whitelist ∧ l'.expiresAt = l.expiresAt ∧
      l'.finalizedAt = l.finalizedAt ∧ statusRank' l.status ≤ statusRank' l'.status := by
  have h0 : Kept lid l w.mkt := by
    refine ⟨?_, .inr ⟨k, l, hfind, hst, rfl, rfl, rfl, rfl, Nat.le_refl _⟩⟩
    obtain ⟨hid, hmem⟩ := findById_some hfind
    have := hI.lused _ hmem
    rwa [hid] at this
  suffices h : ∀ (ops : List Op) (w : World), IdsInv w.mkt → Kept lid l w.mkt →
      Kept lid l (run w ops).mkt from (h ops w hI h0).2
  intro ops
  induction ops with
  | nil => intro w _ hk; exact hk
  | cons op ops ih =>
    intro w hI hk
    refine ih _ (step_idsInv hpres op hI) ?_
    unfold step
    rcases stepF_mkt_casesF noFault w op with h | ⟨c, f, msg, out, _, _, _, hx⟩
    · rw [h]; exact hk
    · exact hk.execute hI hx

/-- "Gone is forever", along any history: a used id without a live listing never has one
    again. -/
theorem C08_run_gone {w : World} {lid : Nat} (hnone : findById lid w.mkt.listings = none)
    (hused : lid ∈ w.mkt.listingUsed) (ops : List Op) :
    findById lid (run w ops).mkt.listings = none ∧ lid ∈ (run w ops).mkt.listingUsed := by
  induction ops generalizing w with
  | nil => exact ⟨hnone, hused⟩
  | cons op ops ih =>
    have hstep : findById lid (step w op).1.mkt.listings = none ∧
        lid ∈ (step w op).1.mkt.listingUsed := by
      unfold step
      rcases stepF_mkt_casesF noFault w op with h | ⟨c, f, msg, out, _, _, _, hx⟩
      · rw [h]; exact ⟨hnone, hused⟩
      · exact C08_gone_forever hnone hused hx
    exact ih hstep.1 hstep.2

/-- both together: once a listing that had left the preparing state is gone at some point of a
    history, it is gone at every later point. -/
theorem C08_run_gone_stays
    (hpres : ∀ m env s f msg m' out, IdsInv m → execute m env s f msg = .ok (m', out) → IdsInv m')
    {w : World} {lid : Nat} {k : Nat × Nat} {l : Listing} (hI : IdsInv w.mkt)
    (hfind : findById lid w.mkt.listings = some (k, l)) (ops₁ ops₂ : List Op)
    (hgone : findById lid (run w ops₁).mkt.listings = none) :
    findById lid (run w (ops₁ ++ ops₂)).mkt.listings = none := by
  have hused : lid ∈ w.mkt.listingUsed := by
    obtain ⟨hid, hmem⟩ := findById_some hfind
    have := hI.lused _ hmem
    rwa [hid] at this
  have hused₁ : lid ∈ (run w ops₁).mkt.listingUsed := by
    clear hgone hfind
    induction ops₁ generalizing w with
    | nil => exact hused
    | cons op ops ih =>
      refine ih (step_idsInv hpres op hI) ?_
      unfold step
      rcases stepF_mkt_casesF noFault w op with h | ⟨c, f, msg, out, _, _, _, hx⟩
      · rw [h]; exact hused
      · exact mchange_used (execute_mchange hx) lid hused
  rw [run_append]
  exact (C08_run_gone hgone hused₁ ops₂).1

/-! ### non-vacuity at world level -/

private def exW (nowNs : Nat) (k : Nat × Nat) (l : Listing) : World :=
  { self := 100, pool := 101, regAddr := 102, junoD := 1, usdcD := 2, nowNs := nowNs, height := 1,
    mkt := exM k l, reg := [], bank := [((100, 1), 1000), ((100, 2), 2000)], cw20 := [], nft := [],
    contracts := [] }

example : IdsInv (exW 5 (1, 7) exFin).mkt := exM_ids _ _ rfl rfl
example : findById 7 (exW 5 (1, 7) exFin).mkt.listings = some ((1, 7), exFin) := by decide
-- before the expiration: the owner's delete fails, a purchase succeeds …
example : (exW 5 (1, 7) exFin).nowNs < 600 * NS := by decide
example : (step (exW 5 (1, 7) exFin) (.exec 1 [] (.deleteListing 7))).2.ok = false := by decide
example : (step (exW 5 (1, 7) exFin) (.exec 2 [] (.buy 7 8))).2.ok = true := by decide
-- … at the expiration the delete succeeds and the listing is gone, for good
example : (step (exW (600 * NS) (1, 7) exFin) (.exec 1 [] (.deleteListing 7))).2.ok = true := by decide
example : findById 7 (step (exW (600 * NS) (1, 7) exFin) (.exec 1 [] (.deleteListing 7))).1.mkt.listings
    = none := by decide
example : findById 7 (run (exW 5 (1, 7) exFin) [.exec 2 [] (.buy 7 8), .exec 2 [] (.withdrawPurchased 7),
    .exec 1 [⟨1, 5⟩] (.createListing 7 ⟨⟨[⟨2, 1⟩], [], []⟩, none⟩)]).mkt.listings = none := by decide
-- hypothesis of `C08_run_gone_stays`: gone after purchase + withdrawal
example : findById 7 (run (exW 5 (1, 7) exFin) [.exec 2 [] (.buy 7 8),
    .exec 2 [] (.withdrawPurchased 7)]).mkt.listings = none := by decide
-- the sold listing still shows the published ask after the purchase
example : (findById 7 (run (exW 5 (1, 7) exFin) [.exec 2 [] (.buy 7 8)]).mkt.listings).map
    (fun p => (p.1, p.2.ask, p.2.expiresAt, p.2.status)) =
    some ((2, 7), exFin.ask, exFin.expiresAt, .closed) := by decide

/-! ## axioms -/

#print axioms C08_finalize_spec
#print axioms C08_finalize_iff
#print axioms C08_finalize_iff_lit
#print axioms C08_finalize_effect
#print axioms C08_owner_edits_refused
#print axioms C08_delete_iff
#print axioms C08_binding
#print axioms C08_binding_others
#print axioms C08_frame
#print axioms C08_goods_frame
#print axioms C08_status_forward
#print axioms C08_transitions
#print axioms C08_when_removed'
#print axioms C08_when_removed
#print axioms C08_gone_forever
#print axioms C08_step_frame
#print axioms C08_step_binding
#print axioms C08_step_when_removed
#print axioms Kept.execute
#print axioms C08_run_monotone
#print axioms C08_run_gone
#print axioms C08_run_gone_stays

end Fuzion
