/-
  Fuzion.Props.C10Reach — C10 ("Every fee charged reaches the community pool exactly once") for
  every state reached from a freshly instantiated marketplace.

  Property text (C10):  Each fee recorded at a purchase is deposited into the chain's community
  pool in full and exactly once, by a well-formed fund-community-pool message whose depositor is
  the marketplace and whose amount is the recorded fee, no later than when that side's proceeds
  leave the marketplace.  It is never dropped, duplicated, paid to a user, or lost when the record
  is traded again before being withdrawn.

  Props/C10.lean proves the theorems for any market record satisfying the id invariant `IdsInv`
  and the record invariant `WFInv`.  Here these hypotheses are discharged from reachability:
  `w0.mkt = instantiate t r` and the state is `run w0 ops` for an arbitrary operation list `ops`
  (`C09_reach`, `C12_reach` through `closed_ids`, `closed_wf0`).  What remains are hypotheses about
  the *input*: which call was accepted, which record is looked at; for `C10_wellformed_reach` that
  the handler environment shows the world's two fee denominations (it does for every transaction:
  `C10_wellformed_step_reach`); for the world-level ledger the side conditions of `C10_step` on the
  *initial world and the operations* (the pool account is not the marketplace, nobody registers the
  pool as royalty payout address or signs for it).

  The three timeliness theorems `C10_withdrawBucket`, `C10_withdrawPurchased`, `C10_buy_pays_old`
  have no invariant hypothesis; their `_reach` forms state the original conclusion and add what
  only reachability gives: the record paid out is *the* record with that id (so the payout is the
  last one — "exactly once"), the deposited fee is well-formed, and the call deposits exactly the
  recorded fee, no more (`poolPaid`).  "A never-traded record has no fee" is
  `C10_untraded_no_fee_reach` / `C10_fee_traded_reach`.  `C10_charged_only_buy`,
  `C10_charged_recorded` have no invariant hypothesis and are not restated.
-/
import Fuzion.Props.C10
import Fuzion.Props.C10Closed
import Fuzion.Props.C03
import Fuzion.Lemmas.ReachLemmas
namespace Fuzion

/-! ### sample reachable states for the non-vacuity examples

From the sample deployment `AcctEx.w0` (fee denomination: denom 1).  `C10REx.ops`: account 2 lists
1000 of denom 2 for 1000 of denom 1 and finalizes; account 1 fills bucket 8 with the price and
buys — bucket 8 is re-filed under the seller 2 with 995 of denom 1 and a **pending fee of 5**;
account 5 lists 77 of token 50 for exactly 995 of denom 1 and finalizes.  In the reached state
`C10REx.w` the fee-bearing proceeds bucket (2, 8) can be withdrawn — or used to buy listing 6: the
record is traded again before being withdrawn.  `C10REx.wSold` is the state after seven operations
of the sample history `AcctEx.ops`: the closed listing (2, 3) carries a pending fee of 5. -/

namespace C10REx
def ops : List Op :=
  [ .exec 2 [⟨2, 1000⟩] (.createListing 4 ⟨⟨[⟨1, 1000⟩], [], []⟩, none⟩),
    .exec 2 [] (.finalize 4 600),
    .exec 1 [⟨1, 1000⟩] (.createBucket 8),
    .exec 1 [] (.buy 4 8),
    .send20 50 5 77 (some (.createListing 6 ⟨⟨[⟨1, 995⟩], [], []⟩, none⟩)),
    .exec 5 [] (.finalize 6 600) ]
def w : World := run AcctEx.w0 ops
def wSold : World := run AcctEx.w0 (AcctEx.ops.take 7)
end C10REx

example : AcctEx.w0.mkt = instantiate 0 (some 102) := rfl
example :
    C10REx.w.mkt.listings.map (fun p => (p.1, p.2.status, p.2.fee)) =
      [((5, 6), .finalized, none), ((1, 4), .closed, none)] ∧
    C10REx.w.mkt.buckets.map (fun p => (p.1, p.2.fee, p.2.funds)) =
      [((2, 8), some ⟨1, 5⟩, ⟨[⟨1, 995⟩], [], []⟩)] ∧
    C10REx.wSold.mkt.listings.map (fun p => (p.1, p.2.status, p.2.fee)) =
      [((2, 3), .closed, some ⟨1, 5⟩)] := by decide

section
variable {w0 : World} {t : Nat} {r : Option Nat}

/-! ## 1. the ledger of pending fees -/

/-- "deposited … in full and exactly once … never dropped, duplicated, paid to a user, or lost
    when the record is traded again", in every reachable state: the pending-fee ledger of every
    accepted call balances.  Per denomination, what is recorded as pending afterwards plus what
    the call's fund-community-pool messages deposit equals what was pending before plus what the
    call charges (zero except for `buy`).  (`IdsInv`, `WFInv` discharged.) -/
theorem C10_execute_pending_reach (h0 : w0.mkt = instantiate t r) (ops : List Op) {m' : Market}
    {env : Env} {out : List OutMsg} {sender : Nat} {funds : List Coin} {msg : ExecMsg}
    (h : execute (run w0 ops).mkt env sender funds msg = .ok (m', out)) :
    ∀ d, pendingFee m' d + poolPaid out d =
      pendingFee (run w0 ops).mkt d + charged (run w0 ops).mkt env sender msg d :=
  C10_execute_pending (closed_ids h0 ops) (closed_wf0 h0 ops) h

/-- non-vacuity of `C10_execute_pending_reach`: in the sample state the second purchase with the
    fee-bearing bucket and the withdrawal of that bucket are accepted calls; the numbers of the
    purchase in denom 1: 5 pending before, the purchase charges 4 (on the 995) … -/
example :
    C12Ex.errOf (execute C10REx.w.mkt C10REx.w.env 2 [] (.buy 6 8)) = none ∧
    C12Ex.errOf (execute C10REx.w.mkt C10REx.w.env 2 [] (.removeBucket 8)) = none ∧
    pendingFee C10REx.w.mkt 1 = 5 ∧ charged C10REx.w.mkt C10REx.w.env 2 (.buy 6 8) 1 = 4 := by decide
/-- … deposits the old 5 and leaves 4 pending -/
example : (step C10REx.w (.exec 2 [] (.buy 6 8))).2.msgs = [.fundPool 100 ⟨1, 5⟩] ∧
    pendingFee (step C10REx.w (.exec 2 [] (.buy 6 8))).1.mkt 1 = 4 := by decide

/-! ## 2. the message is well-formed -/

/-- "by a well-formed fund-community-pool message whose depositor is the marketplace and whose
    amount is the recorded fee", in every reachable state: every pool deposit an accepted call
    emits names the marketplace (`env.self`) as depositor and carries the `fee` field of a record
    of the pre-state; that fee is non-zero and in one of the two fee denominations.  `hj`, `hu`:
    the handler environment shows the world's two fee denominations (input side; the invariants
    `IdsInv`, `WFInv` are discharged). -/
theorem C10_wellformed_reach (h0 : w0.mkt = instantiate t r) (ops : List Op) {m' : Market}
    {env : Env} {out : List OutMsg} {sender : Nat} {funds : List Coin} {msg : ExecMsg}
    (hj : env.junoD = w0.junoD) (hu : env.usdcD = w0.usdcD)
    (h : execute (run w0 ops).mkt env sender funds msg = .ok (m', out)) :
    ∀ dep c, OutMsg.fundPool dep c ∈ out →
      dep = env.self ∧ RecFee (run w0 ops).mkt c ∧ c.amount ≠ 0 ∧
      (c.key = env.junoD ∨ c.key = env.usdcD) :=
  C10_wellformed (closed_ids h0 ops) (reach_wf_env h0 ops hj hu) h

/-- non-vacuity of `C10_wellformed_reach`: the environment of the reached world shows the initial
    denominations, and the second purchase emits a pool deposit -/
example : C10REx.w.env.junoD = AcctEx.w0.junoD ∧ C10REx.w.env.usdcD = AcctEx.w0.usdcD ∧
    C12Ex.errOf (execute C10REx.w.mkt C10REx.w.env 2 [] (.buy 6 8)) = none ∧
    (step C10REx.w (.exec 2 [] (.buy 6 8))).2.msgs = [.fundPool 100 ⟨1, 5⟩] :=
  ⟨rfl, rfl, by decide, by decide⟩

/-- … for whole transactions: **every** fund-community-pool message reported by **any**
    transaction from **any** reachable state — marketplace messages of any account, forged hook
    calls, CW20 / CW721 sends, registry messages, admin changes, the passage of time — names the
    marketplace as depositor and carries a recorded, non-zero fee in one of the two fee
    denominations.  No hypothesis other than reachability. -/
theorem C10_wellformed_step_reach (h0 : w0.mkt = instantiate t r) (ops : List Op) (op : Op) :
    ∀ dep c, OutMsg.fundPool dep c ∈ (step (run w0 ops) op).2.msgs →
      dep = w0.self ∧ RecFee (run w0 ops).mkt c ∧ c.amount ≠ 0 ∧
      (c.key = w0.junoD ∨ c.key = w0.usdcD) := by
  intro dep c hm
  rcases reach_step_msgs (run w0 ops) op with hnil | ⟨s, f, msg, m', _, hx, _, _⟩
  · rw [hnil] at hm; cases hm
  · obtain ⟨h1, h2, h3, h4⟩ := C10_wellformed (closed_ids h0 ops) (reach_wf_own_env h0 ops) hx dep c hm
    refine ⟨h1.trans (closed_run_addrs w0 ops).1, h2, h3, ?_⟩
    have hd := run_denoms w0 ops
    rcases h4 with h4 | h4
    · exact .inl (h4.trans hd.1)
    · exact .inr (h4.trans hd.2)

/-- it is not vacuous: the transactions of the sample state that report a pool deposit -/
example : (step C10REx.w (.exec 2 [] (.buy 6 8))).2.msgs = [.fundPool 100 ⟨1, 5⟩] ∧
    (step C10REx.w (.exec 2 [] (.removeBucket 8))).2.msgs =
      [.bankSend 2 [⟨1, 995⟩], .fundPool 100 ⟨1, 5⟩] ∧
    (step C10REx.wSold (.advance NS 1)).2.msgs = [] := by decide

/-! ## 3. timeliness -/

/-- "no later than when that side's proceeds leave the marketplace" (bucket), in every reachable
    state: the response that sends a bucket's contents to its owner ends with the deposit of the
    bucket's pending fee, and removes the record.  From reachability: the bucket belongs to the
    caller, its fee (if any) is non-zero and in a fee denomination, the response deposits exactly
    that fee — `poolPaid out d = feeAmt b.fee d`, after which that much less is pending — and no
    bucket with this id is left under *any* key, so this was the last payout of this record:
    "in full and exactly once". -/
theorem C10_withdrawBucket_reach (h0 : w0.mkt = instantiate t r) (ops : List Op) {m' : Market}
    {env : Env} {out : List OutMsg} {user id : Nat}
    (h : withdrawBucket (run w0 ops).mkt env user id = .ok (m', out)) :
    ∃ b, alookup (user, id) (run w0 ops).mkt.buckets = some b ∧
      out = sendTokens b.owner b.funds ++ feeMsg env.self b.fee ∧
      m'.buckets = aerase (user, id) (run w0 ops).mkt.buckets ∧
      alookup (user, id) m'.buckets = none ∧
      -- from reachability
      b.owner = user ∧ wfFee w0.junoD w0.usdcD b.fee = true ∧
      (∀ who, alookup (who, id) m'.buckets = none) ∧
      (∀ d, poolPaid out d = feeAmt b.fee d) ∧
      (∀ d, pendingFee m' d + feeAmt b.fee d = pendingFee (run w0 ops).mkt d) := by
  obtain ⟨b, hb, hout, hm, hnone⟩ := C10_withdrawBucket h
  obtain ⟨ho, _, hfee⟩ := reach_bucket h0 ops hb
  have hpaid : ∀ d, poolPaid out d = feeAmt b.fee d := by
    intro d
    rw [hout, poolPaid_append, poolPaid_sendTokens, poolPaid_feeMsg, Nat.zero_add]
  refine ⟨b, hb, hout, hm, hnone, ho, hfee, ?_, hpaid, ?_⟩
  · intro who
    rw [hm]
    exact reach_bucket_erased h0 ops hb who
  · intro d
    have hx : execute (run w0 ops).mkt env user [] (.removeBucket id) = .ok (m', out) := by
      rw [execute_nil_removeBucket]; exact h
    have := C10_execute_pending_reach h0 ops hx d
    rw [hpaid d] at this
    simpa [charged] using this

/-- non-vacuity of `C10_withdrawBucket_reach`: the owner withdraws the fee-bearing bucket 8;
    computed: 995 to the owner, then the fee of 5 to the pool -/
example : C12Ex.errOf (withdrawBucket C10REx.w.mkt C10REx.w.env 2 8) = none ∧
    (step C10REx.w (.exec 2 [] (.removeBucket 8))).2.msgs =
      [.bankSend 2 [⟨1, 995⟩], .fundPool 100 ⟨1, 5⟩] := by decide

/-- "no later than when that side's proceeds leave the marketplace" (purchased listing), in every
    reachable state: the response that sends the purchased goods to the claimant ends with the
    deposit of the listing's pending fee, and removes the record.  From reachability: the record
    is the closed one filed under the claimant's own key, the response deposits exactly its fee,
    after which that much less is pending, and no listing with this id is left: "in full and
    exactly once". -/
theorem C10_withdrawPurchased_reach (h0 : w0.mkt = instantiate t r) (ops : List Op) {m' : Market}
    {env : Env} {out : List OutMsg} {who lid : Nat}
    (h : withdrawPurchased (run w0 ops).mkt env who lid = .ok (m', out)) :
    ∃ k l, findById lid (run w0 ops).mkt.listings = some (k, l) ∧ l.claimant = some who ∧
      out = sendTokens who l.forSale ++ feeMsg env.self l.fee ∧
      m'.listings = aerase (who, lid) (run w0 ops).mkt.listings ∧
      -- from reachability
      k = (who, lid) ∧ l.creator = who ∧ l.status = .closed ∧
      wfFee w0.junoD w0.usdcD l.fee = true ∧ findById lid m'.listings = none ∧
      (∀ d, poolPaid out d = feeAmt l.fee d) ∧
      (∀ d, pendingFee m' d + feeAmt l.fee d = pendingFee (run w0 ops).mkt d) := by
  obtain ⟨k, l, hl, hc, hout, hm⟩ := C10_withdrawPurchased h
  obtain ⟨k2, l2, hl2, _, hs, _⟩ := withdrawPurchased_inv h
  rw [hl] at hl2
  cases hl2
  obtain ⟨hmem, _, hk, _, hwf⟩ := reach_find h0 ops hl
  have hcr : l.creator = who := by
    have := (reach_claimant_iff h0 ops hmem).2 hs
    rw [hc] at this
    exact (Option.some.inj this).symm
  have hfee : wfFee w0.junoD w0.usdcD l.fee = true := by
    unfold wfListing at hwf
    rw [hs] at hwf
    simp only [Bool.and_eq_true] at hwf
    exact hwf.2.2
  have hpaid : ∀ d, poolPaid out d = feeAmt l.fee d := by
    intro d
    rw [hout, poolPaid_append, poolPaid_sendTokens, poolPaid_feeMsg, Nat.zero_add]
  refine ⟨k, l, hl, hc, hout, hm, by rw [hk, hcr], hcr, hs, hfee,
    (C03_claim_once_listing (closed_ids h0 ops) (closed_wf0 h0 ops) h).1, hpaid, ?_⟩
  intro d
  have hx : execute (run w0 ops).mkt env who [] (.withdrawPurchased lid) = .ok (m', out) := by
    rw [execute_nil_withdrawPurchased]; exact h
  have := C10_execute_pending_reach h0 ops hx d
  rw [hpaid d] at this
  simpa [charged] using this

/-- non-vacuity of `C10_withdrawPurchased_reach`: buyer 2 withdraws the purchased listing 3, which
    carries a fee of 5; computed: the goods (995 of denom 1, the tokens, the NFT), then the fee -/
example : C12Ex.errOf (withdrawPurchased C10REx.wSold.mkt C10REx.wSold.env 2 3) = none ∧
    (step C10REx.wSold (.exec 2 [] (.withdrawPurchased 3))).2.msgs =
      [.bankSend 2 [⟨1, 995⟩], .cw20Transfer 50 2 400, .nftTransfer 60 7 2, .fundPool 100 ⟨1, 5⟩] := by
  decide

/-- "or lost when the record is traded again before being withdrawn" (repair of defect D1), in
    every reachable state: a purchase paid with a bucket that still carries a pending fee deposits
    that fee in the same response, before the bucket is re-filed with the new fee.  From
    reachability: the fee is non-zero and in a fee denomination, and the response deposits
    **exactly** that fee into the pool — nothing is duplicated, and nothing else can be lost,
    because the listing a purchase consumes carries no fee (`C10_buy_listing_no_fee_reach`). -/
theorem C10_buy_pays_old_reach (h0 : w0.mkt = instantiate t r) (ops : List Op) {m' : Market}
    {env : Env} {out : List OutMsg} {buyer lid bid : Nat} {b : Bucket} {f : Coin}
    (h : buy (run w0 ops).mkt env buyer lid bid = .ok (m', out))
    (hb : alookup (buyer, bid) (run w0 ops).mkt.buckets = some b) (hf : b.fee = some f) :
    OutMsg.fundPool env.self f ∈ out ∧
    -- from reachability
    f.amount ≠ 0 ∧ (f.key = w0.junoD ∨ f.key = w0.usdcD) ∧
    (∀ d, poolPaid out d = feeAmt (some f) d) := by
  have hwf := (reach_bucket h0 ops hb).2.2
  rw [hf] at hwf
  obtain ⟨h1, h2⟩ := wfFee_some hwf
  refine ⟨C10_buy_pays_old h hb hf, h1, h2, fun d => ?_⟩
  rw [reach_buy_poolPaid h hb d, hf]

/-- non-vacuity of `C10_buy_pays_old_reach`: account 2 pays for listing 6 with the proceeds bucket
    8, which still carries the fee of 5 from the sale of listing 4 … -/
example : C12Ex.errOf (buy C10REx.w.mkt C10REx.w.env 2 6 8) = none ∧
    (alookup (2, 8) C10REx.w.mkt.buckets).map (·.fee) = some (some ⟨1, 5⟩) := by decide
/-- … computed: the old fee of 5 is deposited by the purchase, the bucket goes to the seller 5
    with the new fee of 4 (0.5 % of 995), and both fees reach the pool once bucket 8 is finally
    withdrawn: 9 in total, nothing pending -/
example : (step C10REx.w (.exec 2 [] (.buy 6 8))).2.msgs = [.fundPool 100 ⟨1, 5⟩] ∧
    (step C10REx.w (.exec 2 [] (.buy 6 8))).1.mkt.buckets.map (fun p => (p.1, p.2.fee, p.2.funds)) =
      [((5, 8), some ⟨1, 4⟩, ⟨[⟨1, 991⟩], [], []⟩)] ∧
    lget (run C10REx.w [.exec 2 [] (.buy 6 8), .exec 5 [] (.removeBucket 8)]).bank (101, 1) = 9 ∧
    pendingFee (run C10REx.w [.exec 2 [] (.buy 6 8), .exec 5 [] (.removeBucket 8)]).mkt 1 = 0 := by
  decide

/-- a listing can only be traded again after it has been withdrawn, so the listing side needs no
    such payment: in every reachable state the listing a purchase consumes carries no fee -/
theorem C10_buy_listing_no_fee_reach (h0 : w0.mkt = instantiate t r) (ops : List Op) {m' : Market}
    {env : Env} {out : List OutMsg} {buyer lid bid : Nat}
    (h : buy (run w0 ops).mkt env buyer lid bid = .ok (m', out)) :
    ∃ k l, findById lid (run w0 ops).mkt.listings = some (k, l) ∧ l.fee = none :=
  C10_buy_listing_no_fee (closed_ids h0 ops) (closed_wf0 h0 ops) h

example : C12Ex.errOf (buy C10REx.w.mkt C10REx.w.env 2 6 8) = none := by decide

/-- deleting a listing of a reachable state never emits a pool message — and never needs to: the
    deleted listing has no claimant, hence was never traded and carries no fee -/
theorem C10_delete_no_pool_reach (h0 : w0.mkt = instantiate t r) (ops : List Op) {m' : Market}
    {env : Env} {out : List OutMsg} {sender id : Nat}
    (h : deleteListing (run w0 ops).mkt env sender id = .ok (m', out)) :
    (∀ dep c, OutMsg.fundPool dep c ∉ out) ∧
    ∃ l, alookup (sender, id) (run w0 ops).mkt.listings = some l ∧ l.fee = none :=
  C10_delete_no_pool (closed_ids h0 ops) (closed_wf0 h0 ops) h

/-- non-vacuity of `C10_delete_no_pool_reach`: the preparing listing 3 after three operations of
    the sample history can be deleted by its creator -/
example : C12Ex.errOf (deleteListing (run AcctEx.w0 (AcctEx.ops.take 3)).mkt
    (run AcctEx.w0 (AcctEx.ops.take 3)).env 1 3) = none := by decide

/-- **"a never-traded record has no fee"**, as a theorem about reachable states: every listing
    stored in a reachable state that is not closed (never sold) carries no pending fee.  (The
    counterexample `AcctEx.badMkt` of Props/C10.lean, on which `deleteListing` drops a fee, is
    therefore not reachable.) -/
theorem C10_untraded_no_fee_reach (h0 : w0.mkt = instantiate t r) (ops : List Op) {k : Nat × Nat}
    {l : Listing} (hm : (k, l) ∈ (run w0 ops).mkt.listings) (hs : l.status ≠ .closed) :
    l.fee = none :=
  C10_untraded_no_fee (closed_wf0 h0 ops) (mem_nodup_alookup (closed_ids h0 ops).lkeys hm) hs

/-- non-vacuity of `C10_untraded_no_fee_reach`: the finalized listing 6 of the sample state -/
example : ∃ p ∈ C10REx.w.mkt.listings, p.2.status ≠ .closed := by decide

/-- … read the other way round: a pending fee on a listing of a reachable state is non-zero, in
    one of the two fee denominations, and sits on a **sold** record — closed, with the buyer as
    holder and claimant — i.e. on a record whose proceeds have not left the marketplace yet. -/
theorem C10_fee_traded_reach (h0 : w0.mkt = instantiate t r) (ops : List Op) {k : Nat × Nat}
    {l : Listing} {c : Coin} (hm : (k, l) ∈ (run w0 ops).mkt.listings) (hf : l.fee = some c) :
    l.status = .closed ∧ l.claimant = some l.creator ∧ c.amount ≠ 0 ∧
    (c.key = w0.junoD ∨ c.key = w0.usdcD) := by
  obtain ⟨h1, h2, h3⟩ := wfListing_fee (closed_wfListing h0 ops hm) hf
  exact ⟨h3, (reach_claimant_iff h0 ops hm).2 h3, h1, h2⟩

/-- non-vacuity of `C10_fee_traded_reach`: the sold listing 3 carries the fee of 5 -/
example : ∃ p ∈ C10REx.wSold.mkt.listings, p.2.fee = some ⟨1, 5⟩ := by decide

/-- the same for buckets: a pending fee on a bucket of a reachable state is non-zero and in one of
    the two fee denominations (whether a bucket has been traded is not recorded on it) -/
theorem C10_bucket_fee_reach (h0 : w0.mkt = instantiate t r) (ops : List Op) {k : Nat × Nat}
    {b : Bucket} {c : Coin} (hm : (k, b) ∈ (run w0 ops).mkt.buckets) (hf : b.fee = some c) :
    c.amount ≠ 0 ∧ (c.key = w0.junoD ∨ c.key = w0.usdcD) :=
  wfBucket_fee ((closed_wf0 h0 ops).bwf _ hm) hf

example : ∃ p ∈ C10REx.w.mkt.buckets, p.2.fee = some ⟨1, 5⟩ := by decide

/-! ## 4. world level: the ghost ledger -/

/-- the invariants `C10_step` / `C10_conservation` carry along hold in every state reached from
    instantiation, given the side conditions on the initial world and on the operations -/
theorem C10Inv_reach (h0 : w0.mkt = instantiate t r) (hpool : w0.pool ≠ w0.self)
    (hpay : PayoutsNe w0.reg w0.pool) (ops : List Op) (hops : ∀ op ∈ ops, op.avoids w0.pool) :
    C10Inv (run w0 ops) := by
  obtain ⟨hs, hp⟩ := closed_run_addrs w0 ops
  refine ⟨closed_ids h0 ops, closed_wf h0 ops, ?_, ?_⟩
  · rw [hs, hp]; exact hpool
  · rw [hp]; exact reach_payouts_run hpay ops hops

/-- Conservation across one transaction from any reachable state: the community pool's balance
    plus the fees still recorded as pending grows by exactly the fees charged.  `IdsInv` / `WFInv`
    are discharged; what remains are the side conditions "nobody else pays the pool", on the
    initial world (the pool is not the marketplace, no registry entry pays out to the pool) and on
    the operations (none is signed by the pool or registers it as payout address). -/
theorem C10_step_reach (h0 : w0.mkt = instantiate t r) (hpool : w0.pool ≠ w0.self)
    (hpay : PayoutsNe w0.reg w0.pool) (ops : List Op) (hops : ∀ op ∈ ops, op.avoids w0.pool)
    {op : Op} (hop : op.avoids w0.pool) :
    ∀ d, lget (step (run w0 ops) op).1.bank (w0.pool, d) + pendingFee (step (run w0 ops) op).1.mkt d =
      lget (run w0 ops).bank (w0.pool, d) + pendingFee (run w0 ops).mkt d +
        chargedStep (run w0 ops) op d := by
  have hI := C10Inv_reach h0 hpool hpay ops hops
  have hp := (closed_run_addrs w0 ops).2
  have := C10_step hI.ids hI.wf hI.pool hI.payouts (op := op) (by rw [hp]; exact hop)
  rw [hp] at this
  exact this

/-- non-vacuity of `C10_step_reach`: the sample world, history and the second purchase meet the
    side conditions (the pool is 101, the only payout address is 9) -/
example : AcctEx.w0.pool ≠ AcctEx.w0.self ∧ PayoutsNe AcctEx.w0.reg AcctEx.w0.pool ∧
    (∀ op ∈ C10REx.ops, op.avoids AcctEx.w0.pool) ∧
    (Op.exec 2 [] (.buy 6 8)).avoids AcctEx.w0.pool :=
  ⟨by decide, AcctEx.w0_payouts 101 (by decide), by decide, by decide⟩

/-- "Every fee charged reaches the community pool exactly once", along every history from
    instantiation: per denomination, `pool balance + pending fees = initial pool balance +
    Σ fees charged` (nothing is pending right after instantiation).  So whenever no fee is pending
    — in particular once every traded record has been withdrawn — the pool has received every fee
    charged, once. -/
theorem C10_conservation_reach (h0 : w0.mkt = instantiate t r) (hpool : w0.pool ≠ w0.self)
    (hpay : PayoutsNe w0.reg w0.pool) (ops : List Op) (hops : ∀ op ∈ ops, op.avoids w0.pool)
    (d : Nat) :
    lget (run w0 ops).bank (w0.pool, d) + pendingFee (run w0 ops).mkt d =
      lget w0.bank (w0.pool, d) + chargedRun w0 ops d := by
  have h := C10_conservation_closed ops
    (C10Inv_reach h0 hpool hpay [] (fun _ ho => (by cases ho))) hops d
  have h00 : pendingFee w0.mkt d = 0 := by rw [h0]; rfl
  have e : run w0 [] = w0 := rfl
  rw [e] at h
  omega

/-- non-vacuity of `C10_conservation_reach`, computed on the sample history extended by the second
    purchase and the final withdrawal of bucket 8: fees of 5 and 4 are charged in denom 1, the
    pool ends up with 9 and nothing is pending -/
example : (∀ op ∈ C10REx.ops ++ [.exec 2 [] (.buy 6 8), .exec 5 [] (.removeBucket 8)],
      op.avoids AcctEx.w0.pool) ∧
    chargedRun AcctEx.w0 (C10REx.ops ++ [.exec 2 [] (.buy 6 8), .exec 5 [] (.removeBucket 8)]) 1 = 9 ∧
    lget (run AcctEx.w0 (C10REx.ops ++ [.exec 2 [] (.buy 6 8), .exec 5 [] (.removeBucket 8)])).bank
      (101, 1) = 9 ∧
    pendingFee (run AcctEx.w0 (C10REx.ops ++ [.exec 2 [] (.buy 6 8), .exec 5 [] (.removeBucket 8)])).mkt
      1 = 0 ∧
    lget AcctEx.w0.bank (101, 1) = 0 := by decide

end

/-! ## axioms -/

#print axioms C10_execute_pending_reach
#print axioms C10_wellformed_reach
#print axioms C10_wellformed_step_reach
#print axioms C10_withdrawBucket_reach
#print axioms C10_withdrawPurchased_reach
#print axioms C10_buy_pays_old_reach
#print axioms C10_buy_listing_no_fee_reach
#print axioms C10_delete_no_pool_reach
#print axioms C10_untraded_no_fee_reach
#print axioms C10_fee_traded_reach
#print axioms C10_bucket_fee_reach
#print axioms C10Inv_reach
#print axioms C10_step_reach
#print axioms C10_conservation_reach

end Fuzion
