/-
  Fuzion.Props.C06Closed — C06 ("A trade costs exactly the 0.5% fee plus registered royalties,
  nothing more") for every state reached from a freshly instantiated marketplace.

  The purchase theorems of Props/C06.lean assume, of the state in which `buy` runs,
  * `WFInv j u m` (C12) and, for two of them, `IdsInv m` (C09) — discharged here by `C12_reach` /
    `C09_reach`;
  * `∀ p ∈ m.listings, p.2.forSale.bounded` and `∀ p ∈ m.buckets, p.2.funds.bounded`: every stored
    amount is a `Uint128` — discharged here by the invariant `BoundedInv`
    (Lemmas/ClosedLemmas.lean §3), which every operation preserves **provided the amounts the
    operations themselves carry are `Uint128`s** (`Op.fits128`: the attached coins, the amount of a
    CW20 `Send`, the amount a — possibly forged — `Receive` hook call reports).  This is an
    input-side hypothesis on `ops` and it cannot be dropped in the model: amounts are unbounded
    naturals there, and a forged hook call (finding C18) may report any number, whatever the token
    supplies are; in the Rust it is the type `Uint128` of the fields `Coin.amount` and
    `Cw20ReceiveMsg.amount`, so no message can violate it.  No supply bound on the initial world is
    needed: creations store the deposit, top-ups abort on overflow, a purchase only subtracts.

  What remains: the input of the purchase itself (`hfd` names the fee denomination in force; `h` /
  `hok` says the purchase was accepted).  `C06_collections_distinct`, `C06_payout_messages`,
  `C06_traders_untouched` and `C06_model_eq_spec` have no state-invariant hypothesis and are not
  restated.
-/
import Fuzion.Props.C06
import Fuzion.Lemmas.ClosedLemmas
namespace Fuzion

/-! ### sample reachable state for the non-vacuity examples

From the sample deployment `AcctEx.w0`, the first six operations of the sample history: seller 1
lists 1000 of denom 1 (the fee denomination), 400 of token 50 and NFT (60, 7) of the registered
collection 60 (2.5 %, payout address 6 after the registry update) for 2000 of denom 2 and
finalizes; buyer 2 fills bucket 8 with the price.  The next operation of the history is the
purchase. -/

namespace C06CEx
def ops : List Op := AcctEx.ops.take 6
def w : World := run AcctEx.w0 ops
end C06CEx

/-- the hypotheses shared by all theorems of this file are met: instantiated, 128-bit operations,
    and the purchase is accepted in the reached state (by the handler and as a transaction) -/
example : AcctEx.w0.mkt = instantiate 0 (some 102) ∧ (∀ op ∈ C06CEx.ops, op.fits128) ∧
    C12Ex.errOf (buy C06CEx.w.mkt C06CEx.w.env 2 3 8) = none ∧
    (step C06CEx.w (.exec 2 [] (.buy 3 8))).2.ok = true := ⟨rfl, by decide, by decide, by decide⟩

section
variable {w0 : World} {t : Nat} {r : Option Nat}

/-- "each side is reduced by exactly floor(0.5%) of its amount in the current fee denomination
    (when present and non-zero) and then, for every distinct royalty-registered collection among
    the NFTs the seller is selling (charged to the bucket) or the buyer is paying with (charged to
    the listing goods), by floor(bps/10000 x post-fee amount) of every fungible asset on that
    side" — for a purchase accepted in any reachable state.  (a) recorded fees, (b) amounts per
    denomination / token, (c) NFTs unchanged, (d) the other fields, as in `C06_buy_effect`. -/
theorem C06_buy_effect_reach (h0 : w0.mkt = instantiate t r) (ops : List Op)
    (hfit : ∀ op ∈ ops, op.fits128) {m' : Market} {env : Env} {buyer lid bid fd : Nat}
    {out : List OutMsg} (hfd : fd = feeDenomOf env (run w0 ops).mkt.feeKind)
    (h : buy (run w0 ops).mkt env buyer lid bid = .ok (m', out)) :
    ∃ l b l' b',
      alookup (l.creator, lid) (run w0 ops).mkt.listings = some l ∧
      alookup (buyer, bid) (run w0 ops).mkt.buckets = some b ∧
      alookup (buyer, lid) m'.listings = some l' ∧ alookup (l.creator, bid) m'.buckets = some b' ∧
      -- (a)
      b'.fee = feeOf fd b.funds ∧ l'.fee = feeOf fd l.forSale ∧
      -- (b) the bucket, charged with the seller's collections
      (∀ k, coinAmt b'.funds.native k = afterFeeAmt fd b.funds k -
        royaltyOn (sideEntries env l.forSale) (afterFeeAmt fd b.funds k)) ∧
      (∀ k, coinAmt b'.funds.cw20 k = coinAmt b.funds.cw20 k -
        royaltyOn (sideEntries env l.forSale) (coinAmt b.funds.cw20 k)) ∧
      -- (b) the listing goods, charged with the buyer's collections
      (∀ k, coinAmt l'.forSale.native k = afterFeeAmt fd l.forSale k -
        royaltyOn (sideEntries env b.funds) (afterFeeAmt fd l.forSale k)) ∧
      (∀ k, coinAmt l'.forSale.cw20 k = coinAmt l.forSale.cw20 k -
        royaltyOn (sideEntries env b.funds) (coinAmt l.forSale.cw20 k)) ∧
      -- (c)
      b'.funds.nfts = b.funds.nfts ∧ l'.forSale.nfts = l.forSale.nfts ∧
      -- (d)
      l'.ask = l.ask ∧ l'.whitelist = l.whitelist ∧ l'.finalizedAt = l.finalizedAt ∧
      l'.expiresAt = l.expiresAt ∧ l'.id = l.id ∧ l'.creator = buyer ∧ l'.claimant = some buyer ∧
      l'.status = .closed ∧ b'.owner = l.creator :=
  C06_buy_effect hfd (closed_wf0 h0 ops) (closed_ids h0 ops) (closed_bounded h0 ops hfit).lb
    (closed_bounded h0 ops hfit).bb h

/-- non-vacuity of `C06_buy_effect_reach`: it applies to the sample purchase … -/
example {m' : Market} {out : List OutMsg}
    (h : buy C06CEx.w.mkt C06CEx.w.env 2 3 8 = .ok (m', out)) :=
  C06_buy_effect_reach (w0 := AcctEx.w0) rfl C06CEx.ops (by decide) rfl h
/-- … whose result, computed: the goods keep 995 of denom 1 (fee 5) and the 400 tokens and the
    NFT (the buyer pays with no NFT); the bucket keeps 1950 = 2000 − ⌊2000·250/10⁴⌋ of denom 2 -/
example : (step C06CEx.w (.exec 2 [] (.buy 3 8))).1.mkt.listings.map
      (fun p => (p.1, p.2.fee, p.2.forSale)) =
      [((2, 3), some ⟨1, 5⟩, ⟨[⟨1, 995⟩], [⟨50, 400⟩], [⟨60, 7⟩]⟩)] ∧
    (step C06CEx.w (.exec 2 [] (.buy 3 8))).1.mkt.buckets.map (fun p => (p.1, p.2.fee, p.2.funds)) =
      [((1, 8), none, ⟨[⟨2, 1950⟩], [], []⟩)] := by decide

/-- "Those royalties are paid to the registered payout addresses in the same transaction": the
    messages of a purchase accepted in any reachable state are the pending fee of the paying
    bucket (if any), then the royalty payouts charged to the bucket, then those charged to the
    listing goods. -/
theorem C06_payouts_reach (h0 : w0.mkt = instantiate t r) (ops : List Op)
    (hfit : ∀ op ∈ ops, op.fits128) {m' : Market} {env : Env} {buyer lid bid fd : Nat}
    {out : List OutMsg} (hfd : fd = feeDenomOf env (run w0 ops).mkt.feeKind)
    (h : buy (run w0 ops).mkt env buyer lid bid = .ok (m', out)) :
    ∃ k l b, findById lid (run w0 ops).mkt.listings = some (k, l) ∧
      alookup (buyer, bid) (run w0 ops).mkt.buckets = some b ∧
      out = pendingFeeMsgs env.self b.fee ++
        royaltyMsgs (sideEntries env l.forSale) (afterFee fd b.funds) ++
        royaltyMsgs (sideEntries env b.funds) (afterFee fd l.forSale) :=
  C06_payouts hfd (closed_wf0 h0 ops) (closed_bounded h0 ops hfit).lb
    (closed_bounded h0 ops hfit).bb h

/-- non-vacuity of `C06_payouts_reach`; the sample purchase emits the single royalty transfer of
    50 of denom 2 to the payout address 6 -/
example {m' : Market} {out : List OutMsg}
    (h : buy C06CEx.w.mkt C06CEx.w.env 2 3 8 = .ok (m', out)) :=
  C06_payouts_reach (w0 := AcctEx.w0) rfl C06CEx.ops (by decide) rfl h
example : (step C06CEx.w (.exec 2 [] (.buy 3 8))).2.msgs = [.bankSend 6 [⟨2, 50⟩]] := by decide

/-- "paid to the registered payout addresses … once per collection per side": per payout address
    `p`, a purchase accepted in any reachable state sends `p`, in native denomination `d`, the sum
    over the entries paying to `p` of `⌊bps/10⁴ × post-fee amount of d⌋` of the bucket (entries of
    the seller's collections) plus the same of the listing goods (entries of the buyer's
    collections); likewise per CW20 token. -/
theorem C06_payout_total_reach (h0 : w0.mkt = instantiate t r) (ops : List Op)
    (hfit : ∀ op ∈ ops, op.fits128) {m' : Market} {env : Env} {buyer lid bid fd : Nat}
    {out : List OutMsg} (hfd : fd = feeDenomOf env (run w0 ops).mkt.feeKind)
    (h : buy (run w0 ops).mkt env buyer lid bid = .ok (m', out)) :
    ∃ k l b, findById lid (run w0 ops).mkt.listings = some (k, l) ∧
      alookup (buyer, bid) (run w0 ops).mkt.buckets = some b ∧
      (∀ p d, sentNative out p d =
        royaltyOn ((sideEntries env l.forSale).filter fun e => decide (e.payout = p))
          (afterFeeAmt fd b.funds d) +
        royaltyOn ((sideEntries env b.funds).filter fun e => decide (e.payout = p))
          (afterFeeAmt fd l.forSale d)) ∧
      (∀ p tk, sentCw20 out p tk =
        royaltyOn ((sideEntries env l.forSale).filter fun e => decide (e.payout = p))
          (coinAmt b.funds.cw20 tk) +
        royaltyOn ((sideEntries env b.funds).filter fun e => decide (e.payout = p))
          (coinAmt l.forSale.cw20 tk)) :=
  C06_payout_total hfd (closed_wf0 h0 ops) (closed_bounded h0 ops hfit).lb
    (closed_bounded h0 ops hfit).bb h

/-- non-vacuity of `C06_payout_total_reach` -/
example {m' : Market} {out : List OutMsg}
    (h : buy C06CEx.w.mkt C06CEx.w.env 2 3 8 = .ok (m', out)) :=
  C06_payout_total_reach (w0 := AcctEx.w0) rfl C06CEx.ops (by decide) rfl h

/-- "No other deduction occurs", for a purchase accepted in any reachable state: per native
    denomination, what a side held before the purchase is what it holds afterwards plus the fee
    recorded on the new record plus what the royalty messages charged to that side send out; per
    CW20 token the same without a fee; the amounts sent out are the royalty totals, and they never
    exceed half of what is left after the fee. -/
theorem C06_no_other_deduction_reach (h0 : w0.mkt = instantiate t r) (ops : List Op)
    (hfit : ∀ op ∈ ops, op.fits128) {m' : Market} {env : Env} {buyer lid bid fd : Nat}
    {out : List OutMsg} (hfd : fd = feeDenomOf env (run w0 ops).mkt.feeKind)
    (h : buy (run w0 ops).mkt env buyer lid bid = .ok (m', out)) :
    ∃ l b l' b' msgsB msgsL,
      alookup (l.creator, lid) (run w0 ops).mkt.listings = some l ∧
      alookup (buyer, bid) (run w0 ops).mkt.buckets = some b ∧
      alookup (buyer, lid) m'.listings = some l' ∧ alookup (l.creator, bid) m'.buckets = some b' ∧
      out = pendingFeeMsgs env.self b.fee ++ msgsB ++ msgsL ∧
      msgsB = royaltyMsgs (sideEntries env l.forSale) (afterFee fd b.funds) ∧
      msgsL = royaltyMsgs (sideEntries env b.funds) (afterFee fd l.forSale) ∧
      -- the bucket
      (∀ k, coinAmt b.funds.native k =
        coinAmt b'.funds.native k + feeAmt b'.fee k + outNative msgsB k) ∧
      (∀ k, coinAmt b.funds.cw20 k = coinAmt b'.funds.cw20 k + outCw20 msgsB k) ∧
      (∀ k, outNative msgsB k = royaltyOn (sideEntries env l.forSale) (afterFeeAmt fd b.funds k)) ∧
      (∀ k, outCw20 msgsB k = royaltyOn (sideEntries env l.forSale) (coinAmt b.funds.cw20 k)) ∧
      -- the listing goods
      (∀ k, coinAmt l.forSale.native k =
        coinAmt l'.forSale.native k + feeAmt l'.fee k + outNative msgsL k) ∧
      (∀ k, coinAmt l.forSale.cw20 k = coinAmt l'.forSale.cw20 k + outCw20 msgsL k) ∧
      (∀ k, outNative msgsL k = royaltyOn (sideEntries env b.funds) (afterFeeAmt fd l.forSale k)) ∧
      (∀ k, outCw20 msgsL k = royaltyOn (sideEntries env b.funds) (coinAmt l.forSale.cw20 k)) ∧
      -- the royalties never exceed half of what is left after the fee
      (∀ a, 2 * royaltyOn (sideEntries env l.forSale) a ≤ a) ∧
      (∀ a, 2 * royaltyOn (sideEntries env b.funds) a ≤ a) :=
  C06_no_other_deduction hfd (closed_wf0 h0 ops) (closed_ids h0 ops)
    (closed_bounded h0 ops hfit).lb (closed_bounded h0 ops hfit).bb h

/-- non-vacuity of `C06_no_other_deduction_reach` -/
example {m' : Market} {out : List OutMsg}
    (h : buy C06CEx.w.mkt C06CEx.w.env 2 3 8 = .ok (m', out)) :=
  C06_no_other_deduction_reach (w0 := AcctEx.w0) rfl C06CEx.ops (by decide) rfl h

/-- "Those royalties are paid to the registered payout addresses in the same transaction", at
    world level, in any reachable state: when the purchase transaction is accepted, every message
    of `buy` was dispatched in that very transaction, and every account `p` other than the
    marketplace and the community pool has been credited, per native denomination and per honest
    CW20 token, with exactly the shares of the entries paying to `p` — nothing more, nothing
    less. -/
theorem C06_paid_in_transaction_reach (h0 : w0.mkt = instantiate t r) (ops : List Op)
    (hfit : ∀ op ∈ ops, op.fits128) {buyer lid bid fd : Nat}
    (hfd : fd = feeDenomOf (run w0 ops).env (run w0 ops).mkt.feeKind)
    (hok : (step (run w0 ops) (.exec buyer [] (.buy lid bid))).2.ok = true) :
    ∃ k l b m' out, findById lid (run w0 ops).mkt.listings = some (k, l) ∧
      alookup (buyer, bid) (run w0 ops).mkt.buckets = some b ∧
      buy (run w0 ops).mkt (run w0 ops).env buyer lid bid = .ok (m', out) ∧
      (step (run w0 ops) (.exec buyer [] (.buy lid bid))).2.msgs = out ∧
      (step (run w0 ops) (.exec buyer [] (.buy lid bid))).1.mkt = m' ∧
      ∀ p, p ≠ (run w0 ops).self → p ≠ (run w0 ops).pool →
        (∀ d, lget (step (run w0 ops) (.exec buyer [] (.buy lid bid))).1.bank (p, d) =
          lget (run w0 ops).bank (p, d) +
          (royaltyOn ((sideEntries (run w0 ops).env l.forSale).filter fun e => decide (e.payout = p))
            (afterFeeAmt fd b.funds d) +
           royaltyOn ((sideEntries (run w0 ops).env b.funds).filter fun e => decide (e.payout = p))
            (afterFeeAmt fd l.forSale d))) ∧
        (∀ tk, (run w0 ops).isHonest20 tk = true →
          lget (step (run w0 ops) (.exec buyer [] (.buy lid bid))).1.cw20 (tk, p) =
          lget (run w0 ops).cw20 (tk, p) +
          (royaltyOn ((sideEntries (run w0 ops).env l.forSale).filter fun e => decide (e.payout = p))
            (coinAmt b.funds.cw20 tk) +
           royaltyOn ((sideEntries (run w0 ops).env b.funds).filter fun e => decide (e.payout = p))
            (coinAmt l.forSale.cw20 tk))) :=
  C06_paid_in_transaction hfd (closed_wf0 h0 ops) (closed_bounded h0 ops hfit).lb
    (closed_bounded h0 ops hfit).bb hok

/-- non-vacuity of `C06_paid_in_transaction_reach`: it applies to the sample purchase; computed:
    payout address 6 ends up with exactly 50 of denom 2 -/
example := C06_paid_in_transaction_reach (w0 := AcctEx.w0) rfl C06CEx.ops (by decide)
  (buyer := 2) (lid := 3) (bid := 8) rfl (by decide)
example : lget C06CEx.w.bank (6, 2) = 0 ∧
    lget (step C06CEx.w (.exec 2 [] (.buy 3 8))).1.bank (6, 2) = 50 := by decide

/-- The purchase in closed form, in any reachable state: an accepted `buy` stores exactly the
    declaratively specified records (`tradedListing`, `tradedBucket`: fee `feeOf`, goods
    `afterRoyalty entries (afterFee fd goods)`) and emits exactly the declaratively specified
    messages; both rate sums are at most 50 %. -/
theorem C06_buy_closed_form_reach (h0 : w0.mkt = instantiate t r) (ops : List Op)
    (hfit : ∀ op ∈ ops, op.fits128) {m' : Market} {env : Env} {buyer lid bid fd : Nat}
    {out : List OutMsg} (hfd : fd = feeDenomOf env (run w0 ops).mkt.feeKind)
    (h : buy (run w0 ops).mkt env buyer lid bid = .ok (m', out)) :
    ∃ k l b, findById lid (run w0 ops).mkt.listings = some (k, l) ∧
      alookup (buyer, bid) (run w0 ops).mkt.buckets = some b ∧
      ((sideEntries env l.forSale).map (·.bps)).sum ≤ 5000 ∧
      ((sideEntries env b.funds).map (·.bps)).sum ≤ 5000 ∧
      m' = { (run w0 ops).mkt with
        listings := ainsert (buyer, lid) (tradedListing env fd buyer l b)
          (aerase (l.creator, lid) (run w0 ops).mkt.listings),
        buckets := ainsert (l.creator, bid) (tradedBucket env fd l b)
          (aerase (buyer, bid) (run w0 ops).mkt.buckets) } ∧
      out = pendingFeeMsgs env.self b.fee ++
        royaltyMsgs (sideEntries env l.forSale) (afterFee fd b.funds) ++
        royaltyMsgs (sideEntries env b.funds) (afterFee fd l.forSale) :=
  C06_buy_closed_form hfd (closed_wf0 h0 ops) (closed_bounded h0 ops hfit).lb
    (closed_bounded h0 ops hfit).bb h

/-- non-vacuity of `C06_buy_closed_form_reach` -/
example {m' : Market} {out : List OutMsg}
    (h : buy C06CEx.w.mkt C06CEx.w.env 2 3 8 = .ok (m', out)) :=
  C06_buy_closed_form_reach (w0 := AcctEx.w0) rfl C06CEx.ops (by decide) rfl h

end

/-- the input-side hypothesis `Op.fits128` is needed in the model: a forged hook call of the
    hostile contract 70 (it answers `TokenInfo`; finding C18) that reports more than
    `Uint128::MAX` units is accepted by the *model* and stores an amount that is not a `Uint128`
    — the Rust cannot even deserialize such a message. -/
example :
    (run AcctEx.w0 [.exec 70 [] (.receive (.valid 5) (U128MAX + 1) (some (.createBucket 4)))]
      ).mkt.buckets.map (fun p => decide p.2.funds.bounded) = [false] := by decide

/-! ## axioms -/

#print axioms C06_buy_effect_reach
#print axioms C06_payouts_reach
#print axioms C06_payout_total_reach
#print axioms C06_no_other_deduction_reach
#print axioms C06_paid_in_transaction_reach
#print axioms C06_buy_closed_form_reach

end Fuzion
