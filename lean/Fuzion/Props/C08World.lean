/-
  Fuzion.Props.C08World — the acceptance conditions of C08 ("A finalized listing is an immutable,
  binding offer until it expires") for whole transactions on the chain (`step`).

  Property text (C08):  The owner of a listing still in preparation can finalize it for exactly the
  lifetimes between 600 and 1209600 seconds (bounds included); afterwards the listing's goods,
  ask, whitelist and expiration never change and the seller cannot take it back before the
  expiration time.  A listing's status only moves forward …

  Props/C08.lean proves the handler-level statements (`C08_finalize_iff`, `C08_delete_iff`,
  `C08_binding`) and the frame over transactions.  Here the two acceptance conditions are stated
  for the transaction itself — handler *and* delivery of the emitted messages:
  * `C08_finalize_step_iff` / `C08_finalize_step_effect`: `Finalize` emits no message, so the
    transaction of the owner of a preparing listing succeeds exactly for `600 ≤ secs ≤ 1209600`,
    and the resulting world is the old one with exactly this record stamped (`finalizedAt = now`,
    `expiresAt = now + secs·10⁹`, status finalized);
  * `C08_delete_step_iff`: for a finalized unsold listing expiring at `e`, the seller's
    `DeleteListing` transaction succeeds **iff** `e ≤ now`.  "Only if" is `C08_binding` (the
    handler refuses before `e`); "if" needs the chain to accept the pay-out of the goods, which is
    `C07_exit_step_listing` under the run-level invariants `C01Inv` (held = promised) and
    `CleanRecords` (honest assets).
  Core library only.
-/
import Fuzion.Lemmas.WorldLemmas
import Fuzion.Props.C08
import Fuzion.Props.C07
namespace Fuzion

/-! ### sample worlds (prefixes of the sample history `AcctEx.ops` of C01, hence reached) -/

namespace C08WEx

/-- listing 3 of account 1 is in preparation (1000 of denom 1, 400 of token 50, NFT (60, 7)) -/
def wPrep : World := run AcctEx.w0 (AcctEx.ops.take 3)
/-- … and has just been finalized for 600 s at t = 100 s: it expires at t = 700 s -/
def wFin : World := run AcctEx.w0 (AcctEx.ops.take 4)
/-- the same world 600 s later: the expiration instant -/
def wExp : World := (step wFin (.advance (600 * NS) 0)).1

theorem w0_reach : Reach AcctEx.w0 :=
  ⟨C07Ex.w0_inv, ⟨fun _ hp => (by cases hp), fun _ hp => (by cases hp)⟩⟩

theorem wPrep_reach : Reach wPrep := C07_reach_run _ w0_reach (by decide)
theorem wFin_reach : Reach wFin := C07_reach_run _ w0_reach (by decide)
theorem wExp_reach : Reach wExp := C07_reach_step wFin_reach (by decide) trivial

end C08WEx

/-! ### 1. finalize -/

/-- **"The owner of a listing still in preparation can finalize it for exactly the lifetimes
    between 600 and 1209600 seconds (bounds included)"**, for the transaction: under the storage
    invariants `IdsInv` (C09) and `WFInv` (C12), the `Finalize` transaction of the creator of a
    stored preparing listing succeeds iff `MIN_LIFE ≤ secs ≤ TWO_WEEKS` (`Finalize` emits no
    message, so nothing can fail on the chain side). -/
theorem C08_finalize_step_iff {w : World} {k : Nat × Nat} {l : Listing} (secs : Nat)
    (hI : IdsInv w.mkt) (hW : WFInv w.junoD w.usdcD w.mkt) (hm : (k, l) ∈ w.mkt.listings)
    (hs : l.status = .preparing) :
    (step w (.exec l.creator [] (.finalize l.id secs))).2.ok = true ↔
      MIN_LIFE ≤ secs ∧ secs ≤ TWO_WEEKS := by
  obtain ⟨hl, _, hf, hc⟩ := preparing_parts hI hW hm hs
  rw [step_exec_nomsg_iff (by
    intro m' out h
    rw [execute_nil_finalize] at h
    obtain ⟨_, _, _, _, _, _, _, _, _, ho⟩ := C08_finalize_spec.1 h
    exact ho), execute_nil_finalize, C08_finalize_iff (env := w.env) hl rfl hs hf hc]
  simp

/-- the same with the literals spelled out -/
theorem C08_finalize_step_iff_lit {w : World} {k : Nat × Nat} {l : Listing} (secs : Nat)
    (hI : IdsInv w.mkt) (hW : WFInv w.junoD w.usdcD w.mkt) (hm : (k, l) ∈ w.mkt.listings)
    (hs : l.status = .preparing) :
    (step w (.exec l.creator [] (.finalize l.id secs))).2.ok = true ↔ 600 ≤ secs ∧ secs ≤ 1209600 :=
  C08_finalize_step_iff secs hI hW hm hs

/-- non-vacuity of `C08_finalize_step_iff`: the reached sample world has a preparing listing; 600
    and 1209600 seconds are accepted, 599 and 1209601 are refused -/
example : IdsInv C08WEx.wPrep.mkt ∧ WFInv C08WEx.wPrep.junoD C08WEx.wPrep.usdcD C08WEx.wPrep.mkt ∧
    (∃ p ∈ C08WEx.wPrep.mkt.listings, p.2.status = .preparing ∧ p.2.creator = 1 ∧ p.2.id = 3) ∧
    (step C08WEx.wPrep (.exec 1 [] (.finalize 3 600))).2.ok = true ∧
    (step C08WEx.wPrep (.exec 1 [] (.finalize 3 1209600))).2.ok = true ∧
    (step C08WEx.wPrep (.exec 1 [] (.finalize 3 599))).2.ok = false ∧
    (step C08WEx.wPrep (.exec 1 [] (.finalize 3 1209601))).2.ok = false :=
  ⟨C08WEx.wPrep_reach.inv.ids, C08WEx.wPrep_reach.inv.wf, by decide, by decide, by decide, by decide,
   by decide⟩

/-- **The resulting world** of an accepted finalize: the transaction returns the old world with
    exactly this record replaced — stamped with the block time, `expiresAt = now + secs·10⁹`,
    status finalized; goods, ask, whitelist, creator, id untouched — no message is emitted and no
    ledger, no other record, no other field of the world changes. -/
theorem C08_finalize_step_effect {w : World} {k : Nat × Nat} {l : Listing} {secs : Nat}
    (hI : IdsInv w.mkt) (hW : WFInv w.junoD w.usdcD w.mkt) (hm : (k, l) ∈ w.mkt.listings)
    (hs : l.status = .preparing) (h1 : MIN_LIFE ≤ secs) (h2 : secs ≤ TWO_WEEKS) :
    step w (.exec l.creator [] (.finalize l.id secs)) =
      ({ w with mkt := { w.mkt with listings :=
          (ainsert k { l with finalizedAt := some w.nowNs, expiresAt := some (w.nowNs + secs * NS),
                              status := .finalized } w.mkt.listings) } },
       ⟨true, none, []⟩) := by
  obtain ⟨hl, hk, hf, hc⟩ := preparing_parts hI hW hm hs
  subst hk
  refine step_exec_nil_of ?_ rfl
  rw [execute_nil_finalize]
  exact C08_finalize_spec.2 ⟨l, hl, rfl, hf, hs, hc, h1, h2, rfl, rfl⟩

/-- … in particular "only that listing changes": afterwards the listing is found under its key
    with `expiresAt = some (now + secs·10⁹)`, and every other key of the listing table, the whole
    bucket table, the id logs and all ledgers are as before. -/
theorem C08_finalize_step_only {w : World} {k : Nat × Nat} {l : Listing} {secs : Nat}
    (hI : IdsInv w.mkt) (hW : WFInv w.junoD w.usdcD w.mkt) (hm : (k, l) ∈ w.mkt.listings)
    (hs : l.status = .preparing) (h1 : MIN_LIFE ≤ secs) (h2 : secs ≤ TWO_WEEKS) :
    let w' := (step w (.exec l.creator [] (.finalize l.id secs))).1
    (∃ l', alookup k w'.mkt.listings = some l' ∧ l'.status = .finalized ∧
      l'.finalizedAt = some w.nowNs ∧ l'.expiresAt = some (w.nowNs + secs * NS) ∧
      l'.forSale = l.forSale ∧ l'.ask = l.ask ∧ l'.whitelist = l.whitelist ∧
      l'.creator = l.creator ∧ l'.id = l.id ∧ l'.claimant = l.claimant ∧ l'.fee = l.fee) ∧
    (∀ k', k' ≠ k → alookup k' w'.mkt.listings = alookup k' w.mkt.listings) ∧
    w'.mkt.buckets = w.mkt.buckets ∧ w'.mkt.listingUsed = w.mkt.listingUsed ∧
    w'.mkt.bucketUsed = w.mkt.bucketUsed ∧ w'.bank = w.bank ∧ w'.cw20 = w.cw20 ∧ w'.nft = w.nft ∧
    w'.nowNs = w.nowNs := by
  intro w'
  have e : w' = _ := congrArg Prod.fst (C08_finalize_step_effect hI hW hm hs h1 h2)
  rw [e]
  refine ⟨⟨_, alookup_ainsert_self _ _ _, rfl, rfl, rfl, rfl, rfl, rfl, rfl, rfl, rfl, rfl⟩,
    fun k' hk' => alookup_ainsert_ne hk' _ _, rfl, rfl, rfl, rfl, rfl, rfl, rfl⟩

/-- non-vacuity of `C08_finalize_step_effect` / `_only`: hypotheses as above, with `secs = 600` -/
example : IdsInv C08WEx.wPrep.mkt ∧ WFInv C08WEx.wPrep.junoD C08WEx.wPrep.usdcD C08WEx.wPrep.mkt ∧
    (∃ p ∈ C08WEx.wPrep.mkt.listings, p.2.status = .preparing) ∧ MIN_LIFE ≤ 600 ∧ 600 ≤ TWO_WEEKS :=
  ⟨C08WEx.wPrep_reach.inv.ids, C08WEx.wPrep_reach.inv.wf, by decide, by decide, by decide⟩

/-- nobody but the creator can finalize a listing: the transaction of any other account naming
    this id is refused, whatever the lifetime -/
theorem C08_finalize_step_others {w : World} {k : Nat × Nat} {l : Listing} (s secs : Nat)
    (hI : IdsInv w.mkt) (hm : (k, l) ∈ w.mkt.listings) (hne : s ≠ l.creator) :
    (step w (.exec s [] (.finalize l.id secs))).2.ok = false := by
  cases hok : (step w (.exec s [] (.finalize l.id secs))).2.ok with
  | false => rfl
  | true =>
    obtain ⟨m', msgs, _, hx, _⟩ := step_exec_nil_ok hok
    rw [execute_nil_finalize] at hx
    obtain ⟨l0, hl0, _⟩ := C08_finalize_spec.1 hx
    have hk : k = (l.creator, l.id) := hI.lfiled _ hm
    have hl := mem_nodup_alookup hI.lkeys hm
    rw [hk] at hl
    obtain ⟨hf, _, _⟩ := hI.findById_of_alookup hl
    rw [hI.alookup_other_none hf hne] at hl0
    cases hl0

/-- non-vacuity of `C08_finalize_step_others`: account 2 cannot finalize account 1's listing -/
example : IdsInv C08WEx.wPrep.mkt ∧ (∃ p ∈ C08WEx.wPrep.mkt.listings, p.2.id = 3 ∧ 2 ≠ p.2.creator) ∧
    (step C08WEx.wPrep (.exec 2 [] (.finalize 3 600))).2.ok = false :=
  ⟨C08WEx.wPrep_reach.inv.ids, by decide, by decide⟩

/-! ### 2. the seller cannot take the offer back before it expires -/

/-- a stored finalized listing has an expiration time (well-formedness, C12) -/
theorem C08_finalized_has_expiry {m : Market} {j u : Nat} (hW : WFInv j u m) {k : Nat × Nat}
    {l : Listing} (hm : (k, l) ∈ m.listings) (hs : l.status = .finalized) :
    ∃ e, l.expiresAt = some e := by
  have hwf : wfListing j u k l = true := hW.lwf _ hm
  unfold wfListing at hwf
  rw [hs] at hwf
  simp only [Bool.and_eq_true] at hwf
  have ht := hwf.2.1.1
  unfold wfTimes at ht
  cases he : l.expiresAt with
  | some e => exact ⟨e, rfl⟩
  | none =>
    rw [he] at ht
    cases hf : l.finalizedAt <;> rw [hf] at ht <;> cases ht

/-- **"The seller cannot take it back before the expiration time"** — and can from then on: in a
    world satisfying the run-level invariants `C01Inv` and `CleanRecords`, the `DeleteListing`
    transaction of the creator of a stored finalized (unsold) listing expiring at `e` succeeds
    **iff** `e ≤ now`.  Before `e` the handler refuses (`C08_binding`); from `e` on the handler
    accepts and the chain delivers the goods (`C07_exit_step_listing`: the marketplace holds what
    it recorded, C01). -/
theorem C08_delete_step_iff {w : World} {k : Nat × Nat} {l : Listing} {e : Nat} (hInv : C01Inv w)
    (hC : CleanRecords w) (hm : (k, l) ∈ w.mkt.listings) (hs : l.status = .finalized)
    (he : l.expiresAt = some e) :
    (step w (.exec l.creator [] (.deleteListing l.id))).2.ok = true ↔ e ≤ w.nowNs := by
  have hk : k = (l.creator, l.id) := hInv.ids.lfiled _ hm
  have hl := mem_nodup_alookup hInv.ids.lkeys hm
  rw [hk] at hl
  constructor
  · intro hok
    obtain ⟨m', msgs, _, hx, _⟩ := step_exec_nil_ok hok
    rw [execute_nil_deleteListing] at hx
    by_cases hlt : w.nowNs < e
    · obtain ⟨err, herr⟩ := C08_binding (env := w.env) hl he hlt
      rw [herr] at hx; cases hx
    · omega
  · intro hle
    have := (C07_exit_step_listing hInv hm
      (fun _ e' he' => by rw [he] at he'; cases he'; exact hle) (hC.listing hm).1).1
    simpa only [Listing.exitMsg, hs] using this

/-- non-vacuity of `C08_delete_step_iff`: the reached sample world `wFin` holds a finalized listing
    expiring at 700 s; at 100 s the seller's delete is refused, at exactly 700 s (`wExp`) it is
    accepted -/
example : C01Inv C08WEx.wFin ∧ CleanRecords C08WEx.wFin ∧
    (∃ p ∈ C08WEx.wFin.mkt.listings, p.2.status = .finalized ∧ p.2.expiresAt = some (700 * NS) ∧
      p.2.creator = 1 ∧ p.2.id = 3) ∧ C08WEx.wFin.nowNs = 100 * NS ∧
    (step C08WEx.wFin (.exec 1 [] (.deleteListing 3))).2.ok = false ∧
    C01Inv C08WEx.wExp ∧ CleanRecords C08WEx.wExp ∧ C08WEx.wExp.nowNs = 700 * NS ∧
    (step C08WEx.wExp (.exec 1 [] (.deleteListing 3))).2.ok = true :=
  ⟨C08WEx.wFin_reach.inv, C08WEx.wFin_reach.clean, by decide, by decide, by decide,
   C08WEx.wExp_reach.inv, C08WEx.wExp_reach.clean, by decide, by decide⟩

/-- the refused half, with its effect: before the expiration the seller's delete transaction is
    refused and the world is exactly what it was (no invariant needed) -/
theorem C08_delete_step_refused {w : World} {k : Nat × Nat} {l : Listing} {e : Nat}
    (hI : IdsInv w.mkt) (hm : (k, l) ∈ w.mkt.listings) (he : l.expiresAt = some e)
    (hnow : w.nowNs < e) :
    (step w (.exec l.creator [] (.deleteListing l.id))).2.ok = false ∧
    (step w (.exec l.creator [] (.deleteListing l.id))).1 = w := by
  have hk : k = (l.creator, l.id) := hI.lfiled _ hm
  have hl := mem_nodup_alookup hI.lkeys hm
  rw [hk] at hl
  have hf : (step w (.exec l.creator [] (.deleteListing l.id))).2.ok = false := by
    cases hok : (step w (.exec l.creator [] (.deleteListing l.id))).2.ok with
    | false => rfl
    | true =>
      obtain ⟨m', msgs, _, hx, _⟩ := step_exec_nil_ok hok
      rw [execute_nil_deleteListing] at hx
      obtain ⟨err, herr⟩ := C08_binding (env := w.env) hl he hnow
      rw [herr] at hx; cases hx
  exact ⟨hf, stepF_refused_noop noFault w _ hf⟩

/-- non-vacuity of `C08_delete_step_refused` -/
example : IdsInv C08WEx.wFin.mkt ∧
    (∃ p ∈ C08WEx.wFin.mkt.listings, p.2.expiresAt = some (700 * NS)) ∧
    C08WEx.wFin.nowNs < 700 * NS :=
  ⟨C08WEx.wFin_reach.inv.ids, by decide, by decide⟩

/-- the accepted half, with its effect: from the expiration on, the seller's delete transaction
    returns exactly the listing's goods to the seller (no fee: an unsold listing carries none),
    removes exactly this record and changes nothing but the three ledgers and the record table -/
theorem C08_delete_step_effect {w : World} {k : Nat × Nat} {l : Listing} {e : Nat} (hInv : C01Inv w)
    (hC : CleanRecords w) (hm : (k, l) ∈ w.mkt.listings) (hs : l.status = .finalized)
    (he : l.expiresAt = some e) (hle : e ≤ w.nowNs) :
    (step w (.exec l.creator [] (.deleteListing l.id))).2.msgs = sendTokens l.creator l.forSale ∧
    (step w (.exec l.creator [] (.deleteListing l.id))).1.mkt =
      { w.mkt with listings := aerase k w.mkt.listings } ∧
    CoreEq w (step w (.exec l.creator [] (.deleteListing l.id))).1 := by
  have hwf : wfListing w.junoD w.usdcD k l = true := hInv.wf.lwf _ hm
  have hfee : l.fee = none := ((wfListing_parts hwf).2.2.2.1 hs).2
  have h := C07_exit_step_listing hInv hm
    (fun _ e' he' => by rw [he] at he'; cases he'; exact hle) (hC.listing hm).1
  simp only [Listing.exitMsg, hs, hfee, withdrawMsgs_none] at h
  exact ⟨h.2.1, h.2.2.1, h.2.2.2⟩

/-- non-vacuity of `C08_delete_step_effect`: hypotheses shown for `wExp` in the example above;
    the emitted messages are the goods -/
example : (step C08WEx.wExp (.exec 1 [] (.deleteListing 3))).2.msgs =
    [.bankSend 1 [⟨1, 1000⟩], .cw20Transfer 50 1 400, .nftTransfer 60 7 1] := by decide

#print axioms C08_finalize_step_iff
#print axioms C08_finalize_step_iff_lit
#print axioms C08_finalize_step_effect
#print axioms C08_finalize_step_only
#print axioms C08_finalize_step_others
#print axioms C08_finalized_has_expiry
#print axioms C08_delete_step_iff
#print axioms C08_delete_step_refused
#print axioms C08_delete_step_effect
#print axioms C08WEx.wPrep_reach
#print axioms C08WEx.wFin_reach
#print axioms C08WEx.wExp_reach

end Fuzion
