/-
  Fuzion.Props.C01 — "Escrow is exactly backed: holdings equal recorded obligations".

  Property text:  At every point in any history of marketplace messages, for each native
  denomination and each CW20 token the marketplace's on-chain balance equals the total of that
  asset promised by open listings, by buckets and by not-yet-paid community-pool fees, and the NFTs
  it owns are exactly the NFTs recorded in listings and buckets, each in exactly one record.
  Nothing is promised twice and nothing it holds is unaccounted for (assuming nobody sends it
  assets outside its deposit interface).

  Structure of the proof
  * handler level (`C01_execute_*`): every accepted call changes what the records promise
    (`owedNative`, `owedCw20`, `recordedNfts`) by exactly what came in minus what the emitted
    messages pay out.  Per-handler versions are `createBucket_acct` … `cycleFee_acct` in
    `Fuzion/Lemmas/AcctLemmas.lean`.
  * chain level (`C01_dispatch`): dispatching the messages changes the marketplace's holdings by
    exactly what the messages say.
  * `C01_step_*`, `C01_backed`: holdings = obligations is preserved by every transaction, hence
    holds after every history.

  Side conditions ("nobody sends it assets outside its deposit interface", and no message pays
  the marketplace itself): the marketplace never signs a transaction, the community pool is a
  different account, no royalty payout address is the marketplace (`Op.avoids`), and no *honest*
  token contract forges a `Receive` / `ReceiveNft` hook call (`Op.honest`).  CW20 tokens and NFT
  collections are the honest ones (kind 1 / kind 2 of the chain model); hooks forged by hostile
  contracts (finding C18) are allowed in the histories — what they record is not an honest asset,
  and the honest assets stay exactly backed.
-/
import Fuzion.Lemmas.AcctLemmas
namespace Fuzion

/-! ## handler level -/

section handler
variable {m m' : Market} {env : Env} {out : List OutMsg} {j u : Nat}
  {sender : Nat} {funds : List Coin} {msg : ExecMsg}

/-- "for each native denomination … the total of that asset promised by open listings, by buckets
    and by not-yet-paid community-pool fees": an accepted call changes that total by exactly the
    attached coins minus what its bank-send and fund-community-pool messages pay out. -/
theorem C01_execute_native (hI : IdsInv m) (hW : WFInv j u m)
    (h : execute m env sender funds msg = .ok (m', out)) :
    ∀ d, owedNative m' d + paidNative out d = owedNative m d + coinAmt funds d :=
  (execute_acct hI hW h).native

/-- "… and each CW20 token": an accepted call changes the promised total of token `t` by exactly
    the amount the calling token contract's `Receive` hook announces minus what its transfer
    messages pay out. -/
theorem C01_execute_cw20 (hI : IdsInv m) (hW : WFInv j u m)
    (h : execute m env sender funds msg = .ok (m', out)) :
    ∀ t, owedCw20 m' t + paidCw20 out t = owedCw20 m t + msgIn20 sender msg t :=
  (execute_acct hI hW h).cw20

/-- "the NFTs recorded in listings and buckets, each in exactly one record": as multisets, the
    recorded NFTs after an accepted call plus the NFTs its messages transfer away are the NFTs
    recorded before plus the one the calling collection's `ReceiveNft` hook announces. -/
theorem C01_execute_nft (hI : IdsInv m) (hW : WFInv j u m)
    (h : execute m env sender funds msg = .ok (m', out)) :
    (recordedNfts m' ++ sentNfts out).Perm (recordedNfts m ++ msgInNfts sender msg) :=
  (execute_acct hI hW h).nft

/-- the purchase: the pending fee of the paying bucket is paid, the two new fees are recorded, the
    royalties are paid — everything that leaves the records leaves the contract in this very
    response, in all three asset classes. -/
theorem C01_buy {buyer lid bid : Nat} (hI : IdsInv m) (hW : WFInv j u m)
    (h : buy m env buyer lid bid = .ok (m', out)) :
    (∀ d, owedNative m' d + paidNative out d = owedNative m d) ∧
    (∀ t, owedCw20 m' t + paidCw20 out t = owedCw20 m t) ∧
    (recordedNfts m' ++ sentNfts out).Perm (recordedNfts m) := by
  have a := buy_acct hI hW h
  refine ⟨fun d => a.native d, fun t => a.cw20 t, ?_⟩
  have := a.nft
  rwa [List.append_nil] at this

end handler

/-! ### non-vacuity of the handler-level statements -/


example : IdsInv AcctEx.mkt ∧ WFInv 1 2 AcctEx.mkt ∧
    ∃ r, execute AcctEx.mkt AcctEx.env0 2 [] (.buy 3 8) = .ok r := ⟨AcctEx.ids, AcctEx.wf, _, rfl⟩
example : IdsInv AcctEx.mkt ∧ WFInv 1 2 AcctEx.mkt ∧
    ∃ r, execute AcctEx.mkt AcctEx.env0 5 [⟨1, 30⟩, ⟨2, 1⟩] (.createBucket 9) = .ok r :=
  ⟨AcctEx.ids, AcctEx.wf, _, rfl⟩
example : IdsInv AcctEx.mkt ∧ WFInv 1 2 AcctEx.mkt ∧
    ∃ r, execute AcctEx.mkt AcctEx.env0 50 [] (.receive (.valid 5) 77 (some (.createBucket 9))) = .ok r :=
  ⟨AcctEx.ids, AcctEx.wf, _, rfl⟩
example : IdsInv AcctEx.mkt ∧ WFInv 1 2 AcctEx.mkt ∧
    ∃ r, execute AcctEx.mkt AcctEx.env0 60 [] (.receiveNft (.valid 2) 11 (some (.addToBucket 8))) = .ok r :=
  ⟨AcctEx.ids, AcctEx.wf, _, rfl⟩
example : IdsInv AcctEx.mkt ∧ WFInv 1 2 AcctEx.mkt ∧ ∃ r, buy AcctEx.mkt AcctEx.env0 2 3 8 = .ok r :=
  ⟨AcctEx.ids, AcctEx.wf, _, rfl⟩
/-- the numbers of the sample purchase: 1000 + 4 of denom 1 promised before; 995 + 5 promised and 4
    paid after -/
example : owedNative AcctEx.mkt 1 = 1004 ∧ owedNative AcctEx.mkt 2 = 2000 := by decide

/-- `WFInv` cannot be dropped: on an ill-formed record — a never-traded listing that carries a
    fee — `deleteListing` returns the goods and silently drops the fee from the records, so 5 coins
    of denomination 1 stay in the marketplace unaccounted for. -/
example : IdsInv AcctEx.badMkt ∧ ∃ m' out,
    execute AcctEx.badMkt AcctEx.env0 1 [] (.deleteListing 3) = .ok (m', out) ∧
    owedNative m' 1 + paidNative out 1 + 5 = owedNative AcctEx.badMkt 1 :=
  ⟨by constructor <;> decide, _, _, rfl, by decide⟩

/-! ## chain level -/

/-- "the marketplace's on-chain balance": dispatching a message list none of whose messages is
    addressed to the marketplace itself lowers its bank balance, its balance of every honest CW20
    token and its set of honest NFTs by exactly what the messages pay out. -/
theorem C01_dispatch {fail : Nat → Bool} {ms : List OutMsg} {w w' : World} {i : Nat}
    (h : dispatchAll fail w ms i = some w') (hd : ∀ x ∈ ms, x.dest w.pool ≠ w.self) :
    (∀ d, lget w'.bank (w.self, d) + paidNative ms d = lget w.bank (w.self, d)) ∧
    (∀ t, w.isHonest20 t = true →
      lget w'.cw20 (t, w.self) + paidCw20 ms t = lget w.cw20 (t, w.self)) ∧
    (∀ n : Nft, w.isHonest721 n.coll = true → held w' n + (sentNfts ms).count n = held w n) :=
  dispatchAll_acct h hd

/-- without any side condition the marketplace never loses more than the messages say (a message
    to itself only moves coins from it to it) -/
theorem C01_dispatch_solvent {fail : Nat → Bool} {ms : List OutMsg} {w w' : World} {i : Nat}
    (h : dispatchAll fail w ms i = some w') (d : Nat) :
    lget w.bank (w.self, d) ≤ lget w'.bank (w.self, d) + paidNative ms d :=
  dispatchAll_solvent h d


example : (dispatchAll noFault AcctEx.wd AcctEx.msgs 0).isSome = true ∧
    (∀ x ∈ AcctEx.msgs, x.dest AcctEx.wd.pool ≠ AcctEx.wd.self) ∧
    AcctEx.wd.isHonest20 50 = true ∧ AcctEx.wd.isHonest721 60 = true ∧
    paidNative AcctEx.msgs 1 = 305 ∧ paidCw20 AcctEx.msgs 50 = 150 ∧ sentNfts AcctEx.msgs = [⟨60, 7⟩] := by
  decide

/-! ## world level -/

/-- native coins: held = promised, per denomination -/
def BackedNative (w : World) : Prop := ∀ d, lget w.bank (w.self, d) = owedNative w.mkt d

/-- honest CW20 tokens: held = promised, per token -/
def BackedCw20 (w : World) : Prop :=
  ∀ t, w.isHonest20 t = true → lget w.cw20 (t, w.self) = owedCw20 w.mkt t

/-- NFTs of honest collections: no NFT is recorded twice, and an NFT is recorded iff the
    marketplace owns it -/
def NftExact (w : World) : Prop :=
  ((recordedNfts w.mkt).filter (fun n => w.isHonest721 n.coll)).Nodup ∧
  ∀ n : Nft, w.isHonest721 n.coll = true →
    (n ∈ recordedNfts w.mkt ↔ alookup (n.coll, n.tid) w.nft = some w.self)

/-- "holdings equal recorded obligations" -/
def Backed (w : World) : Prop := BackedNative w ∧ BackedCw20 w ∧ NftExact w

/-- `NftExact` says: every honest NFT is recorded as many times (0 or 1) as the marketplace owns it -/
theorem NftExact_iff_count (w : World) :
    NftExact w ↔ ∀ n : Nft, w.isHonest721 n.coll = true → (recordedNfts w.mkt).count n = held w n :=
  nft_exact_iff_count w

section step
variable {w : World} {op : Op}

/-- Native coins stay exactly backed across any transaction.  Side conditions: the community pool
    is not the marketplace, no registry entry pays out to the marketplace, and the operation is
    not signed by the marketplace nor registers it as payout address. -/
theorem C01_step_native (hI : IdsInv w.mkt) (hW : WFInv w.junoD w.usdcD w.mkt)
    (hB : BackedNative w) (hpool : w.pool ≠ w.self) (hpay : PayoutsNe w.reg w.self)
    (hop : op.avoids w.self) : BackedNative (step w op).1 := by
  unfold step
  cases ho : op.asExec with
  | some tr =>
    obtain ⟨c, f, msg⟩ := tr
    rcases stepF_cases (fail := noFault) (w := w) ho with ⟨e, h⟩ | ⟨w1, m', msgs, w2, hD, hx, hd, h⟩
    · rw [h]; exact hB
    · rw [h]
      intro d
      obtain ⟨hc, _⟩ := hD.core
      have hs : op.sender ≠ w.self := Op.avoids_sender hop ho
      have hdep := hD.bank ho w.self d
      rw [if_neg (Ne.symm hs), if_pos rfl] at hdep
      have hacct := (execute_acct hI hW hx).native d
      have hdest := market_dests hI hW ho hx hs hpool (fun c r h => hpay c r h)
      have hfr := dispatchAll_frame hd
      have hdis := (dispatchAll_acct hd (by
        intro x hx'
        show x.dest w1.pool ≠ w1.self
        rw [hc.pool, hc.self]; exact hdest x hx')).1 d
      dsimp only at hdis
      rw [hc.self] at hdis
      show lget w2.bank (w2.self, d) = owedNative w2.mkt d
      rw [hfr.1.self, hfr.2]
      dsimp only
      rw [hc.self]
      have := hB d
      omega
  | none =>
    obtain ⟨h1, _, _, h4, hs⟩ := stepF_nonmarket (fail := noFault) (w := w) ho
    intro d
    rw [h1, h4, hs.self]; exact hB d

/-- Honest CW20 tokens stay exactly backed across any transaction (hooks forged by hostile contracts
    included; an honest token contract never forges one). -/
theorem C01_step_cw20 (hI : IdsInv w.mkt) (hW : WFInv w.junoD w.usdcD w.mkt)
    (hB : BackedCw20 w) (hpool : w.pool ≠ w.self) (hpay : PayoutsNe w.reg w.self)
    (hop : op.avoids w.self) (hh : op.honest w) : BackedCw20 (step w op).1 := by
  unfold step
  cases ho : op.asExec with
  | some tr =>
    obtain ⟨c, f, msg⟩ := tr
    rcases stepF_cases (fail := noFault) (w := w) ho with ⟨e, h⟩ | ⟨w1, m', msgs, w2, hD, hx, hd, h⟩
    · rw [h]; exact hB
    · rw [h]
      intro t ht
      obtain ⟨hc, _⟩ := hD.core
      have hs : op.sender ≠ w.self := Op.avoids_sender hop ho
      have hacct := (execute_acct hI hW hx).cw20 t
      have hdest := market_dests hI hW ho hx hs hpool (fun c r h => hpay c r h)
      have hfr := dispatchAll_frame hd
      have ht' : w.isHonest20 t = true := by
        have := hfr.1.isHonest20 t
        have h2 := hc.isHonest20 t
        rw [← h2, ← ht]; exact this.symm
      have hdep := hD.cw20 ho hh hs ht'
      have hdis := (dispatchAll_acct hd (by
        intro x hx'
        show x.dest w1.pool ≠ w1.self
        rw [hc.pool, hc.self]; exact hdest x hx')).2.1 t (by
          show w1.isHonest20 t = true
          rw [hc.isHonest20]; exact ht')
      dsimp only at hdis
      rw [hc.self] at hdis
      show lget w2.cw20 (t, w2.self) = owedCw20 w2.mkt t
      rw [hfr.1.self, hfr.2]
      dsimp only
      rw [hc.self]
      have := hB t ht'
      omega
  | none =>
    obtain ⟨_, h2, _, h4, hs⟩ := stepF_nonmarket (fail := noFault) (w := w) ho
    intro t ht
    rw [hs.honest20] at ht
    rw [h2, h4, hs.self]; exact hB t ht

/-- The NFTs of honest collections the marketplace owns stay exactly the recorded ones, each
    recorded once, across any transaction (hooks forged by hostile contracts included; an honest
    collection never forges one). -/
theorem C01_step_nft (hI : IdsInv w.mkt) (hW : WFInv w.junoD w.usdcD w.mkt)
    (hB : NftExact w) (hpool : w.pool ≠ w.self) (hpay : PayoutsNe w.reg w.self)
    (hop : op.avoids w.self) (hh : op.honest w) : NftExact (step w op).1 := by
  rw [NftExact_iff_count] at hB ⊢
  unfold step
  cases ho : op.asExec with
  | some tr =>
    obtain ⟨c, f, msg⟩ := tr
    rcases stepF_cases (fail := noFault) (w := w) ho with ⟨e, h⟩ | ⟨w1, m', msgs, w2, hD, hx, hd, h⟩
    · rw [h]; exact hB
    · rw [h]
      intro n hn
      obtain ⟨hc, _⟩ := hD.core
      have hs : op.sender ≠ w.self := Op.avoids_sender hop ho
      have hacct := ((execute_acct hI hW hx).nft).count_eq n
      rw [List.count_append, List.count_append] at hacct
      have hdest := market_dests hI hW ho hx hs hpool (fun c r h => hpay c r h)
      have hfr := dispatchAll_frame hd
      have hn' : w.isHonest721 n.coll = true := by
        have := hfr.1.isHonest721 n.coll
        have h2 := hc.isHonest721 n.coll
        rw [← h2, ← hn]; exact this.symm
      have hdep := hD.nft ho hh hs hn'
      have hdis := (dispatchAll_acct hd (by
        intro x hx'
        show x.dest w1.pool ≠ w1.self
        rw [hc.pool, hc.self]; exact hdest x hx')).2.2 n (by
          show w1.isHonest721 n.coll = true
          rw [hc.isHonest721]; exact hn')
      have hheld : held { w1 with mkt := m' } n = held w1 n := rfl
      rw [hheld] at hdis
      show (recordedNfts w2.mkt).count n = held w2 n
      rw [hfr.2]
      dsimp only
      have := hB n hn'
      omega
  | none =>
    obtain ⟨_, _, h3, h4, hs⟩ := stepF_nonmarket (fail := noFault) (w := w) ho
    intro n hn
    rw [hs.honest721] at hn
    have : held (stepF noFault w op).1 n = held w n := by
      simp only [held, h3, hs.self]
    rw [this, h4]; exact hB n hn

/-- "holdings equal recorded obligations" is preserved by every transaction -/
theorem C01_step (hI : IdsInv w.mkt) (hW : WFInv w.junoD w.usdcD w.mkt)
    (hB : Backed w) (hpool : w.pool ≠ w.self) (hpay : PayoutsNe w.reg w.self)
    (hop : op.avoids w.self) (hh : op.honest w) : Backed (step w op).1 :=
  ⟨C01_step_native hI hW hB.1 hpool hpay hop, C01_step_cw20 hI hW hB.2.1 hpool hpay hop hh,
   C01_step_nft hI hW hB.2.2 hpool hpay hop hh⟩

end step

/-! ### non-vacuity of the step theorems -/

namespace C01Ex

open AcctEx in
theorem w0_backed : Backed w0 := by
  refine ⟨fun d => ?_, fun t _ => ?_, (NftExact_iff_count w0).2 fun n _ => ?_⟩
  · simp [w0, lget, alookup, owedNative, pendingFee, listingsSum, bucketsSum, instantiate]
  · simp [w0, lget, alookup, owedCw20, listingsSum, bucketsSum, instantiate]
  · simp only [w0, held, recordedNfts, instantiate, alookup, List.flatMap_nil, List.append_nil,
      List.count_nil]
    repeat' split
    all_goals first | rfl | (rename_i h; cases h)

end C01Ex

example : IdsInv AcctEx.w0.mkt ∧ WFInv AcctEx.w0.junoD AcctEx.w0.usdcD AcctEx.w0.mkt ∧ Backed AcctEx.w0 ∧
    AcctEx.w0.pool ≠ AcctEx.w0.self ∧ PayoutsNe AcctEx.w0.reg AcctEx.w0.self :=
  ⟨IdsInv.init _ _, WFInv.init _ _ _ _, C01Ex.w0_backed, by decide, AcctEx.w0_payouts 100 (by decide)⟩
example : ∀ op ∈ AcctEx.ops, op.avoids AcctEx.w0.self ∧ op.honest AcctEx.w0 := by decide
/-- the first operation of the sample history succeeds and moves 1000 coins into escrow -/
example : (step AcctEx.w0 (AcctEx.ops.head!)).2.ok = true ∧
    lget (step AcctEx.w0 (AcctEx.ops.head!)).1.bank (100, 1) = 1000 := by decide

/-! ## every history -/

/-- the invariants carried along a history -/
structure C01Inv (w : World) : Prop where
  ids : IdsInv w.mkt
  wf : WFInv w.junoD w.usdcD w.mkt
  backed : Backed w
  pool : w.pool ≠ w.self
  payouts : PayoutsNe w.reg w.self

/-- "At every point in any history of marketplace messages … holdings equal recorded obligations".
    `hIds` / `hWF` are the preservation theorems of the id and well-formedness invariants
    (`C09_inv_execute`, `C12_inv_execute`).  Side conditions on the history: no operation is signed
    by the marketplace or registers it as royalty payout address, and no honest token contract
    forges a hook call. -/
theorem C01_backed
    (hIds : ∀ {m m' : Market} {env : Env} {s : Nat} {f : List Coin} {msg : ExecMsg}
      {out : List OutMsg}, IdsInv m → execute m env s f msg = .ok (m', out) → IdsInv m')
    (hWF : ∀ {m m' : Market} {env : Env} {s : Nat} {f : List Coin} {msg : ExecMsg}
      {out : List OutMsg}, IdsInv m → WFInv env.junoD env.usdcD m →
      execute m env s f msg = .ok (m', out) → WFInv env.junoD env.usdcD m')
    (ops : List Op) : ∀ {w : World}, C01Inv w → (∀ op ∈ ops, op.avoids w.self ∧ op.honest w) →
      C01Inv (run w ops) := by
  induction ops with
  | nil => intro w h _; exact h
  | cons op ops ih =>
    intro w h hops
    obtain ⟨hop, hh⟩ := hops op List.mem_cons_self
    have hst := stepF_static noFault w op
    refine ih ?_ ?_
    · refine ⟨?_, ?_, C01_step h.ids h.wf h.backed h.pool h.payouts hop hh, ?_, ?_⟩
      · exact stepF_mkt_inv (P := IdsInv) h.ids (fun hx => hIds h.ids hx)
      · show WFInv (stepF noFault w op).1.junoD (stepF noFault w op).1.usdcD (stepF noFault w op).1.mkt
        rw [hst.junoD, hst.usdcD]
        exact stepF_mkt_inv (P := WFInv w.junoD w.usdcD) h.wf (fun hx => hWF h.ids h.wf hx)
      · show (stepF noFault w op).1.pool ≠ (stepF noFault w op).1.self
        rw [hst.pool, hst.self]; exact h.pool
      · show PayoutsNe (stepF noFault w op).1.reg (stepF noFault w op).1.self
        rw [hst.self]; exact stepF_payouts h.payouts hop
    · intro op' hop'
      obtain ⟨h1, h2⟩ := hops op' (List.mem_cons_of_mem _ hop')
      refine ⟨?_, Op.honest_static hst h2⟩
      show op'.avoids (stepF noFault w op).1.self
      rw [hst.self]; exact h1

example : C01Inv AcctEx.w0 :=
  ⟨IdsInv.init _ _, WFInv.init _ _ _ _, C01Ex.w0_backed, by decide, AcctEx.w0_payouts 100 (by decide)⟩
example : ∀ op ∈ AcctEx.ops, op.avoids AcctEx.w0.self ∧ op.honest AcctEx.w0 := by decide
/-- every operation of the sample history is accepted, and at the end the marketplace is empty
    again: goods, proceeds, both fees and the royalty have left -/
example : (AcctEx.ops.zipIdx.all fun p => (step (run AcctEx.w0 (AcctEx.ops.take p.2)) p.1).2.ok) = true ∧
    (run AcctEx.w0 AcctEx.ops).mkt.listings = [] ∧ (run AcctEx.w0 AcctEx.ops).mkt.buckets = [] ∧
    lget (run AcctEx.w0 AcctEx.ops).bank (100, 1) = 0 ∧ lget (run AcctEx.w0 AcctEx.ops).bank (100, 2) = 0 ∧
    lget (run AcctEx.w0 AcctEx.ops).bank (101, 1) = 5 ∧ lget (run AcctEx.w0 AcctEx.ops).bank (6, 2) = 50 ∧
    lget (run AcctEx.w0 AcctEx.ops).bank (1, 2) = 1950 ∧ lget (run AcctEx.w0 AcctEx.ops).cw20 (50, 2) = 400 ∧
    alookup (60, 7) (run AcctEx.w0 AcctEx.ops).nft = some 2 := by
  decide

/-! ## the executable oracle -/

/-- The decidable form of this property that the driver evaluates on every implementation state
    (`checkC01`, Inv/Defs.lean) follows from `Backed`, provided the NFT ledger is a map over
    honest collections (`NftLedgerOk`, which every operation preserves: `stepF_nftLedger`). -/
theorem C01_check {w : World} (hB : Backed w) (hl : NftLedgerOk w) : checkC01 w = true := by
  obtain ⟨hn, hc, hnd, hiff⟩ := hB
  unfold checkC01
  simp only [Bool.and_eq_true, List.all_eq_true, decide_eq_true_eq]
  refine ⟨⟨fun d _ => hn d, fun t ht => hc t ?_⟩, ⟨hnd, ?_⟩, ?_⟩
  · unfold cw20Universe at ht
    exact (List.mem_filter.1 ht).2
  · intro n hm
    obtain ⟨h1, h2⟩ := List.mem_filter.1 hm
    exact mem_heldNfts.2 (alookup_some_mem ((hiff n h2).1 h1))
  · intro n hm
    have hmem := mem_heldNfts.1 hm
    have hh : w.isHonest721 n.coll = true := hl.2 _ hmem
    exact List.mem_filter.2 ⟨(hiff n hh).2 (mem_nodup_alookup hl.1 hmem), hh⟩

example : Backed AcctEx.w0 ∧ NftLedgerOk AcctEx.w0 := ⟨C01Ex.w0_backed, by decide, by decide⟩

/-- the oracle holds after every history (under the side conditions of `C01_backed`) -/
theorem C01_check_run
    (hIds : ∀ {m m' : Market} {env : Env} {s : Nat} {f : List Coin} {msg : ExecMsg}
      {out : List OutMsg}, IdsInv m → execute m env s f msg = .ok (m', out) → IdsInv m')
    (hWF : ∀ {m m' : Market} {env : Env} {s : Nat} {f : List Coin} {msg : ExecMsg}
      {out : List OutMsg}, IdsInv m → WFInv env.junoD env.usdcD m →
      execute m env s f msg = .ok (m', out) → WFInv env.junoD env.usdcD m')
    {w : World} (h : C01Inv w) (hl : NftLedgerOk w) (ops : List Op)
    (hops : ∀ op ∈ ops, op.avoids w.self ∧ op.honest w) : checkC01 (run w ops) = true := by
  refine C01_check (C01_backed hIds hWF ops h hops).backed ?_
  clear h hops
  induction ops generalizing w with
  | nil => exact hl
  | cons op ops ih => exact ih (stepF_nftLedger hl)

example : C01Inv AcctEx.w0 ∧ NftLedgerOk AcctEx.w0 ∧
    ∀ op ∈ AcctEx.ops, op.avoids AcctEx.w0.self ∧ op.honest AcctEx.w0 :=
  ⟨⟨IdsInv.init _ _, WFInv.init _ _ _ _, C01Ex.w0_backed, by decide, AcctEx.w0_payouts 100 (by decide)⟩,
   ⟨by decide, by decide⟩, by decide⟩
/-- a hook forged by a hostile contract is within the side conditions: the oracle on honest assets
    still holds afterwards, although a record now holds a foreign asset (C18) -/
example : (∀ op ∈ AcctEx.opsForged, op.avoids AcctEx.w0.self ∧ op.honest AcctEx.w0) ∧
    (step (run AcctEx.w0 AcctEx.ops) (.exec 70 [] (.receive (.valid 5) 999 (some (.createBucket 4))))).2.ok
      = true ∧
    hasForeignAsset (run AcctEx.w0 AcctEx.opsForged) = true ∧
    checkC01 (run AcctEx.w0 AcctEx.opsForged) = true := by decide
/-- … and indeed evaluates to `true` at every point of the sample history -/
example : ((List.range 11).all fun k => checkC01 (run AcctEx.w0 (AcctEx.ops.take k))) = true := by decide

/-
  Closing the hypotheses.  With `Fuzion/Props/C09.lean` and `C12.lean` imported, the two
  preservation hypotheses are discharged by
    `C01_backed C09_inv_execute (fun _ hw h => C12_inv_execute hw h)`
    `C01_check_run C09_inv_execute (fun _ hw h => C12_inv_execute hw h)`
  (checked; kept out of this file so that it only depends on its own lemma file).
-/

#print axioms C01_execute_native
#print axioms C01_execute_cw20
#print axioms C01_execute_nft
#print axioms C01_buy
#print axioms C01_dispatch
#print axioms C01_dispatch_solvent
#print axioms NftExact_iff_count
#print axioms C01_step_native
#print axioms C01_step_cw20
#print axioms C01_step_nft
#print axioms C01_step
#print axioms C01_backed
#print axioms C01_check
#print axioms C01_check_run
#print axioms C01Ex.w0_backed

end Fuzion
