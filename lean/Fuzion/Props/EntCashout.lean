/-
  Fuzion.Props.EntCashout — the USER-LEVEL guarantee of the abstract specification
  (Props/Entitlement.lean): "what the marketplace owes you, you can take out, exactly, by yourself".

  Throughout, `𝐰 = run w0 ops` is any state reached from a freshly deployed marketplace (`Deployed w0`,
  Props/C01Closed.lean) by a history `ops` whose operations are not signed by the marketplace / do not
  register it as royalty payout address (`Op.avoids w0.self`) and contain no forged hook call
  (`Op.unforged`, finding C18; for `Ent_solvent_reach` the weaker `Op.honest w0` suffices).  No
  invariant of `𝐰` is assumed: `IdsInv`, `WFInv`, `Backed`, honest assets, "no record of the
  marketplace's own address" are discharged by `C07_reach_run` / `Reach_deployed` /
  `C01_from_deployment`.

  The abstract view (Props/Entitlement.lean): `entNative m a d`, `entCw20 m a t`, `entNfts m a` — what
  the records filed under account `a` hold; `pendingFees m d` — fees recorded, not yet paid.

      Ent_solvent        (state level, from `Backed`)  the marketplace holds, per denomination, at
      Ent_solvent_reach  (from deployment)             least what it owes any single account PLUS all
                         pending fees; per honest CW20 token at least what it owes any single account;
                         and it owns every honest NFT it holds for an account.
      Ent_cashout_one_reach   for every record filed under `a` that is exitable now — a bucket; a
                         preparing listing; a sold listing (filed under its buyer); a finalized listing
                         past its expiration — `a`'s single exit message succeeds and is `CashedOut`:
                         `a`'s entitlement drops by exactly the record's goods (`EntLoss`), `a`'s
                         wallet rises by exactly those goods, the pool receives exactly the record's
                         pending fee, nobody else's entitlement or wallet changes (`PaidOut`,
                         `Untouched`).
      Ent_cashout_all_reach   every account `a` other than the pool can empty its position BY ITSELF:
                         one clock advance, then cash-out messages all signed by `a`, all accepted;
                         afterwards `a` is entitled to nothing, `a`'s bank balance has risen per
                         denomination by exactly `entNative 𝐰.mkt a d`, its honest CW20 balances by
                         exactly `entCw20 𝐰.mkt a t`, it owns every honest NFT of `entNfts 𝐰.mkt a`;
                         nobody else's entitlement or wallet changed; the pool got exactly the fees
                         that left the records (`CashedOutAll`).

  The only hypothesis beyond the history conditions is `a ≠ w0.pool` (an account that is also the
  community pool receives the fees on top of its goods, so "exactly" fails for it).  `a ≠ w0.self`
  and `w0.pool ≠ w0.self` of Props/C05Closed.lean are NOT assumed: the marketplace owns no record
  (`CleanRecords`, preserved along the history) and `Deployed` contains `pool ≠ self`.
  Vocabulary `CashedOut`, `CashedOutAll`, `ExitsOf` and the inductions: Lemmas/EntCashoutLemmas.lean.
  Core library only.
-/
import Fuzion.Lemmas.EntCashoutLemmas
namespace Fuzion

/-! ## 1. solvency towards every single account -/

/-- **solvency, state level**: in a state whose holdings equal its obligations (`Backed`, C01) the
    marketplace holds, for every account `a`: per denomination at least `a`'s entitlement plus ALL
    pending fees; per honest CW20 token at least `a`'s entitlement; and it owns every NFT of an honest
    collection that it holds for `a` -/
theorem Ent_solvent {w : World} (hB : Backed w) (a : Nat) :
    (∀ d, entNative w.mkt a d + pendingFees w.mkt d ≤ lget w.bank (w.self, d)) ∧
    (∀ t, w.isHonest20 t = true → entCw20 w.mkt a t ≤ lget w.cw20 (t, w.self)) ∧
    (∀ n ∈ entNfts w.mkt a, w.isHonest721 n.coll = true →
      alookup (n.coll, n.tid) w.nft = some w.self) := by
  refine ⟨fun d => ?_, fun t ht => ?_, fun n hn hh => ?_⟩
  · rw [hB.1 d]
    have h1 := entNative_le_owed w.mkt a d
    have h2 : owedNative w.mkt d = listingsSum (fun l => coinAmt l.forSale.native d) w.mkt +
        bucketsSum (fun b => coinAmt b.funds.native d) w.mkt + pendingFee w.mkt d := rfl
    have h3 := entNative_le_goods w.mkt a d
    show entNative w.mkt a d + pendingFee w.mkt d ≤ _
    omega
  · rw [hB.2.1 t ht]; exact entCw20_le_owed w.mkt a t
  · exact (hB.2.2.2 n hh).1 (entNfts_sub_recorded hn)

/-- non-vacuity: the state of the sample history of Props/C01.lean right after the purchase is `Backed`;
    there the buyer (2) is owed 995 of denom 1 while 5 are pending for the pool, and the marketplace
    (100) holds exactly 1000 -/
example : Backed (C05Ex.at_ 7) ∧ entNative (C05Ex.at_ 7).mkt 2 1 = 995 ∧
    pendingFees (C05Ex.at_ 7).mkt 1 = 5 ∧ lget (C05Ex.at_ 7).bank ((C05Ex.at_ 7).self, 1) = 1000 :=
  ⟨(C05Ex.at_inv 7).backed, by decide, by decide, by decide⟩

/-- **solvency towards every single account, in every reachable state** (`𝐰 = run w0 ops`): for every
    account `a` and denomination `d` the marketplace's bank balance covers `a`'s entitlement (and all
    pending fees on top); for every honest CW20 token its token balance covers `a`'s entitlement; and
    every honest NFT held for `a` is owned by the marketplace.  So no single account's claim can ever
    exceed what is there — the premise of `Ent_cashout_one_reach`. -/
theorem Ent_solvent_reach {w0 : World} (hd : Deployed w0) (ops : List Op)
    (hops : ∀ op ∈ ops, op.avoids w0.self ∧ op.honest w0) (a : Nat) :
    (∀ d, entNative (run w0 ops).mkt a d + pendingFees (run w0 ops).mkt d ≤
      lget (run w0 ops).bank ((run w0 ops).self, d)) ∧
    (∀ t, (run w0 ops).isHonest20 t = true →
      entCw20 (run w0 ops).mkt a t ≤ lget (run w0 ops).cw20 (t, (run w0 ops).self)) ∧
    (∀ n ∈ entNfts (run w0 ops).mkt a, (run w0 ops).isHonest721 n.coll = true →
      alookup (n.coll, n.tid) (run w0 ops).nft = some (run w0 ops).self) :=
  Ent_solvent (C01_from_deployment hd ops hops) a

/-- non-vacuity: the history of Props/Summary.lean from the concrete deployment; before its last
    operation account 1 is owed 10 of denom 0 and 10 of denom 2 -/
example : Deployed deployedEx ∧
    (∀ op ∈ SummaryEx.ops.take 6, op.avoids deployedEx.self ∧ op.honest deployedEx) ∧
    entNative (run deployedEx (SummaryEx.ops.take 6)).mkt 1 0 = 10 ∧
    entNative (run deployedEx (SummaryEx.ops.take 6)).mkt 1 2 = 10 :=
  ⟨C02WEx.deployedEx_ok, by decide, by decide, by decide⟩

/-! ## 2. one record, one message -/

/-- the reached state satisfies the run-level invariant of C07 (`Reach`: `C01Inv` + honest assets +
    no record of the marketplace's own address) -/
theorem ent_reach {w0 : World} (hd : Deployed w0) (ops : List Op)
    (hops : ∀ op ∈ ops, op.avoids w0.self ∧ op.unforged) : Reach (run w0 ops) :=
  C07_reach_run ops (Reach_deployed hd) hops

/-- **"what is filed under you, you can take out, exactly, with one message"**, in every reachable
    state `𝐰 = run w0 ops`, for every account `a` other than the community pool:
    * every listing filed under `a` (`l.creator = a`: `a`'s unsold listing, or a listing `a` bought)
      that is exitable now (`Listing.exitable`: preparing; or sold; or finalized and past its
      expiration) is cashed out by `a`'s single message `l.exitMsg` (`DeleteListing` /
      `WithdrawPurchased`), no coins attached;
    * every bucket owned by `a` is cashed out by `a`'s single `RemoveBucket`;
    and the transaction is `CashedOut 𝐰 (step 𝐰 …) a goods fee` (Lemmas/EntCashoutLemmas.lean):
    it succeeds; emits exactly "goods to `a`, fee to the pool"; `a`'s entitlement drops by exactly the
    goods and the pending fees by exactly the record's fee, nobody else's entitlement changes
    (`EntLoss`); `a`'s bank balance rises by the goods' coins per denomination, its balance of every
    honest CW20 token by the goods' amount, every honest NFT of the goods becomes `a`'s; the pool's
    balance rises by exactly the fee; the marketplace loses exactly goods + fee (`PaidOut`); every
    account other than `a`, the marketplace and the pool keeps all its balances and NFTs
    (`Untouched`). -/
theorem Ent_cashout_one_reach {w0 : World} (hd : Deployed w0) (ops : List Op)
    (hops : ∀ op ∈ ops, op.avoids w0.self ∧ op.unforged) {a : Nat} (hap : a ≠ w0.pool) :
    (∀ k l, (k, l) ∈ (run w0 ops).mkt.listings → l.creator = a → l.exitable (run w0 ops).nowNs →
      CashedOut (run w0 ops) (step (run w0 ops) (.exec a [] l.exitMsg)) a l.forSale l.fee) ∧
    (∀ k b, (k, b) ∈ (run w0 ops).mkt.buckets → b.owner = a →
      CashedOut (run w0 ops) (step (run w0 ops) (.exec a [] (.removeBucket k.2))) a b.funds b.fee) := by
  have hR := ent_reach hd ops hops
  have hp : a ≠ (run w0 ops).pool := by rw [(closed_run_addrs w0 ops).2]; exact hap
  refine ⟨fun k l hm ha he => ?_, fun k b hm ha => ?_⟩
  · subst ha
    exact (exit_listing_cashedOut hR.inv hm he (hR.clean.listing hm).1 (hR.clean.listing hm).2 hp).1
  · subst ha
    exact (exit_bucket_cashedOut hR.inv hm (hR.clean.bucket hm).1 (hR.clean.bucket hm).2 hp).1

/-- the wallet side of `Ent_cashout_one_reach`, spelled out for a listing: the exact ledger deltas -/
theorem Ent_cashout_one_wallet_reach {w0 : World} (hd : Deployed w0) (ops : List Op)
    (hops : ∀ op ∈ ops, op.avoids w0.self ∧ op.unforged) {a : Nat} (hap : a ≠ w0.pool)
    {k : Nat × Nat} {l : Listing} (hm : (k, l) ∈ (run w0 ops).mkt.listings) (ha : l.creator = a)
    (he : l.exitable (run w0 ops).nowNs) :
    (step (run w0 ops) (.exec a [] l.exitMsg)).2.ok = true ∧
    (∀ x d, entNative (step (run w0 ops) (.exec a [] l.exitMsg)).1.mkt x d +
      (if x = a then coinAmt l.forSale.native d else 0) = entNative (run w0 ops).mkt x d) ∧
    (∀ d, pendingFees (step (run w0 ops) (.exec a [] l.exitMsg)).1.mkt d + feeAmt l.fee d =
      pendingFees (run w0 ops).mkt d) ∧
    (∀ d, lget (step (run w0 ops) (.exec a [] l.exitMsg)).1.bank (a, d) =
      lget (run w0 ops).bank (a, d) + coinAmt l.forSale.native d) ∧
    (∀ d, lget (step (run w0 ops) (.exec a [] l.exitMsg)).1.bank (w0.pool, d) =
      lget (run w0 ops).bank (w0.pool, d) + feeAmt l.fee d) ∧
    (∀ t, (run w0 ops).isHonest20 t = true →
      lget (step (run w0 ops) (.exec a [] l.exitMsg)).1.cw20 (t, a) =
        lget (run w0 ops).cw20 (t, a) + coinAmt l.forSale.cw20 t) ∧
    (∀ n ∈ l.forSale.nfts, (run w0 ops).isHonest721 n.coll = true →
      alookup (n.coll, n.tid) (step (run w0 ops) (.exec a [] l.exitMsg)).1.nft = some a) ∧
    (∀ y dd, y ≠ a → y ≠ w0.self → y ≠ w0.pool →
      lget (step (run w0 ops) (.exec a [] l.exitMsg)).1.bank (y, dd) = lget (run w0 ops).bank (y, dd)) := by
  have h := (Ent_cashout_one_reach hd ops hops hap).1 k l hm ha he
  obtain ⟨e1, e2⟩ := closed_run_addrs w0 ops
  refine ⟨h.ok, h.ent.native, h.ent.fees, h.paid.bankOwner, fun d => ?_, h.paid.cw20Owner,
    fun n hn hh => (h.paid.nftOwner n hn hh).2, fun y dd h1 h2 h3 => ?_⟩
  · have := h.paid.bankPool d
    rw [e2] at this
    exact this
  · exact (h.others y h1 (by rw [e1]; exact h2) (by rw [e2]; exact h3)).bank dd

/-- non-vacuity: after the purchase of the history of Props/Summary.lean (5 operations) account 1 —
    not the pool (8) — has the sold listing 4 filed under itself (exitable at once) and the bucket 5
    holding the payment -/
example : Deployed deployedEx ∧
    (∀ op ∈ SummaryEx.ops.take 5, op.avoids deployedEx.self ∧ op.unforged) ∧ (1 : Nat) ≠ deployedEx.pool ∧
    (run deployedEx (SummaryEx.ops.take 5)).mkt.listings.length = 1 ∧
    (∀ p ∈ (run deployedEx (SummaryEx.ops.take 5)).mkt.listings, p.2.creator = 1 ∧
      p.2.status = .closed ∧ p.2.exitable (run deployedEx (SummaryEx.ops.take 5)).nowNs) ∧
    (run deployedEx (SummaryEx.ops.take 5)).mkt.buckets.length = 1 ∧
    (∀ p ∈ (run deployedEx (SummaryEx.ops.take 5)).mkt.buckets, p.2.owner = 1) :=
  ⟨C02WEx.deployedEx_ok, by decide, by decide, by decide, by decide, by decide, by decide⟩

/-- … and evaluating the model agrees: the withdrawal is accepted and pays account 1 the 10 coins of
    denom 0 it was entitled to -/
example : (step (run deployedEx (SummaryEx.ops.take 5)) (.exec 1 [] (.withdrawPurchased 4))).2.ok = true ∧
    entNative (run deployedEx (SummaryEx.ops.take 5)).mkt 1 0 = 10 ∧
    lget (run deployedEx (SummaryEx.ops.take 5)).bank (1, 0) = 0 ∧
    lget (step (run deployedEx (SummaryEx.ops.take 5)) (.exec 1 [] (.withdrawPurchased 4))).1.bank (1, 0)
      = 10 := by decide

/-! ## 3. the whole position, by oneself -/

/-- **"what the marketplace owes you, you can take out, exactly, by yourself"**: in every reachable
    state `𝐰 = run w0 ops`, for every account `a` other than the community pool, there are a waiting
    time `dNs` and a finite list `exits` of cash-out messages ALL signed by `a`, no coins attached
    (`ExitsOf a exits`), such that the history "let `dNs` nanoseconds pass, then send `exits`" is
    `CashedOutAll 𝐰 … a` (Lemmas/EntCashoutLemmas.lean):
    * every transaction of it succeeds — no cooperation of any other account is needed;
    * afterwards `a` is entitled to nothing: `entNative = 0` for every denomination, `entCw20 = 0` for
      every token, `entNfts = []`;
    * `a`'s bank balance has risen, for every denomination `d`, by exactly `entNative 𝐰.mkt a d`;
      its balance of every honest CW20 token `t` by exactly `entCw20 𝐰.mkt a t`; every NFT of an
      honest collection in `entNfts 𝐰.mkt a` is `a`'s, and `a` lost none of the NFTs it owned;
    * every other account's entitlement is unchanged (coins, tokens, NFTs), every account other than
      `a`, the marketplace and the pool keeps all its balances and NFTs;
    * pool balance + pending fees is unchanged per denomination: the pool received exactly the
      pending fees of `a`'s records.
    The waiting time only serves to pass the expiration of `a`'s finalized unsold listings (C08: the
    seller is bound until then); it is the `Drainable` witness of `C07_from_deployment`. -/
theorem Ent_cashout_all_reach {w0 : World} (hd : Deployed w0) (ops : List Op)
    (hops : ∀ op ∈ ops, op.avoids w0.self ∧ op.unforged) {a : Nat} (hap : a ≠ w0.pool) :
    ∃ dNs exits, ExitsOf a exits ∧ CashedOutAll (run w0 ops) (.advance dNs 0 :: exits) a := by
  obtain ⟨dNs, hD⟩ := (C07_from_deployment hd ops hops).2.2
  have hp : a ≠ (step (run w0 ops) (.advance dNs 0)).1.pool := by
    show a ≠ (run w0 ops).pool
    rw [(closed_run_addrs w0 ops).2]; exact hap
  obtain ⟨exits, h1, h2, _⟩ := cashout_all a _ hD hp (Nat.le_refl _)
  exact ⟨dNs, exits, h1, ⟨⟨rfl, h2.allOk⟩, h2.entNative0, h2.entCw200, h2.entNfts0, h2.bank, h2.cw20,
    h2.nftGot, h2.nftKept, h2.othersEnt,
    fun y e1 e2 e3 => ⟨(h2.othersWallet y e1 e2 e3).bank, (h2.othersWallet y e1 e2 e3).cw20,
      (h2.othersWallet y e1 e2 e3).nft⟩, h2.poolFees⟩⟩

/-- `Ent_cashout_all_reach` with the vocabulary unfolded (coins and tokens): the statement in terms of
    `step` / `run`, `entNative`, `entCw20`, `entNfts` and the ledgers only -/
theorem Ent_cashout_all_explicit_reach {w0 : World} (hd : Deployed w0) (ops : List Op)
    (hops : ∀ op ∈ ops, op.avoids w0.self ∧ op.unforged) {a : Nat} (hap : a ≠ w0.pool) :
    ∃ dNs exits, (∀ op ∈ exits, ∃ msg, op = .exec a [] msg) ∧
      runOk (run w0 ops) (.advance dNs 0 :: exits) ∧
      (∀ d, entNative (run (run w0 ops) (.advance dNs 0 :: exits)).mkt a d = 0) ∧
      (∀ t, entCw20 (run (run w0 ops) (.advance dNs 0 :: exits)).mkt a t = 0) ∧
      entNfts (run (run w0 ops) (.advance dNs 0 :: exits)).mkt a = [] ∧
      (∀ d, lget (run (run w0 ops) (.advance dNs 0 :: exits)).bank (a, d) =
        lget (run w0 ops).bank (a, d) + entNative (run w0 ops).mkt a d) ∧
      (∀ t, (run w0 ops).isHonest20 t = true →
        lget (run (run w0 ops) (.advance dNs 0 :: exits)).cw20 (t, a) =
          lget (run w0 ops).cw20 (t, a) + entCw20 (run w0 ops).mkt a t) ∧
      (∀ n ∈ entNfts (run w0 ops).mkt a, (run w0 ops).isHonest721 n.coll = true →
        alookup (n.coll, n.tid) (run (run w0 ops) (.advance dNs 0 :: exits)).nft = some a) ∧
      (∀ y, y ≠ a →
        (∀ d, entNative (run (run w0 ops) (.advance dNs 0 :: exits)).mkt y d = entNative (run w0 ops).mkt y d) ∧
        (∀ t, entCw20 (run (run w0 ops) (.advance dNs 0 :: exits)).mkt y t = entCw20 (run w0 ops).mkt y t) ∧
        (entNfts (run (run w0 ops) (.advance dNs 0 :: exits)).mkt y).Perm (entNfts (run w0 ops).mkt y)) := by
  obtain ⟨dNs, exits, h1, h2⟩ := Ent_cashout_all_reach hd ops hops hap
  refine ⟨dNs, exits, fun op hop => ?_, h2.allOk, h2.entNative0, h2.entCw200, h2.entNfts0, h2.bank,
    h2.cw20, h2.nftGot, h2.othersEnt⟩
  obtain ⟨msg, e, _⟩ := h1 op hop
  exact ⟨msg, e⟩

/-- non-vacuity: after the first three operations of the history of Props/Summary.lean account 1 (not
    the pool) has a finalized listing that is still running — it cannot be deleted now, the clock
    advance is needed — and a bucket; it is owed 10 of denom 0 and 10 of denom 2 -/
example : Deployed deployedEx ∧
    (∀ op ∈ C02WEx.opsD, op.avoids deployedEx.self ∧ op.unforged) ∧ (1 : Nat) ≠ deployedEx.pool ∧
    (∀ p ∈ (run deployedEx C02WEx.opsD).mkt.listings, p.2.creator = 1 ∧ p.2.status = .finalized ∧
      ¬ p.2.exitable (run deployedEx C02WEx.opsD).nowNs) ∧
    (run deployedEx C02WEx.opsD).mkt.listings.length = 1 ∧
    (run deployedEx C02WEx.opsD).mkt.buckets.length = 1 ∧
    entNative (run deployedEx C02WEx.opsD).mkt 1 0 = 10 ∧
    entNative (run deployedEx C02WEx.opsD).mkt 1 2 = 10 ∧
    (step (run deployedEx C02WEx.opsD) (.exec 1 [] (.deleteListing 4))).2.ok = false :=
  ⟨C02WEx.deployedEx_ok, by decide, by decide, by decide, by decide, by decide, by decide, by decide,
   by decide⟩

/-- the theorems applied to the sample states -/
example : ∃ dNs exits, ExitsOf 1 exits ∧
    CashedOutAll (run deployedEx C02WEx.opsD) (.advance dNs 0 :: exits) 1 :=
  Ent_cashout_all_reach C02WEx.deployedEx_ok C02WEx.opsD (by decide) (by decide)
example : ∀ k l, (k, l) ∈ (run deployedEx (SummaryEx.ops.take 5)).mkt.listings → l.creator = 1 →
    l.exitable (run deployedEx (SummaryEx.ops.take 5)).nowNs →
    CashedOut (run deployedEx (SummaryEx.ops.take 5))
      (step (run deployedEx (SummaryEx.ops.take 5)) (.exec 1 [] l.exitMsg)) 1 l.forSale l.fee :=
  (Ent_cashout_one_reach C02WEx.deployedEx_ok (SummaryEx.ops.take 5) (by decide) (by decide)).1

namespace EntCashoutEx
/-- wait 600 s, delete the listing, remove the bucket -/
def exits : List Op :=
  [.advance (600 * NS) 0, .exec 1 [] (.deleteListing 4), .exec 1 [] (.removeBucket 5)]
def fin : World := run (run deployedEx C02WEx.opsD) exits
end EntCashoutEx

/-- … and evaluating the model on one such history (wait 600 s, delete the listing, remove the bucket)
    agrees: all accepted, account 1 has its 10 + 10 coins back and is owed nothing -/
example : runOk (run deployedEx C02WEx.opsD) EntCashoutEx.exits ∧
    entNative EntCashoutEx.fin.mkt 1 0 = 0 ∧ entNative EntCashoutEx.fin.mkt 1 2 = 0 ∧
    lget (run deployedEx C02WEx.opsD).bank (1, 0) = 0 ∧ lget EntCashoutEx.fin.bank (1, 0) = 10 ∧
    lget (run deployedEx C02WEx.opsD).bank (1, 2) = 0 ∧ lget EntCashoutEx.fin.bank (1, 2) = 10 :=
  ⟨⟨by decide, by decide, by decide, trivial⟩, by decide, by decide, by decide, by decide, by decide,
   by decide⟩

#print axioms Ent_solvent
#print axioms Ent_solvent_reach
#print axioms Ent_cashout_one_reach
#print axioms Ent_cashout_one_wallet_reach
#print axioms Ent_cashout_all_reach
#print axioms Ent_cashout_all_explicit_reach

end Fuzion
