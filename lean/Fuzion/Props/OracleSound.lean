/-
  Fuzion.Props.OracleSound — the driver's oracles never raise a false alarm on the model.

  The correspondence check evaluates, on every step the real contracts take, a set of *oracles*
  on the implementation's own pre/post states (`Fuzion/Driver/Oracles.lean`, `Compare.lean`).
  This file proves that on the MODEL's own transitions every oracle answers `true`: for a world
  `w` satisfying the proved invariants and every op, with `w' := (step w op).1`,
  `o := (step w op).2`, `oracleXX w w' op … = true`.  Hence an implementation that behaves like
  the model can never trip an oracle: every alarm is a real disagreement with a proved property.

  Each theorem states exactly the hypotheses it needs; all of them are invariants of the model
  (`IdsInv`: C09, `WFInv`: C12, `LedgersNodup`: `stepF_ledgersNodup`), the `u64` bound on the
  clock the C13 theorems carry, or the `Uint128` bound on amounts the C06 theorems carry.  For
  every hypothesis a `decide`d example below shows that the oracle does answer `false` on a model
  step when it is dropped (on states no history reaches).

  The driver also evaluates the oracles on fault-injected steps (`STEPF`: the model's side is
  `stepF fail`), so the theorems are proved for `stepF fail` (`…_fault`) and specialised to `step`.
-/
import Fuzion.Lemmas.OracleLemmas
import Fuzion.Props.C01Closed
import Fuzion.Props.C02
import Fuzion.Props.C02World
import Fuzion.Props.C04
import Fuzion.Props.C06
import Fuzion.Props.C08
import Fuzion.Props.C09
import Fuzion.Props.C10
import Fuzion.Props.C11
import Fuzion.Props.C12
import Fuzion.Props.C13
import Fuzion.Props.C14
import Fuzion.Props.C16
import Fuzion.Props.C19
namespace Fuzion
open Fuzion.Orc Fuzion.Cmp Fuzion.Codec

/-! ## sample worlds for the examples -/

namespace OrcEx

/-- the deployment `deployedEx` (Props/C01Closed.lean) a week and a second later: a fee cycle is
    accepted -/
def wCyc : World := { deployedEx with nowNs := deployedEx.nowNs + 604801 * NS }
def opCyc : Op := .exec 1 [] .feeCycle

/-- the sample history of C01 just before the purchase: listing 3 of account 1 is finalized,
    bucket 8 of account 2 holds the ask -/
def wBuy : World := run AcctEx.w0 (AcctEx.ops.take 6)
def opBuy : Op := .exec 2 [] (.buy 3 8)

/-- … and just before the buyer withdraws the purchased listing, on which a fee of 5 of
    denomination 1 is pending -/
def wWd : World := run AcctEx.w0 (AcctEx.ops.take 8)
def opWd : Op := .exec 2 [] (.withdrawPurchased 3)

theorem wBuy_ids : IdsInv wBuy.mkt := C09_reach (w := AcctEx.w0) rfl _
theorem wBuy_wf : WFInv wBuy.junoD wBuy.usdcD wBuy.mkt :=
  C12_inv_run (w := AcctEx.w0) (WFInv.init _ _ _ _) _
theorem wWd_ids : IdsInv wWd.mkt := C09_reach (w := AcctEx.w0) rfl _
theorem wBuy_ledgers : LedgersNodup wBuy := run_ledgersNodup ⟨by decide, by decide, by decide⟩ _

/-! states no history reaches, for the "hypothesis needed" examples -/

/-- the clock beyond `u64` seconds, the stamp at `u64::MAX` -/
def wSat : World :=
  { deployedEx with nowNs := (U64MAX + 1) * NS, mkt := { deployedEx.mkt with feeSince := U64MAX } }

/-- a bank ledger with a duplicated key -/
def wDup : World := { deployedEx with bank := [((1, 0), 5), ((1, 0), 10)] }

/-- a finalized listing without expiration (ill-formed: `checkWF` rejects it) and a bucket
    holding its ask -/
def lNoExp : Listing :=
  { creator := 1, id := 7, finalizedAt := some 0, expiresAt := none, status := .finalized,
    claimant := none, whitelist := none, forSale := ⟨[⟨0, 1000⟩], [], []⟩,
    ask := ⟨[⟨2, 2000⟩], [], []⟩, fee := none }
def wNoExp : World :=
  { deployedEx with
    mkt := { deployedEx.mkt with listings := [((1, 7), lNoExp)],
                                 buckets := [((2, 8), ⟨2, ⟨[⟨2, 2000⟩], [], []⟩, none⟩)],
                                 listingUsed := [7, 0], bucketUsed := [8, 0] },
    bank := [((9, 0), 1000), ((9, 2), 2000)] }

end OrcEx

/-! ## 0. the state oracles -/

/-- The three state oracles the driver evaluates on every implementation state (`checkC01`,
    `checkIds`, `checkWF`) hold in every model state satisfying the accounting invariant. -/
theorem sound_state_oracles {w : World} (h : C01Inv w) (hl : NftLedgerOk w) :
    checkC01 w = true ∧ checkIds w.mkt = true ∧ checkWF w = true :=
  ⟨C01_check h.backed hl, C09_checkIds_of_inv h.ids, (C12_checkWF_iff w).2 h.wf⟩

example : C01Inv AcctEx.w0 ∧ NftLedgerOk AcctEx.w0 :=
  ⟨⟨IdsInv.init _ _, WFInv.init _ _ _ _, C01Ex.w0_backed, by decide, AcctEx.w0_payouts 100 (by decide)⟩,
   ⟨by decide, by decide⟩⟩

/-- … and along every history from a deployment (ops not signed by the marketplace, no honest
    token forging a hook call — the side conditions of C01): all three state oracles hold in
    every reached state. -/
theorem sound_state_oracles_reach {w : World} (h : Deployed w) (hl : NftLedgerOk w) (ops : List Op)
    (hops : ∀ op ∈ ops, op.avoids w.self ∧ op.honest w) :
    checkC01 (run w ops) = true ∧ checkIds (run w ops).mkt = true ∧ checkWF (run w ops) = true := by
  obtain ⟨t, r, hm⟩ := h.mkt
  exact ⟨C01_check_run_closed (C01Inv_deployed h) hl ops hops, C09_checkIds_reach hm ops,
    C12_checkWF_reach hm ops⟩

example : Deployed deployedEx ∧ NftLedgerOk deployedEx ∧
    ∀ op ∈ C02WEx.opsD, op.avoids deployedEx.self ∧ op.honest deployedEx :=
  ⟨C02WEx.deployedEx_ok, ⟨by decide, by decide⟩, by decide⟩

/-- `checkIds` and `checkWF` along *every* history from instantiation (no side condition on the
    ops at all) -/
theorem sound_ids_wf_reach {w : World} {t : Nat} {r : Option Nat} (h0 : w.mkt = instantiate t r)
    (ops : List Op) : checkIds (run w ops).mkt = true ∧ checkWF (run w ops) = true :=
  ⟨C09_checkIds_reach h0 ops, C12_checkWF_reach h0 ops⟩

example : AcctEx.w0.mkt = instantiate 0 (some 102) := rfl

/-! ## 1. C09: the id logs only grow -/

/-- `o09m` under an arbitrary injected fault -/
theorem sound_o09m_fault (fail : Nat → Bool) (w : World) (op : Op) :
    oracle09m w (stepF fail w op).1 = true := by
  unfold oracle09m subsetNats
  simp only [Bool.and_eq_true, List.all_eq_true, decide_eq_true_eq]
  rcases stepF_mkt_casesF fail w op with h | ⟨c, f, msg, out, _, _, _, hx⟩
  · rw [h]; exact ⟨fun _ h => h, fun _ h => h⟩
  · exact C09_used_monotone hx

/-- `o09m` never fires on a model step (no hypothesis). -/
theorem sound_o09m (w : World) (op : Op) : oracle09m w (step w op).1 = true :=
  sound_o09m_fault noFault w op

-- the oracle is not trivially true: it rejects a post-state that forgot an id
example : oracle09m OrcEx.wBuy (step OrcEx.wBuy OrcEx.opBuy).1 = true ∧
    oracle09m OrcEx.wBuy { OrcEx.wBuy with mkt := { OrcEx.wBuy.mkt with listingUsed := [0] } } = false := by
  decide

/-! ## 2. C13: the fee item -/

/-- `o13` under an arbitrary injected fault: the fee item is written only by an accepted cycle,
    which flips the denomination, stamps the current second and comes more than a week after the
    previous stamp (`C13_cycle_effect`, `C13_cycle_ok_iff`, `C13_only_cycle`) -/
theorem sound_o13_fault (fail : Nat → Bool) (w : World) (op : Op)
    (hU : w.mkt.feeSince + WEEK ≤ U64MAX ∨ w.nowNs / NS ≤ U64MAX) :
    oracle13 w (stepF fail w op).1 op (stepF fail w op).2.ok = true := by
  rcases stepF_mkt_casesF fail w op with h | ⟨c, f, msg, out, ho, hok, _, hx⟩
  · simp [oracle13, h]
  · by_cases hm : msg = .feeCycle
    · subst hm
      have hop := asExec_feeCycle ho
      subst hop
      obtain ⟨_, hcy⟩ := execute_feeCycle_ok hx
      obtain ⟨_, _, h3, h4, _⟩ := C13_cycle_effect hcy
      have h5 : w.nowNs / NS > w.mkt.feeSince + WEEK :=
        (sat_gt_iff hU).1 ((C13_cycle_ok_iff w.mkt w.env).1 ⟨_, hcy⟩)
      have hn : w.env.nowNs = w.nowNs := rfl
      rw [hn] at h4
      have hne : ¬ w.mkt.feeKind = (stepF fail w (.exec c f .feeCycle)).1.mkt.feeKind :=
        fun e => h3 e.symm
      unfold oracle13
      rw [hok]
      simp [h4, h5, hne]
    · obtain ⟨h1, h2⟩ := C13_only_cycle hm hx
      simp [oracle13, h1, h2]

/-- `o13` never fires on a model step, under the `u64` side condition of the C13 theorems (either
    bound; block time is a `u64` number of nanoseconds, so the second always holds on a chain). -/
theorem sound_o13 (w : World) (op : Op)
    (hU : w.mkt.feeSince + WEEK ≤ U64MAX ∨ w.nowNs / NS ≤ U64MAX) :
    oracle13 w (step w op).1 op (step w op).2.ok = true :=
  sound_o13_fault noFault w op hU

-- non-vacuity: the bound holds in the sample world, where a cycle is accepted; the oracle is
-- `true` on the model's step and `false` on a post-state that kept the old stamp
example : (OrcEx.wCyc.mkt.feeSince + WEEK ≤ U64MAX ∨ OrcEx.wCyc.nowNs / NS ≤ U64MAX) ∧
    (step OrcEx.wCyc OrcEx.opCyc).2.ok = true ∧
    oracle13 OrcEx.wCyc (step OrcEx.wCyc OrcEx.opCyc).1 OrcEx.opCyc true = true ∧
    oracle13 OrcEx.wCyc { OrcEx.wCyc with mkt := { OrcEx.wCyc.mkt with feeKind := .usdc } }
      OrcEx.opCyc true = false := by
  refine ⟨.inr (by decide), by decide, by decide, by decide⟩

/-- the side condition is needed: with the stamp at `u64::MAX` and a clock beyond `u64` seconds
    the saturating comparison of the model accepts a cycle that the oracle's plain comparison
    calls premature (no chain reaches such a clock) -/
example : (step OrcEx.wSat OrcEx.opCyc).2.ok = true ∧
    oracle13 OrcEx.wSat (step OrcEx.wSat OrcEx.opCyc).1 OrcEx.opCyc
      (step OrcEx.wSat OrcEx.opCyc).2.ok = false := by decide

/-! ## 3. C14: the registry -/

/-- `o14` under an arbitrary injected fault -/
theorem sound_o14_fault (fail : Nat → Bool) (w : World) (op : Op) :
    oracle14 w (stepF fail w op).1 op (stepF fail w op).2.ok = true := by
  by_cases hr : ∃ s m, op = .royalty s m
  · obtain ⟨s, m, rfl⟩ := hr
    rcases stepF_royalty fail w s m with ⟨e, _, h⟩ | ⟨r, _, h⟩ <;> rw [h] <;> simp [oracle14]
  · have hf := stepF_reg fail (w := w) (op := op) (fun s m h => hr ⟨s, m, h⟩)
    unfold oracle14
    simp [hf]

/-- `o14` never fires on a model step (no hypothesis): an op that is not a registry message, or
    that failed, leaves `reg` literally unchanged. -/
theorem sound_o14 (w : World) (op : Op) : oracle14 w (step w op).1 op (step w op).2.ok = true :=
  sound_o14_fault noFault w op

/-- `o14b`: the registry's rate bound is kept by every model step -/
theorem sound_o14b (w : World) (op : Op)
    (hinv : ∀ p ∈ w.reg, MIN_BPS ≤ p.2.bps ∧ p.2.bps ≤ MAX_BPS) :
    (step w op).1.reg.all (fun p => bpsOk p.2.bps) = true := by
  rw [List.all_eq_true]
  intro p hp
  exact (bpsOk_iff _).2 (C14_step_bps op hinv p hp)

example : ∀ p ∈ AcctEx.w0.reg, MIN_BPS ≤ p.2.bps ∧ p.2.bps ≤ MAX_BPS := by decide

/-! ## 4. C16: no cycle before the announced `next_change` -/

/-- `o16n` under an arbitrary injected fault -/
theorem sound_o16n_fault (fail : Nat → Bool) (w : World) (op : Op) :
    oracle16n w op (stepF fail w op).2.ok = true := by
  unfold oracle16n
  split
  · next s f =>
    cases hok : (stepF fail w (.exec s f .feeCycle)).2.ok with
    | false => rfl
    | true =>
      rcases stepF_ok_cases (fail := fail) (w := w) (op := .exec s f .feeCycle) rfl with
        ⟨h1, _⟩ | ⟨_, msgs, hx, _, _⟩
      · rw [h1] at hok; cases hok
      · obtain ⟨_, hcy⟩ := execute_feeCycle_ok hx
        have h := (C13_cycle_ok_iff w.mkt w.env).1 ⟨_, hcy⟩
        have hn : w.env.nowNs = w.nowNs := rfl
        rw [hn] at h
        simp only [qFeeDenom, Bool.true_and, Bool.not_eq_eq_eq_not, Bool.not_true]
        exact decide_eq_false (by omega)
  · rfl

/-- `o16n` never fires on a model step (no hypothesis: the saturating arithmetic of the query and
    of the handler agree, even at saturation). -/
theorem sound_o16n (w : World) (op : Op) : oracle16n w op (step w op).2.ok = true :=
  sound_o16n_fault noFault w op

-- the oracle is not trivially true: a cycle accepted one second earlier is flagged
example : oracle16n OrcEx.wCyc OrcEx.opCyc (step OrcEx.wCyc OrcEx.opCyc).2.ok = true ∧
    oracle16n { OrcEx.wCyc with nowNs := OrcEx.wCyc.nowNs - NS } OrcEx.opCyc true = false := by decide
-- … and no false alarm at saturation either
example : oracle16n OrcEx.wSat OrcEx.opCyc (step OrcEx.wSat OrcEx.opCyc).2.ok = true := by decide

/-! ## 5. C04 / C19: wallets -/

/-- `o04` under an arbitrary injected fault (`stepF_noDebit`) -/
theorem sound_o04_fault (fail : Nat → Bool) (w : World) (op : Op) (hl : LedgersNodup w) :
    oracle04 w (stepF fail w op).1 op = true := by
  unfold oracle04
  refine walletsKept_of_noDebit hl ?_
  intro y hy
  simp only [Bool.and_eq_true, bne_iff_ne, ne_eq] at hy
  refine stepF_noDebit fail w op ?_ hy.2
  intro hp
  apply hy.1
  cases op <;> simp_all [Op.payer, opSender]

/-- `o04` never fires on a model step: nobody but the op's sender and the marketplace is
    debited.  Hypothesis: the pre-state ledgers are maps (`walletsKept` walks the *entries* of
    the pre-state ledgers, so a shadowed entry of a duplicated key would be compared with the
    value `lget` reads from the first one); every op keeps them maps (`stepF_ledgersNodup`). -/
theorem sound_o04 (w : World) (op : Op) (hl : LedgersNodup w) : oracle04 w (step w op).1 op = true :=
  sound_o04_fault noFault w op hl

/-- `o19` under an arbitrary injected fault (`C19_no_debit_nofunds`; a non-deposit message with
    coins attached is refused and rolls back) -/
theorem sound_o19_fault (fail : Nat → Bool) (w : World) (op : Op) (hl : LedgersNodup w) :
    oracle19 w (stepF fail w op).1 op = true := by
  unfold oracle19
  cases hd : isDepositOp op with
  | true => rfl
  | false =>
    simp only [Bool.false_or]
    refine walletsKept_of_noDebit hl ?_
    intro y hy
    simp only [Bool.and_eq_true, beq_iff_eq, bne_iff_ne, ne_eq] at hy
    obtain ⟨hy1, hy2⟩ := hy
    cases op with
    | exec s f m =>
      simp only [opSender, Option.some.injEq] at hy1
      subst hy1
      simp only [isDepositOp] at hd
      cases f with
      | nil => exact C19_no_debit_nofunds fail m hy2
      | cons a t => rw [stepF_nondeposit_funds fail hd (by simp)]; exact NoDebit.refl _ _
    | send20 t s a i => simp [isDepositOp] at hd
    | send721 c s t i => simp [isDepositOp] at hd
    | royalty s m => exact stepF_noDebit fail w _ (by simp [Op.payer]) hy2
    | setAdmin s c n => exact stepF_noDebit fail w _ (by simp [Op.payer]) hy2
    | advance a b => exact stepF_noDebit fail w _ (by simp [Op.payer]) hy2

/-- `o19` never fires on a model step: an op that is not a deposit does not debit its sender. -/
theorem sound_o19 (w : World) (op : Op) (hl : LedgersNodup w) : oracle19 w (step w op).1 op = true :=
  sound_o19_fault noFault w op hl

-- non-vacuity, and the oracles are not trivially true: a post-state in which account 1 lost its
-- 1000 coins is flagged by `o04` when somebody else acted and by `o19` when 1 sent a non-deposit
example : LedgersNodup AcctEx.w0 ∧ LedgersNodup deployedEx ∧ LedgersNodup OrcEx.wBuy :=
  ⟨⟨by decide, by decide, by decide⟩, ⟨by decide, by decide, by decide⟩, OrcEx.wBuy_ledgers⟩
example : oracle04 AcctEx.w0 (step AcctEx.w0 AcctEx.ops.head!).1 AcctEx.ops.head! = true ∧
    oracle19 AcctEx.w0 (step AcctEx.w0 AcctEx.ops.head!).1 AcctEx.ops.head! = true ∧
    oracle04 AcctEx.w0 { AcctEx.w0 with bank := [] } (.exec 2 [] .feeCycle) = false ∧
    oracle19 AcctEx.w0 { AcctEx.w0 with bank := [] } (.exec 1 [] .feeCycle) = false := by decide

/-- the hypothesis is needed: with a duplicated ledger key even the passage of time trips `o04` -/
example : oracle04 OrcEx.wDup (step OrcEx.wDup (.advance 1 1)).1 (.advance 1 1) = false := by decide

/-! ## 6. C08: the per-id monitor -/

/-- `monotone08` under an arbitrary injected fault -/
theorem sound_o08_fault (fail : Nat → Bool) (w : World) (op : Op) (hI : IdsInv w.mkt)
    (hW : WFInv w.junoD w.usdcD w.mkt) : monotone08 w (stepF fail w op).1 = true := by
  rcases stepF_mkt_casesF fail w op with hm | ⟨c, f, msg, out, _, _, _, hx⟩
  · exact monotone08_same hI hm
  · exact monotone08_execute hI hW hx

/-- `monotone08` never fires on a model step.  `WFInv` is used for one fact only: a finalized
    listing has an expiration (the monitor demands `now ≥ e` of a finalized listing that
    disappears and answers `false` when there is no `e`). -/
theorem sound_o08 (w : World) (op : Op) (hI : IdsInv w.mkt) (hW : WFInv w.junoD w.usdcD w.mkt) :
    monotone08 w (step w op).1 = true :=
  sound_o08_fault noFault w op hI hW

-- non-vacuity: the invariants hold before the sample purchase, which is accepted
example : IdsInv OrcEx.wBuy.mkt ∧ WFInv OrcEx.wBuy.junoD OrcEx.wBuy.usdcD OrcEx.wBuy.mkt ∧
    (step OrcEx.wBuy OrcEx.opBuy).2.ok = true :=
  ⟨OrcEx.wBuy_ids, OrcEx.wBuy_wf, by decide⟩

/-- `WFInv` is needed (`IdsInv` alone is not enough): the model lets the creator delete a
    finalized listing that has no expiration, the monitor calls that premature.  Such a record is
    never stored (`C12`), and `checkWF` flags it on the spot. -/
example : IdsInv OrcEx.wNoExp.mkt ∧ checkWF OrcEx.wNoExp = false ∧
    (step OrcEx.wNoExp (.exec 1 [] (.deleteListing 7))).2.ok = true ∧
    monotone08 OrcEx.wNoExp (step OrcEx.wNoExp (.exec 1 [] (.deleteListing 7))).1 = false :=
  ⟨by constructor <;> decide, by decide, by decide, by decide⟩

/-! ## 7. C04: other wallets' records -/

/-- `o04r` under an arbitrary injected fault (`C04_frame_listings`, `C04_frame_buckets`) -/
theorem sound_o04r_fault (fail : Nat → Bool) (w : World) (op : Op) (hI : IdsInv w.mkt)
    (hW : WFInv w.junoD w.usdcD w.mkt) : oracle04r w (stepF fail w op).1 op = true := by
  unfold oracle04r
  dsimp only
  apply ite_true_of_neg
  intro hcf
  have hnf : ∀ caller tag, isForgedHook w op = some (caller, tag) → (w.kindOf caller).isSome = false := by
    intro caller tag h
    rw [h] at hcf
    simpa using hcf
  clear hcf
  rcases stepF_mkt_casesF fail w op with hm | ⟨c, f, msg, out, ho, _, _, hx⟩
  · rw [hm]
    cases actorOf w op with
    | none => simp
    | some a =>
      simp only [Bool.and_eq_true, List.all_eq_true, Bool.or_eq_true, beq_iff_eq]
      exact ⟨fun p hp => .inl (.inr (mem_nodup_alookup hI.lkeys hp)),
        fun p hp => .inr (mem_nodup_alookup hI.bkeys hp)⟩
  · rw [actorOf_eq_actor ho hx hnf]
    simp only [Bool.and_eq_true, List.all_eq_true, Bool.or_eq_true, beq_iff_eq]
    refine ⟨fun p hp => ?_, fun p hp => ?_⟩
    · by_cases hne : p.1.1 = actor msg c
      · exact .inl (.inl hne)
      · rcases o04r_listing_entry hI hW hx hp hne with h | ⟨⟨bid, hb⟩, hst, e, he, hle⟩
        · exact .inl (.inr h)
        · right
          subst hb
          have hop := asExec_direct ho (by intro a b i h; cases h) (by intro a b i h; cases h)
          subst hop
          have hn : w.env.nowNs = w.nowNs := rfl
          rw [hn] at hle
          simp [hst, he, hle]
    · by_cases hne : p.1.1 = actor msg c
      · exact .inl hne
      · exact .inr (o04r_bucket_entry hI hx hp hne)

/-- `o04r` never fires on a model step: records filed under somebody other than the acting
    wallet are untouched, except the finalized, unexpired listing a purchase takes.  `WFInv` is
    again used only for "a finalized listing has an expiration". -/
theorem sound_o04r (w : World) (op : Op) (hI : IdsInv w.mkt) (hW : WFInv w.junoD w.usdcD w.mkt) :
    oracle04r w (step w op).1 op = true :=
  sound_o04r_fault noFault w op hI hW

-- non-vacuity: see the example after `sound_o08`; the purchase is the exception of the oracle
example : oracle04r OrcEx.wBuy (step OrcEx.wBuy OrcEx.opBuy).1 OrcEx.opBuy = true := by decide

/-- `WFInv` is needed: the model sells a finalized listing that has no expiration, the oracle's
    purchase exception asks for an expiration that has not passed -/
example : IdsInv OrcEx.wNoExp.mkt ∧ (step OrcEx.wNoExp (.exec 2 [] (.buy 7 8))).2.ok = true ∧
    oracle04r OrcEx.wNoExp (step OrcEx.wNoExp (.exec 2 [] (.buy 7 8))).1 (.exec 2 [] (.buy 7 8)) = false :=
  ⟨by constructor <;> decide, by decide, by decide⟩

/-! ## 8. C10: the pool messages of a response -/

/-- Handler level: whenever the handler accepts — also when the chain then rejects one of its
    messages and the implementation reports the response as `errm` — the community-pool codes of
    the response (after the driver's sorting) are exactly what `o10m` expects: the code of the
    pending fee of the record that leaves, with the marketplace as depositor. -/
theorem sound_o10m_execute {w : World} {op : Op} {c : Nat} {f : List Coin} {msg : ExecMsg}
    {m' : Market} {out : List OutMsg} (hI : IdsInv w.mkt) (ho : op.asExec = some (c, f, msg))
    (hx : execute w.mkt w.env c f msg = .ok (m', out)) :
    oracle10m w op (sortCodes (out.map (fun m => implMsgCode (.msg m)))) = true := by
  have hcode : (fun m => implMsgCode (.msg m)) = outMsgCode := rfl
  rw [hcode]
  have hpc : poolCodes (sortCodes (out.map outMsgCode)) =
      (match leavingFee w.mkt c msg with
       | some fee => [[4, w.self, fee.key, fee.amount]]
       | none => []) := by
    apply poolCodes_sortCodes_of_le_one
    · rw [poolCodes_map_outMsgCode, execute_poolOf hx]
      cases leavingFee w.mkt c msg <;> rfl
    · cases leavingFee w.mkt c msg <;> simp
  cases op with
  | royalty s m => simp [Op.asExec] at ho
  | setAdmin s c n => simp [Op.asExec] at ho
  | advance a b => simp [Op.asExec] at ho
  | send20 t s a i =>
    simp only [Op.asExec, Option.some.injEq, Prod.mk.injEq] at ho
    obtain ⟨rfl, rfl, rfl⟩ := ho
    simp only [oracle10m, hpc, leavingFee]
    simp [sortCodes]
  | send721 co s t i =>
    simp only [Op.asExec, Option.some.injEq, Prod.mk.injEq] at ho
    obtain ⟨rfl, rfl, rfl⟩ := ho
    simp only [oracle10m, hpc, leavingFee]
    simp [sortCodes]
  | exec s fu m =>
    simp only [Op.asExec, Option.some.injEq, Prod.mk.injEq] at ho
    obtain ⟨rfl, rfl, rfl⟩ := ho
    cases m with
    | withdrawPurchased lid =>
      simp only [oracle10m, hpc, leavingFee]
      cases hf : findById lid w.mkt.listings with
      | none => rfl
      | some p =>
        obtain ⟨k, l⟩ := p
        cases hfee : l.fee <;> simp [hfee, sortCodes]
    | removeBucket bid =>
      unfold execute at hx
      split at hx
      · cases hx
      dsimp only at hx
      obtain ⟨b0, hb0, _⟩ := withdrawBucket_spec hx
      simp only [oracle10m, hpc, leavingFee, hI.find_bucket hb0, hb0]
      cases hfee : b0.fee <;> simp [hfee, sortCodes]
    | buy lid bid =>
      unfold execute at hx
      split at hx
      · cases hx
      dsimp only at hx
      obtain ⟨k, l, b0, l', b', _, hb0, _⟩ := buy_spec hx
      simp only [oracle10m, hpc, leavingFee, hI.find_bucket hb0, hb0]
      cases hfee : b0.fee <;> simp [hfee, sortCodes]
    | _ =>
      simp only [oracle10m, hpc, leavingFee]
      simp [sortCodes]

/-- `o10m` never fires on an accepted model step: the community-pool messages of the response
    are exactly the recorded fee of the record that leaves with this op.  (`IdsInv` relates the
    oracle's lookup of a bucket by id to the handler's lookup by `(sender, id)`.)  The driver
    evaluates `o10m` only on responses that carry messages or were accepted, without fault. -/
theorem sound_o10m (w : World) (op : Op) (hI : IdsInv w.mkt) (hok : (step w op).2.ok = true) :
    oracle10m w op (sortCodes ((step w op).2.msgs.map (fun m => implMsgCode (.msg m)))) = true := by
  unfold step at hok ⊢
  cases ho : op.asExec with
  | none =>
    rw [stepF_msgs_of_asExec_none noFault ho]
    cases op with
    | exec s fu m => simp [Op.asExec] at ho
    | send20 t s a i => simp [Op.asExec] at ho
    | send721 co s t i => simp [Op.asExec] at ho
    | royalty s m => simp [oracle10m, sortCodes, poolCodes]
    | setAdmin s c n => simp [oracle10m, sortCodes, poolCodes]
    | advance a b => simp [oracle10m, sortCodes, poolCodes]
  | some t =>
    obtain ⟨c, f, msg⟩ := t
    rcases stepF_ok_cases (fail := noFault) (w := w) ho with ⟨h1, _⟩ | ⟨_, msgs, hx, _, hmsgs⟩
    · rw [h1] at hok; cases hok
    · rw [hmsgs]; exact sound_o10m_execute hI ho hx

/-- the same with the pool messages reported the way the harness reports them (`P` entries,
    `toImpl`): the codes are the same -/
theorem sound_o10m_impl (w : World) (op : Op) (hI : IdsInv w.mkt) (hok : (step w op).2.ok = true) :
    oracle10m w op (sortCodes (((step w op).2.msgs.map toImpl).map implMsgCode)) = true := by
  have h : ((step w op).2.msgs.map toImpl).map implMsgCode =
      (step w op).2.msgs.map (fun m => implMsgCode (.msg m)) := by
    rw [List.map_map]
    exact List.map_congr_left (fun m _ => implMsgCode_toImpl m)
  rw [h]
  exact sound_o10m w op hI hok

/-- `o10d` never fires on a model step: every pool message of a response decodes and names the
    marketplace as depositor (whatever the fault) -/
theorem sound_o10d_fault (fail : Nat → Bool) (w : World) (op : Op) :
    ((stepF fail w op).2.msgs.map toImpl).any (fun m => match m with
      | .pool false _ _ => true
      | .pool true d _ => d != w.self
      | _ => false) = false := by
  rw [List.any_eq_false]
  intro x hx
  obtain ⟨m, hm, rfl⟩ := List.mem_map.1 hx
  cases m with
  | bankSend to cs => simp [toImpl]
  | cw20Transfer t to a => simp [toImpl]
  | nftTransfer c t to => simp [toImpl]
  | fundPool d c =>
    have hd : d = w.self := by
      cases ho : op.asExec with
      | none => rw [stepF_msgs_of_asExec_none fail ho] at hm; cases hm
      | some t =>
        obtain ⟨c0, f, msg⟩ := t
        rcases stepF_market (fail := fail) (w := w) ho with ⟨e, h⟩ | ⟨m', msgs, w2, hx', _, _, h⟩
        · rw [h] at hm; cases hm
        · rw [h] at hm; exact execute_pool_depositor hx' hm
    simp [toImpl, hd]

/-- `o10d` never fires on a model step -/
theorem sound_o10d (w : World) (op : Op) :
    ((step w op).2.msgs.map toImpl).any (fun m => match m with
      | .pool false _ _ => true
      | .pool true d _ => d != w.self
      | _ => false) = false :=
  sound_o10d_fault noFault w op

-- non-vacuity of `sound_o10m_execute`: the handler accepts the withdrawal in the sample world
example : OrcEx.opWd.asExec = some (2, [], .withdrawPurchased 3) ∧
    ∃ r, execute OrcEx.wWd.mkt OrcEx.wWd.env 2 [] (.withdrawPurchased 3) = .ok r := ⟨rfl, _, rfl⟩
-- non-vacuity: the withdrawal of the purchased listing is accepted and emits the pool message
-- for the fee of 5 pending on it
example : IdsInv OrcEx.wWd.mkt ∧ (step OrcEx.wWd OrcEx.opWd).2.ok = true ∧
    OutMsg.fundPool 100 ⟨1, 5⟩ ∈ (step OrcEx.wWd OrcEx.opWd).2.msgs :=
  ⟨OrcEx.wWd_ids, by decide, by decide⟩

/-! ## 9. C06 / C10 / C11 / C13: the purchase oracle -/

/-- `buyOracle` under an arbitrary injected fault (an accepted purchase is the same purchase) -/
theorem sound_buyOracle_fault (fail : Nat → Bool) (w : World) (buyer lid bid : Nat) (f : List Coin)
    (hI : IdsInv w.mkt) (hW : WFInv w.junoD w.usdcD w.mkt)
    (hbl : ∀ p ∈ w.mkt.listings, p.2.forSale.bounded) (hbb : ∀ p ∈ w.mkt.buckets, p.2.funds.bounded)
    (hok : (stepF fail w (.exec buyer f (.buy lid bid))).2.ok = true) :
    buyOracle w (stepF fail w (.exec buyer f (.buy lid bid))).1 lid bid = [] := by
  rcases stepF_ok_cases (fail := fail) (w := w) (op := .exec buyer f (.buy lid bid)) rfl with
    ⟨h1, _⟩ | ⟨_, msgs, hx, _, _⟩
  · rw [h1] at hok; cases hok
  have hI' := C09_inv_execute hI hx
  have hb : buy w.mkt w.env buyer lid bid =
      .ok ((stepF fail w (.exec buyer f (.buy lid bid))).1.mkt, msgs) := by
    unfold execute at hx
    split at hx
    · cases hx
    · exact hx
  obtain ⟨l, b, l', b', hl, hbk, hl', hb', e1, e2, n1, c1, n2, c2, nf1, nf2, _⟩ :=
    C06_buy_effect rfl hW hI hbl hbb hb
  obtain ⟨k0, l0, b0, hf0, hb0, s1, s2, _⟩ := C06_buy_closed_form rfl hW hbl hbb hb
  have hfl := (hI.alookup_id hl).2.2
  rw [hfl] at hf0
  cases hf0
  rw [hbk] at hb0
  cases hb0
  have hfl' := (hI'.alookup_id hl').2.2
  have hfb := hI.find_bucket hbk
  have hfb' := hI'.find_bucket hb'
  have wl := hW.trade_forSale (alookup_some_mem hl)
  have wb := hW.trade_funds (alookup_some_mem hbk)
  unfold buyOracle
  simp only [hfl, hfl', hfb, hfb']
  rw [sideFails_nil wl e2 n2 c2 nf2 (royaltyOn_le_half s2),
    sideFails_nil wb e1 n1 c1 nf1 (royaltyOn_le_half s1)]
  rfl

/-- `buyOracle` reports nothing on an accepted model purchase: on both traded records the fee is
    the floor formula in the denomination in force (`f`, `d`), a recorded fee was withheld (`w`),
    at most half of what is left after the fee is taken and every asset stays present (`h`), and
    both records are found afterwards (`x`).  Hypotheses: the storage invariants and `Uint128`
    amounts (the side conditions of `C06_buy_effect`). -/
theorem sound_buyOracle (w : World) (buyer lid bid : Nat) (f : List Coin)
    (hI : IdsInv w.mkt) (hW : WFInv w.junoD w.usdcD w.mkt)
    (hbl : ∀ p ∈ w.mkt.listings, p.2.forSale.bounded) (hbb : ∀ p ∈ w.mkt.buckets, p.2.funds.bounded)
    (hok : (step w (.exec buyer f (.buy lid bid))).2.ok = true) :
    buyOracle w (step w (.exec buyer f (.buy lid bid))).1 lid bid = [] :=
  sound_buyOracle_fault noFault w buyer lid bid f hI hW hbl hbb hok

-- non-vacuity: the sample purchase (fee on the goods, 2.5 % royalty on the payment) meets every
-- hypothesis
example : IdsInv OrcEx.wBuy.mkt ∧ WFInv OrcEx.wBuy.junoD OrcEx.wBuy.usdcD OrcEx.wBuy.mkt ∧
    (∀ p ∈ OrcEx.wBuy.mkt.listings, p.2.forSale.bounded) ∧
    (∀ p ∈ OrcEx.wBuy.mkt.buckets, p.2.funds.bounded) ∧
    (step OrcEx.wBuy (.exec 2 [] (.buy 3 8))).2.ok = true :=
  ⟨OrcEx.wBuy_ids, OrcEx.wBuy_wf, by decide, by decide, by decide⟩

/-! ## 10. C02: acceptance of a purchase is exactly the published terms (`o02t`) -/

/-- `o02t` never fires on a model step: in a reachable world whose registry address is the
    configured one, a purchase without coins is accepted iff `buyTerms` holds. -/
theorem sound_o02t {w : World} (h : Reach w) (hreg : w.mkt.registry = some w.regAddr)
    (buyer lid bid : Nat) :
    ((step w (.exec buyer [] (.buy lid bid))).2.ok != buyTerms w buyer lid bid) = false := by
  have h1 := C02_step_iff_world (buyer := buyer) (lid := lid) (bid := bid) h.inv h.clean hreg
  have h2 := C02_oracle w buyer lid bid
  have : (step w (.exec buyer [] (.buy lid bid))).2.ok = buyTerms w buyer lid bid := by
    rw [Bool.eq_iff_iff, h1, h2]
  simp [this]

example : Reach C02WEx.wBefore ∧ C02WEx.wBefore.mkt.registry = some C02WEx.wBefore.regAddr :=
  ⟨C02WEx.wBefore_reach, by decide⟩

/-! ## 11. the stored registry address (`oIdx`, second half) -/

/-- the stored registry address stays the chain's registry address along every model step -/
theorem sound_oIdx_fault (fail : Nat → Bool) (w : World) (op : Op)
    (hreg : w.mkt.registry = some w.regAddr) :
    ((stepF fail w op).1.mkt.registry == some (stepF fail w op).1.regAddr) = true := by
  rw [stepF_registry, stepF_regAddr, hreg]
  exact beq_self_eq_true _

example : AcctEx.w0.mkt.registry = some AcctEx.w0.regAddr := rfl

/-! ## axioms -/

#print axioms OrcEx.wBuy_ids
#print axioms OrcEx.wBuy_wf
#print axioms OrcEx.wWd_ids
#print axioms OrcEx.wBuy_ledgers
#print axioms sound_state_oracles
#print axioms sound_state_oracles_reach
#print axioms sound_ids_wf_reach
#print axioms sound_o09m_fault
#print axioms sound_o09m
#print axioms sound_o13_fault
#print axioms sound_o13
#print axioms sound_o14_fault
#print axioms sound_o14
#print axioms sound_o14b
#print axioms sound_o16n_fault
#print axioms sound_o16n
#print axioms sound_o04_fault
#print axioms sound_o04
#print axioms sound_o19_fault
#print axioms sound_o19
#print axioms sound_o08_fault
#print axioms sound_o08
#print axioms sound_o04r_fault
#print axioms sound_o04r
#print axioms sound_o10m_execute
#print axioms sound_o10m
#print axioms sound_o10m_impl
#print axioms sound_o10d_fault
#print axioms sound_o10d
#print axioms sound_buyOracle_fault
#print axioms sound_buyOracle
#print axioms sound_o02t
#print axioms sound_oIdx_fault

/-! ### `o13r` (C13: a recorded fee keeps its denomination) is a consequence of `o10m` -/

theorem o13r_of_o10m (cur : World) (op : Op) (codes : List (List Nat))
    (h : oracle10m cur op codes = true) : oracle13r cur op codes = true := by
  unfold oracle13r
  have he : oracle10m cur op codes =
      (match expectPool13 cur op with
       | some e => poolCodes codes == sortCodes e
       | none => true) := by
    unfold oracle10m expectPool13; rfl
  rw [he] at h
  split
  · next e heq =>
    rw [heq] at h
    simp only [beq_iff_eq] at h ⊢
    rw [h]
  · rfl


/-- `o13r` never fires on a model step (consequence of `sound_o10m`): the pool messages of every
    accepted transaction carry the denomination of the fee that was recorded, not the one in force -/
theorem sound_o13r (w : World) (op : Op) (hI : IdsInv w.mkt) (hok : (step w op).2.ok = true) :
    oracle13r w op (sortCodes ((step w op).2.msgs.map (fun m => implMsgCode (.msg m)))) = true :=
  o13r_of_o10m _ _ _ (sound_o10m w op hI hok)

theorem sound_o13r_impl (w : World) (op : Op) (hI : IdsInv w.mkt) (hok : (step w op).2.ok = true) :
    oracle13r w op (sortCodes (((step w op).2.msgs.map toImpl).map implMsgCode)) = true :=
  o13r_of_o10m _ _ _ (sound_o10m_impl w op hI hok)

/-- `o13r` separates: the sample withdrawal's recorded fee (5 of denomination 1) paid in another
    denomination is flagged; the same fee with a wrong amount is not (that is `o10m`'s business) -/
example : oracle13r OrcEx.wWd OrcEx.opWd [[4, 100, 2, 5]] = false ∧
    oracle13r OrcEx.wWd OrcEx.opWd [[4, 100, 1, 6]] = true := by
  have h : expectPool13 OrcEx.wWd OrcEx.opWd = some [[4, 100, 1, 5]] := by decide
  simp [oracle13r, h, sortCodes, List.mergeSort_singleton, poolCodes, codeDenom]

#print axioms sound_o13r
#print axioms sound_o13r_impl

/-! ### `o04b` (C04: a purchase never overwrites a third party's bucket) follows from unique bucket ids -/

theorem filter_len_le_one_of_keys {κ ν : Type} (p : κ × ν → Bool) :
    ∀ (l : List (κ × ν)), (akeys l).Nodup →
      (∀ a ∈ l, ∀ b ∈ l, p a = true → p b = true → a.1 = b.1) → (l.filter p).length ≤ 1
  | [], _, _ => by simp
  | x :: xs, hn, h => by
    have hn' : (akeys xs).Nodup := by
      simp only [akeys, List.map_cons, List.nodup_cons] at hn; exact hn.2
    have hx : x.1 ∉ akeys xs := by
      simp only [akeys, List.map_cons, List.nodup_cons] at hn; exact hn.1
    have ih := filter_len_le_one_of_keys p xs hn'
      (fun a ha b hb => h a (List.mem_cons_of_mem _ ha) b (List.mem_cons_of_mem _ hb))
    cases hp : p x with
    | false => simp only [List.filter_cons, hp]; exact ih
    | true =>
      have hnil : xs.filter p = [] := by
        rw [List.filter_eq_nil_iff]
        intro y hy hpy
        have := h y (List.mem_cons_of_mem _ hy) x (List.mem_cons_self) hpy hp
        exact hx (this ▸ List.mem_map_of_mem (f := (·.1)) hy)
      simp [hp, hnil]

/-- `o04b` never fires on a state with unique bucket ids (`IdsInv`), whatever the outcome -/
theorem sound_o04b (w : World) (op : Op) (ok : Bool) (hI : IdsInv w.mkt) : oracle04b w op ok = true := by
  unfold oracle04b
  split
  · next bid =>
    have := filter_len_le_one_of_keys (fun p => decide (p.1.2 = bid)) w.mkt.buckets hI.bkeys
      (fun a ha b hb hpa hpb => hI.bidInj a ha b hb (by
        simp only [decide_eq_true_eq] at hpa hpb; rw [hpa, hpb]))
    simp only [Bool.not_eq_true', Bool.and_eq_false_iff, decide_eq_false_iff_not]
    exact .inr (by omega)
  · rfl

#print axioms sound_o04b

end Fuzion
