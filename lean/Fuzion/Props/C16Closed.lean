/-
  Fuzion.Props.C16Closed — C16 ("Queries report exactly what is stored and what is purchasable")
  for every state reached from a freshly instantiated marketplace.

  Props/C16.lean proves the query theorems for market records with unique storage keys
  (`(akeys m.buckets).Nodup`, `(akeys m.listings).Nodup`), with every listing filed under
  `(creator, id)`, with well-formed listings (`wfListing`), and — for the fee query — with a fee
  stamp that does not saturate (`m.feeSince + WEEK + 1 ≤ U64MAX`).  Here these are discharged from
  reachability: `w0.mkt = instantiate t r`, the queried record is `(run w0 ops).mkt`, `ops`
  arbitrary (`C09_reach` gives the keys and the filing, `C12_reach` the well-formedness,
  `closed_since_le` + `TimeOk` the stamp bound).

  What remains, and why:
  * `hk : (ownerBuckets m o).length ≤ 20 * k` — how many pages the *caller* asks for (input);
  * `hnow : TWO_WEEKS ≤ nowNs / NS` — the block time of the query is at least 1 209 600 s.  It
    cannot be dropped: below it the market query *fails* (`C16_market_none_iff`; the Rust's
    `current_time - 1_209_600` underflows — the documented assumption), and neither the
    instantiation time `t` nor the clock of the initial world is constrained by the model.  The
    query time `nowNs` is a parameter of the queries and is left arbitrary (strongest form);
    `C16_market_precise_now_reach` instantiates it with the block time of the reached world and
    asks for the two weeks on the *initial* world only (the clock never goes back);
  * `hlen : (marketWindow m nowNs).length ≤ 5100` — the reach of the `u8` page number.  This is not
    an invariant (nothing bounds the number of listings finalized within two weeks), it is the
    stated limit of the interface; `C16_market_precise_unbounded_reach` does without it;
  * for the fee query: `ht : t ≤ w0.nowNs` (the model leaves the instantiation time `t` free) and
    `hclk` (the `advance` operations keep the block time within a `u64`, see Props/C13Closed.lean).

  The paging theorems about `pageOf` (`C16_pages_*`, `C16_page_*`), the totality theorems
  (`C16_owner_total`, `C16_owner_invalid`, `C16_owner_beyond`, `C16_whitelist_total`,
  `C16_market_none_iff`, `C16_market_total`) and `C16_whitelist_exact` have no state-invariant
  hypothesis and are not restated.
-/
import Fuzion.Props.C16
import Fuzion.Props.C01Closed
import Fuzion.Lemmas.ClosedLemmas
namespace Fuzion

/-! ### sample reachable state for the non-vacuity examples

From `deployedEx` (Props/C01Closed.lean; block time 1 700 000 000.123456789 s, instantiated at
that time): account 1 lists 10 of denom 0 for 5 of denom 2, reserved for buyer 2, finalizes for
ten minutes, and opens bucket 6. -/

namespace C16CEx
def ops : List Op :=
  [ .exec 1 [⟨0, 10⟩] (.createListing 5 ⟨⟨[⟨2, 5⟩], [], []⟩, some (.valid 2)⟩),
    .exec 1 [] (.finalize 5 600),
    .exec 1 [⟨2, 10⟩] (.createBucket 6) ]
def w : World := run deployedEx ops
def lst : Listing :=
  { creator := 1, id := 5, finalizedAt := some 1700000000123456789,
    expiresAt := some 1700000600123456789, status := .finalized, claimant := none,
    whitelist := some 2, forSale := ⟨[⟨0, 10⟩], [], []⟩, ask := ⟨[⟨2, 5⟩], [], []⟩, fee := none }
theorem w_listings : w.mkt.listings = [((1, 5), lst)] := by decide
theorem w_buckets : w.mkt.buckets = [((1, 6), ⟨1, ⟨[⟨2, 10⟩], [], []⟩, none⟩)] := by decide
end C16CEx

example : deployedEx.mkt = instantiate 1700000000123456789 (some 7) := rfl

section
variable {w0 : World} {t : Nat} {r : Option Nat}

/-! ## 1. the owner's records, exactly -/

/-- "returns each of that owner's records exactly once" (buckets), in every reachable state: the
    list that is paged is a permutation of the owner's stored `(id, bucket)` pairs, strictly
    ascending by id, without duplicates, and contains no record of anyone else. -/
theorem C16_owner_exact_buckets_reach (h0 : w0.mkt = instantiate t r) (ops : List Op) (o : Nat) :
    (ownerBuckets (run w0 ops).mkt o).Perm
        (((run w0 ops).mkt.buckets.filter (fun p => decide (p.1.1 = o))).map (fun p => (p.1.2, p.2))) ∧
    (ownerBuckets (run w0 ops).mkt o).Pairwise (fun a b => a.1 ≤ b.1) ∧
    (ownerBuckets (run w0 ops).mkt o).Pairwise (fun a b => a.1 < b.1) ∧
    (ownerBuckets (run w0 ops).mkt o).Nodup ∧
    ∀ x, x ∈ ownerBuckets (run w0 ops).mkt o ↔ ((o, x.1), x.2) ∈ (run w0 ops).mkt.buckets :=
  C16_owner_exact_buckets _ o (closed_ids h0 ops).bkeys

/-- "returns each of that owner's records exactly once" (listings), in every reachable state. -/
theorem C16_owner_exact_listings_reach (h0 : w0.mkt = instantiate t r) (ops : List Op) (o : Nat) :
    (ownerListings (run w0 ops).mkt o).Perm
        (((run w0 ops).mkt.listings.filter (fun p => decide (p.1.1 = o))).map (fun p => (p.1.2, p.2))) ∧
    (ownerListings (run w0 ops).mkt o).Pairwise (fun a b => a.1 ≤ b.1) ∧
    (ownerListings (run w0 ops).mkt o).Pairwise (fun a b => a.1 < b.1) ∧
    (ownerListings (run w0 ops).mkt o).Nodup ∧
    ∀ x, x ∈ ownerListings (run w0 ops).mkt o ↔ ((o, x.1), x.2) ∈ (run w0 ops).mkt.listings :=
  C16_owner_exact_listings _ o (closed_ids h0 ops).lkeys

/-- the two theorems applied to the sample state: owner 1's bucket 6 and listing 5 are in the
    paged lists -/
example : (6, (⟨1, ⟨[⟨2, 10⟩], [], []⟩, none⟩ : Bucket)) ∈ ownerBuckets C16CEx.w.mkt 1 ∧
    (5, C16CEx.lst) ∈ ownerListings C16CEx.w.mkt 1 :=
  ⟨((C16_owner_exact_buckets_reach (w0 := deployedEx) rfl C16CEx.ops 1).2.2.2.2 _).2
      (by rw [show (run deployedEx C16CEx.ops).mkt.buckets = _ from C16CEx.w_buckets]
          exact List.mem_cons_self ..),
   ((C16_owner_exact_listings_reach (w0 := deployedEx) rfl C16CEx.ops 1).2.2.2.2 _).2
      (by rw [show (run deployedEx C16CEx.ops).mkt.listings = _ from C16CEx.w_listings]
          exact List.mem_cons_self ..)⟩

/-- The first sentence of C16 for `get_buckets`, end to end, in every reachable state: asking
    pages `1..k` (with `20·k` at least the number of the owner's buckets — the caller's choice of
    `k`) and concatenating the answers yields each `(id, bucket)` stored under that owner exactly
    once and nothing else. -/
theorem C16_buckets_paging_reach (h0 : w0.mkt = instantiate t r) (ops : List Op) (o k : Nat)
    (hk : (ownerBuckets (run w0 ops).mkt o).length ≤ 20 * k) :
    let pages := (List.range k).flatMap fun i => (qBuckets (run w0 ops).mkt (.valid o) (i + 1)).getD []
    pages.Nodup ∧ ∀ x, x ∈ pages ↔ ((o, x.1), x.2) ∈ (run w0 ops).mkt.buckets :=
  C16_buckets_paging _ o k (closed_ids h0 ops).bkeys hk

/-- non-vacuity: one page suffices for owner 1 in the sample state -/
example : (ownerBuckets C16CEx.w.mkt 1).length ≤ 20 * 1 := by
  rw [ownerBuckets, List.length_mergeSort, C16CEx.w_buckets]; decide

/-- The first sentence of C16 for `get_listings_by_owner`, end to end, in every reachable state.
    (Unique keys and "filed under `(creator, id)`" are both parts of `IdsInv`.) -/
theorem C16_listings_paging_reach (h0 : w0.mkt = instantiate t r) (ops : List Op) (o k : Nat)
    (hk : (ownerListings (run w0 ops).mkt o).length ≤ 20 * k) :
    let pages := (List.range k).flatMap fun i =>
      (qListingsByOwner (run w0 ops).mkt (.valid o) (i + 1)).getD []
    pages.Nodup ∧ ∀ l, l ∈ pages ↔ ((o, l.id), l) ∈ (run w0 ops).mkt.listings :=
  C16_listings_paging _ o k (closed_ids h0 ops).lkeys (closed_ids h0 ops).lfiled hk

example : (ownerListings C16CEx.w.mkt 1).length ≤ 20 * 1 := by
  rw [ownerListings, List.length_mergeSort, C16CEx.w_listings]; decide

/-! ## 2. what is listed is purchasable -/

/-- "so a listed item is never already unpurchasable", in every reachable state: a stored record
    that passes the filter of the market / whitelist query at block time `nowNs` (has an
    expiration not in the past, is not closed) is finalized, unsold and unexpired. -/
theorem C16_listed_purchasable_reach (h0 : w0.mkt = instantiate t r) (ops : List Op)
    {k : Nat × Nat} {l : Listing} (hm : (k, l) ∈ (run w0 ops).mkt.listings) {nowNs : Nat}
    (hl : listable nowNs l = true) : purchasable nowNs l = true :=
  C16_listed_purchasable (closed_wfListing h0 ops hm) hl

/-- non-vacuity: the sample listing is stored and passes the filter at the world's block time -/
example : ((1, 5), C16CEx.lst) ∈ C16CEx.w.mkt.listings ∧ listable C16CEx.w.nowNs C16CEx.lst = true :=
  ⟨by rw [C16CEx.w_listings]; exact List.mem_cons_self .., by decide⟩

/-- "The market … quer[y] return[s] precisely the listings that are finalized, unsold and
    unexpired … a listed item is never already unpurchasable" (soundness), in every reachable
    state: whatever page of the market query is asked, every listing in the answer is a stored
    one and is purchasable. -/
theorem C16_market_sound_reach (h0 : w0.mkt = instantiate t r) (ops : List Op)
    {nowNs page : Nat} {res : List Listing} (hq : qMarket (run w0 ops).mkt nowNs page = some res) :
    ∀ l ∈ res, purchasable nowNs l = true ∧ ∃ k, (k, l) ∈ (run w0 ops).mkt.listings :=
  C16_market_sound (closed_wf0 h0 ops).lwf hq

/-- non-vacuity: from two weeks of block time on the query is answered (`C16_market_total`) -/
example : ∃ res, qMarket C16CEx.w.mkt C16CEx.w.nowNs 1 = some res :=
  C16_market_total _ _ _ (by decide)

/-- "(for the whitelist query, those reserved for that buyer)" (soundness), in every reachable
    state: every listing in the answer is stored, reserved for the asking buyer, and
    purchasable. -/
theorem C16_whitelist_sound_reach (h0 : w0.mkt = instantiate t r) (ops : List Op)
    {nowNs o : Nat} {res : List Listing}
    (hq : qWhitelisted (run w0 ops).mkt nowNs (.valid o) = some res) :
    ∀ l ∈ res, purchasable nowNs l = true ∧ l.whitelist = some o ∧
      ∃ k, (k, l) ∈ (run w0 ops).mkt.listings :=
  C16_whitelist_sound (closed_wf0 h0 ops).lwf hq

example : ∃ res, qWhitelisted C16CEx.w.mkt C16CEx.w.nowNs (.valid 2) = some res :=
  (C16_whitelist_total _ _ _).1

/-! ## 3. what is purchasable is listed -/

/-- "return precisely the listings that are finalized, unsold and unexpired" (completeness, the
    index window), in every reachable state: a stored purchasable listing lies inside the window
    `[now_s − 1209600, ∞)` the market query scans. -/
theorem C16_market_window_reach (h0 : w0.mkt = instantiate t r) (ops : List Op) {nowNs : Nat}
    {k : Nat × Nat} {l : Listing} (hm : (k, l) ∈ (run w0 ops).mkt.listings)
    (hp : purchasable nowNs l = true) : l ∈ marketWindow (run w0 ops).mkt nowNs :=
  C16_market_window hm (closed_wfListing h0 ops hm) hp

/-- "return precisely the listings that are finalized, unsold and unexpired" (completeness), in
    every reachable state: with a block time of at least two weeks (`hnow`, see the header), every
    stored purchasable listing appears on some page `≥ 1` of the market query, that page starts
    inside the index window, and it is at most 255 if the window holds at most 5100 records. -/
theorem C16_market_complete_reach (h0 : w0.mkt = instantiate t r) (ops : List Op) {nowNs : Nat}
    {k : Nat × Nat} {l : Listing} (hnow : TWO_WEEKS ≤ nowNs / NS)
    (hm : (k, l) ∈ (run w0 ops).mkt.listings) (hp : purchasable nowNs l = true) :
    ∃ page, 1 ≤ page ∧ (page - 1) * 20 < (marketWindow (run w0 ops).mkt nowNs).length ∧
      ((marketWindow (run w0 ops).mkt nowNs).length ≤ 5100 → page ≤ 255) ∧
      ∃ res, qMarket (run w0 ops).mkt nowNs page = some res ∧ l ∈ res :=
  C16_market_complete hnow hm (closed_wfListing h0 ops hm) hp

/-- non-vacuity of `C16_market_window_reach` / `C16_market_complete_reach`: the sample listing is
    stored and purchasable at the world's block time, which is beyond two weeks -/
example : TWO_WEEKS ≤ C16CEx.w.nowNs / NS ∧ ((1, 5), C16CEx.lst) ∈ C16CEx.w.mkt.listings ∧
    purchasable C16CEx.w.nowNs C16CEx.lst = true :=
  ⟨by decide, by rw [C16CEx.w_listings]; exact List.mem_cons_self .., by decide⟩
/-- … so the market query of the sample state lists it -/
example : ∃ page res, qMarket C16CEx.w.mkt C16CEx.w.nowNs page = some res ∧ C16CEx.lst ∈ res := by
  obtain ⟨page, _, _, _, res, h1, h2⟩ :=
    C16_market_complete_reach (w0 := deployedEx) rfl C16CEx.ops (nowNs := C16CEx.w.nowNs)
      (k := (1, 5)) (l := C16CEx.lst) (by decide)
      (by rw [show (run deployedEx C16CEx.ops).mkt.listings = _ from C16CEx.w_listings]
          exact List.mem_cons_self ..) (by decide)
  exact ⟨page, res, h1, h2⟩

/-- "The market … quer[y] return[s] precisely the listings that are finalized, unsold and
    unexpired", in every reachable state: with a block time of at least two weeks and an index
    window within the reach of a `u8` page number (`hlen`: the interface's limit, not an
    invariant), a listing is on some page `1..255` of the market query iff it is stored and
    purchasable. -/
theorem C16_market_precise_reach (h0 : w0.mkt = instantiate t r) (ops : List Op) {nowNs : Nat}
    (l : Listing) (hnow : TWO_WEEKS ≤ nowNs / NS)
    (hlen : (marketWindow (run w0 ops).mkt nowNs).length ≤ 5100) :
    (∃ page, 1 ≤ page ∧ page ≤ 255 ∧ ∃ res, qMarket (run w0 ops).mkt nowNs page = some res ∧ l ∈ res) ↔
      ∃ k, (k, l) ∈ (run w0 ops).mkt.listings ∧ purchasable nowNs l = true :=
  C16_market_precise l (closed_wf0 h0 ops).lwf hnow hlen

/-- non-vacuity of `C16_market_precise_reach` -/
example : TWO_WEEKS ≤ C16CEx.w.nowNs / NS ∧
    (marketWindow C16CEx.w.mkt C16CEx.w.nowNs).length ≤ 5100 := by
  refine ⟨by decide, ?_⟩
  rw [marketWindow, List.length_map, List.length_mergeSort, C16CEx.w_listings]; decide

/-- the same without the `u8` bound on either side, in every reachable state: over all page
    numbers `≥ 1` the market query returns precisely the stored purchasable listings, whatever
    the size of the window -/
theorem C16_market_precise_unbounded_reach (h0 : w0.mkt = instantiate t r) (ops : List Op)
    {nowNs : Nat} (l : Listing) (hnow : TWO_WEEKS ≤ nowNs / NS) :
    (∃ page, 1 ≤ page ∧ ∃ res, qMarket (run w0 ops).mkt nowNs page = some res ∧ l ∈ res) ↔
      ∃ k, (k, l) ∈ (run w0 ops).mkt.listings ∧ purchasable nowNs l = true :=
  C16_market_precise_unbounded l (closed_wf0 h0 ops).lwf hnow

example : TWO_WEEKS ≤ C16CEx.w.nowNs / NS := by decide

/-- … asked at the block time of the reached world itself: it suffices that the *initial* world's
    block time is at least two weeks (the clock never goes back). -/
theorem C16_market_precise_now_reach (h0 : w0.mkt = instantiate t r) (ops : List Op) (l : Listing)
    (hnow0 : TWO_WEEKS ≤ w0.nowNs / NS) :
    (∃ page, 1 ≤ page ∧
      ∃ res, qMarket (run w0 ops).mkt (run w0 ops).nowNs page = some res ∧ l ∈ res) ↔
      ∃ k, (k, l) ∈ (run w0 ops).mkt.listings ∧ purchasable (run w0 ops).nowNs l = true :=
  C16_market_precise_unbounded_reach h0 ops l (closed_secs_mono w0 ops hnow0)

example : TWO_WEEKS ≤ deployedEx.nowNs / NS := by decide

/-! ## 4. the whitelist query, exactly -/

/-- "The … whitelist quer[y] return[s] precisely the listings that are finalized, unsold and
    unexpired (… those reserved for that buyer)", in every reachable state. -/
theorem C16_whitelist_precise_reach (h0 : w0.mkt = instantiate t r) (ops : List Op)
    {nowNs o : Nat} {res : List Listing} (l : Listing)
    (hq : qWhitelisted (run w0 ops).mkt nowNs (.valid o) = some res) :
    l ∈ res ↔ ∃ k, (k, l) ∈ (run w0 ops).mkt.listings ∧ l.whitelist = some o ∧
      purchasable nowNs l = true :=
  C16_whitelist_precise l (closed_wf0 h0 ops).lwf hq

/-- the theorem applied to the sample state: buyer 2's whitelist query lists listing 5 -/
example : ∃ res, qWhitelisted C16CEx.w.mkt C16CEx.w.nowNs (.valid 2) = some res ∧ C16CEx.lst ∈ res := by
  obtain ⟨res, hq⟩ := (C16_whitelist_total C16CEx.w.mkt C16CEx.w.nowNs 2).1
  refine ⟨res, hq, ?_⟩
  refine (C16_whitelist_precise_reach (w0 := deployedEx) rfl C16CEx.ops C16CEx.lst hq).2
    ⟨(1, 5), ?_, rfl, by decide⟩
  rw [show (run deployedEx C16CEx.ops).mkt.listings = _ from C16CEx.w_listings]
  exact List.mem_cons_self ..

/-! ## 5. the fee query -/

/-- "The fee query reports the denomination the next purchase will be charged in and a
    next-change time before which a cycle attempt is refused and after which it is accepted", in
    every reachable state of a chain whose block time is a `u64` number of nanoseconds: the
    side condition of `C16_fee` (no saturation) is discharged by `feeSince ≤ now` and `TimeOk`.
    `env` is the environment of the cycle attempt — any block time, e.g. a later one. -/
theorem C16_fee_reach (h0 : w0.mkt = instantiate t r) (ht : t ≤ w0.nowNs) (ops : List Op)
    (hclk : w0.nowNs + closed_elapsed ops ≤ U64MAX) (env : Env) :
    let q := qFeeDenom (run w0 ops).mkt env
    q.denom = feeDenomOf env (run w0 ops).mkt.feeKind ∧ q.kind = (run w0 ops).mkt.feeKind ∧
    q.nextChange = (run w0 ops).mkt.feeSince + WEEK + 1 ∧
    ((∃ x, cycleFee (run w0 ops).mkt env = .ok x) ↔ env.nowNs / NS ≥ q.nextChange) :=
  C16_fee _ env (closed_no_saturation (TimeOk_run ops hclk) (closed_since_le h0 ht ops).2)

/-- non-vacuity of `C16_fee_reach`, and the answer computed on the sample state -/
example : 1700000000123456789 ≤ deployedEx.nowNs ∧
    deployedEx.nowNs + closed_elapsed C16CEx.ops ≤ U64MAX ∧
    (qFeeDenom C16CEx.w.mkt C16CEx.w.env).kind = .juno ∧
    (qFeeDenom C16CEx.w.mkt C16CEx.w.env).denom = 0 ∧
    (qFeeDenom C16CEx.w.mkt C16CEx.w.env).nextChange = 1700604801 := by decide

/-- … and as transactions from the reached state: after waiting `dNs` nanoseconds (within the
    `u64` range), the cycle transaction of any account succeeds iff the block second has reached
    the reported next-change time. -/
theorem C16_fee_cycle_reach (h0 : w0.mkt = instantiate t r) (ht : t ≤ w0.nowNs) (ops : List Op)
    (dNs : Nat) (hclk : w0.nowNs + closed_elapsed ops + dNs ≤ U64MAX) (s : Nat) :
    (step (run w0 (ops ++ [.advance dNs 0])) (.exec s [] .feeCycle)).2.ok = true ↔
      (run w0 (ops ++ [.advance dNs 0])).nowNs / NS ≥
        (qFeeDenom (run w0 ops).mkt (run w0 ops).env).nextChange := by
  have hclk' : w0.nowNs + closed_elapsed ops ≤ U64MAX := by omega
  have hq : (qFeeDenom (run w0 ops).mkt (run w0 ops).env).nextChange =
      (run w0 ops).mkt.feeSince + WEEK + 1 := (C16_fee_reach h0 ht ops hclk' (run w0 ops).env).2.2.1
  rw [hq]
  have hm : (run w0 (ops ++ [.advance dNs 0])).mkt = (run w0 ops).mkt := by
    rw [run_append]; rfl
  have hT : TimeOk (run w0 (ops ++ [.advance dNs 0])) := by
    apply TimeOk_run
    rw [closed_elapsed_append, closed_elapsed_cons, closed_elapsed_nil]
    simp only [Op.elapseNs]
    omega
  constructor
  · intro h
    have := C13_step_cycle (.inr hT.secs) h
    rw [hm] at this
    omega
  · intro h
    exact C13_step_can_cycle s (by rw [hm]; omega)

/-- non-vacuity: waiting 604 801 s from the sample state stays within a `u64`; both sides occur -/
example : deployedEx.nowNs + closed_elapsed C16CEx.ops + 604801 * NS ≤ U64MAX ∧
    (step (run deployedEx (C16CEx.ops ++ [.advance (604801 * NS) 0])) (.exec 9 [] .feeCycle)).2.ok
      = true ∧
    (step (run deployedEx (C16CEx.ops ++ [.advance (604800 * NS) 0])) (.exec 9 [] .feeCycle)).2.ok
      = false := by decide

end

/-! ## axioms -/

#print axioms C16_owner_exact_buckets_reach
#print axioms C16_owner_exact_listings_reach
#print axioms C16_buckets_paging_reach
#print axioms C16_listings_paging_reach
#print axioms C16_listed_purchasable_reach
#print axioms C16_market_sound_reach
#print axioms C16_whitelist_sound_reach
#print axioms C16_market_window_reach
#print axioms C16_market_complete_reach
#print axioms C16_market_precise_reach
#print axioms C16_market_precise_unbounded_reach
#print axioms C16_market_precise_now_reach
#print axioms C16_whitelist_precise_reach
#print axioms C16_fee_reach
#print axioms C16_fee_cycle_reach

end Fuzion
