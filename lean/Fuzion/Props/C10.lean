/-
  Fuzion.Props.C10 — "Every fee charged reaches the community pool exactly once".

  Property text:  Each fee recorded at a purchase is deposited into the chain's community pool in
  full and exactly once, by a well-formed fund-community-pool message whose depositor is the
  marketplace and whose amount is the recorded fee, no later than when that side's proceeds leave
  the marketplace.  It is never dropped, duplicated, paid to a user, or lost when the record is
  traded again before being withdrawn.

  (The byte-level format of the message is `Fuzion/Props/C10Proto.lean`.)

  Structure
  * `C10_execute_pending`: the ledger of pending fees.  Per denomination, what is recorded as
    pending after an accepted call plus what the call's fund-community-pool messages deposit equals
    what was pending before plus what the call charges (`charged`: zero except for `buy`, where it
    is the two fees `calc_fee_coin` computes, `C10_charged_recorded`).  So a pending fee leaves the
    records only by being deposited, in full, in the same response: never dropped, never
    duplicated, never turned into a payment to a user (`poolPaid` counts pool deposits only; C01
    shows that the coins of every bank send come out of goods, not of fees).
  * `C10_wellformed`: depositor = marketplace, amount = a recorded fee (non-zero, in one of the two
    fee denominations).
  * `C10_withdrawBucket`, `C10_withdrawPurchased`, `C10_buy_pays_old`, `C10_delete_no_pool`,
    `C10_untraded_no_fee`: timeliness.
  * `C10_step`, `C10_conservation`: at world level `pool balance + pending = initial + Σ charged`
    along every history.
-/
import Fuzion.Lemmas.AcctLemmas
namespace Fuzion

/-! ## handler level -/

section handler
variable {m m' : Market} {env : Env} {out : List OutMsg} {j u : Nat}
  {sender : Nat} {funds : List Coin} {msg : ExecMsg}

/-- "deposited … in full and exactly once … never dropped, duplicated, paid to a user, or lost when
    the record is traded again": the pending-fee ledger of every accepted call balances.  Only
    fund-community-pool messages are counted on the left (`poolPaid`), only a purchase adds on the
    right (`charged`). -/
theorem C10_execute_pending (hI : IdsInv m) (hW : WFInv j u m)
    (h : execute m env sender funds msg = .ok (m', out)) :
    ∀ d, pendingFee m' d + poolPaid out d = pendingFee m d + charged m env sender msg d :=
  fun d => execute_pending d hI hW h

example : IdsInv AcctEx.mkt ∧ WFInv 1 2 AcctEx.mkt ∧
    ∃ r, execute AcctEx.mkt AcctEx.env0 2 [] (.buy 3 8) = .ok r := ⟨AcctEx.ids, AcctEx.wf, _, rfl⟩
example : IdsInv AcctEx.mkt ∧ WFInv 1 2 AcctEx.mkt ∧
    ∃ r, execute AcctEx.mkt AcctEx.env0 2 [] (.removeBucket 8) = .ok r := ⟨AcctEx.ids, AcctEx.wf, _, rfl⟩
/-- the numbers of the sample purchase in denomination 1: 4 pending before; the purchase charges 5
    (on the goods) and deposits the bucket's old 4 -/
example : pendingFee AcctEx.mkt 1 = 4 ∧ charged AcctEx.mkt AcctEx.env0 2 (.buy 3 8) 1 = 5 := by decide

/-- `WFInv` cannot be dropped: on an ill-formed record — a never-traded listing that carries a
    fee — `deleteListing` drops the fee without depositing it. -/
example : IdsInv AcctEx.badMkt ∧ ∃ m' out,
    execute AcctEx.badMkt AcctEx.env0 1 [] (.deleteListing 3) = .ok (m', out) ∧
    pendingFee AcctEx.badMkt 1 = 9 ∧ pendingFee m' 1 = 4 ∧ poolPaid out 1 = 0 ∧
    charged AcctEx.badMkt AcctEx.env0 1 (.deleteListing 3) 1 = 0 :=
  ⟨by constructor <;> decide, _, _, rfl, by decide⟩

/-- nothing but a purchase charges a fee -/
theorem C10_charged_only_buy (d : Nat) (hne : ∀ lid bid, msg ≠ .buy lid bid) :
    charged m env sender msg d = 0 := by
  cases msg <;> first | rfl | exact absurd rfl (hne _ _)

example : ∀ lid bid, ExecMsg.removeBucket 8 ≠ .buy lid bid := by intro _ _ h; cases h

/-- "Each fee recorded at a purchase": what an accepted purchase charges is exactly what it
    records — the `fee` field of the re-filed listing plus the `fee` field of the re-filed
    bucket (each is `calc_fee_coin` of that side's goods in the denomination in force). -/
theorem C10_charged_recorded {buyer lid bid : Nat} (h : buy m env buyer lid bid = .ok (m', out)) :
    ∃ k l l' b', findById lid m.listings = some (k, l) ∧
      findById lid m'.listings = some ((buyer, lid), l') ∧
      alookup (l.creator, bid) m'.buckets = some b' ∧
      ∀ d, chargedBy m env buyer lid bid d = feeAmt l'.fee d + feeAmt b'.fee d := by
  obtain ⟨k, l, b, l', b', lbal, bbal, hl, hb, e1, e2, hl', hb'⟩ := buy_fee_inv h
  refine ⟨k, l, l', b', hl, hl', hb', fun d => ?_⟩
  simp only [chargedBy, hl, hb, e1, e2]

example : ∃ r, buy AcctEx.mkt AcctEx.env0 2 3 8 = .ok r := ⟨_, rfl⟩

/-- "by a well-formed fund-community-pool message whose depositor is the marketplace and whose
    amount is the recorded fee": every pool deposit an accepted call emits names the marketplace as
    depositor and carries the `fee` field of a record of the pre-state; that fee is non-zero and in
    one of the two fee denominations. -/
theorem C10_wellformed (hI : IdsInv m) (hW : WFInv env.junoD env.usdcD m)
    (h : execute m env sender funds msg = .ok (m', out)) :
    ∀ dep c, OutMsg.fundPool dep c ∈ out →
      dep = env.self ∧ RecFee m c ∧ c.amount ≠ 0 ∧ (c.key = env.junoD ∨ c.key = env.usdcD) := by
  intro dep c hm
  obtain ⟨h1, h2⟩ := (execute_out_shape hI hW h _ hm).pool
  exact ⟨h1, h2, hW.recFee h2⟩

example : IdsInv AcctEx.mkt ∧ WFInv AcctEx.env0.junoD AcctEx.env0.usdcD AcctEx.mkt ∧
    ∃ m', execute AcctEx.mkt AcctEx.env0 2 [] (.buy 3 8) =
      .ok (m', [.fundPool 100 ⟨1, 4⟩, .bankSend 9 [⟨2, 50⟩]]) := ⟨AcctEx.ids, AcctEx.wf, _, rfl⟩

/-! ### timeliness -/

/-- "no later than when that side's proceeds leave the marketplace" (bucket): the response that
    sends a bucket's contents to its owner ends with the deposit of the bucket's pending fee, and
    removes the record. -/
theorem C10_withdrawBucket {user id : Nat} (h : withdrawBucket m env user id = .ok (m', out)) :
    ∃ b, alookup (user, id) m.buckets = some b ∧
      out = sendTokens b.owner b.funds ++ feeMsg env.self b.fee ∧
      m'.buckets = aerase (user, id) m.buckets ∧ alookup (user, id) m'.buckets = none := by
  unfold withdrawBucket at h
  split at h
  · cases h
  rename_i b hb
  obtain ⟨_, h⟩ := ite_err_ok h
  simp only [Except.ok.injEq, Prod.mk.injEq] at h
  obtain ⟨rfl, rfl⟩ := h
  exact ⟨b, hb, rfl, rfl, alookup_aerase_self _ _⟩

example : ∃ r, withdrawBucket AcctEx.mkt AcctEx.env0 2 8 = .ok r := ⟨_, rfl⟩

/-- "no later than when that side's proceeds leave the marketplace" (purchased listing): the
    response that sends the purchased goods to the claimant ends with the deposit of the listing's
    pending fee, and removes the record. -/
theorem C10_withdrawPurchased {who lid : Nat} (h : withdrawPurchased m env who lid = .ok (m', out)) :
    ∃ k l, findById lid m.listings = some (k, l) ∧ l.claimant = some who ∧
      out = sendTokens who l.forSale ++ feeMsg env.self l.fee ∧
      m'.listings = aerase (who, lid) m.listings := by
  unfold withdrawPurchased at h
  split at h
  · cases h
  rename_i k l hl
  split at h
  · cases h
  rename_i c hc
  obtain ⟨h1, h⟩ := ite_err_ok h
  obtain ⟨_, h⟩ := ite_err_ok h
  simp only [Except.ok.injEq, Prod.mk.injEq] at h
  obtain ⟨rfl, rfl⟩ := h
  have : who = c := by simpa using h1
  subst this
  exact ⟨k, l, hl, hc, rfl, rfl⟩

/-- "or lost when the record is traded again before being withdrawn" (repair of defect D1): a
    purchase paid with a bucket that still carries a pending fee deposits that fee in the same
    response, before the bucket is re-filed with the new fee. -/
theorem C10_buy_pays_old {buyer lid bid : Nat} {b : Bucket} {f : Coin}
    (h : buy m env buyer lid bid = .ok (m', out)) (hb : alookup (buyer, bid) m.buckets = some b)
    (hf : b.fee = some f) : OutMsg.fundPool env.self f ∈ out := by
  obtain ⟨k, l, b', lfee, lbal, bfee, bbal, ra, fb, msgs1, s1, fl, msgs2, s2, hb', _, _, _, _, _, _,
    _, _, _, rfl⟩ := buy_ok_inv h
  rw [hb] at hb'
  injection hb' with hb'
  subst hb'
  rw [hf]
  simp [feeMsg]

example : (∃ m', buy AcctEx.mkt AcctEx.env0 2 3 8 =
      .ok (m', [.fundPool 100 ⟨1, 4⟩, .bankSend 9 [⟨2, 50⟩]])) ∧
    alookup (2, 8) AcctEx.mkt.buckets = some AcctEx.bkt ∧ AcctEx.bkt.fee = some ⟨1, 4⟩ :=
  ⟨AcctEx.buy_ok, rfl, rfl⟩

/-- a listing can only be traded again after it has been withdrawn (a closed listing is never
    purchasable), so the listing side needs no such payment: the listing a purchase consumes
    carries no fee -/
theorem C10_buy_listing_no_fee {buyer lid bid : Nat} (hI : IdsInv m) (hW : WFInv j u m)
    (h : buy m env buyer lid bid = .ok (m', out)) :
    ∃ k l, findById lid m.listings = some (k, l) ∧ l.fee = none := by
  obtain ⟨k, l, b', lfee, lbal, bfee, bbal, ra, fb, msgs1, s1, fl, msgs2, s2, _, hl, _, hs, _, _, _,
    _, _, _, _⟩ := buy_ok_inv h
  obtain ⟨_, hlk, _⟩ := hI.findById_lookup hl
  exact ⟨k, l, hl, wfListing_finalized_fee (hW.listing hlk) hs⟩

example : IdsInv AcctEx.mkt ∧ WFInv 1 2 AcctEx.mkt ∧ ∃ r, buy AcctEx.mkt AcctEx.env0 2 3 8 = .ok r :=
  ⟨AcctEx.ids, AcctEx.wf, _, rfl⟩

/-- deleting a listing never emits a pool message — and never needs to: the deleted listing has no
    claimant, hence was never traded and carries no fee -/
theorem C10_delete_no_pool {id : Nat} (hI : IdsInv m) (hW : WFInv j u m)
    (h : deleteListing m env sender id = .ok (m', out)) :
    (∀ dep c, OutMsg.fundPool dep c ∉ out) ∧
    ∃ l, alookup (sender, id) m.listings = some l ∧ l.fee = none := by
  obtain ⟨l, hl, _, hc, rfl, _⟩ := deleteListing_ws hI h
  refine ⟨?_, l, hl, wfListing_noClaimant_fee (hW.listing hl) (by rw [hc]; rfl)⟩
  intro dep c hm
  rcases mem_sendTokens hm with ⟨_, e⟩ | ⟨_, _, e⟩ | ⟨_, _, e⟩ <;> cases e

/-- a never-traded record has no fee: only a closed listing can carry one -/
theorem C10_untraded_no_fee {k : Nat × Nat} {l : Listing} (hW : WFInv j u m)
    (hl : alookup k m.listings = some l) (hs : l.status ≠ .closed) : l.fee = none := by
  cases hf : l.fee with
  | none => rfl
  | some c => exact absurd (wfListing_fee (hW.listing hl) hf).2.2 hs

example : WFInv 1 2 AcctEx.mkt ∧ alookup (1, 3) AcctEx.mkt.listings = some AcctEx.lst ∧
    AcctEx.lst.status ≠ .closed := ⟨AcctEx.wf, rfl, by decide⟩

end handler

private def exDelL : Listing :=
  { AcctEx.lst with finalizedAt := none, expiresAt := none, status := .preparing }
private def exDel : Market := { AcctEx.mkt with listings := [((1, 3), exDelL)] }
example : IdsInv exDel ∧ WFInv 1 2 exDel ∧ ∃ r, deleteListing exDel AcctEx.env0 1 3 = .ok r :=
  ⟨by constructor <;> decide, by constructor <;> decide, _, rfl⟩

private def exClosedL : Listing :=
  { AcctEx.lst with creator := 2, claimant := some 2, status := .closed, fee := some ⟨1, 5⟩ }
private def exClosed : Market := { AcctEx.mkt with listings := [((2, 3), exClosedL)] }
example : ∃ r, withdrawPurchased exClosed AcctEx.env0 2 3 = .ok r := ⟨_, rfl⟩

/-! ## world level: the ghost ledger -/

/-- fees charged by one transaction: what its handler charges if the transaction succeeds -/
def chargedStep (w : World) (op : Op) (d : Nat) : Nat :=
  if (step w op).2.ok then
    (match op.asExec with
     | some (c, _, msg) => charged w.mkt w.env c msg d
     | none => 0)
  else 0

/-- fees charged along a history -/
def chargedRun (w : World) : List Op → Nat → Nat
  | [], _ => 0
  | op :: ops, d => chargedStep w op d + chargedRun (step w op).1 ops d

/-- Conservation across one transaction: the community pool's balance plus the fees still recorded
    as pending grows by exactly the fees charged.  Side conditions ("nobody else pays the pool"):
    the pool is not the marketplace, no registry entry pays out to the pool, the operation is not
    signed by the pool and does not register it as payout address. -/
theorem C10_step {w : World} {op : Op} (hI : IdsInv w.mkt) (hW : WFInv w.junoD w.usdcD w.mkt)
    (hpool : w.pool ≠ w.self) (hpay : PayoutsNe w.reg w.pool) (hop : op.avoids w.pool) :
    ∀ d, lget (step w op).1.bank (w.pool, d) + pendingFee (step w op).1.mkt d =
      lget w.bank (w.pool, d) + pendingFee w.mkt d + chargedStep w op d := by
  intro d
  unfold chargedStep step
  cases ho : op.asExec with
  | some tr =>
    obtain ⟨c, f, msg⟩ := tr
    rcases stepF_cases (fail := noFault) (w := w) ho with ⟨e, h⟩ | ⟨w1, m', msgs, w2, hD, hx, hd, h⟩
    · rw [h]; simp [Outcome.fail]
    · rw [h]
      obtain ⟨hc, _⟩ := hD.core
      have hs : op.sender ≠ w.pool := Op.avoids_sender hop ho
      have hdep := hD.bank ho w.pool d
      rw [if_neg (Ne.symm hs), if_neg hpool] at hdep
      have hpend := execute_pending d hI hW hx
      have hbd := market_bank_dests hI hW ho hx hs (fun c r h => hpay c r h)
      have hfr := dispatchAll_frame hd
      have hdis := dispatchAll_pool hd (by
        show w1.pool ≠ w1.self
        rw [hc.pool, hc.self]; exact hpool) d
      dsimp only at hdis
      rw [hc.pool, sentTo_zero hbd] at hdis
      simp only [if_true]
      rw [hfr.2]
      dsimp only
      omega
  | none =>
    obtain ⟨h1, _, _, h4, _⟩ := stepF_nonmarket (fail := noFault) (w := w) ho
    rw [h1, h4]
    split <;> rfl

example : IdsInv AcctEx.w0.mkt ∧ WFInv AcctEx.w0.junoD AcctEx.w0.usdcD AcctEx.w0.mkt ∧
    AcctEx.w0.pool ≠ AcctEx.w0.self ∧ PayoutsNe AcctEx.w0.reg AcctEx.w0.pool ∧
    ∀ op ∈ AcctEx.ops, op.avoids AcctEx.w0.pool :=
  ⟨IdsInv.init _ _, WFInv.init _ _ _ _, by decide, AcctEx.w0_payouts 101 (by decide), by decide⟩

/-- the invariants carried along a history -/
structure C10Inv (w : World) : Prop where
  ids : IdsInv w.mkt
  wf : WFInv w.junoD w.usdcD w.mkt
  pool : w.pool ≠ w.self
  payouts : PayoutsNe w.reg w.pool

/-- "Every fee charged reaches the community pool exactly once": along every history, per
    denomination, `pool balance + pending fees = initial pool balance + initial pending fees +
    Σ fees charged`.  Together with `pendingFee = 0` once every traded record has been withdrawn,
    the pool has received every fee, once.  `hIds` / `hWF` are the preservation theorems of the
    id and well-formedness invariants (`C09_inv_execute`, `C12_inv_execute`). -/
theorem C10_conservation
    (hIds : ∀ {m m' : Market} {env : Env} {s : Nat} {f : List Coin} {msg : ExecMsg}
      {out : List OutMsg}, IdsInv m → execute m env s f msg = .ok (m', out) → IdsInv m')
    (hWF : ∀ {m m' : Market} {env : Env} {s : Nat} {f : List Coin} {msg : ExecMsg}
      {out : List OutMsg}, IdsInv m → WFInv env.junoD env.usdcD m →
      execute m env s f msg = .ok (m', out) → WFInv env.junoD env.usdcD m')
    (ops : List Op) : ∀ {w : World}, C10Inv w → (∀ op ∈ ops, op.avoids w.pool) → ∀ d,
      lget (run w ops).bank (w.pool, d) + pendingFee (run w ops).mkt d =
        lget w.bank (w.pool, d) + pendingFee w.mkt d + chargedRun w ops d := by
  induction ops with
  | nil => intro w _ _ d; rfl
  | cons op ops ih =>
    intro w h hops d
    have hop := hops op List.mem_cons_self
    have hst := stepF_static noFault w op
    have h1 := C10_step h.ids h.wf h.pool h.payouts hop d
    have hinv : C10Inv (step w op).1 := by
      refine ⟨?_, ?_, ?_, ?_⟩
      · exact stepF_mkt_inv (P := IdsInv) h.ids (fun hx => hIds h.ids hx)
      · show WFInv (stepF noFault w op).1.junoD (stepF noFault w op).1.usdcD (stepF noFault w op).1.mkt
        rw [hst.junoD, hst.usdcD]
        exact stepF_mkt_inv (P := WFInv w.junoD w.usdcD) h.wf (fun hx => hWF h.ids h.wf hx)
      · show (stepF noFault w op).1.pool ≠ (stepF noFault w op).1.self
        rw [hst.pool, hst.self]; exact h.pool
      · show PayoutsNe (stepF noFault w op).1.reg (stepF noFault w op).1.pool
        rw [hst.pool]; exact stepF_payouts h.payouts hop
    have h2 := ih hinv (by
      intro op' hop'
      show op'.avoids (stepF noFault w op).1.pool
      rw [hst.pool]
      exact hops op' (List.mem_cons_of_mem _ hop')) d
    have hp : (step w op).1.pool = w.pool := hst.pool
    rw [hp] at h2
    show lget (run (step w op).1 ops).bank (w.pool, d) + pendingFee (run (step w op).1 ops).mkt d =
      lget w.bank (w.pool, d) + pendingFee w.mkt d + (chargedStep w op d + chargedRun (step w op).1 ops d)
    omega

example : C10Inv AcctEx.w0 :=
  ⟨IdsInv.init _ _, WFInv.init _ _ _ _, by decide, AcctEx.w0_payouts 101 (by decide)⟩
example : ∀ op ∈ AcctEx.ops, op.avoids AcctEx.w0.pool := by decide
/-- in the sample history one fee of 5 (denomination 1) is charged; after the buyer has withdrawn,
    the pool holds 5 and nothing is pending -/
example : chargedRun AcctEx.w0 AcctEx.ops 1 = 5 ∧ chargedRun AcctEx.w0 AcctEx.ops 2 = 0 ∧
    lget (run AcctEx.w0 AcctEx.ops).bank (101, 1) = 5 ∧ pendingFee (run AcctEx.w0 AcctEx.ops).mkt 1 = 0 ∧
    pendingFee (run AcctEx.w0 (AcctEx.ops.take 7)).mkt 1 = 5 ∧
    lget (run AcctEx.w0 (AcctEx.ops.take 7)).bank (101, 1) = 0 := by decide

/-
  Closing the hypotheses.  With `Fuzion/Props/C09.lean` and `C12.lean` imported, the two
  preservation hypotheses are discharged by
    `C10_conservation C09_inv_execute (fun _ hw h => C12_inv_execute hw h)`
  (checked; kept out of this file so that it only depends on its own lemma file).
-/

#print axioms C10_execute_pending
#print axioms C10_charged_only_buy
#print axioms C10_charged_recorded
#print axioms C10_wellformed
#print axioms C10_withdrawBucket
#print axioms C10_withdrawPurchased
#print axioms C10_buy_pays_old
#print axioms C10_buy_listing_no_fee
#print axioms C10_delete_no_pool
#print axioms C10_untraded_no_fee
#print axioms C10_step
#print axioms C10_conservation

end Fuzion
