/-
  Fuzion.Props.C12Reach — C12 ("Every escrow record is well-formed and therefore payable") for
  every state reached from a freshly instantiated marketplace.

  Property text (C12): Every listing and bucket the marketplace holds contains at least one
  asset, no zero amount, no duplicate denomination, token or NFT, and cannot be topped up beyond
  25 distinct assets; every ask is likewise non-empty, duplicate-free and at most 25 items; and
  status, timestamps, buyer and pending fee are mutually consistent and the record is filed under
  its owner and id.  Deposits or asks that would break this are refused and those that keep it are
  accepted (for a fresh legal id, an owned listing still in preparation, or any owned bucket), so
  a payout can never be rejected by the bank or a token contract for being empty, zero or
  duplicated.

  The invariant itself is already stated over reachable states (`C12_reach`, `C12_checkWF_reach`).
  The acceptance theorems of Props/C12.lean (handler level) and Props/C12World.lean (transaction
  level) assume of the state: `IdsInv` (creations: the storage-key test is implied by the id-log
  test), and for top-ups / ask changes that the record found under `(sender, id)` is owned by the
  sender, well-formed, and — for a preparing listing — never finalized and unclaimed.  Here all
  of these are discharged from reachability: `w0.mkt = instantiate t r`, state `run w0 ops`
  (`C09_reach`, `C12_reach` through `closed_ids`, `closed_wf`).  What remains are hypotheses about
  the *input*: which record `(sender, id)` names (for a listing: that it is still in preparation),
  the deposit, the ask.

  The 128-bit hypothesis `Funds.fits` of the primed top-up theorems ("stored amount + deposited
  amount ≤ 2^128 − 1", per denomination resp. for the token) is **kept**: it cannot be discharged
  from reachability, nor from `BoundedInv` + `Op.fits128` (Lemmas/ClosedLemmas.lean), which bound
  the stored amount and the deposited amount *separately* by 2^128 − 1, not their sum.  In the
  model (balances are unbounded naturals, the initial ledgers are arbitrary) the sum does exceed
  2^128 − 1 in a reachable state whose history carries 128-bit amounts only; there `add_tokens`
  aborts and the primed equivalence without `Funds.fits` would be false: see `C12REx.wBig` and the
  `decide`d witness after `C12_add_to_bucket_step_iff'_reach`.  (It would follow from a bound on
  the total supply of every denomination / token in the initial world through the accounting
  invariant C01, which is about the world, not the marketplace record, and needs side conditions
  on the history; out of scope here.)  The unprimed forms (`…_step_iff_reach`,
  `C12_topup_*_exact_reach`) need no arithmetic hypothesis at all: an overflow abort is a refusal
  and appears in the acceptance condition.

  `C12_ask_iff`, `C12_ask_wf`, `C12_normalized_iff`, `C12_create_*_iff` (unprimed), `C12_whitelist_iff`,
  `C12_add_total`, `C12_topup_count`, `C12_payable_withdraw/send`, `C12_payout_msgs`,
  `C12_can_pay_iff`, `C12_bank_send_iff`, `C12_send20_bad_payload` have no state hypothesis and are
  not restated.
-/
import Fuzion.Props.C12
import Fuzion.Props.C12World
import Fuzion.Lemmas.ReachLemmas
namespace Fuzion

/-! ### sample reachable states for the non-vacuity examples

`C12WEx.w = run AcctEx.w0 C12WEx.ops` (Props/C12World.lean): from the sample deployment, account 2
has opened listing 3 (preparing, 2000 of denom 2) and bucket 8 (1000 of denom 2); it still holds
2000 of denom 2 and NFT (60, 11); account 5 holds 77 of the honest token 50.  `C12REx.wSold` is the
state after the trade of the sample history (seven operations): a closed listing with a pending
fee and the seller's proceeds bucket.  `C12REx.wBig`: the same deployment, except that account 2
holds 2^129 of denom 2 and has opened bucket 8 with 2^128 − 1 of it.  `C12REx.wTok`: as `C12WEx.w`, but
from the deployment with 10 units of token 50 credited to account 2. -/

namespace C12REx
def wSold : World := run AcctEx.w0 (AcctEx.ops.take 7)
def w0Big : World := { AcctEx.w0 with bank := [((2, 2), 2 * (U128MAX + 1))] }
def opsBig : List Op := [.exec 2 [⟨2, U128MAX⟩] (.createBucket 8)]
def wBig : World := run w0Big opsBig
def w0Tok : World := { AcctEx.w0 with cw20 := ((50, 2), 10) :: AcctEx.w0.cw20 }
def wTok : World := run w0Tok C12WEx.ops
end C12REx

example : AcctEx.w0.mkt = instantiate 0 (some 102) ∧ C12REx.w0Big.mkt = instantiate 0 (some 102) :=
  ⟨rfl, rfl⟩
example : C12WEx.w.mkt.listings.map (fun p => (p.1, p.2.status, p.2.forSale)) =
      [((2, 3), .preparing, ⟨[⟨2, 2000⟩], [], []⟩)] ∧
    C12WEx.w.mkt.buckets.map (fun p => (p.1, p.2.owner, p.2.funds)) =
      [((2, 8), 2, ⟨[⟨2, 1000⟩], [], []⟩)] := by decide

section
variable {w0 : World} {t : Nat} {r : Option Nat}

/-! ## 1. the invariant -/

/-- "Every listing and bucket the marketplace holds contains at least one asset, no zero amount,
    no duplicate …; and status, timestamps, buyer and pending fee are mutually consistent and the
    record is filed under its owner and id" — the inductive step from any reachable state: every
    message accepted there, in an environment that shows the world's two fee denominations,
    leaves a well-formed state.  (`C12_inv_execute` with its premise discharged.) -/
theorem C12_inv_execute_reach (h0 : w0.mkt = instantiate t r) (ops : List Op) {m' : Market}
    {env : Env} {s : Nat} {f : List Coin} {msg : ExecMsg} {out : List OutMsg}
    (hj : env.junoD = w0.junoD) (hu : env.usdcD = w0.usdcD)
    (h : execute (run w0 ops).mkt env s f msg = .ok (m', out)) : WFInv env.junoD env.usdcD m' :=
  C12_inv_execute (reach_wf_env h0 ops hj hu) h

example : C12WEx.w.env.junoD = AcctEx.w0.junoD ∧ C12WEx.w.env.usdcD = AcctEx.w0.usdcD ∧
    C12Ex.errOf (execute C12WEx.w.mkt C12WEx.w.env 2 [⟨2, 5⟩] (.addToBucket 8)) = none :=
  ⟨rfl, rfl, by decide⟩

/-- the consistency of "status, timestamps, buyer and pending fee", spelled out for every listing
    stored in a reachable state: it is filed under `(creator, id)`; a preparing one has no time
    stamp, no claimant, no fee; a finalized one has both time stamps (finalization ≤ expiration),
    no claimant, no fee; a closed (sold) one has both time stamps and its holder as claimant. -/
theorem C12_listing_consistent_reach (h0 : w0.mkt = instantiate t r) (ops : List Op)
    {k : Nat × Nat} {l : Listing} (hm : (k, l) ∈ (run w0 ops).mkt.listings) :
    k = (l.creator, l.id) ∧ wfBal l.forSale = true ∧ wfAsk l.ask = true ∧
    (l.status = .preparing →
      l.finalizedAt = none ∧ l.expiresAt = none ∧ l.claimant = none ∧ l.fee = none) ∧
    (l.status = .finalized →
      (∃ f e, l.finalizedAt = some f ∧ l.expiresAt = some e ∧ f ≤ e) ∧ l.claimant = none ∧
      l.fee = none) ∧
    (l.status = .closed →
      (∃ f e, l.finalizedAt = some f ∧ l.expiresAt = some e ∧ f ≤ e) ∧
      l.claimant = some l.creator) := by
  have hwf := closed_wfListing h0 ops hm
  obtain ⟨h1, h2, h3, h4⟩ := reach_wfListing_status hwf
  refine ⟨h1, (wfListing_parts hwf).2.1, ?_, h2, h3, h4⟩
  unfold wfListing at hwf
  simp only [Bool.and_eq_true] at hwf
  exact hwf.1.2

example : ∃ p ∈ C12REx.wSold.mkt.listings, p.2.status = .closed := by decide

/-! ## 2. asks -/

/-- "asks that would break this are refused and those that keep it are accepted (for … an owned
    listing still in preparation …)", in every reachable state: `execute_change_ask` on the
    listing found under `(s, id)`, if it is still in preparation, is accepted exactly when the new
    ask is `AskOK` (addresses validate, no zero, 1–25 items, no duplicate).  The hypotheses
    "`s` is the creator", "never finalized", "unclaimed" of `C12_changeAsk_iff'` are discharged. -/
theorem C12_changeAsk_iff_reach (h0 : w0.mkt = instantiate t r) (ops : List Op) {s id : Nat}
    {l : Listing} (ask : RawGBal) (hl : alookup (s, id) (run w0 ops).mkt.listings = some l)
    (hst : l.status = .preparing) :
    (∃ res, changeAsk (run w0 ops).mkt s id ask = .ok res) ↔ AskOK ask := by
  obtain ⟨hk, h1, _⟩ := reach_listing_status h0 ops (alookup_some_mem hl)
  exact C12_changeAsk_iff' ask hl (Prod.mk.inj hk).1 hst (h1 hst).1 (h1 hst).2.2.1

/-- non-vacuity of `C12_changeAsk_iff_reach`: listing 3 of account 2 is preparing in the sample
    state; a valid ask is accepted, the empty ask is refused -/
example : (alookup (2, 3) C12WEx.w.mkt.listings).map (·.status) = some .preparing ∧
    C12Ex.errOf (changeAsk C12WEx.w.mkt 2 3 ⟨[⟨1, 9⟩], [], []⟩) = none ∧
    C12Ex.errOf (changeAsk C12WEx.w.mkt 2 3 ⟨[], [], []⟩) = some .badAsk := by decide

/-! ## 3. creations (handler level) -/

/-- "Deposits … that would break this are refused and those that keep it are accepted (for a
    fresh legal id …)", in every reachable state: `execute_create_bucket` is accepted exactly for
    an id below `MAX_SAFE_INT` that is not in the log, with a deposit that passes
    `normalized_check` (the storage-key test is implied: `C09_reach`). -/
theorem C12_create_bucket_iff_reach (h0 : w0.mkt = instantiate t r) (ops : List Op) (funds : Funds)
    (creator id : Nat) :
    (∃ res, createBucket (run w0 ops).mkt funds creator id = .ok res) ↔
      id < MAX_SAFE_INT ∧ id ∉ (run w0 ops).mkt.bucketUsed ∧ normalizedCheck funds = true :=
  C12_create_bucket_iff' (closed_ids h0 ops) funds creator id

/-- the CW721 bucket creation, in every reachable state: only the id is tested -/
theorem C12_create_bucket_nft_iff_reach (h0 : w0.mkt = instantiate t r) (ops : List Op) (user : Nat)
    (nft : Nft) (id : Nat) :
    (∃ res, createBucketNft (run w0 ops).mkt user nft id = .ok res) ↔
      id < MAX_SAFE_INT ∧ id ∉ (run w0 ops).mkt.bucketUsed :=
  C12_create_bucket_nft_iff' (closed_ids h0 ops) user nft id

/-- `execute_create_listing`, in every reachable state: accepted exactly for a fresh legal id, a
    `normalized_check`-ed deposit, an absent whitelist or a valid address other than the creator,
    and an ask that is `AskOK` -/
theorem C12_create_listing_iff_reach (h0 : w0.mkt = instantiate t r) (ops : List Op) (user : Nat)
    (funds : Funds) (c : CreateMsg) (id : Nat) :
    (∃ res, createListing (run w0 ops).mkt user funds c id = .ok res) ↔
      id < MAX_SAFE_INT ∧ normalizedCheck funds = true ∧ id ∉ (run w0 ops).mkt.listingUsed ∧
      (c.whitelist = none ∨ ∃ a, c.whitelist = some (.valid a) ∧ a ≠ user) ∧ AskOK c.ask :=
  C12_create_listing_iff' (closed_ids h0 ops) user funds c id

/-- `execute_create_listing_cw721`, in every reachable state -/
theorem C12_create_listing_nft_iff_reach (h0 : w0.mkt = instantiate t r) (ops : List Op)
    (user : Nat) (nft : Nft) (c : CreateMsg) (id : Nat) :
    (∃ res, createListingNft (run w0 ops).mkt user nft c id = .ok res) ↔
      id < MAX_SAFE_INT ∧ id ∉ (run w0 ops).mkt.listingUsed ∧
      (c.whitelist = none ∨ ∃ a, c.whitelist = some (.valid a) ∧ a ≠ user) ∧ AskOK c.ask :=
  C12_create_listing_nft_iff' (closed_ids h0 ops) user nft c id

/-- the four equivalences have no hypothesis other than reachability; both sides occur in the
    sample state: fresh ids are accepted, the used ids 8 / 3, a zero coin and an empty ask are
    refused -/
example :
    C12Ex.errOf (createBucket C12WEx.w.mkt (.native [⟨1, 5⟩]) 9 4) = none ∧
    C12Ex.errOf (createBucket C12WEx.w.mkt (.native [⟨1, 5⟩]) 9 8) = some .idUsed ∧
    C12Ex.errOf (createBucket C12WEx.w.mkt (.native [⟨1, 0⟩]) 9 4) = some .badFunds ∧
    C12Ex.errOf (createBucketNft C12WEx.w.mkt 9 ⟨60, 1⟩ 4) = none ∧
    C12Ex.errOf (createListing C12WEx.w.mkt 9 (.cw20 ⟨50, 5⟩) C12WEx.ask 4) = none ∧
    C12Ex.errOf (createListing C12WEx.w.mkt 9 (.cw20 ⟨50, 5⟩) C12WEx.ask 3) = some .idUsed ∧
    C12Ex.errOf (createListing C12WEx.w.mkt 9 (.cw20 ⟨50, 5⟩) ⟨⟨[], [], []⟩, none⟩ 4) = some .badAsk ∧
    C12Ex.errOf (createListingNft C12WEx.w.mkt 9 ⟨60, 1⟩ C12WEx.ask 4) = none := by decide

/-! ## 4. top-ups (handler level) -/

/-- "cannot be topped up beyond 25 distinct assets … those that keep it are accepted (for … any
    owned bucket)", in every reachable state, **without any arithmetic hypothesis**: a deposit
    onto the bucket found under `(s, id)` is accepted exactly when it passes `normalized_check`,
    `add_tokens` does not overflow a `Uint128`, and the resulting balance has at most 25 assets.
    (Owner and well-formedness of the record are discharged.) -/
theorem C12_topup_bucket_exact_reach (h0 : w0.mkt = instantiate t r) (ops : List Op) {funds : Funds}
    {s id : Nat} {b : Bucket} (hb : alookup (s, id) (run w0 ops).mkt.buckets = some b) :
    (∃ res, addToBucket (run w0 ops).mkt funds s id = .ok res) ↔
      normalizedCheck funds = true ∧
      ∃ nf, addTokens b.funds funds = some nf ∧ nf.count ≤ MAX_ASSETS := by
  obtain ⟨ho, wf, _⟩ := reach_bucket h0 ops hb
  exact addToBucket_ok_iff hb ho.symm wf

/-- `C12_topup_bucket_iff` in every reachable state: given the result `nf` of `add_tokens`, the
    deposit is accepted exactly when it passes `normalized_check` and `nf` has at most 25 assets —
    the `genbal_cmp` ("nothing added") test never refuses a valid deposit, and `check_valid` can
    only fail on the cap. -/
theorem C12_topup_bucket_iff_reach (h0 : w0.mkt = instantiate t r) (ops : List Op) {funds : Funds}
    {s id : Nat} {b : Bucket} {nf : GBal}
    (hb : alookup (s, id) (run w0 ops).mkt.buckets = some b)
    (hadd : addTokens b.funds funds = some nf) :
    (∃ res, addToBucket (run w0 ops).mkt funds s id = .ok res) ↔
      normalizedCheck funds = true ∧ nf.count ≤ MAX_ASSETS := by
  obtain ⟨ho, wf, _⟩ := reach_bucket h0 ops hb
  exact C12_topup_bucket_iff hb ho.symm wf hadd

/-- `C12_topup_bucket_iff'` in every reachable state: if the amounts fit a `Uint128`
    (`Funds.fits` — kept, see the header), a deposit onto the bucket found under `(s, id)` is
    accepted exactly when it passes `normalized_check` and old assets plus new distinct assets are
    at most 25. -/
theorem C12_topup_bucket_iff'_reach (h0 : w0.mkt = instantiate t r) (ops : List Op) {funds : Funds}
    {s id : Nat} {b : Bucket} (hb : alookup (s, id) (run w0 ops).mkt.buckets = some b)
    (hfit : funds.fits b.funds) :
    (∃ res, addToBucket (run w0 ops).mkt funds s id = .ok res) ↔
      normalizedCheck funds = true ∧ b.funds.count + funds.newAssets b.funds ≤ MAX_ASSETS := by
  obtain ⟨ho, wf, _⟩ := reach_bucket h0 ops hb
  exact C12_topup_bucket_iff' hb ho.symm wf hfit

/-- non-vacuity of the three bucket top-up theorems: bucket 8 of account 2 in the sample state; a
    deposit of one old and one new denomination fits, merges and is accepted; 24 new
    denominations on top of the one asset are accepted, 25 are refused by the cap alone -/
example : (alookup (2, 8) C12WEx.w.mkt.buckets).map (·.funds) = some ⟨[⟨2, 1000⟩], [], []⟩ ∧
    addTokens ⟨[⟨2, 1000⟩], [], []⟩ (.native [⟨2, 5⟩, ⟨3, 1⟩]) = some ⟨[⟨2, 1005⟩, ⟨3, 1⟩], [], []⟩ ∧
    (Funds.cw20 ⟨50, 9⟩).fits ⟨[⟨2, 1000⟩], [], []⟩ ∧
    C12Ex.errOf (addToBucket C12WEx.w.mkt (.native [⟨2, 5⟩, ⟨3, 1⟩]) 2 8) = none ∧
    C12Ex.errOf (addToBucket C12WEx.w.mkt (.cw20 ⟨50, 9⟩) 2 8) = none ∧
    C12Ex.errOf (addToBucket C12WEx.w.mkt (.native ((List.range 24).map fun i => ⟨i + 10, 1⟩)) 2 8) =
      none ∧
    C12Ex.errOf (addToBucket C12WEx.w.mkt (.native ((List.range 25).map fun i => ⟨i + 10, 1⟩)) 2 8) =
      some .invalid :=
  ⟨by decide, by decide, (by show coinAmt ([] : List Coin) 50 + 9 ≤ U128MAX; decide), by decide,
   by decide, by decide, by decide⟩

/-- "… (for … an owned listing still in preparation …)", in every reachable state, **without any
    arithmetic hypothesis**: `execute_add_to_listing` on the listing found under `(s, id)`, if it
    is still in preparation, is accepted exactly when the deposit passes `normalized_check`,
    `add_tokens` does not overflow, and the result has at most 25 assets.  (Creator, "unclaimed"
    and well-formedness of the goods are discharged.) -/
theorem C12_topup_listing_exact_reach (h0 : w0.mkt = instantiate t r) (ops : List Op)
    {funds : Funds} {s id : Nat} {l : Listing}
    (hl : alookup (s, id) (run w0 ops).mkt.listings = some l) (hst : l.status = .preparing) :
    (∃ res, addToListing (run w0 ops).mkt funds s id = .ok res) ↔
      normalizedCheck funds = true ∧
      ∃ nf, addTokens l.forSale funds = some nf ∧ nf.count ≤ MAX_ASSETS := by
  obtain ⟨ho, hc, wf⟩ := preparing_lookup_parts (closed_ids h0 ops) (closed_wf0 h0 ops) hl hst
  exact addToListing_ok_iff hl ho hst hc wf

/-- `C12_topup_listing_iff` in every reachable state -/
theorem C12_topup_listing_iff_reach (h0 : w0.mkt = instantiate t r) (ops : List Op) {funds : Funds}
    {s id : Nat} {l : Listing} {nf : GBal}
    (hl : alookup (s, id) (run w0 ops).mkt.listings = some l) (hst : l.status = .preparing)
    (hadd : addTokens l.forSale funds = some nf) :
    (∃ res, addToListing (run w0 ops).mkt funds s id = .ok res) ↔
      normalizedCheck funds = true ∧ nf.count ≤ MAX_ASSETS := by
  obtain ⟨ho, hc, wf⟩ := preparing_lookup_parts (closed_ids h0 ops) (closed_wf0 h0 ops) hl hst
  exact C12_topup_listing_iff hl ho hst hc wf hadd

/-- `C12_topup_listing_iff'` in every reachable state (`Funds.fits` kept, see the header) -/
theorem C12_topup_listing_iff'_reach (h0 : w0.mkt = instantiate t r) (ops : List Op)
    {funds : Funds} {s id : Nat} {l : Listing}
    (hl : alookup (s, id) (run w0 ops).mkt.listings = some l) (hst : l.status = .preparing)
    (hfit : funds.fits l.forSale) :
    (∃ res, addToListing (run w0 ops).mkt funds s id = .ok res) ↔
      normalizedCheck funds = true ∧ l.forSale.count + funds.newAssets l.forSale ≤ MAX_ASSETS := by
  obtain ⟨ho, hc, wf⟩ := preparing_lookup_parts (closed_ids h0 ops) (closed_wf0 h0 ops) hl hst
  exact C12_topup_listing_iff' hl ho hst hc wf hfit

/-- non-vacuity of the three listing top-up theorems: listing 3 of account 2 is preparing -/
example : (alookup (2, 3) C12WEx.w.mkt.listings).map (fun l => (l.status, l.forSale)) =
      some (.preparing, ⟨[⟨2, 2000⟩], [], []⟩) ∧
    addTokens ⟨[⟨2, 2000⟩], [], []⟩ (.cw20 ⟨50, 9⟩) = some ⟨[⟨2, 2000⟩], [⟨50, 9⟩], []⟩ ∧
    (Funds.cw20 ⟨50, 9⟩).fits ⟨[⟨2, 2000⟩], [], []⟩ ∧
    C12Ex.errOf (addToListing C12WEx.w.mkt (.cw20 ⟨50, 9⟩) 2 3) = none ∧
    C12Ex.errOf (addToListing C12WEx.w.mkt (.cw20 ⟨50, 0⟩) 2 3) = some .badFunds :=
  ⟨by decide, by decide, (by show coinAmt ([] : List Coin) 50 + 9 ≤ U128MAX; decide), by decide,
   by decide⟩

/-- the CW721 top-up of the bucket found under `(s, id)` in a reachable state: accepted exactly
    when there is room for one more asset and the NFT is not already in the record -/
theorem C12_topup_bucket_nft_iff_reach (h0 : w0.mkt = instantiate t r) (ops : List Op) {nft : Nft}
    {s id : Nat} {b : Bucket} (hb : alookup (s, id) (run w0 ops).mkt.buckets = some b) :
    (∃ res, addToBucketNft (run w0 ops).mkt s nft id = .ok res) ↔
      b.funds.count + 1 ≤ MAX_ASSETS ∧ nft ∉ b.funds.nfts := by
  obtain ⟨ho, wf, _⟩ := reach_bucket h0 ops hb
  exact C12_topup_bucket_nft_iff hb ho.symm wf

/-- the CW721 top-up of the preparing listing found under `(s, id)` in a reachable state -/
theorem C12_topup_listing_nft_iff_reach (h0 : w0.mkt = instantiate t r) (ops : List Op) {nft : Nft}
    {s id : Nat} {l : Listing} (hl : alookup (s, id) (run w0 ops).mkt.listings = some l)
    (hst : l.status = .preparing) :
    (∃ res, addToListingNft (run w0 ops).mkt s nft id = .ok res) ↔
      l.forSale.count + 1 ≤ MAX_ASSETS ∧ nft ∉ l.forSale.nfts := by
  obtain ⟨ho, hc, wf⟩ := preparing_lookup_parts (closed_ids h0 ops) (closed_wf0 h0 ops) hl hst
  exact C12_topup_listing_nft_iff hl ho hst hc wf

/-- non-vacuity: an NFT is accepted once, and refused the second time ("the same NFT sent twice") -/
example : C12Ex.errOf (addToBucketNft C12WEx.w.mkt 2 ⟨60, 11⟩ 8) = none ∧
    C12Ex.errOf (addToListingNft C12WEx.w.mkt 2 ⟨60, 11⟩ 3) = none ∧
    (step (step C12WEx.w (.send721 60 2 11 (some (.addToBucket 8)))).1
      (.exec 60 [] (.receiveNft (.valid 2) 11 (some (.addToBucket 8))))).2.ok = false := by decide

/-! ## 5. payouts -/

/-- "so a payout can never be rejected by the bank or a token contract for being empty, zero or
    duplicated", in every reachable state: for every stored bucket the withdrawal messages, and
    for every stored listing both the deletion refund (to the creator) and the withdrawal of a
    purchase (to whichever claimant `c`), are `Payable` — every message well-formed, at most one
    bank send, one CW20 transfer per distinct token, one NFT transfer per distinct NFT, a pool
    funding exactly for a pending fee.  No hypothesis other than reachability. -/
theorem C12_payable_reach (h0 : w0.mkt = instantiate t r) (ops : List Op) (self : Nat) :
    (∀ p ∈ (run w0 ops).mkt.buckets,
      Payable self p.2.owner p.2.funds p.2.fee (withdrawMsgs self p.2.owner p.2.funds p.2.fee)) ∧
    (∀ p ∈ (run w0 ops).mkt.listings,
      Payable self p.2.creator p.2.forSale none (sendTokens p.2.creator p.2.forSale) ∧
      ∀ c, Payable self c p.2.forSale p.2.fee (withdrawMsgs self c p.2.forSale p.2.fee)) :=
  C12_payable (closed_wf0 h0 ops) self

/-- it is not vacuous: the reached state after the sample trade holds a closed listing with a
    pending fee and the proceeds bucket -/
example : C12REx.wSold.mkt.listings.map (fun p => (p.1, p.2.fee)) = [((2, 3), some ⟨1, 5⟩)] ∧
    C12REx.wSold.mkt.buckets.map (·.1) = [(1, 8)] := by decide

/-- every message emitted by a bucket withdrawal, listing deletion or purchase withdrawal accepted
    in a reachable state is well-formed -/
theorem C12_payouts_wellFormed_reach (h0 : w0.mkt = instantiate t r) (ops : List Op) {m' : Market}
    {env : Env} {s id : Nat} {out : List OutMsg}
    (h : withdrawBucket (run w0 ops).mkt env s id = .ok (m', out) ∨
         deleteListing (run w0 ops).mkt env s id = .ok (m', out) ∨
         withdrawPurchased (run w0 ops).mkt env s id = .ok (m', out)) :
    ∀ msg ∈ out, msg.wellFormed :=
  C12_payouts_wellFormed (closed_wf0 h0 ops) h

example : C12Ex.errOf (withdrawBucket C12REx.wSold.mkt C12REx.wSold.env 1 8) = none ∧
    C12Ex.errOf (withdrawPurchased C12REx.wSold.mkt C12REx.wSold.env 2 3) = none ∧
    C12Ex.errOf (deleteListing C12WEx.w.mkt C12WEx.w.env 2 3) = none := by decide

/-- "so a payout can never be rejected … for being empty, zero or duplicated", for the whole
    contract: every message emitted by any `execute` call accepted in a reachable state is
    well-formed. -/
theorem C12_msgs_wellFormed_reach (h0 : w0.mkt = instantiate t r) (ops : List Op) {m' : Market}
    {env : Env} {s : Nat} {f : List Coin} {msg : ExecMsg} {out : List OutMsg}
    (h : execute (run w0 ops).mkt env s f msg = .ok (m', out)) : ∀ x ∈ out, x.wellFormed :=
  C12_msgs_wellFormed (closed_wf0 h0 ops) h

example : C12Ex.errOf (execute C12REx.wSold.mkt C12REx.wSold.env 2 [] (.withdrawPurchased 3)) = none := by
  decide

/-- … and for whole transactions: **every** message reported by **any** transaction from **any**
    reachable state is well-formed (a bank send carries a non-empty, zero-free, duplicate-free
    coin list; a CW20 transfer and a community-pool funding a non-zero amount).  No hypothesis
    other than reachability. -/
theorem C12_msgs_wellFormed_step_reach (h0 : w0.mkt = instantiate t r) (ops : List Op) (op : Op) :
    ∀ x ∈ (step (run w0 ops) op).2.msgs, x.wellFormed := by
  intro x hx
  rcases reach_step_msgs (run w0 ops) op with hnil | ⟨s, f, msg, m', _, hex, _, _⟩
  · rw [hnil] at hx; cases hx
  · exact C12_msgs_wellFormed (closed_wf0 h0 ops) hex x hx

/-- it is not vacuous: the buyer's withdrawal from the reached state after the trade -/
example : (step C12REx.wSold (.exec 2 [] (.withdrawPurchased 3))).2.msgs =
    [.bankSend 2 [⟨1, 995⟩], .cw20Transfer 50 2 400, .nftTransfer 60 7 2, .fundPool 100 ⟨1, 5⟩] := by
  decide

/-! ## 6. deposits as transactions (Props/C12World.lean) -/

/-- **`CreateBucket` with coins attached**, from any reachable state: accepted exactly for a legal
    id that was never used, a deposit that passes `normalized_check`, and a sender who holds every
    attached coin. -/
theorem C12_create_bucket_step_iff_reach (h0 : w0.mkt = instantiate t r) (ops : List Op) (x : Nat)
    (funds : List Coin) (id : Nat) :
    (step (run w0 ops) (.exec x funds (.createBucket id))).2.ok = true ↔
      id < MAX_SAFE_INT ∧ id ∉ (run w0 ops).mkt.bucketUsed ∧
      normalizedCheck (.native funds) = true ∧
      ∀ c ∈ funds, c.amount ≤ lget (run w0 ops).bank (x, c.key) :=
  C12_create_bucket_step_iff (closed_ids h0 ops) x funds id

/-- both sides occur: account 2 (2000 of denom 2 left) creates bucket 9 with 2000; with 2001
    (cannot pay), with a zero coin, or under the used id 8 it is refused -/
example : (step C12WEx.w (.exec 2 [⟨2, 2000⟩] (.createBucket 9))).2.ok = true ∧
    (step C12WEx.w (.exec 2 [⟨2, 2001⟩] (.createBucket 9))).2.ok = false ∧
    (step C12WEx.w (.exec 2 [⟨2, 0⟩] (.createBucket 9))).2.ok = false ∧
    (step C12WEx.w (.exec 2 [⟨2, 2000⟩] (.createBucket 8))).2.ok = false := by decide

/-- **`CreateListing` with coins attached**, from any reachable state. -/
theorem C12_create_listing_step_iff_reach (h0 : w0.mkt = instantiate t r) (ops : List Op) (x : Nat)
    (funds : List Coin) (id : Nat) (c : CreateMsg) :
    (step (run w0 ops) (.exec x funds (.createListing id c))).2.ok = true ↔
      id < MAX_SAFE_INT ∧ normalizedCheck (.native funds) = true ∧
      id ∉ (run w0 ops).mkt.listingUsed ∧
      (c.whitelist = none ∨ ∃ a, c.whitelist = some (.valid a) ∧ a ≠ x) ∧ AskOK c.ask ∧
      ∀ c ∈ funds, c.amount ≤ lget (run w0 ops).bank (x, c.key) :=
  C12_create_listing_step_iff (closed_ids h0 ops) x funds id c

example : (step C12WEx.w (.exec 2 [⟨2, 2000⟩] (.createListing 4 C12WEx.ask))).2.ok = true ∧
    (step C12WEx.w (.exec 2 [⟨2, 2001⟩] (.createListing 4 C12WEx.ask))).2.ok = false ∧
    (step C12WEx.w (.exec 2 [⟨2, 2000⟩] (.createListing 3 C12WEx.ask))).2.ok = false ∧
    (step C12WEx.w (.exec 2 [⟨2, 2000⟩] (.createListing 4 ⟨C12WEx.ask.ask, some (.valid 2)⟩))).2.ok =
      false := by decide

/-- **`AddToBucket` with coins attached**, from any reachable state, for the bucket stored under
    `(x, id)`: accepted exactly when the deposit passes `normalized_check`, `add_tokens` does not
    overflow a `Uint128` and leaves at most 25 assets, and `x` holds every attached coin.  (No
    arithmetic side condition: an overflow abort is a refusal.) -/
theorem C12_add_to_bucket_step_iff_reach (h0 : w0.mkt = instantiate t r) (ops : List Op)
    {x id : Nat} {b : Bucket} (funds : List Coin)
    (hb : alookup (x, id) (run w0 ops).mkt.buckets = some b) :
    (step (run w0 ops) (.exec x funds (.addToBucket id))).2.ok = true ↔
      normalizedCheck (.native funds) = true ∧
      (∃ nf, addTokens b.funds (.native funds) = some nf ∧ nf.count ≤ MAX_ASSETS) ∧
      ∀ c ∈ funds, c.amount ≤ lget (run w0 ops).bank (x, c.key) :=
  C12_add_to_bucket_step_iff (closed_ids h0 ops) (closed_wf h0 ops) funds hb

/-- The same with the count spelled out, when the amounts fit a `Uint128` (`Funds.fits`, kept —
    see the witness below): the bucket's assets plus the *new* denominations of the deposit are at
    most 25. -/
theorem C12_add_to_bucket_step_iff'_reach (h0 : w0.mkt = instantiate t r) (ops : List Op)
    {x id : Nat} {b : Bucket} {funds : List Coin}
    (hb : alookup (x, id) (run w0 ops).mkt.buckets = some b)
    (hfit : (Funds.native funds).fits b.funds) :
    (step (run w0 ops) (.exec x funds (.addToBucket id))).2.ok = true ↔
      normalizedCheck (.native funds) = true ∧
      b.funds.count + (Funds.native funds).newAssets b.funds ≤ MAX_ASSETS ∧
      ∀ c ∈ funds, c.amount ≤ lget (run w0 ops).bank (x, c.key) :=
  C12_add_to_bucket_step_iff' (closed_ids h0 ops) (closed_wf h0 ops) hb hfit

/-- non-vacuity of `C12_add_to_bucket_step_iff_reach` / `_iff'_reach`: bucket 8 of account 2; 500
    more of denom 2 fit and are accepted, 2001 are not (cannot pay) -/
example : (alookup (2, 8) C12WEx.w.mkt.buckets).map (·.funds) = some ⟨[⟨2, 1000⟩], [], []⟩ ∧
    (Funds.native [⟨2, 500⟩]).fits ⟨[⟨2, 1000⟩], [], []⟩ ∧
    (step C12WEx.w (.exec 2 [⟨2, 500⟩] (.addToBucket 8))).2.ok = true ∧
    (step C12WEx.w (.exec 2 [⟨2, 2001⟩] (.addToBucket 8))).2.ok = false := by
  refine ⟨by decide, C12WEx.fits_small ?_ ?_, by decide, by decide⟩
  · intro k
    by_cases hk : 2 = k <;> simp [coinAmt_cons, coinAmt_nil, hk]
  · intro k
    by_cases hk : 2 = k <;> simp [coinAmt_cons, coinAmt_nil, hk]

end

/-- **`Funds.fits` cannot be discharged from reachability** (nor from `BoundedInv` + `Op.fits128`):
    in the model, from an instantiated marketplace, by a history whose only operation carries a
    128-bit amount, a state is reached — it satisfies `BoundedInv` — in which bucket 8 of account
    2 holds 2^128 − 1 of denom 2.  The deposit of one more unit is a 128-bit amount, passes
    `normalized_check`, adds no new asset and is covered by the sender's balance, so the right-hand
    side of `C12_add_to_bucket_step_iff'_reach` holds; but stored + deposited = 2^128 does not fit,
    `add_tokens` aborts and the transaction is refused.  (The unprimed
    `C12_add_to_bucket_step_iff_reach` accounts for this: its condition contains "`add_tokens`
    succeeds".) -/
example :
    C12REx.w0Big.mkt = instantiate 0 (some 102) ∧ (∀ op ∈ C12REx.opsBig, op.fits128) ∧
    BoundedInv C12REx.wBig.mkt ∧
    (alookup (2, 8) C12REx.wBig.mkt.buckets).map (·.funds) = some ⟨[⟨2, U128MAX⟩], [], []⟩ ∧
    (Op.exec 2 [⟨2, 1⟩] (.addToBucket 8)).fits128 ∧
    ¬ (Funds.native [⟨2, 1⟩]).fits ⟨[⟨2, U128MAX⟩], [], []⟩ ∧
    -- the right-hand side of the primed equivalence holds …
    normalizedCheck (.native [⟨2, 1⟩]) = true ∧
    (⟨[⟨2, U128MAX⟩], [], []⟩ : GBal).count +
      (Funds.native [⟨2, 1⟩]).newAssets ⟨[⟨2, U128MAX⟩], [], []⟩ ≤ MAX_ASSETS ∧
    (∀ c ∈ [(⟨2, 1⟩ : Coin)], c.amount ≤ lget C12REx.wBig.bank (2, c.key)) ∧
    -- … but the transaction is refused: `add_tokens` aborts
    addTokens ⟨[⟨2, U128MAX⟩], [], []⟩ (.native [⟨2, 1⟩]) = none ∧
    (step C12REx.wBig (.exec 2 [⟨2, 1⟩] (.addToBucket 8))).2.ok = false := by
  refine ⟨rfl, by decide, closed_bounded (w0 := C12REx.w0Big) rfl C12REx.opsBig (by decide),
    by decide, by decide, fun h => absurd (h 2) (by decide), by decide, by decide, by decide,
    by decide, by decide⟩

section
variable {w0 : World} {t : Nat} {r : Option Nat}

/-- **`AddToListing` with coins attached**, from any reachable state, for the listing stored under
    `(x, id)`, if it is still in preparation: accepted exactly when the deposit passes
    `normalized_check`, `add_tokens` does not overflow and leaves at most 25 assets, and `x` holds
    every attached coin. -/
theorem C12_add_to_listing_step_iff_reach (h0 : w0.mkt = instantiate t r) (ops : List Op)
    {x id : Nat} {l : Listing} (funds : List Coin)
    (hl : alookup (x, id) (run w0 ops).mkt.listings = some l) (hs : l.status = .preparing) :
    (step (run w0 ops) (.exec x funds (.addToListing id))).2.ok = true ↔
      normalizedCheck (.native funds) = true ∧
      (∃ nf, addTokens l.forSale (.native funds) = some nf ∧ nf.count ≤ MAX_ASSETS) ∧
      ∀ c ∈ funds, c.amount ≤ lget (run w0 ops).bank (x, c.key) :=
  C12_add_to_listing_step_iff (closed_ids h0 ops) (closed_wf h0 ops) funds hl hs

/-- The same with the count spelled out, when the amounts fit a `Uint128` (`Funds.fits`, kept). -/
theorem C12_add_to_listing_step_iff'_reach (h0 : w0.mkt = instantiate t r) (ops : List Op)
    {x id : Nat} {l : Listing} {funds : List Coin}
    (hl : alookup (x, id) (run w0 ops).mkt.listings = some l) (hs : l.status = .preparing)
    (hfit : (Funds.native funds).fits l.forSale) :
    (step (run w0 ops) (.exec x funds (.addToListing id))).2.ok = true ↔
      normalizedCheck (.native funds) = true ∧
      l.forSale.count + (Funds.native funds).newAssets l.forSale ≤ MAX_ASSETS ∧
      ∀ c ∈ funds, c.amount ≤ lget (run w0 ops).bank (x, c.key) :=
  C12_add_to_listing_step_iff' (closed_ids h0 ops) (closed_wf h0 ops) hl hs hfit

/-- non-vacuity of `C12_add_to_listing_step_iff_reach` / `_iff'_reach`: listing 3 of account 2 is
    in preparation -/
example : (alookup (2, 3) C12WEx.w.mkt.listings).map (fun l => (l.status, l.forSale)) =
      some (.preparing, ⟨[⟨2, 2000⟩], [], []⟩) ∧
    (Funds.native [⟨2, 500⟩]).fits ⟨[⟨2, 2000⟩], [], []⟩ ∧
    (step C12WEx.w (.exec 2 [⟨2, 500⟩] (.addToListing 3))).2.ok = true ∧
    (step C12WEx.w (.exec 2 [⟨2, 2001⟩] (.addToListing 3))).2.ok = false := by
  refine ⟨by decide, C12WEx.fits_small ?_ ?_, by decide, by decide⟩
  · intro k
    by_cases hk : 2 = k <;> simp [coinAmt_cons, coinAmt_nil, hk]
  · intro k
    by_cases hk : 2 = k <;> simp [coinAmt_cons, coinAmt_nil, hk]

/-- **CW20 `Send` creating a bucket**, from any reachable state: accepted exactly when the token is
    an honest CW20 contract that answers `TokenInfo`, the amount is non-zero and held by the
    sender, and the id is legal and was never used. -/
theorem C12_send20_create_bucket_step_iff_reach (h0 : w0.mkt = instantiate t r) (ops : List Op)
    (tk x amount id : Nat) :
    (step (run w0 ops) (.send20 tk x amount (some (.createBucket id)))).2.ok = true ↔
      (run w0 ops).isHonest20 tk = true ∧ (run w0 ops).env.isToken20 tk = true ∧ amount ≠ 0 ∧
      amount ≤ lget (run w0 ops).cw20 (tk, x) ∧ id < MAX_SAFE_INT ∧
      id ∉ (run w0 ops).mkt.bucketUsed :=
  C12_send20_create_bucket_step_iff (closed_ids h0 ops) tk x amount id

example : (step C12WEx.w (.send20 50 5 77 (some (.createBucket 9)))).2.ok = true ∧
    (step C12WEx.w (.send20 50 5 78 (some (.createBucket 9)))).2.ok = false ∧
    (step C12WEx.w (.send20 50 5 0 (some (.createBucket 9)))).2.ok = false ∧
    (step C12WEx.w (.send20 50 5 77 (some (.createBucket 8)))).2.ok = false ∧
    (step C12WEx.w (.send20 70 5 77 (some (.createBucket 9)))).2.ok = false := by decide

/-- **CW20 `Send` creating a listing**, from any reachable state. -/
theorem C12_send20_create_listing_step_iff_reach (h0 : w0.mkt = instantiate t r) (ops : List Op)
    (tk x amount id : Nat) (c : CreateMsg) :
    (step (run w0 ops) (.send20 tk x amount (some (.createListing id c)))).2.ok = true ↔
      (run w0 ops).isHonest20 tk = true ∧ (run w0 ops).env.isToken20 tk = true ∧ amount ≠ 0 ∧
      amount ≤ lget (run w0 ops).cw20 (tk, x) ∧ id < MAX_SAFE_INT ∧
      id ∉ (run w0 ops).mkt.listingUsed ∧
      (c.whitelist = none ∨ ∃ a, c.whitelist = some (.valid a) ∧ a ≠ x) ∧ AskOK c.ask :=
  C12_send20_create_listing_step_iff (closed_ids h0 ops) tk x amount id c

example : (step C12WEx.w (.send20 50 5 77 (some (.createListing 4 C12WEx.ask)))).2.ok = true ∧
    (step C12WEx.w (.send20 50 5 78 (some (.createListing 4 C12WEx.ask)))).2.ok = false ∧
    (step C12WEx.w (.send20 50 5 77 (some (.createListing 4 ⟨⟨[], [], []⟩, none⟩)))).2.ok = false := by
  decide

/-- **CW20 `Send` topping up the bucket stored under `(x, id)`**, from any reachable state:
    accepted exactly when the token is an honest CW20 contract that answers `TokenInfo`, the
    amount is non-zero and held by the sender, and `add_tokens` does not overflow and leaves at
    most 25 assets. -/
theorem C12_send20_add_to_bucket_step_iff_reach (h0 : w0.mkt = instantiate t r) (ops : List Op)
    {x id : Nat} {b : Bucket} (tk amount : Nat)
    (hb : alookup (x, id) (run w0 ops).mkt.buckets = some b) :
    (step (run w0 ops) (.send20 tk x amount (some (.addToBucket id)))).2.ok = true ↔
      (run w0 ops).isHonest20 tk = true ∧ (run w0 ops).env.isToken20 tk = true ∧ amount ≠ 0 ∧
      amount ≤ lget (run w0 ops).cw20 (tk, x) ∧
      ∃ nf, addTokens b.funds (.cw20 ⟨tk, amount⟩) = some nf ∧ nf.count ≤ MAX_ASSETS :=
  C12_send20_add_to_bucket_step_iff (closed_ids h0 ops) (closed_wf h0 ops) tk amount hb

/-- The same with the count spelled out, when stored + sent amount of the token fits a `Uint128`
    (`Funds.fits`, kept). -/
theorem C12_send20_add_to_bucket_step_iff'_reach (h0 : w0.mkt = instantiate t r) (ops : List Op)
    {tk x amount id : Nat} {b : Bucket} (hb : alookup (x, id) (run w0 ops).mkt.buckets = some b)
    (hfit : (Funds.cw20 ⟨tk, amount⟩).fits b.funds) :
    (step (run w0 ops) (.send20 tk x amount (some (.addToBucket id)))).2.ok = true ↔
      (run w0 ops).isHonest20 tk = true ∧ (run w0 ops).env.isToken20 tk = true ∧ amount ≠ 0 ∧
      amount ≤ lget (run w0 ops).cw20 (tk, x) ∧
      b.funds.count + (Funds.cw20 ⟨tk, amount⟩).newAssets b.funds ≤ MAX_ASSETS :=
  C12_send20_add_to_bucket_step_iff' (closed_ids h0 ops) (closed_wf h0 ops) hb hfit

/-- **CW20 `Send` topping up the preparing listing stored under `(x, id)`**, from any reachable
    state. -/
theorem C12_send20_add_to_listing_step_iff_reach (h0 : w0.mkt = instantiate t r) (ops : List Op)
    {x id : Nat} {l : Listing} (tk amount : Nat)
    (hl : alookup (x, id) (run w0 ops).mkt.listings = some l) (hs : l.status = .preparing) :
    (step (run w0 ops) (.send20 tk x amount (some (.addToListing id)))).2.ok = true ↔
      (run w0 ops).isHonest20 tk = true ∧ (run w0 ops).env.isToken20 tk = true ∧ amount ≠ 0 ∧
      amount ≤ lget (run w0 ops).cw20 (tk, x) ∧
      ∃ nf, addTokens l.forSale (.cw20 ⟨tk, amount⟩) = some nf ∧ nf.count ≤ MAX_ASSETS :=
  C12_send20_add_to_listing_step_iff (closed_ids h0 ops) (closed_wf h0 ops) tk amount hl hs

/-- The same with the count spelled out, when stored + sent amount fits a `Uint128` (`Funds.fits`,
    kept). -/
theorem C12_send20_add_to_listing_step_iff'_reach (h0 : w0.mkt = instantiate t r) (ops : List Op)
    {tk x amount id : Nat} {l : Listing}
    (hl : alookup (x, id) (run w0 ops).mkt.listings = some l) (hs : l.status = .preparing)
    (hfit : (Funds.cw20 ⟨tk, amount⟩).fits l.forSale) :
    (step (run w0 ops) (.send20 tk x amount (some (.addToListing id)))).2.ok = true ↔
      (run w0 ops).isHonest20 tk = true ∧ (run w0 ops).env.isToken20 tk = true ∧ amount ≠ 0 ∧
      amount ≤ lget (run w0 ops).cw20 (tk, x) ∧
      l.forSale.count + (Funds.cw20 ⟨tk, amount⟩).newAssets l.forSale ≤ MAX_ASSETS :=
  C12_send20_add_to_listing_step_iff' (closed_ids h0 ops) (closed_wf h0 ops) hl hs hfit

/-- non-vacuity of the four CW20 top-up theorems.  In `C12WEx.w` the owner 2 of bucket 8 / listing
    3 holds no token 50, so its `Send` is refused; `C12REx.wTok` is reached by the same two
    operations from the sample deployment with 10 tokens credited to account 2, and there the
    `Send` of 10 is accepted, the `Send` of 11 is not -/
example :
    C12REx.w0Tok.mkt = instantiate 0 (some 102) ∧
    (alookup (2, 8) C12REx.wTok.mkt.buckets).map (·.funds) = some ⟨[⟨2, 1000⟩], [], []⟩ ∧
    (alookup (2, 3) C12REx.wTok.mkt.listings).map (fun l => (l.status, l.forSale)) =
      some (.preparing, ⟨[⟨2, 2000⟩], [], []⟩) ∧
    (Funds.cw20 ⟨50, 10⟩).fits ⟨[⟨2, 1000⟩], [], []⟩ ∧ (Funds.cw20 ⟨50, 10⟩).fits ⟨[⟨2, 2000⟩], [], []⟩ ∧
    (step C12WEx.w (.send20 50 2 10 (some (.addToBucket 8)))).2.ok = false ∧
    (step C12REx.wTok (.send20 50 2 10 (some (.addToBucket 8)))).2.ok = true ∧
    (step C12REx.wTok (.send20 50 2 11 (some (.addToBucket 8)))).2.ok = false ∧
    (step C12REx.wTok (.send20 50 2 10 (some (.addToListing 3)))).2.ok = true ∧
    (step C12REx.wTok (.send20 50 2 11 (some (.addToListing 3)))).2.ok = false :=
  ⟨rfl, by decide, by decide, (by show coinAmt ([] : List Coin) 50 + 10 ≤ U128MAX; decide),
   (by show coinAmt ([] : List Coin) 50 + 10 ≤ U128MAX; decide), by decide, by decide, by decide,
   by decide, by decide⟩

/-- **`SendNft` creating a bucket**, from any reachable state: accepted exactly when the
    collection is an honest CW721 contract, the sender owns the NFT, and the id is legal and was
    never used. -/
theorem C12_send721_create_bucket_step_iff_reach (h0 : w0.mkt = instantiate t r) (ops : List Op)
    (c x tid id : Nat) :
    (step (run w0 ops) (.send721 c x tid (some (.createBucket id)))).2.ok = true ↔
      (run w0 ops).isHonest721 c = true ∧ alookup (c, tid) (run w0 ops).nft = some x ∧
      id < MAX_SAFE_INT ∧ id ∉ (run w0 ops).mkt.bucketUsed :=
  C12_send721_create_bucket_step_iff (closed_ids h0 ops) c x tid id

example : (step C12WEx.w (.send721 60 2 11 (some (.createBucket 9)))).2.ok = true ∧
    (step C12WEx.w (.send721 60 2 7 (some (.createBucket 9)))).2.ok = false ∧
    (step C12WEx.w (.send721 60 2 11 (some (.createBucket 8)))).2.ok = false := by decide

/-- **`SendNft` creating a listing**, from any reachable state. -/
theorem C12_send721_create_listing_step_iff_reach (h0 : w0.mkt = instantiate t r) (ops : List Op)
    (c x tid id : Nat) (cm : CreateMsg) :
    (step (run w0 ops) (.send721 c x tid (some (.createListing id cm)))).2.ok = true ↔
      (run w0 ops).isHonest721 c = true ∧ alookup (c, tid) (run w0 ops).nft = some x ∧
      id < MAX_SAFE_INT ∧ id ∉ (run w0 ops).mkt.listingUsed ∧
      (cm.whitelist = none ∨ ∃ a, cm.whitelist = some (.valid a) ∧ a ≠ x) ∧ AskOK cm.ask :=
  C12_send721_create_listing_step_iff (closed_ids h0 ops) c x tid id cm

example : (step C12WEx.w (.send721 60 2 11 (some (.createListing 4 C12WEx.ask)))).2.ok = true ∧
    (step C12WEx.w (.send721 60 1 11 (some (.createListing 4 C12WEx.ask)))).2.ok = false := by decide

/-- **`SendNft` topping up the bucket stored under `(x, id)`**, from any reachable state: accepted
    exactly when the collection is honest, the sender owns the NFT, there is room for one more
    asset and the NFT is not already recorded in the bucket. -/
theorem C12_send721_add_to_bucket_step_iff_reach (h0 : w0.mkt = instantiate t r) (ops : List Op)
    {c x tid id : Nat} {b : Bucket} (hb : alookup (x, id) (run w0 ops).mkt.buckets = some b) :
    (step (run w0 ops) (.send721 c x tid (some (.addToBucket id)))).2.ok = true ↔
      (run w0 ops).isHonest721 c = true ∧ alookup (c, tid) (run w0 ops).nft = some x ∧
      b.funds.count + 1 ≤ MAX_ASSETS ∧ (⟨c, tid⟩ : Nft) ∉ b.funds.nfts :=
  C12_send721_add_to_bucket_step_iff (closed_ids h0 ops) (closed_wf h0 ops) hb

example : (alookup (2, 8) C12WEx.w.mkt.buckets).isSome = true ∧
    (step C12WEx.w (.send721 60 2 11 (some (.addToBucket 8)))).2.ok = true ∧
    (step C12WEx.w (.send721 60 2 7 (some (.addToBucket 8)))).2.ok = false := by decide

/-- **`SendNft` topping up the preparing listing stored under `(x, id)`**, from any reachable
    state. -/
theorem C12_send721_add_to_listing_step_iff_reach (h0 : w0.mkt = instantiate t r) (ops : List Op)
    {c x tid id : Nat} {l : Listing} (hl : alookup (x, id) (run w0 ops).mkt.listings = some l)
    (hs : l.status = .preparing) :
    (step (run w0 ops) (.send721 c x tid (some (.addToListing id)))).2.ok = true ↔
      (run w0 ops).isHonest721 c = true ∧ alookup (c, tid) (run w0 ops).nft = some x ∧
      l.forSale.count + 1 ≤ MAX_ASSETS ∧ (⟨c, tid⟩ : Nft) ∉ l.forSale.nfts :=
  C12_send721_add_to_listing_step_iff (closed_ids h0 ops) (closed_wf h0 ops) hl hs

example : (alookup (2, 3) C12WEx.w.mkt.listings).map (·.status) = some .preparing ∧
    (step C12WEx.w (.send721 60 2 11 (some (.addToListing 3)))).2.ok = true ∧
    (step C12WEx.w (.send721 60 2 7 (some (.addToListing 3)))).2.ok = false := by decide

/-- "those that keep it are accepted" — and they do keep it: whatever transaction is run from a
    reachable state (deposits included), the records are well-formed afterwards.  No hypothesis
    other than reachability. -/
theorem C12_deposit_keeps_wf_reach (h0 : w0.mkt = instantiate t r) (ops : List Op) (op : Op) :
    WFInv (step (run w0 ops) op).1.junoD (step (run w0 ops) op).1.usdcD
      (step (run w0 ops) op).1.mkt :=
  C12_deposit_keeps_wf op (closed_wf h0 ops)

example : (step C12WEx.w (.exec 2 [⟨2, 500⟩] (.addToBucket 8))).2.ok = true := by decide

end

/-! ## axioms -/

#print axioms C12_inv_execute_reach
#print axioms C12_listing_consistent_reach
#print axioms C12_changeAsk_iff_reach
#print axioms C12_create_bucket_iff_reach
#print axioms C12_create_bucket_nft_iff_reach
#print axioms C12_create_listing_iff_reach
#print axioms C12_create_listing_nft_iff_reach
#print axioms C12_topup_bucket_exact_reach
#print axioms C12_topup_bucket_iff_reach
#print axioms C12_topup_bucket_iff'_reach
#print axioms C12_topup_listing_exact_reach
#print axioms C12_topup_listing_iff_reach
#print axioms C12_topup_listing_iff'_reach
#print axioms C12_topup_bucket_nft_iff_reach
#print axioms C12_topup_listing_nft_iff_reach
#print axioms C12_payable_reach
#print axioms C12_payouts_wellFormed_reach
#print axioms C12_msgs_wellFormed_reach
#print axioms C12_msgs_wellFormed_step_reach
#print axioms C12_create_bucket_step_iff_reach
#print axioms C12_create_listing_step_iff_reach
#print axioms C12_add_to_bucket_step_iff_reach
#print axioms C12_add_to_bucket_step_iff'_reach
#print axioms C12_add_to_listing_step_iff_reach
#print axioms C12_add_to_listing_step_iff'_reach
#print axioms C12_send20_create_bucket_step_iff_reach
#print axioms C12_send20_create_listing_step_iff_reach
#print axioms C12_send20_add_to_bucket_step_iff_reach
#print axioms C12_send20_add_to_bucket_step_iff'_reach
#print axioms C12_send20_add_to_listing_step_iff_reach
#print axioms C12_send20_add_to_listing_step_iff'_reach
#print axioms C12_send721_create_bucket_step_iff_reach
#print axioms C12_send721_create_listing_step_iff_reach
#print axioms C12_send721_add_to_bucket_step_iff_reach
#print axioms C12_send721_add_to_listing_step_iff_reach
#print axioms C12_deposit_keeps_wf_reach

end Fuzion
