/-
  Fuzion.Props.C05 — "Deposits and payouts move exactly the stated assets to the right party".

  Property text:  Every successful creation or top-up moves exactly the attached coins, tokens or
  NFT from the depositor into the named record of that depositor and nothing else.  Every
  successful bucket removal, listing deletion or purchased-listing withdrawal removes the record
  and delivers exactly its recorded assets to its owner plus exactly its recorded fee to the
  community pool.  Refunds of records that never traded carry no fee, and no other account's
  balance or NFT changes.

  Everything is stated at the level of one transaction `step w op = (w', o)` with `o.ok = true`,
  as explicit deltas on the three ledgers (`lget w.bank (account, denom)`,
  `lget w.cw20 (token, holder)`, `alookup (collection, token id) w.nft`) and on the two record
  tables.

  Vocabulary (defined in Fuzion/Lemmas/ExitLemmas.lean, quoted here):
  * `Inner` — the four deposit messages `createListing id c | addToListing id | createBucket id |
    addToBucket id`; `i.toExec` is the same message sent directly with native coins attached, and
    `.send20 token x amount (some i)` / `.send721 coll x tid (some i)` are the same deposit through
    a CW20 `Send` / CW721 `SendNft`.
  * `DepositRecords m m' x g0 P i` — what deposit `i` of `x` does to the record tables:
      create bucket:  `alookup (x,id) m.buckets = none ∧ id ∉ m.bucketUsed ∧
                       m' = { m with buckets := ainsert (x,id) ⟨x, g0, none⟩ m.buckets,
                                     bucketUsed := id :: m.bucketUsed }`
      top up bucket:  `∃ r nf, alookup (x,id) m.buckets = some r ∧ r.owner = x ∧ P r.funds nf ∧
                       m' = { m with buckets := ainsert (x,id) { r with funds := nf } m.buckets }`
      create listing: `∃ wl ask, findById id m.listings = none ∧ id ∉ m.listingUsed ∧
                       checkWhitelist x c.whitelist = some wl ∧ validateAsk c.ask = some ask ∧
                       m' = { m with listings := ainsert (x,id) (newListing x id wl g0 ask) m.listings,
                                     listingUsed := id :: m.listingUsed }`
      top up listing: `∃ l nf, alookup (x,id) m.listings = some l ∧ l.creator = x ∧
                       l.status = .preparing ∧ l.claimant = none ∧ P l.forSale nf ∧
                       m' = { m with listings := ainsert (x,id) { l with forSale := nf } m.listings }`
    (`g0` = the deposit as a balance of its own, `P old new` = how a topped-up balance grows;
    `newListing` = preparing, no times, no claimant, no fee.)  The equations for `m'` are exact:
    the other table, the other id log, the fee configuration and every other key are unchanged
    (`C05_deposit_other_keys`).
  * `PaidOut w w' x g fee` — the exact effect of paying balance `g` to `x` and `fee` to the pool
    (ten clauses, see the structure; restated in `C05_payout_*`).

  Side condition on foreign assets (finding C18, known): a record may hold an entry of a contract
  that is not an honest token / collection (recorded through a forged hook call).  The model's
  hostile contract either rejects the transfer (then the payout fails and nothing moves) or
  accepts it as a no-op.  The CW20 / NFT delivery clauses are therefore stated for honest tokens
  and collections; for all other contracts the ledgers are shown to be *unchanged*.
-/
import Fuzion.Lemmas.ExitLemmas
import Fuzion.Props.C01Closed
import Fuzion.Props.C10
namespace Fuzion

/-! ## sample worlds for the non-vacuity examples: reached states of the sample history of C01 -/

namespace C05Ex

theorem w0_inv : C01Inv AcctEx.w0 :=
  ⟨IdsInv.init _ _, WFInv.init _ _ _ _, C01Ex.w0_backed, by decide, AcctEx.w0_payouts 100 (by decide)⟩

/-- the state after the first `k` operations of `AcctEx.ops` -/
def at_ (k : Nat) : World := run AcctEx.w0 (AcctEx.ops.take k)

theorem at_inv (k : Nat) : C01Inv (at_ k) :=
  C01_backed_closed _ w0_inv (fun op hop => by
    have : ∀ op ∈ AcctEx.ops, op.avoids AcctEx.w0.self ∧ op.honest AcctEx.w0 := by decide
    exact this op (List.mem_of_mem_take hop))

end C05Ex

/-! ## 1. deposits -/

/-- the bank side of an accepted native deposit of `funds` by `x`: `funds` is a non-empty list
    without zero amount or repeated denomination; per denomination `x` loses and the marketplace
    gains exactly the attached amount; no other bank balance changes; the CW20 and NFT ledgers,
    registry, contract table, clock and configuration (`CoreEq`) are unchanged -/
structure NativeMoved (w w' : World) (x : Nat) (funds : List Coin) : Prop where
  normalized : funds ≠ [] ∧ (∀ c ∈ funds, c.amount ≠ 0) ∧ (keys funds).Nodup
  sender : ∀ d, lget w'.bank (x, d) + coinAmt funds d = lget w.bank (x, d)
  self : ∀ d, lget w'.bank (w.self, d) = lget w.bank (w.self, d) + coinAmt funds d
  others : ∀ a d, a ≠ x → a ≠ w.self → lget w'.bank (a, d) = lget w.bank (a, d)
  cw20 : w'.cw20 = w.cw20
  nft : w'.nft = w.nft
  core : CoreEq w w'

/-- a native top-up: per denomination the balance grows by exactly the attached amount; CW20
    entries and NFTs are untouched -/
def AddedNative (funds : List Coin) (g nf : GBal) : Prop :=
  (∀ d, coinAmt nf.native d = coinAmt g.native d + coinAmt funds d) ∧ nf.cw20 = g.cw20 ∧
  nf.nfts = g.nfts

/-- a CW20 top-up: token `t` grows by exactly `amount`, every other token, the native coins and
    the NFTs are untouched -/
def AddedCw20 (t amount : Nat) (g nf : GBal) : Prop :=
  nf.native = g.native ∧
  (∀ t', coinAmt nf.cw20 t' = coinAmt g.cw20 t' + (if t = t' then amount else 0)) ∧
  nf.nfts = g.nfts

/-- an NFT top-up: exactly this NFT is appended -/
def AddedNft (n : Nft) (g nf : GBal) : Prop := nf = { g with nfts := g.nfts ++ [n] }

/-- "Every successful creation or top-up moves exactly the attached coins … from the depositor into
    the named record of that depositor and nothing else" — native coins attached to a direct
    message.  (a) no message is emitted; (b) `NativeMoved`; (c) `DepositRecords` with the attached
    coins as the new record's whole balance `⟨funds, [], []⟩`, resp. `AddedNative` for a top-up. -/
theorem C05_deposit_native {w w' : World} {o : Outcome} {x : Nat} {funds : List Coin} (i : Inner)
    (hs : step w (.exec x funds i.toExec) = (w', o)) (hok : o.ok = true) (hx : x ≠ w.self) :
    o.msgs = [] ∧ NativeMoved w w' x funds ∧
    DepositRecords w.mkt w'.mkt x ⟨funds, [], []⟩ (AddedNative funds) i := by
  have h : (step w (.exec x funds i.toExec)).2.ok = true := by rw [hs]; exact hok
  obtain ⟨b, m', hb, hn, hrec, hstep⟩ := step_deposit_native h
  rw [hstep] at hs
  cases hs
  refine ⟨rfl, ⟨normalizedCheck_native hn, fun d => ?_, fun d => ?_, fun a d h1 h2 => ?_, rfl, rfl,
    ⟨rfl, rfl, rfl, rfl, rfl, rfl, rfl, rfl, rfl⟩⟩, hrec.mono (fun g nf h => addTokens_native h)⟩
  · have := bankSend_lget hb x d
    rw [if_pos rfl, if_neg hx] at this
    exact this
  · have := bankSend_lget hb w.self d
    rw [if_neg (Ne.symm hx), if_pos rfl] at this
    exact this
  · have := bankSend_lget hb a d
    rw [if_neg h1, if_neg h2] at this
    exact this

/-- create listing 3 with 1000 of denom 1 attached (first operation of the sample history) -/
example : (step AcctEx.w0 (.exec 1 [⟨1, 1000⟩]
      (Inner.createListing 3 ⟨⟨[⟨2, 2000⟩], [], []⟩, none⟩).toExec)).2.ok = true ∧
    (1 : Nat) ≠ AcctEx.w0.self := by decide
/-- … and the theorem applied to it: 1000 of denom 1 moved from account 1 to the marketplace -/
example : NativeMoved AcctEx.w0 (step AcctEx.w0 (.exec 1 [⟨1, 1000⟩]
      (Inner.createListing 3 ⟨⟨[⟨2, 2000⟩], [], []⟩, none⟩).toExec)).1 1 [⟨1, 1000⟩] :=
  (C05_deposit_native (w := AcctEx.w0) (x := 1) (funds := [⟨1, 1000⟩])
    (.createListing 3 ⟨⟨[⟨2, 2000⟩], [], []⟩, none⟩) rfl (by decide) (by decide)).2.1
/-- top up bucket 8 of account 2 with 7 of denom 2 (state after five operations) -/
example : (step (C05Ex.at_ 5) (.exec 2 [⟨2, 7⟩] (Inner.addToBucket 8).toExec)).2.ok = true ∧
    (2 : Nat) ≠ (C05Ex.at_ 5).self := by decide

/-- the token side of an accepted CW20 deposit: `t` is an honest token, `amount ≠ 0`; `x` loses and
    the marketplace gains exactly `amount` of `t`; no other entry of the token ledger changes; bank
    and NFT ledgers and the rest of the world are unchanged -/
structure Cw20Moved (w w' : World) (t x amount : Nat) : Prop where
  honest : w.isHonest20 t = true
  nonzero : amount ≠ 0
  sender : lget w'.cw20 (t, x) + amount = lget w.cw20 (t, x)
  self : lget w'.cw20 (t, w.self) = lget w.cw20 (t, w.self) + amount
  others : ∀ k, k ≠ (t, x) → k ≠ (t, w.self) → lget w'.cw20 k = lget w.cw20 k
  bank : w'.bank = w.bank
  nft : w'.nft = w.nft
  core : CoreEq w w'

/-- "… tokens …": a deposit through a CW20 `Send`.  The new record's whole balance is the single
    token amount `⟨[], [⟨t, amount⟩], []⟩`; a top-up grows exactly that token (`AddedCw20`). -/
theorem C05_deposit_cw20 {w w' : World} {o : Outcome} {t x amount : Nat} {inner : Option Inner}
    (hs : step w (.send20 t x amount inner) = (w', o)) (hok : o.ok = true) (hx : x ≠ w.self) :
    o.msgs = [] ∧ Cw20Moved w w' t x amount ∧
    ∃ i, inner = some i ∧
      DepositRecords w.mkt w'.mkt x ⟨[], [⟨t, amount⟩], []⟩ (AddedCw20 t amount) i := by
  have h : (step w (.send20 t x amount inner)).2.ok = true := by rw [hs]; exact hok
  obtain ⟨i, l, m', hi, hh, hz, hl, hrec, hstep⟩ := step_deposit_cw20 h
  rw [hstep] at hs
  cases hs
  have hne : (t, x) ≠ (t, w.self) := fun e => hx (by injection e)
  refine ⟨rfl, ⟨hh, hz, ?_, ?_, fun k h1 h2 => ?_, rfl, rfl,
    ⟨rfl, rfl, rfl, rfl, rfl, rfl, rfl, rfl, rfl⟩⟩, i, hi, hrec.mono (fun g nf h => addTokens_cw20 h)⟩
  · have := ledgerMove_lget hl (t, x)
    rw [if_pos rfl, if_neg hne] at this
    exact this
  · have := ledgerMove_lget hl (t, w.self)
    rw [if_neg (Ne.symm hne), if_pos rfl] at this
    exact this
  · have := ledgerMove_lget hl k
    rw [if_neg h1, if_neg h2] at this
    exact this

/-- second operation of the sample history: 400 of token 50 added to listing 3 -/
example : (step (C05Ex.at_ 1) (.send20 50 1 400 (some (.addToListing 3)))).2.ok = true ∧
    (1 : Nat) ≠ (C05Ex.at_ 1).self := by decide

/-- the NFT side of an accepted CW721 deposit: `c` is an honest collection; the NFT was owned by
    `x` and is owned by the marketplace; no other NFT changes owner; bank and token ledgers and the
    rest of the world are unchanged -/
structure NftMoved (w w' : World) (c x tid : Nat) : Prop where
  honest : w.isHonest721 c = true
  before : alookup (c, tid) w.nft = some x
  after : alookup (c, tid) w'.nft = some w.self
  others : ∀ k, k ≠ (c, tid) → alookup k w'.nft = alookup k w.nft
  bank : w'.bank = w.bank
  cw20 : w'.cw20 = w.cw20
  core : CoreEq w w'

/-- "… or NFT": a deposit through a CW721 `SendNft`.  The new record's whole balance is the NFT
    `⟨[], [], [⟨c, tid⟩]⟩`; a top-up appends exactly that NFT (`AddedNft`). -/
theorem C05_deposit_nft {w w' : World} {o : Outcome} {c x tid : Nat} {inner : Option Inner}
    (hs : step w (.send721 c x tid inner) = (w', o)) (hok : o.ok = true) :
    o.msgs = [] ∧ NftMoved w w' c x tid ∧
    ∃ i, inner = some i ∧ DepositRecords w.mkt w'.mkt x ⟨[], [], [⟨c, tid⟩]⟩ (AddedNft ⟨c, tid⟩) i := by
  have h : (step w (.send721 c x tid inner)).2.ok = true := by rw [hs]; exact hok
  obtain ⟨i, m', hi, hh, hown, hrec, hstep⟩ := step_deposit_nft h
  rw [hstep] at hs
  cases hs
  refine ⟨rfl, ⟨hh, hown, ?_, fun k hk => ?_, rfl, rfl,
    ⟨rfl, rfl, rfl, rfl, rfl, rfl, rfl, rfl, rfl⟩⟩, i, hi, hrec.mono (fun g nf h => h)⟩
  · show alookup (c, tid) (lset w.nft (c, tid) w.self) = some w.self
    rw [lset, alookup_ainsert_self]
  · show alookup k (lset w.nft (c, tid) w.self) = alookup k w.nft
    rw [lset, alookup_ainsert_ne hk]

/-- third operation of the sample history: NFT (60, 7) added to listing 3 -/
example : (step (C05Ex.at_ 2) (.send721 60 1 7 (some (.addToListing 3)))).2.ok = true := by decide

/-- "into the named record of that depositor and nothing else", read off `DepositRecords`: every
    key other than `(x, id)` keeps its record in both tables, and the fee configuration is
    unchanged -/
theorem C05_deposit_other_keys {m m' : Market} {x : Nat} {g0 : GBal} {P : GBal → GBal → Prop}
    {i : Inner} (h : DepositRecords m m' x g0 P i) :
    (∀ k, k ≠ (x, i.id) → alookup k m'.listings = alookup k m.listings ∧
      alookup k m'.buckets = alookup k m.buckets) ∧ FeeCfgEq m m' := by
  cases i with
  | createBucket id =>
    obtain ⟨_, _, rfl⟩ := h
    exact ⟨fun k hk => ⟨rfl, alookup_ainsert_ne hk _ _⟩, rfl, rfl, rfl⟩
  | addToBucket id =>
    obtain ⟨r, nf, _, _, _, rfl⟩ := h
    exact ⟨fun k hk => ⟨rfl, alookup_ainsert_ne hk _ _⟩, rfl, rfl, rfl⟩
  | createListing id c =>
    obtain ⟨wl, ask, _, _, _, _, rfl⟩ := h
    exact ⟨fun k hk => ⟨alookup_ainsert_ne hk _ _, rfl⟩, rfl, rfl, rfl⟩
  | addToListing id =>
    obtain ⟨l, nf, _, _, _, _, _, rfl⟩ := h
    exact ⟨fun k hk => ⟨alookup_ainsert_ne hk _ _, rfl⟩, rfl, rfl, rfl⟩

/-- … and what is filed under `(x, id)` afterwards -/
theorem C05_deposit_own_key {m m' : Market} {x : Nat} {g0 : GBal} {P : GBal → GBal → Prop}
    {i : Inner} (h : DepositRecords m m' x g0 P i) :
    match i with
    | .createBucket id => alookup (x, id) m'.buckets = some ⟨x, g0, none⟩
    | .addToBucket id => ∃ r nf, alookup (x, id) m.buckets = some r ∧ P r.funds nf ∧
        alookup (x, id) m'.buckets = some { r with funds := nf }
    | .createListing id c => ∃ wl ask, checkWhitelist x c.whitelist = some wl ∧
        validateAsk c.ask = some ask ∧
        alookup (x, id) m'.listings = some (newListing x id wl g0 ask)
    | .addToListing id => ∃ l nf, alookup (x, id) m.listings = some l ∧ P l.forSale nf ∧
        alookup (x, id) m'.listings = some { l with forSale := nf } := by
  cases i with
  | createBucket id =>
    obtain ⟨_, _, rfl⟩ := h
    exact alookup_ainsert_self _ _ _
  | addToBucket id =>
    obtain ⟨r, nf, h1, _, h3, rfl⟩ := h
    exact ⟨r, nf, h1, h3, alookup_ainsert_self _ _ _⟩
  | createListing id c =>
    obtain ⟨wl, ask, _, _, h3, h4, rfl⟩ := h
    exact ⟨wl, ask, h3, h4, alookup_ainsert_self _ _ _⟩
  | addToListing id =>
    obtain ⟨l, nf, h1, _, _, _, h5, rfl⟩ := h
    exact ⟨l, nf, h1, h5, alookup_ainsert_self _ _ _⟩

example : ∃ m', DepositRecords AcctEx.w0.mkt m' 1 ⟨[⟨1, 1000⟩], [], []⟩ (AddedNative [⟨1, 1000⟩])
    (.createListing 3 ⟨⟨[⟨2, 2000⟩], [], []⟩, none⟩) :=
  ⟨_, _, _, by decide, by decide, rfl, rfl, rfl⟩

/-! ## 2. payouts -/

section payout
variable {w w' : World} {o : Outcome} {x id : Nat}

/-- "Every successful bucket removal … removes the record and delivers exactly its recorded assets
    to its owner plus exactly its recorded fee to the community pool."  The bucket `r` was filed
    under `(x, id)` with owner `x`; the emitted messages are exactly `withdrawMsgs` of its balance
    and fee; afterwards the key is empty, every other key keeps its record, the listing table is
    untouched; and the ledgers changed by exactly `PaidOut w w' x r.funds r.fee`:
    bank — `x` gains `coinAmt r.funds.native d`, the pool gains `feeAmt r.fee d`, the marketplace
    loses both, nobody else changes; every honest token `t` — `x` gains `coinAmt r.funds.cw20 t`,
    the marketplace loses it, nobody else changes, other contracts' ledgers are untouched; every
    recorded NFT of an honest collection was the marketplace's and is now `x`'s, every other NFT
    keeps its owner. -/
theorem C05_payout_bucket (hs : step w (.exec x [] (.removeBucket id)) = (w', o)) (hok : o.ok = true)
    (hx : x ≠ w.self) (hxp : x ≠ w.pool) (hp : w.pool ≠ w.self) :
    ∃ r, alookup (x, id) w.mkt.buckets = some r ∧ r.owner = x ∧
      o.msgs = withdrawMsgs w.self x r.funds r.fee ∧
      w'.mkt = { w.mkt with buckets := aerase (x, id) w.mkt.buckets } ∧
      alookup (x, id) w'.mkt.buckets = none ∧
      (∀ k, k ≠ (x, id) → alookup k w'.mkt.buckets = alookup k w.mkt.buckets) ∧
      PaidOut w w' x r.funds r.fee := by
  have h : (step w (.exec x [] (.removeBucket id))).2.ok = true := by rw [hs]; exact hok
  obtain ⟨m', msgs, w2, hex, hd, hstep⟩ := step_exec_nil_ok h
  rw [hstep] at hs
  cases hs
  rw [execute_nil_removeBucket] at hex
  obtain ⟨r, hr, ho, rfl, rfl⟩ := withdrawBucket_spec hex
  rw [ho] at hd
  have hm : w'.mkt = { w.mkt with buckets := aerase (x, id) w.mkt.buckets } := (dispatchAll_frame hd).2
  refine ⟨r, hr, ho, by rw [ho]; rfl, hm, ?_, fun k hk => ?_, paidOut_of_dispatch hd hx hxp hp⟩
  · rw [hm]; exact alookup_aerase_self _ _
  · rw [hm]; exact alookup_aerase_ne hk _

/-- "… listing deletion …": the refund of a listing that never traded.  The listing `l` was filed
    under `(x, id)`, created by `x`, unclaimed and not running; it carries **no fee**
    (`l.fee = none`) and the payout is `PaidOut … l.forSale none`: nothing goes to the pool. -/
theorem C05_payout_delete (hI : IdsInv w.mkt) (hW : WFInv w.junoD w.usdcD w.mkt)
    (hs : step w (.exec x [] (.deleteListing id)) = (w', o)) (hok : o.ok = true)
    (hx : x ≠ w.self) (hxp : x ≠ w.pool) (hp : w.pool ≠ w.self) :
    ∃ l, alookup (x, id) w.mkt.listings = some l ∧ l.creator = x ∧ l.claimant = none ∧
      l.status ≠ .closed ∧ l.fee = none ∧
      o.msgs = sendTokens x l.forSale ∧
      w'.mkt = { w.mkt with listings := aerase (x, id) w.mkt.listings } ∧
      alookup (x, id) w'.mkt.listings = none ∧ findById id w'.mkt.listings = none ∧
      (∀ k, k ≠ (x, id) → alookup k w'.mkt.listings = alookup k w.mkt.listings) ∧
      PaidOut w w' x l.forSale none := by
  have h : (step w (.exec x [] (.deleteListing id))).2.ok = true := by rw [hs]; exact hok
  obtain ⟨m', msgs, w2, hex, hd, hstep⟩ := step_exec_nil_ok h
  rw [hstep] at hs
  cases hs
  rw [execute_nil_deleteListing] at hex
  obtain ⟨l, hl, ho, hc, _, rfl, rfl⟩ := deleteListing_spec hex
  rw [← ho, ← withdrawMsgs_none w.self] at hd
  have hm : w'.mkt = { w.mkt with listings := aerase (x, id) w.mkt.listings } := (dispatchAll_frame hd).2
  have hwf := hW.listing hl
  have hfee : l.fee = none := wfListing_noClaimant_fee hwf (by rw [hc]; rfl)
  have hst : l.status ≠ .closed := by
    intro e
    have := wfListing_closed_claimant hwf e
    rw [hc] at this; cases this
  obtain ⟨hf, _, _⟩ := hI.findById_of_alookup hl
  refine ⟨l, hl, ho.symm, hc, hst, hfee, by rw [← ho], hm, ?_, ?_, fun k hk => ?_,
    paidOut_of_dispatch hd hx hxp hp⟩
  · rw [hm]; exact alookup_aerase_self _ _
  · rw [hm]; exact findById_aerase_self hI.lidInj hf
  · rw [hm]; exact alookup_aerase_ne hk _

/-- "… or purchased-listing withdrawal …": the sold listing `l` was filed under `(x, id)` with `x`
    as its buyer (claimant and, since the purchase re-filed it, creator); the goods go to `x`, the
    fee recorded at the purchase goes to the pool. -/
theorem C05_payout_purchased (hI : IdsInv w.mkt) (hW : WFInv w.junoD w.usdcD w.mkt)
    (hs : step w (.exec x [] (.withdrawPurchased id)) = (w', o)) (hok : o.ok = true)
    (hx : x ≠ w.self) (hxp : x ≠ w.pool) (hp : w.pool ≠ w.self) :
    ∃ l, alookup (x, id) w.mkt.listings = some l ∧ l.creator = x ∧ l.claimant = some x ∧
      l.status = .closed ∧
      o.msgs = withdrawMsgs w.self x l.forSale l.fee ∧
      w'.mkt = { w.mkt with listings := aerase (x, id) w.mkt.listings } ∧
      alookup (x, id) w'.mkt.listings = none ∧ findById id w'.mkt.listings = none ∧
      (∀ k, k ≠ (x, id) → alookup k w'.mkt.listings = alookup k w.mkt.listings) ∧
      PaidOut w w' x l.forSale l.fee := by
  have h : (step w (.exec x [] (.withdrawPurchased id))).2.ok = true := by rw [hs]; exact hok
  obtain ⟨m', msgs, w2, hex, hd, hstep⟩ := step_exec_nil_ok h
  rw [hstep] at hs
  cases hs
  rw [execute_nil_withdrawPurchased] at hex
  obtain ⟨k, l, hf, hc, hst, rfl, rfl⟩ := withdrawPurchased_spec hex
  obtain ⟨hk, _, hl⟩ := hI.findById_key hf
  have hcl := wfListing_closed_claimant (hW.listing hl) hst
  have hcr : l.creator = x := by rw [hc] at hcl; exact (Option.some.inj hcl).symm
  rw [hk, hcr] at hl hf
  have hm : w'.mkt = { w.mkt with listings := aerase (x, id) w.mkt.listings } := (dispatchAll_frame hd).2
  refine ⟨l, hl, hcr, hc, hst, rfl, hm, ?_, ?_, fun k hk => ?_, paidOut_of_dispatch hd hx hxp hp⟩
  · rw [hm]; exact alookup_aerase_self _ _
  · rw [hm]; exact findById_aerase_self hI.lidInj hf
  · rw [hm]; exact alookup_aerase_ne hk _

end payout

/-- last two operations of the sample history, and the deletion of the preparing listing of the
    state after three operations: accepted, under the hypotheses of the three theorems -/
example : IdsInv (C05Ex.at_ 8).mkt ∧ WFInv (C05Ex.at_ 8).junoD (C05Ex.at_ 8).usdcD (C05Ex.at_ 8).mkt ∧
    (step (C05Ex.at_ 8) (.exec 2 [] (.withdrawPurchased 3))).2.ok = true ∧
    (2 : Nat) ≠ (C05Ex.at_ 8).self ∧ (2 : Nat) ≠ (C05Ex.at_ 8).pool ∧
    (C05Ex.at_ 8).pool ≠ (C05Ex.at_ 8).self :=
  ⟨(C05Ex.at_inv 8).ids, (C05Ex.at_inv 8).wf, by decide, by decide, by decide, by decide⟩
example : (step (C05Ex.at_ 9) (.exec 1 [] (.removeBucket 8))).2.ok = true ∧
    (1 : Nat) ≠ (C05Ex.at_ 9).self ∧ (1 : Nat) ≠ (C05Ex.at_ 9).pool ∧
    (C05Ex.at_ 9).pool ≠ (C05Ex.at_ 9).self := by decide
example : IdsInv (C05Ex.at_ 3).mkt ∧ WFInv (C05Ex.at_ 3).junoD (C05Ex.at_ 3).usdcD (C05Ex.at_ 3).mkt ∧
    (step (C05Ex.at_ 3) (.exec 1 [] (.deleteListing 3))).2.ok = true ∧
    (1 : Nat) ≠ (C05Ex.at_ 3).self ∧ (1 : Nat) ≠ (C05Ex.at_ 3).pool ∧
    (C05Ex.at_ 3).pool ≠ (C05Ex.at_ 3).self :=
  ⟨(C05Ex.at_inv 3).ids, (C05Ex.at_inv 3).wf, by decide, by decide, by decide, by decide⟩

/-- "Every successful bucket removal, listing deletion or purchased-listing withdrawal …": the three
    payout theorems in one statement. -/
theorem C05_payout {w w' : World} {o : Outcome} {x id : Nat} (hI : IdsInv w.mkt)
    (hW : WFInv w.junoD w.usdcD w.mkt) (hok : o.ok = true)
    (hx : x ≠ w.self) (hxp : x ≠ w.pool) (hp : w.pool ≠ w.self) :
    (step w (.exec x [] (.removeBucket id)) = (w', o) →
      ∃ r, alookup (x, id) w.mkt.buckets = some r ∧ r.owner = x ∧
        alookup (x, id) w'.mkt.buckets = none ∧ PaidOut w w' x r.funds r.fee) ∧
    (step w (.exec x [] (.deleteListing id)) = (w', o) →
      ∃ l, alookup (x, id) w.mkt.listings = some l ∧ l.creator = x ∧
        alookup (x, id) w'.mkt.listings = none ∧ findById id w'.mkt.listings = none ∧
        PaidOut w w' x l.forSale none) ∧
    (step w (.exec x [] (.withdrawPurchased id)) = (w', o) →
      ∃ l, alookup (x, id) w.mkt.listings = some l ∧ l.claimant = some x ∧
        alookup (x, id) w'.mkt.listings = none ∧ findById id w'.mkt.listings = none ∧
        PaidOut w w' x l.forSale l.fee) := by
  refine ⟨fun hs => ?_, fun hs => ?_, fun hs => ?_⟩
  · obtain ⟨r, h1, h2, _, _, h5, _, h7⟩ := C05_payout_bucket hs hok hx hxp hp
    exact ⟨r, h1, h2, h5, h7⟩
  · obtain ⟨l, h1, h2, _, _, _, _, _, h8, h9, _, h11⟩ := C05_payout_delete hI hW hs hok hx hxp hp
    exact ⟨l, h1, h2, h8, h9, h11⟩
  · obtain ⟨l, h1, _, h3, _, _, _, h7, h8, _, h10⟩ := C05_payout_purchased hI hW hs hok hx hxp hp
    exact ⟨l, h1, h3, h7, h8, h10⟩

example : IdsInv (C05Ex.at_ 8).mkt ∧ WFInv (C05Ex.at_ 8).junoD (C05Ex.at_ 8).usdcD (C05Ex.at_ 8).mkt ∧
    (step (C05Ex.at_ 8) (.exec 2 [] (.withdrawPurchased 3))).2.ok = true :=
  ⟨(C05Ex.at_inv 8).ids, (C05Ex.at_inv 8).wf, by decide⟩

/-! ## 3. refunds of records that never traded carry no fee -/

/-- "Refunds of records that never traded carry no fee": (a) in a well-formed store only a sold
    (closed) listing can carry a fee, so a preparing or finalized listing has none; (b) an accepted
    `DeleteListing` emits no fund-community-pool message, and the listing it refunds has no fee
    recorded; (c) for any payout with no recorded fee — every deletion, and every removal of a
    bucket that never took part in a trade (`fee = none`) — the community pool's balance is
    exactly unchanged in every denomination and the marketplace loses exactly the goods. -/
theorem C05_refund_no_fee {m : Market} {j u : Nat} (hI : IdsInv m) (hW : WFInv j u m) :
    (∀ k l, alookup k m.listings = some l → l.status ≠ .closed → l.fee = none) ∧
    (∀ env s id m' out, deleteListing m env s id = .ok (m', out) →
      (∀ dep c, OutMsg.fundPool dep c ∉ out) ∧
      ∃ l, alookup (s, id) m.listings = some l ∧ l.fee = none) ∧
    (∀ (w w' : World) x g, PaidOut w w' x g none →
      (∀ d, lget w'.bank (w.pool, d) = lget w.bank (w.pool, d)) ∧
      (∀ d, lget w'.bank (w.self, d) + coinAmt g.native d = lget w.bank (w.self, d))) := by
  refine ⟨fun k l hl hs => C10_untraded_no_fee hW hl hs,
    fun env s id m' out h => C10_delete_no_pool hI hW h, fun w w' x g hp => ⟨fun d => ?_, fun d => ?_⟩⟩
  · have := hp.bankPool d
    simpa [feeAmt] using this
  · have := hp.bankSelf d
    simpa [feeAmt] using this

example : IdsInv (C05Ex.at_ 3).mkt ∧ WFInv (C05Ex.at_ 3).junoD (C05Ex.at_ 3).usdcD (C05Ex.at_ 3).mkt ∧
    (∃ r, deleteListing (C05Ex.at_ 3).mkt (C05Ex.at_ 3).env 1 3 = .ok r) :=
  ⟨(C05Ex.at_inv 3).ids, (C05Ex.at_inv 3).wf, _, rfl⟩

/-- the three payout theorems applied to the sample states -/
example : ∃ l : Listing, PaidOut (C05Ex.at_ 8)
    (step (C05Ex.at_ 8) (.exec 2 [] (.withdrawPurchased 3))).1 2 l.forSale l.fee := by
  obtain ⟨l, _, _, _, _, _, _, _, _, _, h⟩ := C05_payout_purchased (w := C05Ex.at_ 8)
    (C05Ex.at_inv 8).ids (C05Ex.at_inv 8).wf (x := 2) (id := 3) rfl (by decide) (by decide)
    (by decide) (by decide)
  exact ⟨l, h⟩

/-- the never-traded bucket: its removal pays nothing to the pool -/
theorem C05_refund_bucket_no_fee {w w' : World} {o : Outcome} {x id : Nat} {r : Bucket}
    (hs : step w (.exec x [] (.removeBucket id)) = (w', o)) (hok : o.ok = true)
    (hx : x ≠ w.self) (hxp : x ≠ w.pool) (hp : w.pool ≠ w.self)
    (hr : alookup (x, id) w.mkt.buckets = some r) (hf : r.fee = none) :
    (∀ dep c, OutMsg.fundPool dep c ∉ o.msgs) ∧
    ∀ d, lget w'.bank (w.pool, d) = lget w.bank (w.pool, d) := by
  obtain ⟨r', h1, _, h3, _, _, _, h7⟩ := C05_payout_bucket hs hok hx hxp hp
  rw [hr] at h1
  cases h1
  rw [hf] at h3 h7
  refine ⟨fun dep c hm => ?_, fun d => ?_⟩
  · rw [h3, withdrawMsgs_none] at hm
    rcases mem_sendTokens hm with ⟨_, e⟩ | ⟨_, _, e⟩ | ⟨_, _, e⟩ <;> cases e
  · have := h7.bankPool d
    simpa [feeAmt] using this

/-- bucket 8 of account 2 in the state after five operations: just created, no fee -/
example : (step (C05Ex.at_ 5) (.exec 2 [] (.removeBucket 8))).2.ok = true ∧
    (2 : Nat) ≠ (C05Ex.at_ 5).self ∧ (2 : Nat) ≠ (C05Ex.at_ 5).pool ∧
    (C05Ex.at_ 5).pool ≠ (C05Ex.at_ 5).self ∧
    ∃ r, alookup (2, 8) (C05Ex.at_ 5).mkt.buckets = some r ∧ r.fee = none :=
  ⟨by decide, by decide, by decide, by decide, _, rfl, rfl⟩

/-! ## 4. nobody else is touched -/

/-- account `y` is exactly as before: every bank balance, every token balance (of every contract),
    and the set of NFTs it owns -/
structure Untouched (w w' : World) (y : Nat) : Prop where
  bank : ∀ d, lget w'.bank (y, d) = lget w.bank (y, d)
  cw20 : ∀ t, lget w'.cw20 (t, y) = lget w.cw20 (t, y)
  nft : ∀ c tid, alookup (c, tid) w'.nft = some y ↔ alookup (c, tid) w.nft = some y

theorem Untouched.refl (w : World) (y : Nat) : Untouched w w y :=
  ⟨fun _ => rfl, fun _ => rfl, fun _ _ => Iff.rfl⟩

theorem NativeMoved.untouched {w w' : World} {x y : Nat} {funds : List Coin}
    (h : NativeMoved w w' x funds) (hy : y ≠ x) (hys : y ≠ w.self) : Untouched w w' y :=
  ⟨fun d => h.others y d hy hys, fun t => by rw [h.cw20], fun c tid => by rw [h.nft]⟩

theorem Cw20Moved.untouched {w w' : World} {t x amount y : Nat}
    (h : Cw20Moved w w' t x amount) (hy : y ≠ x) (hys : y ≠ w.self) : Untouched w w' y :=
  ⟨fun d => by rw [h.bank],
   fun t' => h.others (t', y) (fun e => hy (by injection e)) (fun e => hys (by injection e)),
   fun c tid => by rw [h.nft]⟩

theorem NftMoved.untouched {w w' : World} {c x tid y : Nat}
    (h : NftMoved w w' c x tid) (hy : y ≠ x) (hys : y ≠ w.self) : Untouched w w' y := by
  refine ⟨fun d => by rw [h.bank], fun t => by rw [h.cw20], fun c' tid' => ?_⟩
  by_cases e : (c', tid') = (c, tid)
  · rw [e, h.after, h.before]
    constructor
    · intro e'; injection e' with e'; exact absurd e'.symm hys
    · intro e'; injection e' with e'; exact absurd e'.symm hy
  · rw [h.others _ e]

theorem PaidOut.untouched {w w' : World} {x y : Nat} {g : GBal} {fee : Option Coin}
    (h : PaidOut w w' x g fee) (hy : y ≠ x) (hys : y ≠ w.self) (hyp : y ≠ w.pool) :
    Untouched w w' y := by
  refine ⟨fun d => h.bankOthers y d hy hyp hys, fun t => h.cw20Others t y (.inl ⟨hy, hys⟩),
    fun c tid => ?_⟩
  by_cases e : (⟨c, tid⟩ : Nft) ∈ g.nfts ∧ w.isHonest721 c = true
  · obtain ⟨h1, h2⟩ := h.nftOwner _ e.1 e.2
    dsimp only at h1 h2
    rw [h1, h2]
    constructor
    · intro e'; injection e' with e'; exact absurd e'.symm hy
    · intro e'; injection e' with e'; exact absurd e'.symm hys
  · rw [h.nftOthers c tid (by
      by_cases hm : (⟨c, tid⟩ : Nft) ∈ g.nfts
      · right
        cases hh : w.isHonest721 c with
        | false => rfl
        | true => exact absurd ⟨hm, hh⟩ e
      · left; exact hm)]

/-- "… and no other account's balance or NFT changes": in every deposit step and every payout step
    signed by `x` — accepted or not — every account `y` other than `x`, the marketplace and the
    community pool is exactly as before: all bank balances, all token balances, and the set of NFTs
    it owns (equalities, not inequalities). -/
theorem C05_others_untouched {w : World} {x y : Nat} (hI : IdsInv w.mkt)
    (hW : WFInv w.junoD w.usdcD w.mkt) (hx : x ≠ w.self) (hxp : x ≠ w.pool) (hp : w.pool ≠ w.self)
    (hy : y ≠ x) (hys : y ≠ w.self) (hyp : y ≠ w.pool) :
    (∀ funds i, Untouched w (step w (.exec x funds (Inner.toExec i))).1 y) ∧
    (∀ t amount inner, Untouched w (step w (.send20 t x amount inner)).1 y) ∧
    (∀ c tid inner, Untouched w (step w (.send721 c x tid inner)).1 y) ∧
    (∀ id, Untouched w (step w (.exec x [] (.removeBucket id))).1 y) ∧
    (∀ id, Untouched w (step w (.exec x [] (.deleteListing id))).1 y) ∧
    (∀ id, Untouched w (step w (.exec x [] (.withdrawPurchased id))).1 y) := by
  have key : ∀ op, ((step w op).2.ok = true → Untouched w (step w op).1 y) →
      Untouched w (step w op).1 y := by
    intro op h
    cases hok : (step w op).2.ok with
    | true => exact h hok
    | false =>
      have : (step w op).1 = w := stepF_failed_noop noFault w op hok
      rw [this]
      exact Untouched.refl w y
  refine ⟨fun funds i => key _ fun hok => ?_, fun t amount inner => key _ fun hok => ?_,
    fun c tid inner => key _ fun hok => ?_, fun id => key _ fun hok => ?_,
    fun id => key _ fun hok => ?_, fun id => key _ fun hok => ?_⟩
  · exact (C05_deposit_native i rfl hok hx).2.1.untouched hy hys
  · exact (C05_deposit_cw20 rfl hok hx).2.1.untouched hy hys
  · exact (C05_deposit_nft rfl hok).2.1.untouched hy hys
  · obtain ⟨r, _, _, _, _, _, _, h7⟩ := C05_payout_bucket rfl hok hx hxp hp
    exact h7.untouched hy hys hyp
  · obtain ⟨l, _, _, _, _, _, _, _, _, _, _, h11⟩ := C05_payout_delete hI hW rfl hok hx hxp hp
    exact h11.untouched hy hys hyp
  · obtain ⟨l, _, _, _, _, _, _, _, _, _, h10⟩ := C05_payout_purchased hI hW rfl hok hx hxp hp
    exact h10.untouched hy hys hyp

/-- the hypotheses are met in the sample state after eight operations by `x = 2` (the buyer) and
    the bystander `y = 5` -/
example : IdsInv (C05Ex.at_ 8).mkt ∧ WFInv (C05Ex.at_ 8).junoD (C05Ex.at_ 8).usdcD (C05Ex.at_ 8).mkt ∧
    (2 : Nat) ≠ (C05Ex.at_ 8).self ∧ (2 : Nat) ≠ (C05Ex.at_ 8).pool ∧
    (C05Ex.at_ 8).pool ≠ (C05Ex.at_ 8).self ∧ (5 : Nat) ≠ 2 ∧ (5 : Nat) ≠ (C05Ex.at_ 8).self ∧
    (5 : Nat) ≠ (C05Ex.at_ 8).pool :=
  ⟨(C05Ex.at_inv 8).ids, (C05Ex.at_inv 8).wf, by decide, by decide, by decide, by decide, by decide,
   by decide⟩

/-- evaluating the model on the sample agrees with `PaidOut`: the withdrawal of the purchased
    listing gives the buyer (2) 995 of denom 1, 400 of token 50 and NFT (60, 7), the pool (101) the
    fee 5, and leaves the bystander's 30 coins alone -/
example :
    let w := C05Ex.at_ 8
    let w' := (step w (.exec 2 [] (.withdrawPurchased 3))).1
    lget w'.bank (2, 1) = lget w.bank (2, 1) + 995 ∧ lget w'.bank (101, 1) = lget w.bank (101, 1) + 5 ∧
    lget w'.bank (100, 1) + 995 + 5 = lget w.bank (100, 1) ∧
    lget w'.cw20 (50, 2) = lget w.cw20 (50, 2) + 400 ∧ alookup (60, 7) w'.nft = some 2 ∧
    lget w'.bank (5, 1) = 30 := by decide

#print axioms C05_deposit_native
#print axioms C05_deposit_cw20
#print axioms C05_deposit_nft
#print axioms C05_deposit_other_keys
#print axioms C05_deposit_own_key
#print axioms C05_payout_bucket
#print axioms C05_payout_delete
#print axioms C05_payout_purchased
#print axioms C05_payout
#print axioms C05_refund_no_fee
#print axioms C05_refund_bucket_no_fee
#print axioms NativeMoved.untouched
#print axioms Cw20Moved.untouched
#print axioms NftMoved.untouched
#print axioms PaidOut.untouched
#print axioms C05_others_untouched
#print axioms C05Ex.at_inv
#print axioms C05Ex.w0_inv
#print axioms Untouched.refl

end Fuzion
