/-
  Fuzion.Props.OracleSoundForge — the classification of accepted forged hook calls never reports
  a new violation on the model.

  When a contract calls a receive hook directly (`isForgedHook`, Driver/Oracles.lean) and the call
  is accepted, the driver lists with `Cmp.changedRecords cur pw caller` the pre-existing records of
  wallets other than the caller that changed.  A class without suffix ("bucket", "listing:prep")
  is the recorded finding C18 (`Props/C18.lean`, `C18Partial.lean`: a token contract may top up
  somebody's bucket / listing in preparation with *its own* token or collection); the suffix
  "!beyond" (the change is not confined to entries that name the caller as token / collection)
  and the classes ":removed", "listing:fin", "listing:closed" would be new violations.

  Here: on the model's own step such a class never occurs — every class is "bucket" or
  "listing:prep".  The only hypothesis is `IdsInv` (C09: storage keys are unique and a listing is
  filed under its id); no well-formedness of balances is needed, because the proof does not go
  through per-token amounts but through the exact shape of `addCoin` / `addNft`: the new list is
  the old one with the caller's own entry grown or appended, so removing the caller's entries
  (`stripCaller`) gives literally the same list.
-/
import Fuzion.Lemmas.ForgeLemmas
import Fuzion.Props.C18Partial
import Fuzion.Props.OracleSound
namespace Fuzion
open Fuzion.Cmp Fuzion.Codec

/-! ## 1. a top-up is confined to the caller's own entries -/

/-- `add_tokens` of a coin of token `t`: the entries of every other token are literally the same
    list as before (the entry of `t` grows in place, or is appended) -/
theorem filter_addCoin {l r : List Coin} {t a : Nat} (h : addCoin l ⟨t, a⟩ = some r) :
    r.filter (fun c => c.key != t) = l.filter (fun c => c.key != t) := by
  induction l generalizing r with
  | nil =>
    simp only [addCoin, Option.some.injEq] at h
    subst h
    simp
  | cons x xs ih =>
    simp only [addCoin] at h
    split at h
    · rename_i hk
      split at h
      · simp only [Option.some.injEq] at h
        subst h
        simp [hk]
      · cases h
    · split at h
      · cases h
      · rename_i r' hr'
        simp only [Option.some.injEq] at h
        subst h
        simp only [List.filter_cons, ih hr']

/-- a CW20 top-up with the caller's own token leaves the balance-without-the-caller as it was -/
theorem stripCaller_addTokens {g nf : GBal} {caller a : Nat}
    (h : addTokens g (.cw20 ⟨caller, a⟩) = some nf) : stripCaller nf caller = stripCaller g caller := by
  simp only [addTokens] at h
  split at h
  · cases h
  · rename_i n hn
    simp only [Option.some.injEq] at h
    subst h
    simp only [stripCaller, filter_addCoin hn]

/-- an NFT top-up with an NFT of the caller's own collection likewise -/
theorem stripCaller_addNft (g : GBal) (caller tid : Nat) :
    stripCaller (addNft g ⟨caller, tid⟩) caller = stripCaller g caller := by
  simp [stripCaller, addNft, List.filter_append]

example : addTokens ⟨[⟨0, 10⟩], [⟨7, 1⟩, ⟨6, 2⟩], []⟩ (.cw20 ⟨6, 5⟩) =
    some ⟨[⟨0, 10⟩], [⟨7, 1⟩, ⟨6, 7⟩], []⟩ := by decide

/-! ## 2. the classes of `changedRecords` -/

/-- no record changed, no class: in particular after a refused call -/
theorem changedRecords_same {a b : World} (caller : Nat) (hI : IdsInv a.mkt) (hm : b.mkt = a.mkt) :
    changedRecords a b caller = [] := by
  unfold changedRecords
  rw [hm, List.append_eq_nil_iff, List.filterMap_eq_nil_iff, List.filterMap_eq_nil_iff]
  constructor
  · rintro ⟨k, l⟩ hp
    dsimp only
    split
    · rfl
    · rw [mem_nodup_alookup hI.lkeys hp]
      simp
  · rintro ⟨k, b0⟩ hp
    dsimp only
    split
    · rfl
    · rw [mem_nodup_alookup hI.bkeys hp]
      simp

/-- If every pre-existing record is still there and either unchanged or — a listing only while
    in preparation — differs in its goods / funds only by entries that name `caller`, then every
    class `changedRecords` reports is the recorded finding. -/
theorem changedRecords_confined {a b : World} {caller : Nat} (hI : IdsInv a.mkt)
    (hL : ∀ k l, alookup k a.mkt.listings = some l → alookup k b.mkt.listings = some l ∨
      (l.status = .preparing ∧ ∃ nf, stripCaller nf caller = stripCaller l.forSale caller ∧
        alookup k b.mkt.listings = some { l with forSale := nf }))
    (hB : ∀ k b0, alookup k a.mkt.buckets = some b0 → alookup k b.mkt.buckets = some b0 ∨
      (∃ nf, stripCaller nf caller = stripCaller b0.funds caller ∧
        alookup k b.mkt.buckets = some { b0 with funds := nf })) :
    ∀ c ∈ changedRecords a b caller, c = "bucket" ∨ c = "listing:prep" := by
  intro c hc
  unfold changedRecords at hc
  rcases List.mem_append.1 hc with h | h
  · obtain ⟨⟨k, l⟩, hp, hf⟩ := List.mem_filterMap.1 h
    dsimp only at hf
    split at hf
    · cases hf
    · rcases hL k l (mem_nodup_alookup hI.lkeys hp) with e | ⟨hst, nf, hs, e⟩
      · rw [e] at hf
        simp at hf
      · rw [e] at hf
        dsimp only at hf
        split at hf
        · cases hf
        · simp only [hs, hst, beq_self_eq_true, if_true, Option.some.injEq] at hf
          right
          rw [← hf]
          rfl
  · obtain ⟨⟨k, b0⟩, hp, hf⟩ := List.mem_filterMap.1 h
    dsimp only at hf
    split at hf
    · cases hf
    · rcases hB k b0 (mem_nodup_alookup hI.bkeys hp) with e | ⟨nf, hs, e⟩
      · rw [e] at hf
        simp at hf
      · rw [e] at hf
        dsimp only at hf
        split at hf
        · cases hf
        · simp only [hs, beq_self_eq_true, if_true, Option.some.injEq] at hf
          left
          exact hf.symm

/-- the state update of an accepted hook (`HookChange`, Lemmas/ForgeLemmas.lean) whose top-ups
    are confined to the caller's own entries yields the recorded classes only -/
theorem changedRecords_hook {a b : World} {caller user : Nat} {fresh : GBal}
    {top : GBal → GBal → Prop} (hI : IdsInv a.mkt) (hc : HookChange a.mkt user fresh top b.mkt)
    (htop : ∀ g nf, top g nf → stripCaller nf caller = stripCaller g caller) :
    ∀ c ∈ changedRecords a b caller, c = "bucket" ∨ c = "listing:prep" := by
  refine changedRecords_confined hI ?_ ?_
  · intro k l hl
    rcases hc.listing hI hl with e | ⟨_, hst, _, nf, ht, e⟩
    · exact .inl e
    · exact .inr ⟨hst, nf, htop _ _ ht, e⟩
  · intro k b0 hb
    rcases hc.bucket hb with e | ⟨_, nf, ht, e⟩
    · exact .inl e
    · exact .inr ⟨nf, htop _ _ ht, e⟩

/-! ## 3. the two hooks, as transactions -/

/-- **CW20 hook.**  Whatever contract or account `s` calls the CW20 receive hook directly, with
    whatever coins attached, naming whatever sender, amount and inner message: every class the
    driver derives from the model's step is "bucket" or "listing:prep" — never "!beyond",
    ":removed", "listing:fin" or "listing:closed".  (A refused call changes nothing:
    `sound_forge_refused`.) -/
theorem sound_forge_confined_funds (w : World) (s : Nat) (f : List Coin) (u : RawAddr) (a : Nat)
    (i : Option Inner) (hI : IdsInv w.mkt) :
    ∀ c ∈ changedRecords w (step w (.exec s f (.receive u a i))).1 s,
      c = "bucket" ∨ c = "listing:prep" := by
  unfold step
  rcases stepF_mkt_casesF noFault w (.exec s f (.receive u a i)) with hm | ⟨c0, f0, msg, out, ho, _, _, hx⟩
  · rw [changedRecords_same s hI hm]
    intro c hc; cases hc
  · simp only [Op.asExec, Option.some.injEq, Prod.mk.injEq] at ho
    obtain ⟨rfl, rfl, rfl⟩ := ho
    rw [execute_receive] at hx
    obtain ⟨_, _, _, user, _, hch⟩ := receive_hook hx
    exact changedRecords_hook hI hch (fun g nf h => stripCaller_addTokens h)

/-- the statement for a call without coins (with coins the call is refused) -/
theorem sound_forge_confined (w : World) (s : Nat) (u : RawAddr) (a : Nat) (i : Option Inner)
    (hI : IdsInv w.mkt) :
    let w' := (step w (.exec s [] (.receive u a i))).1
    ∀ c ∈ changedRecords w w' s, c = "bucket" ∨ c = "listing:prep" :=
  sound_forge_confined_funds w s [] u a i hI

/-- **CW721 hook.**  The same for a direct call of the CW721 receive hook. -/
theorem sound_forge_confined_nft_funds (w : World) (s : Nat) (f : List Coin) (u : RawAddr)
    (tid : Nat) (i : Option Inner) (hI : IdsInv w.mkt) :
    ∀ c ∈ changedRecords w (step w (.exec s f (.receiveNft u tid i))).1 s,
      c = "bucket" ∨ c = "listing:prep" := by
  unfold step
  rcases stepF_mkt_casesF noFault w (.exec s f (.receiveNft u tid i)) with
    hm | ⟨c0, f0, msg, out, ho, _, _, hx⟩
  · rw [changedRecords_same s hI hm]
    intro c hc; cases hc
  · simp only [Op.asExec, Option.some.injEq, Prod.mk.injEq] at ho
    obtain ⟨rfl, rfl, rfl⟩ := ho
    rw [execute_receiveNft] at hx
    obtain ⟨_, _, _, user, _, hch⟩ := receiveNft_hook hx
    exact changedRecords_hook hI hch (fun g nf h => by subst h; exact stripCaller_addNft g s tid)

theorem sound_forge_confined_nft (w : World) (s : Nat) (u : RawAddr) (tid : Nat) (i : Option Inner)
    (hI : IdsInv w.mkt) :
    let w' := (step w (.exec s [] (.receiveNft u tid i))).1
    ∀ c ∈ changedRecords w w' s, c = "bucket" ∨ c = "listing:prep" :=
  sound_forge_confined_nft_funds w s [] u tid i hI

/-- a refused operation of any kind yields no class at all; in particular a hook call with coins
    attached (`C19_hooks_refuse`) -/
theorem sound_forge_refused (w : World) (op : Op) (caller : Nat) (hI : IdsInv w.mkt)
    (h : (step w op).2.ok = false) : changedRecords w (step w op).1 caller = [] :=
  changedRecords_same caller hI (by rw [C04_refused_noop w op h])

/-! ## 4. non-vacuity on the witness world of C18 -/

namespace ForgeEx

/-- the witness state of `Props/C18.lean`: victim 1 has bucket 3 (10 of denom 0) and the listing
    in preparation 5 (10 of denom 2 for 10 of denom 0); contract 6 is hostile -/
def w : World := run c18World c18Setup

theorem w_ids : IdsInv w.mkt := c18Mkt_ids

theorem w_listings : w.mkt.listings =
    [((1, 5), { creator := 1, id := 5, finalizedAt := none, expiresAt := none, status := .preparing,
                claimant := none, whitelist := none, forSale := ⟨[⟨2, 10⟩], [], []⟩,
                ask := ⟨[⟨0, 10⟩], [], []⟩, fee := none })] := by decide
theorem w_buckets : w.mkt.buckets = [((1, 3), ⟨1, ⟨[⟨0, 10⟩], [], []⟩, none⟩)] := by decide

/-- the post-state of the forged CW20 top-up of the victim's bucket -/
def w20 : World := (step w forge20Bucket).1
theorem w20_listings : w20.mkt.listings = w.mkt.listings := by decide
theorem w20_buckets : w20.mkt.buckets = [((1, 3), ⟨1, ⟨[⟨0, 10⟩], [⟨6, 5⟩], []⟩, none⟩)] := by decide

/-- a hand-made post-state in which, besides the forged entry, one unit of the victim's denom 0
    is gone: not the recorded finding -/
def wBeyond : World :=
  { w20 with mkt := { w20.mkt with buckets := [((1, 3), ⟨1, ⟨[⟨0, 9⟩], [⟨6, 5⟩], []⟩, none⟩)] } }

/-- the post-state of the forged CW721 top-up of the victim's listing in preparation -/
def w721 : World := (step w forge721Listing).1
theorem w721_listings : w721.mkt.listings =
    [((1, 5), { creator := 1, id := 5, finalizedAt := none, expiresAt := none, status := .preparing,
                claimant := none, whitelist := none, forSale := ⟨[⟨2, 10⟩], [], [⟨6, 1⟩]⟩,
                ask := ⟨[⟨0, 10⟩], [], []⟩, fee := none })] := by decide
theorem w721_buckets : w721.mkt.buckets = w.mkt.buckets := by decide

end ForgeEx

/-- the forged calls are accepted in a state with `IdsInv` (hypotheses of the theorems) -/
example : IdsInv ForgeEx.w.mkt ∧ (step ForgeEx.w forge20Bucket).2.ok = true ∧
    (step ForgeEx.w forge721Listing).2.ok = true ∧
    forge20Bucket = .exec 6 [] (.receive (.valid 1) 5 (some (.addToBucket 3))) ∧
    forge721Listing = .exec 6 [] (.receiveNft (.valid 1) 1 (some (.addToListing 5))) :=
  ⟨ForgeEx.w_ids, by decide, by decide, rfl, rfl⟩

/-- the forged CW20 top-up is classified as the recorded finding: exactly `["bucket"]` -/
example : changedRecords ForgeEx.w ForgeEx.w20 6 = ["bucket"] := by
  unfold changedRecords
  rw [ForgeEx.w20_listings, ForgeEx.w20_buckets, ForgeEx.w_listings, ForgeEx.w_buckets]
  simp [alookup, canonListing, canonBucket, canonGBal, sortCoins, sortNfts, stripCaller]

/-- the forged CW721 top-up of the listing in preparation: exactly `["listing:prep"]` -/
example : changedRecords ForgeEx.w ForgeEx.w721 6 = ["listing:prep"] := by
  unfold changedRecords
  rw [ForgeEx.w721_listings, ForgeEx.w721_buckets, ForgeEx.w_listings, ForgeEx.w_buckets]
  simp [alookup, canonListing, canonBucket, canonGBal, sortCoins, sortNfts, stripCaller]

/-- the classification is not trivially "confined": a post-state in which another entry of the
    bucket changed as well gets the suffix -/
example : changedRecords ForgeEx.w ForgeEx.wBeyond 6 = ["bucket!beyond"] := by
  unfold changedRecords
  have h1 : ForgeEx.wBeyond.mkt.listings = ForgeEx.w.mkt.listings := ForgeEx.w20_listings
  have h2 : ForgeEx.wBeyond.mkt.buckets = [((1, 3), ⟨1, ⟨[⟨0, 9⟩], [⟨6, 5⟩], []⟩, none⟩)] := rfl
  rw [h1, h2, ForgeEx.w_listings, ForgeEx.w_buckets]
  simp [alookup, canonListing, canonBucket, canonGBal, sortCoins, sortNfts, stripCaller]

/-- … and a post-state in which the bucket is gone is reported as removed -/
example : changedRecords ForgeEx.w { ForgeEx.w with mkt := { ForgeEx.w.mkt with buckets := [] } } 6 =
    ["bucket:removed"] := by
  unfold changedRecords
  have h2 : ({ ForgeEx.w with mkt := { ForgeEx.w.mkt with buckets := [] } } : World).mkt.buckets = [] := rfl
  have h1 : ({ ForgeEx.w with mkt := { ForgeEx.w.mkt with buckets := [] } } : World).mkt.listings =
      ForgeEx.w.mkt.listings := rfl
  rw [h1, h2, ForgeEx.w_listings, ForgeEx.w_buckets]
  simp [alookup, canonListing, canonGBal, sortCoins, sortNfts]

/-! ## axioms -/

#print axioms filter_addCoin
#print axioms stripCaller_addTokens
#print axioms stripCaller_addNft
#print axioms changedRecords_same
#print axioms changedRecords_confined
#print axioms changedRecords_hook
#print axioms sound_forge_confined_funds
#print axioms sound_forge_confined
#print axioms sound_forge_confined_nft_funds
#print axioms sound_forge_confined_nft
#print axioms sound_forge_refused
#print axioms ForgeEx.w_ids
#print axioms ForgeEx.w_listings
#print axioms ForgeEx.w_buckets
#print axioms ForgeEx.w20_listings
#print axioms ForgeEx.w20_buckets
#print axioms ForgeEx.w721_listings
#print axioms ForgeEx.w721_buckets

end Fuzion
