/-
  Fuzion.Props.C01Closed — the run-level accounting theorem with the invariant-preservation
  hypotheses discharged by C09 (`IdsInv`) and C12 (`WFInv`): unconditional over every op list.
-/
import Fuzion.Props.C01
import Fuzion.Props.C09
import Fuzion.Props.C12
namespace Fuzion

/-- C01 for every history: from any state satisfying the invariant `C01Inv` (ids, well-formedness,
    exactly backed, pool ≠ marketplace, no royalty payout address = marketplace), every state
    reached by any list of ops that are not signed by the marketplace and in which no honest token
    forges a hook call, is again exactly backed. -/
theorem C01_backed_closed (ops : List Op) {w : World} (h : C01Inv w)
    (hops : ∀ op ∈ ops, op.avoids w.self ∧ op.honest w) : C01Inv (run w ops) :=
  C01_backed C09_inv_execute (fun _ hw h => C12_inv_execute hw h) ops h hops

/-- the driver's executable oracle `checkC01` holds in every state of every such history -/
theorem C01_check_run_closed {w : World} (h : C01Inv w) (hl : NftLedgerOk w) (ops : List Op)
    (hops : ∀ op ∈ ops, op.avoids w.self ∧ op.honest w) : checkC01 (run w ops) = true :=
  C01_check_run C09_inv_execute (fun _ hw h => C12_inv_execute hw h) h hl ops hops

#print axioms C01_backed_closed
#print axioms C01_check_run_closed
end Fuzion
