/-
  Fuzion.Props.C01Closed — the run-level accounting theorem with the invariant-preservation
  hypotheses discharged by C09 (`IdsInv`) and C12 (`WFInv`): unconditional over every op list.
-/
import Fuzion.Props.C01
import Fuzion.Props.C09
import Fuzion.Props.C12
namespace Fuzion

/-- C01 for every history: from any state satisfying the invariant `C01Inv` (ids, well-formedness,
    exactly backed, pool ≠ marketplace, no royalty payout address = marketplace), every state
    reached by any list of ops that are not signed by the marketplace and in which no honest token
    forges a hook call, is again exactly backed. -/
theorem C01_backed_closed (ops : List Op) {w : World} (h : C01Inv w)
    (hops : ∀ op ∈ ops, op.avoids w.self ∧ op.honest w) : C01Inv (run w ops) :=
  C01_backed C09_inv_execute (fun _ hw h => C12_inv_execute hw h) ops h hops

/-- the driver's executable oracle `checkC01` holds in every state of every such history -/
theorem C01_check_run_closed {w : World} (h : C01Inv w) (hl : NftLedgerOk w) (ops : List Op)
    (hops : ∀ op ∈ ops, op.avoids w.self ∧ op.honest w) : checkC01 (run w ops) = true :=
  C01_check_run C09_inv_execute (fun _ hw h => C12_inv_execute hw h) h hl ops hops

#print axioms C01_backed_closed
#print axioms C01_check_run_closed
end Fuzion

namespace Fuzion

/-- A deployment: the marketplace has just been instantiated (empty tables, id 0 marked, registry
    address stored), holds nothing — no native coin, no honest token, no honest NFT —, the registry is
    empty and the pool account is not the marketplace. -/
structure Deployed (w : World) : Prop where
  mkt : ∃ t r, w.mkt = instantiate t r
  bank0 : ∀ d, lget w.bank (w.self, d) = 0
  cw200 : ∀ t, lget w.cw20 (t, w.self) = 0
  nft0 : ∀ k, alookup k w.nft ≠ some w.self
  reg0 : w.reg = []
  pool : w.pool ≠ w.self

/-- the invariant holds at deployment … -/
theorem C01Inv_deployed {w : World} (h : Deployed w) : C01Inv w := by
  obtain ⟨t, r, hm⟩ := h.mkt
  have hl : w.mkt.listings = [] := by rw [hm]; rfl
  have hb : w.mkt.buckets = [] := by rw [hm]; rfl
  refine ⟨hm ▸ IdsInv.init t r, hm ▸ WFInv.init _ _ t r, ⟨?_, ?_, ?_⟩, h.pool, ?_⟩
  · intro d
    rw [h.bank0 d]
    simp [owedNative, pendingFee, listingsSum, bucketsSum, hl, hb]
  · intro tk _
    rw [h.cw200 tk]
    simp [owedCw20, listingsSum, bucketsSum, hl, hb]
  · refine ⟨by simp [recordedNfts, hl, hb], ?_⟩
    intro n _
    simp only [recordedNfts, hl, hb, List.flatMap_nil, List.append_nil, List.not_mem_nil, false_iff]
    exact h.nft0 _
  · intro c e he
    rw [h.reg0] at he
    simp [regSingle, alookup] at he

/-- … hence **C01 for every history from deployment**: after any list of ops that are not signed
    by the marketplace and in which no honest token forges a hook call, for each native denomination
    and each honest CW20 token the marketplace's balance equals what the records promise (goods +
    pending fees), and the honest NFTs it owns are exactly the recorded ones, each recorded once. -/
theorem C01_from_deployment {w : World} (h : Deployed w) (ops : List Op)
    (hops : ∀ op ∈ ops, op.avoids w.self ∧ op.honest w) : Backed (run w ops) :=
  (C01_backed_closed ops (C01Inv_deployed h) hops).backed

/-- a concrete deployment (the example world of Props/C18.lean without the hostile contract) -/
def deployedEx : World :=
  { self := 9, pool := 8, regAddr := 7, junoD := 0, usdcD := 1, nowNs := 1700000000123456789, height := 1000,
    mkt := instantiate 1700000000123456789 (some 7), reg := [],
    bank := [((1, 0), 10), ((1, 2), 10)], cw20 := [], nft := [],
    contracts := [(9, ⟨none, 0, false, false⟩), (7, ⟨none, 0, false, false⟩)] }

/-- non-vacuity: it satisfies `Deployed` -/
example : Deployed deployedEx := by
  refine ⟨⟨1700000000123456789, some 7, rfl⟩, ?_, ?_, ?_, rfl, by decide⟩
  · intro d; simp [deployedEx, lget, alookup]
  · intro t; simp [deployedEx, lget, alookup]
  · intro k; simp [deployedEx, alookup]

#print axioms C01Inv_deployed
#print axioms C01_from_deployment
end Fuzion
