/-
  Fuzion.Props.C13 — "The fee denomination alternates, at most once per week".

  Property text:  The fee denomination only ever switches between the two configured
  denominations, only through the public cycle message, and never when fewer than 604800 seconds
  have elapsed since the previous switch or instantiation; once more than 604800 seconds have
  elapsed any account can switch it.  Each purchase is charged in the denomination in force at
  that moment and a fee already recorded is unaffected by later switches.

  About saturation.  The Rust tests `now_seconds <= last.saturating_add(604800)` on `u64`s.
  `C13_cycle_ok_iff` is exact (it carries the `min … U64MAX`).  The saturation is invisible as
  soon as either `feeSince + WEEK ≤ U64MAX` or `nowNs / NS ≤ U64MAX` (block time is itself a `u64`
  number of nanoseconds, so the latter always holds on a real chain); the "never when …" theorems
  take one of these as side condition, the "any account can" theorems need none.

  NOTE on the wording: the code refuses when `now ≤ since + 604800`, i.e. also when *exactly*
  604800 s have elapsed; a switch needs strictly more (`>`), which is what is proved.
-/
import Fuzion.Lemmas.RegistryLemmas
namespace Fuzion

/-! ## handler level -/

/-! ### 1. `cycleFee` -/

/-- exact acceptance condition of `execute_cycle_fee`, saturation included -/
theorem C13_cycle_ok_iff (m : Market) (env : Env) :
    (∃ r, cycleFee m env = .ok r) ↔ env.nowNs / NS > min (m.feeSince + WEEK) U64MAX := by
  unfold cycleFee
  dsimp only
  split
  · next h => constructor
              · rintro ⟨r, hr⟩; cases hr
              · intro h'; omega
  · next h => constructor
              · intro _; omega
              · intro _; exact ⟨_, rfl⟩

/-- "never when fewer than 604800 seconds have elapsed since the previous switch or
    instantiation; once more than 604800 seconds have elapsed any account can switch it":
    the cycle message is accepted exactly when more than a week of block time separates now from
    the stored time stamp. -/
theorem C13_cycle_iff (m : Market) (env : Env) (hU : m.feeSince + WEEK ≤ U64MAX) :
    (∃ r, cycleFee m env = .ok r) ↔ env.nowNs / NS > m.feeSince + WEEK := by
  rw [C13_cycle_ok_iff, sat_gt_iff (.inl hU)]

/-- `C13_cycle_iff` under the alternative side condition "block time in seconds is a `u64`". -/
theorem C13_cycle_iff' (m : Market) (env : Env) (hU : env.nowNs / NS ≤ U64MAX) :
    (∃ r, cycleFee m env = .ok r) ↔ env.nowNs / NS > m.feeSince + WEEK := by
  rw [C13_cycle_ok_iff, sat_gt_iff (.inr hU)]

/-- the same in nanoseconds of block time: accepted from the first nanosecond of second
    `feeSince + 604801` on. -/
theorem C13_cycle_iff_ns (m : Market) (env : Env) (hU : m.feeSince + WEEK ≤ U64MAX) :
    (∃ r, cycleFee m env = .ok r) ↔ env.nowNs ≥ (m.feeSince + WEEK + 1) * NS := by
  rw [C13_cycle_iff m env hU, div_gt_iff_ns]

/-- "once more than 604800 seconds have elapsed any account can switch it" needs no side
    condition at all. -/
theorem C13_cycle_can (m : Market) (env : Env) (h : env.nowNs / NS > m.feeSince + WEEK) :
    ∃ r, cycleFee m env = .ok r :=
  (C13_cycle_ok_iff m env).2 (by omega)

/-- "The fee denomination only ever switches between the two configured denominations …; a fee
    already recorded is unaffected by later switches": an accepted cycle emits no message, flips
    the denomination to the other one, stamps it with the current block time in seconds, and
    leaves every listing and bucket record (hence every recorded fee), both id logs and the
    registry address untouched. -/
theorem C13_cycle_effect {m m' : Market} {env : Env} {msgs : List OutMsg}
    (h : cycleFee m env = .ok (m', msgs)) :
    msgs = [] ∧ m'.feeKind = m.feeKind.other ∧ m'.feeKind ≠ m.feeKind ∧
    m'.feeSince = env.nowNs / NS ∧ m'.listings = m.listings ∧ m'.buckets = m.buckets ∧
    m'.listingUsed = m.listingUsed ∧ m'.bucketUsed = m.bucketUsed ∧ m'.registry = m.registry := by
  unfold cycleFee at h
  dsimp only at h
  split at h
  · cases h
  · simp only [Except.ok.injEq, Prod.mk.injEq] at h
    obtain ⟨rfl, rfl⟩ := h
    refine ⟨rfl, ?_, ?_, rfl, rfl, rfl, rfl, rfl, rfl⟩
    · cases m.feeKind <;> rfl
    · cases m.feeKind <;> simp

/-- "only ever … between the two configured denominations": whatever the state, the denomination
    in force is one of the two configured ones, and two consecutive switches restore it. -/
theorem C13_two_denoms (env : Env) (k : FeeKind) :
    (feeDenomOf env k = env.junoD ∨ feeDenomOf env k = env.usdcD) ∧ k.other.other = k := by
  cases k <;> simp [feeDenomOf, FeeKind.other]

/-- "since the previous switch or instantiation": instantiation starts in the first of the two
    denominations and stamps it with the block time in seconds, exactly like a switch. -/
theorem C13_instantiate (nowNs : Nat) (registry : Option Nat) :
    (instantiate nowNs registry).feeKind = .juno ∧
    (instantiate nowNs registry).feeSince = nowNs / NS := ⟨rfl, rfl⟩

private def exEnv (nowNs : Nat) : Env :=
  { self := 100, nowNs := nowNs, junoD := 1, usdcD := 2, regAddr := 102,
    isToken20 := fun _ => false, isContract := fun _ => false, regLookup := fun _ => none }

-- non-vacuity: instantiated at t = 0 s; refused at 604800 s, accepted at 604801 s
example : (instantiate 0 none).feeSince + WEEK ≤ U64MAX := by decide
example : (exEnv (604801 * NS)).nowNs / NS ≤ U64MAX := by decide
example : (exEnv (604801 * NS)).nowNs / NS > (instantiate 0 none).feeSince + WEEK := by decide
example : ∃ r, cycleFee (instantiate 0 none) (exEnv (604801 * NS)) = .ok r := ⟨_, rfl⟩
example : cycleFee (instantiate 0 none) (exEnv (604800 * NS + 999999999)) = .error .notReady := rfl

/-! ### 2. any account, no funds -/

/-- "through the public cycle message … any account can switch it": the entry point hands the
    message to `cycleFee` whoever the sender is — the sender is not even looked at. -/
theorem C13_any_sender (m : Market) (env : Env) (s : Nat) :
    execute m env s [] .feeCycle = cycleFee m env := by
  simp [execute, ExecMsg.takesCoins]

/-- with coins attached the cycle message is refused (repair of D6) -/
theorem C13_no_funds (m : Market) (env : Env) (s : Nat) {f : List Coin} (hf : f ≠ []) :
    execute m env s f .feeCycle = .error .fundsAttached := by
  cases f with
  | nil => exact absurd rfl hf
  | cons a t => simp [execute, ExecMsg.takesCoins]

example : ([⟨1, 5⟩] : List Coin) ≠ [] := by decide

/-! ### 3. only the cycle message -/

/-- "only through the public cycle message": no other message — whatever its sender, funds or
    outcome — changes the denomination in force or its time stamp. -/
theorem C13_only_cycle {m m' : Market} {env : Env} {s : Nat} {f : List Coin} {msg : ExecMsg}
    {out : List OutMsg} (hne : msg ≠ .feeCycle) (h : execute m env s f msg = .ok (m', out)) :
    m'.feeKind = m.feeKind ∧ m'.feeSince = m.feeSince := by
  obtain ⟨h1, h2, _⟩ := execute_feeCfg hne h
  exact ⟨h1, h2⟩

example : ExecMsg.createBucket 8 ≠ .feeCycle := by decide
example : ∃ r, execute (instantiate 0 none) (exEnv 0) 2 [⟨2, 2000⟩] (.createBucket 8) = .ok r :=
  ⟨_, rfl⟩

/-! ## world level -/

/-! ### 4. frame and guard over `step` -/

/-- "only through the public cycle message": any operation that is not a direct `feeCycle`
    call — other marketplace messages, CW20 / CW721 sends (which run `receive` / `receiveNft`),
    registry messages, admin changes, the passage of time — leaves the denomination in force and
    its time stamp as they were. -/
theorem C13_step_frame {w : World} {op : Op} (hop : ∀ s f, op ≠ .exec s f .feeCycle) :
    (step w op).1.mkt.feeKind = w.mkt.feeKind ∧ (step w op).1.mkt.feeSince = w.mkt.feeSince := by
  unfold step
  cases ho : op.asExec with
  | some t =>
    obtain ⟨c, f, msg⟩ := t
    rcases stepF_market (fail := noFault) (w := w) ho with ⟨e, h⟩ | ⟨m', msgs, w2, hx, hm, _, h⟩
    · rw [h]; exact ⟨rfl, rfl⟩
    · rw [h]
      have hne : msg ≠ .feeCycle := by
        intro e; subst e
        exact hop c f (asExec_feeCycle ho)
      dsimp only
      rw [hm]
      exact C13_only_cycle hne hx
  | none =>
    rw [stepF_mkt_of_asExec_none ho]; exact ⟨rfl, rfl⟩

example : ∀ s f, Op.send20 3 1 5 none ≠ .exec s f .feeCycle := by intro s f h; cases h

/-- what a successful cycle transaction does to the world's marketplace record: the handler ran
    on the pre-state record and the pre-state clock -/
theorem C13_step_cycle_run {w : World} {s : Nat} {f : List Coin}
    (h : (step w (.exec s f .feeCycle)).2.ok = true) :
    f = [] ∧ cycleFee w.mkt w.env = .ok ((step w (.exec s f .feeCycle)).1.mkt, []) ∧
      (step w (.exec s f .feeCycle)).1.nowNs = w.nowNs := by
  unfold step at h ⊢
  rcases stepF_market (fail := noFault) (w := w) (op := .exec s f .feeCycle) rfl with
    ⟨e, hs⟩ | ⟨m', msgs, w2, hx, hm, hc, hs⟩
  · rw [hs] at h; simp [Outcome.fail] at h
  · rw [hs]
    obtain ⟨hf, hcy⟩ := execute_feeCycle_ok hx
    obtain ⟨rfl, _⟩ := C13_cycle_effect hcy
    dsimp only
    rw [hm]
    exact ⟨hf, hcy, hc.nowNs⟩

/-- "never when fewer than 604800 seconds have elapsed since the previous switch or
    instantiation": a cycle transaction that succeeds in world `w` finds strictly more than
    604800 s between `w`'s block time and the stored stamp.  Side condition: either `u64` bound
    (see the header). -/
theorem C13_step_cycle {w : World} {s : Nat} {f : List Coin}
    (hU : w.mkt.feeSince + WEEK ≤ U64MAX ∨ w.nowNs / NS ≤ U64MAX)
    (h : (step w (.exec s f .feeCycle)).2.ok = true) :
    w.nowNs / NS > w.mkt.feeSince + WEEK := by
  obtain ⟨_, hcy, _⟩ := C13_step_cycle_run h
  have := (C13_cycle_ok_iff w.mkt w.env).1 ⟨_, hcy⟩
  exact (sat_gt_iff hU).1 this

/-- "switches between the two configured denominations … a fee already recorded is unaffected":
    effect of a successful cycle transaction on the world. -/
theorem C13_step_cycle_effect {w : World} {s : Nat} {f : List Coin}
    (h : (step w (.exec s f .feeCycle)).2.ok = true) :
    (step w (.exec s f .feeCycle)).1.mkt.feeKind = w.mkt.feeKind.other ∧
    (step w (.exec s f .feeCycle)).1.mkt.feeSince = w.nowNs / NS ∧
    (step w (.exec s f .feeCycle)).1.mkt.listings = w.mkt.listings ∧
    (step w (.exec s f .feeCycle)).1.mkt.buckets = w.mkt.buckets := by
  obtain ⟨_, hcy, _⟩ := C13_step_cycle_run h
  obtain ⟨_, h2, _, h4, h5, h6, _⟩ := C13_cycle_effect hcy
  exact ⟨h2, h4, h5, h6⟩

/-- "once more than 604800 seconds have elapsed any account can switch it": the transaction of
    any sender `s` succeeds (no side condition). -/
theorem C13_step_can_cycle {w : World} (s : Nat) (h : w.nowNs / NS > w.mkt.feeSince + WEEK) :
    (step w (.exec s [] .feeCycle)).2.ok = true := by
  obtain ⟨⟨m', out⟩, hr⟩ := C13_cycle_can w.mkt w.env h
  obtain ⟨rfl, _⟩ := C13_cycle_effect hr
  simp [step, stepF, runMarket, C13_any_sender, hr, dispatchAll]

/-- "a fee already recorded is unaffected by later switches": whether it succeeds or not, a cycle
    transaction leaves every listing and bucket record as it was. -/
theorem C13_cycle_keeps_records (w : World) (s : Nat) (f : List Coin) :
    (step w (.exec s f .feeCycle)).1.mkt.listings = w.mkt.listings ∧
    (step w (.exec s f .feeCycle)).1.mkt.buckets = w.mkt.buckets := by
  cases hok : (step w (.exec s f .feeCycle)).2.ok with
  | true => exact ⟨(C13_step_cycle_effect hok).2.2.1, (C13_step_cycle_effect hok).2.2.2⟩
  | false =>
    unfold step at hok ⊢
    rcases stepF_market (fail := noFault) (w := w) (op := .exec s f .feeCycle) rfl with
      ⟨e, hs⟩ | ⟨m', msgs, w2, _, _, _, hs⟩
    · rw [hs]; exact ⟨rfl, rfl⟩
    · rw [hs] at hok; simp at hok

/-! ### 5. the stamp never runs ahead of the clock and never decreases -/

/-- one step: the stamp does not decrease and stays at or behind the clock -/
theorem C13_step_since {w : World} (op : Op) (hinv : w.mkt.feeSince ≤ w.nowNs / NS) :
    w.mkt.feeSince ≤ (step w op).1.mkt.feeSince ∧
    (step w op).1.mkt.feeSince ≤ (step w op).1.nowNs / NS := by
  by_cases hc : ∃ s f, op = .exec s f .feeCycle
  · obtain ⟨s, f, rfl⟩ := hc
    cases hok : (step w (.exec s f .feeCycle)).2.ok with
    | true =>
      obtain ⟨_, h2, _⟩ := C13_step_cycle_effect hok
      obtain ⟨_, _, hn⟩ := C13_step_cycle_run hok
      rw [h2, hn]
      exact ⟨hinv, Nat.le_refl _⟩
    | false =>
      unfold step at hok ⊢
      rcases stepF_market (fail := noFault) (w := w) (op := .exec s f .feeCycle) rfl with
        ⟨e, hs⟩ | ⟨m', msgs, w2, _, _, _, hs⟩
      · rw [hs]; exact ⟨Nat.le_refl _, hinv⟩
      · rw [hs] at hok; simp at hok
  · have hf := C13_step_frame (w := w) (op := op) (fun s f h => hc ⟨s, f, h⟩)
    rw [hf.2]
    refine ⟨Nat.le_refl _, ?_⟩
    unfold step
    rcases stepF_nowNs noFault w op with h | ⟨d, _, _, h⟩
    · rw [h]; exact hinv
    · rw [h]; exact Nat.le_trans hinv (Nat.div_le_div_right (Nat.le_add_right _ _))

/-- "since the previous switch or instantiation": along any history the stamp never decreases
    and never runs ahead of the clock (time only moves forward).  `instantiate` establishes the
    hypothesis. -/
theorem C13_monotone_since {w : World} (hinv : w.mkt.feeSince ≤ w.nowNs / NS) (ops : List Op) :
    w.mkt.feeSince ≤ (run w ops).mkt.feeSince ∧
    (run w ops).mkt.feeSince ≤ (run w ops).nowNs / NS := by
  induction ops generalizing w with
  | nil => exact ⟨Nat.le_refl _, hinv⟩
  | cons op ops ih =>
    obtain ⟨h1, h2⟩ := C13_step_since op hinv
    obtain ⟨h3, h4⟩ := ih h2
    exact ⟨Nat.le_trans h1 h3, h4⟩

/-- "never when fewer than 604800 seconds have elapsed since the previous switch": between two
    successful switches — whatever anybody does in between — strictly more than 604800 s of
    block time elapse.  `w` is the world of the first switch, `w₂` the world of the second. -/
theorem C13_between_switches {w : World} {s₁ s₂ : Nat} {f₁ f₂ : List Coin} (ops : List Op)
    (h₁ : (step w (.exec s₁ f₁ .feeCycle)).2.ok = true)
    (hU : (run (step w (.exec s₁ f₁ .feeCycle)).1 ops).mkt.feeSince + WEEK ≤ U64MAX ∨
          (run (step w (.exec s₁ f₁ .feeCycle)).1 ops).nowNs / NS ≤ U64MAX)
    (h₂ : (step (run (step w (.exec s₁ f₁ .feeCycle)).1 ops) (.exec s₂ f₂ .feeCycle)).2.ok = true) :
    (run (step w (.exec s₁ f₁ .feeCycle)).1 ops).nowNs / NS > w.nowNs / NS + WEEK := by
  have e1 := (C13_step_cycle_effect h₁).2.1
  have n1 := (C13_step_cycle_run h₁).2.2
  have hinv : (step w (.exec s₁ f₁ .feeCycle)).1.mkt.feeSince ≤
      (step w (.exec s₁ f₁ .feeCycle)).1.nowNs / NS := by rw [e1, n1]; exact Nat.le_refl _
  have hm := (C13_monotone_since hinv ops).1
  have h2 := C13_step_cycle hU h₂
  rw [e1] at hm
  omega

-- non-vacuity at world level: instantiated at t = 0, clock at 604801 s
private def exW (nowNs : Nat) : World :=
  { self := 100, pool := 101, regAddr := 102, junoD := 1, usdcD := 2, nowNs := nowNs, height := 1,
    mkt := instantiate 0 (some 102), reg := [], bank := [], cw20 := [], nft := [], contracts := [] }

example : (step (exW (604801 * NS)) (.exec 77 [] .feeCycle)).2.ok = true := by decide
example : (step (exW (604801 * NS)) (.exec 78 [] .feeCycle)).2.ok = true := by decide
example : (step (exW (604800 * NS)) (.exec 77 [] .feeCycle)).2.ok = false := by decide
example : (exW (604801 * NS)).mkt.feeSince + WEEK ≤ U64MAX ∨ (exW (604801 * NS)).nowNs / NS ≤ U64MAX :=
  .inl (by decide)
example : (exW (604801 * NS)).nowNs / NS > (exW (604801 * NS)).mkt.feeSince + WEEK := by decide
example : (exW (604801 * NS)).mkt.feeSince ≤ (exW (604801 * NS)).nowNs / NS := by decide
-- two switches, a week and a second apart (non-vacuity of `C13_between_switches`); the second
-- is refused when only a week has passed
example : (step (run (step (exW (604801 * NS)) (.exec 77 [] .feeCycle)).1 [.advance (604801 * NS) 1])
    (.exec 78 [] .feeCycle)).2.ok = true := by decide
example : (step (run (step (exW (604801 * NS)) (.exec 77 [] .feeCycle)).1 [.advance (604800 * NS) 1])
    (.exec 78 [] .feeCycle)).2.ok = false := by decide
example : (run (step (exW (604801 * NS)) (.exec 77 [] .feeCycle)).1 [.advance (604801 * NS) 1]).nowNs / NS
    ≤ U64MAX := by decide
example : (run (exW (604801 * NS)) [.exec 77 [] .feeCycle, .advance (604801 * NS) 1,
    .exec 78 [] .feeCycle]).mkt.feeKind = .juno := by decide

/-! ### 6. a purchase is charged in the denomination in force -/

/-- "Each purchase is charged in the denomination in force at that moment": an accepted `buy`
    re-stores the listing under `(buyer, lid)` and the paying bucket under `(seller, bid)`; the
    `fee` recorded on each is exactly what `calc_fee_coin` computes from the goods for the
    denomination `feeDenomOf env m.feeKind` of the *pre-state* — hence, when present, a coin of
    that denomination. -/
theorem C13_charged_now {m m' : Market} {env : Env} {buyer lid bid : Nat} {out : List OutMsg}
    (h : buy m env buyer lid bid = .ok (m', out)) :
    ∃ k l b l' b' lbal bbal,
      findById lid m.listings = some (k, l) ∧ alookup (buyer, bid) m.buckets = some b ∧
      findById lid m'.listings = some ((buyer, lid), l') ∧
      alookup (l.creator, bid) m'.buckets = some b' ∧
      calcFeeCoin (feeDenomOf env m.feeKind) l.forSale = some (l'.fee, lbal) ∧
      calcFeeCoin (feeDenomOf env m.feeKind) b.funds = some (b'.fee, bbal) ∧
      (∀ f, l'.fee = some f → f.key = feeDenomOf env m.feeKind) ∧
      (∀ f, b'.fee = some f → f.key = feeDenomOf env m.feeKind) := by
  obtain ⟨k, l, b, l', b', lbal, bbal, h1, h2, h3, h4, h5, h6⟩ := buy_fee_inv h
  exact ⟨k, l, b, l', b', lbal, bbal, h1, h2, h5, h6, h3, h4, calcFeeCoin_key' h3, calcFeeCoin_key' h4⟩

/-- "Each purchase is charged in the denomination in force at that moment", listing side: the
    record found under the purchased id afterwards carries, if any, a fee of the denomination
    that was in force when `buy` ran. -/
theorem C13_charged_listing {m m' : Market} {env : Env} {buyer lid bid : Nat} {out : List OutMsg}
    (h : buy m env buyer lid bid = .ok (m', out)) :
    ∀ l', findById lid m'.listings = some l' →
      ∀ f, l'.2.fee = some f → f.key = feeDenomOf env m.feeKind := by
  obtain ⟨k, l, b, l0, b0, lbal, bbal, _, _, h3, _, _, _, h7, _⟩ := C13_charged_now h
  intro l' hl' f hf
  rw [h3] at hl'
  cases hl'
  exact h7 f hf

/-- "Each purchase is charged in the denomination in force at that moment", bucket side: the
    bucket handed to the seller (the creator of the listing that was found under `lid`) carries,
    if any, a fee of the denomination that was in force when `buy` ran. -/
theorem C13_charged_bucket {m m' : Market} {env : Env} {buyer lid bid : Nat} {out : List OutMsg}
    (h : buy m env buyer lid bid = .ok (m', out)) {k : Nat × Nat} {l : Listing}
    (hl : findById lid m.listings = some (k, l)) :
    ∀ b', alookup (l.creator, bid) m'.buckets = some b' →
      ∀ f, b'.fee = some f → f.key = feeDenomOf env m.feeKind := by
  obtain ⟨k0, l0, b, l1, b0, lbal, bbal, h1, _, _, h4, _, _, _, h8⟩ := C13_charged_now h
  rw [hl] at h1
  cases h1
  intro b' hb' f hf
  rw [h4] at hb'
  cases hb'
  exact h8 f hf

-- non-vacuity: seller 1 offers 1000 of denom 1 (= JUNO) for 2000 of denom 2 (= USDC); buyer 2
-- pays from bucket 8
private def exL : Listing :=
  { creator := 1, id := 7, finalizedAt := some 0, expiresAt := some (600 * NS), status := .finalized,
    claimant := none, whitelist := none, forSale := ⟨[⟨1, 1000⟩], [], []⟩,
    ask := ⟨[⟨2, 2000⟩], [], []⟩, fee := none }

private def exM (k : FeeKind) : Market :=
  { listings := [((1, 7), exL)], buckets := [((2, 8), ⟨2, ⟨[⟨2, 2000⟩], [], []⟩, none⟩)],
    listingUsed := [7, 0], bucketUsed := [8, 0], feeKind := k, feeSince := 0, registry := some 102 }

private def feesAfter (r : HRes) : Option (Option Coin) × Option (Option Coin) :=
  match r with
  | .ok (m', _) => ((findById 7 m'.listings).map (·.2.fee), (alookup (1, 8) m'.buckets).map (·.fee))
  | .error _ => (none, none)

example : ∃ r, buy (exM .juno) (exEnv 5) 2 7 8 = .ok r := ⟨_, rfl⟩
example : findById 7 (exM .juno).listings = some ((1, 7), exL) := by decide
-- while JUNO is in force the fee is taken from the JUNO side, in JUNO (0.5 % of 1000) …
example : feesAfter (buy (exM .juno) (exEnv 5) 2 7 8) = (some (some ⟨1, 5⟩), some none) := by decide
-- … and while USDC is in force from the USDC side, in USDC (0.5 % of 2000)
example : feesAfter (buy (exM .usdc) (exEnv 5) 2 7 8) = (some none, some (some ⟨2, 10⟩)) := by decide

/-! ## axioms -/

#print axioms C13_cycle_ok_iff
#print axioms C13_cycle_iff
#print axioms C13_cycle_iff'
#print axioms C13_cycle_iff_ns
#print axioms C13_cycle_can
#print axioms C13_cycle_effect
#print axioms C13_two_denoms
#print axioms C13_instantiate
#print axioms C13_any_sender
#print axioms C13_no_funds
#print axioms C13_only_cycle
#print axioms C13_step_frame
#print axioms C13_step_cycle_run
#print axioms C13_step_cycle
#print axioms C13_step_cycle_effect
#print axioms C13_step_can_cycle
#print axioms C13_cycle_keeps_records
#print axioms C13_step_since
#print axioms C13_monotone_since
#print axioms C13_between_switches
#print axioms C13_charged_now
#print axioms C13_charged_listing
#print axioms C13_charged_bucket

end Fuzion
