/-
  Fuzion.Props.C05Closed — C05 ("Deposits and payouts move exactly the stated assets to the right
  party") for every state reached from a freshly instantiated marketplace.

  The payout theorems of Props/C05.lean (`C05_payout_delete`, `C05_payout_purchased`, `C05_payout`,
  `C05_refund_no_fee`, `C05_others_untouched`) assume `IdsInv` and `WFInv` of the state in which
  the payout happens.  Here these are discharged from reachability (`C09_reach`, `C12_reach`):
  `w0.mkt = instantiate t r` and the payout happens in `run w0 ops`, `ops` arbitrary.

  What remains is about the *input* and the *configuration*: the account `x` that signs the payout
  is neither the marketplace contract nor the community-pool account, and the pool account is not
  the marketplace (`w0.pool ≠ w0.self`).  These three are stated on the initial world `w0` — no
  operation changes `self` or `pool` (`closed_run_addrs`).  They are needed: the ledger deltas of
  `PaidOut` are stated per account and coincide when two of the three roles are played by one
  account.

  The deposit theorems (`C05_deposit_native`, `_cw20`, `_nft`, `_other_keys`, `_own_key`) and
  `C05_payout_bucket`, `C05_refund_bucket_no_fee` have no invariant hypothesis and are not restated.
-/
import Fuzion.Props.C05
import Fuzion.Lemmas.ClosedLemmas
namespace Fuzion

/-! ### sample reachable states: `C05Ex.at_ k = run AcctEx.w0 (AcctEx.ops.take k)` -/

example : AcctEx.w0.mkt = instantiate 0 (some 102) := rfl
example (k : Nat) : C05Ex.at_ k = run AcctEx.w0 (AcctEx.ops.take k) := rfl

section payout
variable {w0 w' : World} {t : Nat} {r : Option Nat} {o : Outcome} {x id : Nat}

/-- "Every successful … listing deletion … removes the record and delivers exactly its recorded
    assets to its owner …  Refunds of records that never traded carry no fee", in every reachable
    state: the listing `l` was filed under `(x, id)`, created by `x`, unclaimed and not closed; it
    carries **no fee** and the payout is `PaidOut … l.forSale none`: nothing goes to the pool. -/
theorem C05_payout_delete_reach (h0 : w0.mkt = instantiate t r) (ops : List Op)
    (hs : step (run w0 ops) (.exec x [] (.deleteListing id)) = (w', o)) (hok : o.ok = true)
    (hx : x ≠ w0.self) (hxp : x ≠ w0.pool) (hp : w0.pool ≠ w0.self) :
    ∃ l, alookup (x, id) (run w0 ops).mkt.listings = some l ∧ l.creator = x ∧ l.claimant = none ∧
      l.status ≠ .closed ∧ l.fee = none ∧
      o.msgs = sendTokens x l.forSale ∧
      w'.mkt = { (run w0 ops).mkt with listings := aerase (x, id) (run w0 ops).mkt.listings } ∧
      alookup (x, id) w'.mkt.listings = none ∧ findById id w'.mkt.listings = none ∧
      (∀ k, k ≠ (x, id) → alookup k w'.mkt.listings = alookup k (run w0 ops).mkt.listings) ∧
      PaidOut (run w0 ops) w' x l.forSale none := by
  obtain ⟨e1, e2⟩ := closed_run_addrs w0 ops
  exact C05_payout_delete (closed_ids h0 ops) (closed_wf h0 ops) hs hok (by rw [e1]; exact hx)
    (by rw [e2]; exact hxp) (by rw [e1, e2]; exact hp)

/-- non-vacuity: after three operations of the sample history seller 1 deletes the preparing
    listing 3; 1 is neither the marketplace (100) nor the pool (101) -/
example : (step (run AcctEx.w0 (AcctEx.ops.take 3)) (.exec 1 [] (.deleteListing 3))).2.ok = true ∧
    (1 : Nat) ≠ AcctEx.w0.self ∧ (1 : Nat) ≠ AcctEx.w0.pool ∧ AcctEx.w0.pool ≠ AcctEx.w0.self := by
  decide

/-- "… or purchased-listing withdrawal removes the record and delivers exactly its recorded assets
    to its owner plus exactly its recorded fee to the community pool", in every reachable state:
    the sold listing `l` was filed under `(x, id)` with `x` as its buyer (claimant and creator); the
    goods go to `x`, the fee recorded at the purchase goes to the pool. -/
theorem C05_payout_purchased_reach (h0 : w0.mkt = instantiate t r) (ops : List Op)
    (hs : step (run w0 ops) (.exec x [] (.withdrawPurchased id)) = (w', o)) (hok : o.ok = true)
    (hx : x ≠ w0.self) (hxp : x ≠ w0.pool) (hp : w0.pool ≠ w0.self) :
    ∃ l, alookup (x, id) (run w0 ops).mkt.listings = some l ∧ l.creator = x ∧
      l.claimant = some x ∧ l.status = .closed ∧
      o.msgs = withdrawMsgs (run w0 ops).self x l.forSale l.fee ∧
      w'.mkt = { (run w0 ops).mkt with listings := aerase (x, id) (run w0 ops).mkt.listings } ∧
      alookup (x, id) w'.mkt.listings = none ∧ findById id w'.mkt.listings = none ∧
      (∀ k, k ≠ (x, id) → alookup k w'.mkt.listings = alookup k (run w0 ops).mkt.listings) ∧
      PaidOut (run w0 ops) w' x l.forSale l.fee := by
  obtain ⟨e1, e2⟩ := closed_run_addrs w0 ops
  exact C05_payout_purchased (closed_ids h0 ops) (closed_wf h0 ops) hs hok (by rw [e1]; exact hx)
    (by rw [e2]; exact hxp) (by rw [e1, e2]; exact hp)

/-- non-vacuity: after eight operations (creation, two top-ups, finalization, bucket, registry
    update, purchase, one second) buyer 2 withdraws the purchased listing 3 -/
example : (step (run AcctEx.w0 (AcctEx.ops.take 8)) (.exec 2 [] (.withdrawPurchased 3))).2.ok = true ∧
    (2 : Nat) ≠ AcctEx.w0.self ∧ (2 : Nat) ≠ AcctEx.w0.pool ∧ AcctEx.w0.pool ≠ AcctEx.w0.self := by
  decide

/-- "Every successful bucket removal, listing deletion or purchased-listing withdrawal removes the
    record and delivers exactly its recorded assets to its owner plus exactly its recorded fee to
    the community pool": the three payout theorems in one statement, in every reachable state. -/
theorem C05_payout_reach (h0 : w0.mkt = instantiate t r) (ops : List Op) (hok : o.ok = true)
    (hx : x ≠ w0.self) (hxp : x ≠ w0.pool) (hp : w0.pool ≠ w0.self) :
    (step (run w0 ops) (.exec x [] (.removeBucket id)) = (w', o) →
      ∃ b, alookup (x, id) (run w0 ops).mkt.buckets = some b ∧ b.owner = x ∧
        alookup (x, id) w'.mkt.buckets = none ∧ PaidOut (run w0 ops) w' x b.funds b.fee) ∧
    (step (run w0 ops) (.exec x [] (.deleteListing id)) = (w', o) →
      ∃ l, alookup (x, id) (run w0 ops).mkt.listings = some l ∧ l.creator = x ∧
        alookup (x, id) w'.mkt.listings = none ∧ findById id w'.mkt.listings = none ∧
        PaidOut (run w0 ops) w' x l.forSale none) ∧
    (step (run w0 ops) (.exec x [] (.withdrawPurchased id)) = (w', o) →
      ∃ l, alookup (x, id) (run w0 ops).mkt.listings = some l ∧ l.claimant = some x ∧
        alookup (x, id) w'.mkt.listings = none ∧ findById id w'.mkt.listings = none ∧
        PaidOut (run w0 ops) w' x l.forSale l.fee) := by
  obtain ⟨e1, e2⟩ := closed_run_addrs w0 ops
  exact C05_payout (closed_ids h0 ops) (closed_wf h0 ops) hok (by rw [e1]; exact hx)
    (by rw [e2]; exact hxp) (by rw [e1, e2]; exact hp)

/-- non-vacuity: after nine operations seller 1 removes bucket 8 (received in the trade) -/
example : (step (run AcctEx.w0 (AcctEx.ops.take 9)) (.exec 1 [] (.removeBucket 8))).2.ok = true ∧
    (1 : Nat) ≠ AcctEx.w0.self ∧ (1 : Nat) ≠ AcctEx.w0.pool ∧ AcctEx.w0.pool ≠ AcctEx.w0.self := by
  decide

end payout

/-- "Refunds of records that never traded carry no fee", in every reachable state: (a) only a sold
    (closed) listing can carry a fee, so a preparing or finalized listing has none; (b) an accepted
    `DeleteListing` emits no fund-community-pool message, and the listing it refunds has no fee
    recorded; (c) for any payout with no recorded fee the community pool's balance is exactly
    unchanged in every denomination and the marketplace loses exactly the goods. -/
theorem C05_refund_no_fee_reach {w0 : World} {t : Nat} {r : Option Nat}
    (h0 : w0.mkt = instantiate t r) (ops : List Op) :
    (∀ k l, alookup k (run w0 ops).mkt.listings = some l → l.status ≠ .closed → l.fee = none) ∧
    (∀ env s id m' out, deleteListing (run w0 ops).mkt env s id = .ok (m', out) →
      (∀ dep c, OutMsg.fundPool dep c ∉ out) ∧
      ∃ l, alookup (s, id) (run w0 ops).mkt.listings = some l ∧ l.fee = none) ∧
    (∀ (w w' : World) x g, PaidOut w w' x g none →
      (∀ d, lget w'.bank (w.pool, d) = lget w.bank (w.pool, d)) ∧
      (∀ d, lget w'.bank (w.self, d) + coinAmt g.native d = lget w.bank (w.self, d))) :=
  C05_refund_no_fee (closed_ids h0 ops) (closed_wf0 h0 ops)

/-- non-vacuity: the state after three operations holds the preparing listing 3, whose deletion
    is accepted -/
example : (run AcctEx.w0 (AcctEx.ops.take 3)).mkt.listings.map (fun p => (p.1, p.2.status)) =
      [((1, 3), .preparing)] ∧
    C12Ex.errOf (deleteListing (run AcctEx.w0 (AcctEx.ops.take 3)).mkt
      (run AcctEx.w0 (AcctEx.ops.take 3)).env 1 3) = none := by decide

/-- "… and no other account's balance or NFT changes", in every reachable state: in every deposit
    step and every payout step signed by `x` — accepted or not — every account `y` other than `x`,
    the marketplace and the community pool is exactly as before: all bank balances, all token
    balances, and the set of NFTs it owns (equalities, not inequalities). -/
theorem C05_others_untouched_reach {w0 : World} {t : Nat} {r : Option Nat}
    (h0 : w0.mkt = instantiate t r) (ops : List Op) {x y : Nat}
    (hx : x ≠ w0.self) (hxp : x ≠ w0.pool) (hp : w0.pool ≠ w0.self)
    (hy : y ≠ x) (hys : y ≠ w0.self) (hyp : y ≠ w0.pool) :
    (∀ funds i, Untouched (run w0 ops) (step (run w0 ops) (.exec x funds (Inner.toExec i))).1 y) ∧
    (∀ tk amount inner, Untouched (run w0 ops) (step (run w0 ops) (.send20 tk x amount inner)).1 y) ∧
    (∀ c tid inner, Untouched (run w0 ops) (step (run w0 ops) (.send721 c x tid inner)).1 y) ∧
    (∀ id, Untouched (run w0 ops) (step (run w0 ops) (.exec x [] (.removeBucket id))).1 y) ∧
    (∀ id, Untouched (run w0 ops) (step (run w0 ops) (.exec x [] (.deleteListing id))).1 y) ∧
    (∀ id, Untouched (run w0 ops) (step (run w0 ops) (.exec x [] (.withdrawPurchased id))).1 y) := by
  obtain ⟨e1, e2⟩ := closed_run_addrs w0 ops
  exact C05_others_untouched (closed_ids h0 ops) (closed_wf h0 ops) (by rw [e1]; exact hx)
    (by rw [e2]; exact hxp) (by rw [e1, e2]; exact hp) hy (by rw [e1]; exact hys)
    (by rw [e2]; exact hyp)

/-- non-vacuity: `x = 2` (the buyer) and the bystander `y = 5` in the sample deployment; and the
    theorem applied: 5's 30 coins of denom 1 and 77 units of token 50 are where they were after
    2's withdrawal in the state after eight operations -/
example : (2 : Nat) ≠ AcctEx.w0.self ∧ (2 : Nat) ≠ AcctEx.w0.pool ∧ AcctEx.w0.pool ≠ AcctEx.w0.self ∧
    (5 : Nat) ≠ 2 ∧ (5 : Nat) ≠ AcctEx.w0.self ∧ (5 : Nat) ≠ AcctEx.w0.pool := by decide
example : Untouched (run AcctEx.w0 (AcctEx.ops.take 8))
    (step (run AcctEx.w0 (AcctEx.ops.take 8)) (.exec 2 [] (.withdrawPurchased 3))).1 5 :=
  (C05_others_untouched_reach (w0 := AcctEx.w0) rfl (AcctEx.ops.take 8) (x := 2) (y := 5)
    (by decide) (by decide) (by decide) (by decide) (by decide) (by decide)).2.2.2.2.2 3
example : lget (step (run AcctEx.w0 (AcctEx.ops.take 8)) (.exec 2 [] (.withdrawPurchased 3))).1.bank (5, 1)
      = 30 ∧
    lget (step (run AcctEx.w0 (AcctEx.ops.take 8)) (.exec 2 [] (.withdrawPurchased 3))).1.cw20 (50, 5)
      = 77 := by decide

/-! ## axioms -/

#print axioms C05_payout_delete_reach
#print axioms C05_payout_purchased_reach
#print axioms C05_payout_reach
#print axioms C05_refund_no_fee_reach
#print axioms C05_others_untouched_reach

end Fuzion
