/-
  Fuzion.Props.Summary2 — the specification in one place, SECOND HALF.

  Props/Summary.lean (`guarantees_from_deployment : Deployed w0 → CleanHistory w0 ops →
  MarketGuarantees w0 ops`) covers C01–C04, C07–C10, C12, C13, C19.  This file adds the properties it
  leaves out — C05, C06, C11, C14, C15, C16, C17 and C18 — in the same style: for EVERY history `ops`
  from a freshly deployed marketplace `w0` the reached state `𝐰 = run w0 ops` enjoys all of
  `TradeGuarantees` at once: `guarantees2_from_deployment`.  This file proves nothing new: every field
  is discharged by a theorem of the other Props files (named in the proof, in field order); the two
  helpers `Summary2_payout_bucket_reach` and `Summary2_exit_after_fault_reach` only move an existing
  theorem to `𝐰` (address bookkeeping / `runF_append`).
  Property texts: /verif/properties.jsonl.  Reading guide: `step w op = (w', outcome)` is one
  transaction, `outcome.ok` its success flag, `outcome.msgs` the messages it emitted; `buy m env …` is
  the purchase handler the transaction `.exec buyer [] (.buy lid bid)` runs; `stepF fail w op` is the
  transaction with the dispatch of its `k`-th message forced to fail whenever `fail k`;
  `runF w fops` folds `stepF` over a history with faults, `survivors w fops` are its accepted
  operations (Props/C15Reach.lean).

  Hypotheses beyond `Deployed` and `CleanHistory` (both input-side):
  * `hfit : ∀ op ∈ ops, op.fits128` — every amount an operation carries is a `Uint128` (the Rust type
    of those fields; see the header of Props/C06Closed.lean).  Used by C06 and the royalty half of C17.
  * `hinst : ∃ t r, w0.mkt = instantiate t r ∧ t ≤ w0.nowNs` — the marketplace was not instantiated
    in the future of the initial block time (the model leaves the instantiation time free).  Used by
    the fee query of C16 only.
  Of `CleanHistory` only `clock` (C16 fee query) and `notSelf` / `unforged` (C15 `exitAfterFault`) are
  used; the C18 fields hold for ANY history — in particular the history need NOT be `unforged`.

  Left out: C05 deposits (`C05_deposit_*`, no invariant hypothesis), C06 `C06_buy_effect_reach` /
  `C06_payout_total_reach` (consequences of the closed form stated here), C13 "between two switches",
  C14 lookups (`C14_single`, `C14_multi`: definitional), C16 whitelist query
  (`C16_whitelist_precise_reach`), C18 as stated in the property text (FALSE of the code, finding
  `Props/C18.lean`; the fields here say what IS true).
-/
import Fuzion.Props.Summary
import Fuzion.Props.C05Closed
import Fuzion.Props.C06Closed
import Fuzion.Props.C11Reach
import Fuzion.Props.C14
import Fuzion.Props.C15Reach
import Fuzion.Props.C16Closed
import Fuzion.Props.C17Reach
import Fuzion.Props.C18Reach
namespace Fuzion

/-! ## two helpers: an existing theorem, moved to the reached state -/

/-- `C05_payout_bucket` (Props/C05.lean; no invariant hypothesis) in a reached state, with the side
    conditions on the signer stated for the addresses of the initial world (`closed_run_addrs`). -/
theorem Summary2_payout_bucket_reach (w0 : World) (ops : List Op) {w' : World} {o : Outcome}
    {x id : Nat}
    (hs : step (run w0 ops) (.exec x [] (.removeBucket id)) = (w', o)) (hok : o.ok = true)
    (hx : x ≠ w0.self) (hxp : x ≠ w0.pool) (hp : w0.pool ≠ w0.self) :
    ∃ b, alookup (x, id) (run w0 ops).mkt.buckets = some b ∧ b.owner = x ∧
      o.msgs = withdrawMsgs (run w0 ops).self x b.funds b.fee ∧
      w'.mkt = { (run w0 ops).mkt with buckets := aerase (x, id) (run w0 ops).mkt.buckets } ∧
      alookup (x, id) w'.mkt.buckets = none ∧
      (∀ k, k ≠ (x, id) → alookup k w'.mkt.buckets = alookup k (run w0 ops).mkt.buckets) ∧
      PaidOut (run w0 ops) w' x b.funds b.fee := by
  obtain ⟨e1, e2⟩ := closed_run_addrs w0 ops
  exact C05_payout_bucket hs hok (by rw [e1]; exact hx) (by rw [e2]; exact hxp)
    (by rw [e1, e2]; exact hp)

/-- `C15_exit_after_fault_reach` for a history that is fault-free up to `run w0 ops` and continues
    with ANY history with faults `fops` (`runF w0 (noFaults ops ++ fops) = runF (run w0 ops) fops`). -/
theorem Summary2_exit_after_fault_reach {w0 : World} (hd : Deployed w0) (ops : List Op)
    (hops : ∀ op ∈ ops, op.avoids w0.self ∧ op.unforged) (fops : List FOp)
    (hfops : ∀ p ∈ fops, p.2.avoids w0.self ∧ p.2.unforged) (fail : Nat → Bool) :
    (∀ k l, (k, l) ∈ (runF (run w0 ops) fops).mkt.listings →
      l.exitable (runF (run w0 ops) fops).nowNs →
      (stepF fail (runF (run w0 ops) fops) (.exec l.creator [] l.exitMsg)).2.ok = false →
      (∃ i, i < (step (runF (run w0 ops) fops) (.exec l.creator [] l.exitMsg)).2.msgs.length ∧
        fail i = true) ∧
      (stepF fail (runF (run w0 ops) fops) (.exec l.creator [] l.exitMsg)).1 =
        runF (run w0 ops) fops ∧
      (k, l) ∈ (stepF fail (runF (run w0 ops) fops) (.exec l.creator [] l.exitMsg)).1.mkt.listings ∧
      (step (stepF fail (runF (run w0 ops) fops) (.exec l.creator [] l.exitMsg)).1
        (.exec l.creator [] l.exitMsg)).2.ok = true) ∧
    (∀ k b, (k, b) ∈ (runF (run w0 ops) fops).mkt.buckets →
      (stepF fail (runF (run w0 ops) fops) (.exec b.owner [] (.removeBucket k.2))).2.ok = false →
      (∃ i, i < (step (runF (run w0 ops) fops) (.exec b.owner [] (.removeBucket k.2))).2.msgs.length ∧
        fail i = true) ∧
      (stepF fail (runF (run w0 ops) fops) (.exec b.owner [] (.removeBucket k.2))).1 =
        runF (run w0 ops) fops ∧
      (k, b) ∈ (stepF fail (runF (run w0 ops) fops)
        (.exec b.owner [] (.removeBucket k.2))).1.mkt.buckets ∧
      (step (stepF fail (runF (run w0 ops) fops) (.exec b.owner [] (.removeBucket k.2))).1
        (.exec b.owner [] (.removeBucket k.2))).2.ok = true) := by
  have hall : ∀ p ∈ noFaults ops ++ fops, p.2.avoids w0.self ∧ p.2.unforged := by
    intro p hp
    rcases List.mem_append.1 hp with hp | hp
    · obtain ⟨op, hop, rfl⟩ := List.mem_map.1 hp
      exact hops op hop
    · exact hfops p hp
  have h := C15_exit_after_fault_reach hd (noFaults ops ++ fops) hall fail
  rw [runF_append, runF_noFaults] at h
  exact h

section
variable (w0 : World) (ops : List Op)
/-- the state reached by the history -/
local notation "𝐰" => run w0 ops

/-- C18, what IS true: the guarantees about forged hook calls from the reached state `𝐰 = run w0 ops`.
    They hold for ANY history `ops` from a deployment (`Summary2_forged_from_deployment` below needs no
    `CleanHistory`): in particular `ops` itself may contain forged hook calls. -/
structure ForgeGuarantees : Prop where
  /-- C18 "A third-party contract cannot alter … someone else's escrow" — what IS true of ONE
      accepted forged hook call (`Receive` / `ReceiveNft` called directly by `caller` naming an
      arbitrary `sender`): no coins, no payout, nothing but the marketplace record changes; exactly
      one storage key, filed under the named sender, is written; every existing record keeps every
      field, its native coins, every CW20 amount other than token `caller` and all its NFTs — the only
      difference is an entry keyed by the caller's own address, and only on a bucket or a listing
      still in preparation; a new record is a bucket / preparing listing holding `caller` assets only -/
  forgedConfined : ∀ op caller funds sender x inner,
    (op = .exec caller funds (.receive sender x inner) ∨
      op = .exec caller funds (.receiveNft sender x inner)) →
    (step 𝐰 op).2.ok = true →
    funds = [] ∧ (step 𝐰 op).2.msgs = [] ∧
    (step 𝐰 op).1 = { 𝐰 with mkt := (step 𝐰 op).1.mkt } ∧
    ∃ user, sender = .valid user ∧
      (∃ k0 : Nat × Nat, k0.1 = user ∧
        (∀ k, k ≠ k0 → alookup k (step 𝐰 op).1.mkt.listings = alookup k 𝐰.mkt.listings ∧
          alookup k (step 𝐰 op).1.mkt.buckets = alookup k 𝐰.mkt.buckets) ∧
        ((step 𝐰 op).1.mkt.listings = 𝐰.mkt.listings ∨
          (step 𝐰 op).1.mkt.buckets = 𝐰.mkt.buckets)) ∧
      (∀ k l, alookup k 𝐰.mkt.listings = some l →
        ∃ l', alookup k (step 𝐰 op).1.mkt.listings = some l' ∧
        (l.status ≠ .preparing → l' = l) ∧
        l'.creator = l.creator ∧ l'.id = l.id ∧ l'.status = l.status ∧ l'.ask = l.ask ∧
        l'.whitelist = l.whitelist ∧ l'.claimant = l.claimant ∧ l'.finalizedAt = l.finalizedAt ∧
        l'.expiresAt = l.expiresAt ∧ l'.fee = l.fee ∧ l'.forSale.native = l.forSale.native ∧
        (∀ t, t ≠ caller → coinAmt l'.forSale.cw20 t = coinAmt l.forSale.cw20 t) ∧
        coinAmt l.forSale.cw20 caller ≤ coinAmt l'.forSale.cw20 caller ∧
        (l'.forSale.nfts = l.forSale.nfts ∨ l'.forSale.nfts = l.forSale.nfts ++ [⟨caller, x⟩])) ∧
      (∀ k b, alookup k 𝐰.mkt.buckets = some b →
        ∃ b', alookup k (step 𝐰 op).1.mkt.buckets = some b' ∧
        b'.owner = b.owner ∧ b'.fee = b.fee ∧ b'.funds.native = b.funds.native ∧
        (∀ t, t ≠ caller → coinAmt b'.funds.cw20 t = coinAmt b.funds.cw20 t) ∧
        coinAmt b.funds.cw20 caller ≤ coinAmt b'.funds.cw20 caller ∧
        (b'.funds.nfts = b.funds.nfts ∨ b'.funds.nfts = b.funds.nfts ++ [⟨caller, x⟩])) ∧
      (∀ k l', alookup k 𝐰.mkt.listings = none →
        alookup k (step 𝐰 op).1.mkt.listings = some l' →
        k.1 = user ∧ l'.creator = user ∧ l'.id = k.2 ∧ l'.status = .preparing ∧
        l'.forSale.native = [] ∧ (∀ c ∈ l'.forSale.cw20, c.key = caller) ∧
        (∀ n ∈ l'.forSale.nfts, n.coll = caller)) ∧
      (∀ k b', alookup k 𝐰.mkt.buckets = none →
        alookup k (step 𝐰 op).1.mkt.buckets = some b' →
        k.1 = user ∧ b'.owner = user ∧ b'.fee = none ∧
        b'.funds.native = [] ∧ (∀ c ∈ b'.funds.cw20, c.key = caller) ∧
        (∀ n ∈ b'.funds.nfts, n.coll = caller))
  /-- C18 finalized listings are immune: after ANY list of direct hook calls (accepted or refused, any
      caller, any named sender, any inner message) every listing that is finalized or sold is stored
      under the same key as the very same record — goods, ask, whitelist, expiration, status, buyer,
      fee -/
  finalizedImmune : ∀ ops', (∀ o ∈ ops', o.hookCaller ≠ none) →
    ∀ k l, alookup k 𝐰.mkt.listings = some l → l.status ≠ .preparing →
      alookup k (run 𝐰 ops').mkt.listings = some l
  /-- C18 "cannot … make unwithdrawable" is FALSE (finding), but what the victim deposited is never
      reduced, removed or re-keyed: after any list `ops'` of direct hook calls every record is still
      there under its key, with the same owner, status and native coins, exactly the same amount of
      every CW20 token and exactly the same NFTs of every collection that is NOT the address of one
      of the calling contracts (`forgersOf ops'`) -/
  forgersOnly : ∀ ops', (∀ o ∈ ops', o.hookCaller ≠ none) →
    (∀ k l, alookup k 𝐰.mkt.listings = some l →
      ∃ l', alookup k (run 𝐰 ops').mkt.listings = some l' ∧
      l'.creator = l.creator ∧ l'.status = l.status ∧ l'.forSale.native = l.forSale.native ∧
      (∀ t, t ∉ forgersOf ops' → coinAmt l'.forSale.cw20 t = coinAmt l.forSale.cw20 t) ∧
      (∀ n : Nft, n.coll ∉ forgersOf ops' → (n ∈ l'.forSale.nfts ↔ n ∈ l.forSale.nfts))) ∧
    (∀ k b, alookup k 𝐰.mkt.buckets = some b →
      ∃ b', alookup k (run 𝐰 ops').mkt.buckets = some b' ∧
      b'.owner = b.owner ∧ b'.funds.native = b.funds.native ∧
      (∀ t, t ∉ forgersOf ops' → coinAmt b'.funds.cw20 t = coinAmt b.funds.cw20 t) ∧
      (∀ n : Nft, n.coll ∉ forgersOf ops' → (n ∈ b'.funds.nfts ↔ n ∈ b.funds.nfts)))
  /-- C18 accounts cannot forge: an address that is not a contract at deployment is refused by both
      hooks, whatever sender it names, and the world is unchanged -/
  accountsCannotForge : ∀ op acct funds sender x inner, w0.kindOf acct = none →
    (op = .exec acct funds (.receive sender x inner) ∨
      op = .exec acct funds (.receiveNft sender x inner)) →
    (step 𝐰 op).2.ok = false ∧ (step 𝐰 op).1 = 𝐰

/-- The guarantees about ANY next transaction from the reached state `𝐰 = run w0 ops` (second half:
    payouts, the price of a trade, the royalty registry, faults, queries, forged hook calls). -/
structure TradeGuarantees : Prop extends ForgeGuarantees w0 ops where
  -- ### C05 — payouts move exactly the recorded assets
  /-- C05 "Every successful … listing deletion … removes the record and delivers exactly its recorded
      assets to its owner …  Refunds of records that never traded carry no fee": the refunded listing
      carries no fee and the ledgers move by `PaidOut 𝐰 w' x l.forSale none` — the signer gains the
      goods, the marketplace loses them, the pool and everybody else keep what they had -/
  deletePaysRecord : ∀ x id w' o, step 𝐰 (.exec x [] (.deleteListing id)) = (w', o) → o.ok = true →
    x ≠ w0.self → x ≠ w0.pool →
    ∃ l, alookup (x, id) 𝐰.mkt.listings = some l ∧ l.creator = x ∧ l.claimant = none ∧
      l.status ≠ .closed ∧ l.fee = none ∧
      o.msgs = sendTokens x l.forSale ∧
      w'.mkt = { 𝐰.mkt with listings := aerase (x, id) 𝐰.mkt.listings } ∧
      alookup (x, id) w'.mkt.listings = none ∧ findById id w'.mkt.listings = none ∧
      (∀ k, k ≠ (x, id) → alookup k w'.mkt.listings = alookup k 𝐰.mkt.listings) ∧
      PaidOut 𝐰 w' x l.forSale none
  /-- C05 "… or purchased-listing withdrawal removes the record and delivers exactly its recorded
      assets to its owner plus exactly its recorded fee to the community pool" -/
  withdrawPaysRecord : ∀ x id w' o, step 𝐰 (.exec x [] (.withdrawPurchased id)) = (w', o) →
    o.ok = true → x ≠ w0.self → x ≠ w0.pool →
    ∃ l, alookup (x, id) 𝐰.mkt.listings = some l ∧ l.creator = x ∧
      l.claimant = some x ∧ l.status = .closed ∧
      o.msgs = withdrawMsgs 𝐰.self x l.forSale l.fee ∧
      w'.mkt = { 𝐰.mkt with listings := aerase (x, id) 𝐰.mkt.listings } ∧
      alookup (x, id) w'.mkt.listings = none ∧ findById id w'.mkt.listings = none ∧
      (∀ k, k ≠ (x, id) → alookup k w'.mkt.listings = alookup k 𝐰.mkt.listings) ∧
      PaidOut 𝐰 w' x l.forSale l.fee
  /-- C05 "Every successful bucket removal … removes the record and delivers exactly its recorded
      assets to its owner plus exactly its recorded fee to the community pool" -/
  removeBucketPaysRecord : ∀ x id w' o, step 𝐰 (.exec x [] (.removeBucket id)) = (w', o) →
    o.ok = true → x ≠ w0.self → x ≠ w0.pool →
    ∃ b, alookup (x, id) 𝐰.mkt.buckets = some b ∧ b.owner = x ∧
      o.msgs = withdrawMsgs 𝐰.self x b.funds b.fee ∧
      w'.mkt = { 𝐰.mkt with buckets := aerase (x, id) 𝐰.mkt.buckets } ∧
      alookup (x, id) w'.mkt.buckets = none ∧
      (∀ k, k ≠ (x, id) → alookup k w'.mkt.buckets = alookup k 𝐰.mkt.buckets) ∧
      PaidOut 𝐰 w' x b.funds b.fee
  /-- C05 "Refunds of records that never traded carry no fee": (a) only a sold listing can carry a
      fee; (b) an accepted `DeleteListing` emits no fund-community-pool message and refunds a listing
      without fee; (c) a payout without fee leaves the pool's balance exactly unchanged -/
  refundNoFee :
    (∀ k l, alookup k 𝐰.mkt.listings = some l → l.status ≠ .closed → l.fee = none) ∧
    (∀ env s id m' out, deleteListing 𝐰.mkt env s id = .ok (m', out) →
      (∀ dep c, OutMsg.fundPool dep c ∉ out) ∧
      ∃ l, alookup (s, id) 𝐰.mkt.listings = some l ∧ l.fee = none) ∧
    (∀ (w w' : World) x g, PaidOut w w' x g none →
      (∀ d, lget w'.bank (w.pool, d) = lget w.bank (w.pool, d)) ∧
      (∀ d, lget w'.bank (w.self, d) + coinAmt g.native d = lget w.bank (w.self, d)))
  /-- C05 "… and no other account's balance or NFT changes": in every deposit and payout step signed
      by `x` — accepted or not — every account `y` other than `x`, the marketplace and the pool keeps
      all bank balances, all token balances and exactly its NFTs -/
  othersUntouched : ∀ x y, x ≠ w0.self → x ≠ w0.pool → y ≠ x → y ≠ w0.self → y ≠ w0.pool →
    (∀ funds i, Untouched 𝐰 (step 𝐰 (.exec x funds (Inner.toExec i))).1 y) ∧
    (∀ tk amount inner, Untouched 𝐰 (step 𝐰 (.send20 tk x amount inner)).1 y) ∧
    (∀ c tid inner, Untouched 𝐰 (step 𝐰 (.send721 c x tid inner)).1 y) ∧
    (∀ id, Untouched 𝐰 (step 𝐰 (.exec x [] (.removeBucket id))).1 y) ∧
    (∀ id, Untouched 𝐰 (step 𝐰 (.exec x [] (.deleteListing id))).1 y) ∧
    (∀ id, Untouched 𝐰 (step 𝐰 (.exec x [] (.withdrawPurchased id))).1 y)
  -- ### C06 — what a trade costs
  /-- C06 "At purchase each side is reduced by exactly floor(0.5%) of its amount in the current fee
      denomination … and then, for every distinct royalty-registered collection … by
      floor(bps/10000 x post-fee amount) of every fungible asset on that side": an accepted `buy`
      stores exactly the declaratively specified records (`tradedListing`, `tradedBucket`: fee
      `feeOf`, contents `afterRoyalty entries (afterFee fd contents)`) and emits exactly the specified
      messages; both rate sums are at most 50 % -/
  buyClosedForm : ∀ env buyer lid bid fd m' out, fd = feeDenomOf env 𝐰.mkt.feeKind →
    buy 𝐰.mkt env buyer lid bid = .ok (m', out) →
    ∃ k l b, findById lid 𝐰.mkt.listings = some (k, l) ∧
      alookup (buyer, bid) 𝐰.mkt.buckets = some b ∧
      ((sideEntries env l.forSale).map (·.bps)).sum ≤ 5000 ∧
      ((sideEntries env b.funds).map (·.bps)).sum ≤ 5000 ∧
      m' = { 𝐰.mkt with
        listings := ainsert (buyer, lid) (tradedListing env fd buyer l b)
          (aerase (l.creator, lid) 𝐰.mkt.listings),
        buckets := ainsert (l.creator, bid) (tradedBucket env fd l b)
          (aerase (buyer, bid) 𝐰.mkt.buckets) } ∧
      out = pendingFeeMsgs env.self b.fee ++
        royaltyMsgs (sideEntries env l.forSale) (afterFee fd b.funds) ++
        royaltyMsgs (sideEntries env b.funds) (afterFee fd l.forSale)
  /-- C06 "No other deduction occurs": per native denomination, what a side held before the purchase
      is what it holds afterwards plus the fee recorded on the new record plus what the royalty
      messages charged to that side send out; per CW20 token the same without a fee; the amounts sent
      out are the royalty totals and never exceed half of what is left after the fee -/
  buyNoOtherDeduction : ∀ env buyer lid bid fd m' out, fd = feeDenomOf env 𝐰.mkt.feeKind →
    buy 𝐰.mkt env buyer lid bid = .ok (m', out) →
    ∃ l b l' b' msgsB msgsL,
      alookup (l.creator, lid) 𝐰.mkt.listings = some l ∧
      alookup (buyer, bid) 𝐰.mkt.buckets = some b ∧
      alookup (buyer, lid) m'.listings = some l' ∧ alookup (l.creator, bid) m'.buckets = some b' ∧
      out = pendingFeeMsgs env.self b.fee ++ msgsB ++ msgsL ∧
      msgsB = royaltyMsgs (sideEntries env l.forSale) (afterFee fd b.funds) ∧
      msgsL = royaltyMsgs (sideEntries env b.funds) (afterFee fd l.forSale) ∧
      -- the bucket
      (∀ k, coinAmt b.funds.native k =
        coinAmt b'.funds.native k + feeAmt b'.fee k + outNative msgsB k) ∧
      (∀ k, coinAmt b.funds.cw20 k = coinAmt b'.funds.cw20 k + outCw20 msgsB k) ∧
      (∀ k, outNative msgsB k = royaltyOn (sideEntries env l.forSale) (afterFeeAmt fd b.funds k)) ∧
      (∀ k, outCw20 msgsB k = royaltyOn (sideEntries env l.forSale) (coinAmt b.funds.cw20 k)) ∧
      -- the listing goods
      (∀ k, coinAmt l.forSale.native k =
        coinAmt l'.forSale.native k + feeAmt l'.fee k + outNative msgsL k) ∧
      (∀ k, coinAmt l.forSale.cw20 k = coinAmt l'.forSale.cw20 k + outCw20 msgsL k) ∧
      (∀ k, outNative msgsL k = royaltyOn (sideEntries env b.funds) (afterFeeAmt fd l.forSale k)) ∧
      (∀ k, outCw20 msgsL k = royaltyOn (sideEntries env b.funds) (coinAmt l.forSale.cw20 k)) ∧
      -- the royalties never exceed half of what is left after the fee
      (∀ a, 2 * royaltyOn (sideEntries env l.forSale) a ≤ a) ∧
      (∀ a, 2 * royaltyOn (sideEntries env b.funds) a ≤ a)
  /-- C06 "Those royalties are paid to the registered payout addresses in the same transaction":
      when the purchase transaction is accepted, the handler `buy` accepted in `𝐰`'s own
      environment, its messages are the transaction's, its market record is the new one, and every
      account `p` other than the marketplace and the pool has been credited, per native denomination
      and per honest CW20 token, with exactly the shares of the entries paying to `p` -/
  buyPaidInTransaction : ∀ buyer lid bid fd, fd = feeDenomOf 𝐰.env 𝐰.mkt.feeKind →
    (step 𝐰 (.exec buyer [] (.buy lid bid))).2.ok = true →
    ∃ k l b m' out, findById lid 𝐰.mkt.listings = some (k, l) ∧
      alookup (buyer, bid) 𝐰.mkt.buckets = some b ∧
      buy 𝐰.mkt 𝐰.env buyer lid bid = .ok (m', out) ∧
      (step 𝐰 (.exec buyer [] (.buy lid bid))).2.msgs = out ∧
      (step 𝐰 (.exec buyer [] (.buy lid bid))).1.mkt = m' ∧
      ∀ p, p ≠ 𝐰.self → p ≠ 𝐰.pool →
        (∀ d, lget (step 𝐰 (.exec buyer [] (.buy lid bid))).1.bank (p, d) =
          lget 𝐰.bank (p, d) +
          (royaltyOn ((sideEntries 𝐰.env l.forSale).filter fun e => decide (e.payout = p))
            (afterFeeAmt fd b.funds d) +
           royaltyOn ((sideEntries 𝐰.env b.funds).filter fun e => decide (e.payout = p))
            (afterFeeAmt fd l.forSale d))) ∧
        (∀ tk, 𝐰.isHonest20 tk = true →
          lget (step 𝐰 (.exec buyer [] (.buy lid bid))).1.cw20 (tk, p) =
          lget 𝐰.cw20 (tk, p) +
          (royaltyOn ((sideEntries 𝐰.env l.forSale).filter fun e => decide (e.payout = p))
            (coinAmt b.funds.cw20 tk) +
           royaltyOn ((sideEntries 𝐰.env b.funds).filter fun e => decide (e.payout = p))
            (coinAmt l.forSale.cw20 tk)))
  -- ### C11 / C17 — the arithmetic of every accepted purchase
  /-- C11 "no purchase pays out more than half of any post-fee fungible amount in royalties and no
      escrowed amount is ever reduced to zero": in every accepted purchase each side's stored contents
      and royalty messages are the result of the model's `royalties` on the side's after-fee balance
      (`calcFeeCoin`), both rate sums passed the 5000 bps gate, and (`RoyaltyHalf`) at most half of
      every entry is taken, at least half and at least 1 stays.  (`l`, `b` = traded listing / paying
      bucket in `𝐰`; `l'`, `b'` = the re-filed records; `lbal`, `bbal` = contents after the fee.) -/
  buyHalf : ∀ buyer lid bid fd, fd = feeDenomOf 𝐰.env 𝐰.mkt.feeKind →
    (step 𝐰 (.exec buyer [] (.buy lid bid))).2.ok = true →
    ∃ l b l' b' lbal bbal msgsB msgsL sB sL,
      alookup (l.creator, lid) 𝐰.mkt.listings = some l ∧
      alookup (buyer, bid) 𝐰.mkt.buckets = some b ∧
      alookup (buyer, lid) (step 𝐰 (.exec buyer [] (.buy lid bid))).1.mkt.listings = some l' ∧
      alookup (l.creator, bid) (step 𝐰 (.exec buyer [] (.buy lid bid))).1.mkt.buckets = some b' ∧
      calcFeeCoin fd l.forSale = some (l'.fee, lbal) ∧
      calcFeeCoin fd b.funds = some (b'.fee, bbal) ∧
      royalties bbal ((collections l.forSale).map 𝐰.env.regLookup) = .ok b'.funds msgsB sB ∧
      royalties lbal ((collections b.funds).map 𝐰.env.regLookup) = .ok l'.forSale msgsL sL ∧
      (step 𝐰 (.exec buyer [] (.buy lid bid))).2.msgs =
        pendingFeeMsgs 𝐰.self b.fee ++ msgsB ++ msgsL ∧
      sB = ((sideEntries 𝐰.env l.forSale).map (·.bps)).sum ∧ sB ≤ 5000 ∧
      sL = ((sideEntries 𝐰.env b.funds).map (·.bps)).sum ∧ sL ≤ 5000 ∧
      RoyaltyHalf bbal b'.funds msgsB ∧ RoyaltyHalf lbal l'.forSale msgsL
  /-- C11 "If the royalty rates of the distinct registered collections on one side of a trade sum to
      more than 50% the purchase is refused without effect" -/
  buyRefusedOverHalf : ∀ buyer lid bid k l b, findById lid 𝐰.mkt.listings = some (k, l) →
    alookup (buyer, bid) 𝐰.mkt.buckets = some b →
    (((sideEntries 𝐰.env l.forSale).map (·.bps)).sum > 5000 ∨
     ((sideEntries 𝐰.env b.funds).map (·.bps)).sum > 5000) →
    (∀ res, buy 𝐰.mkt 𝐰.env buyer lid bid ≠ .ok res) ∧
    (step 𝐰 (.exec buyer [] (.buy lid bid))).2.ok = false ∧
    (step 𝐰 (.exec buyer [] (.buy lid bid))).2.msgs = [] ∧
    (step 𝐰 (.exec buyer [] (.buy lid bid))).1 = 𝐰
  /-- C11 "exactly 50% is allowed": a purchase is refused with `royaltyOverHalf` ONLY if one of the
      two rate sums exceeds 5000 bps -/
  buyExactHalfAllowed : ∀ buyer lid bid,
    (buy 𝐰.mkt 𝐰.env buyer lid bid = .error .royaltyOverHalf ∨
      (step 𝐰 (.exec buyer [] (.buy lid bid))).2.err = some .royaltyOverHalf) →
    ∃ k l b, findById lid 𝐰.mkt.listings = some (k, l) ∧
      alookup (buyer, bid) 𝐰.mkt.buckets = some b ∧
      (((sideEntries 𝐰.env l.forSale).map (·.bps)).sum > 5000 ∨
       ((sideEntries 𝐰.env b.funds).map (·.bps)).sum > 5000)
  /-- C17 "the fee split … conserve[s] value exactly per asset (fee + … + remainder = original),
      use[s] floor rounding, leave[s] NFTs and other assets untouched": in every accepted purchase,
      for each side the recorded fee and the balance handed to the royalty step are the result of
      `calcFeeCoin` on the side's old contents, and that step was exact (`FeeExact`) -/
  buyFeeExact : ∀ buyer lid bid fd, fd = feeDenomOf 𝐰.env 𝐰.mkt.feeKind →
    (step 𝐰 (.exec buyer [] (.buy lid bid))).2.ok = true →
    ∃ l b l' b' lbal bbal,
      alookup (l.creator, lid) 𝐰.mkt.listings = some l ∧
      alookup (buyer, bid) 𝐰.mkt.buckets = some b ∧
      alookup (buyer, lid) (step 𝐰 (.exec buyer [] (.buy lid bid))).1.mkt.listings = some l' ∧
      alookup (l.creator, bid) (step 𝐰 (.exec buyer [] (.buy lid bid))).1.mkt.buckets = some b' ∧
      calcFeeCoin fd l.forSale = some (l'.fee, lbal) ∧
      calcFeeCoin fd b.funds = some (b'.fee, bbal) ∧
      FeeExact fd l.forSale l'.fee lbal ∧ FeeExact fd b.funds b'.fee bbal
  /-- C17 "the royalty split conserve[s] value exactly per asset (… payouts + remainder = original),
      … produce[s] one payout per non-zero (asset, collection) pair to the right address": in every
      accepted purchase the stored contents and the royalty messages are the result of `royalties`
      on the side's after-fee balance with the registry's answers for the OPPOSITE side's
      collections, and that step was exact (`RoyaltyExact`: conservation, floor rounding, true
      subtraction, NFTs untouched, the message list, everything fits 128 bits) -/
  buyRoyaltyExact : ∀ buyer lid bid fd, fd = feeDenomOf 𝐰.env 𝐰.mkt.feeKind →
    (step 𝐰 (.exec buyer [] (.buy lid bid))).2.ok = true →
    ∃ l b l' b' lbal bbal msgsB msgsL sB sL,
      alookup (l.creator, lid) 𝐰.mkt.listings = some l ∧
      alookup (buyer, bid) 𝐰.mkt.buckets = some b ∧
      alookup (buyer, lid) (step 𝐰 (.exec buyer [] (.buy lid bid))).1.mkt.listings = some l' ∧
      alookup (l.creator, bid) (step 𝐰 (.exec buyer [] (.buy lid bid))).1.mkt.buckets = some b' ∧
      calcFeeCoin fd l.forSale = some (l'.fee, lbal) ∧
      calcFeeCoin fd b.funds = some (b'.fee, bbal) ∧
      royalties bbal ((collections l.forSale).map 𝐰.env.regLookup) = .ok b'.funds msgsB sB ∧
      royalties lbal ((collections b.funds).map 𝐰.env.regLookup) = .ok l'.forSale msgsL sL ∧
      (step 𝐰 (.exec buyer [] (.buy lid bid))).2.msgs =
        pendingFeeMsgs 𝐰.self b.fee ++ msgsB ++ msgsL ∧
      RoyaltyExact (sideEntries 𝐰.env l.forSale) bbal b'.funds msgsB ∧
      RoyaltyExact (sideEntries 𝐰.env b.funds) lbal l'.forSale msgsL ∧
      (∀ e ∈ sideEntries 𝐰.env l.forSale, ∃ n ∈ l.forSale.nfts, alookup n.coll 𝐰.reg = some e) ∧
      (∀ e ∈ sideEntries 𝐰.env b.funds, ∃ n ∈ b.funds.nfts, alookup n.coll 𝐰.reg = some e)
  /-- C17 "never overflow, wrap or abort": the purchase never fails with `Err.overflow`, and fails
      with `Err.panic` only if the registered rates of one side sum to more than `u64::MAX` … -/
  buyNoOverflow : ∀ buyer lid bid,
    (∀ env, buy 𝐰.mkt env buyer lid bid ≠ .error .overflow) ∧
    (step 𝐰 (.exec buyer [] (.buy lid bid))).2.err ≠ some .overflow ∧
    (∀ e, (e = .panic ∧ (buy 𝐰.mkt 𝐰.env buyer lid bid = .error e ∨
        (step 𝐰 (.exec buyer [] (.buy lid bid))).2.err = some e)) →
      ∃ k l b, findById lid 𝐰.mkt.listings = some (k, l) ∧
        alookup (buyer, bid) 𝐰.mkt.buckets = some b ∧
        (((sideEntries 𝐰.env l.forSale).map (·.bps)).sum > U64MAX ∨
         ((sideEntries 𝐰.env b.funds).map (·.bps)).sum > U64MAX))
  /-- … C17 "never … abort": which, the registry being within its rate bounds, takes NFTs of more
      than `u64::MAX / 300` distinct collections on one side -/
  buyNoPanic : ∀ buyer lid bid,
    (buy 𝐰.mkt 𝐰.env buyer lid bid = .error .panic ∨
      (step 𝐰 (.exec buyer [] (.buy lid bid))).2.err = some .panic) →
    ∃ k l b, findById lid 𝐰.mkt.listings = some (k, l) ∧
      alookup (buyer, bid) 𝐰.mkt.buckets = some b ∧
      (300 * (collections l.forSale).length > U64MAX ∨
       300 * (collections b.funds).length > U64MAX)
  -- ### C14 — the royalty registry
  /-- C14 "its rate is always between 10 and 300 bps", in the reached state -/
  regBounds : ∀ p ∈ 𝐰.reg, 10 ≤ p.2.bps ∧ p.2.bps ≤ 300
  /-- C14 … one entry per collection, in the reached state -/
  regKeysUnique : (akeys 𝐰.reg).Nodup
  /-- C14 a registry transaction succeeds exactly when the registry handler — run on the reached
      registry, block height and contract table — accepts, and then only `reg` is replaced -/
  regMsgIff : ∀ sender msg, (step 𝐰 (.royalty sender msg)).2.ok = true ↔
    ∃ r, regExecute 𝐰.reg 𝐰.regEnv sender msg = .ok r ∧
      (step 𝐰 (.royalty sender msg)).1 = { 𝐰 with reg := r }
  /-- C14 "can be created, modified or removed only by the account that is that NFT contract's admin
      at that moment": an accepted registry transaction was sent by the admin of the one collection
      it names, and every other collection's entry is left alone -/
  regAdminOnly : ∀ sender msg, (step 𝐰 (.royalty sender msg)).2.ok = true →
    ∃ c, msg.nft = .valid c ∧ 𝐰.regEnv.adminOf c = some (some sender) ∧
      ∀ c', c' ≠ c → alookup c' (step 𝐰 (.royalty sender msg)).1.reg = alookup c' 𝐰.reg
  /-- C14 "only by … [the] admin", "cannot be modified or removed until 100 blocks after it was
      created or last modified": if ANY next operation changes what is stored for collection `c`, it
      was an accepted registry message of `c`'s admin, an entry that existed was at least 100 blocks
      old, and an entry that exists afterwards is stamped with the current height -/
  regChangeGuard : ∀ op c, alookup c (step 𝐰 op).1.reg ≠ alookup c 𝐰.reg →
    ∃ sender msg, op = .royalty sender msg ∧ (step 𝐰 op).2.ok = true ∧
      (∃ ci, alookup c 𝐰.contracts = some ci ∧ ci.admin = some sender) ∧
      (∀ e, alookup c 𝐰.reg = some e → min (e.lastUpdated + COOLDOWN) U64MAX ≤ 𝐰.height) ∧
      (∀ e', alookup c (step 𝐰 op).1.reg = some e' → e'.lastUpdated = 𝐰.height)
  /-- C14 "while from then on the admin can": the current admin's `Register` (no entry yet, rate
      within 10..300), `Update` and `Remove` (entry at least 100 blocks old) are accepted and store /
      drop the entry -/
  regAdminCan : ∀ c sender ci, alookup c 𝐰.contracts = some ci → ci.admin = some sender →
    (∀ p bps, alookup c 𝐰.reg = none → MIN_BPS ≤ bps → bps ≤ MAX_BPS →
      (step 𝐰 (.royalty sender (.register (.valid c) (.valid p) bps))).2.ok = true ∧
      alookup c (step 𝐰 (.royalty sender (.register (.valid c) (.valid p) bps))).1.reg =
        some ⟨𝐰.height, bps, p⟩) ∧
    (∀ e payout bps, alookup c 𝐰.reg = some e → e.lastUpdated + COOLDOWN ≤ 𝐰.height →
      (∀ b, bps = some b → MIN_BPS ≤ b ∧ b ≤ MAX_BPS) → payout ≠ some .invalid →
      (step 𝐰 (.royalty sender (.update (.valid c) payout bps))).2.ok = true ∧
      alookup c (step 𝐰 (.royalty sender (.update (.valid c) payout bps))).1.reg =
        some ⟨𝐰.height, bps.getD e.bps, updPayout payout e.payout⟩) ∧
    (∀ e, alookup c 𝐰.reg = some e → e.lastUpdated + COOLDOWN ≤ 𝐰.height →
      (step 𝐰 (.royalty sender (.remove (.valid c)))).2.ok = true ∧
      alookup c (step 𝐰 (.royalty sender (.remove (.valid c)))).1.reg = none)
  -- ### C15 — faults
  /-- C15 "If any token, NFT, bank or community-pool transfer issued by a purchase, withdrawal,
      deletion or deposit fails, the whole operation has no effect: records, balances and NFT
      ownership are exactly as before": from `𝐰`, after ANY continuation with faults `fops`, the next
      faulty transaction `(fail, op)` either returns the very same world (exactly when `fail` hits a
      message the fault-free transaction emits) or IS the fault-free transaction; no third case -/
  allOrNothing : ∀ fops fail op,
    ((∃ k, k < (step (runF 𝐰 fops) op).2.msgs.length ∧ fail k = true) →
      stepF fail (runF 𝐰 fops) op = (runF 𝐰 fops, .fail .dispatch)) ∧
    ((∀ k, k < (step (runF 𝐰 fops) op).2.msgs.length → fail k = false) →
      stepF fail (runF 𝐰 fops) op = step (runF 𝐰 fops) op) ∧
    (stepF fail (runF 𝐰 fops) op = (runF 𝐰 fops, .fail .dispatch) ∨
      stepF fail (runF 𝐰 fops) op = step (runF 𝐰 fops) op)
  /-- C15 a faulty history is the fault-free history of its survivors: the state reached from `𝐰` by
      ANY history with faults is the state reached by the operations that went through, which are a
      sub-list of the history and are all accepted again in the fault-free replay — so every field of
      `MarketGuarantees` / `TradeGuarantees` that holds for all histories holds under faults -/
  faultyIsSurvivors : ∀ fops, runF 𝐰 fops = run w0 (ops ++ survivors 𝐰 fops) ∧
    (survivors 𝐰 fops).Sublist (fops.map (·.2)) ∧ okRun 𝐰 (survivors 𝐰 fops)
  /-- C15 "The same operation succeeds with its normal effect once the fault is gone": a transaction
      aborted ONLY because of the injected fault leaves the state unchanged and its fault-free retry
      is the fault-free transaction -/
  retrySucceeds : ∀ fops fail op, (stepF fail (runF 𝐰 fops) op).2.ok = false →
    (step (runF 𝐰 fops) op).2.ok = true →
    (∃ k, k < (step (runF 𝐰 fops) op).2.msgs.length ∧ fail k = true) ∧
    stepF fail (runF 𝐰 fops) op = (runF 𝐰 fops, .fail .dispatch) ∧
    stepF noFault (stepF fail (runF 𝐰 fops) op).1 op = step (runF 𝐰 fops) op ∧
    (stepF noFault (stepF fail (runF 𝐰 fops) op).1 op).2.ok = true ∧
    runF 𝐰 (fops ++ [(fail, op), (noFault, op)]) = (step (runF 𝐰 fops) op).1 ∧
    survivors 𝐰 (fops ++ [(fail, op), (noFault, op)]) = survivors 𝐰 fops ++ [op]
  /-- C15 / C07 a payout aborted by a fault can be retried: after any continuation with faults (not
      signed by the marketplace, no forged hook calls), an exit message of the entitled party that is
      aborted under fault injection was hit by the fault, the record is still stored unchanged, and
      the same party's fault-free retry is accepted -/
  exitAfterFault : ∀ fops fail, (∀ p ∈ fops, p.2.avoids w0.self ∧ p.2.unforged) →
    (∀ k l, (k, l) ∈ (runF 𝐰 fops).mkt.listings → l.exitable (runF 𝐰 fops).nowNs →
      (stepF fail (runF 𝐰 fops) (.exec l.creator [] l.exitMsg)).2.ok = false →
      (∃ i, i < (step (runF 𝐰 fops) (.exec l.creator [] l.exitMsg)).2.msgs.length ∧
        fail i = true) ∧
      (stepF fail (runF 𝐰 fops) (.exec l.creator [] l.exitMsg)).1 = runF 𝐰 fops ∧
      (k, l) ∈ (stepF fail (runF 𝐰 fops) (.exec l.creator [] l.exitMsg)).1.mkt.listings ∧
      (step (stepF fail (runF 𝐰 fops) (.exec l.creator [] l.exitMsg)).1
        (.exec l.creator [] l.exitMsg)).2.ok = true) ∧
    (∀ k b, (k, b) ∈ (runF 𝐰 fops).mkt.buckets →
      (stepF fail (runF 𝐰 fops) (.exec b.owner [] (.removeBucket k.2))).2.ok = false →
      (∃ i, i < (step (runF 𝐰 fops) (.exec b.owner [] (.removeBucket k.2))).2.msgs.length ∧
        fail i = true) ∧
      (stepF fail (runF 𝐰 fops) (.exec b.owner [] (.removeBucket k.2))).1 = runF 𝐰 fops ∧
      (k, b) ∈ (stepF fail (runF 𝐰 fops) (.exec b.owner [] (.removeBucket k.2))).1.mkt.buckets ∧
      (step (stepF fail (runF 𝐰 fops) (.exec b.owner [] (.removeBucket k.2))).1
        (.exec b.owner [] (.removeBucket k.2))).2.ok = true)
  -- ### C16 — queries
  /-- C16 "Paging through an owner's … buckets from page 1 upward returns each of that owner's
      records exactly once": pages `1..k` (`20·k` at least the number of the owner's buckets — the
      caller's choice) concatenated hold each `(id, bucket)` stored under that owner exactly once and
      nothing else -/
  bucketsPaging : ∀ o k, (ownerBuckets 𝐰.mkt o).length ≤ 20 * k →
    let pages := (List.range k).flatMap fun i => (qBuckets 𝐰.mkt (.valid o) (i + 1)).getD []
    pages.Nodup ∧ ∀ x, x ∈ pages ↔ ((o, x.1), x.2) ∈ 𝐰.mkt.buckets
  /-- C16 "Paging through an owner's listings … returns each of that owner's records exactly once" -/
  listingsPaging : ∀ o k, (ownerListings 𝐰.mkt o).length ≤ 20 * k →
    let pages := (List.range k).flatMap fun i =>
      (qListingsByOwner 𝐰.mkt (.valid o) (i + 1)).getD []
    pages.Nodup ∧ ∀ l, l ∈ pages ↔ ((o, l.id), l) ∈ 𝐰.mkt.listings
  /-- C16 "so a listed item is never already unpurchasable": whatever page of the market query is
      asked at whatever block time, every listing in the answer is stored and purchasable -/
  marketSound : ∀ nowNs page res, qMarket 𝐰.mkt nowNs page = some res →
    ∀ l ∈ res, purchasable nowNs l = true ∧ ∃ k, (k, l) ∈ 𝐰.mkt.listings
  /-- C16 "The market … quer[y] return[s] precisely the listings that are finalized, unsold and
      unexpired": asked at a block time of at least two weeks (below, the query fails — the
      documented assumption), every stored purchasable listing is on some page `≥ 1`, and that page
      is at most 255 if the two-week index window holds at most 5100 records -/
  marketComplete : ∀ nowNs k l, TWO_WEEKS ≤ nowNs / NS → (k, l) ∈ 𝐰.mkt.listings →
    purchasable nowNs l = true →
    ∃ page, 1 ≤ page ∧ (page - 1) * 20 < (marketWindow 𝐰.mkt nowNs).length ∧
      ((marketWindow 𝐰.mkt nowNs).length ≤ 5100 → page ≤ 255) ∧
      ∃ res, qMarket 𝐰.mkt nowNs page = some res ∧ l ∈ res
  /-- C16 "The fee query reports the denomination the next purchase will be charged in and a
      next-change time before which a cycle attempt is refused and after which it is accepted"
      (`env` = the environment of the purchase / cycle attempt, any block time) -/
  feeQuery : ∀ env : Env,
    let q := qFeeDenom 𝐰.mkt env
    q.denom = feeDenomOf env 𝐰.mkt.feeKind ∧ q.kind = 𝐰.mkt.feeKind ∧
    q.nextChange = 𝐰.mkt.feeSince + WEEK + 1 ∧
    ((∃ x, cycleFee 𝐰.mkt env = .ok x) ↔ env.nowNs / NS ≥ q.nextChange)
  /-- C16 … as transactions: after waiting `dNs` nanoseconds (within the `u64` range) the cycle
      transaction of any account succeeds iff the block second has reached the reported time -/
  feeQueryCycle : ∀ dNs s, w0.nowNs + closed_elapsed ops + dNs ≤ U64MAX →
    ((step (run w0 (ops ++ [.advance dNs 0])) (.exec s [] .feeCycle)).2.ok = true ↔
      (run w0 (ops ++ [.advance dNs 0])).nowNs / NS ≥ (qFeeDenom 𝐰.mkt 𝐰.env).nextChange)
end

/-- C18, what IS true, for ANY history from a deployment — no `CleanHistory`, so `ops` may itself
    contain forged hook calls.  One existing theorem per field (Props/C18Reach.lean). -/
theorem Summary2_forged_from_deployment {w0 : World} (hd : Deployed w0) (ops : List Op) :
    ForgeGuarantees w0 ops where
  forgedConfined := fun op caller funds sender x inner hop hok =>
    C18_forged_step_confined_reach ops op hd caller funds sender x inner hop hok
  finalizedImmune := fun ops' hops k l hl hs =>
    C18_finalized_immune_run_reach ops ops' hd hops k l hl hs
  forgersOnly := fun ops' hops => C18_forgers_only_reach ops ops' hd hops
  accountsCannotForge := fun op acct funds sender x inner hacct hop =>
    C18_accounts_cannot_forge_reach ops op acct hacct funds sender x inner hop

/-- **The specification, second half**: every history from a deployment that meets `CleanHistory`
    and carries 128-bit amounts reaches a state with all of `TradeGuarantees`.  Pure corollary
    collection, one existing theorem per field. -/
theorem guarantees2_from_deployment {w0 : World} (hd : Deployed w0) (ops : List Op)
    (hc : CleanHistory w0 ops) (hfit : ∀ op ∈ ops, op.fits128)
    (hinst : ∃ t r, w0.mkt = instantiate t r ∧ t ≤ w0.nowNs) : TradeGuarantees w0 ops := by
  obtain ⟨t, r, h0, ht⟩ := hinst
  have hU : ∀ op ∈ ops, op.avoids w0.self ∧ op.unforged :=
    fun op h => ⟨hc.notSelf op h, hc.unforged op h⟩
  have hreg : ∀ p ∈ w0.reg, MIN_BPS ≤ p.2.bps ∧ p.2.bps ≤ MAX_BPS := by
    rw [hd.reg0]; intro p hp; cases hp
  have hnd : (akeys w0.reg).Nodup := by rw [hd.reg0]; exact List.nodup_nil
  exact {
    deletePaysRecord := fun _ _ _ _ hs hok hx hxp => C05_payout_delete_reach h0 ops hs hok hx hxp hd.pool
    withdrawPaysRecord := fun _ _ _ _ hs hok hx hxp =>
      C05_payout_purchased_reach h0 ops hs hok hx hxp hd.pool
    removeBucketPaysRecord := fun _ _ _ _ hs hok hx hxp =>
      Summary2_payout_bucket_reach w0 ops hs hok hx hxp hd.pool
    refundNoFee := C05_refund_no_fee_reach h0 ops
    othersUntouched := fun _ _ hx hxp hy hys hyp =>
      C05_others_untouched_reach h0 ops hx hxp hd.pool hy hys hyp
    buyClosedForm := fun _ _ _ _ _ _ _ hfd h => C06_buy_closed_form_reach h0 ops hfit hfd h
    buyNoOtherDeduction := fun _ _ _ _ _ _ _ hfd h => C06_no_other_deduction_reach h0 ops hfit hfd h
    buyPaidInTransaction := fun _ _ _ _ hfd hok => C06_paid_in_transaction_reach h0 ops hfit hfd hok
    buyHalf := fun _ _ _ _ hfd hok => C11_buy_half_reach h0 ops hfd hok
    buyRefusedOverHalf := fun buyer lid bid => C11_buy_refused_over_half_reach w0 ops buyer lid bid
    buyExactHalfAllowed := fun buyer lid bid h => C11_buy_exact_half_reach hc.registry ops buyer lid bid h
    buyFeeExact := fun _ _ _ _ hfd hok => C17_buy_fee_exact_reach h0 ops hfd hok
    buyRoyaltyExact := fun _ _ _ _ hfd hok => C17_buy_royalty_conserve_reach h0 ops hfit hfd hok
    buyNoOverflow := fun buyer lid bid => C17_buy_no_overflow_reach w0 ops buyer lid bid
    buyNoPanic := fun buyer lid bid h => C17_buy_no_panic_reach w0 hreg ops buyer lid bid h
    regBounds := C14_reach_bps hreg ops
    regKeysUnique := C14_reach_nodup hnd ops
    regMsgIff := fun sender msg => C14_step_ok_iff _ sender msg
    regAdminOnly := fun _ _ h => C14_step_admin h
    regChangeGuard := fun _ _ hch => C14_step_change_guard hch
    regAdminCan := fun _ _ _ hci hadm =>
      ⟨fun _ _ hn h1 h2 => C14_admin_can_register hci hadm hn h1 h2,
       fun _ _ _ he hcool hb hp => C14_admin_can_update hci hadm he hcool hb hp,
       fun _ he hcool => C14_admin_can_remove hci hadm he hcool⟩
    allOrNothing := fun fops fail op => C15_all_or_nothing_reach _ fops fail op
    faultyIsSurvivors := fun fops =>
      ⟨by rw [run_append]; exact C15_runF_is_run_of_survivors_reach _ fops,
       C15_survivors_sublist_reach _ fops, C15_survivors_accepted_reach _ fops⟩
    retrySucceeds := fun fops fail op hf hg => C15_retry_succeeds_reach _ fops fail op hf hg
    exitAfterFault := fun fops fail hf => Summary2_exit_after_fault_reach hd ops hU fops hf fail
    bucketsPaging := fun o k hk => C16_buckets_paging_reach h0 ops o k hk
    listingsPaging := fun o k hk => C16_listings_paging_reach h0 ops o k hk
    marketSound := fun _ _ _ hq => C16_market_sound_reach h0 ops hq
    marketComplete := fun _ _ _ hnow hm hp => C16_market_complete_reach h0 ops hnow hm hp
    feeQuery := fun env => C16_fee_reach h0 ht ops hc.clock env
    feeQueryCycle := fun dNs s hclk => C16_fee_cycle_reach h0 ht ops dNs hclk s
    toForgeGuarantees := Summary2_forged_from_deployment hd ops }

/-! ## non-vacuity

The history of Props/Summary.lean from the concrete deployment `deployedEx` (instantiated at its own
block time 1 700 000 000.123456789 s): account 1 lists 10 of denom 0 for 10 of denom 2, finalizes, fills
bucket 5 with the ask, buys its own listing with it, a week and a second pass, account 77 switches the
fee denomination, and account 1 withdraws the purchased goods. -/

namespace Summary2Ex
theorem fits : ∀ op ∈ SummaryEx.ops, op.fits128 := by decide
theorem inst : ∃ t r, deployedEx.mkt = instantiate t r ∧ t ≤ deployedEx.nowNs :=
  ⟨1700000000123456789, some 7, rfl, by decide⟩
/-- the prefixes of that history before the purchase (3 operations) and before the withdrawal (6) -/
theorem cleanTake (k : Nat) (hk : k = 3 ∨ k = 6) : CleanHistory deployedEx (SummaryEx.ops.take k) := by
  rcases hk with rfl | rfl <;>
    exact ⟨by decide, by decide, by decide, by decide, rfl, ⟨by decide, by decide⟩⟩
theorem fitsTake (k : Nat) : ∀ op ∈ SummaryEx.ops.take k, op.fits128 :=
  fun op h => fits op (List.mem_of_mem_take h)
end Summary2Ex

/-- the hypotheses of `guarantees2_from_deployment` are met by a non-trivial history … -/
example : TradeGuarantees deployedEx SummaryEx.ops :=
  guarantees2_from_deployment C02WEx.deployedEx_ok SummaryEx.ops SummaryEx.clean Summary2Ex.fits
    Summary2Ex.inst

/-- … and by its prefixes, from which the transactions the fields speak about ARE accepted: the
    purchase after three operations (fields `buy…`), the buyer's withdrawal after six
    (`withdrawPaysRecord`; signer 1 is neither the marketplace 9 nor the pool), the removal of the
    bucket at the end (`removeBucketPaysRecord`) -/
example : TradeGuarantees deployedEx (SummaryEx.ops.take 3) ∧
    TradeGuarantees deployedEx (SummaryEx.ops.take 6) :=
  ⟨guarantees2_from_deployment C02WEx.deployedEx_ok _ (Summary2Ex.cleanTake 3 (.inl rfl))
      (Summary2Ex.fitsTake 3) Summary2Ex.inst,
   guarantees2_from_deployment C02WEx.deployedEx_ok _ (Summary2Ex.cleanTake 6 (.inr rfl))
      (Summary2Ex.fitsTake 6) Summary2Ex.inst⟩
example : (step (run deployedEx (SummaryEx.ops.take 3)) (.exec 1 [] (.buy 4 5))).2.ok = true ∧
    (step (run deployedEx (SummaryEx.ops.take 6)) (.exec 1 [] (.withdrawPurchased 4))).2.ok = true ∧
    (step (run deployedEx SummaryEx.ops) (.exec 1 [] (.removeBucket 5))).2.ok = true ∧
    (1 : Nat) ≠ deployedEx.self ∧ (1 : Nat) ≠ deployedEx.pool := by decide

/-- a field applied: the purchase of the sample history was exact (`FeeExact` on both sides) -/
example := (guarantees2_from_deployment C02WEx.deployedEx_ok _ (Summary2Ex.cleanTake 3 (.inl rfl))
  (Summary2Ex.fitsTake 3) Summary2Ex.inst).buyFeeExact 1 4 5 _ rfl (by decide)

/-- C15: the withdrawal after six operations emits one message, so a fault at position 0 aborts it
    (`allOrNothing`, first case); C18: account 1 is no contract of `deployedEx`, so it cannot forge -/
example : (∃ k, k < (step (run deployedEx (SummaryEx.ops.take 6))
      (.exec 1 [] (.withdrawPurchased 4))).2.msgs.length ∧ C15REx.failAt 0 k = true) ∧
    deployedEx.kindOf 1 = none := ⟨⟨0, by decide, rfl⟩, by decide⟩

/-! ### a deployment with an NFT collection and a hostile contract (C14, C18)

`Summary2Ex.wAdm` is `c18World` (= `deployedEx` plus the hostile contract 6, which answers both token
probes) plus the honest CW721 collection 5 administered by account 1.  After the victim's two deposits
(`c18Setup`: bucket 3, preparing listing 5) the admin's `Register` is accepted and a stranger's is
refused (fields `regMsgIff`, `regAdminOnly`, `regAdminCan`), and the forged hook call of contract 6
naming account 1 as sender is accepted (field `forgedConfined`) — also from a history that already
contains forged calls, for which `ForgeGuarantees` still holds. -/

namespace Summary2Ex
def wAdm : World := { c18World with contracts := (5, ⟨some 1, 2, false, false⟩) :: c18World.contracts }
theorem wAdm_deployed : Deployed wAdm := by
  refine ⟨⟨1700000000123456789, some 7, rfl⟩, ?_, ?_, ?_, rfl, by decide⟩
  · intro d; simp [wAdm, c18World, lget, alookup]
  · intro t; simp [wAdm, c18World, lget]
  · intro k; simp [wAdm, c18World]
theorem cleanAdm : CleanHistory wAdm c18Setup :=
  ⟨by decide, by decide, by decide, by decide, rfl, ⟨by decide, by decide⟩⟩
end Summary2Ex

example : TradeGuarantees Summary2Ex.wAdm c18Setup :=
  guarantees2_from_deployment Summary2Ex.wAdm_deployed c18Setup Summary2Ex.cleanAdm (by decide)
    ⟨1700000000123456789, some 7, rfl, by decide⟩
/-- `ForgeGuarantees` for a history that is NOT `unforged` (it contains the four forged calls) -/
example : ForgeGuarantees Summary2Ex.wAdm (c18Setup ++ c18Forgeries) ∧
    ¬ ∀ op ∈ c18Setup ++ c18Forgeries, op.unforged :=
  ⟨Summary2_forged_from_deployment Summary2Ex.wAdm_deployed _, by decide⟩
example :
    alookup 5 (run Summary2Ex.wAdm c18Setup).contracts = some ⟨some 1, 2, false, false⟩ ∧
    alookup 5 (run Summary2Ex.wAdm c18Setup).reg = none ∧
    (step (run Summary2Ex.wAdm c18Setup)
      (.royalty 1 (.register (.valid 5) (.valid 9) 50))).2.ok = true ∧
    (step (run Summary2Ex.wAdm c18Setup)
      (.royalty 2 (.register (.valid 5) (.valid 9) 50))).2.ok = false ∧
    (step (run Summary2Ex.wAdm c18Setup) forge20Bucket).2.ok = true ∧
    (step (run Summary2Ex.wAdm (c18Setup ++ c18Forgeries)) forge20Bucket).2.ok = true := by decide

#print axioms guarantees2_from_deployment
#print axioms Summary2_forged_from_deployment
#print axioms Summary2_payout_bucket_reach
#print axioms Summary2_exit_after_fault_reach
end Fuzion
