/-
  Fuzion.Props.C03Closed — "a listing is sold at most once" over every history, with the
  preservation of `IdsInv` discharged by C09.
-/
import Fuzion.Props.C03
import Fuzion.Props.C09
namespace Fuzion

/-- along any op list from any state satisfying the id invariant, every listing id is bought
    successfully at most once -/
theorem C03_sold_once_closed {w : World} (hI : IdsInv w.mkt) (lid : Nat) (ops : List Op) :
    buysOf lid w ops ≤ 1 :=
  C03_sold_once (fun _ _ _ _ _ _ _ hi h => C09_inv_execute hi h) hI lid ops

/-- … in particular from the state right after instantiation -/
theorem C03_sold_once_reach {w : World} {t : Nat} {r : Option Nat} (h0 : w.mkt = instantiate t r)
    (lid : Nat) (ops : List Op) : buysOf lid w ops ≤ 1 :=
  C03_sold_once_closed (h0 ▸ IdsInv.init t r) lid ops

#print axioms C03_sold_once_closed
#print axioms C03_sold_once_reach
end Fuzion
