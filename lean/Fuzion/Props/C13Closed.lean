/-
  Fuzion.Props.C13Closed — C13 ("The fee denomination alternates, at most once per week") for
  every state reached from a freshly instantiated marketplace, without the `u64` saturation side
  conditions of Props/C13.lean.

  The "never when fewer than 604800 seconds have elapsed" theorems of Props/C13.lean carry a side
  condition, `m.feeSince + WEEK ≤ U64MAX ∨ nowNs / NS ≤ U64MAX`, that makes the Rust's
  `last.saturating_add(604800)` invisible, and `C13_monotone_since` assumes that the stamp is not
  ahead of the clock.  Both are facts about reachable states of a real chain, where the block time
  is a `u64` number of nanoseconds.  The model's clock is an unbounded natural and its `advance`
  operation is unbounded, so that fact is the world predicate

      TimeOk w  :=  w.nowNs ≤ U64MAX                          (Lemmas/ClosedLemmas.lean §2)

  which is preserved by every operation that keeps the clock within a `u64` (`TimeOk_step`) and
  holds after a history `ops` from `w0` iff `w0.nowNs + closed_elapsed ops ≤ U64MAX`, where
  `closed_elapsed ops` is the sum of the `dNs` of the `advance` operations of `ops`
  (`closed_run_nowNs`, `TimeOk_run`, `TimeOk_run_iff`).  That inequality — named `hclk` below —
  is an *input-side* hypothesis on the operation list: "no `advance` pushes the block time out of
  a `u64`".

  The second invariant, `feeSince ≤ nowNs / NS`, holds along every history from
  `w0.mkt = instantiate t r` provided `t ≤ w0.nowNs` (`closed_since_le`): `instantiate` stamps
  `t / NS`, the model leaves `t` free, so "the contract was not instantiated in the future" has to
  be said (`ht`).  With both, *no* saturating addition around the stamp saturates
  (`C13_no_saturation_reach`), which also discharges the original side condition literally.

  Theorems of Props/C13.lean without a state side condition (`C13_cycle_ok_iff`, `C13_cycle_can`,
  `C13_cycle_effect`, `C13_two_denoms`, `C13_instantiate`, `C13_any_sender`, `C13_no_funds`,
  `C13_only_cycle`, `C13_step_frame`, `C13_step_cycle_run`, `C13_step_cycle_effect`,
  `C13_step_can_cycle`, `C13_cycle_keeps_records`, `C13_charged_*`) are not restated.
-/
import Fuzion.Props.C13
import Fuzion.Props.C01Closed
import Fuzion.Lemmas.ClosedLemmas
namespace Fuzion

/-! ### sample worlds for the non-vacuity examples

`deployedEx` (Props/C01Closed.lean): instantiated at its own block time 1 700 000 000.123456789 s.
`C13CEx.ops`: a week and a second pass, account 77 switches, another week and a second pass. -/

namespace C13CEx
def ops₁ : List Op := [.advance (604801 * NS) 1]
def ops₂ : List Op := [.exec 1 [⟨0, 5⟩] (.createBucket 3), .advance (604801 * NS) 1]
end C13CEx

example : deployedEx.mkt = instantiate 1700000000123456789 (some 7) ∧
    1700000000123456789 ≤ deployedEx.nowNs ∧ TimeOk deployedEx ∧
    deployedEx.nowNs + closed_elapsed C13CEx.ops₁ ≤ U64MAX ∧
    deployedEx.nowNs + closed_elapsed C13CEx.ops₁ + closed_elapsed C13CEx.ops₂ ≤ U64MAX :=
  ⟨rfl, by decide, by decide, by decide, by decide⟩

/-! ## 1. the invariants -/

/-- `TimeOk` (block time in nanoseconds is a `u64`) is preserved by every operation that keeps
    the clock within a `u64`; every operation other than `advance` leaves the clock alone
    (`op.elapseNs = 0`), and `advance dNs _` adds exactly `dNs`. -/
theorem C13_timeOk_step {w : World} (op : Op) (h : w.nowNs + op.elapseNs ≤ U64MAX) :
    TimeOk (step w op).1 ∧ (step w op).1.nowNs = w.nowNs + op.elapseNs :=
  ⟨TimeOk_step op h, closed_stepF_nowNs noFault w op⟩

example : TimeOk deployedEx ∧ deployedEx.nowNs + (Op.advance (604801 * NS) 1).elapseNs ≤ U64MAX ∧
    (Op.exec 77 [] .feeCycle).elapseNs = 0 := by decide

/-- `TimeOk` along a history: the clock after `ops` is the initial clock plus the nanoseconds of
    the `advance` operations of `ops`; if that sum is a `u64` (input-side condition on `ops`),
    the reached state — and every intermediate state — satisfies `TimeOk`. -/
theorem C13_timeOk_run (w0 : World) (ops : List Op) (hclk : w0.nowNs + closed_elapsed ops ≤ U64MAX) :
    (run w0 ops).nowNs = w0.nowNs + closed_elapsed ops ∧ TimeOk (run w0 ops) ∧
    ∀ k, TimeOk (run w0 (ops.take k)) :=
  ⟨closed_run_nowNs w0 ops, TimeOk_run ops hclk, (TimeOk_run_iff ops).1 hclk⟩

example : deployedEx.nowNs + closed_elapsed (C13CEx.ops₁ ++ [.exec 77 [] .feeCycle] ++ C13CEx.ops₂)
    ≤ U64MAX := by decide
/-- the condition is needed: the model's `advance` can leave the `u64` range -/
example : ¬ TimeOk (run deployedEx [.advance U64MAX 1]) := by decide

/-- "since the previous switch or instantiation", in every reachable state: the stamp is at least
    the instantiation second, never runs ahead of the clock, and never decreases along a
    history.  (`hinv` of `C13_monotone_since` discharged from `instantiate`.) -/
theorem C13_monotone_since_reach {w0 : World} {t : Nat} {r : Option Nat}
    (h0 : w0.mkt = instantiate t r) (ht : t ≤ w0.nowNs) (ops₁ ops₂ : List Op) :
    t / NS ≤ (run w0 ops₁).mkt.feeSince ∧
    (run w0 ops₁).mkt.feeSince ≤ (run w0 ops₁).nowNs / NS ∧
    (run w0 ops₁).mkt.feeSince ≤ (run w0 (ops₁ ++ ops₂)).mkt.feeSince := by
  obtain ⟨h1, h2⟩ := closed_since_le h0 ht ops₁
  refine ⟨h1, h2, ?_⟩
  rw [run_append]
  exact (C13_monotone_since h2 ops₂).1

/-- non-vacuity: see the example above (`deployedEx` is instantiated at its own block time) -/
example : (run deployedEx (C13CEx.ops₁ ++ [.exec 77 [] .feeCycle])).mkt.feeSince = 1700604801 ∧
    (run deployedEx (C13CEx.ops₁ ++ [.exec 77 [] .feeCycle])).nowNs / NS = 1700604801 := by decide

/-- one step from a reachable state: the stamp does not decrease and stays at or behind the
    clock (`C13_step_since` with its hypothesis discharged) -/
theorem C13_step_since_reach {w0 : World} {t : Nat} {r : Option Nat}
    (h0 : w0.mkt = instantiate t r) (ht : t ≤ w0.nowNs) (ops : List Op) (op : Op) :
    (run w0 ops).mkt.feeSince ≤ (step (run w0 ops) op).1.mkt.feeSince ∧
    (step (run w0 ops) op).1.mkt.feeSince ≤ (step (run w0 ops) op).1.nowNs / NS :=
  C13_step_since op (closed_since_le h0 ht ops).2

/-- non-vacuity: the hypotheses are those of the previous theorem; computed for the switch -/
example : (run deployedEx C13CEx.ops₁).mkt.feeSince = 1700000000 ∧
    (step (run deployedEx C13CEx.ops₁) (.exec 77 [] .feeCycle)).1.mkt.feeSince = 1700604801 := by
  decide

/-- In every reachable state of a chain whose block time is a `u64` number of nanoseconds, none
    of the saturating `u64` additions around the fee stamp saturates: the original side condition
    `feeSince + WEEK ≤ U64MAX` of `C13_cycle_iff` / `C13_cycle_iff_ns` / `C13_step_cycle` /
    `C13_between_switches` (and `feeSince + WEEK + 1 ≤ U64MAX` of `C16_fee`) is a theorem. -/
theorem C13_no_saturation_reach {w0 : World} {t : Nat} {r : Option Nat}
    (h0 : w0.mkt = instantiate t r) (ht : t ≤ w0.nowNs) (ops : List Op)
    (hclk : w0.nowNs + closed_elapsed ops ≤ U64MAX) :
    (run w0 ops).mkt.feeSince + WEEK + 1 ≤ U64MAX :=
  closed_no_saturation (TimeOk_run ops hclk) (closed_since_le h0 ht ops).2

/-- non-vacuity: `deployedEx` with the sample history meets the three hypotheses -/
example : deployedEx.mkt = instantiate 1700000000123456789 (some 7) ∧
    1700000000123456789 ≤ deployedEx.nowNs ∧
    deployedEx.nowNs + closed_elapsed (C13CEx.ops₁ ++ [.exec 77 [] .feeCycle] ++ C13CEx.ops₂)
      ≤ U64MAX := ⟨rfl, by decide, by decide⟩

/-! ## 2. the cycle message, without side condition -/

/-- "never when fewer than 604800 seconds have elapsed since the previous switch or
    instantiation; once more than 604800 seconds have elapsed any account can switch it": in a
    world whose block time is a `u64`, the cycle message is accepted exactly when more than a
    week of block time separates now from the stored time stamp (`C13_cycle_iff` without its side
    condition). -/
theorem C13_cycle_iff_timeOk {w : World} (hT : TimeOk w) :
    (∃ x, cycleFee w.mkt w.env = .ok x) ↔ w.nowNs / NS > w.mkt.feeSince + WEEK :=
  C13_cycle_iff' w.mkt w.env hT.secs

example : TimeOk deployedEx ∧ TimeOk (run deployedEx C13CEx.ops₁) := by decide

/-- … hence in every state reached by a history that keeps the clock within a `u64` — from any
    initial world: only the clock matters here. -/
theorem C13_cycle_iff_reach (w0 : World) (ops : List Op)
    (hclk : w0.nowNs + closed_elapsed ops ≤ U64MAX) :
    (∃ x, cycleFee (run w0 ops).mkt (run w0 ops).env = .ok x) ↔
      (run w0 ops).nowNs / NS > (run w0 ops).mkt.feeSince + WEEK :=
  C13_cycle_iff_timeOk (TimeOk_run ops hclk)

/-- the same in nanoseconds of block time: accepted from the first nanosecond of second
    `feeSince + 604801` on (`C13_cycle_iff_ns` without its side condition) -/
theorem C13_cycle_iff_ns_reach (w0 : World) (ops : List Op)
    (hclk : w0.nowNs + closed_elapsed ops ≤ U64MAX) :
    (∃ x, cycleFee (run w0 ops).mkt (run w0 ops).env = .ok x) ↔
      (run w0 ops).nowNs ≥ ((run w0 ops).mkt.feeSince + WEEK + 1) * NS := by
  rw [C13_cycle_iff_reach w0 ops hclk, div_gt_iff_ns]

/-- non-vacuity: both sides occur — refused right after deployment, accepted a week and a second
    later -/
example : deployedEx.nowNs + closed_elapsed [] ≤ U64MAX ∧
    ¬ ((run deployedEx []).nowNs / NS > (run deployedEx []).mkt.feeSince + WEEK) ∧
    (run deployedEx C13CEx.ops₁).nowNs / NS > (run deployedEx C13CEx.ops₁).mkt.feeSince + WEEK := by
  decide

/-- "never when fewer than 604800 seconds have elapsed since the previous switch or
    instantiation", as a transaction in a world whose block time is a `u64`: a cycle transaction
    that succeeds finds strictly more than 604800 s between the block time and the stored stamp
    (`C13_step_cycle` with `TimeOk` in place of its side condition). -/
theorem C13_step_cycle_timeOk {w : World} (hT : TimeOk w) {s : Nat} {f : List Coin}
    (h : (step w (.exec s f .feeCycle)).2.ok = true) : w.nowNs / NS > w.mkt.feeSince + WEEK :=
  C13_step_cycle (.inr hT.secs) h

/-- … in every state reached by a history that keeps the clock within a `u64` -/
theorem C13_step_cycle_reach (w0 : World) (ops : List Op)
    (hclk : w0.nowNs + closed_elapsed ops ≤ U64MAX) {s : Nat} {f : List Coin}
    (h : (step (run w0 ops) (.exec s f .feeCycle)).2.ok = true) :
    (run w0 ops).nowNs / NS > (run w0 ops).mkt.feeSince + WEEK :=
  C13_step_cycle_timeOk (TimeOk_run ops hclk) h

/-- non-vacuity: account 77's cycle transaction succeeds a week and a second after deployment -/
example : (step (run deployedEx C13CEx.ops₁) (.exec 77 [] .feeCycle)).2.ok = true := by decide

/-- "never when fewer than … ; once more than 604800 seconds have elapsed any account can switch
    it", as one equivalence about transactions in a reachable state: the cycle transaction of any
    account `s` succeeds **iff** strictly more than 604800 s separate the block time from the
    stamp. -/
theorem C13_step_cycle_iff_reach (w0 : World) (ops : List Op)
    (hclk : w0.nowNs + closed_elapsed ops ≤ U64MAX) (s : Nat) :
    (step (run w0 ops) (.exec s [] .feeCycle)).2.ok = true ↔
      (run w0 ops).nowNs / NS > (run w0 ops).mkt.feeSince + WEEK :=
  ⟨C13_step_cycle_reach w0 ops hclk, C13_step_can_cycle s⟩

/-- both sides occur: refused after exactly a week, accepted a second later, for another sender -/
example : (step (run deployedEx [.advance (604800 * NS) 1]) (.exec 78 [] .feeCycle)).2.ok = false ∧
    (step (run deployedEx C13CEx.ops₁) (.exec 78 [] .feeCycle)).2.ok = true := by decide

/-- "never when fewer than 604800 seconds have elapsed since … instantiation": a cycle transaction
    that succeeds in a reachable state happens strictly more than 604800 s after the
    instantiation second. -/
theorem C13_since_instantiation_reach {w0 : World} {t : Nat} {r : Option Nat}
    (h0 : w0.mkt = instantiate t r) (ht : t ≤ w0.nowNs) (ops : List Op)
    (hclk : w0.nowNs + closed_elapsed ops ≤ U64MAX) {s : Nat} {f : List Coin}
    (h : (step (run w0 ops) (.exec s f .feeCycle)).2.ok = true) :
    (run w0 ops).nowNs / NS > t / NS + WEEK := by
  have h1 := C13_step_cycle_reach w0 ops hclk h
  have h2 := (closed_since_le h0 ht ops).1
  omega

/-- non-vacuity: the first switch of the sample history, 604 801 s after instantiation -/
example : (step (run deployedEx C13CEx.ops₁) (.exec 77 [] .feeCycle)).2.ok = true ∧
    (run deployedEx C13CEx.ops₁).nowNs / NS = 1700000000123456789 / NS + WEEK + 1 := by decide

/-! ## 3. between two switches -/

/-- "never when fewer than 604800 seconds have elapsed since the previous switch": between two
    successful switches — whatever anybody does in between — strictly more than 604800 s of block
    time elapse, provided the block time at the second switch is a `u64` (`C13_between_switches`
    with `TimeOk` in place of its side condition). -/
theorem C13_between_switches_timeOk {w : World} {s₁ s₂ : Nat} {f₁ f₂ : List Coin} (ops : List Op)
    (h₁ : (step w (.exec s₁ f₁ .feeCycle)).2.ok = true)
    (hT : TimeOk (run (step w (.exec s₁ f₁ .feeCycle)).1 ops))
    (h₂ : (step (run (step w (.exec s₁ f₁ .feeCycle)).1 ops) (.exec s₂ f₂ .feeCycle)).2.ok = true) :
    (run (step w (.exec s₁ f₁ .feeCycle)).1 ops).nowNs / NS > w.nowNs / NS + WEEK :=
  C13_between_switches ops h₁ (.inr hT.secs) h₂

/-- … from a reachable state: the first switch in `run w0 ops₁`, then `ops₂`, then the second;
    `hclk`: the `advance` operations of `ops₁` and `ops₂` keep the clock within a `u64`. -/
theorem C13_between_switches_reach (w0 : World) (ops₁ ops₂ : List Op)
    (hclk : w0.nowNs + closed_elapsed ops₁ + closed_elapsed ops₂ ≤ U64MAX)
    {s₁ s₂ : Nat} {f₁ f₂ : List Coin}
    (h₁ : (step (run w0 ops₁) (.exec s₁ f₁ .feeCycle)).2.ok = true)
    (h₂ : (step (run (step (run w0 ops₁) (.exec s₁ f₁ .feeCycle)).1 ops₂)
      (.exec s₂ f₂ .feeCycle)).2.ok = true) :
    (run (step (run w0 ops₁) (.exec s₁ f₁ .feeCycle)).1 ops₂).nowNs / NS >
      (run w0 ops₁).nowNs / NS + WEEK := by
  have hT : TimeOk (run (step (run w0 ops₁) (.exec s₁ f₁ .feeCycle)).1 ops₂) := by
    apply TimeOk_run
    show (stepF noFault (run w0 ops₁) (.exec s₁ f₁ .feeCycle)).1.nowNs + _ ≤ _
    rw [closed_stepF_nowNs, closed_run_nowNs]
    simp only [Op.elapseNs]
    omega
  exact C13_between_switches_timeOk ops₂ h₁ hT h₂

/-- non-vacuity: two switches a week and a second apart, with a deposit in between -/
example : (step (run deployedEx C13CEx.ops₁) (.exec 77 [] .feeCycle)).2.ok = true ∧
    (step (run (step (run deployedEx C13CEx.ops₁) (.exec 77 [] .feeCycle)).1 C13CEx.ops₂)
      (.exec 78 [] .feeCycle)).2.ok = true := by decide
/-- … and the denomination is back to the first one afterwards -/
example : (run deployedEx (C13CEx.ops₁ ++ [.exec 77 [] .feeCycle] ++ C13CEx.ops₂ ++
    [.exec 78 [] .feeCycle])).mkt.feeKind = .juno := by decide

/-! ## axioms -/

#print axioms C13_timeOk_step
#print axioms C13_timeOk_run
#print axioms C13_monotone_since_reach
#print axioms C13_step_since_reach
#print axioms C13_no_saturation_reach
#print axioms C13_cycle_iff_timeOk
#print axioms C13_cycle_iff_reach
#print axioms C13_cycle_iff_ns_reach
#print axioms C13_step_cycle_timeOk
#print axioms C13_step_cycle_reach
#print axioms C13_step_cycle_iff_reach
#print axioms C13_since_instantiation_reach
#print axioms C13_between_switches_timeOk
#print axioms C13_between_switches_reach

end Fuzion
