/-
  C17 — "Fee and royalty arithmetic is exact and total for all 128-bit amounts"

  For every well-formed balance with amounts up to 2^128-1, either fee denomination and every
  list of up to 25 royalty entries with registry-legal rates (10 to 300 bps), the fee split and
  the royalty split conserve value exactly per asset (fee + payouts + remainder = original), use
  floor rounding, leave NFTs and other assets untouched, produce one payout per non-zero
  (asset, collection) pair to the right address, and never overflow, wrap or abort.

  The theorems are about `calcFeeCoin` (`calc_fee_coin`, utils.rs) and `royalties`
  (`GenericBalance::royalties`, state.rs).  Helper lemmas are in `Fuzion/Lemmas/Arith.lean`.
-/
import Fuzion.Lemmas.Arith
namespace Fuzion

/-! ## the fee split -/

/-- "never overflow, wrap or abort" (fee): for **every** balance and fee denomination the
    `checked_sub` of `calc_fee_coin` succeeds, because `⌊a·5/1000⌋ ≤ a`. -/
theorem C17_fee_total (fd : Nat) (g : GBal) : ∃ fee g', calcFeeCoin fd g = some (fee, g') := by
  unfold calcFeeCoin
  split
  · exact ⟨_, _, rfl⟩
  · rename_i c _
    simp only
    split
    · exact ⟨_, _, rfl⟩
    · rw [if_neg (by omega)]; exact ⟨_, _, rfl⟩

/-- "use floor rounding" (fee): the fee in the fee denomination is exactly `⌊a·5/1000⌋` of the
    amount `a` held in that denomination; there is no fee coin iff that is zero; a fee coin is in
    the fee denomination and never zero. -/
theorem C17_fee_floor {fd : Nat} {g g' : GBal} {fee : Option Coin}
    (nd : (keys g.native).Nodup) (h : calcFeeCoin fd g = some (fee, g')) :
    feeAmt fee fd = coinAmt g.native fd * 5 / 1000 ∧
    (fee = none ↔ coinAmt g.native fd * 5 / 1000 = 0) ∧
    (∀ f, fee = some f → f.key = fd ∧ f.amount ≠ 0) := by
  rcases calcFeeCoin_cases h with ⟨e, hf, _⟩ | ⟨c, e, hz, hf, _⟩ | ⟨c, e, hz, hf, _⟩
  · rw [coinAmt_of_find_none e, hf]
    simp [feeAmt]
  · rw [(coinAmt_of_find nd e).2, hf, hz]
    simp [feeAmt]
  · rw [(coinAmt_of_find nd e).2, hf]
    refine ⟨by simp [feeAmt], by simp [hz], ?_⟩
    intro f hf'
    cases hf'
    exact ⟨rfl, hz⟩

example : (keys exBal.native).Nodup ∧ calcFeeCoin 1 exBal = some (some ⟨1, 5⟩, exBalFee) := by decide

/-- "conserve value exactly per asset (fee + remainder = original) … leave NFTs and other assets
    untouched" (fee).  For `k ≠ fd`, `feeAmt fee k = 0`, so other denominations are unchanged. -/
theorem C17_fee_conserve {fd : Nat} {g g' : GBal} {fee : Option Coin}
    (nd : (keys g.native).Nodup) (h : calcFeeCoin fd g = some (fee, g')) :
    (∀ k, coinAmt g'.native k + feeAmt fee k = coinAmt g.native k) ∧
    g'.cw20 = g.cw20 ∧ g'.nfts = g.nfts := by
  rcases calcFeeCoin_cases h with ⟨_, hf, hg⟩ | ⟨c, _, _, hf, hg⟩ | ⟨c, e, hz, hf, hg⟩
  · subst hf hg; simp [feeAmt]
  · subst hf hg; simp [feeAmt]
  · subst hf hg
    refine ⟨?_, rfl, rfl⟩
    intro k
    have hc := (coinAmt_of_find nd e).2
    have hle := fee_le c.amount
    simp only [coinAmt_append, coinAmt_filter_ne, coinAmt_single, feeAmt]
    by_cases hk : k = fd
    · subst hk; simp only [if_true]; omega
    · have : ¬ fd = k := fun e => hk e.symm
      simp only [hk, this, if_false]; omega

example : (keys exBal.native).Nodup ∧ calcFeeCoin 1 exBal = some (some ⟨1, 5⟩, exBalFee) := by decide

/-- the fee in any other denomination is zero (so C17_fee_conserve says they are untouched) -/
theorem C17_fee_other {fd : Nat} {g g' : GBal} {fee : Option Coin}
    (h : calcFeeCoin fd g = some (fee, g')) : ∀ k, k ≠ fd → feeAmt fee k = 0 := by
  intro k hk
  rcases calcFeeCoin_cases h with ⟨_, hf, _⟩ | ⟨c, _, _, hf, _⟩ | ⟨c, _, _, hf, _⟩
  · subst hf; rfl
  · subst hf; rfl
  · subst hf
    have : ¬ fd = k := fun e => hk e.symm
    simp [feeAmt, this]

example : calcFeeCoin 1 exBal = some (some ⟨1, 5⟩, exBalFee) := by decide

/-- the fee split only moves the fee denomination to the end of the native list: the set of
    denominations (and hence the asset count) is unchanged. -/
theorem C17_fee_keys_perm {fd : Nat} {g g' : GBal} {fee : Option Coin}
    (nd : (keys g.native).Nodup) (h : calcFeeCoin fd g = some (fee, g')) :
    (keys g'.native).Perm (keys g.native) ∧ g'.count = g.count := by
  rcases calcFeeCoin_cases h with ⟨_, _, hg⟩ | ⟨c, _, _, _, hg⟩ | ⟨c, e, _, _, hg⟩
  · subst hg; exact ⟨List.Perm.refl _, rfl⟩
  · subst hg; exact ⟨List.Perm.refl _, rfl⟩
  · subst hg
    have p := @keys_fee_perm g.native fd (c.amount - c.amount * 5 / 1000) c nd e
    refine ⟨p, ?_⟩
    have := p.length_eq
    simp only [keys, List.length_map] at this
    simp only [GBal.count, this]

example : (keys exBal.native).Nodup ∧ calcFeeCoin 1 exBal = some (some ⟨1, 5⟩, exBalFee) := by decide

/-- a well-formed balance stays well-formed under the fee split: in particular no amount becomes
    zero (`a − ⌊a·5/1000⌋ ≥ 1` for `a ≥ 1`) and the denominations stay duplicate-free. -/
theorem C17_fee_wf {fd : Nat} {g g' : GBal} {fee : Option Coin}
    (wf : wfBal g = true) (h : calcFeeCoin fd g = some (fee, g')) : wfBal g' = true := by
  rcases calcFeeCoin_cases h with ⟨_, _, hg⟩ | ⟨c, _, _, _, hg⟩ | ⟨c, e, _, _, hg⟩
  · subst hg; exact wf
  · subst hg; exact wf
  · subst hg
    simp only [wfBal, Bool.and_eq_true, decide_eq_true_eq, allNonzero_iff] at wf ⊢
    obtain ⟨⟨⟨⟨⟨w1, w2⟩, _⟩, w4⟩, w5⟩, w6⟩ := wf
    refine ⟨⟨⟨⟨⟨?_, w2⟩, ?_⟩, ?_⟩, w5⟩, w6⟩
    · intro x hx
      rcases List.mem_append.1 hx with hx | hx
      · exact w1 x (List.mem_filter.1 hx).1
      · simp only [List.mem_singleton] at hx
        subst hx
        have := w1 c (List.mem_of_find?_eq_some e)
        have := @fee_pos c.amount (by omega)
        simp only; omega
    · simp only [GBal.count, List.length_append, List.length_singleton]; omega
    · exact (keys_fee_perm w4 e).nodup_iff.2 w4

example : wfBal exBal = true ∧ calcFeeCoin 1 exBal = some (some ⟨1, 5⟩, exBalFee) := by decide

/-- "never overflow" (fee): 128-bit amounts stay 128-bit amounts. -/
theorem C17_fee_bounded {fd : Nat} {g g' : GBal} {fee : Option Coin}
    (hb : g.bounded) (h : calcFeeCoin fd g = some (fee, g')) :
    g'.bounded ∧ (∀ f, fee = some f → f.amount ≤ U128MAX) := by
  rcases calcFeeCoin_cases h with ⟨_, hf, hg⟩ | ⟨c, _, _, hf, hg⟩ | ⟨c, e, _, hf, hg⟩
  · subst hg hf; exact ⟨hb, fun f hf => by cases hf⟩
  · subst hg hf; exact ⟨hb, fun f hf => by cases hf⟩
  · subst hg hf
    have hc := hb.1 c (List.mem_of_find?_eq_some e)
    have hle := fee_le c.amount
    refine ⟨⟨?_, hb.2⟩, ?_⟩
    · intro x hx
      rcases List.mem_append.1 hx with hx | hx
      · exact hb.1 x (List.mem_filter.1 hx).1
      · simp only [List.mem_singleton] at hx
        subst hx; simp only; omega
    · intro f hf; cases hf; simp only; omega

example : exBalMax.bounded ∧ calcFeeCoin 1 exBalMax =
    some (some ⟨1, 1701411834604692317316873037158841057⟩,
      ⟨[⟨1, 338580955086333771146057734394609370398⟩], [⟨9, U128MAX⟩], []⟩) := by decide

/-! ## the royalty split -/

/-- "never overflow, wrap or abort" (royalties), strongest form: for **any** balance and **any**
    entries (any `u64` rates, any number of them) whose rates sum to at most 5000 bps the call
    succeeds: the `u64` sum does not overflow and no `checked_sub` fails, because
    `Σ⌊a·bᵢ/10⁴⌋ ≤ ⌊a·Σbᵢ/10⁴⌋ ≤ a/2 ≤ a`. -/
theorem C17_roy_total_any (g : GBal) {rs : List (Option RoyaltyInfo)} (h : bpsSum rs ≤ 5000) :
    ∃ g' ms, royalties g rs = .ok g' ms (bpsSum rs) :=
  royalties_total g h

example : bpsSum exRoyHalf ≤ 5000 := by decide

/-- a rate sum above 5000 bps that still fits a `u64` is refused with an error (not an abort) -/
theorem C17_roy_err (g : GBal) {rs : List (Option RoyaltyInfo)} (h64 : bpsSum rs ≤ U64MAX)
    (h : bpsSum rs > 5000) : royalties g rs = .err := by
  unfold royalties
  unfold bpsSum at h h64
  simp only
  rw [if_neg (by omega), if_pos h]

example : bpsSum exRoyOver ≤ U64MAX ∧ bpsSum exRoyOver > 5000 := by decide

/-- "never … abort" (royalties): the call aborts only if the rate sum does not fit a `u64`. -/
theorem C17_roy_no_panic (g : GBal) {rs : List (Option RoyaltyInfo)} (h64 : bpsSum rs ≤ U64MAX) :
    royalties g rs ≠ .panic := by
  by_cases h : bpsSum rs ≤ 5000
  · obtain ⟨g', ms, e⟩ := C17_roy_total_any g h
    rw [e]; intro x; cases x
  · rw [C17_roy_err g h64 (by omega)]; intro x; cases x

example : bpsSum exRoyOver ≤ U64MAX ∧ bpsSum exRoyHalf ≤ U64MAX := by decide

/-- "never overflow, wrap or abort" (royalties) for the inputs the property names: up to 25
    entries with registry-legal rates.  The call returns `ok` with the rate sum, or the 50 % error;
    it never aborts (`panic`) and never fails in a `checked_sub`.  (`g.bounded` is not needed.) -/
theorem C17_roy_total {g : GBal} {rs : List (Option RoyaltyInfo)} (_hb : g.bounded)
    (hl : legalEntries rs) (hn : rs.length ≤ 25) :
    (bpsSum rs ≤ 5000 → ∃ g' ms, royalties g rs = .ok g' ms (bpsSum rs)) ∧
    (bpsSum rs > 5000 → royalties g rs = .err) := by
  refine ⟨C17_roy_total_any g, C17_roy_err g ?_⟩
  have := bpsSum_le_of_legal hl hn
  unfold U64MAX; omega

example : exBalMax.bounded ∧ legalEntries exRoy ∧ exRoy.length ≤ 25 ∧ bpsSum exRoy ≤ 5000 := by decide
/-- the error branch is inhabited by legal inputs too (17 × 300 bps > 5000) -/
example : legalEntries exRoyOver ∧ exRoyOver.length ≤ 25 ∧ bpsSum exRoyOver > 5000 := by decide

/-- "conserve value exactly per asset (payouts + remainder = original) … leave NFTs and other
    assets untouched" (royalties).  Holds for an arbitrary balance (duplicates or not): the keys
    of both fungible lists are unchanged position by position, and per denomination / token the
    remaining amount plus everything paid out equals the original amount. -/
theorem C17_roy_conserve {g g' : GBal} {rs : List (Option RoyaltyInfo)} {ms : List OutMsg} {s : Nat}
    (h : royalties g rs = .ok g' ms s) :
    (∀ k, coinAmt g'.native k + outNative ms k = coinAmt g.native k) ∧
    (∀ k, coinAmt g'.cw20 k + outCw20 ms k = coinAmt g.cw20 k) ∧
    g'.nfts = g.nfts ∧ keys g'.native = keys g.native ∧ keys g'.cw20 = keys g.cw20 ∧
    s = bpsSum rs := by
  obtain ⟨hs, _, hg, hm, l1, l2⟩ := royalties_closed h
  subst hg hm
  refine ⟨?_, ?_, rfl, ?_, ?_, hs⟩
  · intro k
    rw [outNative_eq, outBy_append, outBy_royMsgs_zero (fNative_mkCw20 k)]
    have := royCoins_conserve (fNative_mkBank k) (rs.filterMap id) l1
    simp only [Nat.add_zero]
    exact this
  · intro k
    rw [outCw20_eq, outBy_append, outBy_royMsgs_zero (fCw20_mkBank k)]
    have := royCoins_conserve (fCw20_mkCw20 k) (rs.filterMap id) l2
    simp only [Nat.zero_add]
    exact this
  · exact keys_map_amount _ _
  · exact keys_map_amount _ _

example : royalties exBal exRoy = .ok exBalRoy exMsgs 310 := by rfl

/-- "use floor rounding … produce one payout per non-zero (asset, collection) pair to the right
    address" (royalties): the message list is exactly, asset by asset (natives first, then CW20s)
    and entry by entry in registry-answer order, one transfer of `⌊amount·bps/10⁴⌋` of that asset
    to that entry's payout address, zero amounts skipped. -/
theorem C17_roy_msgs {g g' : GBal} {rs : List (Option RoyaltyInfo)} {ms : List OutMsg} {s : Nat}
    (hb : g.bounded) (h : royalties g rs = .ok g' ms s) :
    ms =
      (g.native.flatMap fun c => (rs.filterMap id).filterMap fun e =>
        if c.amount * e.bps / 10000 = 0 then none
        else some (OutMsg.bankSend e.payout [⟨c.key, c.amount * e.bps / 10000⟩])) ++
      (g.cw20.flatMap fun c => (rs.filterMap id).filterMap fun e =>
        if c.amount * e.bps / 10000 = 0 then none
        else some (OutMsg.cw20Transfer c.key e.payout (c.amount * e.bps / 10000))) := by
  obtain ⟨_, h5, _, hm, _, _⟩ := royalties_closed h
  have hbps : ∀ r ∈ rs.filterMap id, r.bps ≤ 10000 := fun r hr => by
    have := bps_le_of_sum_le (s := 5000) h5 r hr; omega
  rw [hm,
    flatMap_congr_mem (fun c hc => royMsgs_eq_shareMsgs (mk := mkBank) (hb.1 c hc) hbps),
    flatMap_congr_mem (fun c hc => royMsgs_eq_shareMsgs (mk := mkCw20) (hb.2 c hc) hbps)]
  rfl

example : exBal.bounded ∧ royalties exBal exRoy = .ok exBalRoy exMsgs 310 := ⟨by decide, by rfl⟩
/-- … and at the top of the range: `Uint128::MAX` with the maximal 50 % rate sum -/
example : exBalMax.bounded ∧ royalties exBalMax exRoyHalf = .ok exBalMaxRoy exMsgsMax 5000 :=
  ⟨by decide, by rfl⟩

/-- "use floor rounding … conserve value exactly" (royalties), per coin: the remaining list is the
    original list with every amount `a` replaced by `a − Σ⌊a·bpsᵢ/10⁴⌋` (a true subtraction: the
    sum never exceeds `a`), keys and order unchanged. -/
theorem C17_roy_remainder {g g' : GBal} {rs : List (Option RoyaltyInfo)} {ms : List OutMsg} {s : Nat}
    (hb : g.bounded) (h : royalties g rs = .ok g' ms s) :
    g'.native = g.native.map (fun c =>
      ⟨c.key, c.amount - ((rs.filterMap id).map fun e => c.amount * e.bps / 10000).sum⟩) ∧
    g'.cw20 = g.cw20.map (fun c =>
      ⟨c.key, c.amount - ((rs.filterMap id).map fun e => c.amount * e.bps / 10000).sum⟩) ∧
    (∀ c ∈ g.native ++ g.cw20,
      ((rs.filterMap id).map fun e => c.amount * e.bps / 10000).sum ≤ c.amount) := by
  obtain ⟨_, h5, hg, _, l1, l2⟩ := royalties_closed h
  have hbps : ∀ r ∈ rs.filterMap id, r.bps ≤ 10000 := fun r hr => by
    have := bps_le_of_sum_le (s := 5000) h5 r hr; omega
  subst hg
  refine ⟨?_, ?_, ?_⟩
  · apply List.map_congr_left
    intro c hc
    simp only [royRem, roySum_eq_shareSum (hb.1 c hc) hbps, shareSum]
  · apply List.map_congr_left
    intro c hc
    simp only [royRem, roySum_eq_shareSum (hb.2 c hc) hbps, shareSum]
  · intro c hc
    rcases List.mem_append.1 hc with hc | hc
    · have := l1 c hc
      rw [roySum_eq_shareSum (hb.1 c hc) hbps] at this
      exact this
    · have := l2 c hc
      rw [roySum_eq_shareSum (hb.2 c hc) hbps] at this
      exact this

example : exBal.bounded ∧ royalties exBal exRoy = .ok exBalRoy exMsgs 310 := ⟨by decide, by rfl⟩
/-- … and at the top of the range: `Uint128::MAX` with the maximal 50 % rate sum -/
example : exBalMax.bounded ∧ royalties exBalMax exRoyHalf = .ok exBalMaxRoy exMsgsMax 5000 :=
  ⟨by decide, by rfl⟩

/-- index form of `C17_roy_remainder` for the native list: the i-th coin keeps its key and its
    amount `a` becomes `a − Σ⌊a·bpsᵢ/10⁴⌋`. -/
theorem C17_roy_remainder_native_idx {g g' : GBal} {rs : List (Option RoyaltyInfo)}
    {ms : List OutMsg} {s : Nat} (hb : g.bounded) (h : royalties g rs = .ok g' ms s) :
    g'.native.length = g.native.length ∧
    ∀ i (h₁ : i < g.native.length) (h₂ : i < g'.native.length),
      g'.native[i].key = g.native[i].key ∧
      g'.native[i].amount = g.native[i].amount -
        ((rs.filterMap id).map fun e => g.native[i].amount * e.bps / 10000).sum := by
  obtain ⟨e, _, _⟩ := C17_roy_remainder hb h
  refine ⟨by rw [e, List.length_map], ?_⟩
  intro i h₁ h₂
  simp only [e, List.getElem_map, and_self]

example : exBal.bounded ∧ royalties exBal exRoy = .ok exBalRoy exMsgs 310 := ⟨by decide, by rfl⟩
/-- … and at the top of the range: `Uint128::MAX` with the maximal 50 % rate sum -/
example : exBalMax.bounded ∧ royalties exBalMax exRoyHalf = .ok exBalMaxRoy exMsgsMax 5000 :=
  ⟨by decide, by rfl⟩

/-- index form of `C17_roy_remainder` for the CW20 list. -/
theorem C17_roy_remainder_cw20_idx {g g' : GBal} {rs : List (Option RoyaltyInfo)}
    {ms : List OutMsg} {s : Nat} (hb : g.bounded) (h : royalties g rs = .ok g' ms s) :
    g'.cw20.length = g.cw20.length ∧
    ∀ i (h₁ : i < g.cw20.length) (h₂ : i < g'.cw20.length),
      g'.cw20[i].key = g.cw20[i].key ∧
      g'.cw20[i].amount = g.cw20[i].amount -
        ((rs.filterMap id).map fun e => g.cw20[i].amount * e.bps / 10000).sum := by
  obtain ⟨_, e, _⟩ := C17_roy_remainder hb h
  refine ⟨by rw [e, List.length_map], ?_⟩
  intro i h₁ h₂
  simp only [e, List.getElem_map, and_self]

example : exBal.bounded ∧ royalties exBal exRoy = .ok exBalRoy exMsgs 310 := ⟨by decide, by rfl⟩
/-- … and at the top of the range: `Uint128::MAX` with the maximal 50 % rate sum -/
example : exBalMax.bounded ∧ royalties exBalMax exRoyHalf = .ok exBalMaxRoy exMsgsMax 5000 :=
  ⟨by decide, by rfl⟩

/-- "never overflow" (royalties): 128-bit amounts stay 128-bit amounts, and every amount in a
    payout message fits 128 bits. -/
theorem C17_roy_bounded {g g' : GBal} {rs : List (Option RoyaltyInfo)} {ms : List OutMsg} {s : Nat}
    (hb : g.bounded) (h : royalties g rs = .ok g' ms s) :
    g'.bounded ∧ ∀ m ∈ ms, m.amtBounded := by
  obtain ⟨_, _, hg, hm, _, _⟩ := royalties_closed h
  subst hg hm
  refine ⟨⟨?_, ?_⟩, ?_⟩
  · intro x hx
    obtain ⟨c, hc, e⟩ := List.mem_map.1 hx
    subst e
    have := hb.1 c hc
    simp only [royRem]; omega
  · intro x hx
    obtain ⟨c, hc, e⟩ := List.mem_map.1 hx
    subst e
    have := hb.2 c hc
    simp only [royRem]; omega
  · intro m hm
    rcases List.mem_append.1 hm with hm | hm
    · obtain ⟨c, _, hm⟩ := List.mem_flatMap.1 hm
      obtain ⟨p, hp, e⟩ := List.mem_map.1 hm
      obtain ⟨r, _, e2, _⟩ := royPays_mem hp
      subst e e2
      intro x hx
      simp only [List.mem_singleton] at hx
      subst hx
      exact royAmt_le_max _ _
    · obtain ⟨c, _, hm⟩ := List.mem_flatMap.1 hm
      obtain ⟨p, hp, e⟩ := List.mem_map.1 hm
      obtain ⟨r, _, e2, _⟩ := royPays_mem hp
      subst e e2
      exact royAmt_le_max _ _

example : exBal.bounded ∧ royalties exBal exRoy = .ok exBalRoy exMsgs 310 := ⟨by decide, by rfl⟩
/-- … and at the top of the range: `Uint128::MAX` with the maximal 50 % rate sum -/
example : exBalMax.bounded ∧ royalties exBalMax exRoyHalf = .ok exBalMaxRoy exMsgsMax 5000 :=
  ⟨by decide, by rfl⟩

#print axioms C17_fee_total
#print axioms C17_fee_floor
#print axioms C17_fee_conserve
#print axioms C17_fee_other
#print axioms C17_fee_keys_perm
#print axioms C17_fee_wf
#print axioms C17_fee_bounded
#print axioms C17_roy_total_any
#print axioms C17_roy_err
#print axioms C17_roy_no_panic
#print axioms C17_roy_total
#print axioms C17_roy_conserve
#print axioms C17_roy_msgs
#print axioms C17_roy_remainder
#print axioms C17_roy_remainder_native_idx
#print axioms C17_roy_remainder_cw20_idx
#print axioms C17_roy_bounded

end Fuzion
